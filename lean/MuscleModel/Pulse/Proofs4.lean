import MuscleModel.Pulse.Proofs3

/-!
# Lemmas for C20, part 4: fired nodes lose their standing request for the rest of the pulse sweep;
`GetPulseTimeAux` asks every node without a standing request that it visits and empties the NEEDSRECALC
list of every node it visits.
-/

set_option linter.unusedSimpArgs false
set_option linter.unusedVariables false

namespace Muscle.Pulse

theorem runAct_log (never d : Nat) (w w' : World) (a : Act) (h : runAct never d w a = some w') :
    w'.log = w.log ∧ Mono w.f w'.f := by
  cases a with
  | inval id clear =>
    simp only [runAct, Option.map_eq_some_iff] at h
    obtain ⟨f', hf, rfl⟩ := h
    exact ⟨rfl, invalidate_mono never d w.f id clear f' hf⟩
  | setReq id t => simp only [runAct] at h; cases h; exact ⟨rfl, Mono.refl _⟩
  | detach id =>
    simp only [runAct, Option.map_eq_some_iff] at h
    obtain ⟨f', hf, rfl⟩ := h
    exact ⟨rfl, detach_mono never d w.f id f' hf⟩
  | attach c p =>
    simp only [runAct] at h
    split at h
    · cases h; exact ⟨rfl, Mono.refl _⟩
    · simp only [Option.map_eq_some_iff] at h
      obtain ⟨f', hf, rfl⟩ := h
      exact ⟨rfl, putChild_mono never d w.f p c f' hf⟩

theorem runActs_log (never d : Nat) : ∀ (l : List Act) (w w' : World),
    runActs never d w l = some w' → w'.log = w.log ∧ Mono w.f w'.f := by
  intro l
  induction l with
  | nil => intro w w' h; simp [runActs] at h; subst h; exact ⟨rfl, Mono.refl _⟩
  | cons a r ih =>
    intro w w' h
    simp only [runActs] at h
    split at h
    · rename_i w1 h1
      obtain ⟨a1, a2⟩ := runAct_log never d w w1 a h1
      obtain ⟨b1, b2⟩ := ih w1 w' h
      exact ⟨b1.trans a1, a2.trans b2⟩
    · cases h

/-- what a (part of a) pulse sweep does to the log and to the standing requests: it appends `Pulse` entries
    only, each made at `now` for a node whose request stood and was due, every node named in a new entry has no
    standing request at the end, and no request is created or altered -/
def PulseStep (now : Nat) (w w' : World) : Prop :=
  ∃ l, w'.log = w.log ++ l ∧
    (∀ e ∈ l, ∃ id s, e = .P id now s ∧ s ≤ now ∧ (w'.f id).valid = false) ∧
    Mono w.f w'.f

theorem PulseStep.refl (now : Nat) (w : World) : PulseStep now w w :=
  ⟨[], by simp, by simp, Mono.refl _⟩

theorem PulseStep.trans {now : Nat} {a b c : World} (h1 : PulseStep now a b) (h2 : PulseStep now b c) :
    PulseStep now a c := by
  obtain ⟨l1, e1, p1, m1⟩ := h1
  obtain ⟨l2, e2, p2, m2⟩ := h2
  refine ⟨l1 ++ l2, by rw [e2, e1, List.append_assoc], ?_, m1.trans m2⟩
  intro e he
  rcases List.mem_append.mp he with he | he
  · obtain ⟨id, s, rfl, hs, hv⟩ := p1 e he
    refine ⟨id, s, rfl, hs, ?_⟩
    cases hc : (c.f id).valid with
    | false => rfl
    | true => have := (m2 id hc).1; rw [hv] at this; cases this
  · exact p2 e he

theorem callP_step (never d : Nat) (w w' : World) (n now : Nat) (ht : (w.f n).myTime ≤ now)
    (h : callP never d w n now = some w') : PulseStep now w w' := by
  simp only [callP] at h
  split at h
  · cases h
  · rename_i w2 h2
    cases h
    obtain ⟨hl, hm⟩ := runActs_log never d _ _ _ h2
    refine ⟨[.P n now (w.f n).myTime], by simp [hl], ?_, hm.trans (mono_unvalid w2.f n _ rfl)⟩
    intro e he
    have : e = .P n now (w.f n).myTime := by simpa using he
    exact ⟨n, (w.f n).myTime, this, ht, by simp [upd]⟩

theorem pulseFinish_step (never d : Nat) (w w' : World) (n now : Nat)
    (h : pulseFinish never d w n = some w') : PulseStep now w w' := by
  simp only [pulseFinish] at h
  split at h
  · simp only [Option.map_eq_some_iff] at h
    obtain ⟨f', hf, rfl⟩ := h
    exact ⟨[], by simp, by simp, (resched_sameScalars never _ _ _ _ _ _ hf).mono⟩
  · cases h; exact PulseStep.refl now w

theorem pulse_step (never d : Nat) : ∀ (k : Nat),
    (∀ (w w' : World) (n now : Nat), pulseAux never d k w n now = some w' → PulseStep now w w') ∧
    (∀ (w w' : World) (n now : Nat), pulseLoop never d k w n now = some w' → PulseStep now w w') := by
  intro k
  induction k with
  | zero => exact ⟨fun w w' n now h => by simp [pulseAux] at h, fun w w' n now h => by simp [pulseLoop] at h⟩
  | succ k ih =>
    refine ⟨?_, ?_⟩
    · intro w w' n now h
      simp only [pulseAux] at h
      split at h
      · cases h
      · rename_i w1 h1
        have g1 : PulseStep now w w1 := by
          split at h1
          · rename_i hc
            exact callP_step never d w w1 n now hc.2 h1
          · cases h1; exact PulseStep.refl now w
        split at h
        · cases h
        · rename_i w2 h2
          exact (g1.trans (ih.2 w1 w2 n now h2)).trans (pulseFinish_step never d w2 w' n now h)
    · intro w w' n now h
      simp only [pulseLoop] at h
      split at h
      · cases h; exact PulseStep.refl now w
      · rename_i c _ _
        split at h
        · split at h
          · cases h
          · rename_i w1 h1
            exact (ih.1 w w1 c now h1).trans (ih.2 w1 w' n now h)
        · cases h; exact PulseStep.refl now w

/-- `PulseAux` on a node whose request stands and is due makes its callback first, with the time it asked for -/
theorem pulseAux_fires_self (never d k : Nat) (w w' : World) (n now : Nat)
    (hv : (w.f n).valid = true) (ht : (w.f n).myTime ≤ now)
    (h : pulseAux never d (k+1) w n now = some w') :
    ∃ l, w'.log = w.log ++ [.P n now (w.f n).myTime] ++ l := by
  simp only [pulseAux] at h
  split at h
  · cases h
  · rename_i w1 h1
    simp only [hv, ht, and_self, if_true, ge_iff_le] at h1
    have e1 : w1.log = w.log ++ [.P n now (w.f n).myTime] := by
      simp only [callP] at h1
      split at h1
      · cases h1
      · rename_i w2 h2
        cases h1
        simpa using (runActs_log never d _ _ _ h2).1
    split at h
    · cases h
    · rename_i w2 h2
      obtain ⟨l2, e2, _, _⟩ := (pulse_step never d k).2 w1 w2 n now h2
      obtain ⟨l3, e3, _, _⟩ := pulseFinish_step never d w2 w' n now h
      exact ⟨l2 ++ l3, by rw [e3, e2, e1]; simp⟩

/-- … and on a node whose request does not stand or is not yet due it does not make the node's callback -/
theorem pulseAux_skips_self (never d k : Nat) (w w' : World) (n now : Nat)
    (hn : ¬ ((w.f n).valid = true ∧ (w.f n).myTime ≤ now))
    (h : pulseAux never d (k+1) w n now = some w') :
    ∃ w1, pulseLoop never d k w n now = some w1 ∧ pulseFinish never d w1 n = some w' := by
  simp only [pulseAux] at h
  split at h
  · cases h
  · rename_i w1 h1
    simp only [ge_iff_le, hn, if_false] at h1
    cases h1
    split at h
    · cases h
    · rename_i w2 h2
      exact ⟨w2, h2, h⟩

/-! ## `GetPulseTimeAux` -/

/-- the `while(firstNeedy)` loop returns only when the node's NEEDSRECALC list is empty -/
theorem gptLoop_empties (never d : Nat) : ∀ (k : Nat) (w w' : World) (n now mn mn' : Nat),
    gptLoop never d k w n now mn = some (w', mn') → (w'.f n).recalc = [] := by
  intro k
  induction k with
  | zero => intro w w' n now mn mn' h; simp [gptLoop] at h
  | succ k ih =>
    intro w w' n now mn mn' h
    simp only [gptLoop] at h
    split at h
    · rename_i he
      cases h; exact he
    · split at h
      · cases h
      · rename_i w1 mn1 h1
        exact ih w1 w' n now mn1 mn' h

theorem callG_log (never d : Nat) (w w' : World) (n now : Nat) (h : callG never d w n now = some w') :
    w'.log = w.log ++ [.G n now (w.f n).myTime (w'.f n).myTime] := by
  simp only [callG] at h
  split at h
  · cases h
  · rename_i w2 h2
    cases h
    have := (runActs_log never d _ _ _ h2).1
    simp only [] at this
    simp [this, upd]

theorem gpt_log (never d : Nat) : ∀ (k : Nat),
    (∀ (w w' : World) (n now mn mn' : Nat), gptAux never d k w n now mn = some (w', mn') → ∃ l, w'.log = w.log ++ l) ∧
    (∀ (w w' : World) (n now mn mn' : Nat), gptLoop never d k w n now mn = some (w', mn') → ∃ l, w'.log = w.log ++ l) := by
  intro k
  induction k with
  | zero => exact ⟨fun w w' n now mn mn' h => by simp [gptAux] at h, fun w w' n now mn mn' h => by simp [gptLoop] at h⟩
  | succ k ih =>
    refine ⟨?_, ?_⟩
    · intro w w' n now mn mn' h
      simp only [gptAux] at h
      split at h
      · cases h
      · rename_i w1 h1
        have g1 : ∃ l, w1.log = w.log ++ l := by
          split at h1
          · cases h1; exact ⟨[], by simp⟩
          · exact ⟨_, callG_log never d w w1 n now h1⟩
        split at h
        · cases h
        · rename_i w2 mn2 h2
          obtain ⟨l1, e1⟩ := g1
          obtain ⟨l2, e2⟩ := ih.2 w1 w2 n now mn mn2 h2
          have e3 : w'.log = w2.log := by
            simp only [gptFinish] at h
            split at h
            · cases h; rfl
            · cases h
          exact ⟨l1 ++ l2, by rw [e3, e2, e1, List.append_assoc]⟩
    · intro w w' n now mn mn' h
      simp only [gptLoop] at h
      split at h
      · cases h; exact ⟨[], by simp⟩
      · rename_i c _ _
        split at h
        · cases h
        · rename_i w1 mn1 h1
          obtain ⟨l1, e1⟩ := ih.1 w w1 c now mn mn1 h1
          obtain ⟨l2, e2⟩ := ih.2 w1 w' n now mn1 mn' h
          exact ⟨l1 ++ l2, by rw [e2, e1, List.append_assoc]⟩

/-- a visited node without a standing request is asked, first thing, with the time it requested before -/
theorem gptAux_asks (never d k : Nat) (w w' : World) (n now mn mn' : Nat)
    (hv : (w.f n).valid = false) (h : gptAux never d (k+1) w n now mn = some (w', mn')) :
    ∃ ret l, w'.log = w.log ++ [.G n now (w.f n).myTime ret] ++ l := by
  simp only [gptAux] at h
  split at h
  · cases h
  · rename_i w1 h1
    simp only [hv] at h1
    have e1 := callG_log never d w w1 n now (by simpa using h1)
    split at h
    · cases h
    · rename_i w2 mn2 h2
      obtain ⟨l2, e2⟩ := (gpt_log never d k).2 w1 w2 n now mn mn2 h2
      have e3 : w'.log = w2.log := by
        simp only [gptFinish] at h
        split at h
        · cases h; rfl
        · cases h
      exact ⟨_, l2, by rw [e3, e2, e1]⟩

/-- a visited node whose request stands is not asked: the sweep goes straight to its children -/
theorem gptAux_keeps (never d k : Nat) (w w' : World) (n now mn mn' : Nat)
    (hv : (w.f n).valid = true) (h : gptAux never d (k+1) w n now mn = some (w', mn')) :
    ∃ w2 mn2, gptLoop never d k w n now mn = some (w2, mn2) ∧ gptFinish never d w2 n mn2 = some (w', mn') := by
  simp only [gptAux] at h
  split at h
  · cases h
  · rename_i w1 h1
    simp only [hv, if_true] at h1
    cases h1
    split at h
    · cases h
    · rename_i w2 mn2 h2
      exact ⟨w2, mn2, h2, h⟩

end Muscle.Pulse
