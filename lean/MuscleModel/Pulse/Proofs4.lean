import MuscleModel.Pulse.Proofs3

/-!
# Lemmas for C20, part 4: fired nodes lose their standing request for the rest of the pulse sweep;
`GetPulseTimeAux` asks every node without a standing request that it visits and empties the NEEDSRECALC
list of every node it visits.
-/

set_option linter.unusedSimpArgs false
set_option linter.unusedVariables false

namespace Muscle.Pulse

theorem runAct_log (never d : Nat) (w w' : World) (a : Act) (h : runAct never d w a = some w') :
    w'.log = w.log ∧ Mono w.f w'.f := by
  cases a with
  | inval id clear =>
    simp only [runAct, Option.map_eq_some_iff] at h
    obtain ⟨f', hf, rfl⟩ := h
    exact ⟨rfl, invalidate_mono never d w.f id clear f' hf⟩
  | setReq id t => simp only [runAct] at h; cases h; exact ⟨rfl, Mono.refl _⟩
  | detach id =>
    simp only [runAct, Option.map_eq_some_iff] at h
    obtain ⟨f', hf, rfl⟩ := h
    exact ⟨rfl, detach_mono never d w.f id f' hf⟩
  | attach c p =>
    simp only [runAct] at h
    split at h
    · cases h; exact ⟨rfl, Mono.refl _⟩
    · simp only [Option.map_eq_some_iff] at h
      obtain ⟨f', hf, rfl⟩ := h
      exact ⟨rfl, putChild_mono never d w.f p c f' hf⟩

theorem runActs_log (never d : Nat) : ∀ (l : List Act) (w w' : World),
    runActs never d w l = some w' → w'.log = w.log ∧ Mono w.f w'.f := by
  intro l
  induction l with
  | nil => intro w w' h; simp [runActs] at h; subst h; exact ⟨rfl, Mono.refl _⟩
  | cons a r ih =>
    intro w w' h
    simp only [runActs] at h
    split at h
    · rename_i w1 h1
      obtain ⟨a1, a2⟩ := runAct_log never d w w1 a h1
      obtain ⟨b1, b2⟩ := ih w1 w' h
      exact ⟨b1.trans a1, a2.trans b2⟩
    · cases h

/-- what a (part of a) pulse sweep does to the log and to the standing requests: it appends `Pulse` entries
    only, each made at `now` for a node whose request stood and was due, every node named in a new entry has no
    standing request at the end, and no request is created or altered -/
def PulseStep (now : Nat) (w w' : World) : Prop :=
  ∃ l, w'.log = w.log ++ l ∧
    (∀ e ∈ l, ∃ id s, e = .P id now s ∧ s ≤ now ∧ (w'.f id).valid = false) ∧
    Mono w.f w'.f

theorem PulseStep.refl (now : Nat) (w : World) : PulseStep now w w :=
  ⟨[], by simp, by simp, Mono.refl _⟩

theorem PulseStep.trans {now : Nat} {a b c : World} (h1 : PulseStep now a b) (h2 : PulseStep now b c) :
    PulseStep now a c := by
  obtain ⟨l1, e1, p1, m1⟩ := h1
  obtain ⟨l2, e2, p2, m2⟩ := h2
  refine ⟨l1 ++ l2, by rw [e2, e1, List.append_assoc], ?_, m1.trans m2⟩
  intro e he
  rcases List.mem_append.mp he with he | he
  · obtain ⟨id, s, rfl, hs, hv⟩ := p1 e he
    refine ⟨id, s, rfl, hs, ?_⟩
    cases hc : (c.f id).valid with
    | false => rfl
    | true => have := (m2 id hc).1; rw [hv] at this; cases this
  · exact p2 e he

theorem callP_step (never d : Nat) (w w' : World) (n now : Nat) (ht : (w.f n).myTime ≤ now)
    (h : callP never d w n now = some w') : PulseStep now w w' := by
  simp only [callP] at h
  split at h
  · cases h
  · rename_i w2 h2
    cases h
    obtain ⟨hl, hm⟩ := runActs_log never d _ _ _ h2
    refine ⟨[.P n now (w.f n).myTime], by simp [hl], ?_, hm.trans (mono_unvalid w2.f n _ rfl)⟩
    intro e he
    have : e = .P n now (w.f n).myTime := by simpa using he
    exact ⟨n, (w.f n).myTime, this, ht, by simp [upd]⟩

theorem pulseFinish_step (never d : Nat) (w w' : World) (n now : Nat)
    (h : pulseFinish never d w n = some w') : PulseStep now w w' := by
  simp only [pulseFinish] at h
  split at h
  · simp only [Option.map_eq_some_iff] at h
    obtain ⟨f', hf, rfl⟩ := h
    exact ⟨[], by simp, by simp, (resched_sameScalars never _ _ _ _ _ _ hf).mono⟩
  · cases h; exact PulseStep.refl now w

theorem pulse_step (never d : Nat) : ∀ (k : Nat),
    (∀ (w w' : World) (n now : Nat), pulseAux never d k w n now = some w' → PulseStep now w w') ∧
    (∀ (w w' : World) (n now : Nat), pulseLoop never d k w n now = some w' → PulseStep now w w') := by
  intro k
  induction k with
  | zero => exact ⟨fun w w' n now h => by simp [pulseAux] at h, fun w w' n now h => by simp [pulseLoop] at h⟩
  | succ k ih =>
    refine ⟨?_, ?_⟩
    · intro w w' n now h
      simp only [pulseAux] at h
      split at h
      · cases h
      · rename_i w1 h1
        have g1 : PulseStep now w w1 := by
          split at h1
          · rename_i hc
            exact callP_step never d w w1 n now hc.2 h1
          · cases h1; exact PulseStep.refl now w
        split at h
        · cases h
        · rename_i w2 h2
          exact (g1.trans (ih.2 w1 w2 n now h2)).trans (pulseFinish_step never d w2 w' n now h)
    · intro w w' n now h
      simp only [pulseLoop] at h
      split at h
      · cases h; exact PulseStep.refl now w
      · rename_i c _ _
        split at h
        · split at h
          · cases h
          · rename_i w1 h1
            exact (ih.1 w w1 c now h1).trans (ih.2 w1 w' n now h)
        · cases h; exact PulseStep.refl now w

/-- `PulseAux` on a node whose request stands and is due makes its callback first, with the time it asked for -/
theorem pulseAux_fires_self (never d k : Nat) (w w' : World) (n now : Nat)
    (hv : (w.f n).valid = true) (ht : (w.f n).myTime ≤ now)
    (h : pulseAux never d (k+1) w n now = some w') :
    ∃ l, w'.log = w.log ++ [.P n now (w.f n).myTime] ++ l := by
  simp only [pulseAux] at h
  split at h
  · cases h
  · rename_i w1 h1
    simp only [hv, ht, and_self, if_true, ge_iff_le] at h1
    have e1 : w1.log = w.log ++ [.P n now (w.f n).myTime] := by
      simp only [callP] at h1
      split at h1
      · cases h1
      · rename_i w2 h2
        cases h1
        simpa using (runActs_log never d _ _ _ h2).1
    split at h
    · cases h
    · rename_i w2 h2
      obtain ⟨l2, e2, _, _⟩ := (pulse_step never d k).2 w1 w2 n now h2
      obtain ⟨l3, e3, _, _⟩ := pulseFinish_step never d w2 w' n now h
      exact ⟨l2 ++ l3, by rw [e3, e2, e1]; simp⟩

/-- … and on a node whose request does not stand or is not yet due it does not make the node's callback -/
theorem pulseAux_skips_self (never d k : Nat) (w w' : World) (n now : Nat)
    (hn : ¬ ((w.f n).valid = true ∧ (w.f n).myTime ≤ now))
    (h : pulseAux never d (k+1) w n now = some w') :
    ∃ w1, pulseLoop never d k w n now = some w1 ∧ pulseFinish never d w1 n = some w' := by
  simp only [pulseAux] at h
  split at h
  · cases h
  · rename_i w1 h1
    simp only [ge_iff_le, hn, if_false] at h1
    cases h1
    split at h
    · cases h
    · rename_i w2 h2
      exact ⟨w2, h2, h⟩

/-! ## `GetPulseTimeAux` -/

/-- the `while(firstNeedy)` loop returns only when the node's NEEDSRECALC list is empty -/
theorem gptLoop_empties (never d : Nat) : ∀ (k : Nat) (w w' : World) (n now mn mn' : Nat),
    gptLoop never d k w n now mn = some (w', mn') → (w'.f n).recalc = [] := by
  intro k
  induction k with
  | zero => intro w w' n now mn mn' h; simp [gptLoop] at h
  | succ k ih =>
    intro w w' n now mn mn' h
    simp only [gptLoop] at h
    split at h
    · rename_i he
      cases h; exact he
    · split at h
      · cases h
      · rename_i w1 mn1 h1
        exact ih w1 w' n now mn1 mn' h

theorem callG_log (never d : Nat) (w w' : World) (n now : Nat) (h : callG never d w n now = some w') :
    w'.log = w.log ++ [.G n now (w.f n).myTime (w'.f n).myTime] := by
  simp only [callG] at h
  split at h
  · cases h
  · rename_i w2 h2
    cases h
    have := (runActs_log never d _ _ _ h2).1
    simp only [] at this
    simp [this, upd]

theorem gptFinish_log (never d : Nat) (w w' : World) (n mn mn' : Nat)
    (h : gptFinish never d w n mn = some (w', mn')) : w'.log = w.log := by
  simp only [gptFinish] at h
  split at h
  · cases h; rfl
  · cases h

/-- the shape of one `GetPulseTimeAux` call: a first pass (ask if the request does not stand, recalculate the needy
    children); a second pass exactly when the request does not stand after the first; then the filing.  In particular a
    node is asked at most twice by its own `GetPulseTimeAux` call, however often it invalidates itself. -/
theorem gptAux_shape (never d k : Nat) (w w' : World) (n now mn m : Nat)
    (h : gptAux never d (k+1) w n now mn = some (w', m)) :
    ∃ w1 w2 m2, (if (w.f n).valid then some w else callG never d w n now) = some w1 ∧
      gptLoop never d k w1 n now mn = some (w2, m2) ∧
      (((w2.f n).valid = true ∧ gptFinish never d w2 n m2 = some (w', m)) ∨
       ((w2.f n).valid = false ∧ ∃ w3 w4 m4, callG never d w2 n now = some w3 ∧
          gptLoop never d k w3 n now m2 = some (w4, m4) ∧ gptFinish never d w4 n m4 = some (w', m))) := by
  simp only [gptAux] at h
  split at h
  · cases h
  · rename_i w1 h1
    split at h
    · cases h
    · rename_i w2 m2 h2
      refine ⟨w1, w2, m2, h1, h2, ?_⟩
      split at h
      · rename_i hv; exact Or.inl ⟨hv, h⟩
      · rename_i hv
        refine Or.inr ⟨by simpa using hv, ?_⟩
        split at h
        · cases h
        · rename_i w3 h3
          split at h
          · cases h
          · rename_i w4 m4 h4
            exact ⟨w3, w4, m4, h3, h4, h⟩

theorem gpt_log (never d : Nat) : ∀ (k : Nat),
    (∀ (w w' : World) (n now mn mn' : Nat), gptAux never d k w n now mn = some (w', mn') → ∃ l, w'.log = w.log ++ l) ∧
    (∀ (w w' : World) (n now mn mn' : Nat), gptLoop never d k w n now mn = some (w', mn') → ∃ l, w'.log = w.log ++ l) := by
  intro k
  induction k with
  | zero => exact ⟨fun w w' n now mn mn' h => by simp [gptAux] at h, fun w w' n now mn mn' h => by simp [gptLoop] at h⟩
  | succ k ih =>
    refine ⟨?_, ?_⟩
    · intro w w' n now mn mn' h
      obtain ⟨w1, w2, m2, h1, h2, hr⟩ := gptAux_shape never d k w w' n now mn mn' h
      have g1 : ∃ l, w1.log = w.log ++ l := by
        split at h1
        · cases h1; exact ⟨[], by simp⟩
        · exact ⟨_, callG_log never d w w1 n now h1⟩
      obtain ⟨l1, e1⟩ := g1
      obtain ⟨l2, e2⟩ := ih.2 w1 w2 n now mn m2 h2
      rcases hr with ⟨_, hf⟩ | ⟨_, w3, w4, m4, h3, h4, hf⟩
      · exact ⟨l1 ++ l2, by rw [gptFinish_log never d w2 w' n m2 mn' hf, e2, e1, List.append_assoc]⟩
      · have e3 := callG_log never d w2 w3 n now h3
        obtain ⟨l4, e4⟩ := ih.2 w3 w4 n now m2 m4 h4
        exact ⟨l1 ++ l2 ++ [.G n now (w2.f n).myTime (w3.f n).myTime] ++ l4, by
          rw [gptFinish_log never d w4 w' n m4 mn' hf, e4, e3, e2, e1]; simp⟩
    · intro w w' n now mn mn' h
      simp only [gptLoop] at h
      split at h
      · cases h; exact ⟨[], by simp⟩
      · rename_i c _ _
        split at h
        · cases h
        · rename_i w1 mn1 h1
          obtain ⟨l1, e1⟩ := ih.1 w w1 c now mn mn1 h1
          obtain ⟨l2, e2⟩ := ih.2 w1 w' n now mn1 mn' h
          exact ⟨l1 ++ l2, by rw [e2, e1, List.append_assoc]⟩

/-- a visited node without a standing request is asked, first thing, with the time it requested before -/
theorem gptAux_asks (never d k : Nat) (w w' : World) (n now mn mn' : Nat)
    (hv : (w.f n).valid = false) (h : gptAux never d (k+1) w n now mn = some (w', mn')) :
    ∃ ret l, w'.log = w.log ++ [.G n now (w.f n).myTime ret] ++ l := by
  obtain ⟨l, e⟩ := (gpt_log never d (k+1)).1 w w' n now mn mn' h
  obtain ⟨w1, w2, m2, h1, h2, hr⟩ := gptAux_shape never d k w w' n now mn mn' h
  simp only [hv] at h1
  have e1 := callG_log never d w w1 n now (by simpa using h1)
  obtain ⟨l2, e2⟩ := (gpt_log never d k).2 w1 w2 n now mn m2 h2
  rcases hr with ⟨_, hf⟩ | ⟨_, w3, w4, m4, h3, h4, hf⟩
  · exact ⟨_, l2, by rw [gptFinish_log never d w2 w' n m2 mn' hf, e2, e1]⟩
  · have e3 := callG_log never d w2 w3 n now h3
    obtain ⟨l4, e4⟩ := (gpt_log never d k).2 w3 w4 n now m2 m4 h4
    exact ⟨(w1.f n).myTime, l2 ++ [.G n now (w2.f n).myTime (w3.f n).myTime] ++ l4, by
      rw [gptFinish_log never d w4 w' n m4 mn' hf, e4, e3, e2, e1]; simp⟩

/-- THE REPAIR, part 1: a request that is invalidated while the node's own `GetPulseTimeAux` is in progress (by its own
    `GetPulseTime`, by a descendant's callback, by a detach + re-attach) is not lost: the node is asked again in the same
    call, with the answer it gave the first time as the previous time -/
theorem gptAux_reasks_in_progress (never d k : Nat) (w w' : World) (n now mn m : Nat)
    (h : gptAux never d (k+1) w n now mn = some (w', m)) (w1 w2 : World) (m2 : Nat)
    (h1 : (if (w.f n).valid then some w else callG never d w n now) = some w1)
    (h2 : gptLoop never d k w1 n now mn = some (w2, m2)) (hv : (w2.f n).valid = false) :
    ∃ ret l, w'.log = w2.log ++ [.G n now (w2.f n).myTime ret] ++ l := by
  obtain ⟨w1', w2', m2', h1', h2', hr⟩ := gptAux_shape never d k w w' n now mn m h
  rw [h1] at h1'; cases h1'
  rw [h2] at h2'; cases h2'
  rcases hr with ⟨hv', _⟩ | ⟨_, w3, w4, m4, h3, h4, hf⟩
  · rw [hv] at hv'; cases hv'
  · have e3 := callG_log never d w2 w3 n now h3
    obtain ⟨l4, e4⟩ := (gpt_log never d k).2 w3 w4 n now m2 m4 h4
    exact ⟨_, l4, by rw [gptFinish_log never d w4 w' n m4 m hf, e4, e3]⟩

/-- THE REPAIR, part 2: when `GetPulseTimeAux` returns, the node's request stands — or (it was invalidated yet again during
    the re-evaluation) its aggregate time is 0 and the reported wake-up time is 0, so the event loop does not wait and the
    next `PulseAux` visits the node -/
theorem gptAux_live (never d k : Nat) (w w' : World) (n now mn m : Nat)
    (h : gptAux never d (k+1) w n now mn = some (w', m)) :
    (w'.f n).valid = true ∨ ((w'.f n).agg = 0 ∧ m = 0) := by
  obtain ⟨w1, w2, m2, h1, h2, hr⟩ := gptAux_shape never d k w w' n now mn m h
  rcases hr with ⟨hv, hf⟩ | ⟨_, w3, w4, m4, h3, h4, hf⟩
  · exact Or.inl (by rw [(gptFinish_live never d w2 w' n m2 m hf).1]; exact hv)
  · have hl := gptFinish_live never d w4 w' n m4 m hf
    cases hv4 : (w4.f n).valid with
    | true => exact Or.inl (by rw [hl.1]; exact hv4)
    | false => exact Or.inr (hl.2 hv4)

/-- what `PulseAux` does with such a node (and with every node it visits): if the node still has a parent at the end,
    it is flagged NEEDSRECALC — so the next `GetPulseTimeAux` sweep asks it -/
theorem resched_recalc_cur (never : Nat) : ∀ (d : Nat) (f : Forest) (p c : Nat) (f' : Forest),
    resched never d f p c (some .recalc) = some f' →
    (∀ x, (f x).cur = some .recalc → (f' x).cur = some .recalc) ∧ (f' c).cur = some .recalc := by
  intro d
  induction d with
  | zero => intro f p c f' h; simp [resched] at h
  | succ d ih =>
    intro f p c f' h
    simp only [resched] at h
    by_cases hc : (f c).cur = some .recalc
    · have : ¬ (some Which.recalc ≠ (f c).cur ∨ (f c).cur = some Which.sched) := by rw [hc]; simp
      simp only [this, if_false] at h
      cases h; exact ⟨fun _ hx => hx, hc⟩
    · have hcond : (some Which.recalc ≠ (f c).cur ∨ (f c).cur = some Which.sched) := Or.inl (fun e => hc e.symm)
      simp only [hcond, if_true] at h
      have cur_upd_list : ∀ (g : Forest) (q : Nat) (wh : Which) (l : List Nat) (x : Nat),
          (setL g q wh l x).cur = (g x).cur := by
        intro g q wh l x
        unfold setL upd
        by_cases hx : x = q
        · subst hx; cases wh <;> simp [Node.setList]
        · simp [hx]
      have k2 : ∀ x, (f x).cur = some .recalc → (setCur (unlink f p c) c (some .recalc) x).cur = some .recalc := by
        intro x hx
        unfold setCur upd
        by_cases hxc : x = c
        · simp [hxc]
        · simp only [hxc, if_false]
          unfold unlink
          cases hl : (f c).cur with
          | none => exact hx
          | some l => show (setL f p l _ x).cur = _; rw [cur_upd_list]; exact hx
      have c2 : (setCur (unlink f p c) c (some .recalc) c).cur = some .recalc := by simp [setCur, upd]
      generalize setCur (unlink f p c) c (some .recalc) = f2 at h k2 c2
      split at h
      · rename_i f3 h3
        cases h
        have k3 : ∀ x, (f2 x).cur = some .recalc → (f3 x).cur = some .recalc := by
          split at h3
          · exact (ih _ _ _ _ h3).1
          · cases h3; exact fun _ hx => hx
        exact ⟨fun x hx => by rw [cur_upd_list]; exact k3 x (k2 x hx), by rw [cur_upd_list]; exact k3 c c2⟩
      · cases h

theorem pulseAux_marks (never d k : Nat) (w w' : World) (n now : Nat)
    (h : pulseAux never d (k+1) w n now = some w') (q : Nat) (hq : (w'.f n).parent = some q) :
    (w'.f n).cur = some .recalc := by
  simp only [pulseAux] at h
  split at h
  · cases h
  · split at h
    · cases h
    · rename_i w2 h2
      simp only [pulseFinish] at h
      split at h
      · rename_i p hp
        simp only [Option.map_eq_some_iff] at h
        obtain ⟨f', hf, rfl⟩ := h
        exact (resched_recalc_cur never d w2.f p n f' hf).2
      · rename_i hp
        cases h
        rw [hp] at hq; cases hq

end Muscle.Pulse
