import MuscleModel.Pulse.Proofs17

/-!
# Lemmas for C20, part 18: the quiet recalculation sweep completes with fuel `B * (N + 2)`.
-/

set_option linter.unusedSimpArgs false
set_option linter.unusedVariables false

namespace Muscle.Pulse

/-- the invariants the termination proof carries for the frame of `n` with the frames `S` above it -/
def GT (never B N r : Nat) (ht : Nat → Nat) (n : Nat) (S : List Nat) (v : World) : Prop :=
  Inv never v.f ∧ V v.f ∧ GQuiet v ∧ HeightLe B ht v.f ∧ (∀ x, (v.f x).recalc.length ≤ N) ∧
  Chain v.f (n :: S) ∧ (n :: S).Nodup ∧ (∀ y ∈ n :: S, Unfiled v.f y) ∧ (∀ y ∈ n :: S, Desc v.f r y)

/-- a NEEDSRECALC list after a (part of a) quiet recalculation sweep is contained in the list before: nothing is flagged -/
theorem recalc_subset (never : Nat) (f f1 : Forest) (hi : Inv never f) (hv : V f) (hi1 : Inv never f1)
    (hpar : ∀ z, (f1 z).parent = (f z).parent) (hfs : FSR f f1) (m x : Nat) (hx : x ∈ (f1 m).recalc) :
    x ∈ (f m).recalc := by
  obtain ⟨hp, hc⟩ := hi1.1.sound m x .recalc hx
  have hp0 : (f x).parent = some m := by rw [← hpar x]; exact hp
  cases hcur : (f x).cur with
  | none => exact absurd hcur (hi.1.childcur x m hp0)
  | some l =>
    cases l with
    | recalc => exact hi.1.complete x m .recalc (fun h => h) hp0 hcur
    | sched =>
      exfalso
      have hf : Filed f x := ⟨⟨m, hp0⟩, Or.inl hcur⟩
      have hval : (f x).valid = true := by
        cases hvx : (f x).valid with
        | true => rfl
        | false => have := hv x m (fun e => e) hp0 hvx; rw [hcur] at this; cases this
      obtain ⟨g1, _, _⟩ := hfs x hf hval
      rcases g1.2 with e | e <;> (rw [hc] at e; cases e)
    | unsched =>
      exfalso
      have hf : Filed f x := ⟨⟨m, hp0⟩, Or.inr hcur⟩
      have hval : (f x).valid = true := by
        cases hvx : (f x).valid with
        | true => rfl
        | false => have := hv x m (fun e => e) hp0 hvx; rw [hcur] at this; cases this
      obtain ⟨g1, _, _⟩ := hfs x hf hval
      rcases g1.2 with e | e <;> (rw [hc] at e; cases e)

/-- the sweep of `n`, `ht n ≤ h`, completes with fuel `(h + 1) * (N + 2)` -/
theorem gptAux_terminates (never d B N r now : Nat) (ht : Nat → Nat) (hd : B < d) :
    ∀ (h : Nat) (n : Nat) (S : List Nat) (v : World) (mn : Nat),
    GT never B N r ht n S v → ht n ≤ h → ∃ res, gptAux never d ((h + 1) * (N + 2)) v n now mn = some res := by
  intro h
  induction h with
  | zero =>
    intro n S v mn hP hn
    have := gptAux_terminates_step never d B 0 N n now ht hd (GT never B N r ht n S)
      (fun v hv => hv.2.2.2.1) (fun v hv => hv.2.2.1)
      (fun v' c t mn' hv hs => by
        exfalso
        have hm : c ∈ (v'.f n).list .recalc := by rw [list_recalc, hs]; simp
        have := hv.2.2.2.1.1 c n (hv.1.1.sound n c .recalc hm).1
        omega)
      (fun v' v1 hv hval e => by
        obtain ⟨hi, hV, hq, hH, hN, hch, hnd, hun, hde⟩ := hv
        have hc := callGC_of_quiet never d (n :: S) v' v1 n now hq e
        obtain ⟨a1, _, a3, a4⟩ := callGC_inv never d (n :: S) v' v1 n now (by simp) hc hi (hun n (by simp))
        obtain ⟨c1, c2, c3⟩ := callGC_quiet never d _ v' v1 n now true hq hval hc
        have hV1 := callGC_V never d _ v' v1 n now true hc hV
        refine ⟨a1, hV1, c1, heightLe_congr hH c3, fun x => ?_, chain_congr v'.f v1.f _ (fun y _ => c3 y) hch, hnd,
          fun y hy => a3 y (hun y hy), fun y hy => desc_congr c3 (hde y hy)⟩
        exact Nat.le_trans (nodup_subset_length _ _ (a1.1.nodup x .recalc)
          (fun y hy => recalc_subset never v'.f v1.f hi hV a1 c3 c2 x y hy)) (hN x))
      (fun v hv => hv.2.2.2.2.1 n) v mn hP
    simpa using this
  | succ h ih =>
    intro n S v mn hP hn
    have := gptAux_terminates_step never d B ((h + 1) * (N + 2)) N n now ht hd (GT never B N r ht n S)
      (fun v hv => hv.2.2.2.1) (fun v hv => hv.2.2.1)
      (fun v' c t mn' hv hs => by
        obtain ⟨hi, hV, hq, hH, hN, hch, hnd, hun, hde⟩ := hv
        have hm : c ∈ (v'.f n).list .recalc := by rw [list_recalc, hs]; simp
        obtain ⟨hpc, hcc⟩ := hi.1.sound n c .recalc hm
        have hlt := hH.1 c n hpc
        have hunc : Unfiled v'.f c := ⟨by rw [hcc]; simp, by rw [hcc]; simp⟩
        have hcn : c ∉ n :: S := child_not_on_stack v'.f n S hch hnd c hpc
        have hchc : Chain v'.f (c :: n :: S) := ⟨hpc, hch⟩
        have hndc : (c :: n :: S).Nodup := List.nodup_cons.mpr ⟨hcn, hnd⟩
        have hunc' : ∀ y ∈ c :: n :: S, Unfiled v'.f y := by
          intro y hy
          rcases List.mem_cons.mp hy with rfl | hy
          · exact hunc
          · exact hun y hy
        have hdesc' : ∀ y ∈ c :: n :: S, Desc v'.f r y := by
          intro y hy
          rcases List.mem_cons.mp hy with rfl | hy
          · exact Desc.step n y (hde n (by simp)) hpc
          · exact hde y hy
        obtain ⟨⟨v1, m1⟩, e1⟩ := ih c (n :: S) v' mn' ⟨hi, hV, hq, hH, hN, hchc, hndc, hunc', hdesc'⟩ (by omega)
        obtain ⟨ec, q1⟩ := (gptC_complete never d _).1 v' v1 c now mn' m1 (n :: S) hq e1
        obtain ⟨i1, k1, _⟩ := (gptC_inv never d _).1 v' v1 c now mn' m1 (n :: S) ec hi hchc hndc hunc'
        obtain ⟨_, fs1, par1, _, hfc, _⟩ := (gptC_min never d r _).1 v' v1 c now mn' m1 (n :: S) ec hi hq hchc hndc hunc' hdesc'
        obtain ⟨hV1, _⟩ := (gptC_V never d _).1 v' v1 c now mn' m1 (n :: S) ec hi hchc hndc hunc' hV
        have hsub : ∀ m x, x ∈ (v1.f m).recalc → x ∈ (v'.f m).recalc :=
          fun m x hx => recalc_subset never v'.f v1.f hi hV i1 par1 fs1 m x hx
        refine ⟨v1, m1, e1, ⟨i1, hV1, q1, heightLe_congr hH par1, fun x => ?_,
          chain_congr v'.f v1.f _ (fun y _ => par1 y) hch, hnd, fun y hy => (k1 y hy).2.2 (hun y hy),
          fun y hy => desc_congr par1 (hde y hy)⟩, ?_⟩
        · exact Nat.le_trans (nodup_subset_length _ _ (i1.1.nodup x .recalc) (hsub x)) (hN x)
        · apply nodup_subset_erase_length _ _ c (i1.1.nodup n .recalc) (by rw [hs]; simp)
          intro x hx
          refine ⟨hsub n x hx, fun e => ?_⟩
          subst e
          have hf := hfc (by rw [hpc]; simp)
          have hc1 := (i1.1.sound n x .recalc hx).2
          rcases hf.2 with e | e <;> (rw [hc1] at e; cases e))
      (fun v' v1 hv hval e => by
        obtain ⟨hi, hV, hq, hH, hN, hch, hnd, hun, hde⟩ := hv
        have hc := callGC_of_quiet never d (n :: S) v' v1 n now hq e
        obtain ⟨a1, _, a3, a4⟩ := callGC_inv never d (n :: S) v' v1 n now (by simp) hc hi (hun n (by simp))
        obtain ⟨c1, c2, c3⟩ := callGC_quiet never d _ v' v1 n now true hq hval hc
        have hV1 := callGC_V never d _ v' v1 n now true hc hV
        refine ⟨a1, hV1, c1, heightLe_congr hH c3, fun x => ?_, chain_congr v'.f v1.f _ (fun y _ => c3 y) hch, hnd,
          fun y hy => a3 y (hun y hy), fun y hy => desc_congr c3 (hde y hy)⟩
        exact Nat.le_trans (nodup_subset_length _ _ (a1.1.nodup x .recalc)
          (fun y hy => recalc_subset never v'.f v1.f hi hV a1 c3 c2 x y hy)) (hN x))
      (fun v hv => hv.2.2.2.2.1 n) v mn hP
    have hfuel : (h + 1 + 1) * (N + 2) = (h + 1) * (N + 2) + N + 2 := by rw [Nat.succ_mul]; omega
    rw [hfuel]
    exact this

/-- `CallGetPulseTimeAux` on a root with quiet scripts completes with fuel `B * (N + 2)` (and with every larger fuel) -/
theorem managerGpt_terminates (never d B N : Nat) (ht : Nat → Nat) (hd : B < d) (w : World) (root now : Nat)
    (hi : Inv never w.f) (hV : V w.f) (hq : GQuiet w) (hH : HeightLe B ht w.f)
    (hN : ∀ x, (w.f x).recalc.length ≤ N) (hroot : (w.f root).parent = none) (k : Nat) (hk : B * (N + 2) ≤ k) :
    ∃ res, managerGpt never d k w root now = some res := by
  have hcur : (w.f root).cur = none := hi.1.rootcur root hroot
  have hP : GT never B N root ht root [] w := by
    refine ⟨hi, hV, hq, hH, hN, by simp [Chain, hroot], by simp, ?_, ?_⟩
    · intro y hy
      have hyr : y = root := List.mem_singleton.mp hy
      rw [hyr]; exact ⟨by rw [hcur]; simp, by rw [hcur]; simp⟩
    · intro y hy
      have hyr : y = root := List.mem_singleton.mp hy
      rw [hyr]; exact Desc.refl
  obtain ⟨res, e⟩ := gptAux_terminates never d B N root now ht hd (ht root) root [] w never hP (Nat.le_refl _)
  have hle : (ht root + 1) * (N + 2) ≤ k := Nat.le_trans (Nat.mul_le_mul_right _ (hH.2 root)) hk
  exact ⟨res, gpt_fuel_mono never d _ k hle w root now never res e⟩

end Muscle.Pulse
