import MuscleModel.Pulse.Proofs15

/-!
# Lemmas for C20, part 16: sufficient fuel.  (a) the recursion of `ReschedulePulseChild` up the parent chain completes with
fuel `d > B` when the parent relation has a height function bounded by `B`; so do all operations built from it.
(b) the walk of `PulseAux` over the SCHEDULED list completes with fuel `k + length + 1` when every child sweep completes with
fuel `k` and takes its node out of the list.
-/

set_option linter.unusedSimpArgs false
set_option linter.unusedVariables false

namespace Muscle.Pulse

/-- a height function bounded by `B` -/
def HeightLe (B : Nat) (ht : Nat → Nat) (f : Forest) : Prop :=
  (∀ c p, (f c).parent = some p → ht c < ht p) ∧ ∀ x, ht x < B

theorem heightLe_congr {B : Nat} {ht : Nat → Nat} {f f' : Forest} (h : HeightLe B ht f)
    (hp : ∀ x, (f' x).parent = (f x).parent) : HeightLe B ht f' :=
  ⟨fun c p e => h.1 c p (by rw [← hp c]; exact e), h.2⟩

/-- `ReschedulePulseChild(child, whichList)` called on `p` completes with fuel `d` as soon as `d + ht p > B` -/
theorem resched_terminates (never B : Nat) (ht : Nat → Nat) : ∀ (d : Nat) (f : Forest) (p c : Nat) (w : Option Which),
    HeightLe B ht f → B + 1 ≤ d + ht p → ∃ f', resched never d f p c w = some f' := by
  intro d
  induction d with
  | zero =>
    intro f p c w h hd
    have := h.2 p
    omega
  | succ d ih =>
    intro f p c w h hd
    simp only [resched]
    split
    · cases w with
      | none => exact ⟨_, rfl⟩
      | some l =>
        cases l with
        | sched => exact ⟨_, rfl⟩
        | unsched => exact ⟨_, rfl⟩
        | recalc =>
          simp only []
          have s2 : SameScalars f (setCur (unlink f p c) c (some .recalc)) := half_scalars f p c (some .recalc)
          have h2 : HeightLe B ht (setCur (unlink f p c) c (some .recalc)) := heightLe_congr h (fun x => (s2 x).2.2.2)
          generalize setCur (unlink f p c) c (some .recalc) = f2 at h2
          cases hg : (f2 p).parent with
          | none => exact ⟨_, rfl⟩
          | some g =>
            simp only []
            have hlt := h2.1 p g hg
            obtain ⟨f3, e3⟩ := ih f2 g p (some .recalc) h2 (by omega)
            rw [e3]
            exact ⟨_, rfl⟩
    · exact ⟨_, rfl⟩

/-- with `d > B` every call completes, whatever the node -/
theorem resched_terminates' (never B d : Nat) (ht : Nat → Nat) (f : Forest) (p c : Nat) (w : Option Which)
    (h : HeightLe B ht f) (hd : B < d) : ∃ f', resched never d f p c w = some f' :=
  resched_terminates never B ht d f p c w h (by omega)

theorem invalidate_terminates (never B d : Nat) (ht : Nat → Nat) (f : Forest) (n : Nat) (clear : Bool)
    (h : HeightLe B ht f) (hd : B < d) : ∃ f', invalidate never d f n clear = some f' := by
  simp only [invalidate]
  have h1 : HeightLe B ht (if clear then upd f n { (f n) with myTime := never } else f) := by
    split
    · apply heightLe_congr h
      intro x; unfold upd; by_cases hx : x = n
      · subst hx; simp
      · simp [hx]
    · exact h
  generalize (if clear then upd f n { (f n) with myTime := never } else f) = f1 at h1
  split
  · have h2 : HeightLe B ht (upd f1 n { (f1 n) with valid := false }) := by
      apply heightLe_congr h1
      intro x; unfold upd; by_cases hx : x = n
      · subst hx; simp
      · simp [hx]
    generalize (upd f1 n { (f1 n) with valid := false }) = f2 at h2
    split
    · exact resched_terminates' never B d ht f2 _ n _ h2 hd
    · exact ⟨_, rfl⟩
  · exact ⟨_, rfl⟩

theorem pulseFinish_terminates (never B d : Nat) (ht : Nat → Nat) (w : World) (n : Nat)
    (h : HeightLe B ht w.f) (hd : B < d) : ∃ w', pulseFinish never d w n = some w' := by
  simp only [pulseFinish]
  split
  · obtain ⟨f', e⟩ := resched_terminates' never B d ht w.f _ n (some .recalc) h hd
    rw [e]; exact ⟨_, rfl⟩
  · exact ⟨_, rfl⟩

theorem gptFinish_terminates (never B d : Nat) (ht : Nat → Nat) (w : World) (n mn : Nat)
    (h : HeightLe B ht w.f) (hd : B < d) : ∃ r, gptFinish never d w n mn = some r := by
  simp only [gptFinish]
  generalize (min (if (w.f n).valid = true then (w.f n).myTime else 0) (firstSchedAgg never w.f n)) = a
  have h3 : HeightLe B ht (upd w.f n { (w.f n) with agg := a }) :=
    heightLe_congr h (fun x => (setAgg_fields w.f n a x).1)
  generalize upd w.f n { (w.f n) with agg := a } = f3 at h3
  cases hp : (f3 n).parent with
  | none => exact ⟨_, rfl⟩
  | some p =>
    simp only []
    by_cases hc : (f3 n).cur = some Which.recalc ∨ a ≠ (w.f n).agg
    · simp only [hc, if_true]
      obtain ⟨f', e⟩ := resched_terminates' never B d ht f3 p n
        (some (if a = never then Which.unsched else Which.sched)) h3 hd
      rw [e]; exact ⟨_, rfl⟩
    · simp only [hc, if_false]; exact ⟨_, rfl⟩


/-! ## quiet callbacks always complete -/

theorem runActs_quiet_some (never d : Nat) : ∀ (l : List Act) (w : World), (∀ a ∈ l, Act.target a = none) →
    ∃ w', runActs never d w l = some w' := by
  intro l
  induction l with
  | nil => intro w _; exact ⟨w, rfl⟩
  | cons a r ih =>
    intro w hq
    have ha := hq a (by simp)
    cases a with
    | setReq id t =>
      simp only [runActs, runAct]
      exact ih _ (fun b hb => hq b (List.mem_cons_of_mem _ hb))
    | inval id c => simp [Act.target] at ha
    | detach id => simp [Act.target] at ha
    | attach c p => simp [Act.target] at ha

theorem callP_quiet_some (never d : Nat) (w : World) (n now : Nat) (hq : PQuiet w) :
    ∃ w', callP never d w n now = some w' := by
  simp only [callP]
  have hacts : ∀ a ∈ (w.pq n).headD [], Act.target a = none := by
    intro a ha
    cases hpq : w.pq n with
    | nil => rw [hpq] at ha; simp at ha
    | cons x t =>
      rw [hpq] at ha
      simp at ha
      exact hq n x (by rw [hpq]; simp) a ha
  obtain ⟨w2, e⟩ := runActs_quiet_some never d _
    { w with pq := updF w.pq n (w.pq n).tail, log := w.log ++ [.P n now (w.f n).myTime] } hacts
  rw [e]; exact ⟨_, rfl⟩

theorem callG_quiet_some (never d : Nat) (w : World) (n now : Nat) (hq : GQuiet w) :
    ∃ w', callG never d w n now = some w' := by
  simp only [callG]
  have hacts : ∀ a ∈ (w.gq n).headD [], Act.target a = none := by
    intro a ha
    cases hgq : w.gq n with
    | nil => rw [hgq] at ha; simp at ha
    | cons x t =>
      rw [hgq] at ha
      simp at ha
      exact hq n x (by rw [hgq]; simp) a ha
  obtain ⟨w2, e⟩ := runActs_quiet_some never d _
    { w with f := upd w.f n { (w.f n) with valid := true }, gq := updF w.gq n (w.gq n).tail } hacts
  rw [e]; exact ⟨_, rfl⟩

/-! ## the loops: fuel `k + length + 1` -/

/-- the walk of `PulseAux` over the SCHEDULED list of `n`: if, in every state satisfying `P`, the sweep of the first scheduled child
    completes with fuel `k`, re-establishes `P` and shortens the list, then the walk completes with fuel `k + length + 1` -/
theorem pulseLoop_terminates (never d k n now : Nat) (P : World → Prop)
    (hstep : ∀ v c t, P v → (v.f n).sched = c :: t → now ≥ (v.f c).agg →
      ∃ v1, pulseAux never d k v c now = some v1 ∧ P v1 ∧ (v1.f n).sched.length < (v.f n).sched.length) :
    ∀ (len : Nat) (w : World), P w → (w.f n).sched.length ≤ len →
      ∃ w', pulseLoop never d (k + len + 1) w n now = some w' ∧ P w' := by
  intro len
  induction len with
  | zero =>
    intro w hP hl
    have : (w.f n).sched = [] := List.eq_nil_of_length_eq_zero (by omega)
    simp only [pulseLoop, this]
    exact ⟨w, rfl, hP⟩
  | succ len ih =>
    intro w hP hl
    simp only [pulseLoop]
    cases hs : (w.f n).sched with
    | nil => exact ⟨w, rfl, hP⟩
    | cons c t =>
      simp only []
      by_cases hdue : now ≥ (w.f c).agg
      · simp only [hdue, if_true]
        obtain ⟨v1, e1, p1, hlt⟩ := hstep w c t hP hs hdue
        rw [pulse_fuel_mono never d k (k + (len + 1)) (by omega) w v1 c now e1]
        simp only []
        obtain ⟨w', e2, p2⟩ := ih v1 p1 (by omega)
        exact ⟨w', e2, p2⟩
      · simp only [hdue, if_false]
        exact ⟨w, rfl, hP⟩

/-- the loop of `GetPulseTimeAux` over the NEEDSRECALC list of `n`, in the same way -/
theorem gptLoop_terminates (never d k n now : Nat) (P : World → Prop)
    (hstep : ∀ v c t mn, P v → (v.f n).recalc = c :: t →
      ∃ v1 m1, gptAux never d k v c now mn = some (v1, m1) ∧ P v1 ∧ (v1.f n).recalc.length < (v.f n).recalc.length) :
    ∀ (len : Nat) (w : World) (mn : Nat), P w → (w.f n).recalc.length ≤ len →
      ∃ w' m', gptLoop never d (k + len + 1) w n now mn = some (w', m') ∧ P w' := by
  intro len
  induction len with
  | zero =>
    intro w mn hP hl
    have : (w.f n).recalc = [] := List.eq_nil_of_length_eq_zero (by omega)
    simp only [gptLoop, this]
    exact ⟨w, mn, rfl, hP⟩
  | succ len ih =>
    intro w mn hP hl
    simp only [gptLoop]
    cases hs : (w.f n).recalc with
    | nil => exact ⟨w, mn, rfl, hP⟩
    | cons c t =>
      simp only []
      obtain ⟨v1, m1, e1, p1, hlt⟩ := hstep w c t mn hP hs
      rw [gpt_fuel_mono never d k (k + (len + 1)) (by omega) w c now mn (v1, m1) e1]
      simp only []
      obtain ⟨w', m', e2, p2⟩ := ih v1 m1 p1 (by omega)
      exact ⟨w', m', e2, p2⟩


/-! ## one level: the node's own sweep -/

/-- `PulseAux` on `n` completes with fuel `k + len + 2` when every child sweep completes with fuel `k` (in the sense of
    `pulseLoop_terminates`), the callbacks are quiet and `d` exceeds the height bound -/
theorem pulseAux_terminates_step (never d B k len n now : Nat) (ht : Nat → Nat) (hd : B < d) (P : World → Prop)
    (hPH : ∀ v, P v → HeightLe B ht v.f)
    (hstep : ∀ v c t, P v → (v.f n).sched = c :: t → now ≥ (v.f c).agg →
      ∃ v1, pulseAux never d k v c now = some v1 ∧ P v1 ∧ (v1.f n).sched.length < (v.f n).sched.length)
    (w : World) (hq : PQuiet w)
    (hP1 : ∀ w1, (if (w.f n).valid ∧ now ≥ (w.f n).myTime then callP never d w n now else some w) = some w1 →
      P w1 ∧ (w1.f n).sched.length ≤ len) :
    ∃ w', pulseAux never d (k + len + 2) w n now = some w' := by
  have h1 : ∃ w1, (if (w.f n).valid ∧ now ≥ (w.f n).myTime then callP never d w n now else some w) = some w1 := by
    split
    · exact callP_quiet_some never d w n now hq
    · exact ⟨w, rfl⟩
  obtain ⟨w1, e1⟩ := h1
  obtain ⟨p1, l1⟩ := hP1 w1 e1
  obtain ⟨w2, e2, p2⟩ := pulseLoop_terminates never d k n now P hstep len w1 p1 l1
  obtain ⟨w3, e3⟩ := pulseFinish_terminates never B d ht w2 n (hPH w2 p2) hd
  refine ⟨w3, ?_⟩
  show pulseAux never d ((k + len + 1) + 1) w n now = some w3
  simp only [pulseAux]
  rw [e1]
  simp only []
  rw [e2]
  exact e3

/-- `GetPulseTimeAux` on `n` completes with fuel `k + len + 2` when every child sweep completes with fuel `k`, the callbacks are
    quiet (in every state satisfying `P`) and `d` exceeds the height bound -/
theorem gptAux_terminates_step (never d B k len n now : Nat) (ht : Nat → Nat) (hd : B < d) (P : World → Prop)
    (hPH : ∀ v, P v → HeightLe B ht v.f) (hPQ : ∀ v, P v → GQuiet v)
    (hstep : ∀ v c t mn, P v → (v.f n).recalc = c :: t →
      ∃ v1 m1, gptAux never d k v c now mn = some (v1, m1) ∧ P v1 ∧ (v1.f n).recalc.length < (v.f n).recalc.length)
    (hcall : ∀ v v1, P v → (v.f n).valid = false → callG never d v n now = some v1 → P v1)
    (hlen : ∀ v, P v → (v.f n).recalc.length ≤ len)
    (w : World) (mn : Nat) (hP : P w) :
    ∃ r, gptAux never d (k + len + 2) w n now mn = some r := by
  have h1 : ∃ w1, (if (w.f n).valid then some w else callG never d w n now) = some w1 ∧ P w1 := by
    split
    · exact ⟨w, rfl, hP⟩
    · rename_i hv0
      obtain ⟨w1, e⟩ := callG_quiet_some never d w n now (hPQ w hP)
      exact ⟨w1, e, hcall w w1 hP (by simpa using hv0) e⟩
  obtain ⟨w1, e1, p1⟩ := h1
  obtain ⟨w2, m2, e2, p2⟩ := gptLoop_terminates never d k n now P hstep len w1 mn p1 (hlen w1 p1)
  show ∃ r, gptAux never d ((k + len + 1) + 1) w n now mn = some r
  simp only [gptAux]
  rw [e1]
  simp only []
  rw [e2]
  simp only []
  by_cases hv : (w2.f n).valid = true
  · simp only [hv, if_true]
    exact gptFinish_terminates never B d ht w2 n m2 (hPH w2 p2) hd
  · simp only [hv, if_false]
    obtain ⟨w3, e3⟩ := callG_quiet_some never d w2 n now (hPQ w2 p2)
    have p3 := hcall w2 w3 p2 (by simpa using hv) e3
    rw [e3]
    simp only []
    obtain ⟨w4, m4, e4, p4⟩ := gptLoop_terminates never d k n now P hstep len w3 m2 p3 (hlen w3 p3)
    rw [e4]
    simp only []
    exact gptFinish_terminates never B d ht w4 n m4 (hPH w4 p4) hd

end Muscle.Pulse
