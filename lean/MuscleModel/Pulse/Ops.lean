import MuscleModel.Pulse.Tree

/-!
# Histories (C20): the operations of engine `pn` as a data type, so that theorems can quantify over
every history.  `applyOp` is what the engine executes for each op line (the engine only adds parsing
and printing).
-/

namespace Muscle.Pulse

inductive Op where
  | attach (c p : Nat)                          -- `p->PutPulseChild(c)` unless that would close a cycle
  | detach (c : Nat)                            -- `c->GetPulseParent()->RemovePulseChild(c)`
  | destroy (c : Nat)                           -- `delete c` (a fresh node takes over the id)
  | inval (c : Nat) (clear : Bool)              -- `c->InvalidatePulseTime(clear)`
  | setReq (c t : Nat)                          -- node `c` will answer `t` from now on
  | script (forG : Bool) (c : Nat) (acts : List Act)  -- re-entrant actions of c's next free GetPulseTime / Pulse call
  | gpt (r now : Nat)                           -- `CallGetPulseTimeAux(r, now, min = NEVER)` on a root
  | pulse (r now : Nat)                         -- `CallPulseAux(r, now)` on a root
  deriving Repr, Inhabited

inductive Res where
  | ok | cycle | notroot
  | min (m : Nat)
  deriving Repr, Inhabited, DecidableEq

def applyOp (never d k : Nat) (w : World) : Op → Option (World × Res)
  | .attach c p =>
    if isAnc d w.f c p then some (w, .cycle)
    else (putChild never d w.f p c).map fun f' => ({ w with f := f' }, .ok)
  | .detach c => (detach never d w.f c).map fun f' => ({ w with f := f' }, .ok)
  | .destroy c =>
    (destroy never d w.f c).map fun f' =>
      ({ w with f := f', req := updF w.req c never, gq := updF w.gq c [], pq := updF w.pq c [] }, .ok)
  | .inval c clear => (invalidate never d w.f c clear).map fun f' => ({ w with f := f' }, .ok)
  | .setReq c t => some ({ w with req := updF w.req c t }, .ok)
  | .script true c acts => some ({ w with gq := updF w.gq c (w.gq c ++ [acts]) }, .ok)
  | .script false c acts => some ({ w with pq := updF w.pq c (w.pq c ++ [acts]) }, .ok)
  | .gpt r now =>
    if (w.f r).parent.isSome then some (w, .notroot)
    else (managerGpt never d k w r now).map fun (w', m) => (w', .min m)
  | .pulse r now =>
    if (w.f r).parent.isSome then some (w, .notroot)
    else (managerPulse never d k w r now).map fun w' => (w', .ok)

/-- a whole history, from the state it starts in -/
def runOps (never d k : Nat) : World → List Op → Option World
  | w, [] => some w
  | w, o :: r => match applyOp never d k w o with
    | some (w', _) => runOps never d k w' r
    | none => none

end Muscle.Pulse
