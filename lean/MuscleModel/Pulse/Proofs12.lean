import MuscleModel.Pulse.Proofs11

/-!
# Lemmas for C20, part 12: `reasked`.  A non-root node without a standing request is flagged NEEDSRECALC — at every step
boundary, except for the nodes whose own `PulseAux` is in progress and which have fired (`VEx X`).  Preserved by every public
operation, by the whole pulse sweep with arbitrary scripts, and by the disciplined `GetPulseTimeAux` sweep, after which every
node below the root has a standing request again.
-/

set_option linter.unusedSimpArgs false
set_option linter.unusedVariables false

namespace Muscle.Pulse

def VEx (X : Nat → Prop) (f : Forest) : Prop :=
  ∀ x q, ¬ X x → (f x).parent = some q → (f x).valid = false → (f x).cur = some .recalc

/-- a step after which every non-root node without a request is flagged, provided that was so before -/
def VRel (f f' : Forest) : Prop :=
  ∀ x q, (f' x).parent = some q → (f' x).valid = false →
    (f' x).cur = some .recalc ∨
    ((∃ q', (f x).parent = some q') ∧ (f x).valid = false ∧ ((f x).cur = some .recalc → (f' x).cur = some .recalc))

theorem VRel.refl (f : Forest) : VRel f f := fun x q hp hv => Or.inr ⟨⟨q, hp⟩, hv, fun h => h⟩

theorem VRel.trans {f g h : Forest} (a : VRel f g) (b : VRel g h) : VRel f h := by
  intro x q hp hv
  rcases b x q hp hv with h1 | ⟨⟨q', hq'⟩, hv', hk'⟩
  · exact Or.inl h1
  · rcases a x q' hq' hv' with h2 | ⟨hq, hv0, hk⟩
    · exact Or.inl (hk' h2)
    · exact Or.inr ⟨hq, hv0, fun e => hk' (hk e)⟩

theorem VEx.step {X : Nat → Prop} {f f' : Forest} (v : VEx X f) (r : VRel f f') : VEx X f' := by
  intro x q hx hp hv
  rcases r x q hp hv with h | ⟨⟨q', hq'⟩, hv', hk⟩
  · exact h
  · exact hk (v x q' hx hq' hv')

theorem VEx.weaken {X Y : Nat → Prop} {f : Forest} (v : VEx X f) (h : ∀ x, X x → Y x) : VEx Y f :=
  fun x q hx hp hv => v x q (fun e => hx (h x e)) hp hv

/-- same scalars, NEEDSRECALC flags kept -/
theorem vrel_of_keep {f f' : Forest} (s : SameScalars f f')
    (k : ∀ x, (f x).cur = some .recalc → (f' x).cur = some .recalc) : VRel f f' :=
  fun x q hp hv => Or.inr ⟨⟨q, by rw [← (s x).2.2.2]; exact hp⟩, by rw [← (s x).1]; exact hv, k x⟩

theorem resched_recalc_vrel (never d : Nat) (f : Forest) (p c : Nat) (f' : Forest)
    (h : resched never d f p c (some .recalc) = some f') : VRel f f' :=
  vrel_of_keep (resched_sameScalars never _ _ _ _ _ _ h) (resched_recalc_cur never d f p c f' h).1

/-- an update of node `n` that keeps parent and `_curList`; the request flag may only be set, or the node is handled separately -/
theorem upd_vrel (f : Forest) (n : Nat) (nd : Node) (h1 : nd.parent = (f n).parent) (h2 : nd.cur = (f n).cur)
    (h3 : nd.valid = false → (f n).valid = false) : VRel f (upd f n nd) := by
  intro x q hp hv
  unfold upd at hp hv ⊢
  by_cases hx : x = n
  · subst hx
    simp only [if_true] at hp hv ⊢
    exact Or.inr ⟨⟨q, by rw [← h1]; exact hp⟩, h3 hv, fun e => by rw [h2]; exact e⟩
  · simp only [hx, if_false] at hp hv ⊢
    exact Or.inr ⟨⟨q, hp⟩, hv, fun e => e⟩

theorem invalidate_vrel (never d : Nat) (f : Forest) (n : Nat) (clear : Bool) (f' : Forest)
    (h : invalidate never d f n clear = some f') : VRel f f' := by
  simp only [invalidate] at h
  have r1 : VRel f (if clear then upd f n { (f n) with myTime := never } else f) := by
    split
    · exact upd_vrel f n _ rfl rfl (fun e => e)
    · exact VRel.refl f
  generalize (if clear then upd f n { (f n) with myTime := never } else f) = f1 at h r1
  split at h
  · -- the request is withdrawn: the node itself is flagged by the reschedule (or is a root)
    have e2 : ∀ x, (upd f1 n { (f1 n) with valid := false } x).parent = (f1 x).parent ∧
        (upd f1 n { (f1 n) with valid := false } x).cur = (f1 x).cur ∧
        (x ≠ n → (upd f1 n { (f1 n) with valid := false } x).valid = (f1 x).valid) := by
      intro x; unfold upd; by_cases hx : x = n
      · subst hx; simp
      · simp [hx]
    generalize (upd f1 n { (f1 n) with valid := false }) = f2 at h e2
    refine r1.trans ?_
    split at h
    · rename_i p hp
      have k := resched_recalc_cur never d f2 p n f' h
      have s := resched_sameScalars never _ _ _ _ _ _ h
      intro x q hq hv
      by_cases hx : x = n
      · subst hx; exact Or.inl k.2
      · exact Or.inr ⟨⟨q, by rw [← (e2 x).1, ← (s x).2.2.2]; exact hq⟩,
          by rw [← (e2 x).2.2 hx, ← (s x).1]; exact hv, fun e => k.1 x (by rw [(e2 x).2.1]; exact e)⟩
    · rename_i hp
      cases h
      intro x q hq hv
      by_cases hx : x = n
      · subst hx; rw [hp] at hq; cases hq
      · exact Or.inr ⟨⟨q, by rw [← (e2 x).1]; exact hq⟩, by rw [← (e2 x).2.2 hx]; exact hv,
          fun e => by rw [(e2 x).2.1]; exact e⟩
  · cases h; exact r1

theorem removeChild_vrel (never d : Nat) (f : Forest) (p c : Nat) (f' : Forest)
    (h : removeChild never d f p c = some f') : VRel f f' := by
  simp only [removeChild] at h
  split at h
  · split at h
    · cases h
    · rename_i f1 hf1
      -- `ReschedulePulseChild(child, -1)` touches the `_curList` of the child only; the child then becomes a root
      have s1 := resched_sameScalars never _ _ _ _ _ _ hf1
      have c1 : ∀ x, x ≠ c → (f1 x).cur = (f x).cur := by
        intro x hx
        cases d with
        | zero => simp [resched] at hf1
        | succ d =>
          simp only [resched] at hf1
          split at hf1
          · cases hf1
            show (half f p c none x).cur = _
            rw [half_cur]; simp [hx]
          · cases hf1; rfl
      have r2 : VRel f (orphan f1 c) := by
        intro x q hq hv
        by_cases hxc : x = c
        · subst hxc; simp [orphan, upd] at hq
        · have e1 : (orphan f1 c x).parent = (f1 x).parent := by simp [orphan, upd, hxc]
          have e2 : (orphan f1 c x).valid = (f1 x).valid := by simp [orphan, upd, hxc]
          have e3 : (orphan f1 c x).cur = (f1 x).cur := by simp [orphan, upd, hxc]
          exact Or.inr ⟨⟨q, by rw [← (s1 x).2.2.2, ← e1]; exact hq⟩, by rw [← (s1 x).1, ← e2]; exact hv,
            fun e => by rw [e3, c1 x hxc]; exact e⟩
      split at h
      · split at h
        · exact r2.trans (resched_recalc_vrel never d _ _ _ f' h)
        · cases h; exact r2
      · cases h; exact r2
  · cases h; exact VRel.refl f

theorem putChild_vrel (never d : Nat) (f : Forest) (p c : Nat) (f' : Forest)
    (h : putChild never d f p c = some f') : VRel f f' := by
  simp only [putChild] at h
  split at h
  · cases h
  · rename_i f1 hf1
    have r1 : VRel f f1 := by
      split at hf1
      · exact removeChild_vrel never d f _ c f1 hf1
      · cases hf1; exact VRel.refl f
    refine r1.trans ?_
    -- the child gets its parent and is flagged NEEDSRECALC
    have k := resched_recalc_cur never d (setParent f1 c p) p c f' h
    have s := resched_sameScalars never _ _ _ _ _ _ h
    intro x q hq hv
    by_cases hxc : x = c
    · subst hxc; exact Or.inl k.2
    · have e1 : (setParent f1 c p x).parent = (f1 x).parent := by simp [setParent, upd, hxc]
      have e2 : (setParent f1 c p x).valid = (f1 x).valid := by simp [setParent, upd, hxc]
      have e3 : (setParent f1 c p x).cur = (f1 x).cur := by simp [setParent, upd, hxc]
      exact Or.inr ⟨⟨q, by rw [← e1, ← (s x).2.2.2]; exact hq⟩, by rw [← e2, ← (s x).1]; exact hv,
        fun e => k.1 x (by rw [e3]; exact e)⟩

theorem removeAll_vrel (never d p : Nat) : ∀ (l : List Nat) (f f' : Forest),
    removeAll never d p l f = some f' → VRel f f' := by
  intro l
  induction l with
  | nil => intro f f' h; simp [removeAll] at h; subst h; exact VRel.refl f
  | cons c r ih =>
    intro f f' h
    simp only [removeAll] at h
    split at h
    · rename_i f1 hf1
      exact (removeChild_vrel never d f p c f1 hf1).trans (ih f1 f' h)
    · cases h

theorem destroy_vrel (never d : Nat) (f : Forest) (n : Nat) (f' : Forest)
    (h : destroy never d f n = some f') : VRel f f' := by
  simp only [destroy] at h
  split at h
  · cases h
  · rename_i f1 h1
    have r1 : VRel f f1 := by
      simp only [detach] at h1
      split at h1
      · exact removeChild_vrel never d f _ n f1 h1
      · cases h1; exact VRel.refl f
    split at h
    · cases h
    · rename_i f2 h2
      cases h
      have r2 : VRel f1 f2 := by
        simp only [clearChildren] at h2
        split at h2
        · cases h2
        · rename_i g1 e1
          split at h2
          · cases h2
          · rename_i g2 e2
            exact ((removeAll_vrel never d n _ _ _ e1).trans (removeAll_vrel never d n _ _ _ e2)).trans
              (removeAll_vrel never d n _ _ _ h2)
      refine (r1.trans r2).trans ?_
      -- the new object is a root
      intro x q hq hv
      by_cases hx : x = n
      · subst hx; simp [upd, Node.fresh] at hq
      · have e : upd f2 n (Node.fresh never) x = f2 x := by simp [upd, hx]
        rw [e] at hq hv ⊢
        exact Or.inr ⟨⟨q, hq⟩, hv, fun e => e⟩

theorem runAct_vrel (never d : Nat) (w w' : World) (a : Act) (h : runAct never d w a = some w') : VRel w.f w'.f := by
  cases a with
  | inval id clear =>
    simp only [runAct, Option.map_eq_some_iff] at h
    obtain ⟨f', hf, rfl⟩ := h
    exact invalidate_vrel never d w.f id clear f' hf
  | setReq id t => simp only [runAct] at h; cases h; exact VRel.refl _
  | detach id =>
    simp only [runAct, Option.map_eq_some_iff] at h
    obtain ⟨f', hf, rfl⟩ := h
    simp only [detach] at hf
    split at hf
    · exact removeChild_vrel never d w.f _ id f' hf
    · cases hf; exact VRel.refl _
  | attach c p =>
    simp only [runAct] at h
    split at h
    · cases h; exact VRel.refl _
    · simp only [Option.map_eq_some_iff] at h
      obtain ⟨f', hf, rfl⟩ := h
      exact putChild_vrel never d w.f p c f' hf

theorem runActs_vrel (never d : Nat) : ∀ (l : List Act) (w w' : World),
    runActs never d w l = some w' → VRel w.f w'.f := by
  intro l
  induction l with
  | nil => intro w w' h; simp [runActs] at h; subst h; exact VRel.refl _
  | cons a r ih =>
    intro w w' h
    simp only [runActs] at h
    split at h
    · rename_i w1 h1
      exact (runAct_vrel never d w w1 a h1).trans (ih w1 w' h)
    · cases h

/-- the whole pulse sweep, arbitrary scripts: the nodes in `X` (frames above) stay excepted, nobody else -/
theorem pulse_V (never d : Nat) : ∀ (k : Nat),
    (∀ (X : Nat → Prop) (w w' : World) (n now : Nat), VEx X w.f → pulseAux never d k w n now = some w' → VEx X w'.f) ∧
    (∀ (X : Nat → Prop) (w w' : World) (n now : Nat), VEx X w.f → pulseLoop never d k w n now = some w' → VEx X w'.f) := by
  intro k
  induction k with
  | zero => exact ⟨fun X w w' n now _ h => by simp [pulseAux] at h, fun X w w' n now _ h => by simp [pulseLoop] at h⟩
  | succ k ih =>
    refine ⟨?_, ?_⟩
    · intro X w w' n now v h
      simp only [pulseAux] at h
      split at h
      · cases h
      · rename_i w1 h1
        -- while this frame is active, n itself is excepted
        have v1 : VEx (fun x => X x ∨ x = n) w1.f := by
          split at h1
          · simp only [callP] at h1
            split at h1
            · cases h1
            · rename_i w2 h2
              cases h1
              have v2 : VEx X w2.f := VEx.step (by exact v) (runActs_vrel never d _ _ _ h2)
              intro x q hx hp hv
              have hxn : x ≠ n := fun e => hx (Or.inr e)
              simp only [upd, hxn, if_false] at hp hv ⊢
              exact v2 x q (fun e => hx (Or.inl e)) hp hv
          · cases h1; exact v.weaken (fun _ e => Or.inl e)
        split at h
        · cases h
        · rename_i w2 h2
          have v2 := ih.2 _ w1 w2 n now v1 h2
          simp only [pulseFinish] at h
          split at h
          · rename_i p hp
            simp only [Option.map_eq_some_iff] at h
            obtain ⟨f', hf, rfl⟩ := h
            have v3 : VEx (fun x => X x ∨ x = n) f' := VEx.step v2 (resched_recalc_vrel never d _ _ _ f' hf)
            intro x q hx hq hv
            by_cases hxn : x = n
            · subst hxn; exact (resched_recalc_cur never d w2.f p x f' hf).2
            · exact v3 x q (fun e => e.elim hx hxn) hq hv
          · rename_i hp
            cases h
            intro x q hx hq hv
            by_cases hxn : x = n
            · subst hxn; rw [hp] at hq; cases hq
            · exact v2 x q (fun e => e.elim hx hxn) hq hv
    · intro X w w' n now v h
      simp only [pulseLoop] at h
      split at h
      · cases h; exact v
      · rename_i c _ _
        split at h
        · split at h
          · cases h
          · rename_i w1 h1
            exact ih.2 X w1 w' n now (ih.1 X w w1 c now v h1) h
        · cases h; exact v


/-! ## the disciplined `GetPulseTimeAux` sweep -/

abbrev V (f : Forest) : Prop := VEx (fun _ => False) f

theorem callGC_V (never d : Nat) (stk : List Nat) (w w' : World) (n now : Nat) (b : Bool)
    (h : callGC never d stk w n now = some (w', b)) (v : V w.f) : V w'.f := by
  simp only [callGC] at h
  split at h
  · cases h
  · rename_i w2 b2 h2
    cases h
    have r1 : VRel w.f (upd w.f n { (w.f n) with valid := true }) := upd_vrel w.f n _ rfl rfl (fun e => by cases e)
    have r2 := runActs_vrel never d _ _ _ (runActsC_erase never d stk _ _ _ _ h2)
    have r3 : VRel w2.f (upd w2.f n { (w2.f n) with myTime := w2.req n }) := upd_vrel w2.f n _ rfl rfl (fun e => e)
    exact VEx.step (VEx.step (VEx.step v r1) r2) r3

theorem gptFinish_vrel (never d : Nat) (w w' : World) (n mn mn' : Nat) (hv : (w.f n).valid = true)
    (h : gptFinish never d w n mn = some (w', mn')) : VRel w.f w'.f := by
  have o := gptFinish_other never d w w' n mn mn' h
  intro x q hq hvx
  by_cases hx : x = n
  · subst hx; rw [(o x).2.1, hv] at hvx; cases hvx
  · exact Or.inr ⟨⟨q, by rw [← (o x).1]; exact hq⟩, by rw [← (o x).2.1]; exact hvx, fun e => by rw [(o x).2.2 hx]; exact e⟩

theorem gptC_V (never d : Nat) : ∀ (k : Nat),
    (∀ (w w' : World) (n now mn m : Nat) (stk : List Nat),
      gptAuxC never d k w n now mn stk = some (w', m, true) → Inv never w.f → Chain w.f (n :: stk) →
      (n :: stk).Nodup → (∀ y ∈ n :: stk, Unfiled w.f y) → V w.f → V w'.f ∧ (w'.f n).valid = true) ∧
    (∀ (w w' : World) (n now mn m : Nat) (rest : List Nat),
      gptLoopC never d k w n now mn (n :: rest) = some (w', m, true) → Inv never w.f → Chain w.f (n :: rest) →
      (n :: rest).Nodup → (∀ y ∈ n :: rest, Unfiled w.f y) → V w.f → V w'.f) := by
  intro k
  induction k with
  | zero =>
    exact ⟨fun w w' n now mn m stk h => by simp [gptAuxC] at h, fun w w' n now mn m rest h => by simp [gptLoopC] at h⟩
  | succ k ih =>
    refine ⟨?_, ?_⟩
    · intro w w' n now mn m stk h hi hch hnd hun hV
      simp only [gptAuxC] at h
      split at h
      · cases h
      · rename_i w1 b1 h1
        split at h
        · cases h
        · rename_i w2 mn2 b2 h2
          split at h
          · rename_i w5 m5 b5 h5
            simp only [Option.some.injEq, Prod.mk.injEq, Bool.and_eq_true] at h
            obtain ⟨hw5, hm5, ⟨hb1, hb2⟩, hb5⟩ := h
            subst hw5; subst hm5; subst hb1; subst hb2; subst hb5
            have s1 : Inv never w1.f ∧ (w1.f n).valid = true ∧ (∀ x, Unfiled w.f x → Unfiled w1.f x) ∧
                (∀ y, y ∈ n :: stk → (w1.f y).parent = (w.f y).parent ∧ (y ≠ n → (w1.f y).valid = (w.f y).valid)) ∧ V w1.f := by
              split at h1
              · rename_i hv
                cases h1
                exact ⟨hi, hv, fun _ hx => hx, fun _ _ => ⟨rfl, fun _ => rfl⟩, hV⟩
              · obtain ⟨a1, a2, a3, a4⟩ := callGC_inv never d (n :: stk) w w1 n now (by simp) h1 hi (hun n (by simp))
                exact ⟨a1, a2, a3, a4, callGC_V never d _ w w1 n now true h1 hV⟩
            obtain ⟨i1, hv1, u1, p1, v1⟩ := s1
            have hch1 : Chain w1.f (n :: stk) := chain_congr w.f w1.f _ (fun y hy => (p1 y hy).1) hch
            have hun1 : ∀ y ∈ n :: stk, Unfiled w1.f y := fun y hy => u1 y (hun y hy)
            obtain ⟨i2, k2, hr2⟩ := (gptC_inv never d k).2 w1 w2 n now mn mn2 stk h2 i1 hch1 hnd hun1
            have v2 := ih.2 w1 w2 n now mn mn2 stk h2 i1 hch1 hnd hun1 v1
            have hv2 : (w2.f n).valid = true := by rw [(k2 n (by simp)).2.1]; exact hv1
            simp only [hv2, if_true] at h5
            split at h5
            · rename_i w3 m3 h3
              simp only [Option.some.injEq, Prod.mk.injEq] at h5
              obtain ⟨hw3, hm3, _⟩ := h5
              subst hw3; subst hm3
              exact ⟨VEx.step v2 (gptFinish_vrel never d w2 w3 n mn2 m3 hv2 h3),
                by rw [(gptFinish_other never d w2 w3 n mn2 m3 h3 n).2.1]; exact hv2⟩
            · cases h5
          · cases h
    · intro w w' n now mn m rest h hi hch hnd hun hV
      simp only [gptLoopC] at h
      split at h
      · simp only [Option.some.injEq, Prod.mk.injEq] at h
        obtain ⟨hw, _, _⟩ := h
        subst hw; exact hV
      · rename_i c r he
        split at h
        · cases h
        · rename_i w1 mn1 b1 h1
          split at h
          · rename_i w2 m2 b2 h2
            simp only [Option.some.injEq, Prod.mk.injEq, Bool.and_eq_true] at h
            obtain ⟨hw2, hm2, hb1, hb2⟩ := h
            subst hw2; subst hm2; subst hb1; subst hb2
            have hm : c ∈ (w.f n).list .recalc := by rw [list_recalc, he]; simp
            obtain ⟨hpc, hcc⟩ := hi.1.sound n c .recalc hm
            have hunc : Unfiled w.f c := ⟨by rw [hcc]; simp, by rw [hcc]; simp⟩
            have hcn : c ∉ n :: rest := by
              intro hmem
              have := chain_parent w.f n rest hch c hmem n hpc
              exact (List.nodup_cons.mp hnd).1 this
            have hchc : Chain w.f (c :: n :: rest) := ⟨hpc, hch⟩
            have hndc : (c :: n :: rest).Nodup := List.nodup_cons.mpr ⟨hcn, hnd⟩
            have hunc' : ∀ y ∈ c :: n :: rest, Unfiled w.f y := by
              intro y hy
              rcases List.mem_cons.mp hy with rfl | hy
              · exact hunc
              · exact hun y hy
            obtain ⟨i1, k1, _⟩ := (gptC_inv never d k).1 w w1 c now mn mn1 (n :: rest) h1 hi hchc hndc hunc'
            have v1 := (ih.1 w w1 c now mn mn1 (n :: rest) h1 hi hchc hndc hunc' hV).1
            have hch1 : Chain w1.f (n :: rest) := chain_congr w.f w1.f _ (fun y hy => (k1 y hy).1) hch
            exact ih.2 w1 w2 n now mn1 m2 rest h2 i1 hch1 hnd (fun y hy => (k1 y hy).2.2 (hun y hy)) v1
          · cases h

/-- `reasked`: after a disciplined sweep from a root, every node below the root has a standing request again -/
theorem managerGptC_reasks (never d k : Nat) (w w' : World) (root now m : Nat)
    (h : managerGptC never d (k+1) w root now = some (w', m, true)) (hi : Inv never w.f) (hV : V w.f)
    (hroot : (w.f root).parent = none) :
    V w'.f ∧ ∀ x, Desc w'.f root x → (w'.f x).valid = true := by
  have hcur : (w.f root).cur = none := hi.1.rootcur root hroot
  have hun : ∀ y ∈ [root], Unfiled w.f y := by
    intro y hy
    have : y = root := by simpa using hy
    subst this
    exact ⟨by rw [hcur]; simp, by rw [hcur]; simp⟩
  obtain ⟨hI, hS, _⟩ := managerGptC_settles never d k w w' root now m h hi hroot
  simp only [managerGptC] at h
  obtain ⟨v', hvr⟩ := (gptC_V never d (k+1)).1 w w' root now never m [] h hi (by simp [Chain, hroot]) (by simp) hun hV
  refine ⟨v', fun x hx => ?_⟩
  -- nobody below the root waits in NEEDSRECALC (the tree is settled), so nobody below the root is without a request
  have hrec : (w'.f root).recalc = [] := by
    cases hrc : (w'.f root).recalc with
    | nil => rfl
    | cons c t =>
      exfalso
      have hm : c ∈ (w'.f root).list .recalc := by rw [list_recalc, hrc]; simp
      obtain ⟨hpc, hcc⟩ := hI.1.sound root c .recalc hm
      rcases hS.filed root c Desc.refl hpc with hs | ⟨hu, _⟩
      · have := (hI.1.sound root c .sched hs).2; rw [hcc] at this; cases this
      · have := (hI.1.sound root c .unsched hu).2; rw [hcc] at this; cases this
  rcases (clean_below never w'.f root hI hrec x hx).2 with rfl | hf
  · exact hvr
  · obtain ⟨⟨q, hq⟩, hc⟩ := hf
    cases hvx : (w'.f x).valid with
    | true => rfl
    | false =>
      have := v' x q (fun e => e) hq hvx
      rw [this] at hc
      rcases hc with e | e <;> cases e


/-! ## a request starts to stand only through a `GetPulseTime` call -/

def AskedRel (w w' : World) : Prop :=
  ∃ l, w'.log = w.log ++ l ∧
    ∀ x, (w.f x).valid = false → (w'.f x).valid = true → ∃ now prev ret, Event.G x now prev ret ∈ l

theorem AskedRel.refl (w : World) : AskedRel w w :=
  ⟨[], by simp, fun x h1 h2 => by rw [h1] at h2; cases h2⟩

theorem AskedRel.trans {a b c : World} (h1 : AskedRel a b) (h2 : AskedRel b c) : AskedRel a c := by
  obtain ⟨l1, e1, p1⟩ := h1
  obtain ⟨l2, e2, p2⟩ := h2
  refine ⟨l1 ++ l2, by rw [e2, e1, List.append_assoc], fun x hx hx' => ?_⟩
  cases hb : (b.f x).valid with
  | true =>
    obtain ⟨n, p, r, hm⟩ := p1 x hx hb
    exact ⟨n, p, r, List.mem_append_left _ hm⟩
  | false =>
    obtain ⟨n, p, r, hm⟩ := p2 x hb hx'
    exact ⟨n, p, r, List.mem_append_right _ hm⟩

theorem askedRel_of_mono {w w' : World} (hl : w'.log = w.log) (hm : Mono w.f w'.f) : AskedRel w w' :=
  ⟨[], by simp [hl], fun x h1 h2 => by have := (hm x h2).1; rw [h1] at this; cases this⟩

theorem callG_asked (never d : Nat) (w w' : World) (n now : Nat) (h : callG never d w n now = some w') :
    AskedRel w w' := by
  have hlog := callG_log never d w w' n now h
  refine ⟨_, hlog, fun x hx hx' => ?_⟩
  by_cases hxn : x = n
  · subst hxn; exact ⟨now, (w.f x).myTime, (w'.f x).myTime, by simp⟩
  · exfalso
    simp only [callG] at h
    split at h
    · cases h
    · rename_i w2 h2
      cases h
      have hm := (runActs_log never d _ _ _ h2).2
      simp only [upd, hxn, if_false] at hx'
      have := (hm x hx').1
      simp only [upd, hxn, if_false] at this
      rw [hx] at this; cases this

theorem gptFinish_asked (never d : Nat) (w w' : World) (n mn mn' : Nat)
    (h : gptFinish never d w n mn = some (w', mn')) : AskedRel w w' := by
  refine askedRel_of_mono (gptFinish_log never d w w' n mn mn' h) ?_
  intro x hx
  have o := gptFinish_other never d w w' n mn mn' h x
  refine ⟨by rw [← o.2.1]; exact hx, ?_⟩
  -- the stored time is not touched by the filing step
  simp only [gptFinish] at h
  generalize (min (if (w.f n).valid = true then (w.f n).myTime else 0) (firstSchedAgg never w.f n)) = a at h
  have lk := setAgg_fields w.f n a
  generalize upd w.f n { (w.f n) with agg := a } = f3 at h lk
  split at h
  · rename_i f4 h4
    cases h
    show (f4 x).myTime = _
    split at h4
    · split at h4
      · rw [(resched_sameScalars never _ _ _ _ _ _ h4 x).2.1]; exact (lk x).2.2.2.1
      · cases h4; exact (lk x).2.2.2.1
    · cases h4; exact (lk x).2.2.2.1
  · cases h

theorem gpt_asked (never d : Nat) : ∀ (k : Nat),
    (∀ (w w' : World) (n now mn m : Nat), gptAux never d k w n now mn = some (w', m) → AskedRel w w') ∧
    (∀ (w w' : World) (n now mn m : Nat), gptLoop never d k w n now mn = some (w', m) → AskedRel w w') := by
  intro k
  induction k with
  | zero => exact ⟨fun w w' n now mn m h => by simp [gptAux] at h, fun w w' n now mn m h => by simp [gptLoop] at h⟩
  | succ k ih =>
    refine ⟨?_, ?_⟩
    · intro w w' n now mn m h
      obtain ⟨w1, w2, m2, h1, h2, hr⟩ := gptAux_shape never d k w w' n now mn m h
      have a1 : AskedRel w w1 := by
        split at h1
        · cases h1; exact AskedRel.refl w
        · exact callG_asked never d w w1 n now h1
      have a2 := ih.2 w1 w2 n now mn m2 h2
      rcases hr with ⟨_, hf⟩ | ⟨_, w3, w4, m4, h3, h4, hf⟩
      · exact (a1.trans a2).trans (gptFinish_asked never d w2 w' n m2 m hf)
      · exact (((a1.trans a2).trans (callG_asked never d w2 w3 n now h3)).trans (ih.2 w3 w4 n now m2 m4 h4)).trans
          (gptFinish_asked never d w4 w' n m4 m hf)
    · intro w w' n now mn m h
      simp only [gptLoop] at h
      split at h
      · cases h; exact AskedRel.refl w
      · rename_i c _ _
        split at h
        · cases h
        · rename_i w1 mn1 h1
          exact (ih.1 w w1 c now mn mn1 h1).trans (ih.2 w1 w' n now mn1 m h)

end Muscle.Pulse
