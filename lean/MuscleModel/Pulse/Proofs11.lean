import MuscleModel.Pulse.Proofs10

/-!
# Lemmas for C20, part 11: the fuel is not part of the semantics — a sweep that completes with fuel `k` completes
with the same result with every larger fuel.
-/

set_option linter.unusedSimpArgs false
set_option linter.unusedVariables false

namespace Muscle.Pulse

theorem pulse_fuel_succ (never d : Nat) : ∀ (k : Nat),
    (∀ (w r : World) (n now : Nat), pulseAux never d k w n now = some r → pulseAux never d (k+1) w n now = some r) ∧
    (∀ (w r : World) (n now : Nat), pulseLoop never d k w n now = some r → pulseLoop never d (k+1) w n now = some r) := by
  intro k
  induction k with
  | zero => exact ⟨fun w r n now h => by simp [pulseAux] at h, fun w r n now h => by simp [pulseLoop] at h⟩
  | succ k ih =>
    refine ⟨?_, ?_⟩
    · intro w r n now h
      simp only [pulseAux] at h
      rw [pulseAux]
      split at h
      · cases h
      · rename_i w1 h1
        split at h
        · cases h
        · rename_i w2 h2
          rw [ih.2 w1 w2 n now h2]
          exact h
    · intro w r n now h
      simp only [pulseLoop] at h
      rw [pulseLoop]
      split at h
      · exact h
      · rename_i c t he
        split at h
        · rename_i hc
          simp only [hc, if_true]
          split at h
          · cases h
          · rename_i w1 h1
            rw [ih.1 w w1 c now h1]
            exact ih.2 w1 r n now h
        · rename_i hc
          simp only [hc, if_false]
          exact h

theorem gpt_fuel_succ (never d : Nat) : ∀ (k : Nat),
    (∀ (w : World) (n now mn : Nat) (r : World × Nat), gptAux never d k w n now mn = some r → gptAux never d (k+1) w n now mn = some r) ∧
    (∀ (w : World) (n now mn : Nat) (r : World × Nat), gptLoop never d k w n now mn = some r → gptLoop never d (k+1) w n now mn = some r) := by
  intro k
  induction k with
  | zero => exact ⟨fun w n now mn r h => by simp [gptAux] at h, fun w n now mn r h => by simp [gptLoop] at h⟩
  | succ k ih =>
    refine ⟨?_, ?_⟩
    · intro w n now mn r h
      simp only [gptAux] at h
      rw [gptAux]
      split at h
      · cases h
      · rename_i w1 h1
        split at h
        · cases h
        · rename_i w2 mn2 h2
          rw [ih.2 w1 n now mn (w2, mn2) h2]
          simp only []
          split at h
          · rename_i hv; simp only [hv, if_true]; exact h
          · rename_i hv
            simp only [hv, if_false]
            split at h
            · cases h
            · rename_i w3 h3
              split at h
              · cases h
              · rename_i w4 mn4 h4
                rw [ih.2 w3 n now mn2 (w4, mn4) h4]
                exact h
    · intro w n now mn r h
      simp only [gptLoop] at h
      rw [gptLoop]
      split at h
      · exact h
      · rename_i c t he
        split at h
        · cases h
        · rename_i w1 mn1 h1
          rw [ih.1 w c now mn (w1, mn1) h1]
          exact ih.2 w1 n now mn1 r h

theorem pulse_fuel_mono (never d k k' : Nat) (hk : k ≤ k') (w r : World) (n now : Nat)
    (h : pulseAux never d k w n now = some r) : pulseAux never d k' w n now = some r := by
  induction hk with
  | refl => exact h
  | step _ ih => exact (pulse_fuel_succ never d _).1 w r n now ih

theorem gpt_fuel_mono (never d k k' : Nat) (hk : k ≤ k') (w : World) (n now mn : Nat) (r : World × Nat)
    (h : gptAux never d k w n now mn = some r) : gptAux never d k' w n now mn = some r := by
  induction hk with
  | refl => exact h
  | step _ ih => exact (gpt_fuel_succ never d _).1 w n now mn r ih

end Muscle.Pulse
