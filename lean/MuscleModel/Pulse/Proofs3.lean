import MuscleModel.Pulse.Proofs2

/-!
# Lemmas for C20, part 3: sortedness of every SCHEDULED list under the list maintenance, the wake-up
time as a lower bound, the aggregate of a settled tree.
-/

set_option linter.unusedSimpArgs false
set_option linter.unusedVariables false

namespace Muscle.Pulse

/-- every SCHEDULED child list is sorted by aggregate time -/
def AllSorted (f : Forest) : Prop := ∀ p, Sorted (fun i => (f i).agg) (f p).sched

theorem aggFun_eq {f f' : Forest} (h : SameScalars f f') : (fun i => (f' i).agg) = (fun i => (f i).agg) := by
  funext i; exact (h i).2.2.1

theorem sched_setL (f : Forest) (p : Nat) (w : Which) (l : List Nat) (i : Nat) :
    (setL f p w l i).sched = if i = p ∧ w = .sched then l else (f i).sched := by
  unfold setL upd
  by_cases h : i = p
  · subst h; cases w <;> simp [Node.setList]
  · simp [h]

theorem allSorted_setL_other (f : Forest) (p : Nat) (w : Which) (l : List Nat) (hw : w ≠ .sched)
    (h : AllSorted f) : AllSorted (setL f p w l) := by
  intro i
  rw [aggFun_eq (sameScalars_setL f p w l), sched_setL]
  simp [hw]; exact h i

theorem allSorted_setL_sched (f : Forest) (p : Nat) (l : List Nat)
    (hl : Sorted (fun i => (f i).agg) l) (h : AllSorted f) : AllSorted (setL f p .sched l) := by
  intro i
  rw [aggFun_eq (sameScalars_setL f p .sched l), sched_setL]
  by_cases hi : i = p
  · simp [hi]; exact hl
  · simp [hi]; exact h i

theorem allSorted_unlink (f : Forest) (p c : Nat) (h : AllSorted f) : AllSorted (unlink f p c) := by
  unfold unlink
  split
  · rename_i l _
    cases l
    · exact allSorted_setL_sched f p _ (erase_sorted _ c _ (h p)) h
    · exact allSorted_setL_other f p _ _ (by decide) h
    · exact allSorted_setL_other f p _ _ (by decide) h
  · exact h

theorem allSorted_setCur (f : Forest) (c : Nat) (w : Option Which) (h : AllSorted f) : AllSorted (setCur f c w) := by
  intro i
  rw [aggFun_eq (sameScalars_setCur f c w)]
  have : (setCur f c w i).sched = (f i).sched := by
    unfold setCur upd
    by_cases hi : i = c
    · subst hi; simp
    · simp [hi]
  rw [this]; exact h i

/-- `ReschedulePulseChild` keeps every SCHEDULED list sorted (the child is unlinked first, then put in its
    place by `insertSched`; the recursion up the parent chain only touches NEEDSRECALC lists) -/
theorem resched_allSorted (never : Nat) : ∀ (d : Nat) (f : Forest) (p c : Nat) (w : Option Which) (f' : Forest),
    AllSorted f → resched never d f p c w = some f' → AllSorted f' := by
  intro d
  induction d with
  | zero => intro f p c w f' _ h; simp [resched] at h
  | succ d ih =>
    intro f p c w f' hs h
    simp only [resched] at h
    split at h
    · have h2 : AllSorted (setCur (unlink f p c) c w) := allSorted_setCur _ c w (allSorted_unlink f p c hs)
      generalize setCur (unlink f p c) c w = f2 at h h2
      split at h
      · cases h; exact allSorted_setL_sched f2 p _ (insertSched_sorted _ c _ (h2 p)) h2
      · split at h
        · rename_i f3 hf3
          cases h
          have h3 : AllSorted f3 := by
            split at hf3
            · exact ih _ _ _ _ _ h2 hf3
            · cases hf3; exact h2
          exact allSorted_setL_other f3 p _ _ (by decide) h3
        · cases h
      · cases h; exact allSorted_setL_other f2 p _ _ (by decide) h2
      · cases h; exact h2
    · cases h; exact hs

/-- an update of one node that keeps its `sched` list and its `agg` -/
theorem allSorted_upd_same (f : Forest) (n : Nat) (nd : Node) (h1 : nd.sched = (f n).sched) (h2 : nd.agg = (f n).agg)
    (h : AllSorted f) : AllSorted (upd f n nd) := by
  have ha : (fun i => (upd f n nd i).agg) = (fun i => (f i).agg) := by
    funext i; unfold upd; by_cases hi : i = n
    · subst hi; simp [h2]
    · simp [hi]
  intro i
  rw [ha]
  unfold upd
  by_cases hi : i = n
  · subst hi; simp [h1]; exact h i
  · simp [hi]; exact h i

theorem invalidate_allSorted (never d : Nat) (f : Forest) (n : Nat) (clear : Bool) (f' : Forest)
    (hs : AllSorted f) (h : invalidate never d f n clear = some f') : AllSorted f' := by
  simp only [invalidate] at h
  have h1 : AllSorted (if clear then upd f n { (f n) with myTime := never } else f) := by
    split
    · exact allSorted_upd_same f n _ rfl rfl hs
    · exact hs
  generalize (if clear then upd f n { (f n) with myTime := never } else f) = f1 at h h1
  split at h
  · have h2 : AllSorted (upd f1 n { (f1 n) with valid := false }) := allSorted_upd_same f1 n _ rfl rfl h1
    generalize (upd f1 n { (f1 n) with valid := false }) = f2 at h h2
    split at h
    · exact resched_allSorted never _ _ _ _ _ _ h2 h
    · cases h; exact h2
  · cases h; exact h1

theorem removeChild_allSorted (never d : Nat) (f : Forest) (p c : Nat) (f' : Forest)
    (hs : AllSorted f) (h : removeChild never d f p c = some f') : AllSorted f' := by
  simp only [removeChild] at h
  split at h
  · split at h
    · cases h
    · rename_i f1 hf1
      have h1 : AllSorted f1 := resched_allSorted never _ _ _ _ _ _ hs hf1
      have h2 : AllSorted (orphan f1 c) := allSorted_upd_same f1 c _ rfl rfl h1
      split at h
      · split at h
        · exact resched_allSorted never _ _ _ _ _ _ h2 h
        · cases h; exact h2
      · cases h; exact h2
  · cases h; exact hs

theorem detach_allSorted (never d : Nat) (f : Forest) (c : Nat) (f' : Forest)
    (hs : AllSorted f) (h : detach never d f c = some f') : AllSorted f' := by
  simp only [detach] at h
  split at h
  · exact removeChild_allSorted never d f _ c f' hs h
  · cases h; exact hs

theorem putChild_allSorted (never d : Nat) (f : Forest) (p c : Nat) (f' : Forest)
    (hs : AllSorted f) (h : putChild never d f p c = some f') : AllSorted f' := by
  simp only [putChild] at h
  split at h
  · cases h
  · rename_i f1 hf1
    have h1 : AllSorted f1 := by
      split at hf1
      · exact removeChild_allSorted never d f _ c f1 hs hf1
      · cases hf1; exact hs
    have h2 : AllSorted (setParent f1 c p) := allSorted_upd_same f1 c _ rfl rfl h1
    exact resched_allSorted never _ _ _ _ _ _ h2 h

theorem removeAll_allSorted (never d p : Nat) : ∀ (l : List Nat) (f f' : Forest),
    AllSorted f → removeAll never d p l f = some f' → AllSorted f' := by
  intro l
  induction l with
  | nil => intro f f' hs h; simp [removeAll] at h; subst h; exact hs
  | cons c r ih =>
    intro f f' hs h
    simp only [removeAll] at h
    split at h
    · rename_i f1 hf1
      exact ih f1 f' (removeChild_allSorted never d f p c f1 hs hf1) h
    · cases h

/-- after `ClearPulseChildren` all three child lists of `p` have been emptied by `RemovePulseChild` calls;
    here: sortedness survives -/
theorem clearChildren_allSorted (never d : Nat) (f : Forest) (p : Nat) (f' : Forest)
    (hs : AllSorted f) (h : clearChildren never d f p = some f') : AllSorted f' := by
  simp only [clearChildren] at h
  split at h
  · cases h
  · rename_i f1 h1
    split at h
    · cases h
    · rename_i f2 h2
      exact removeAll_allSorted never d p _ _ _
        (removeAll_allSorted never d p _ _ _ (removeAll_allSorted never d p _ _ _ hs h1) h2) h

/-! ### the pulse sweep never changes an aggregate time, so it keeps every list sorted -/

def WSorted (w : World) : Prop := AllSorted w.f

theorem runAct_allSorted (never d : Nat) (w w' : World) (a : Act) (hs : WSorted w)
    (h : runAct never d w a = some w') : WSorted w' := by
  cases a with
  | inval id clear =>
    simp only [runAct, Option.map_eq_some_iff] at h
    obtain ⟨f', hf, rfl⟩ := h
    exact invalidate_allSorted never d w.f id clear f' hs hf
  | setReq id t => simp only [runAct] at h; cases h; exact hs
  | detach id =>
    simp only [runAct, Option.map_eq_some_iff] at h
    obtain ⟨f', hf, rfl⟩ := h
    exact detach_allSorted never d w.f id f' hs hf
  | attach c p =>
    simp only [runAct] at h
    split at h
    · cases h; exact hs
    · simp only [Option.map_eq_some_iff] at h
      obtain ⟨f', hf, rfl⟩ := h
      exact putChild_allSorted never d w.f p c f' hs hf

theorem runActs_allSorted (never d : Nat) : ∀ (l : List Act) (w w' : World), WSorted w →
    runActs never d w l = some w' → WSorted w' := by
  intro l
  induction l with
  | nil => intro w w' g h; simp [runActs] at h; subst h; exact g
  | cons a r ih =>
    intro w w' g h
    simp only [runActs] at h
    split at h
    · rename_i w1 h1
      exact ih w1 w' (runAct_allSorted never d w w1 a g h1) h
    · cases h

theorem callP_allSorted (never d : Nat) (w w' : World) (n now : Nat) (hs : WSorted w)
    (h : callP never d w n now = some w') : WSorted w' := by
  simp only [callP] at h
  split at h
  · cases h
  · rename_i w2 h2
    cases h
    have g2 : WSorted w2 := runActs_allSorted never d _ _ _ (by exact hs) h2
    exact allSorted_upd_same w2.f n _ rfl rfl g2

theorem pulse_allSorted (never d : Nat) : ∀ (k : Nat),
    (∀ (w w' : World) (n now : Nat), WSorted w → pulseAux never d k w n now = some w' → WSorted w') ∧
    (∀ (w w' : World) (n now : Nat), WSorted w → pulseLoop never d k w n now = some w' → WSorted w') := by
  intro k
  induction k with
  | zero => exact ⟨fun w w' n now _ h => by simp [pulseAux] at h, fun w w' n now _ h => by simp [pulseLoop] at h⟩
  | succ k ih =>
    refine ⟨?_, ?_⟩
    · intro w w' n now g h
      simp only [pulseAux] at h
      split at h
      · cases h
      · rename_i w1 h1
        have g1 : WSorted w1 := by
          split at h1
          · exact callP_allSorted never d w w1 n now g h1
          · cases h1; exact g
        split at h
        · cases h
        · rename_i w2 h2
          have g2 := ih.2 w1 w2 n now g1 h2
          simp only [pulseFinish] at h
          split at h
          · simp only [Option.map_eq_some_iff] at h
            obtain ⟨f', hf, rfl⟩ := h
            exact resched_allSorted never _ _ _ _ _ _ g2 hf
          · cases h; exact g2
    · intro w w' n now g h
      simp only [pulseLoop] at h
      split at h
      · cases h; exact g
      · rename_i c _ _
        split at h
        · split at h
          · cases h
          · rename_i w1 h1
            exact ih.2 w1 w' n now (ih.1 w w1 c now g h1) h
        · cases h; exact g

/-! ## The wake-up time -/

/-- `GetPulseTimeAux` leaves `min` at or below the node's new aggregate time, and never raises it; the new aggregate is
    `min(own time, first scheduled child)` — with own time 0 when the node's request does not stand -/
theorem gptFinish_min (never d : Nat) (w w' : World) (n mn mn' : Nat)
    (h : gptFinish never d w n mn = some (w', mn')) :
    mn' ≤ mn ∧ mn' ≤ (w'.f n).agg ∧
    (w'.f n).agg = min (if (w.f n).valid = true then (w.f n).myTime else 0) (firstSchedAgg never w.f n) ∧
    (mn' = mn ∨ mn' = (w'.f n).agg) := by
  simp only [gptFinish] at h
  generalize (min (if (w.f n).valid = true then (w.f n).myTime else 0) (firstSchedAgg never w.f n)) = a at h ⊢
  split at h
  · rename_i f4 h4
    cases h
    have hagg : (f4 n).agg = a := by
      have e0 : (upd w.f n { (w.f n) with agg := a } n).agg = a := by simp [upd]
      generalize (upd w.f n { (w.f n) with agg := a }) = f3 at h4 e0
      split at h4
      · split at h4
        · rw [(resched_sameScalars never _ _ _ _ _ _ h4 n).2.2.1]; exact e0
        · cases h4; exact e0
      · cases h4; exact e0
    show _ ∧ _ ≤ (f4 n).agg ∧ (f4 n).agg = _ ∧ (_ ∨ _ = (f4 n).agg)
    rw [hagg]
    by_cases hlt : a < mn
    · simp only [hlt, if_true]
      exact ⟨by omega, Nat.le_refl _, trivial, Or.inr trivial⟩
    · simp only [hlt, if_false]
      exact ⟨Nat.le_refl _, by omega, trivial, Or.inl trivial⟩
  · cases h

/-- the repaired behaviour: when `GetPulseTimeAux` files a node, either the node's request stands or its aggregate time
    is 0 and so is the reported wake-up time (the event loop will not wait) -/
theorem gptFinish_live (never d : Nat) (w w' : World) (n mn mn' : Nat)
    (h : gptFinish never d w n mn = some (w', mn')) :
    (w'.f n).valid = (w.f n).valid ∧ ((w.f n).valid = false → (w'.f n).agg = 0 ∧ mn' = 0) := by
  have hm := gptFinish_min never d w w' n mn mn' h
  refine ⟨?_, fun hv => ?_⟩
  · simp only [gptFinish] at h
    generalize (min (if (w.f n).valid = true then (w.f n).myTime else 0) (firstSchedAgg never w.f n)) = a at h
    split at h
    · rename_i f4 h4
      cases h
      have e0 : (upd w.f n { (w.f n) with agg := a } n).valid = (w.f n).valid := by simp [upd]
      generalize (upd w.f n { (w.f n) with agg := a }) = f3 at h4 e0
      split at h4
      · split at h4
        · rw [(resched_sameScalars never _ _ _ _ _ _ h4 n).1]; exact e0
        · cases h4; exact e0
      · cases h4; exact e0
    · cases h
  · have h0 : (w'.f n).agg = 0 := by
      rw [hm.2.2.1, hv]; simp
    exact ⟨h0, by have := hm.2.1; omega⟩

/-- the nodes below `r` (reflexive-transitive closure of the parent pointer) -/
inductive Desc (f : Forest) (r : Nat) : Nat → Prop
  | refl : Desc f r r
  | step (p c : Nat) : Desc f r p → (f c).parent = some p → Desc f r c

theorem desc_trans {f : Forest} {r a n : Nat} (h1 : Desc f r a) (h2 : Desc f a n) : Desc f r n := by
  induction h2 with
  | refl => exact h1
  | step p c _ hc ih => exact Desc.step p c ih hc

/-- the tree below `r` is settled: no child waits for recalculation, every aggregate is at or below the node's own time
    and its first scheduled child's aggregate (what `GetPulseTimeAux` computes), SCHEDULED lists are sorted, UNSCHEDULED
    children have aggregate `never` -/
structure Settled (never : Nat) (f : Forest) (r : Nat) : Prop where
  agg_my : ∀ p, Desc f r p → (f p).agg ≤ (f p).myTime
  agg_fsa : ∀ p, Desc f r p → (f p).agg ≤ firstSchedAgg never f p
  agg_le : ∀ p, Desc f r p → (f p).agg ≤ never
  sorted : ∀ p, Desc f r p → Sorted (fun i => (f i).agg) (f p).sched
  filed : ∀ p c, Desc f r p → (f c).parent = some p →
    c ∈ (f p).sched ∨ (c ∈ (f p).unsched ∧ (f c).agg = never)

theorem settled_child_le (never : Nat) (f : Forest) (r p c : Nat) (h : Settled never f r)
    (hp : Desc f r p) (hc : (f c).parent = some p) : (f p).agg ≤ (f c).agg := by
  have ha := h.agg_fsa p hp
  have hs := h.sorted p hp
  rcases h.filed p c hp hc with hm | ⟨_, hn⟩
  · unfold firstSchedAgg at ha
    cases hl : (f p).sched with
    | nil => rw [hl] at hm; cases hm
    | cons x xs =>
      rw [hl] at ha hm hs
      simp only [] at ha
      rcases List.mem_cons.mp hm with rfl | hm
      · exact ha
      · have := (List.pairwise_cons.mp hs).1 c hm
        simp only [] at this
        omega
  · rw [hn]; exact h.agg_le p hp

/-- in a settled tree the root's aggregate time is at or before the time requested by every node below it -/
theorem settled_agg_le (never : Nat) (f : Forest) (r n : Nat) (h : Settled never f r) (hn : Desc f r n) :
    (f r).agg ≤ (f n).agg ∧ (f r).agg ≤ (f n).myTime := by
  have key : (f r).agg ≤ (f n).agg := by
    induction hn with
    | refl => exact Nat.le_refl _
    | step p c hp hc ih => exact Nat.le_trans ih (settled_child_le never f r p c h hp hc)
  refine ⟨key, ?_⟩
  have := h.agg_my n hn
  omega

end Muscle.Pulse
