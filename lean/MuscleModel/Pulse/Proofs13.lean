import MuscleModel.Pulse.Proofs12

/-!
# Lemmas for C20, part 13: completeness of the pulse sweep (`fires_iff_due`, "⊇") when the `Pulse` callbacks only change
requests.
-/

set_option linter.unusedSimpArgs false
set_option linter.unusedVariables false

namespace Muscle.Pulse

/-! ## descendants -/

theorem desc_inv {f : Forest} {r x : Nat} (h : Desc f r x) : x = r ∨ ∃ p, Desc f r p ∧ (f x).parent = some p := by
  cases h with
  | refl => exact Or.inl rfl
  | step p _ hp hc => exact Or.inr ⟨p, hp, hc⟩

theorem desc_congr {f f' : Forest} (hp : ∀ z, (f' z).parent = (f z).parent) {r x : Nat} (h : Desc f r x) : Desc f' r x := by
  induction h with
  | refl => exact Desc.refl
  | step p c _ hc ih => exact Desc.step p c ih (by rw [hp c]; exact hc)

/-- below `n`, not `n` itself: below one of `n`'s children -/
theorem desc_first {f : Forest} {n x : Nat} (h : Desc f n x) : x = n ∨ ∃ c, (f c).parent = some n ∧ Desc f c x := by
  induction h with
  | refl => exact Or.inl rfl
  | step p c _ hc ih =>
    rcases ih with rfl | ⟨c0, h0, hd⟩
    · exact Or.inr ⟨c, hc, Desc.refl⟩
    · exact Or.inr ⟨c0, h0, Desc.step p c hd hc⟩

theorem desc_linear {f : Forest} {a b z : Nat} (h1 : Desc f a z) (h2 : Desc f b z) : Desc f a b ∨ Desc f b a := by
  induction h1 generalizing b with
  | refl => exact Or.inr h2
  | step p c hp hc ih =>
    rcases desc_inv h2 with rfl | ⟨p', hp', hc'⟩
    · exact Or.inl (Desc.step p c hp hc)
    · rw [hc] at hc'; cases hc'
      exact ih hp'

/-- the ancestors of a node on the call stack are on the call stack -/
theorem chain_anc (f : Forest) (a : Nat) (r : List Nat) (hc : Chain f (a :: r)) :
    ∀ c y, Desc f c y → y ∈ a :: r → c ∈ a :: r := by
  intro c y h
  induction h with
  | refl => exact fun hy => hy
  | step p y' _ hpar ih =>
    intro hy
    exact ih (List.mem_cons_of_mem _ (chain_parent f a r hc y' hy p hpar))

/-! ## quiet callbacks -/

/-- every queued `Pulse` script only changes requests -/
def PQuiet (w : World) : Prop := ∀ n, ∀ acts ∈ w.pq n, ∀ a ∈ acts, Act.target a = none

theorem runActs_quiet (never d : Nat) : ∀ (l : List Act) (w w' : World), (∀ a ∈ l, Act.target a = none) →
    runActs never d w l = some w' → w'.f = w.f ∧ w'.pq = w.pq ∧ w'.log = w.log := by
  intro l
  induction l with
  | nil => intro w w' _ h; simp [runActs] at h; subst h; exact ⟨rfl, rfl, rfl⟩
  | cons a r ih =>
    intro w w' hq h
    simp only [runActs] at h
    split at h
    · rename_i w1 h1
      have ha := hq a (by simp)
      have e1 : w1.f = w.f ∧ w1.pq = w.pq ∧ w1.log = w.log := by
        cases a with
        | setReq id t => simp only [runAct] at h1; cases h1; exact ⟨rfl, rfl, rfl⟩
        | inval id c => simp [Act.target] at ha
        | detach id => simp [Act.target] at ha
        | attach c p => simp [Act.target] at ha
      obtain ⟨a1, a2, a3⟩ := ih w1 w' (fun b hb => hq b (List.mem_cons_of_mem _ hb)) h
      exact ⟨a1.trans e1.1, a2.trans e1.2.1, a3.trans e1.2.2⟩
    · cases h

/-- what a quiet pulse sweep can change: nothing but request flags (downwards), `_curList` and the lists -/
def QRel (f f' : Forest) : Prop :=
  ∀ z, (f' z).parent = (f z).parent ∧ (f' z).myTime = (f z).myTime ∧ (f' z).agg = (f z).agg ∧
    ((f' z).valid = true → (f z).valid = true)

theorem QRel.refl (f : Forest) : QRel f f := fun _ => ⟨rfl, rfl, rfl, fun h => h⟩

theorem QRel.trans {f g h : Forest} (a : QRel f g) (b : QRel g h) : QRel f h :=
  fun z => ⟨(b z).1.trans (a z).1, (b z).2.1.trans (a z).2.1, (b z).2.2.1.trans (a z).2.2.1,
    fun e => (a z).2.2.2 ((b z).2.2.2 e)⟩

theorem qrel_of_scalars {f f' : Forest} (s : SameScalars f f') : QRel f f' :=
  fun z => ⟨(s z).2.2.2, (s z).2.1, (s z).2.2.1, fun e => by rw [← (s z).1]; exact e⟩

/-- `ReschedulePulseChild(child, NEEDSRECALC)` along a call-stack chain changes nodes of the chain only -/
theorem resched_recalc_frame (never : Nat) : ∀ (d : Nat) (f : Forest) (p c : Nat) (rest : List Nat) (f' : Forest),
    Chain f (c :: p :: rest) → resched never d f p c (some .recalc) = some f' →
    ∀ z, z ∉ c :: p :: rest → f' z = f z := by
  intro d
  induction d with
  | zero => intro f p c rest f' _ h; simp [resched] at h
  | succ d ih =>
    intro f p c rest f' hch h z hz
    have hzc : z ≠ c := fun e => hz (by simp [e])
    have hzp : z ≠ p := fun e => hz (by simp [e])
    simp only [resched] at h
    split at h
    · change (match (match (half f p c (some .recalc) p).parent with
               | some g => resched never d (half f p c (some .recalc)) g p (some .recalc)
               | none => some (half f p c (some .recalc))) with
        | some f3 => some (setL f3 p .recalc (c :: (f3 p).recalc))
        | none => none) = some f' at h
      have e2 : half f p c (some .recalc) z = f z := by
        unfold half setCur unlink upd
        cases (f c).cur <;> simp [hzc, hzp, setL, upd]
      have s2 := half_scalars f p c (some .recalc)
      have hch2 : Chain (half f p c (some .recalc)) (p :: rest) :=
        chain_congr f _ _ (fun y _ => (s2 y).2.2.2) hch.2
      generalize half f p c (some .recalc) = f2 at h e2 hch2
      split at h
      · rename_i f3 h3
        cases h
        have e3 : f3 z = f2 z := by
          split at h3
          · rename_i g hg
            cases rest with
            | nil => simp only [Chain] at hch2; rw [hch2] at hg; cases hg
            | cons g' rest' =>
              simp only [Chain] at hch2
              have : g = g' := by rw [hch2.1] at hg; exact (Option.some.inj hg).symm
              subst this
              exact ih f2 g p rest' f3 ⟨hch2.1, hch2.2⟩ h3 z (fun hm => hz (List.mem_cons_of_mem _ hm))
          · cases h3; rfl
        simp only [setL, upd, hzp, if_false]
        rw [e3, e2]
      · cases h
    · cases h; rfl


/-! ## helpers about the stack -/

theorem child_not_on_stack (f : Forest) (n : Nat) (S : List Nat) (hch : Chain f (n :: S)) (hnd : (n :: S).Nodup)
    (c : Nat) (hc : (f c).parent = some n) : c ∉ n :: S := by
  intro hm
  exact (List.nodup_cons.mp hnd).1 (chain_parent f n S hch c hm n hc)

theorem stack_not_below_child (f : Forest) (n : Nat) (S : List Nat) (hch : Chain f (n :: S)) (hnd : (n :: S).Nodup)
    (c : Nat) (hc : (f c).parent = some n) (y : Nat) (hd : Desc f c y) (hy : y ∈ n :: S) : False :=
  child_not_on_stack f n S hch hnd c hc (chain_anc f n S hch c y hd hy)

/-- two different children of `n`: neither is below the other, and their subtrees are disjoint -/
theorem siblings_apart (f : Forest) (n : Nat) (S : List Nat) (hch : Chain f (n :: S)) (hnd : (n :: S).Nodup)
    (c c2 : Nat) (hc : (f c).parent = some n) (hc2 : (f c2).parent = some n) (hne : c2 ≠ c) : ¬ Desc f c c2 := by
  intro hd
  rcases desc_inv hd with e | ⟨p, hp, hpar⟩
  · exact hne e
  · rw [hc2] at hpar; cases hpar
    exact stack_not_below_child f n S hch hnd c hc n hp (by simp)

theorem settled_congr (never : Nat) (f f' : Forest) (r : Nat) (hs : Settled never f r)
    (hn : ∀ z, Desc f r z → f' z = f z) (hp : ∀ z, (f' z).parent = (f z).parent) (ha : ∀ z, (f' z).agg = (f z).agg) :
    Settled never f' r := by
  have back : ∀ z, Desc f' r z → Desc f r z := fun z h => desc_congr (fun y => (hp y).symm) h
  have hfun : (fun i => (f' i).agg) = (fun i => (f i).agg) := by funext i; exact ha i
  refine ⟨?_, ?_, ?_, ?_, ?_⟩
  · intro p h; rw [hn p (back p h)]; exact hs.agg_my p (back p h)
  · intro p h
    have e := hn p (back p h)
    have : firstSchedAgg never f' p = firstSchedAgg never f p :=
      firstSchedAgg_congr never f f' p (by rw [e]) ha
    rw [this, e]; exact hs.agg_fsa p (back p h)
  · intro p h; rw [ha p]; exact hs.agg_le p (back p h)
  · intro p h; rw [hfun, hn p (back p h)]; exact hs.sorted p (back p h)
  · intro p c h hc
    rw [hp c] at hc
    rw [hn p (back p h), ha c]
    exact hs.filed p c (back p h) hc

/-- the sub-tree of a settled tree is settled -/
theorem settled_sub (never : Nat) (f : Forest) (r a : Nat) (hs : Settled never f r) (ha : Desc f r a) : Settled never f a :=
  { agg_my := fun p hp => hs.agg_my p (desc_trans ha hp)
    agg_fsa := fun p hp => hs.agg_fsa p (desc_trans ha hp)
    agg_le := fun p hp => hs.agg_le p (desc_trans ha hp)
    sorted := fun p hp => hs.sorted p (desc_trans ha hp)
    filed := fun p c hp hc => hs.filed p c (desc_trans ha hp) hc }

/-- what one step of a quiet pulse sweep on node `n` (stack `n :: S`) establishes -/
structure QStep (never : Nat) (now : Nat) (n : Nat) (S : List Nat) (w w' : World) (l : List Event) : Prop where
  log : w'.log = w.log ++ l
  rel : QRel w.f w'.f
  quiet : PQuiet w'
  inv : Inv never w'.f
  frame : ∀ z, z ∉ n :: S → ¬ Desc w.f n z → w'.f z = w.f z

theorem pquiet_tail (w : World) (n : Nat) (h : PQuiet w) (f' : Forest) (lg : List Event) :
    PQuiet { w with f := f', pq := updF w.pq n (w.pq n).tail, log := lg } := by
  intro m acts ha a haa
  simp only [updF] at ha
  by_cases hm : m = n
  · subst hm
    simp only [if_true] at ha
    exact h m acts (List.mem_of_mem_tail ha) a haa
  · simp only [hm, if_false] at ha
    exact h m acts ha a haa

/-- the scripted `Pulse` of a due node when its script only changes requests -/
theorem callP_quiet (never d : Nat) (w w' : World) (n now : Nat) (hq : PQuiet w)
    (h : callP never d w n now = some w') :
    w'.f = upd w.f n { (w.f n) with valid := false } ∧ w'.log = w.log ++ [.P n now (w.f n).myTime] ∧ PQuiet w' := by
  simp only [callP] at h
  split at h
  · cases h
  · rename_i w2 h2
    cases h
    have hacts : ∀ a ∈ (w.pq n).headD [], Act.target a = none := by
      intro a ha
      cases hpq : w.pq n with
      | nil => rw [hpq] at ha; simp at ha
      | cons x t =>
        rw [hpq] at ha
        simp at ha
        exact hq n x (by rw [hpq]; simp) a ha
    obtain ⟨e1, e2, e3⟩ := runActs_quiet never d _ _ _ hacts h2
    simp only [] at e1 e2 e3
    refine ⟨by simp only []; rw [e1], by simp only []; rw [e3], ?_⟩
    intro m acts ha a haa
    simp only [] at ha
    rw [e2] at ha
    simp only [updF] at ha
    by_cases hm : m = n
    · subst hm
      simp only [if_true] at ha
      exact hq m acts (List.mem_of_mem_tail ha) a haa
    · simp only [hm, if_false] at ha
      exact hq m acts ha a haa


/-! ## the sweep -/

theorem pulse_complete (never d now : Nat) (hnow : now < never) : ∀ (k : Nat),
    (∀ (w w' : World) (n : Nat) (S : List Nat), pulseAux never d k w n now = some w' →
      Inv never w.f → PQuiet w → Chain w.f (n :: S) → (n :: S).Nodup → Settled never w.f n →
      ∃ l, QStep never now n S w w' l ∧
        ∀ x, Desc w.f n x → (w.f x).valid = true → (w.f x).myTime ≤ now → ∃ s, Event.P x now s ∈ l) ∧
    (∀ (w w' : World) (n : Nat) (S : List Nat), pulseLoop never d k w n now = some w' →
      Inv never w.f → PQuiet w → Chain w.f (n :: S) → (n :: S).Nodup →
      (∀ c ∈ (w.f n).sched, Settled never w.f c) →
      ∃ l, QStep never now n S w w' l ∧
        ∀ c ∈ (w.f n).sched, (w.f c).agg ≤ now →
          ∀ x, Desc w.f c x → (w.f x).valid = true → (w.f x).myTime ≤ now → ∃ s, Event.P x now s ∈ l) := by
  intro k
  induction k with
  | zero => exact ⟨fun w w' n S h => by simp [pulseAux] at h, fun w w' n S h => by simp [pulseLoop] at h⟩
  | succ k ih =>
    refine ⟨?_, ?_⟩
    · -- PulseAux
      intro w w' n S h hi hq hch hnd hS
      simp only [pulseAux] at h
      split at h
      · cases h
      · rename_i w1 h1
        -- step 1: the node's own callback
        have s1 : ∃ l0, w1.log = w.log ++ l0 ∧ QRel w.f w1.f ∧ PQuiet w1 ∧ Inv never w1.f ∧
            (∀ z, z ≠ n → w1.f z = w.f z) ∧ (∀ z l, (w1.f z).list l = (w.f z).list l) ∧
            ((w.f n).valid = true → (w.f n).myTime ≤ now → ∃ s, Event.P n now s ∈ l0) := by
          split at h1
          · rename_i hdue
            obtain ⟨e1, e2, e3⟩ := callP_quiet never d w w1 n now hq h1
            refine ⟨[.P n now (w.f n).myTime], e2, ?_, e3, callP_inv never d w w1 n now hi h1, ?_, ?_, fun _ _ => ⟨(w.f n).myTime, by simp⟩⟩
            · intro z; rw [e1]; unfold upd
              by_cases hz : z = n
              · subst hz; simp
              · simp [hz]
            · intro z hz; rw [e1]; simp [upd, hz]
            · intro z l; rw [e1]; unfold upd
              by_cases hz : z = n
              · subst hz; cases l <;> simp [Node.list]
              · simp [hz]
          · rename_i hnd'
            cases h1
            exact ⟨[], by simp, QRel.refl _, hq, hi, fun _ _ => rfl, fun _ _ => rfl,
              fun hv ht => absurd ⟨hv, ht⟩ hnd'⟩
        obtain ⟨l0, hl0, r1, q1, i1, fr1, ls1, due1⟩ := s1
        split at h
        · cases h
        · rename_i w2 h2
          have hpar1 : ∀ z, (w1.f z).parent = (w.f z).parent := fun z => (r1 z).1
          have hch1 : Chain w1.f (n :: S) := chain_congr w.f w1.f _ (fun y _ => hpar1 y) hch
          have hsched1 : (w1.f n).sched = (w.f n).sched := by have := ls1 n .sched; simpa using this
          -- the children in the SCHEDULED list are settled, also after the callback
          have hset1 : ∀ c ∈ (w1.f n).sched, Settled never w1.f c := by
            intro c hc
            rw [hsched1] at hc
            have hpc : (w.f c).parent = some n := (hi.1.sound n c .sched hc).1
            have hsc : Settled never w.f c := settled_sub never w.f n c hS (Desc.step n c Desc.refl hpc)
            apply settled_congr never w.f w1.f c hsc _ hpar1 (fun z => (r1 z).2.2.1)
            intro z hz
            apply fr1
            intro e; subst e
            exact stack_not_below_child w.f z S hch hnd c hpc z hz (by simp)
          obtain ⟨l2, st2, comp2⟩ := ih.2 w1 w2 n S h2 i1 q1 hch1 hnd hset1
          have hpar2 : ∀ z, (w2.f z).parent = (w.f z).parent := fun z => (st2.rel z).1.trans (hpar1 z)
          have hch2 : Chain w2.f (n :: S) := chain_congr w.f w2.f _ (fun y _ => hpar2 y) hch
          -- step 3: back into the parent's NEEDSRECALC list
          have s3 : w'.log = w2.log ∧ QRel w2.f w'.f ∧ PQuiet w' ∧ Inv never w'.f ∧ (∀ z, z ∉ n :: S → w'.f z = w2.f z) := by
            have i3 := pulseFinish_inv never d w2 w' n st2.inv h
            simp only [pulseFinish] at h
            split at h
            · rename_i p hp
              simp only [Option.map_eq_some_iff] at h
              obtain ⟨f', hf, rfl⟩ := h
              refine ⟨rfl, qrel_of_scalars (resched_sameScalars never _ _ _ _ _ _ hf), st2.quiet, i3, ?_⟩
              cases S with
              | nil => simp only [Chain] at hch2; rw [hch2] at hp; cases hp
              | cons p' rest =>
                have : p = p' := by simp only [Chain] at hch2; rw [hch2.1] at hp; exact (Option.some.inj hp).symm
                subst this
                exact resched_recalc_frame never d w2.f p n rest f' hch2 hf
            · cases h; exact ⟨rfl, QRel.refl _, st2.quiet, i3, fun _ _ => rfl⟩
          obtain ⟨hl3, r3, q3, i3, fr3⟩ := s3
          refine ⟨l0 ++ l2, ⟨by rw [hl3, st2.log, hl0, List.append_assoc], (r1.trans st2.rel).trans r3, q3, i3, ?_⟩, ?_⟩
          · intro z hz hnz
            have hzn : z ≠ n := fun e => hz (by simp [e])
            rw [fr3 z hz, st2.frame z hz (fun hd => hnz (desc_congr (fun y => (hpar1 y).symm) hd)), fr1 z hzn]
          · intro x hx hv ht
            rcases desc_first hx with rfl | ⟨c, hpc, hdc⟩
            · obtain ⟨s, hs⟩ := due1 hv ht
              exact ⟨s, List.mem_append_left _ hs⟩
            · -- x is below the child c of n; c is in the SCHEDULED list with an aggregate that is due
              have hsc : Settled never w.f c := settled_sub never w.f n c hS (Desc.step n c Desc.refl hpc)
              have hagg : (w.f c).agg ≤ now := Nat.le_trans (settled_agg_le never w.f c x hsc hdc).2 ht
              have hmem : c ∈ (w.f n).sched := by
                rcases hS.filed n c Desc.refl hpc with hm | ⟨_, hne⟩
                · exact hm
                · rw [hne] at hagg; omega
              have hxn : x ≠ n := fun e => stack_not_below_child w.f n S hch hnd c hpc n (e ▸ hdc) (by simp)
              have hx1 : w1.f x = w.f x := fr1 x hxn
              obtain ⟨s, hs⟩ := comp2 c (by rw [hsched1]; exact hmem) (by rw [(r1 c).2.2.1]; exact hagg) x
                (desc_congr (fun y => hpar1 y) hdc) (by rw [hx1]; exact hv) (by rw [hx1]; exact ht)
              exact ⟨s, List.mem_append_right _ hs⟩
    · -- the walk over the SCHEDULED list
      intro w w' n S h hi hq hch hnd hset
      simp only [pulseLoop] at h
      split at h
      · rename_i he
        cases h
        exact ⟨[], ⟨by simp, QRel.refl _, hq, hi, fun _ _ _ => rfl⟩, fun c hc => by rw [he] at hc; cases hc⟩
      · rename_i c t he
        have hcm : c ∈ (w.f n).sched := by rw [he]; simp
        have hpc : (w.f c).parent = some n := (hi.1.sound n c .sched hcm).1
        split at h
        · rename_i hdue
          split at h
          · cases h
          · rename_i w1 h1
            have hcn : c ∉ n :: S := child_not_on_stack w.f n S hch hnd c hpc
            obtain ⟨l1, st1, comp1⟩ := ih.1 w w1 c (n :: S) h1 hi hq ⟨hpc, hch⟩ (List.nodup_cons.mpr ⟨hcn, hnd⟩)
              (hset c hcm)
            have hpar1 : ∀ z, (w1.f z).parent = (w.f z).parent := fun z => (st1.rel z).1
            have hch1 : Chain w1.f (n :: S) := chain_congr w.f w1.f _ (fun y _ => hpar1 y) hch
            -- c has left the SCHEDULED list; nodes below a different child are untouched
            have hcrec : (w1.f c).cur = some .recalc :=
              pulseAux_marks never d k w w1 c now ((pulse_fuel_succ never d k).1 w w1 c now h1) n (by rw [hpar1 c]; exact hpc)
            have untouched : ∀ c2, (w.f c2).parent = some n → c2 ≠ c → ∀ z, Desc w.f c2 z → w1.f z = w.f z := by
              intro c2 hpc2 hne z hz
              apply st1.frame z
              · intro hm
                rcases List.mem_cons.mp hm with e | hm
                · subst e
                  exact siblings_apart w.f n S hch hnd c2 z hpc2 hpc (fun e => hne e.symm) hz
                · exact stack_not_below_child w.f n S hch hnd c2 hpc2 z hz hm
              · intro hd
                rcases desc_linear hd hz with h' | h'
                · exact siblings_apart w.f n S hch hnd c c2 hpc hpc2 hne h'
                · exact siblings_apart w.f n S hch hnd c2 c hpc2 hpc (fun e => hne e.symm) h'
            have hset1 : ∀ c' ∈ (w1.f n).sched, Settled never w1.f c' := by
              intro c' hc'
              obtain ⟨hp', hcur'⟩ := st1.inv.1.sound n c' .sched hc'
              have hpc' : (w.f c').parent = some n := by rw [← hpar1 c']; exact hp'
              have hne : c' ≠ c := fun e => by subst e; rw [hcrec] at hcur'; cases hcur'
              have e' := untouched c' hpc' hne c' Desc.refl
              have hm : c' ∈ (w.f n).sched :=
                hi.1.complete c' n .sched (fun h => h) hpc' (by rw [← e']; exact hcur')
              exact settled_congr never w.f w1.f c' (hset c' hm) (untouched c' hpc' hne) hpar1 (fun z => (st1.rel z).2.2.1)
            obtain ⟨l2, st2, comp2⟩ := ih.2 w1 w' n S h st1.inv st1.quiet hch1 hnd hset1
            refine ⟨l1 ++ l2, ⟨by rw [st2.log, st1.log, List.append_assoc], st1.rel.trans st2.rel, st2.quiet, st2.inv, ?_⟩, ?_⟩
            · intro z hz hnz
              have hdnc : Desc w.f n c := Desc.step n c Desc.refl hpc
              rw [st2.frame z hz (fun hd => hnz (desc_congr (fun y => (hpar1 y).symm) hd))]
              apply st1.frame z
              · intro hm
                rcases List.mem_cons.mp hm with e | hm
                · exact hnz (e ▸ hdnc)
                · exact hz hm
              · exact fun hd => hnz (desc_trans hdnc hd)
            · intro c2 hc2 hagg x hx hv ht
              by_cases hne : c2 = c
              · subst hne
                obtain ⟨s, hs⟩ := comp1 x hx hv ht
                exact ⟨s, List.mem_append_left _ hs⟩
              · have hpc2 : (w.f c2).parent = some n := (hi.1.sound n c2 .sched hc2).1
                have e2 := untouched c2 hpc2 hne c2 Desc.refl
                have ex := untouched c2 hpc2 hne x hx
                have hm1 : c2 ∈ (w1.f n).sched := by
                  have hcur2 : (w.f c2).cur = some .sched := (hi.1.sound n c2 .sched hc2).2
                  exact st1.inv.1.complete c2 n .sched (fun h => h) (by rw [hpar1 c2]; exact hpc2) (by rw [e2]; exact hcur2)
                obtain ⟨s, hs⟩ := comp2 c2 hm1 (by rw [e2]; exact hagg) x
                  (desc_congr (fun y => hpar1 y) hx) (by rw [ex]; exact hv) (by rw [ex]; exact ht)
                exact ⟨s, List.mem_append_right _ hs⟩
        · -- the first scheduled child is not due: by sortedness nobody in the list is
          rename_i hnotdue
          cases h
          refine ⟨[], ⟨by simp, QRel.refl _, hq, hi, fun _ _ _ => rfl⟩, ?_⟩
          intro c2 hc2 hagg
          exfalso
          have hsorted := hi.2 n
          rw [he] at hsorted hc2
          rcases List.mem_cons.mp hc2 with e | hm
          · subst e; exact hnotdue hagg
          · have := (List.pairwise_cons.mp hsorted).1 c2 hm
            simp only [] at this
            exact hnotdue (Nat.le_trans this hagg)


/-- `CallPulseAux` on the root of a settled tree, quiet `Pulse` callbacks: every node below the root whose standing request is due
    is pulsed -/
theorem managerPulse_complete (never d k : Nat) (w w' : World) (root now : Nat) (hnow : now < never)
    (h : managerPulse never d k w root now = some w') (hi : Inv never w.f) (hq : PQuiet w)
    (hroot : (w.f root).parent = none) (hS : Settled never w.f root) :
    ∃ l, w'.log = w.log ++ l ∧
      ∀ x, Desc w.f root x → (w.f x).valid = true → (w.f x).myTime ≤ now → ∃ s, Event.P x now s ∈ l := by
  simp only [managerPulse] at h
  split at h
  · obtain ⟨l, st, comp⟩ := (pulse_complete never d now hnow k).1 w w' root [] h hi hq (by simp [Chain, hroot]) (by simp) hS
    exact ⟨l, st.log, comp⟩
  · rename_i hlt
    cases h
    refine ⟨[], by simp, fun x hx _ ht => ?_⟩
    exfalso
    have := (settled_agg_le never w.f root x hS hx).2
    exact hlt (Nat.le_trans this ht)

end Muscle.Pulse
