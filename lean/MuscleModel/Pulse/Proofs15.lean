import MuscleModel.Pulse.Proofs14

/-!
# Lemmas for C20, part 15: the parent relation of every reachable state has finite height (so it is acyclic).
-/

set_option linter.unusedSimpArgs false
set_option linter.unusedVariables false

namespace Muscle.Pulse

/-- the parent relation has finite height: a function that strictly decreases from parent to child -/
def Height (f : Forest) : Prop := ∃ ht : Nat → Nat, ∀ c p, (f c).parent = some p → ht c < ht p

/-- every parent pointer of `f'` is a parent pointer of `f` -/
def ParSub (f f' : Forest) : Prop := ∀ c p, (f' c).parent = some p → (f c).parent = some p

theorem ParSub.refl (f : Forest) : ParSub f f := fun _ _ h => h
theorem ParSub.trans {f g h : Forest} (a : ParSub f g) (b : ParSub g h) : ParSub f h := fun c p e => a c p (b c p e)

theorem parSub_of_eq {f f' : Forest} (h : ∀ x, (f' x).parent = (f x).parent) : ParSub f f' :=
  fun c p e => by rw [← h c]; exact e

theorem Height.mono {f f' : Forest} (h : Height f) (s : ParSub f f') : Height f' := by
  obtain ⟨ht, hh⟩ := h
  exact ⟨ht, fun c p e => hh c p (s c p e)⟩

theorem desc_parSub {f f' : Forest} (s : ParSub f f') {r x : Nat} (h : Desc f' r x) : Desc f r x := by
  induction h with
  | refl => exact Desc.refl
  | step p c _ hc ih => exact Desc.step p c ih (s c p hc)

/-- the cycle guard of `attach` is sound for every depth: out of fuel it refuses -/
theorem isAnc_sound : ∀ (d : Nat) (f : Forest) (a n : Nat), isAnc d f a n = false → ¬ Desc f a n := by
  intro d
  induction d with
  | zero => intro f a n h; simp [isAnc] at h
  | succ d ih =>
    intro f a n h hd
    simp only [isAnc] at h
    split at h
    · cases h
    · rename_i hne
      rcases desc_inv hd with e | ⟨p, hp, hpar⟩
      · exact hne e.symm
      · rw [hpar] at h
        simp only [] at h
        exact ih f a p h hp

/-- adding the edge `c → p` to a forest in which `c` is a root and `p` is not below `c` -/
theorem height_add_edge (f f' : Forest) (c p : Nat) (h : Height f) (hroot : (f c).parent = none) (hnd : ¬ Desc f c p)
    (hpar : ∀ x, (f' x).parent = if x = c then some p else (f x).parent) : Height f' := by
  obtain ⟨ht, hh⟩ := h
  classical
  refine ⟨fun x => if Desc f c x then ht x else ht x + ht c + 1, ?_⟩
  intro x y hxy
  rw [hpar] at hxy
  by_cases hxc : x = c
  · subst hxc
    simp only [if_true] at hxy
    cases hxy
    simp only [Desc.refl, if_true, hnd, if_false]
    omega
  · simp only [hxc, if_false] at hxy
    have hlt := hh x y hxy
    by_cases hx : Desc f c x
    · by_cases hy : Desc f c y
      · simp only [hx, hy, if_true]; exact hlt
      · simp only [hx, hy, if_true, if_false]; omega
    · have hy : ¬ Desc f c y := fun hy => hx (Desc.step y x hy hxy)
      simp only [hx, hy, if_false]; omega

/-! ## what each operation does to the parent pointers -/

theorem invalidate_parent (never d : Nat) (f : Forest) (n : Nat) (clear : Bool) (f' : Forest)
    (h : invalidate never d f n clear = some f') : ∀ x, (f' x).parent = (f x).parent := by
  intro x
  simp only [invalidate] at h
  have e1 : ((if clear then upd f n { (f n) with myTime := never } else f) x).parent = (f x).parent := by
    split
    · unfold upd; by_cases hx : x = n
      · subst hx; simp
      · simp [hx]
    · rfl
  generalize (if clear then upd f n { (f n) with myTime := never } else f) = f1 at h e1
  split at h
  · have e2 : (upd f1 n { (f1 n) with valid := false } x).parent = (f1 x).parent := by
      unfold upd; by_cases hx : x = n
      · subst hx; simp
      · simp [hx]
    generalize (upd f1 n { (f1 n) with valid := false }) = f2 at h e2
    split at h
    · rw [(resched_sameScalars never _ _ _ _ _ _ h x).2.2.2, e2, e1]
    · cases h; rw [e2, e1]
  · cases h; exact e1

/-- `RemovePulseChild`: the child loses its parent pointer (if it was a child of `p`), nothing else changes -/
theorem removeChild_parent' (never d : Nat) (f : Forest) (p c : Nat) (f' : Forest)
    (h : removeChild never d f p c = some f') :
    (∀ x, x ≠ c → (f' x).parent = (f x).parent) ∧
    ((f c).parent = some p → (f' c).parent = none) ∧ ((f c).parent ≠ some p → (f' c).parent = (f c).parent) := by
  simp only [removeChild] at h
  split at h
  · rename_i hp
    split at h
    · cases h
    · rename_i f1 hf1
      have s1 := resched_sameScalars never _ _ _ _ _ _ hf1
      have eo : ∀ x, (orphan f1 c x).parent = if x = c then none else (f x).parent := by
        intro x; unfold orphan upd
        by_cases hx : x = c
        · subst hx; simp
        · simp [hx]; exact (s1 x).2.2.2
      have key : ∀ g : Forest, (∀ x, (g x).parent = (orphan f1 c x).parent) →
          (∀ x, x ≠ c → (g x).parent = (f x).parent) ∧ ((f c).parent = some p → (g c).parent = none) ∧
          ((f c).parent ≠ some p → (g c).parent = (f c).parent) := by
        intro g hg
        refine ⟨fun x hx => by rw [hg x, eo x]; simp [hx], fun _ => by rw [hg c, eo c]; simp, fun hne => absurd hp hne⟩
      split at h
      · split at h
        · exact key f' (fun x => (resched_sameScalars never _ _ _ _ _ _ h x).2.2.2)
        · cases h; exact key _ (fun _ => rfl)
      · cases h; exact key _ (fun _ => rfl)
  · rename_i hp
    cases h
    exact ⟨fun _ _ => rfl, fun e => absurd e hp, fun _ => rfl⟩

theorem removeChild_parSub (never d : Nat) (f : Forest) (p c : Nat) (f' : Forest)
    (h : removeChild never d f p c = some f') : ParSub f f' := by
  obtain ⟨a1, a2, a3⟩ := removeChild_parent' never d f p c f' h
  intro x q e
  by_cases hx : x = c
  · subst hx
    by_cases hp : (f x).parent = some p
    · rw [a2 hp] at e; cases e
    · rw [a3 hp] at e; exact e
  · rw [a1 x hx] at e; exact e

/-- `PutPulseChild` under the cycle guard keeps the height finite -/
theorem putChild_height (never d : Nat) (f : Forest) (p c : Nat) (f' : Forest) (hH : Height f)
    (hg : ¬ Desc f c p) (h : putChild never d f p c = some f') : Height f' := by
  simp only [putChild] at h
  split at h
  · cases h
  · rename_i f1 hf1
    have s1 : ParSub f f1 ∧ (f1 c).parent = none := by
      split at hf1
      · rename_i q hq
        exact ⟨removeChild_parSub never d f q c f1 hf1, (removeChild_parent' never d f q c f1 hf1).2.1 hq⟩
      · rename_i hq
        cases hf1; exact ⟨ParSub.refl f, hq⟩
    have hpar : ∀ x, (f' x).parent = if x = c then some p else (f1 x).parent := by
      intro x
      rw [(resched_sameScalars never _ _ _ _ _ _ h x).2.2.2]
      unfold setParent upd
      by_cases hx : x = c
      · subst hx; simp
      · simp [hx]
    exact height_add_edge f1 f' c p (hH.mono s1.1) s1.2 (fun hd => hg (desc_parSub s1.1 hd)) hpar


theorem detach_parSub (never d : Nat) (f : Forest) (c : Nat) (f' : Forest)
    (h : detach never d f c = some f') : ParSub f f' := by
  simp only [detach] at h
  split at h
  · exact removeChild_parSub never d f _ c f' h
  · cases h; exact ParSub.refl f

theorem removeAll_parSub (never d p : Nat) : ∀ (l : List Nat) (f f' : Forest),
    removeAll never d p l f = some f' → ParSub f f' := by
  intro l
  induction l with
  | nil => intro f f' h; simp [removeAll] at h; subst h; exact ParSub.refl f
  | cons c r ih =>
    intro f f' h
    simp only [removeAll] at h
    split at h
    · rename_i f1 hf1
      exact (removeChild_parSub never d f p c f1 hf1).trans (ih f1 f' h)
    · cases h

theorem destroy_parSub (never d : Nat) (f : Forest) (n : Nat) (f' : Forest)
    (h : destroy never d f n = some f') : ParSub f f' := by
  simp only [destroy] at h
  split at h
  · cases h
  · rename_i f1 h1
    split at h
    · cases h
    · rename_i f2 h2
      cases h
      have r2 : ParSub f1 f2 := by
        simp only [clearChildren] at h2
        split at h2
        · cases h2
        · rename_i g1 e1
          split at h2
          · cases h2
          · rename_i g2 e2
            exact ((removeAll_parSub never d n _ _ _ e1).trans (removeAll_parSub never d n _ _ _ e2)).trans
              (removeAll_parSub never d n _ _ _ h2)
      refine ((detach_parSub never d f n f1 h1).trans r2).trans ?_
      intro x q e
      by_cases hx : x = n
      · subst hx; simp [upd, Node.fresh] at e
      · simp only [upd, hx, if_false] at e; exact e

theorem runAct_height (never d : Nat) (w w' : World) (a : Act) (hH : Height w.f)
    (h : runAct never d w a = some w') : Height w'.f := by
  cases a with
  | inval id clear =>
    simp only [runAct, Option.map_eq_some_iff] at h
    obtain ⟨f', hf, rfl⟩ := h
    exact hH.mono (parSub_of_eq (invalidate_parent never d w.f id clear f' hf))
  | setReq id t => simp only [runAct] at h; cases h; exact hH
  | detach id =>
    simp only [runAct, Option.map_eq_some_iff] at h
    obtain ⟨f', hf, rfl⟩ := h
    exact hH.mono (detach_parSub never d w.f id f' hf)
  | attach c p =>
    simp only [runAct] at h
    split at h
    · cases h; exact hH
    · rename_i hg
      simp only [Option.map_eq_some_iff] at h
      obtain ⟨f', hf, rfl⟩ := h
      exact putChild_height never d w.f p c f' hH (isAnc_sound d w.f c p (by simpa using hg)) hf

theorem runActs_height (never d : Nat) : ∀ (l : List Act) (w w' : World), Height w.f →
    runActs never d w l = some w' → Height w'.f := by
  intro l
  induction l with
  | nil => intro w w' g h; simp [runActs] at h; subst h; exact g
  | cons a r ih =>
    intro w w' g h
    simp only [runActs] at h
    split at h
    · rename_i w1 h1
      exact ih w1 w' (runAct_height never d w w1 a g h1) h
    · cases h

theorem upd_height (f : Forest) (n : Nat) (nd : Node) (hp : nd.parent = (f n).parent) (hH : Height f) :
    Height (upd f n nd) := by
  apply hH.mono
  apply parSub_of_eq
  intro x; unfold upd
  by_cases hx : x = n
  · subst hx; simp [hp]
  · simp [hx]

theorem callG_height (never d : Nat) (w w' : World) (n now : Nat) (hH : Height w.f)
    (h : callG never d w n now = some w') : Height w'.f := by
  simp only [callG] at h
  split at h
  · cases h
  · rename_i w2 h2
    cases h
    have h1 : Height (upd w.f n { (w.f n) with valid := true }) := upd_height w.f n _ rfl hH
    have hh2 : Height w2.f := runActs_height never d _ _ _ (by exact h1) h2
    exact upd_height w2.f n _ rfl hh2

theorem callP_height (never d : Nat) (w w' : World) (n now : Nat) (hH : Height w.f)
    (h : callP never d w n now = some w') : Height w'.f := by
  simp only [callP] at h
  split at h
  · cases h
  · rename_i w2 h2
    cases h
    have hh2 : Height w2.f := runActs_height never d _ _ _ (by exact hH) h2
    exact upd_height w2.f n _ rfl hh2

theorem gptFinish_height (never d : Nat) (w w' : World) (n mn mn' : Nat) (hH : Height w.f)
    (h : gptFinish never d w n mn = some (w', mn')) : Height w'.f :=
  hH.mono (parSub_of_eq (fun x => (gptFinish_other never d w w' n mn mn' h x).1))

theorem pulseFinish_height (never d : Nat) (w w' : World) (n : Nat) (hH : Height w.f)
    (h : pulseFinish never d w n = some w') : Height w'.f := by
  simp only [pulseFinish] at h
  split at h
  · simp only [Option.map_eq_some_iff] at h
    obtain ⟨f', hf, rfl⟩ := h
    exact hH.mono (parSub_of_eq (fun x => (resched_sameScalars never _ _ _ _ _ _ hf x).2.2.2))
  · cases h; exact hH

theorem gpt_height (never d : Nat) : ∀ (k : Nat),
    (∀ (w w' : World) (n now mn m : Nat), Height w.f → gptAux never d k w n now mn = some (w', m) → Height w'.f) ∧
    (∀ (w w' : World) (n now mn m : Nat), Height w.f → gptLoop never d k w n now mn = some (w', m) → Height w'.f) := by
  intro k
  induction k with
  | zero => exact ⟨fun w w' n now mn m _ h => by simp [gptAux] at h, fun w w' n now mn m _ h => by simp [gptLoop] at h⟩
  | succ k ih =>
    refine ⟨?_, ?_⟩
    · intro w w' n now mn m hH h
      obtain ⟨w1, w2, m2, h1, h2, hr⟩ := gptAux_shape never d k w w' n now mn m h
      have a1 : Height w1.f := by
        split at h1
        · cases h1; exact hH
        · exact callG_height never d w w1 n now hH h1
      have a2 := ih.2 w1 w2 n now mn m2 a1 h2
      rcases hr with ⟨_, hf⟩ | ⟨_, w3, w4, m4, h3, h4, hf⟩
      · exact gptFinish_height never d w2 w' n m2 m a2 hf
      · exact gptFinish_height never d w4 w' n m4 m
          (ih.2 w3 w4 n now m2 m4 (callG_height never d w2 w3 n now a2 h3) h4) hf
    · intro w w' n now mn m hH h
      simp only [gptLoop] at h
      split at h
      · cases h; exact hH
      · rename_i c _ _
        split at h
        · cases h
        · rename_i w1 mn1 h1
          exact ih.2 w1 w' n now mn1 m (ih.1 w w1 c now mn mn1 hH h1) h

theorem pulse_height (never d : Nat) : ∀ (k : Nat),
    (∀ (w w' : World) (n now : Nat), Height w.f → pulseAux never d k w n now = some w' → Height w'.f) ∧
    (∀ (w w' : World) (n now : Nat), Height w.f → pulseLoop never d k w n now = some w' → Height w'.f) := by
  intro k
  induction k with
  | zero => exact ⟨fun w w' n now _ h => by simp [pulseAux] at h, fun w w' n now _ h => by simp [pulseLoop] at h⟩
  | succ k ih =>
    refine ⟨?_, ?_⟩
    · intro w w' n now g h
      simp only [pulseAux] at h
      split at h
      · cases h
      · rename_i w1 h1
        have g1 : Height w1.f := by
          split at h1
          · exact callP_height never d w w1 n now g h1
          · cases h1; exact g
        split at h
        · cases h
        · rename_i w2 h2
          exact pulseFinish_height never d w2 w' n (ih.2 w1 w2 n now g1 h2) h
    · intro w w' n now g h
      simp only [pulseLoop] at h
      split at h
      · cases h; exact g
      · rename_i c _ _
        split at h
        · split at h
          · cases h
          · rename_i w1 h1
            exact ih.2 w1 w' n now (ih.1 w w1 c now g h1) h
        · cases h; exact g

end Muscle.Pulse
