import MuscleModel.Pulse.Proofs16

/-!
# Lemmas for C20, part 17: the quiet pulse sweep completes with fuel `B * (N + 2)`.
-/

set_option linter.unusedSimpArgs false
set_option linter.unusedVariables false

namespace Muscle.Pulse

/-! ## counting -/

theorem nodup_subset_length : ∀ (l1 l2 : List Nat), l1.Nodup → (∀ x ∈ l1, x ∈ l2) → l1.length ≤ l2.length := by
  intro l1
  induction l1 with
  | nil => intro l2 _ _; simp
  | cons a t ih =>
    intro l2 hn hs
    have ha : a ∈ l2 := hs a (by simp)
    have hnt := List.nodup_cons.mp hn
    have hsub : ∀ x ∈ t, x ∈ l2.erase a := by
      intro x hx
      have hxa : x ≠ a := fun e => hnt.1 (e ▸ hx)
      exact (List.mem_erase_of_ne hxa).mpr (hs x (List.mem_cons_of_mem _ hx))
    have := ih (l2.erase a) hnt.2 hsub
    rw [List.length_erase_of_mem ha] at this
    have hpos : 0 < l2.length := List.length_pos_of_mem ha
    simp only [List.length_cons]
    omega

theorem nodup_subset_erase_length (l1 l2 : List Nat) (c : Nat) (hn : l1.Nodup) (hc : c ∈ l2)
    (hs : ∀ x ∈ l1, x ∈ l2 ∧ x ≠ c) : l1.length < l2.length := by
  have := nodup_subset_length l1 (l2.erase c) hn (fun x hx => (List.mem_erase_of_ne (hs x hx).2).mpr (hs x hx).1)
  rw [List.length_erase_of_mem hc] at this
  have hpos : 0 < l2.length := List.length_pos_of_mem hc
  omega

/-! ## what a quiet pulse sweep keeps -/

/-- scripts stay quiet, parent pointers stay, nothing enters a SCHEDULED list -/
def PKeep (w w' : World) : Prop :=
  PQuiet w' ∧ (∀ z, (w'.f z).parent = (w.f z).parent) ∧ (∀ x, (w'.f x).cur = some .sched → (w.f x).cur = some .sched)

theorem PKeep.trans {a b c : World} (h1 : PKeep a b) (h2 : PKeep b c) : PKeep a c :=
  ⟨h2.1, fun z => (h2.2.1 z).trans (h1.2.1 z), fun x e => h1.2.2 x (h2.2.2 x e)⟩

theorem pulse_keep (never d : Nat) : ∀ (k : Nat),
    (∀ (w w' : World) (n now : Nat), PQuiet w → pulseAux never d k w n now = some w' → PKeep w w') ∧
    (∀ (w w' : World) (n now : Nat), PQuiet w → pulseLoop never d k w n now = some w' → PKeep w w') := by
  intro k
  induction k with
  | zero => exact ⟨fun w w' n now _ h => by simp [pulseAux] at h, fun w w' n now _ h => by simp [pulseLoop] at h⟩
  | succ k ih =>
    refine ⟨?_, ?_⟩
    · intro w w' n now hq h
      simp only [pulseAux] at h
      split at h
      · cases h
      · rename_i w1 h1
        have k1 : PKeep w w1 := by
          split at h1
          · obtain ⟨e1, _, e3⟩ := callP_quiet never d w w1 n now hq h1
            refine ⟨e3, fun z => ?_, fun x hx => ?_⟩
            · rw [e1]; unfold upd; by_cases hz : z = n
              · subst hz; simp
              · simp [hz]
            · rw [e1] at hx; unfold upd at hx; by_cases hz : x = n
              · subst hz; simpa using hx
              · simpa [hz] using hx
          · cases h1; exact ⟨hq, fun _ => rfl, fun _ e => e⟩
        split at h
        · cases h
        · rename_i w2 h2
          have k2 := ih.2 w1 w2 n now k1.1 h2
          have k3 : PKeep w2 w' := by
            simp only [pulseFinish] at h
            split at h
            · simp only [Option.map_eq_some_iff] at h
              obtain ⟨f', hf, rfl⟩ := h
              refine ⟨k2.1, fun z => (resched_sameScalars never _ _ _ _ _ _ hf z).2.2.2, fun x hx => ?_⟩
              rcases resched_recalc_cur_or never d w2.f _ n f' hf x with e | e
              · rw [← e]; exact hx
              · rw [e] at hx; cases hx
            · cases h; exact ⟨k2.1, fun _ => rfl, fun _ e => e⟩
          exact (k1.trans k2).trans k3
    · intro w w' n now hq h
      simp only [pulseLoop] at h
      split at h
      · cases h; exact ⟨hq, fun _ => rfl, fun _ e => e⟩
      · rename_i c _ _
        split at h
        · split at h
          · cases h
          · rename_i w1 h1
            have k1 := ih.1 w w1 c now hq h1
            exact k1.trans (ih.2 w1 w' n now k1.1 h)
        · cases h; exact ⟨hq, fun _ => rfl, fun _ e => e⟩

/-- the invariants the termination proof carries -/
def PT (never B N : Nat) (ht : Nat → Nat) (v : World) : Prop :=
  Inv never v.f ∧ PQuiet v ∧ HeightLe B ht v.f ∧ ∀ x, (v.f x).sched.length ≤ N

/-- a SCHEDULED list after a (part of a) quiet pulse sweep is contained in the list before -/
theorem sched_subset (never : Nat) (v v1 : World) (hi : Inv never v.f) (hi1 : Inv never v1.f) (hk : PKeep v v1)
    (n x : Nat) (hx : x ∈ (v1.f n).sched) : x ∈ (v.f n).sched := by
  obtain ⟨hp, hc⟩ := hi1.1.sound n x .sched hx
  exact hi.1.complete x n .sched (fun h => h) (by rw [← hk.2.1 x]; exact hp) (hk.2.2 x hc)

theorem PT_keep (never B N : Nat) (ht : Nat → Nat) (v v1 : World) (hP : PT never B N ht v) (hi1 : Inv never v1.f)
    (hk : PKeep v v1) : PT never B N ht v1 := by
  refine ⟨hi1, hk.1, heightLe_congr hP.2.2.1 hk.2.1, fun x => ?_⟩
  exact Nat.le_trans (nodup_subset_length _ _ (hi1.1.nodup x .sched) (fun y hy => sched_subset never v v1 hP.1 hi1 hk x y hy))
    (hP.2.2.2 x)

/-- the sweep of `n`, `ht n ≤ h`, completes with fuel `(h + 1) * (N + 2)` -/
theorem pulseAux_terminates (never d B N now : Nat) (ht : Nat → Nat) (hd : B < d) : ∀ (h : Nat) (v : World) (n : Nat),
    PT never B N ht v → ht n ≤ h → ∃ v1, pulseAux never d ((h + 1) * (N + 2)) v n now = some v1 := by
  intro h
  induction h with
  | zero =>
    intro v n hP hn
    have := pulseAux_terminates_step never d B 0 N n now ht hd (PT never B N ht) (fun v hv => hv.2.2.1)
      (fun v' c t hv hs _ => by
        exfalso
        have hm : c ∈ (v'.f n).list .sched := by rw [list_sched, hs]; simp
        have := hv.2.2.1.1 c n (hv.1.1.sound n c .sched hm).1
        omega)
      v hP.2.1
      (fun w1 e1 => by
        have i1 : Inv never w1.f := by
          split at e1
          · exact callP_inv never d v w1 n now hP.1 e1
          · cases e1; exact hP.1
        have k1 : PKeep v w1 := by
          have := (pulse_keep never d 1).1 v
          split at e1
          · obtain ⟨a1, _, a3⟩ := callP_quiet never d v w1 n now hP.2.1 e1
            refine ⟨a3, fun z => ?_, fun x hx => ?_⟩
            · rw [a1]; unfold upd; by_cases hz : z = n
              · subst hz; simp
              · simp [hz]
            · rw [a1] at hx; unfold upd at hx; by_cases hz : x = n
              · subst hz; simpa using hx
              · simpa [hz] using hx
          · cases e1; exact ⟨hP.2.1, fun _ => rfl, fun _ e => e⟩
        have p1 := PT_keep never B N ht v w1 hP i1 k1
        exact ⟨p1, p1.2.2.2 n⟩)
    simpa using this
  | succ h ih =>
    intro v n hP hn
    have := pulseAux_terminates_step never d B ((h + 1) * (N + 2)) N n now ht hd (PT never B N ht) (fun v hv => hv.2.2.1)
      (fun v' c t hv hs _ => by
        have hm : c ∈ (v'.f n).list .sched := by rw [list_sched, hs]; simp
        have hpc := (hv.1.1.sound n c .sched hm).1
        have hlt := hv.2.2.1.1 c n hpc
        obtain ⟨v1, e1⟩ := ih v' c hv (by omega)
        have i1 : Inv never v1.f := (pulse_inv never d _).1 v' v1 c now hv.1 e1
        have k1 : PKeep v' v1 := (pulse_keep never d _).1 v' v1 c now hv.2.1 e1
        refine ⟨v1, e1, PT_keep never B N ht v' v1 hv i1 k1, ?_⟩
        apply nodup_subset_erase_length _ _ c (i1.1.nodup n .sched) (by rw [hs]; simp)
        intro x hx
        refine ⟨sched_subset never v' v1 hv.1 i1 k1 n x hx, fun e => ?_⟩
        subst e
        -- the child has been flagged NEEDSRECALC
        have hfuel : (h + 1) * (N + 2) = ((h + 1) * (N + 2) - 1) + 1 := by
          have : 0 < (h + 1) * (N + 2) := Nat.mul_pos (by omega) (by omega)
          omega
        rw [hfuel] at e1
        have := pulseAux_marks never d _ v' v1 x now e1 n (by rw [k1.2.1 x]; exact hpc)
        have hc := (i1.1.sound n x .sched hx).2
        rw [this] at hc; cases hc)
      v hP.2.1
      (fun w1 e1 => by
        have i1 : Inv never w1.f := by
          split at e1
          · exact callP_inv never d v w1 n now hP.1 e1
          · cases e1; exact hP.1
        have k1 : PKeep v w1 := by
          split at e1
          · obtain ⟨a1, _, a3⟩ := callP_quiet never d v w1 n now hP.2.1 e1
            refine ⟨a3, fun z => ?_, fun x hx => ?_⟩
            · rw [a1]; unfold upd; by_cases hz : z = n
              · subst hz; simp
              · simp [hz]
            · rw [a1] at hx; unfold upd at hx; by_cases hz : x = n
              · subst hz; simpa using hx
              · simpa [hz] using hx
          · cases e1; exact ⟨hP.2.1, fun _ => rfl, fun _ e => e⟩
        have p1 := PT_keep never B N ht v w1 hP i1 k1
        exact ⟨p1, p1.2.2.2 n⟩)
    have hfuel : (h + 1 + 1) * (N + 2) = (h + 1) * (N + 2) + N + 2 := by rw [Nat.succ_mul]; omega
    rw [hfuel]
    exact this


/-- `CallPulseAux` with quiet scripts completes with fuel `B * (N + 2)` (and with every larger fuel) -/
theorem managerPulse_terminates (never d B N : Nat) (ht : Nat → Nat) (hd : B < d) (w : World) (root t : Nat)
    (hP : PT never B N ht w) (k : Nat) (hk : B * (N + 2) ≤ k) : ∃ w', managerPulse never d k w root t = some w' := by
  simp only [managerPulse]
  split
  · obtain ⟨v1, e1⟩ := pulseAux_terminates never d B N t ht hd (ht root) w root hP (Nat.le_refl _)
    have hle : (ht root + 1) * (N + 2) ≤ k :=
      Nat.le_trans (Nat.mul_le_mul_right _ (hP.2.2.1.2 root)) hk
    exact ⟨v1, pulse_fuel_mono never d _ k hle w v1 root t e1⟩
  · exact ⟨w, rfl⟩

end Muscle.Pulse
