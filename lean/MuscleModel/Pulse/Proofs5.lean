import MuscleModel.Pulse.Proofs4

/-!
# Lemmas for C20, part 5: the structural invariant `InvEx` and its preservation by `ReschedulePulseChild`.

`InvEx never Pc Pa f` is the invariant with two exception sets that are needed only *inside* the recursion of
`ReschedulePulseChild` up the parent chain: `Pc` = nodes already switched to NEEDSRECALC but not yet prepended to
their parent's list, `Pa` = nodes whose SCHEDULED list has just lost a child and which are about to be marked.
At every operation boundary both sets are empty (`Inv`).
-/

set_option linter.unusedSimpArgs false
set_option linter.unusedVariables false

namespace Muscle.Pulse

/-! ## field lemmas of the helpers -/

@[simp] theorem list_sched (n : Node) : n.list .sched = n.sched := rfl
@[simp] theorem list_unsched (n : Node) : n.list .unsched = n.unsched := rfl
@[simp] theorem list_recalc (n : Node) : n.list .recalc = n.recalc := rfl

theorem list_setList (n : Node) (w l' : Which) (l : List Nat) :
    (n.setList w l).list l' = if l' = w then l else n.list l' := by
  cases w <;> cases l' <;> simp [Node.setList, Node.list]

theorem cur_setList (n : Node) (w : Which) (l : List Nat) : (n.setList w l).cur = n.cur := by
  cases w <;> rfl

theorem list_setL (f : Forest) (p : Nat) (w : Which) (l : List Nat) (q : Nat) (l' : Which) :
    (setL f p w l q).list l' = if q = p ∧ l' = w then l else (f q).list l' := by
  unfold setL upd
  by_cases h : q = p
  · subst h; simp [list_setList]
  · simp [h]

theorem cur_setL (f : Forest) (p : Nat) (w : Which) (l : List Nat) (q : Nat) :
    (setL f p w l q).cur = (f q).cur := by
  unfold setL upd
  by_cases h : q = p
  · subst h; simp [cur_setList]
  · simp [h]

theorem list_setCur (f : Forest) (c : Nat) (w : Option Which) (q : Nat) (l' : Which) :
    (setCur f c w q).list l' = (f q).list l' := by
  unfold setCur upd
  by_cases h : q = c
  · subst h; cases l' <;> simp [Node.list]
  · simp [h]

theorem cur_setCur (f : Forest) (c : Nat) (w : Option Which) (q : Nat) :
    (setCur f c w q).cur = if q = c then w else (f q).cur := by
  unfold setCur upd
  by_cases h : q = c
  · subst h; simp
  · simp [h]

theorem list_unlink (f : Forest) (p c q : Nat) (l' : Which) :
    (unlink f p c q).list l' = if q = p ∧ (f c).cur = some l' then ((f p).list l').erase c else (f q).list l' := by
  unfold unlink
  cases hl : (f c).cur with
  | none => simp
  | some l =>
    show (setL f p l (((f p).list l).erase c) q).list l' = _
    rw [list_setL]
    by_cases h : q = p
    · subst h
      by_cases h2 : l' = l
      · subst h2; simp
      · have : ¬ (l = l') := fun e => h2 e.symm
        simp [h2, this]
    · simp [h]

theorem cur_unlink (f : Forest) (p c q : Nat) : (unlink f p c q).cur = (f q).cur := by
  unfold unlink
  cases hl : (f c).cur with
  | none => rfl
  | some l => exact cur_setL f p _ _ q

/-- the state after the first half of `ReschedulePulseChild`: child unlinked, `_curList` set -/
def half (f : Forest) (p c : Nat) (w : Option Which) : Forest := setCur (unlink f p c) c w

theorem half_scalars (f : Forest) (p c : Nat) (w : Option Which) : SameScalars f (half f p c w) :=
  (sameScalars_unlink f p c).trans (sameScalars_setCur _ c w)

theorem half_cur (f : Forest) (p c : Nat) (w : Option Which) (q : Nat) :
    (half f p c w q).cur = if q = c then w else (f q).cur := by
  unfold half; rw [cur_setCur, cur_unlink]

theorem half_list (f : Forest) (p c : Nat) (w : Option Which) (q : Nat) (l' : Which) :
    (half f p c w q).list l' = if q = p ∧ (f c).cur = some l' then ((f p).list l').erase c else (f q).list l' := by
  unfold half; rw [list_setCur, list_unlink]

theorem half_list_sub (f : Forest) (p c : Nat) (w : Option Which) (q : Nat) (l' : Which) (x : Nat)
    (h : x ∈ (half f p c w q).list l') : x ∈ (f q).list l' := by
  rw [half_list] at h
  split at h
  · rename_i hq; rw [hq.1]; exact List.mem_of_mem_erase h
  · exact h

/-! ## the invariant -/

/-- a non-root node that is in its parent's SCHEDULED or UNSCHEDULED list -/
def Filed (f : Forest) (x : Nat) : Prop :=
  (∃ q, (f x).parent = some q) ∧ ((f x).cur = some .sched ∨ (f x).cur = some .unsched)

/-- what the aggregate time of a filed node satisfies -/
def AOK (never : Nat) (f : Forest) (x : Nat) : Prop :=
  (f x).agg ≤ (f x).myTime ∧ (f x).agg ≤ firstSchedAgg never f x ∧
  ((f x).valid = true → (f x).agg = min (f x).myTime (firstSchedAgg never f x)) ∧
  ((f x).cur = some .sched ↔ (f x).agg ≠ never)

structure InvEx (never : Nat) (Pc Pa : Nat → Prop) (f : Forest) : Prop where
  /-- list membership implies the child's `_parent` and `_curList` -/
  sound : ∀ q x l, x ∈ (f q).list l → (f x).parent = some q ∧ (f x).cur = some l
  nodup : ∀ q l, ((f q).list l).Nodup
  /-- `_parent` and `_curList` imply list membership (except for pending nodes) -/
  complete : ∀ x q l, ¬ Pc x → (f x).parent = some q → (f x).cur = some l → x ∈ (f q).list l
  /-- pending nodes are flagged NEEDSRECALC and are in no list -/
  pend : ∀ x, Pc x → (f x).cur = some .recalc ∧ ∀ q l, x ∉ (f q).list l
  rootcur : ∀ x, (f x).parent = none → (f x).cur = none
  childcur : ∀ x q, (f x).parent = some q → (f x).cur ≠ none
  /-- a non-root node with a child waiting for recalculation waits itself -/
  marked : ∀ x q, (f x).parent = some q → (f x).recalc ≠ [] → (f x).cur = some .recalc
  aok : ∀ x, ¬ Pa x → Filed f x → AOK never f x
  aggle : ∀ x, (f x).agg ≤ never

/-- the invariant at operation boundaries -/
def Inv (never : Nat) (f : Forest) : Prop := InvEx never (fun _ => False) (fun _ => False) f ∧ AllSorted f

theorem firstSchedAgg_congr (never : Nat) (f f' : Forest) (x : Nat) (hs : (f' x).sched = (f x).sched)
    (ha : ∀ i, (f' i).agg = (f i).agg) : firstSchedAgg never f' x = firstSchedAgg never f x := by
  unfold firstSchedAgg
  rw [hs]
  split <;> simp [ha]

theorem AOK_congr (never : Nat) (f f' : Forest) (x : Nat) (hs : (f' x).sched = (f x).sched)
    (ha : ∀ i, (f' i).agg = (f i).agg) (hm : (f' x).myTime = (f x).myTime) (hv : (f' x).valid = (f x).valid)
    (hc : (f' x).cur = (f x).cur) (h : AOK never f x) : AOK never f' x := by
  unfold AOK at h ⊢
  rw [firstSchedAgg_congr never f f' x hs ha, ha x, hm, hv, hc]
  exact h

/-- the first half of a move to NEEDSRECALC: `c` becomes pending, `p` may have lost its first scheduled child -/
theorem half_inv (never : Nat) (Pc Pa : Nat → Prop) (f : Forest) (p c : Nat)
    (hi : InvEx never Pc Pa f) (hp : (f c).parent = some p) (hc : (f c).cur ≠ some .recalc) :
    InvEx never (fun x => Pc x ∨ x = c) (fun x => Pa x ∨ x = p) (half f p c (some .recalc)) := by
  have hs := half_scalars f p c (some .recalc)
  have hpc : ¬ Pc c := fun h => hc (hi.pend c h).1
  refine ⟨?_, ?_, ?_, ?_, ?_, ?_, ?_, ?_, ?_⟩
  · -- sound
    intro q x l hx
    have hx0 := half_list_sub f p c _ q l x hx
    obtain ⟨h1, h2⟩ := hi.sound q x l hx0
    refine ⟨by rw [(hs x).2.2.2]; exact h1, ?_⟩
    rw [half_cur]
    by_cases hxc : x = c
    · -- c itself was erased from its list
      subst hxc
      exfalso
      rw [half_list] at hx
      have hq : q = p := by rw [hp] at h1; exact (Option.some.inj h1).symm
      simp only [hq, h2, true_and, if_true] at hx
      exact (List.Nodup.mem_erase_iff (hi.nodup p l)).mp hx |>.1 rfl
    · simp [hxc]; exact h2
  · -- nodup
    intro q l
    rw [half_list]
    split
    · exact List.Nodup.erase c (hi.nodup p l)
    · exact hi.nodup q l
  · -- complete
    intro x q l hx hpar hcur
    have hxc : x ≠ c := fun e => hx (Or.inr e)
    have hxp : ¬ Pc x := fun e => hx (Or.inl e)
    rw [(hs x).2.2.2] at hpar
    rw [half_cur] at hcur
    simp only [hxc, if_false] at hcur
    have := hi.complete x q l hxp hpar hcur
    rw [half_list]
    split
    · rename_i hq
      rw [← hq.1]
      exact (List.mem_erase_of_ne hxc).mpr this
    · exact this
  · -- pend
    intro x hx
    rcases hx with hx | hx
    · have hxc : x ≠ c := fun e => hpc (e ▸ hx)
      obtain ⟨h1, h2⟩ := hi.pend x hx
      refine ⟨by rw [half_cur]; simp [hxc]; exact h1, ?_⟩
      intro q l hm
      exact h2 q l (half_list_sub f p c _ q l x hm)
    · subst hx
      refine ⟨by rw [half_cur]; simp, ?_⟩
      intro q l hm
      have hm0 := half_list_sub f p x _ q l x hm
      obtain ⟨h1, h2⟩ := hi.sound q x l hm0
      have hq : q = p := by rw [hp] at h1; exact (Option.some.inj h1).symm
      rw [half_list] at hm
      simp only [hq, h2, true_and, if_true] at hm
      exact (List.Nodup.mem_erase_iff (hi.nodup p l)).mp hm |>.1 rfl
  · -- rootcur
    intro x hx
    rw [(hs x).2.2.2] at hx
    rw [half_cur]
    have hxc : x ≠ c := fun e => by subst e; rw [hp] at hx; cases hx
    simp [hxc]; exact hi.rootcur x hx
  · -- childcur
    intro x q hx
    rw [(hs x).2.2.2] at hx
    rw [half_cur]
    by_cases hxc : x = c
    · simp [hxc]
    · simp [hxc]; exact hi.childcur x q hx
  · -- marked
    intro x q hx hne
    rw [(hs x).2.2.2] at hx
    rw [half_cur]
    by_cases hxc : x = c
    · simp [hxc]
    · simp only [hxc, if_false]
      apply hi.marked x q hx
      intro he
      apply hne
      have : (half f p c (some .recalc) x).list .recalc = (half f p c (some .recalc) x).recalc := rfl
      rw [← this, half_list]
      split
      · rename_i hq; rw [← hq.1]
        have : (f x).list .recalc = [] := he
        rw [this]; rfl
      · exact he
  · -- aok
    intro x hx hf
    have hxp : x ≠ p := fun e => hx (Or.inr e)
    have hxa : ¬ Pa x := fun e => hx (Or.inl e)
    have hxc : x ≠ c := by
      intro e; subst e
      obtain ⟨_, h | h⟩ := hf <;> (rw [half_cur] at h; simp at h)
    have hcur : (half f p c (some .recalc) x).cur = (f x).cur := by rw [half_cur]; simp [hxc]
    have hsch : (half f p c (some .recalc) x).sched = (f x).sched := by
      have : (half f p c (some .recalc) x).list .sched = (half f p c (some .recalc) x).sched := rfl
      rw [← this, half_list]; simp [hxp]
    have hf0 : Filed f x := by
      obtain ⟨⟨q, hq⟩, h⟩ := hf
      refine ⟨⟨q, by rw [← (hs x).2.2.2]; exact hq⟩, ?_⟩
      rw [hcur] at h; exact h
    exact AOK_congr never f _ x hsch (fun i => (hs i).2.2.1) (hs x).2.1 (hs x).1 hcur (hi.aok x hxa hf0)
  · intro x; rw [(hs x).2.2.1]; exact hi.aggle x


/-- the second half of a move to NEEDSRECALC: the pending child is prepended to its parent's list, the parent has
    been marked by the recursion (or is a root) -/
theorem prepend_inv (never : Nat) (Pc Pa : Nat → Prop) (f3 : Forest) (p c : Nat)
    (i3 : InvEx never (fun x => Pc x ∨ x = c) (fun x => Pa x ∨ x = p) f3)
    (hpc : ¬ Pc c) (hp : (f3 c).parent = some p)
    (hpp : (f3 p).parent = none ∨ (f3 p).cur = some .recalc) :
    InvEx never Pc Pa (setL f3 p .recalc (c :: (f3 p).recalc)) ∧
    (setL f3 p .recalc (c :: (f3 p).recalc) c).cur = some .recalc := by
  have hs := sameScalars_setL f3 p .recalc (c :: (f3 p).recalc)
  obtain ⟨hcc, hca⟩ := i3.pend c (Or.inr rfl)
  refine ⟨⟨?_, ?_, ?_, ?_, ?_, ?_, ?_, ?_, ?_⟩, by rw [cur_setL]; exact hcc⟩
  · intro q x l hx
    rw [list_setL] at hx
    rw [(hs x).2.2.2, cur_setL]
    split at hx
    · rename_i hq
      rcases List.mem_cons.mp hx with rfl | hx
      · rw [hq.1, hq.2]; exact ⟨hp, hcc⟩
      · rw [hq.1, hq.2]; exact i3.sound p x .recalc hx
    · exact i3.sound q x l hx
  · intro q l
    rw [list_setL]
    split
    · exact List.nodup_cons.mpr ⟨hca p .recalc, i3.nodup p .recalc⟩
    · exact i3.nodup q l
  · intro x q l hx hpar hcur
    rw [(hs x).2.2.2] at hpar
    rw [cur_setL] at hcur
    rw [list_setL]
    by_cases hxc : x = c
    · subst hxc
      have hq : q = p := by rw [hp] at hpar; exact (Option.some.inj hpar).symm
      have hl : l = .recalc := by rw [hcc] at hcur; exact (Option.some.inj hcur).symm
      simp [hq, hl]
    · have := i3.complete x q l (fun h => h.elim hx hxc) hpar hcur
      split
      · rename_i hq
        rw [hq.1, hq.2] at this
        exact List.mem_cons_of_mem _ this
      · exact this
  · intro x hx
    have hxc : x ≠ c := fun e => hpc (e ▸ hx)
    obtain ⟨h1, h2⟩ := i3.pend x (Or.inl hx)
    refine ⟨by rw [cur_setL]; exact h1, ?_⟩
    intro q l hm
    rw [list_setL] at hm
    split at hm
    · rcases List.mem_cons.mp hm with e | hm
      · exact hxc e
      · exact h2 p .recalc hm
    · exact h2 q l hm
  · intro x hx
    rw [(hs x).2.2.2] at hx; rw [cur_setL]; exact i3.rootcur x hx
  · intro x q hx
    rw [(hs x).2.2.2] at hx; rw [cur_setL]; exact i3.childcur x q hx
  · intro x q hx hne
    rw [(hs x).2.2.2] at hx
    rw [cur_setL]
    by_cases hxp : x = p
    · subst hxp
      rcases hpp with h | h
      · rw [h] at hx; cases hx
      · exact h
    · apply i3.marked x q hx
      intro he; apply hne
      have : (setL f3 p .recalc (c :: (f3 p).recalc) x).list .recalc = (f3 x).list .recalc := by
        rw [list_setL]; simp [hxp]
      exact this.trans he
  · intro x hx hf
    have hcur : (setL f3 p .recalc (c :: (f3 p).recalc) x).cur = (f3 x).cur := cur_setL _ _ _ _ _
    have hf0 : Filed f3 x := by
      obtain ⟨⟨q, hq⟩, h⟩ := hf
      refine ⟨⟨q, by rw [← (hs x).2.2.2]; exact hq⟩, ?_⟩
      rw [hcur] at h; exact h
    have hxp : x ≠ p := by
      intro e; subst e
      obtain ⟨⟨q, hq⟩, h⟩ := hf0
      rcases hpp with h' | h'
      · rw [h'] at hq; cases hq
      · rw [h'] at h; rcases h with h | h <;> cases h
    have hsch : (setL f3 p .recalc (c :: (f3 p).recalc) x).sched = (f3 x).sched := by
      have : (setL f3 p .recalc (c :: (f3 p).recalc) x).list .sched = (f3 x).list .sched := by
        rw [list_setL]; simp [hxp]
      exact this
    exact AOK_congr never f3 _ x hsch (fun i => (hs i).2.2.1) (hs x).2.1 (hs x).1 hcur
      (i3.aok x (fun h => h.elim hx hxp) hf0)
  · intro x; rw [(hs x).2.2.1]; exact i3.aggle x

/-- `ReschedulePulseChild(child, NEEDSRECALC)` (with its recursion up the parent chain) preserves the invariant, and
    the child ends up flagged NEEDSRECALC -/
theorem resched_recalc_inv (never : Nat) : ∀ (d : Nat) (Pc Pa : Nat → Prop) (f : Forest) (p c : Nat) (f' : Forest),
    InvEx never Pc Pa f → (f c).parent = some p → resched never d f p c (some .recalc) = some f' →
    InvEx never Pc Pa f' ∧ (f' c).cur = some .recalc := by
  intro d
  induction d with
  | zero => intro Pc Pa f p c f' _ _ h; simp [resched] at h
  | succ d ih =>
    intro Pc Pa f p c f' hi hp h
    simp only [resched] at h
    by_cases hc : (f c).cur = some .recalc
    · have : ¬ (some Which.recalc ≠ (f c).cur ∨ (f c).cur = some Which.sched) := by
        rw [hc]; simp
      simp only [this, if_false] at h
      cases h; exact ⟨hi, hc⟩
    · have hcond : (some Which.recalc ≠ (f c).cur ∨ (f c).cur = some Which.sched) := Or.inl (fun e => hc e.symm)
      simp only [hcond, if_true] at h
      have hpc : ¬ Pc c := fun hh => hc (hi.pend c hh).1
      have i2 := half_inv never Pc Pa f p c hi hp hc
      have s2 := half_scalars f p c (some .recalc)
      change (match (match (half f p c (some .recalc) p).parent with
               | some g => resched never d (half f p c (some .recalc)) g p (some .recalc)
               | none => some (half f p c (some .recalc))) with
        | some f3 => some (setL f3 p .recalc (c :: (f3 p).recalc))
        | none => none) = some f' at h
      generalize half f p c (some .recalc) = f2 at h i2 s2
      split at h
      · rename_i f3 h3
        cases h
        have hp2 : (f2 c).parent = some p := by rw [(s2 c).2.2.2]; exact hp
        split at h3
        · rename_i g hg
          obtain ⟨i3, hc3⟩ := ih _ _ f2 g p f3 i2 hg h3
          have s3 := resched_sameScalars never _ _ _ _ _ _ h3
          exact prepend_inv never Pc Pa f3 p c i3 hpc (by rw [(s3 c).2.2.2]; exact hp2) (Or.inr hc3)
        · rename_i hg
          cases h3
          exact prepend_inv never Pc Pa f2 p c i2 hpc hp2 (Or.inl hg)
      · cases h

end Muscle.Pulse
