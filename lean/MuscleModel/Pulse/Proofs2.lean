import MuscleModel.Pulse.Proofs

/-!
# Lemmas for C20, part 2: the callback log.  Every `Pulse` callback is made with the time the node last
answered from `GetPulseTime`, while that answer stands, and never before that time — for every script,
including scripts that attach/detach/invalidate from inside callbacks.
-/

set_option linter.unusedSimpArgs false
set_option linter.unusedVariables false

namespace Muscle.Pulse

def ansOf (n : Nat) : Event → Option Nat
  | .G id _ _ ret => if id = n then some ret else none
  | .P _ _ _ => none

/-- the latest answer of node `n` recorded in the log -/
def lastAns (l : List Event) (n : Nat) : Option Nat := l.reverse.findSome? (ansOf n)

theorem lastAns_snoc (l : List Event) (e : Event) (n : Nat) :
    lastAns (l ++ [e]) n = (match ansOf n e with | some a => some a | none => lastAns l n) := by
  unfold lastAns
  simp [List.reverse_append, List.findSome?_cons]
  cases ansOf n e <;> rfl

/-- the log discipline: each `P id now s` entry comes after an answer `s` of node `id` that is the
    latest one at that point, and `s ≤ now` -/
inductive LogOK : List Event → Prop
  | nil : LogOK []
  | snocG (l : List Event) (id now prev ret : Nat) : LogOK l → LogOK (l ++ [.G id now prev ret])
  | snocP (l : List Event) (id now s : Nat) : LogOK l → lastAns l id = some s → s ≤ now → LogOK (l ++ [.P id now s])

/-- every standing request (except possibly that of node `x`, whose `GetPulseTime` is executing) is the
    node's latest recorded answer -/
def AnsInv (x : Option Nat) (w : World) : Prop :=
  ∀ m, x ≠ some m → (w.f m).valid = true → lastAns w.log m = some (w.f m).myTime

def Good (x : Option Nat) (w : World) : Prop := LogOK w.log ∧ AnsInv x w

theorem good_mono {x : Option Nat} {w : World} (g : Good x w) (f' : Forest) (m : Mono w.f f') :
    Good x { w with f := f' } := by
  refine ⟨g.1, ?_⟩
  intro i hx hv
  obtain ⟨h1, h2⟩ := m i hv
  have := g.2 i hx h1
  simp only [] at this ⊢
  rw [h2]; exact this

theorem good_weaken {x : Option Nat} {w : World} (g : Good none w) : Good x w :=
  ⟨g.1, fun m _ hv => g.2 m (by simp) hv⟩

theorem runAct_good (never d : Nat) (x : Option Nat) (w w' : World) (a : Act) (g : Good x w)
    (h : runAct never d w a = some w') : Good x w' := by
  cases a with
  | inval id clear =>
    simp only [runAct, Option.map_eq_some_iff] at h
    obtain ⟨f', hf, rfl⟩ := h
    exact good_mono g f' (invalidate_mono never d w.f id clear f' hf)
  | setReq id t =>
    simp only [runAct] at h
    cases h
    exact ⟨g.1, g.2⟩
  | detach id =>
    simp only [runAct, Option.map_eq_some_iff] at h
    obtain ⟨f', hf, rfl⟩ := h
    exact good_mono g f' (detach_mono never d w.f id f' hf)
  | attach c p =>
    simp only [runAct] at h
    split at h
    · cases h; exact g
    · simp only [Option.map_eq_some_iff] at h
      obtain ⟨f', hf, rfl⟩ := h
      exact good_mono g f' (putChild_mono never d w.f p c f' hf)

theorem runActs_good (never d : Nat) (x : Option Nat) : ∀ (l : List Act) (w w' : World), Good x w →
    runActs never d w l = some w' → Good x w' := by
  intro l
  induction l with
  | nil => intro w w' g h; simp [runActs] at h; subst h; exact g
  | cons a r ih =>
    intro w w' g h
    simp only [runActs] at h
    split at h
    · rename_i w1 h1
      exact ih w1 w' (runAct_good never d x w w1 a g h1) h
    · cases h

theorem callG_good (never d : Nat) (w w' : World) (n now : Nat) (g : Good none w)
    (h : callG never d w n now = some w') : Good none w' := by
  simp only [callG] at h
  split at h
  · cases h
  · rename_i w2 h2
    cases h
    -- while the callback runs, node `n` is the exception
    have g1 : Good (some n) { w with f := upd w.f n { (w.f n) with valid := true }, gq := updF w.gq n (w.gq n).tail } := by
      refine ⟨g.1, ?_⟩
      intro m hx hv
      have hmn : m ≠ n := fun e => hx (by rw [e])
      simp only [upd, hmn, if_false] at hv ⊢
      exact g.2 m (by simp) hv
    have g2 := runActs_good never d (some n) _ _ _ g1 h2
    refine ⟨LogOK.snocG _ _ _ _ _ g2.1, ?_⟩
    intro m _ hv
    simp only [lastAns_snoc, ansOf]
    by_cases hmn : m = n
    · subst hmn; simp [upd]
    · have hnm : ¬ n = m := fun e => hmn e.symm
      simp only [upd, hmn, if_false, hnm] at hv ⊢
      exact g2.2 m (by simp [hnm]) hv

theorem callP_good (never d : Nat) (w w' : World) (n now : Nat) (g : Good none w)
    (hv : (w.f n).valid = true) (ht : (w.f n).myTime ≤ now)
    (h : callP never d w n now = some w') : Good none w' := by
  simp only [callP] at h
  split at h
  · cases h
  · rename_i w2 h2
    cases h
    have g1 : Good none { w with pq := updF w.pq n (w.pq n).tail, log := w.log ++ [.P n now (w.f n).myTime] } := by
      refine ⟨LogOK.snocP _ _ _ _ g.1 (g.2 n (by simp) hv) ht, ?_⟩
      intro m hx hvm
      simp only [lastAns_snoc, ansOf]
      exact g.2 m hx hvm
    have g2 := runActs_good never d none _ _ _ g1 h2
    exact good_mono g2 _ (mono_unvalid w2.f n _ rfl)

theorem mono_setAgg (f : Forest) (n a : Nat) : Mono f (upd f n { (f n) with agg := a }) := by
  intro i hi
  unfold upd at hi ⊢
  by_cases hin : i = n
  · subst hin; simp at hi; exact ⟨hi, by simp⟩
  · simp [hin] at hi; exact ⟨hi, by simp [hin]⟩

theorem gptFinish_good (never d : Nat) (w w' : World) (n mn mn' : Nat) (g : Good none w)
    (h : gptFinish never d w n mn = some (w', mn')) : Good none w' := by
  simp only [gptFinish] at h
  generalize (min (if (w.f n).valid = true then (w.f n).myTime else 0) (firstSchedAgg never w.f n)) = a at h
  split at h
  · rename_i f4 h4
    cases h
    have m0 := mono_setAgg w.f n a
    generalize (upd w.f n { (w.f n) with agg := a }) = f3 at h4 m0
    apply good_mono g
    split at h4
    · split at h4
      · exact m0.trans (resched_sameScalars never _ _ _ _ _ _ h4).mono
      · cases h4; exact m0
    · cases h4; exact m0
  · cases h

theorem pulseFinish_good (never d : Nat) (w w' : World) (n : Nat) (g : Good none w)
    (h : pulseFinish never d w n = some w') : Good none w' := by
  simp only [pulseFinish] at h
  split at h
  · simp only [Option.map_eq_some_iff] at h
    obtain ⟨f', hf, rfl⟩ := h
    exact good_mono g f' (resched_sameScalars never _ _ _ _ _ _ hf).mono
  · cases h; exact g

/-- both halves of the `GetPulseTimeAux` recursion keep the log discipline -/
theorem gpt_good (never d : Nat) : ∀ (k : Nat),
    (∀ (w w' : World) (n now mn mn' : Nat), Good none w → gptAux never d k w n now mn = some (w', mn') → Good none w') ∧
    (∀ (w w' : World) (n now mn mn' : Nat), Good none w → gptLoop never d k w n now mn = some (w', mn') → Good none w') := by
  intro k
  induction k with
  | zero => exact ⟨fun w w' n now mn mn' _ h => by simp [gptAux] at h, fun w w' n now mn mn' _ h => by simp [gptLoop] at h⟩
  | succ k ih =>
    refine ⟨?_, ?_⟩
    · intro w w' n now mn mn' g h
      simp only [gptAux] at h
      split at h
      · cases h
      · rename_i w1 h1
        have g1 : Good none w1 := by
          split at h1
          · cases h1; exact g
          · exact callG_good never d w w1 n now g h1
        split at h
        · cases h
        · rename_i w2 mn2 h2
          have g2 := ih.2 w1 w2 n now mn mn2 g1 h2
          split at h
          · exact gptFinish_good never d w2 w' n mn2 mn' g2 h
          · split at h
            · cases h
            · rename_i w3 h3
              have g3 := callG_good never d w2 w3 n now g2 h3
              split at h
              · cases h
              · rename_i w4 mn4 h4
                exact gptFinish_good never d w4 w' n mn4 mn' (ih.2 w3 w4 n now mn2 mn4 g3 h4) h
    · intro w w' n now mn mn' g h
      simp only [gptLoop] at h
      split at h
      · cases h; exact g
      · rename_i c _ _
        split at h
        · cases h
        · rename_i w1 mn1 h1
          exact ih.2 w1 w' n now mn1 mn' (ih.1 w w1 c now mn mn1 g h1) h

/-- both halves of the `PulseAux` recursion keep the log discipline -/
theorem pulse_good (never d : Nat) : ∀ (k : Nat),
    (∀ (w w' : World) (n now : Nat), Good none w → pulseAux never d k w n now = some w' → Good none w') ∧
    (∀ (w w' : World) (n now : Nat), Good none w → pulseLoop never d k w n now = some w' → Good none w') := by
  intro k
  induction k with
  | zero => exact ⟨fun w w' n now _ h => by simp [pulseAux] at h, fun w w' n now _ h => by simp [pulseLoop] at h⟩
  | succ k ih =>
    refine ⟨?_, ?_⟩
    · intro w w' n now g h
      simp only [pulseAux] at h
      split at h
      · cases h
      · rename_i w1 h1
        have g1 : Good none w1 := by
          split at h1
          · rename_i hc
            exact callP_good never d w w1 n now g hc.1 hc.2 h1
          · cases h1; exact g
        split at h
        · cases h
        · rename_i w2 h2
          exact pulseFinish_good never d w2 w' n (ih.2 w1 w2 n now g1 h2) h
    · intro w w' n now g h
      simp only [pulseLoop] at h
      split at h
      · cases h; exact g
      · rename_i c _ _
        split at h
        · split at h
          · cases h
          · rename_i w1 h1
            exact ih.2 w1 w' n now (ih.1 w w1 c now g h1) h
        · cases h; exact g

/-- what `LogOK` says about each `Pulse` entry -/
theorem logOK_P (l : List Event) (h : LogOK l) :
    ∀ (l1 l2 : List Event) (id now s : Nat), l = l1 ++ [.P id now s] ++ l2 → lastAns l1 id = some s ∧ s ≤ now := by
  induction h with
  | nil => intro l1 l2 id now s e; simp at e
  | snocG l id' now' prev ret _ ih =>
    intro l1 l2 id now s e
    rcases List.eq_nil_or_concat l2 with rfl | ⟨l2', x, rfl⟩
    · simp only [List.append_nil] at e
      have := List.append_inj_right' e (by simp)
      simp at this
    · rw [← List.concat_eq_append] at e
      simp only [List.concat_eq_append, ← List.append_assoc] at e
      have e1 := List.append_inj_left' e (by simp)
      exact ih l1 l2' id now s (by simpa using e1)
  | snocP l id' now' s' _ ha hs ih =>
    intro l1 l2 id now s e
    rcases List.eq_nil_or_concat l2 with rfl | ⟨l2', x, rfl⟩
    · simp only [List.append_nil] at e
      have e1 := List.append_inj_left' e (by simp)
      have e2 := List.append_inj_right' e (by simp)
      simp at e2
      obtain ⟨rfl, rfl, rfl⟩ := e2
      subst e1
      exact ⟨ha, hs⟩
    · simp only [List.concat_eq_append, ← List.append_assoc] at e
      have e1 := List.append_inj_left' e (by simp)
      exact ih l1 l2' id now s (by simpa using e1)

end Muscle.Pulse
