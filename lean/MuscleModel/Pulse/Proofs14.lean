import MuscleModel.Pulse.Proofs13

/-!
# Lemmas for C20, part 14: exactness of the reported wake-up time for sweeps whose `GetPulseTime` callbacks only answer
(and possibly change requests).
-/

set_option linter.unusedSimpArgs false
set_option linter.unusedVariables false

namespace Muscle.Pulse

/-- every queued `GetPulseTime` script only changes requests (in particular: no scripts at all) -/
def GQuiet (w : World) : Prop := ∀ n, ∀ acts ∈ w.gq n, ∀ a ∈ acts, Act.target a = none

theorem runActsC_quiet (never d : Nat) (stk : List Nat) : ∀ (l : List Act) (w w' : World) (b : Bool),
    (∀ a ∈ l, Act.target a = none) → runActsC never d stk w l = some (w', b) → w'.f = w.f ∧ w'.gq = w.gq := by
  intro l
  induction l with
  | nil => intro w w' b _ h; simp [runActsC] at h; rw [← h.1]; exact ⟨rfl, rfl⟩
  | cons a r ih =>
    intro w w' b hq h
    simp only [runActsC] at h
    split at h
    · rename_i w1 h1
      have ha := hq a (by simp)
      have e1 : w1.f = w.f ∧ w1.gq = w.gq := by
        cases a with
        | setReq id t => simp only [runAct] at h1; cases h1; exact ⟨rfl, rfl⟩
        | inval id c => simp [Act.target] at ha
        | detach id => simp [Act.target] at ha
        | attach c p => simp [Act.target] at ha
      split at h
      · rename_i w2 b2 h2
        cases h
        obtain ⟨a1, a2⟩ := ih w1 _ b2 (fun x hx => hq x (List.mem_cons_of_mem _ hx)) h2
        exact ⟨a1.trans e1.1, a2.trans e1.2⟩
      · cases h
    · cases h

/-- a filed node whose request stands keeps both, and its aggregate -/
def FSR (f f' : Forest) : Prop :=
  ∀ x, Filed f x → (f x).valid = true → Filed f' x ∧ (f' x).valid = true ∧ (f' x).agg = (f x).agg

theorem FSR.refl (f : Forest) : FSR f f := fun _ h1 h2 => ⟨h1, h2, rfl⟩

theorem FSR.trans {f g h : Forest} (a : FSR f g) (b : FSR g h) : FSR f h := by
  intro x h1 h2
  obtain ⟨a1, a2, a3⟩ := a x h1 h2
  obtain ⟨b1, b2, b3⟩ := b x a1 a2
  exact ⟨b1, b2, b3.trans a3⟩

/-- the quiet scripted `GetPulseTime` of a node whose request does not stand -/
theorem callGC_quiet (never d : Nat) (stk : List Nat) (w w' : World) (n now : Nat) (b : Bool) (hq : GQuiet w)
    (hv : (w.f n).valid = false) (h : callGC never d stk w n now = some (w', b)) :
    GQuiet w' ∧ FSR w.f w'.f ∧ (∀ z, (w'.f z).parent = (w.f z).parent) := by
  simp only [callGC] at h
  split at h
  · cases h
  · rename_i w2 b2 h2
    cases h
    have hacts : ∀ a ∈ (w.gq n).headD [], Act.target a = none := by
      intro a ha
      cases hgq : w.gq n with
      | nil => rw [hgq] at ha; simp at ha
      | cons x t =>
        rw [hgq] at ha
        simp at ha
        exact hq n x (by rw [hgq]; simp) a ha
    obtain ⟨e1, e2⟩ := runActsC_quiet never d stk _ _ _ _ hacts h2
    simp only [] at e1 e2
    refine ⟨?_, ?_, ?_⟩
    · intro m acts ha a haa
      simp only [] at ha
      rw [e2] at ha
      simp only [updF] at ha
      by_cases hm : m = n
      · subst hm
        simp only [if_true] at ha
        exact hq m acts (List.mem_of_mem_tail ha) a haa
      · simp only [hm, if_false] at ha
        exact hq m acts ha a haa
    · intro x hf hvx
      have hxn : x ≠ n := fun e => by subst e; rw [hv] at hvx; cases hvx
      have : (upd w2.f n { (w2.f n) with myTime := w2.req n } x) = w.f x := by
        simp only [upd, hxn, if_false]; rw [e1]; simp [upd, hxn]
      simp only [] 
      unfold Filed
      rw [this]
      exact ⟨hf, hvx, rfl⟩
    · intro z
      simp only []
      unfold upd
      by_cases hz : z = n
      · subst hz; simp only [if_true]; rw [e1]; simp [upd]
      · simp only [hz, if_false]; rw [e1]; simp [upd, hz]

theorem gptFinish_agg_other (never d : Nat) (w w' : World) (n mn mn' : Nat)
    (h : gptFinish never d w n mn = some (w', mn')) : ∀ x, x ≠ n → (w'.f x).agg = (w.f x).agg := by
  intro x hx
  simp only [gptFinish] at h
  generalize (min (if (w.f n).valid = true then (w.f n).myTime else 0) (firstSchedAgg never w.f n)) = a at h
  have lk := setAgg_fields w.f n a
  generalize upd w.f n { (w.f n) with agg := a } = f3 at h lk
  have e3 : (f3 x).agg = (w.f x).agg := by rw [(lk x).2.2.2.2.1]; simp [hx]
  split at h
  · rename_i f4 h4
    cases h
    show (f4 x).agg = _
    split at h4
    · split at h4
      · rw [(resched_sameScalars never _ _ _ _ _ _ h4 x).2.2.1]; exact e3
      · cases h4; exact e3
    · cases h4; exact e3
  · cases h

/-- the filing step keeps every filed node whose request stands as it is (a filed valid node that is finished again gets the
    aggregate it already has, by the invariant) -/
theorem gptFinish_fsr (never d : Nat) (w w' : World) (n mn mn' : Nat) (hi : Inv never w.f)
    (h : gptFinish never d w n mn = some (w', mn')) : FSR w.f w'.f := by
  intro x hf hvx
  have o := gptFinish_other never d w w' n mn mn' h x
  by_cases hx : x = n
  · subst hx
    -- the recomputed aggregate is the old one, and the node is not re-filed
    have hex := (hi.1.aok x (fun h => h) hf).2.2.1 hvx
    have hm := gptFinish_min never d w w' x mn mn' h
    have hagg : (w'.f x).agg = (w.f x).agg := by rw [hm.2.2.1, hvx]; simp; exact hex.symm
    refine ⟨?_, by rw [o.2.1]; exact hvx, hagg⟩
    -- `_curList`: unfold the step
    have hcur : (w'.f x).cur = (w.f x).cur := by
      simp only [gptFinish] at h
      have ha : min (if (w.f x).valid = true then (w.f x).myTime else 0) (firstSchedAgg never w.f x) = (w.f x).agg := by
        rw [hvx]; simp; exact hex.symm
      rw [ha] at h
      have lk := setAgg_fields w.f x (w.f x).agg
      generalize upd w.f x { (w.f x) with agg := (w.f x).agg } = f3 at h lk
      split at h
      · rename_i f4 h4
        cases h
        show (f4 x).cur = _
        have hnr : (f3 x).cur ≠ some .recalc := by
          rw [(lk x).2.1]
          rcases hf.2 with e | e <;> (rw [e]; simp)
        split at h4
        · have : ¬ ((f3 x).cur = some Which.recalc ∨ (w.f x).agg ≠ (w.f x).agg) := fun e => e.elim hnr (fun e => e rfl)
          simp only [this, if_false] at h4
          cases h4; exact (lk x).2.1
        · cases h4; exact (lk x).2.1
      · cases h
    obtain ⟨⟨q, hq⟩, hc⟩ := hf
    exact ⟨⟨q, by rw [o.1]; exact hq⟩, by rw [hcur]; exact hc⟩
  · obtain ⟨⟨q, hq⟩, hc⟩ := hf
    exact ⟨⟨⟨q, by rw [o.1]; exact hq⟩, by rw [o.2.2 hx]; exact hc⟩, by rw [o.2.1]; exact hvx,
      gptFinish_agg_other never d w w' n mn mn' h x hx⟩


/-- a non-root node waiting in NEEDSRECALC is filed by the last statements of `GetPulseTimeAux` -/
theorem gptFinish_files (never d : Nat) (w w' : World) (n mn mn' p : Nat) (hp : (w.f n).parent = some p)
    (hc : (w.f n).cur = some .recalc) (h : gptFinish never d w n mn = some (w', mn')) : Filed w'.f n := by
  have o := gptFinish_other never d w w' n mn mn' h n
  refine ⟨⟨p, by rw [o.1]; exact hp⟩, ?_⟩
  simp only [gptFinish] at h
  generalize (min (if (w.f n).valid = true then (w.f n).myTime else 0) (firstSchedAgg never w.f n)) = a at h
  have lk := setAgg_fields w.f n a
  generalize upd w.f n { (w.f n) with agg := a } = f3 at h lk
  split at h
  · rename_i f4 h4
    cases h
    show (f4 n).cur = _ ∨ (f4 n).cur = _
    rw [(lk n).1, hp] at h4
    simp only [(lk n).2.1, hc, true_or, if_true] at h4
    cases d with
    | zero => simp [resched] at h4
    | succ d =>
      simp only [resched] at h4
      have hc3 : (f3 n).cur = some .recalc := by rw [(lk n).2.1]; exact hc
      by_cases han : a = never
      · simp only [han, if_true] at h4
        have hcond : (some Which.unsched ≠ (f3 n).cur ∨ (f3 n).cur = some Which.sched) := by rw [hc3]; simp
        simp only [hcond, if_true] at h4
        change some (setL (half f3 p n (some .unsched)) p .unsched _) = some f4 at h4
        cases h4
        exact Or.inr (by rw [cur_setL, half_cur]; simp)
      · simp only [han, if_false] at h4
        have hcond : (some Which.sched ≠ (f3 n).cur ∨ (f3 n).cur = some Which.sched) := by rw [hc3]; simp
        simp only [hcond, if_true] at h4
        change some (setL (half f3 p n (some .sched)) p .sched _) = some f4 at h4
        cases h4
        exact Or.inl (by rw [cur_setL, half_cur]; simp)
  · cases h


theorem gptFinish_gq (never d : Nat) (w w' : World) (n mn mn' : Nat)
    (h : gptFinish never d w n mn = some (w', mn')) : w'.gq = w.gq := by
  simp only [gptFinish] at h
  split at h
  · cases h; rfl
  · cases h

/-- where the reported minimum comes from -/
def Src (r : Nat) (f0 f' : Forest) (m : Nat) : Prop :=
  ∃ x, Desc f0 r x ∧ Filed f' x ∧ (f' x).valid = true ∧ (f' x).agg = m

theorem gptC_min (never d r : Nat) : ∀ (k : Nat),
    (∀ (w w' : World) (n now mn m : Nat) (stk : List Nat),
      gptAuxC never d k w n now mn stk = some (w', m, true) → Inv never w.f → GQuiet w → Chain w.f (n :: stk) →
      (n :: stk).Nodup → (∀ y ∈ n :: stk, Unfiled w.f y) → (∀ y ∈ n :: stk, Desc w.f r y) →
      GQuiet w' ∧ FSR w.f w'.f ∧ (∀ z, (w'.f z).parent = (w.f z).parent) ∧ (w'.f n).valid = true ∧
      ((w.f n).parent ≠ none → Filed w'.f n) ∧ (m = mn ∨ m = (w'.f n).agg ∨ Src r w.f w'.f m)) ∧
    (∀ (w w' : World) (n now mn m : Nat) (rest : List Nat),
      gptLoopC never d k w n now mn (n :: rest) = some (w', m, true) → Inv never w.f → GQuiet w → Chain w.f (n :: rest) →
      (n :: rest).Nodup → (∀ y ∈ n :: rest, Unfiled w.f y) → (∀ y ∈ n :: rest, Desc w.f r y) →
      GQuiet w' ∧ FSR w.f w'.f ∧ (∀ z, (w'.f z).parent = (w.f z).parent) ∧ (m = mn ∨ Src r w.f w'.f m)) := by
  intro k
  induction k with
  | zero =>
    exact ⟨fun w w' n now mn m stk h => by simp [gptAuxC] at h, fun w w' n now mn m rest h => by simp [gptLoopC] at h⟩
  | succ k ih =>
    refine ⟨?_, ?_⟩
    · intro w w' n now mn m stk h hi hq hch hnd hun hdesc
      simp only [gptAuxC] at h
      split at h
      · cases h
      · rename_i w1 b1 h1
        split at h
        · cases h
        · rename_i w2 mn2 b2 h2
          split at h
          · rename_i w5 m5 b5 h5
            simp only [Option.some.injEq, Prod.mk.injEq, Bool.and_eq_true] at h
            obtain ⟨hw5, hm5, ⟨hb1, hb2⟩, hb5⟩ := h
            subst hw5; subst hm5; subst hb1; subst hb2; subst hb5
            have s1 : Inv never w1.f ∧ (w1.f n).valid = true ∧ (∀ x, Unfiled w.f x → Unfiled w1.f x) ∧
                (∀ y, y ∈ n :: stk → (w1.f y).parent = (w.f y).parent ∧ (y ≠ n → (w1.f y).valid = (w.f y).valid)) ∧
                GQuiet w1 ∧ FSR w.f w1.f ∧ (∀ z, (w1.f z).parent = (w.f z).parent) := by
              split at h1
              · rename_i hv
                cases h1
                exact ⟨hi, hv, fun _ hx => hx, fun _ _ => ⟨rfl, fun _ => rfl⟩, hq, FSR.refl _, fun _ => rfl⟩
              · rename_i hv
                have hv' : (w.f n).valid = false := by simpa using hv
                obtain ⟨a1, a2, a3, a4⟩ := callGC_inv never d (n :: stk) w w1 n now (by simp) h1 hi (hun n (by simp))
                obtain ⟨c1, c2, c3⟩ := callGC_quiet never d _ w w1 n now true hq hv' h1
                exact ⟨a1, a2, a3, a4, c1, c2, c3⟩
            obtain ⟨i1, hv1, u1, p1, q1, f1, par1⟩ := s1
            have hch1 : Chain w1.f (n :: stk) := chain_congr w.f w1.f _ (fun y hy => (p1 y hy).1) hch
            have hun1 : ∀ y ∈ n :: stk, Unfiled w1.f y := fun y hy => u1 y (hun y hy)
            have hdesc1 : ∀ y ∈ n :: stk, Desc w1.f r y := fun y hy => desc_congr par1 (hdesc y hy)
            obtain ⟨i2, k2, hr2⟩ := (gptC_inv never d k).2 w1 w2 n now mn mn2 stk h2 i1 hch1 hnd hun1
            obtain ⟨q2, f2, par2, j2⟩ := ih.2 w1 w2 n now mn mn2 stk h2 i1 q1 hch1 hnd hun1 hdesc1
            have hv2 : (w2.f n).valid = true := by rw [(k2 n (by simp)).2.1]; exact hv1
            have hun2 : Unfiled w2.f n := (k2 n (by simp)).2.2 (hun1 n (by simp))
            simp only [hv2, if_true] at h5
            split at h5
            · rename_i w3 m3 h3
              simp only [Option.some.injEq, Prod.mk.injEq] at h5
              obtain ⟨hw3, hm3, _⟩ := h5
              subst hw3; subst hm3
              have o3 := gptFinish_other never d w2 w3 n mn2 m3 h3
              have f3 := gptFinish_fsr never d w2 w3 n mn2 m3 i2 h3
              have hm := gptFinish_min never d w2 w3 n mn2 m3 h3
              refine ⟨by intro a; rw [gptFinish_gq never d w2 w3 n mn2 m3 h3]; exact q2 a, (f1.trans f2).trans f3,
                fun z => (o3 z).1.trans ((par2 z).trans (par1 z)), by rw [(o3 n).2.1]; exact hv2, ?_, ?_⟩
              · intro hpn
                cases hp : (w.f n).parent with
                | none => exact absurd hp hpn
                | some p =>
                  have hp2 : (w2.f n).parent = some p := by rw [par2 n, par1 n]; exact hp
                  have hc2 : (w2.f n).cur = some .recalc := by
                    have h0 := i2.1.childcur n p hp2
                    cases hcc : (w2.f n).cur with
                    | none => exact absurd hcc h0
                    | some l =>
                      cases l
                      · exact absurd hcc hun2.1
                      · exact absurd hcc hun2.2
                      · rfl
                  exact gptFinish_files never d w2 w3 n mn2 m3 p hp2 hc2 h3
              · rcases hm.2.2.2 with e | e
                · rcases j2 with e2 | ⟨x, hx1, hx2, hx3, hx4⟩
                  · exact Or.inl (e.trans e2)
                  · obtain ⟨g1, g2, g3⟩ := f3 x hx2 hx3
                    exact Or.inr (Or.inr ⟨x, desc_congr (fun y => (par1 y).symm) hx1, g1, g2, by rw [g3, hx4, e]⟩)
                · exact Or.inr (Or.inl e)
            · cases h5
          · cases h
    · intro w w' n now mn m rest h hi hq hch hnd hun hdesc
      simp only [gptLoopC] at h
      split at h
      · simp only [Option.some.injEq, Prod.mk.injEq] at h
        obtain ⟨hw, hm, _⟩ := h
        subst hw; subst hm
        exact ⟨hq, FSR.refl _, fun _ => rfl, Or.inl rfl⟩
      · rename_i c t he
        split at h
        · cases h
        · rename_i w1 mn1 b1 h1
          split at h
          · rename_i w2 m2 b2 h2
            simp only [Option.some.injEq, Prod.mk.injEq, Bool.and_eq_true] at h
            obtain ⟨hw2, hm2, hb1, hb2⟩ := h
            subst hw2; subst hm2; subst hb1; subst hb2
            have hm : c ∈ (w.f n).list .recalc := by rw [list_recalc, he]; simp
            obtain ⟨hpc, hcc⟩ := hi.1.sound n c .recalc hm
            have hunc : Unfiled w.f c := ⟨by rw [hcc]; simp, by rw [hcc]; simp⟩
            have hcn : c ∉ n :: rest := by
              intro hmem
              have := chain_parent w.f n rest hch c hmem n hpc
              exact (List.nodup_cons.mp hnd).1 this
            have hchc : Chain w.f (c :: n :: rest) := ⟨hpc, hch⟩
            have hndc : (c :: n :: rest).Nodup := List.nodup_cons.mpr ⟨hcn, hnd⟩
            have hdc : Desc w.f r c := Desc.step n c (hdesc n (by simp)) hpc
            have hunc' : ∀ y ∈ c :: n :: rest, Unfiled w.f y := by
              intro y hy
              rcases List.mem_cons.mp hy with rfl | hy
              · exact hunc
              · exact hun y hy
            have hdesc' : ∀ y ∈ c :: n :: rest, Desc w.f r y := by
              intro y hy
              rcases List.mem_cons.mp hy with rfl | hy
              · exact hdc
              · exact hdesc y hy
            obtain ⟨i1, k1, _⟩ := (gptC_inv never d k).1 w w1 c now mn mn1 (n :: rest) h1 hi hchc hndc hunc'
            obtain ⟨q1, f1, par1, hv1c, hf1c, j1⟩ := ih.1 w w1 c now mn mn1 (n :: rest) h1 hi hq hchc hndc hunc' hdesc'
            have hch1 : Chain w1.f (n :: rest) := chain_congr w.f w1.f _ (fun y hy => (k1 y hy).1) hch
            obtain ⟨q2, f2, par2, j2⟩ := ih.2 w1 w2 n now mn1 m2 rest h2 i1 q1 hch1 hnd
              (fun y hy => (k1 y hy).2.2 (hun y hy)) (fun y hy => desc_congr par1 (hdesc y hy))
            refine ⟨q2, f1.trans f2, fun z => (par2 z).trans (par1 z), ?_⟩
            rcases j2 with e2 | ⟨x, hx1, hx2, hx3, hx4⟩
            · rcases j1 with e1 | e1 | ⟨x, hx1, hx2, hx3, hx4⟩
              · exact Or.inl (e2.trans e1)
              · have hfc : Filed w1.f c := hf1c (by rw [hpc]; simp)
                obtain ⟨g1, g2, g3⟩ := f2 c hfc hv1c
                exact Or.inr ⟨c, hdc, g1, g2, by rw [g3, ← e1, e2]⟩
              · obtain ⟨g1, g2, g3⟩ := f2 x hx2 hx3
                exact Or.inr ⟨x, hx1, g1, g2, by rw [g3, hx4, e2]⟩
            · exact Or.inr ⟨x, desc_congr (fun y => (par1 y).symm) hx1, hx2, hx3, hx4⟩
          · cases h


/-- the aggregate of a node is attained by a stored time below it (or is `never`), in a tree of finite height in which every
    node's aggregate is `min(own time, first scheduled child)` -/
theorem agg_attained (never : Nat) (f : Forest) (root : Nat) (hi : Inv never f) (ht : Nat → Nat)
    (hht : ∀ c p, (f c).parent = some p → ht c < ht p)
    (hex : ∀ y, Desc f root y → (f y).agg = min (f y).myTime (firstSchedAgg never f y)) :
    ∀ (h x : Nat), ht x = h → Desc f root x →
      (f x).agg = never ∨ ∃ y, Desc f x y ∧ (f y).myTime = (f x).agg := by
  intro h
  induction h using Nat.strongRecOn with
  | _ h ih =>
    intro x hx hd
    have he := hex x hd
    by_cases hle : (f x).myTime ≤ firstSchedAgg never f x
    · exact Or.inr ⟨x, Desc.refl, by rw [he]; exact (Nat.min_eq_left hle).symm⟩
    · have hlt : firstSchedAgg never f x ≤ (f x).myTime := by omega
      have he2 : (f x).agg = firstSchedAgg never f x := by rw [he]; exact Nat.min_eq_right hlt
      unfold firstSchedAgg at he2
      cases hs : (f x).sched with
      | nil => rw [hs] at he2; exact Or.inl he2
      | cons c t =>
        rw [hs] at he2
        simp only [] at he2
        have hm : c ∈ (f x).list .sched := by rw [list_sched, hs]; simp
        have hpc : (f c).parent = some x := (hi.1.sound x c .sched hm).1
        have hdc : Desc f root c := Desc.step x c hd hpc
        rcases ih (ht c) (by rw [← hx]; exact hht c x hpc) c rfl hdc with e | ⟨y, hy1, hy2⟩
        · exact Or.inl (by rw [he2, e])
        · exact Or.inr ⟨y, desc_trans (Desc.step x c Desc.refl hpc) hy1, by rw [hy2, he2]⟩

/-- exactness of the reported wake-up time: a sweep from a root whose `GetPulseTime` callbacks only answer and change requests -/
theorem managerGptC_exact (never d k : Nat) (w w' : World) (root now m : Nat)
    (h : managerGptC never d (k+1) w root now = some (w', m, true)) (hi : Inv never w.f) (hV : V w.f) (hq : GQuiet w)
    (hroot : (w.f root).parent = none)
    (hfin : ∃ ht : Nat → Nat, ∀ c p, (w.f c).parent = some p → ht c < ht p) :
    (∀ n, Desc w'.f root n → m ≤ (w'.f n).myTime) ∧
    (m = never ∨ ∃ n, Desc w'.f root n ∧ (w'.f n).myTime = m) := by
  obtain ⟨ht, hht⟩ := hfin
  have hcur : (w.f root).cur = none := hi.1.rootcur root hroot
  have hun : ∀ y ∈ [root], Unfiled w.f y := by
    intro y hy
    have : y = root := by simpa using hy
    subst this
    exact ⟨by rw [hcur]; simp, by rw [hcur]; simp⟩
  obtain ⟨hI, hS, hmle⟩ := managerGptC_settles never d k w w' root now m h hi hroot
  obtain ⟨_, hall⟩ := managerGptC_reasks never d k w w' root now m h hi hV hroot
  have hlow : ∀ n, Desc w'.f root n → m ≤ (w'.f n).myTime := by
    intro n hn
    have := (settled_agg_le never w'.f root n hS hn).2
    omega
  refine ⟨hlow, ?_⟩
  have h0 := h
  simp only [managerGptC] at h0
  obtain ⟨_, _, par, _, _, j⟩ := (gptC_min never d root (k+1)).1 w w' root now never m [] h0 hi hq
    (by simp [Chain, hroot]) (by simp) hun (fun y hy => by
      have hyr : y = root := List.mem_singleton.mp hy
      rw [hyr]; exact Desc.refl)
  -- the reported time is `never` or the root's aggregate
  have hmr : m = never ∨ m = (w'.f root).agg := by
    rcases j with e | e | ⟨x, hx1, hx2, hx3, hx4⟩
    · exact Or.inl e
    · exact Or.inr e
    · have hx' : Desc w'.f root x := desc_congr par hx1
      have := (settled_agg_le never w'.f root x hS hx').1
      exact Or.inr (by omega)
  rcases hmr with e | e
  · exact Or.inl e
  · -- every node below the root has `agg = min(own time, first scheduled child)`: its request stands and it is filed (or the root)
    have hrec : (w'.f root).recalc = [] := by
      cases hrc : (w'.f root).recalc with
      | nil => rfl
      | cons c t =>
        exfalso
        have hm : c ∈ (w'.f root).list .recalc := by rw [list_recalc, hrc]; simp
        obtain ⟨hpc, hcc⟩ := hI.1.sound root c .recalc hm
        rcases hS.filed root c Desc.refl hpc with hs | ⟨hu, _⟩
        · have := (hI.1.sound root c .sched hs).2; rw [hcc] at this; cases this
        · have := (hI.1.sound root c .unsched hu).2; rw [hcc] at this; cases this
    have hex_root : (w'.f root).agg = min (w'.f root).myTime (firstSchedAgg never w'.f root) := by
      -- from the last `gptFinish` on the root
      have he := (gptC_erase never d (k+1)).1 w w' root now never m [] true h0
      obtain ⟨w1, w2, m2, _, _, hr⟩ := gptAux_shape never d k w w' root now never m he
      have hpr : (w'.f root).parent = none := (par root).trans hroot
      have key : ∀ (v : World) (mv : Nat), gptFinish never d v root mv = some (w', m) →
          (w'.f root).agg = min (w'.f root).myTime (firstSchedAgg never w'.f root) := by
        intro v mv hf
        have hm := gptFinish_min never d v w' root mv m hf
        have o := gptFinish_other never d v w' root mv m hf root
        have hpv : (v.f root).parent = none := by rw [← o.1]; exact hpr
        obtain ⟨g1, g2, g3, g4⟩ := gptFinish_root never d v w' root mv m hpv hf
        have hvv : (v.f root).valid = true := by rw [← o.2.1]; exact hall root Desc.refl
        have hfs : firstSchedAgg never w'.f root = firstSchedAgg never v.f root := by
          apply firstSchedAgg_congr' never v.f w'.f root g3
          intro i hi'
          have hir : i ≠ root := by
            intro e; subst e
            have : i ∈ (w'.f i).list .sched := by rw [list_sched, g3]; exact hi'
            have := (hI.1.sound i i .sched this).1
            rw [hpr] at this; cases this
          rw [g4 i hir]
        rw [hm.2.2.1, hvv, hfs, g2]; simp
      rcases hr with ⟨_, hf⟩ | ⟨_, w3, w4, m4, _, _, hf⟩
      · exact key w2 m2 hf
      · exact key w4 m4 hf
    have hex : ∀ y, Desc w'.f root y → (w'.f y).agg = min (w'.f y).myTime (firstSchedAgg never w'.f y) := by
      intro y hy
      rcases (clean_below never w'.f root hI hrec y hy).2 with rfl | hf
      · exact hex_root
      · exact (hI.1.aok y (fun h => h) hf).2.2.1 (hall y hy)
    have hht' : ∀ c p, (w'.f c).parent = some p → ht c < ht p := fun c p hp => hht c p (by rw [← par c]; exact hp)
    rcases agg_attained never w'.f root hI ht hht' hex (ht root) root rfl Desc.refl with e2 | ⟨y, hy1, hy2⟩
    · exact Or.inl (by rw [e, e2])
    · exact Or.inr ⟨y, hy1, by rw [hy2, e]⟩


/-! ## with quiet scripts the verdict is always `true` -/

theorem runActsC_of_quiet (never d : Nat) (stk : List Nat) : ∀ (l : List Act) (w w' : World),
    (∀ a ∈ l, Act.target a = none) → runActs never d w l = some w' → runActsC never d stk w l = some (w', true) := by
  intro l
  induction l with
  | nil => intro w w' _ h; simp [runActs] at h; simp [runActsC, h]
  | cons a r ih =>
    intro w w' hq h
    simp only [runActs] at h
    simp only [runActsC]
    split at h
    · rename_i w1 h1
      rw [h1]
      simp only []
      rw [ih w1 w' (fun x hx => hq x (List.mem_cons_of_mem _ hx)) h]
      have : actOK stk a = true := by unfold actOK; rw [hq a (by simp)]
      simp [this]
    · cases h

theorem callGC_of_quiet (never d : Nat) (stk : List Nat) (w w' : World) (n now : Nat) (hq : GQuiet w)
    (h : callG never d w n now = some w') : callGC never d stk w n now = some (w', true) := by
  simp only [callG] at h
  simp only [callGC]
  have hacts : ∀ a ∈ (w.gq n).headD [], Act.target a = none := by
    intro a ha
    cases hgq : w.gq n with
    | nil => rw [hgq] at ha; simp at ha
    | cons x t =>
      rw [hgq] at ha
      simp at ha
      exact hq n x (by rw [hgq]; simp) a ha
  split at h
  · cases h
  · rename_i w2 h2
    rw [runActsC_of_quiet never d stk _ _ _ hacts h2]
    simp only []
    cases h; rfl

theorem gptC_complete (never d : Nat) : ∀ (k : Nat),
    (∀ (w w' : World) (n now mn m : Nat) (stk : List Nat), GQuiet w → gptAux never d k w n now mn = some (w', m) →
      gptAuxC never d k w n now mn stk = some (w', m, true) ∧ GQuiet w') ∧
    (∀ (w w' : World) (n now mn m : Nat) (stk : List Nat), GQuiet w → gptLoop never d k w n now mn = some (w', m) →
      gptLoopC never d k w n now mn stk = some (w', m, true) ∧ GQuiet w') := by
  intro k
  induction k with
  | zero => exact ⟨fun w w' n now mn m stk _ h => by simp [gptAux] at h, fun w w' n now mn m stk _ h => by simp [gptLoop] at h⟩
  | succ k ih =>
    refine ⟨?_, ?_⟩
    · intro w w' n now mn m stk hq h
      obtain ⟨w1, w2, m2, h1, h2, hr⟩ := gptAux_shape never d k w w' n now mn m h
      -- pass 0
      have s1 : (if (w.f n).valid = true then some (w, true) else callGC never d (n :: stk) w n now) = some (w1, true) ∧ GQuiet w1 := by
        by_cases hv : (w.f n).valid = true
        · simp only [hv, if_true] at h1 ⊢
          cases h1; exact ⟨rfl, hq⟩
        · simp only [hv, if_false] at h1 ⊢
          have hc := callGC_of_quiet never d (n :: stk) w w1 n now hq h1
          exact ⟨hc, (callGC_quiet never d _ w w1 n now true hq (by simpa using hv) hc).1⟩
      obtain ⟨e2, q2⟩ := ih.2 w1 w2 n now mn m2 (n :: stk) s1.2 h2
      simp only [gptAuxC]
      rw [s1.1]
      simp only []
      rw [e2]
      simp only []
      rcases hr with ⟨hv2, hf⟩ | ⟨hv2, w3, w4, m4, h3, h4, hf⟩
      · simp only [hv2, if_true, hf]
        exact ⟨by simp, by intro a; rw [gptFinish_gq never d w2 w' n m2 m hf]; exact q2 a⟩
      · have hc3 := callGC_of_quiet never d (n :: stk) w2 w3 n now q2 h3
        have q3 := (callGC_quiet never d _ w2 w3 n now true q2 hv2 hc3).1
        obtain ⟨e4, q4⟩ := ih.2 w3 w4 n now m2 m4 (n :: stk) q3 h4
        simp only [hv2, hc3, e4, hf]
        exact ⟨by simp, by intro a; rw [gptFinish_gq never d w4 w' n m4 m hf]; exact q4 a⟩
    · intro w w' n now mn m stk hq h
      simp only [gptLoop] at h
      simp only [gptLoopC]
      split at h
      · rename_i he
        rw [he]
        cases h
        exact ⟨rfl, hq⟩
      · rename_i c t he
        rw [he]
        simp only []
        split at h
        · cases h
        · rename_i w1 mn1 h1
          obtain ⟨e1, q1⟩ := ih.1 w w1 c now mn mn1 stk hq h1
          obtain ⟨e2, q2⟩ := ih.2 w1 w' n now mn1 m stk q1 h
          rw [e1]
          simp only []
          rw [e2]
          exact ⟨by simp, q2⟩


/-- exactness for the model's own sweep -/
theorem managerGpt_exact (never d k : Nat) (w w' : World) (root now m : Nat)
    (h : managerGpt never d (k+1) w root now = some (w', m)) (hi : Inv never w.f) (hV : V w.f) (hq : GQuiet w)
    (hroot : (w.f root).parent = none)
    (hfin : ∃ ht : Nat → Nat, ∀ c p, (w.f c).parent = some p → ht c < ht p) :
    (∀ n, Desc w'.f root n → m ≤ (w'.f n).myTime) ∧
    (m = never ∨ ∃ n, Desc w'.f root n ∧ (w'.f n).myTime = m) := by
  simp only [managerGpt] at h
  have hc := ((gptC_complete never d (k+1)).1 w w' root now never m [] hq h).1
  exact managerGptC_exact never d k w w' root now m (by simpa [managerGptC] using hc) hi hV hq hroot hfin

end Muscle.Pulse
