import MuscleModel.Pulse.Proofs6

/-!
# Lemmas for C20, part 7: the invariant under re-entrant actions and under the whole pulse sweep
(arbitrary scripts), `ClearPulseChildren`, the destructor.
-/

set_option linter.unusedSimpArgs false
set_option linter.unusedVariables false

namespace Muscle.Pulse

theorem runAct_inv (never d : Nat) (w w' : World) (a : Act) (hi : Inv never w.f)
    (h : runAct never d w a = some w') : Inv never w'.f := by
  cases a with
  | inval id clear =>
    simp only [runAct, Option.map_eq_some_iff] at h
    obtain ⟨f', hf, rfl⟩ := h
    exact invalidate_inv never d w.f id clear f' hi hf
  | setReq id t => simp only [runAct] at h; cases h; exact hi
  | detach id =>
    simp only [runAct, Option.map_eq_some_iff] at h
    obtain ⟨f', hf, rfl⟩ := h
    exact detach_inv never d w.f id f' hi hf
  | attach c p =>
    simp only [runAct] at h
    split at h
    · cases h; exact hi
    · simp only [Option.map_eq_some_iff] at h
      obtain ⟨f', hf, rfl⟩ := h
      exact putChild_inv never d w.f p c f' hi hf

theorem runActs_inv (never d : Nat) : ∀ (l : List Act) (w w' : World), Inv never w.f →
    runActs never d w l = some w' → Inv never w'.f := by
  intro l
  induction l with
  | nil => intro w w' g h; simp [runActs] at h; subst h; exact g
  | cons a r ih =>
    intro w w' g h
    simp only [runActs] at h
    split at h
    · rename_i w1 h1
      exact ih w1 w' (runAct_inv never d w w1 a g h1) h
    · cases h

theorem callP_inv (never d : Nat) (w w' : World) (n now : Nat) (hi : Inv never w.f)
    (h : callP never d w n now = some w') : Inv never w'.f := by
  simp only [callP] at h
  split at h
  · cases h
  · rename_i w2 h2
    cases h
    have i2 : Inv never w2.f := runActs_inv never d _ _ _ (by exact hi) h2
    exact ⟨unvalid_inv never _ _ w2.f n _ rfl rfl rfl rfl rfl rfl rfl (Or.inl rfl) i2.1,
      unvalid_sorted w2.f n _ rfl rfl i2.2⟩

theorem pulseFinish_inv (never d : Nat) (w w' : World) (n : Nat) (hi : Inv never w.f)
    (h : pulseFinish never d w n = some w') : Inv never w'.f := by
  simp only [pulseFinish] at h
  split at h
  · rename_i p hp
    simp only [Option.map_eq_some_iff] at h
    obtain ⟨f', hf, rfl⟩ := h
    exact ⟨(resched_recalc_inv never _ _ _ w.f p n f' hi.1 hp hf).1, resched_allSorted never _ _ _ _ _ _ hi.2 hf⟩
  · cases h; exact hi

/-- the whole pulse sweep — with arbitrary re-entrant scripts — preserves the invariant -/
theorem pulse_inv (never d : Nat) : ∀ (k : Nat),
    (∀ (w w' : World) (n now : Nat), Inv never w.f → pulseAux never d k w n now = some w' → Inv never w'.f) ∧
    (∀ (w w' : World) (n now : Nat), Inv never w.f → pulseLoop never d k w n now = some w' → Inv never w'.f) := by
  intro k
  induction k with
  | zero => exact ⟨fun w w' n now _ h => by simp [pulseAux] at h, fun w w' n now _ h => by simp [pulseLoop] at h⟩
  | succ k ih =>
    refine ⟨?_, ?_⟩
    · intro w w' n now g h
      simp only [pulseAux] at h
      split at h
      · cases h
      · rename_i w1 h1
        have g1 : Inv never w1.f := by
          split at h1
          · exact callP_inv never d w w1 n now g h1
          · cases h1; exact g
        split at h
        · cases h
        · rename_i w2 h2
          exact pulseFinish_inv never d w2 w' n (ih.2 w1 w2 n now g1 h2) h
    · intro w w' n now g h
      simp only [pulseLoop] at h
      split at h
      · cases h; exact g
      · rename_i c _ _
        split at h
        · split at h
          · cases h
          · rename_i w1 h1
            exact ih.2 w1 w' n now (ih.1 w w1 c now g h1) h
        · cases h; exact g

/-! ## `ClearPulseChildren` and the destructor -/

theorem removeAll_inv (never d p : Nat) : ∀ (l : List Nat) (f f' : Forest),
    Inv never f → removeAll never d p l f = some f' → Inv never f' := by
  intro l
  induction l with
  | nil => intro f f' hs h; simp [removeAll] at h; subst h; exact hs
  | cons c r ih =>
    intro f f' hs h
    simp only [removeAll] at h
    split at h
    · rename_i f1 hf1
      exact ih f1 f' (removeChild_inv never d f p c f1 hs hf1) h
    · cases h

theorem clearChildren_inv (never d : Nat) (f : Forest) (p : Nat) (f' : Forest)
    (hs : Inv never f) (h : clearChildren never d f p = some f') : Inv never f' := by
  simp only [clearChildren] at h
  split at h
  · cases h
  · rename_i f1 h1
    split at h
    · cases h
    · rename_i f2 h2
      exact removeAll_inv never d p _ _ _
        (removeAll_inv never d p _ _ _ (removeAll_inv never d p _ _ _ hs h1) h2) h


theorem removeChild_root_eq (never d : Nat) (f : Forest) (n c : Nat) (f1 : Forest)
    (hn : (f n).parent = none) (hp : (f c).parent = some n) (hcc : (f c).cur ≠ none)
    (h : removeChild never d f n c = some f1) : f1 = cut f n c := by
  simp only [removeChild, hp, if_true] at h
  cases d with
  | zero => simp [resched] at h
  | succ d =>
    rw [resched_none_eq never d f n c hcc] at h
    simp only [] at h
    have hnc : n ≠ c := fun e => by subst e; rw [hn] at hp; cases hp
    have hc0 : (cut f n c n).parent = none := by rw [cut_parent]; simp [hnc, hn]
    change (if (f n).sched.head? = some c then
          match (cut f n c n).parent with
          | some g => resched never (d+1) (cut f n c) g n (some .recalc)
          | none => some (cut f n c)
        else some (cut f n c)) = some f1 at h
    rw [hc0] at h
    split at h <;> (cases h; rfl)

/-- removing the children of a root's list one by one, always the first, empties that list and no other -/
theorem removeAll_empties (never d n : Nat) (w : Which) : ∀ (l : List Nat) (f f' : Forest),
    Inv never f → (f n).parent = none → (f n).list w = l → removeAll never d n l f = some f' →
    (f' n).parent = none ∧ (f' n).list w = [] ∧ (∀ w', w' ≠ w → (f' n).list w' = (f n).list w') := by
  intro l
  induction l with
  | nil => intro f f' _ hn hl h; simp [removeAll] at h; subst h; exact ⟨hn, hl, fun _ _ => rfl⟩
  | cons c r ih =>
    intro f f' hi hn hl h
    simp only [removeAll] at h
    split at h
    · rename_i f1 hf1
      have hm : c ∈ (f n).list w := by rw [hl]; simp
      obtain ⟨hp, hc⟩ := hi.1.sound n c w hm
      have hcc : (f c).cur ≠ none := by rw [hc]; simp
      have e1 := removeChild_root_eq never d f n c f1 hn hp hcc hf1
      have hnc : n ≠ c := fun e => by subst e; rw [hn] at hp; cases hp
      have i1 : Inv never f1 := removeChild_inv never d f n c f1 hi hf1
      have hl1 : ∀ w', (f1 n).list w' = if w' = w then r else (f n).list w' := by
        intro w'
        rw [e1, cut_list, half_list, hc]
        by_cases hw : w' = w
        · subst hw; simp [hl]
        · have : ¬ (some w = some w') := fun e => hw (Option.some.inj e).symm
          simp [hw, this]
      have hn1 : (f1 n).parent = none := by rw [e1, cut_parent]; simp [hnc, hn]
      obtain ⟨a1, a2, a3⟩ := ih f1 f' i1 hn1 (by rw [hl1]; simp) h
      refine ⟨a1, a2, fun w' hw => ?_⟩
      rw [a3 w' hw, hl1]; simp [hw]
    · cases h

theorem firstSchedAgg_congr' (never : Nat) (f f' : Forest) (x : Nat) (hs : (f' x).sched = (f x).sched)
    (ha : ∀ i ∈ (f x).sched, (f' i).agg = (f i).agg) : firstSchedAgg never f' x = firstSchedAgg never f x := by
  unfold firstSchedAgg
  rw [hs]
  cases h : (f x).sched with
  | nil => rfl
  | cons a r => exact ha a (by rw [h]; simp)

/-- a parent-less, child-less node is replaced by a newly constructed one -/
theorem reset_inv (never : Nat) (f : Forest) (n : Nat) (hi : Inv never f) (hn : (f n).parent = none)
    (hl : ∀ w, (f n).list w = []) : Inv never (upd f n (Node.fresh never)) := by
  have hcur : (f n).cur = none := hi.1.rootcur n hn
  have notin : ∀ q l, n ∉ (f q).list l := by
    intro q l hm
    have := (hi.1.sound q n l hm).1
    rw [hn] at this; cases this
  have lk : ∀ x, (upd f n (Node.fresh never) x).parent = (f x).parent ∧ (upd f n (Node.fresh never) x).cur = (f x).cur ∧
      ∀ l, (upd f n (Node.fresh never) x).list l = (f x).list l := by
    intro x
    unfold upd
    by_cases hx : x = n
    · subst hx
      simp only [if_true]
      refine ⟨by simp [Node.fresh, hn], by simp [Node.fresh, hcur], fun l => ?_⟩
      rw [hl l]; cases l <;> rfl
    · simp [hx]
  have hagg : ∀ x, x ≠ n → (upd f n (Node.fresh never) x).agg = (f x).agg := by
    intro x hx; simp [upd, hx]
  constructor
  · refine ⟨?_, ?_, ?_, ?_, ?_, ?_, ?_, ?_, ?_⟩
    · intro q x l hx
      rw [(lk q).2.2 l] at hx
      rw [(lk x).1, (lk x).2.1]; exact hi.1.sound q x l hx
    · intro q l; rw [(lk q).2.2 l]; exact hi.1.nodup q l
    · intro x q l hx hp hc
      rw [(lk x).1] at hp; rw [(lk x).2.1] at hc
      rw [(lk q).2.2 l]; exact hi.1.complete x q l hx hp hc
    · intro x hx; exact hx.elim
    · intro x hx; rw [(lk x).1] at hx; rw [(lk x).2.1]; exact hi.1.rootcur x hx
    · intro x q hx; rw [(lk x).1] at hx; rw [(lk x).2.1]; exact hi.1.childcur x q hx
    · intro x q hx hne
      rw [(lk x).1] at hx; rw [(lk x).2.1]
      exact hi.1.marked x q hx (by have := (lk x).2.2 .recalc; simp only [list_recalc] at this; rw [← this]; exact hne)
    · intro x _ hf
      have hf0 : Filed f x := by
        obtain ⟨⟨q, hq⟩, hc⟩ := hf
        exact ⟨⟨q, by rw [← (lk x).1]; exact hq⟩, by rw [← (lk x).2.1]; exact hc⟩
      have hxn : x ≠ n := by
        intro e; subst e
        obtain ⟨⟨q, hq⟩, _⟩ := hf0
        rw [hn] at hq; cases hq
      have ha := hi.1.aok x (fun h => h) hf0
      have hsch : (upd f n (Node.fresh never) x).sched = (f x).sched := by
        have := (lk x).2.2 .sched; simpa using this
      have hfs := firstSchedAgg_congr' never f _ x hsch (fun i hi' => hagg i (fun e => notin x .sched (e ▸ hi')))
      unfold AOK at ha ⊢
      rw [hfs, hagg x hxn, (lk x).2.1]
      have e1 : (upd f n (Node.fresh never) x).myTime = (f x).myTime := by simp [upd, hxn]
      have e2 : (upd f n (Node.fresh never) x).valid = (f x).valid := by simp [upd, hxn]
      rw [e1, e2]; exact ha
    · intro x
      by_cases hx : x = n
      · subst hx; simp [upd, Node.fresh]
      · rw [hagg x hx]; exact hi.1.aggle x
  · intro p
    have hsch : (upd f n (Node.fresh never) p).sched = (f p).sched := by
      have := (lk p).2.2 .sched; simpa using this
    rw [hsch]
    exact List.Pairwise.imp_of_mem (l := (f p).sched)
      (R := fun x y => (f x).agg ≤ (f y).agg)
      (fun {x y} hx hy hxy => by
        show (upd f n (Node.fresh never) x).agg ≤ (upd f n (Node.fresh never) y).agg
        rw [hagg x (fun e => notin p .sched (e ▸ hx)), hagg y (fun e => notin p .sched (e ▸ hy))]
        exact hxy) (hi.2 p)

/-- the destructor (followed by the construction of a new object under the same id) preserves the invariant -/
theorem destroy_inv (never d : Nat) (f : Forest) (n : Nat) (f' : Forest)
    (hi : Inv never f) (h : destroy never d f n = some f') : Inv never f' := by
  simp only [destroy] at h
  split at h
  · cases h
  · rename_i f1 h1
    have i1 : Inv never f1 := detach_inv never d f n f1 hi h1
    have hn1 : (f1 n).parent = none := by
      simp only [detach] at h1
      split at h1
      · rename_i q hq
        exact removeChild_parent never d f q n f1 hq (hi.1.childcur n q hq) h1
      · rename_i hq; cases h1; exact hq
    split at h
    · cases h
    · rename_i f2 h2
      cases h
      simp only [clearChildren] at h2
      split at h2
      · cases h2
      · rename_i g1 e1
        split at h2
        · cases h2
        · rename_i g2 e2
          have j1 : Inv never g1 := removeAll_inv never d n _ _ _ i1 e1
          have j2 : Inv never g2 := removeAll_inv never d n _ _ _ j1 e2
          have j3 : Inv never f2 := removeAll_inv never d n _ _ _ j2 h2
          obtain ⟨a1, a2, a3⟩ := removeAll_empties never d n .sched _ f1 g1 i1 hn1 rfl e1
          obtain ⟨b1, b2, b3⟩ := removeAll_empties never d n .unsched _ g1 g2 j1 a1 rfl e2
          obtain ⟨c1, c2, c3⟩ := removeAll_empties never d n .recalc _ g2 f2 j2 b1 rfl h2
          apply reset_inv never f2 n j3 c1
          intro w
          cases w
          · rw [c3 .sched (by decide), b3 .sched (by decide)]; exact a2
          · rw [c3 .unsched (by decide)]; exact b2
          · exact c2

end Muscle.Pulse
