import MuscleModel.Pulse.Proofs9

/-!
# Lemmas for C20, part 10: after a disciplined `GetPulseTimeAux` sweep from a root the whole tree below the root is
settled; what a settled tree guarantees.
-/

set_option linter.unusedSimpArgs false
set_option linter.unusedVariables false

namespace Muscle.Pulse

/-- below a root without needy children nobody waits in NEEDSRECALC: every node below the root is filed, and has no
    needy child itself -/
theorem clean_below (never : Nat) (f : Forest) (r : Nat) (hi : Inv never f) (hr : (f r).recalc = []) :
    ∀ x, Desc f r x → (f x).recalc = [] ∧ (x = r ∨ Filed f x) := by
  intro x hx
  induction hx with
  | refl => exact ⟨hr, Or.inl rfl⟩
  | step q c _ hc ih =>
    have hcc := hi.1.childcur c q hc
    have hnr : (f c).cur ≠ some .recalc := by
      intro e
      have : c ∈ (f q).list .recalc := hi.1.complete c q .recalc (fun h => h) hc e
      rw [list_recalc, ih.1] at this; cases this
    have hfiled : Filed f c := by
      refine ⟨⟨q, hc⟩, ?_⟩
      cases hcur : (f c).cur with
      | none => exact absurd hcur hcc
      | some l =>
        cases l
        · exact Or.inl rfl
        · exact Or.inr rfl
        · exact absurd hcur hnr
    refine ⟨?_, Or.inr hfiled⟩
    cases hrc : (f c).recalc with
    | nil => rfl
    | cons a t => exact absurd (hi.1.marked c q hc (by rw [hrc]; simp)) hnr

/-- the invariant + a root that has just been recalculated = a settled tree -/
theorem settled_of_inv (never : Nat) (f : Forest) (r : Nat) (hi : Inv never f) (hr : (f r).recalc = [])
    (h1 : (f r).agg ≤ (f r).myTime) (h2 : (f r).agg ≤ firstSchedAgg never f r) : Settled never f r := by
  have hc := clean_below never f r hi hr
  refine ⟨?_, ?_, fun p _ => hi.1.aggle p, fun p _ => hi.2 p, ?_⟩
  · intro p hp
    rcases (hc p hp).2 with rfl | hf
    · exact h1
    · exact (hi.1.aok p (fun h => h) hf).1
  · intro p hp
    rcases (hc p hp).2 with rfl | hf
    · exact h2
    · exact (hi.1.aok p (fun h => h) hf).2.1
  · intro p c hp hcp
    have hdc : Desc f r c := Desc.step p c hp hcp
    rcases (hc c hdc).2 with rfl | hf
    · -- c = r would make r its own descendant's child; it is filed or the root: use the filed/unfiled split directly
      have hcc := hi.1.childcur c p hcp
      have hnr : (f c).cur ≠ some .recalc := by
        intro e
        have : c ∈ (f p).list .recalc := hi.1.complete c p .recalc (fun h => h) hcp e
        rw [list_recalc, (hc p hp).1] at this; cases this
      cases hcur : (f c).cur with
      | none => exact absurd hcur hcc
      | some l =>
        cases l
        · exact Or.inl (hi.1.complete c p .sched (fun h => h) hcp hcur)
        · refine Or.inr ⟨hi.1.complete c p .unsched (fun h => h) hcp hcur, ?_⟩
          have hf : Filed f c := ⟨⟨p, hcp⟩, Or.inr hcur⟩
          have ha := (hi.1.aok c (fun h => h) hf).2.2.2
          cases Nat.decEq (f c).agg never with
          | isTrue e => exact e
          | isFalse e => have := ha.mpr e; rw [hcur] at this; cases this
        · exact absurd hcur hnr
    · rcases hf.2 with hcur | hcur
      · exact Or.inl (hi.1.complete c p .sched (fun h => h) hcp hcur)
      · refine Or.inr ⟨hi.1.complete c p .unsched (fun h => h) hcp hcur, ?_⟩
        have ha := (hi.1.aok c (fun h => h) hf).2.2.2
        cases Nat.decEq (f c).agg never with
        | isTrue e => exact e
        | isFalse e => have := ha.mpr e; rw [hcur] at this; cases this

/-- `gptFinish` on a root: nothing but the aggregate changes -/
theorem gptFinish_root (never d : Nat) (w w' : World) (n mn mn' : Nat) (hp : (w.f n).parent = none)
    (h : gptFinish never d w n mn = some (w', mn')) :
    (w'.f n).recalc = (w.f n).recalc ∧ (w'.f n).myTime = (w.f n).myTime ∧ (w'.f n).sched = (w.f n).sched ∧
    (∀ x, x ≠ n → w'.f x = w.f x) := by
  simp only [gptFinish] at h
  generalize (min (if (w.f n).valid = true then (w.f n).myTime else 0) (firstSchedAgg never w.f n)) = a at h
  have e : (upd w.f n { (w.f n) with agg := a } n).parent = none := by simp [upd, hp]
  rw [e] at h
  simp only [] at h
  cases h
  refine ⟨by simp [upd], by simp [upd], by simp [upd], fun x hx => by simp [upd, hx]⟩

/-- a disciplined `GetPulseTimeAux` sweep from a root preserves the invariant and leaves the tree below the root settled -/
theorem managerGptC_settles (never d k : Nat) (w w' : World) (root now m : Nat)
    (h : managerGptC never d (k+1) w root now = some (w', m, true)) (hi : Inv never w.f)
    (hroot : (w.f root).parent = none) :
    Inv never w'.f ∧ Settled never w'.f root ∧ m ≤ (w'.f root).agg := by
  have hcur : (w.f root).cur = none := hi.1.rootcur root hroot
  have hun : ∀ y ∈ [root], Unfiled w.f y := by
    intro y hy
    have : y = root := by simpa using hy
    subst this
    exact ⟨by rw [hcur]; simp, by rw [hcur]; simp⟩
  simp only [managerGptC] at h
  obtain ⟨hI, _, hpr0⟩ := (gptC_inv never d (k+1)).1 w w' root now never m [] h hi (by simp [Chain, hroot]) (by simp) hun
  have hpr : (w'.f root).parent = none := hpr0.trans hroot
  have he := (gptC_erase never d (k+1)).1 w w' root now never m [] true h
  obtain ⟨w1, w2, m2, _, hl, hr⟩ := gptAux_shape never d k w w' root now never m he
  -- the last step is a `gptFinish` on the root, after a loop that emptied its NEEDSRECALC list
  have key : ∀ (v : World) (mv : Nat), (v.f root).recalc = [] → gptFinish never d v root mv = some (w', m) →
      (w'.f root).parent = none → Settled never w'.f root ∧ m ≤ (w'.f root).agg := by
    intro v mv hre hf hpr
    have hm := gptFinish_min never d v w' root mv m hf
    have hpv : (v.f root).parent = none := by rw [← (gptFinish_other never d v w' root mv m hf root).1]; exact hpr
    obtain ⟨g1, g2, g3, g4⟩ := gptFinish_root never d v w' root mv m hpv hf
    have hfs : firstSchedAgg never w'.f root = firstSchedAgg never v.f root := by
      apply firstSchedAgg_congr' never v.f w'.f root g3
      intro i hi'
      have hir : i ≠ root := by
        intro e; subst e
        -- the root is in no list
        have hsv : Inv never w'.f := hI
        have : i ∈ (w'.f i).list .sched := by rw [list_sched, g3]; exact hi'
        have := (hsv.1.sound i i .sched this).1
        rw [hpr] at this; cases this
      rw [g4 i hir]
    refine ⟨settled_of_inv never w'.f root hI (by rw [g1]; exact hre) ?_ ?_, hm.2.1⟩
    · rw [hm.2.2.1, g2]
      split
      · exact Nat.min_le_left _ _
      · exact Nat.le_trans (Nat.min_le_left _ _) (Nat.zero_le _)
    · rw [hm.2.2.1, hfs]; exact Nat.min_le_right _ _
  rcases hr with ⟨_, hf⟩ | ⟨_, w3, w4, m4, _, hl4, hf⟩
  · obtain ⟨a, b⟩ := key w2 m2 (gptLoop_empties never d k w1 w2 root now never m2 hl) hf hpr
    exact ⟨hI, a, b⟩
  · obtain ⟨a, b⟩ := key w4 m4 (gptLoop_empties never d k w3 w4 root now m2 m4 hl4) hf hpr
    exact ⟨hI, a, b⟩

end Muscle.Pulse
