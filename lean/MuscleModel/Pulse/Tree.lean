/-!
# Pulse-node scheduler (C20): executable model of `util/PulseNode.cpp`

A forest of pulse nodes is a map `id → Node`.  Every node record carries what the C++ object carries:
`_parent`, the three intrusive child lists (`_firstChild[]/_lastChild[]` + sibling links, modelled as
three `List Nat` in list order), `_myScheduledTime`, `_myScheduledTimeValid`, `_aggregatePulseTime`,
`_curList`.  `never` is `MUSCLE_TIME_NEVER`; it is a parameter of every definition (the engine passes
the value regenerated from the headers).

Recursion in the C++ code (up the parent chain in `ReschedulePulseChild`, down the tree in the two
sweeps, the `while` loops) is modelled with explicit fuel; a function that runs out of fuel returns
`none` (the engine prints `fuel`, which never matches the implementation), so every theorem of the form
`… = some r → P r` is a statement about the runs that the real code completes.

Core Lean only.
-/

namespace Muscle.Pulse

/-- index of one of the three child lists (`LINKED_LIST_SCHEDULED/UNSCHEDULED/NEEDSRECALC`) -/
inductive Which where
  | sched | unsched | recalc
  deriving DecidableEq, Repr, Inhabited

/-- the fields of one `PulseNode` object -/
structure Node where
  parent : Option Nat      -- `_parent`
  sched : List Nat         -- `_firstChild[LINKED_LIST_SCHEDULED]…`, sorted by `agg`
  unsched : List Nat       -- `_firstChild[LINKED_LIST_UNSCHEDULED]…`
  recalc : List Nat        -- `_firstChild[LINKED_LIST_NEEDSRECALC]…`
  myTime : Nat             -- `_myScheduledTime`
  valid : Bool             -- `_myScheduledTimeValid`
  agg : Nat                -- `_aggregatePulseTime`
  cur : Option Which       -- `_curList` (`none` = -1)
  deriving Repr, Inhabited

/-- `PulseNode::PulseNode()` -/
def Node.fresh (never : Nat) : Node :=
  { parent := none, sched := [], unsched := [], recalc := [], myTime := never, valid := false, agg := never, cur := none }

def Node.list (n : Node) : Which → List Nat
  | .sched => n.sched
  | .unsched => n.unsched
  | .recalc => n.recalc

def Node.setList (n : Node) : Which → List Nat → Node
  | .sched, l => { n with sched := l }
  | .unsched, l => { n with unsched := l }
  | .recalc, l => { n with recalc := l }

abbrev Forest := Nat → Node

def upd (f : Forest) (i : Nat) (v : Node) : Forest := fun j => if j = i then v else f j

/-- the `O(N)` walk of `ReschedulePulseChild`: `while(p->agg < child->agg) p = p->next; insert before p`.
    (The empty case is not reachable from `insertSched`: the C++ loop would run off the list.) -/
def insertBefore (a : Nat → Nat) (c : Nat) : List Nat → List Nat
  | [] => [c]
  | p :: r => if a p < a c then p :: insertBefore a c r else c :: p :: r

/-- `ReschedulePulseChild`, `case LINKED_LIST_SCHEDULED`: empty list / tail shortcut (`>=` the last) / walk -/
def insertSched (a : Nat → Nat) (c : Nat) (l : List Nat) : List Nat :=
  match l.getLast? with
  | none => [c]
  | some last => if a c ≥ a last then l ++ [c] else insertBefore a c l

/- NOTE: the small forest-valued helpers below are `macro_inline`: a forest is a function, and a helper compiled as a
   function of one more argument would redo its work at every look-up (exponential in the number of updates). -/

/-- "First, remove the child from any list he may currently be in" (the unlink step of `ReschedulePulseChild`) -/
@[macro_inline] def unlink (f : Forest) (p c : Nat) : Forest :=
  match (f c).cur with
  | some l => upd f p ((f p).setList l (((f p).list l).erase c))
  | none => f

/-- `child->_curList = whichList` -/
@[macro_inline] def setCur (f : Forest) (c : Nat) (w : Option Which) : Forest := upd f c { (f c) with cur := w }

/-- replace child list `w` of node `p` -/
@[macro_inline] def setL (f : Forest) (p : Nat) (w : Which) (l : List Nat) : Forest := upd f p ((f p).setList w l)

/-- `PulseNode::ReschedulePulseChild(child, whichList)` called on node `p` (`w = none` is `-1`).
    `d` = fuel for the recursion up the parent chain (NEEDSRECALC case). -/
def resched (never : Nat) : Nat → Forest → Nat → Nat → Option Which → Option Forest
  | 0, _, _, _, _ => none
  | d+1, f, p, c, w =>
    if w ≠ (f c).cur ∨ (f c).cur = some .sched then
      let f2 := setCur (unlink f p c) c w
      match w with
      | some .sched => some (setL f2 p .sched (insertSched (fun i => (f2 i).agg) c (f2 p).sched))
      | some .recalc =>
        -- if our child is rescheduled that reschedules us too!
        match (match (f2 p).parent with
               | some g => resched never d f2 g p (some .recalc)
               | none => some f2) with
        | some f3 => some (setL f3 p .recalc (c :: (f3 p).recalc))
        | none => none
      | some .unsched => some (setL f2 p .unsched (c :: (f2 p).unsched))
      | none => some f2
    else some f

/-- `PulseNode::InvalidatePulseTime(clearPrevResult)` on node `n` -/
def invalidate (never d : Nat) (f : Forest) (n : Nat) (clear : Bool) : Option Forest :=
  let f1 := if clear then upd f n { (f n) with myTime := never } else f
  if (f1 n).valid then
    let f2 := upd f1 n { (f1 n) with valid := false }
    match (f2 n).parent with
    | some p => resched never d f2 p n (some .recalc)
    | none => some f2
  else some f1

/-- `child->_parent = NULL; child->_myScheduledTimeValid = false;` -/
@[macro_inline] def orphan (f : Forest) (c : Nat) : Forest := upd f c { (f c) with parent := none, valid := false }

/-- `child->_parent = this` -/
@[macro_inline] def setParent (f : Forest) (c p : Nat) : Forest := upd f c { (f c) with parent := some p }

/-- `PulseNode::RemovePulseChild(child)` called on node `p` -/
def removeChild (never d : Nat) (f : Forest) (p c : Nat) : Option Forest :=
  if (f c).parent = some p then
    match resched never d f p c none with
    | none => none
    | some f1 =>
      if (f p).sched.head? = some c then   -- `doResched`, evaluated before the unlink
        match (orphan f1 c p).parent with
        | some g => resched never d (orphan f1 c) g p (some .recalc)
        | none => some (orphan f1 c)
      else some (orphan f1 c)
  else some f

/-- `PulseNode::PutPulseChild(child)` called on node `p` (callers guarantee `c ≠ p` and no cycle) -/
def putChild (never d : Nat) (f : Forest) (p c : Nat) : Option Forest :=
  match (match (f c).parent with
         | some q => removeChild never d f q c
         | none => some f) with
  | none => none
  | some f1 => resched never d (setParent f1 c p) p c (some .recalc)

/-- what the harness op `detach c` does: `if (c->GetPulseParent()) parent->RemovePulseChild(c)` -/
def detach (never d : Nat) (f : Forest) (c : Nat) : Option Forest :=
  match (f c).parent with
  | some p => removeChild never d f p c
  | none => some f

def removeAll (never d : Nat) (p : Nat) : List Nat → Forest → Option Forest
  | [], f => some f
  | c :: r, f => match removeChild never d f p c with
    | some f' => removeAll never d p r f'
    | none => none

/-- `PulseNode::ClearPulseChildren()`: the three lists in index order, always removing the first child -/
def clearChildren (never d : Nat) (f : Forest) (p : Nat) : Option Forest :=
  match removeAll never d p (f p).sched f with
  | none => none
  | some f1 => match removeAll never d p (f1 p).unsched f1 with
    | none => none
    | some f2 => removeAll never d p (f2 p).recalc f2

/-- `PulseNode::~PulseNode()` followed by the construction of a new object under the same id -/
def destroy (never d : Nat) (f : Forest) (n : Nat) : Option Forest :=
  match detach never d f n with
  | none => none
  | some f1 => match clearChildren never d f1 n with
    | none => none
    | some f2 => some (upd f2 n (Node.fresh never))

/-- is `a` equal to `n` or one of its ancestors?  (out of fuel: `true`, i.e. refuse) -/
def isAnc : Nat → Forest → Nat → Nat → Bool
  | 0, _, _, _ => true
  | d+1, f, a, n => if a = n then true else
    match (f n).parent with
    | some p => isAnc d f a p
    | none => false

/-- `GetFirstScheduledChildTime()` -/
def firstSchedAgg (never : Nat) (f : Forest) (n : Nat) : Nat :=
  match (f n).sched with
  | c :: _ => (f c).agg
  | [] => never

/-! ## Node behaviour: scripts -/

/-- what a callback may do re-entrantly -/
inductive Act where
  | inval (id : Nat) (clear : Bool)
  | setReq (id : Nat) (t : Nat)
  | detach (id : Nat)
  | attach (c p : Nat)
  deriving Repr, Inhabited, DecidableEq

inductive Event where
  | G (id now prev ret : Nat)     -- `GetPulseTime(PulseArgs(now, prev))` returned `ret`
  | P (id now sched : Nat)        -- `Pulse(PulseArgs(now, sched))`
  deriving Repr, Inhabited, DecidableEq

structure World where
  f : Forest
  req : Nat → Nat                  -- the time node `i` returns from its next `GetPulseTime`
  gq : Nat → List (List Act)       -- per node: actions of its next, next-but-one … `GetPulseTime` call
  pq : Nat → List (List Act)       -- the same for `Pulse`
  log : List Event

def updF {α} (g : Nat → α) (i : Nat) (v : α) : Nat → α := fun j => if j = i then v else g j

def World.init (never : Nat) : World :=
  { f := fun _ => Node.fresh never, req := fun _ => never, gq := fun _ => [], pq := fun _ => [], log := [] }

/-- one re-entrant action, through the public API -/
def runAct (never d : Nat) (w : World) : Act → Option World
  | .inval id clear => (invalidate never d w.f id clear).map fun f' => { w with f := f' }
  | .setReq id t => some { w with req := updF w.req id t }
  | .detach id => (detach never d w.f id).map fun f' => { w with f := f' }
  | .attach c p =>
    if isAnc d w.f c p then some w   -- the scripted node refuses an attachment that would close a cycle
    else (putChild never d w.f p c).map fun f' => { w with f := f' }

def runActs (never d : Nat) : World → List Act → Option World
  | w, [] => some w
  | w, a :: r => match runAct never d w a with
    | some w' => runActs never d w' r
    | none => none

/-- the scripted `GetPulseTime(args)` of node `n`, including the two assignments around it in
    `GetPulseTimeAux` (`_myScheduledTimeValid = true; _myScheduledTime = GetPulseTime(…)`) -/
def callG (never d : Nat) (w : World) (n now : Nat) : Option World :=
  let f1 := upd w.f n { (w.f n) with valid := true }
  let prev := (f1 n).myTime
  let acts := (w.gq n).headD []
  let w1 : World := { w with f := f1, gq := updF w.gq n (w.gq n).tail }
  match runActs never d w1 acts with
  | none => none
  | some w2 =>
    let ret := w2.req n
    some { w2 with f := upd w2.f n { (w2.f n) with myTime := ret }, log := w2.log ++ [.G n now prev ret] }

/-- the scripted `Pulse(args)` of node `n` followed by `_myScheduledTimeValid = false` (`PulseAux`) -/
def callP (never d : Nat) (w : World) (n now : Nat) : Option World :=
  let st := (w.f n).myTime
  let acts := (w.pq n).headD []
  let w1 : World := { w with pq := updF w.pq n (w.pq n).tail, log := w.log ++ [.P n now st] }
  match runActs never d w1 acts with
  | none => none
  | some w2 => some { w2 with f := upd w2.f n { (w2.f n) with valid := false } }

/-- the last three statements of `GetPulseTimeAux`: recompute the aggregate, re-file in the parent, lower `min`.
    A node whose request does not stand at this point (it was invalidated again during the second pass) gets the
    aggregate time 0 = "visit me as soon as possible": the next `PulseAux` puts it back into NEEDSRECALC. -/
def gptFinish (never d : Nat) (w : World) (n mn : Nat) : Option (World × Nat) :=
  let old := (w.f n).agg
  let a := min (if (w.f n).valid then (w.f n).myTime else 0) (firstSchedAgg never w.f n)
  let f3 := upd w.f n { (w.f n) with agg := a }
  let r := match (f3 n).parent with
    | some p =>
      if (f3 n).cur = some .recalc ∨ a ≠ old then
        resched never d f3 p n (some (if a = never then Which.unsched else Which.sched))
      else some f3
    | none => some f3
  match r with
  | some f4 => some ({ w with f := f4 }, if a < mn then a else mn)
  | none => none

mutual
/-- `PulseNode::GetPulseTimeAux(now, min)` on node `n`: `for (pass = 0; pass < 2; pass++)` — ask the node if its request
    does not stand, recalculate the needy children; a second pass only if the request was invalidated during the first -/
def gptAux (never d : Nat) : Nat → World → Nat → Nat → Nat → Option (World × Nat)
  | 0, _, _, _, _ => none
  | k+1, w, n, now, mn =>
    match (if (w.f n).valid then some w else callG never d w n now) with
    | none => none
    | some w1 =>
      match gptLoop never d k w1 n now mn with
      | none => none
      | some (w2, mn2) =>
        if (w2.f n).valid then gptFinish never d w2 n mn2      -- `else if (pass > 0) break;`
        else
          match callG never d w2 n now with
          | none => none
          | some w3 =>
            match gptLoop never d k w3 n now mn2 with
            | none => none
            | some (w4, mn4) => gptFinish never d w4 n mn4
/-- `while(firstNeedy) firstNeedy->GetPulseTimeAux(now, min)` -/
def gptLoop (never d : Nat) : Nat → World → Nat → Nat → Nat → Option (World × Nat)
  | 0, _, _, _, _ => none
  | k+1, w, n, now, mn =>
    match (w.f n).recalc with
    | [] => some (w, mn)
    | c :: _ =>
      match gptAux never d k w c now mn with
      | none => none
      | some (w', mn') => gptLoop never d k w' n now mn'
end

/-- the last statement of `PulseAux`: `if (_parent) _parent->ReschedulePulseChild(this, NEEDSRECALC)` -/
def pulseFinish (never d : Nat) (w : World) (n : Nat) : Option World :=
  match (w.f n).parent with
  | some p => (resched never d w.f p n (some .recalc)).map fun f' => { w with f := f' }
  | none => some w

mutual
/-- `PulseNode::PulseAux(now)` on node `n` -/
def pulseAux (never d : Nat) : Nat → World → Nat → Nat → Option World
  | 0, _, _, _ => none
  | k+1, w, n, now =>
    match (if (w.f n).valid ∧ now ≥ (w.f n).myTime then callP never d w n now else some w) with
    | none => none
    | some w1 =>
      match pulseLoop never d k w1 n now with
      | none => none
      | some w2 => pulseFinish never d w2 n
/-- `while((p)&&(now >= p->_aggregatePulseTime)) {p->PulseAux(now); p = _firstChild[SCHEDULED];}` -/
def pulseLoop (never d : Nat) : Nat → World → Nat → Nat → Option World
  | 0, _, _, _ => none
  | k+1, w, n, now =>
    match (w.f n).sched with
    | [] => some w
    | c :: _ =>
      if now ≥ (w.f c).agg then
        match pulseAux never d k w c now with
        | none => none
        | some w' => pulseLoop never d k w' n now
      else some w
end

/-- `PulseNodeManager::CallGetPulseTimeAux(root, now, min)` with `min` starting at `never` -/
def managerGpt (never d k : Nat) (w : World) (root now : Nat) : Option (World × Nat) :=
  gptAux never d k w root now never

/-- `PulseNodeManager::CallPulseAux(root, now)`: `if (now >= p._aggregatePulseTime) p.PulseAux(now)` -/
def managerPulse (never d k : Nat) (w : World) (root now : Nat) : Option World :=
  if now ≥ (w.f root).agg then pulseAux never d k w root now else some w

end Muscle.Pulse
