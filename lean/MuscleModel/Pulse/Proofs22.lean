import MuscleModel.Pulse.Proofs21

/-!
# Lemmas for C20, part 22: an explicit height bound — with finite support `M` there is a height function with values `≤ M`.
-/

set_option linter.unusedSimpArgs false
set_option linter.unusedVariables false

namespace Muscle.Pulse

/-- the rank of `x` among the ids below `M`: how many of them have a smaller height -/
def rankBelow (ht : Nat → Nat) (M x : Nat) : Nat := ((List.range M).filter (fun y => ht y < ht x)).length

theorem rankBelow_le (ht : Nat → Nat) (M x : Nat) : rankBelow ht M x ≤ M := by
  unfold rankBelow
  have := List.length_filter_le (fun y => decide (ht y < ht x)) (List.range M)
  simpa using this

theorem rankBelow_lt (ht : Nat → Nat) (M c p : Nat) (hc : c < M) (h : ht c < ht p) :
    rankBelow ht M c < rankBelow ht M p := by
  unfold rankBelow
  apply nodup_subset_erase_length _ _ c
  · exact List.Nodup.sublist List.filter_sublist List.nodup_range
  · simp [hc, h]
  · intro x hx
    simp at hx
    refine ⟨by simp [hx.1]; omega, fun e => ?_⟩
    subst e; omega

/-- with finite support `M` the height bound can be taken as `M + 1` -/
theorem heightLe_explicit (M : Nat) (f : Forest) (hs : FSupp M f) (hH : Height f) :
    ∃ ht, HeightLe (M + 1) ht f := by
  obtain ⟨ht, hh⟩ := hH
  refine ⟨rankBelow ht M, ?_, fun x => by have := rankBelow_le ht M x; omega⟩
  intro c p hp
  exact rankBelow_lt ht M c p (hs c p hp).1 (hh c p hp)

/-- both sweeps with explicit fuel in a quiet state with finite support `M`: `d > M + 1`, `k ≥ (M + 1) * (M + 2)` -/
theorem sweeps_terminate_explicit (never M d k : Nat) (w : World) (hs : FSupp M w.f) (hi : Inv never w.f) (hV : V w.f)
    (hH : Height w.f) (hd : M + 1 < d) (hk : (M + 1) * (M + 2) ≤ k) :
    (PQuiet w → ∀ root t, ∃ w', managerPulse never d k w root t = some w') ∧
    (GQuiet w → ∀ root now, (w.f root).parent = none → ∃ res, managerGpt never d k w root now = some res) := by
  obtain ⟨ht, hB⟩ := heightLe_explicit M w.f hs hH
  refine ⟨fun hq root t => ?_, fun hq root now hroot => ?_⟩
  · exact managerPulse_terminates never d (M + 1) M ht hd w root t
      ⟨hi, hq, hB, fun x => by have := lists_le_of_fsupp never M w.f hs hi x .sched; simpa using this⟩ k hk
  · exact managerGpt_terminates never d (M + 1) M ht hd w root now hi hV hq hB
      (fun x => by have := lists_le_of_fsupp never M w.f hs hi x .recalc; simpa using this) hroot k hk

end Muscle.Pulse
