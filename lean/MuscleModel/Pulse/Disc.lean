import MuscleModel.Pulse.Tree

/-!
# The `GetPulseTimeAux` sweep with a discipline verdict (C20)

`gptAuxC` is `gptAux` plus a stack of the nodes whose `GetPulseTimeAux` is in progress and a Boolean verdict:
`true` iff no `GetPulseTime` callback of the sweep invalidated, detached or (re-)attached a node whose own
`GetPulseTimeAux` was in progress at that moment (the asked node itself or a node further up the call stack).
Callbacks may do all of this to every OTHER node.  `gptAuxC_erase` (Proofs9) shows that dropping the verdict
gives exactly `gptAux`, so the verdict is a decidable statement about a run of the model.
-/

namespace Muscle.Pulse

/-- the node an action takes the standing request / the parent away from -/
def Act.target : Act → Option Nat
  | .inval id _ => some id
  | .setReq _ _ => none
  | .detach id => some id
  | .attach c _ => some c

def actOK (stk : List Nat) (a : Act) : Bool :=
  match a.target with
  | some t => !(stk.contains t)
  | none => true

def runActsC (never d : Nat) (stk : List Nat) : World → List Act → Option (World × Bool)
  | w, [] => some (w, true)
  | w, a :: r => match runAct never d w a with
    | some w' => match runActsC never d stk w' r with
      | some (w'', b) => some (w'', actOK stk a && b)
      | none => none
    | none => none

/-- `callG` with the verdict for its actions (`stk` = the nodes in progress, the asked node included) -/
def callGC (never d : Nat) (stk : List Nat) (w : World) (n now : Nat) : Option (World × Bool) :=
  let f1 := upd w.f n { (w.f n) with valid := true }
  let prev := (f1 n).myTime
  let acts := (w.gq n).headD []
  let w1 : World := { w with f := f1, gq := updF w.gq n (w.gq n).tail }
  match runActsC never d stk w1 acts with
  | none => none
  | some (w2, b) =>
    let ret := w2.req n
    some ({ w2 with f := upd w2.f n { (w2.f n) with myTime := ret }, log := w2.log ++ [.G n now prev ret] }, b)

mutual
/-- `gptAux` with the stack `stk` of the frames above this one and the verdict -/
def gptAuxC (never d : Nat) : Nat → World → Nat → Nat → Nat → List Nat → Option (World × Nat × Bool)
  | 0, _, _, _, _, _ => none
  | k+1, w, n, now, mn, stk =>
    match (if (w.f n).valid then some (w, true) else callGC never d (n :: stk) w n now) with
    | none => none
    | some (w1, b1) =>
      match gptLoopC never d k w1 n now mn (n :: stk) with
      | none => none
      | some (w2, mn2, b2) =>
        match (if (w2.f n).valid then
                 (match gptFinish never d w2 n mn2 with
                  | some (w', m) => some (w', m, true)
                  | none => none)
               else
                 match callGC never d (n :: stk) w2 n now with
                 | none => none
                 | some (w3, b3) =>
                   match gptLoopC never d k w3 n now mn2 (n :: stk) with
                   | none => none
                   | some (w4, mn4, b4) =>
                     match gptFinish never d w4 n mn4 with
                     | some (w', m) => some (w', m, b3 && b4)
                     | none => none) with
        | some (w', m, b') => some (w', m, b1 && b2 && b')
        | none => none
/-- `gptLoop` for the node on top of `stk` -/
def gptLoopC (never d : Nat) : Nat → World → Nat → Nat → Nat → List Nat → Option (World × Nat × Bool)
  | 0, _, _, _, _, _ => none
  | k+1, w, n, now, mn, stk =>
    match (w.f n).recalc with
    | [] => some (w, mn, true)
    | c :: _ =>
      match gptAuxC never d k w c now mn stk with
      | none => none
      | some (w', mn', b) =>
        match gptLoopC never d k w' n now mn' stk with
        | some (w'', m'', b') => some (w'', m'', b && b')
        | none => none
end

/-- `managerGpt` with the verdict -/
def managerGptC (never d k : Nat) (w : World) (root now : Nat) : Option (World × Nat × Bool) :=
  gptAuxC never d k w root now never []

end Muscle.Pulse
