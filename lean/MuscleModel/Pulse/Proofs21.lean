import MuscleModel.Pulse.Proofs20

/-!
# Lemmas for C20, part 21: the script queues a sweep does not consume stay as they are.
-/

set_option linter.unusedSimpArgs false
set_option linter.unusedVariables false

namespace Muscle.Pulse

theorem runActs_queues (never d : Nat) : ∀ (l : List Act) (w w' : World),
    runActs never d w l = some w' → w'.gq = w.gq ∧ w'.pq = w.pq := by
  intro l
  induction l with
  | nil => intro w w' h; simp [runActs] at h; subst h; exact ⟨rfl, rfl⟩
  | cons a r ih =>
    intro w w' h
    simp only [runActs] at h
    split at h
    · rename_i w1 h1
      have e1 : w1.gq = w.gq ∧ w1.pq = w.pq := by
        cases a with
        | inval id clear =>
          simp only [runAct, Option.map_eq_some_iff] at h1
          obtain ⟨f', _, rfl⟩ := h1; exact ⟨rfl, rfl⟩
        | setReq id t => simp only [runAct] at h1; cases h1; exact ⟨rfl, rfl⟩
        | detach id =>
          simp only [runAct, Option.map_eq_some_iff] at h1
          obtain ⟨f', _, rfl⟩ := h1; exact ⟨rfl, rfl⟩
        | attach c p =>
          simp only [runAct] at h1
          split at h1
          · cases h1; exact ⟨rfl, rfl⟩
          · simp only [Option.map_eq_some_iff] at h1
            obtain ⟨f', _, rfl⟩ := h1; exact ⟨rfl, rfl⟩
      obtain ⟨a1, a2⟩ := ih w1 w' h
      exact ⟨a1.trans e1.1, a2.trans e1.2⟩
    · cases h

/-- a pulse sweep does not touch the `GetPulseTime` script queues -/
theorem pulse_gq (never d : Nat) : ∀ (k : Nat),
    (∀ (w w' : World) (n now : Nat), pulseAux never d k w n now = some w' → w'.gq = w.gq) ∧
    (∀ (w w' : World) (n now : Nat), pulseLoop never d k w n now = some w' → w'.gq = w.gq) := by
  intro k
  induction k with
  | zero => exact ⟨fun w w' n now h => by simp [pulseAux] at h, fun w w' n now h => by simp [pulseLoop] at h⟩
  | succ k ih =>
    refine ⟨?_, ?_⟩
    · intro w w' n now h
      simp only [pulseAux] at h
      split at h
      · cases h
      · rename_i w1 h1
        have g1 : w1.gq = w.gq := by
          split at h1
          · simp only [callP] at h1
            split at h1
            · cases h1
            · rename_i w2 h2
              cases h1
              exact (runActs_queues never d _ _ _ h2).1
          · cases h1; rfl
        split at h
        · cases h
        · rename_i w2 h2
          have g2 := ih.2 w1 w2 n now h2
          have g3 : w'.gq = w2.gq := by
            simp only [pulseFinish] at h
            split at h
            · simp only [Option.map_eq_some_iff] at h
              obtain ⟨f', _, rfl⟩ := h; rfl
            · cases h; rfl
          exact g3.trans (g2.trans g1)
    · intro w w' n now h
      simp only [pulseLoop] at h
      split at h
      · cases h; rfl
      · rename_i c _ _
        split at h
        · split at h
          · cases h
          · rename_i w1 h1
            exact (ih.2 w1 w' n now h).trans (ih.1 w w1 c now h1)
        · cases h; rfl

/-- a recalculation sweep does not touch the `Pulse` script queues -/
theorem gpt_pq (never d : Nat) : ∀ (k : Nat),
    (∀ (w w' : World) (n now mn m : Nat), gptAux never d k w n now mn = some (w', m) → w'.pq = w.pq) ∧
    (∀ (w w' : World) (n now mn m : Nat), gptLoop never d k w n now mn = some (w', m) → w'.pq = w.pq) := by
  intro k
  induction k with
  | zero => exact ⟨fun w w' n now mn m h => by simp [gptAux] at h, fun w w' n now mn m h => by simp [gptLoop] at h⟩
  | succ k ih =>
    have hcall : ∀ (v v1 : World) (n now : Nat), callG never d v n now = some v1 → v1.pq = v.pq := by
      intro v v1 n now h
      simp only [callG] at h
      split at h
      · cases h
      · rename_i w2 h2
        cases h
        exact (runActs_queues never d _ _ _ h2).2
    have hfin : ∀ (v v1 : World) (n mn m : Nat), gptFinish never d v n mn = some (v1, m) → v1.pq = v.pq := by
      intro v v1 n mn m h
      simp only [gptFinish] at h
      split at h
      · cases h; rfl
      · cases h
    refine ⟨?_, ?_⟩
    · intro w w' n now mn m h
      obtain ⟨w1, w2, m2, h1, h2, hr⟩ := gptAux_shape never d k w w' n now mn m h
      have a1 : w1.pq = w.pq := by
        split at h1
        · cases h1; rfl
        · exact hcall w w1 n now h1
      have a2 := ih.2 w1 w2 n now mn m2 h2
      rcases hr with ⟨_, hf⟩ | ⟨_, w3, w4, m4, h3, h4, hf⟩
      · exact (hfin w2 w' n m2 m hf).trans (a2.trans a1)
      · exact (hfin w4 w' n m4 m hf).trans ((ih.2 w3 w4 n now m2 m4 h4).trans ((hcall w2 w3 n now h3).trans (a2.trans a1)))
    · intro w w' n now mn m h
      simp only [gptLoop] at h
      split at h
      · cases h; rfl
      · rename_i c _ _
        split at h
        · cases h
        · rename_i w1 mn1 h1
          exact (ih.2 w1 w' n now mn1 m h).trans (ih.1 w w1 c now mn mn1 h1)

end Muscle.Pulse
