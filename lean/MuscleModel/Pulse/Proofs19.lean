import MuscleModel.Pulse.Proofs18

/-!
# Lemmas for C20, part 19: in a forest with finite support the bounds `B` (height) and `N` (list lengths) exist.
-/

set_option linter.unusedSimpArgs false
set_option linter.unusedVariables false

namespace Muscle.Pulse

/-- all parent pointers live among the node ids below `M` -/
def FSupp (M : Nat) (f : Forest) : Prop := ∀ c p, (f c).parent = some p → c < M ∧ p < M

def bnd (ht : Nat → Nat) : Nat → Nat
  | 0 => 0
  | M+1 => max (bnd ht M) (ht M)

theorem le_bnd (ht : Nat → Nat) : ∀ (M x : Nat), x < M → ht x ≤ bnd ht M := by
  intro M
  induction M with
  | zero => intro x h; omega
  | succ M ih =>
    intro x h
    simp only [bnd]
    by_cases hx : x = M
    · subst hx; exact Nat.le_max_right _ _
    · exact Nat.le_trans (ih x (by omega)) (Nat.le_max_left _ _)

/-- a bounded height function -/
theorem heightLe_of_fsupp (M : Nat) (f : Forest) (hs : FSupp M f) (hH : Height f) :
    ∃ B ht, HeightLe B ht f := by
  obtain ⟨ht, hh⟩ := hH
  refine ⟨bnd ht M + 1, fun x => if x < M then ht x else 0, ?_, ?_⟩
  · intro c p hp
    obtain ⟨hc, hpm⟩ := hs c p hp
    simp only [hc, hpm, if_true]
    exact hh c p hp
  · intro x
    by_cases hx : x < M
    · simp only [hx, if_true]
      have := le_bnd ht M x hx
      omega
    · simp only [hx, if_false]; omega

/-- every child list has at most `M` members -/
theorem lists_le_of_fsupp (never M : Nat) (f : Forest) (hs : FSupp M f) (hi : Inv never f) (x : Nat) (l : Which) :
    ((f x).list l).length ≤ M := by
  have := nodup_subset_length ((f x).list l) (List.range M) (hi.1.nodup x l)
    (fun y hy => List.mem_range.mpr (hs y x (hi.1.sound x y l hy).1).1)
  simpa using this

/-- both sweeps complete in a quiet state with finite support, for a fuel `d` above the height bound -/
theorem sweeps_terminate_of_fsupp (never M : Nat) (w : World) (hs : FSupp M w.f) (hi : Inv never w.f) (hV : V w.f)
    (hH : Height w.f) :
    ∃ B, ∀ d, B < d →
      (PQuiet w → ∀ root t, ∃ k, ∀ k', k ≤ k' → ∃ w', managerPulse never d k' w root t = some w') ∧
      (GQuiet w → ∀ root now, (w.f root).parent = none →
        ∃ k, ∀ k', k ≤ k' → ∃ res, managerGpt never d k' w root now = some res) := by
  obtain ⟨B, ht, hB⟩ := heightLe_of_fsupp M w.f hs hH
  refine ⟨B, fun d hd => ⟨fun hq root t => ⟨B * (M + 2), fun k' hk => ?_⟩, fun hq root now hroot => ⟨B * (M + 2), fun k' hk => ?_⟩⟩⟩
  · exact managerPulse_terminates never d B M ht hd w root t
      ⟨hi, hq, hB, fun x => by have := lists_le_of_fsupp never M w.f hs hi x .sched; simpa using this⟩ k' hk
  · exact managerGpt_terminates never d B M ht hd w root now hi hV hq hB
      (fun x => by have := lists_le_of_fsupp never M w.f hs hi x .recalc; simpa using this) hroot k' hk

end Muscle.Pulse
