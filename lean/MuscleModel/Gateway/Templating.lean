import MuscleModel.Base.Bytes

/-!
# `TemplatingMessageIOGateway`: the template-cache protocol of both ends

Each end keeps an LRU cache of Message templates (`_outgoingTemplates` / `_incomingTemplates`: a `Hashtable`
ordered by recency, front = most recently used) and a byte tally (`_outgoingTemplatesTotalSizeBytes` /
`_incomingTemplatesTotalSizeBytes`), trimmed by `TrimLRUCache` to `_maxLRUCacheSizeBytes`.

A Message enters this model as a `TUnit`: its template id (`Message::TemplateHashCode64`, a hash — two layouts may
share one), its layout (what `DoesMessageMatchTemplate` compares: flattenable field names, type codes, item counts,
recursively; what-codes are not part of it), the flattened size of its template, and whether it is "trivial" (no
fields: sent as a bare what-code).  The three frame forms of `FlattenHeaderAndMessage`:
`plain` (full flattened Message, no flag), `create` (full Message + CREATE_TEMPLATE_BIT: the receiver derives the
template, and its id, from the Message itself), `payload` (PAYLOAD_ENCODING_BIT: template id + payload only).
-/

namespace Muscle.Gateway
open Muscle

structure TUnit where
  id : Nat
  layout : Bytes
  tsize : Nat
  trivial : Bool
  deriving DecidableEq

structure TEntry where
  id : Nat
  layout : Bytes
  size : Nat
  deriving DecidableEq

/-- front = most recently used -/
structure TCache where
  entries : List TEntry
  tally : Nat
  deriving DecidableEq

inductive TFrame where
  | plain (u : TUnit)
  | create (u : TUnit)
  | payload (u : TUnit)

def tLookup (id : Nat) : List TEntry → Option TEntry
  | [] => none
  | e :: r => if e.id = id then some e else tLookup id r

def tRemove (id : Nat) : List TEntry → List TEntry
  | [] => []
  | e :: r => if e.id = id then r else e :: tRemove id r

/-- `Hashtable::GetAndMoveToFront` on a key that is present -/
def tTouch (id : Nat) (es : List TEntry) : List TEntry :=
  match tLookup id es with
  | some e => e :: tRemove id es
  | none => es

/-- `TrimLRUCache`: while more than one template is held and the tally exceeds the limit, drop the least recently used -/
def tTrim (max : Nat) : Nat → TCache → TCache
  | 0, c => c
  | fuel+1, c =>
    if 1 < c.entries.length ∧ max < c.tally then
      match c.entries.getLast? with
      | some last =>
        tTrim max fuel { entries := c.entries.dropLast, tally := if last.size ≤ c.tally then c.tally - last.size else 0 }
      | none => c
    else c

/-- `PutAtFront` + tally + `TrimLRUCache` -/
def tInsert (max : Nat) (c : TCache) (u : TUnit) : TCache :=
  let es := { id := u.id, layout := u.layout, size := u.tsize : TEntry } :: c.entries
  tTrim max es.length { entries := es, tally := c.tally + u.tsize }

/-- `TemplatingMessageIOGateway::FlattenHeaderAndMessage`: cache effects and the frame form chosen -/
def tTx (max : Nat) (c : TCache) (u : TUnit) : TCache × TFrame :=
  if u.trivial then (c, .plain u)
  else
    match tLookup u.id c.entries with
    | some e =>
      if e.layout = u.layout then ({ c with entries := tTouch u.id c.entries }, .payload u)   -- GetAndMoveToFront
      else (c, .plain u)                  -- another layout owns this id: sent in full, nobody's cache is touched
    | none => (tInsert max c u, .create u)

/-- `TemplatingMessageIOGateway::UnflattenHeaderAndMessage`: `none` = the gateway fails (B_DATA_NOT_FOUND, or a payload
    laid out for another template), otherwise the new cache and the Message delivered -/
def tRx (max : Nat) (c : TCache) : TFrame → Option (TCache × TUnit)
  | .plain u => some (c, u)
  | .payload u =>
    match tLookup u.id c.entries with
    | some e => if e.layout = u.layout then some ({ c with entries := tTouch u.id c.entries }, u) else none
    | none => none
  | .create u =>
    -- the receiver makes the template from the Message, computes its id itself, replaces a template of the same id
    let c1 : TCache := match tLookup u.id c.entries with
      | some old => { entries := tRemove u.id c.entries, tally := c.tally - old.size }
      | none => c
    some (tInsert max c1 u, u)

/-- a whole Message sequence through both ends: final caches and the Messages delivered; `none` = the receiver failed -/
def tRun (max : Nat) : TCache → TCache → List TUnit → Option (TCache × TCache × List TUnit)
  | ct, cr, [] => some (ct, cr, [])
  | ct, cr, u :: us =>
    let s := tTx max ct u
    match tRx max cr s.2 with
    | none => none
    | some (cr', d) =>
      match tRun max s.1 cr' us with
      | none => none
      | some (ct2, cr2, ds) => some (ct2, cr2, d :: ds)

def tEmpty : TCache := { entries := [], tally := 0 }

/-- the frame forms the sender chooses for a sequence (`P`lain, `C`reate, payload-only = `T`) -/
def tKinds (max : Nat) : TCache → List TUnit → List Char
  | _, [] => []
  | c, u :: us =>
    let s := tTx max c u
    (match s.2 with | .plain _ => 'P' | .create _ => 'C' | .payload _ => 'T') :: tKinds max s.1 us

end Muscle.Gateway
