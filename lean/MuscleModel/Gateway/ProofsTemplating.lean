import MuscleModel.Gateway.Templating

/-! Lock-step of the two template caches: from equal caches, one Message through sender and receiver leaves equal
caches again, the receiver does not fail and delivers that Message; hence for every Message sequence. -/

namespace Muscle.Gateway
open Muscle

theorem tRemove_of_lookup_none (id : Nat) : ∀ (es : List TEntry), tLookup id es = none → tRemove id es = es := by
  intro es
  induction es with
  | nil => intro _; rfl
  | cons e r ih =>
    intro h
    simp only [tLookup] at h
    by_cases he : e.id = id
    · simp [he] at h
    · simp only [he, if_false] at h
      simp [tRemove, he, ih h]

/-- **one Message, both ends**: equal caches stay equal, the receiver succeeds and delivers exactly that Message -/
theorem tStep_lockstep (max : Nat) (c : TCache) (u : TUnit) :
    tRx max c (tTx max c u).2 = some ((tTx max c u).1, u) := by
  unfold tTx
  by_cases ht : u.trivial
  · simp [ht, tRx]
  · simp only [ht]
    cases hl : tLookup u.id c.entries with
    | none => simp [tRx, hl]
    | some e =>
      by_cases hs : e.layout = u.layout
      · simp [hs, tRx, hl]
      · simp [hs, tRx]

/-- a payload-only Message always finds its template on the receiving side when the caches are in step -/
theorem tPayload_finds_template (max : Nat) (c : TCache) (u v : TUnit) (h : (tTx max c u).2 = .payload v) :
    ∃ e, tLookup v.id c.entries = some e ∧ e.layout = v.layout ∧ tRx max c (.payload v) ≠ none := by
  unfold tTx at h
  by_cases ht : u.trivial
  · simp [ht] at h
  · simp only [ht] at h
    cases hl : tLookup u.id c.entries with
    | none => simp [hl] at h
    | some e =>
      rw [hl] at h
      by_cases hs : e.layout = u.layout
      · simp [hs] at h
        subst h
        exact ⟨e, hl, hs, by simp [tRx, hl, hs]⟩
      · simp [hs] at h

theorem tRun_lockstep (max : Nat) : ∀ (us : List TUnit) (c : TCache),
    ∃ c', tRun max c c us = some (c', c', us) := by
  intro us
  induction us with
  | nil => intro c; exact ⟨c, rfl⟩
  | cons u r ih =>
    intro c
    obtain ⟨c', h⟩ := ih (tTx max c u).1
    refine ⟨c', ?_⟩
    simp only [tRun, tStep_lockstep max c u, h]

theorem tRun_append (max : Nat) : ∀ (a b : List TUnit) (ct cr : TCache),
    tRun max ct cr (a ++ b) =
      match tRun max ct cr a with
      | none => none
      | some (ct1, cr1, da) =>
        match tRun max ct1 cr1 b with
        | none => none
        | some (ct2, cr2, db) => some (ct2, cr2, da ++ db) := by
  intro a
  induction a with
  | nil =>
    intro b ct cr
    simp only [List.nil_append, tRun]
    cases tRun max ct cr b with
    | none => rfl
    | some x => obtain ⟨x1, x2, x3⟩ := x; rfl
  | cons u r ih =>
    intro b ct cr
    simp only [List.cons_append, tRun]
    cases h1 : tRx max cr (tTx max ct u).2 with
    | none => rfl
    | some x =>
      obtain ⟨cr', d⟩ := x
      simp only [ih b (tTx max ct u).1 cr']
      cases tRun max (tTx max ct u).1 cr' r with
      | none => rfl
      | some y =>
        obtain ⟨y1, y2, y3⟩ := y
        simp only
        cases tRun max y1 y2 b with
        | none => rfl
        | some z => obtain ⟨z1, z2, z3⟩ := z; rfl

end Muscle.Gateway
