import MuscleModel.Gateway.Stream

/-!
# `PlainTextMessageIOGateway` over a stream transport

Sender: `DoOutputImplementationAux` — a Message is a list of lines, each written followed by the
end-of-line string; one recursion per non-empty `Write` and per exhausted Message, at most
`gwTextSendRecursionLimit` per call.  Receiver: `DoInputImplementation` (stream branch) — ONE `Read`
of at most `readSize` bytes per call, the scan loop with `beginAt`, the carry-over text
`_incomingText` and the flag `_prevCharWasCarriageReturn`.  Pieces are handled as C strings, so a
NUL byte cuts the piece it is in (`cstrOf`).
-/

namespace Muscle.Gateway
open Muscle

structure TextTx where
  hasMsg : Bool            -- `_currentSendingMessage() != NULL`
  lines : List Bytes       -- lines of it not yet loaded
  cur : Bytes              -- `_currentSendText` from `_currentSendOffset` on
  queue : List (List Bytes)

/-- `eol` = the end-of-line string the sender was given (`SetOutgoingEndOfLineString`, constant over the stream) -/
def textSettle (eol : Bytes) (t0 : TextTx) : TextTx × Bool :=
  let t := if t0.hasMsg then t0 else
    match t0.queue with
    | [] => t0
    | m :: r => { t0 with hasMsg := true, lines := m, cur := [], queue := r }
  if !t.hasMsg then (t, false)
  else if t.cur.isEmpty then
    match t.lines with
    | l :: ls => ({ t with cur := l ++ eol, lines := ls }, false)
    | [] => ({ t with hasMsg := false }, true)
  else (t, false)

def textTx (eol : Bytes) : TxM TextTx where
  zeroStops := false
  settle := textSettle eol
  cur := fun t => if t.hasMsg then t.cur else []
  advance := fun t n => { t with cur := t.cur.drop n }
  again := fun _ n => decide (0 < n)

/-- a C string: up to the first NUL -/
def cstrOf (b : Bytes) : Bytes := b.takeWhile (· != 0)

structure TextRx where
  carry : Bytes      -- `_incomingText`
  prevCR : Bool      -- `_prevCharWasCarriageReturn`

/-- the scan loop over one read buffer; `piece` = bytes since `beginAt` -/
def textScan : Bytes → Bytes → TextRx → List Bytes → TextRx × List Bytes
  | [], piece, s, acc => ({ s with carry := s.carry ++ cstrOf piece }, acc)
  | c :: r, piece, s, acc =>
    if c = 13 ∨ c = 10 then
      if c = 13 ∨ s.prevCR = false then
        textScan r [] { carry := [], prevCR := decide (c = 13) } (acc ++ [s.carry ++ cstrOf piece])
      else textScan r [] { s with prevCR := false } acc
    else textScan r (piece ++ [c]) { s with prevCR := false } acc

def textRx (readSize : Nat) : RxM TextRx Bytes where
  attempt := fun _ mb => min mb readSize
  onRead := fun s c => textScan c [] s []
  again := fun _ _ _ => false

def textGw (readSize limit : Nat) (eol : Bytes) : Gw TextTx TextRx (List Bytes) Bytes where
  tx := textTx eol
  rx := textRx readSize
  enqueue := fun t m => { t with queue := t.queue ++ [m] }
  txFuel := fun _ _ => limit
  hasOut := fun t => t.hasMsg || !t.queue.isEmpty

def textInitTx : TextTx := { hasMsg := false, lines := [], cur := [], queue := [] }
def textInitRx : TextRx := { carry := [], prevCR := false }

end Muscle.Gateway
