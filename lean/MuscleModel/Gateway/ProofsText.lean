import MuscleModel.Gateway.Text
import MuscleModel.Gateway.ProofsStream
import MuscleModel.Gateway.ProofsRaw

set_option linter.unusedSimpArgs false

/-! Proofs for the plain-text gateway: sender conservation, the line splitter (chunk-wise scan =
byte-wise feeding for NUL-free input, whatever the chunking), and the round trip of clean lines
for the three terminators CR LF, LF, CR. -/

namespace Muscle.Gateway
open Muscle

/-! ## sender -/

def textLinesBytes (eol : Bytes) : List Bytes → Bytes
  | [] => []
  | l :: r => (l ++ eol) ++ textLinesBytes eol r

def textQueueBytes (eol : Bytes) : List (List Bytes) → Bytes
  | [] => []
  | m :: r => textLinesBytes eol m ++ textQueueBytes eol r

theorem textQueueBytes_append (eol : Bytes) (a b : List (List Bytes)) :
    textQueueBytes eol (a ++ b) = textQueueBytes eol a ++ textQueueBytes eol b := by
  induction a with
  | nil => rfl
  | cons x r ih => simp [textQueueBytes, ih, List.append_assoc]

def textPending (eol : Bytes) (t : TextTx) : Bytes :=
  (if t.hasMsg then t.cur ++ textLinesBytes eol t.lines else []) ++ textQueueBytes eol t.queue

theorem textSettle_pending (eol : Bytes) (t : TextTx) : textPending eol (textSettle eol t).1 = textPending eol t := by
  obtain ⟨hm, lines, cur, queue⟩ := t
  cases hm
  · cases queue with
    | nil => simp [textSettle, textPending]
    | cons m r =>
      cases m with
      | nil => simp [textSettle, textPending, textQueueBytes, textLinesBytes]
      | cons l ls => simp [textSettle, textPending, textQueueBytes, textLinesBytes, List.append_assoc]
  · cases hcur : cur.isEmpty
    · simp [textSettle, textPending, hcur]
    · have := isEmpty_eq_nil cur hcur
      subst this
      cases lines with
      | nil => simp [textSettle, textPending, textLinesBytes]
      | cons l ls => simp [textSettle, textPending, textLinesBytes, List.append_assoc]

/-- the text sender conserves bytes, for every `maxBytes`/grant schedule and within the recursion limit:
    a Message contributes its lines, each followed by the terminator -/
theorem textTx_refines (eol : Bytes) :
    TxRefines (textTx eol) (fun t m => { t with queue := t.queue ++ [m] }) (textPending eol) (textLinesBytes eol) where
  settle := textSettle_pending eol
  cur := by
    intro t
    obtain ⟨hm, lines, cur, queue⟩ := t
    cases hm
    · exact ⟨textPending eol ⟨false, lines, cur, queue⟩, by simp [textTx], by
        intro n hn
        simp [textTx] at hn
        subst hn
        simp [textTx, textPending]⟩
    · exact ⟨textLinesBytes eol lines ++ textQueueBytes eol queue, by simp [textTx, textPending], by
        intro n _
        simp [textTx, textPending]⟩
  enqueue := by
    intro t x
    simp [textPending, textQueueBytes_append, textQueueBytes]

/-! ## receiver -/

def textStep (s : TextRx) (b : UInt8) : TextRx × List Bytes := textScan [b] [] s []

theorem cstrOf_clean (p : Bytes) (h : ∀ b ∈ p, b ≠ 0) : cstrOf p = p := by
  induction p with
  | nil => rfl
  | cons a r ih =>
    have ha : a ≠ 0 := h a (by simp)
    have hr : ∀ b ∈ r, b ≠ 0 := fun b hb => h b (by simp [hb])
    have hne : (a != 0) = true := by simp [ha]
    simp only [cstrOf] at ih ⊢
    rw [List.takeWhile_cons, hne]
    simp [ih hr]

theorem textStep_eol (s : TextRx) (b : UInt8) (hb : b = 13 ∨ b = 10) (hp : b = 13 ∨ s.prevCR = false) :
    textStep s b = ({ carry := [], prevCR := decide (b = 13) }, [s.carry]) := by
  simp [textStep, textScan, hb, hp, cstrOf]

theorem textStep_skip (s : TextRx) (hp : s.prevCR = true) :
    textStep s 10 = ({ s with prevCR := false }, []) := by
  simp [textStep, textScan, hp, cstrOf]

theorem textStep_char (s : TextRx) (b : UInt8) (h1 : b ≠ 13) (h2 : b ≠ 10) (h0 : b ≠ 0) :
    textStep s b = ({ carry := s.carry ++ [b], prevCR := false }, []) := by
  simp [textStep, textScan, h1, h2, cstrOf, List.takeWhile, h0]

/-- the scan loop over a NUL-free buffer = feeding its bytes one at a time, from the state in which the
    piece scanned so far has already been moved to the carry-over text -/
theorem textScan_eq : ∀ (r piece : Bytes) (s : TextRx) (acc : List Bytes),
    (∀ b ∈ r, b ≠ 0) → (∀ b ∈ piece, b ≠ 0) → (s.prevCR = true → piece = []) →
    textScan r piece s acc =
      ((feedBy textStep { carry := s.carry ++ piece, prevCR := s.prevCR } r).1,
       acc ++ (feedBy textStep { carry := s.carry ++ piece, prevCR := s.prevCR } r).2) := by
  intro r
  induction r with
  | nil =>
    intro piece s acc _ hp _
    simp [textScan, feedBy, cstrOf_clean piece hp]
  | cons c r ih =>
    intro piece s acc hr hp hinv
    have hc0 : c ≠ 0 := hr c (by simp)
    have hr' : ∀ b ∈ r, b ≠ 0 := fun b hb => hr b (by simp [hb])
    by_cases hc : c = 13 ∨ c = 10
    · by_cases hemit : c = 13 ∨ s.prevCR = false
      · have := textStep_eol { carry := s.carry ++ piece, prevCR := s.prevCR } c hc hemit
        simp only [feedBy, this]
        simp only [textScan, hc, hemit, if_true]
        rw [ih [] _ _ hr' (by simp) (by simp)]
        simp [cstrOf_clean piece hp, List.append_assoc]
      · have hc10 : c = 10 := by
          cases hc with
          | inl h => exact absurd (Or.inl h) hemit
          | inr h => exact h
        have hpcr : s.prevCR = true := by
          cases h : s.prevCR with
          | false => exact absurd (Or.inr h) hemit
          | true => rfl
        have hpiece := hinv hpcr
        subst hc10 hpiece
        have := textStep_skip { carry := s.carry ++ [], prevCR := s.prevCR } hpcr
        simp only [feedBy, this]
        simp only [textScan, hc, hemit, if_true, if_false]
        rw [ih [] _ _ hr' (by simp) (by simp)]
        simp
    · have h13 : c ≠ 13 := fun h => hc (Or.inl h)
      have h10 : c ≠ 10 := fun h => hc (Or.inr h)
      have := textStep_char { carry := s.carry ++ piece, prevCR := s.prevCR } c h13 h10 hc0
      simp only [feedBy, this]
      simp only [textScan, hc, if_false]
      rw [ih (piece ++ [c]) _ _ hr' (by
        intro b hb
        simp only [List.mem_append, List.mem_singleton] at hb
        cases hb with
        | inl h => exact hp b h
        | inr h => exact h ▸ hc0) (by simp)]
      simp [List.append_assoc]

theorem textRx_refines (readSize : Nat) :
    RxRefines (textRx readSize) textStep id (fun _ => True) (fun b => b ≠ 0) where
  proj_nil := rfl
  proj_append := by intro a b; rfl
  read := by
    intro s c mb _ _ hok
    have := textScan_eq c [] s [] hok (by simp) (by simp)
    simp [textRx, this]

/-! ## round trip of clean lines -/

def cleanLine (l : Bytes) : Prop := ∀ b ∈ l, b ≠ 13 ∧ b ≠ 10 ∧ b ≠ 0

theorem feed_cleanLine : ∀ (l : Bytes) (c0 : Bytes) (p : Bool) (rest : Bytes), cleanLine l →
    feedBy textStep { carry := c0, prevCR := p } (l ++ rest) =
      feedBy textStep { carry := c0 ++ l, prevCR := if l.isEmpty then p else false } rest := by
  intro l
  induction l with
  | nil => intro c0 p rest _; simp
  | cons a r ih =>
    intro c0 p rest h
    obtain ⟨h13, h10, h0⟩ := h a (by simp)
    have hr : cleanLine r := fun b hb => h b (by simp [hb])
    simp only [List.cons_append, feedBy, textStep_char _ a h13 h10 h0, List.nil_append]
    rw [ih (c0 ++ [a]) false rest hr]
    cases r <;> simp [List.append_assoc]

inductive IsEol : Bytes → Prop where
  | crlf : IsEol [13, 10]
  | lf : IsEol [10]
  | cr : IsEol [13]

/-- feeding one clean line and its terminator from a state with empty carry-over delivers exactly that line -/
theorem feed_line_eol (eol : Bytes) (he : IsEol eol) (l : Bytes) (hl : cleanLine l) (p : Bool) (hp : eol = [10] → p = false)
    (rest : Bytes) :
    ∃ p', (eol = [10] → p' = false) ∧
      feedBy textStep { carry := [], prevCR := p } ((l ++ eol) ++ rest) =
        ((feedBy textStep { carry := [], prevCR := p' } rest).1, [l] ++ (feedBy textStep { carry := [], prevCR := p' } rest).2) := by
  rw [List.append_assoc, feed_cleanLine l [] p (eol ++ rest) hl]
  cases he with
  | crlf =>
    refine ⟨false, by simp, ?_⟩
    simp only [List.cons_append, List.nil_append, feedBy]
    rw [textStep_eol _ 13 (Or.inl rfl) (Or.inl rfl)]
    simp only [decide_true]
    rw [textStep_skip _ rfl]
    simp
  | lf =>
    have hpf := hp rfl
    subst hpf
    refine ⟨false, by simp, ?_⟩
    simp only [List.cons_append, List.nil_append, feedBy]
    rw [textStep_eol _ 10 (Or.inr rfl) (Or.inr (by cases l <;> simp))]
    simp
  | cr =>
    refine ⟨true, by simp, ?_⟩
    simp only [List.cons_append, List.nil_append, feedBy]
    rw [textStep_eol _ 13 (Or.inl rfl) (Or.inl rfl)]
    simp

theorem feed_lines (eol : Bytes) (he : IsEol eol) : ∀ (ls : List Bytes), (∀ l ∈ ls, cleanLine l) →
    ∀ (p : Bool), (eol = [10] → p = false) → ∀ rest : Bytes,
    ∃ p', (eol = [10] → p' = false) ∧
      feedBy textStep { carry := [], prevCR := p } (textLinesBytes eol ls ++ rest) =
        ((feedBy textStep { carry := [], prevCR := p' } rest).1, ls ++ (feedBy textStep { carry := [], prevCR := p' } rest).2) := by
  intro ls
  induction ls with
  | nil => intro _ p hp rest; exact ⟨p, hp, by simp [textLinesBytes]⟩
  | cons l r ih =>
    intro h p hp rest
    obtain ⟨p1, hp1, e1⟩ := feed_line_eol eol he l (h l (by simp)) p hp (textLinesBytes eol r ++ rest)
    obtain ⟨p2, hp2, e2⟩ := ih (fun x hx => h x (by simp [hx])) p1 hp1 rest
    refine ⟨p2, hp2, ?_⟩
    simp only [textLinesBytes]
    rw [List.append_assoc, e1, e2]
    simp

end Muscle.Gateway

namespace Muscle.Gateway
open Muscle

theorem textLinesBytes_append (eol : Bytes) (a b : List Bytes) :
    textLinesBytes eol (a ++ b) = textLinesBytes eol a ++ textLinesBytes eol b := by
  induction a with
  | nil => rfl
  | cons x r ih => simp [textLinesBytes, ih, List.append_assoc]

/-- the stream of a queue of text Messages = all their lines, in order, each with its terminator -/
theorem streamOf_textLines (eol : Bytes) (ms : List (List Bytes)) :
    streamOf (textLinesBytes eol) ms = textLinesBytes eol ms.flatten := by
  induction ms with
  | nil => rfl
  | cons m r ih => simp [streamOf, ih, textLinesBytes_append]

theorem eol_nonzero (eol : Bytes) (he : IsEol eol) : ∀ b ∈ eol, b ≠ 0 := by
  cases he with
  | crlf => intro b hb; simp at hb; rcases hb with h | h <;> subst h <;> decide
  | lf => intro b hb; simp at hb; subst hb; decide
  | cr => intro b hb; simp at hb; subst hb; decide

theorem textLinesBytes_nonzero (eol : Bytes) (he : IsEol eol) : ∀ (ls : List Bytes), (∀ l ∈ ls, cleanLine l) →
    ∀ b ∈ textLinesBytes eol ls, b ≠ 0 := by
  intro ls
  induction ls with
  | nil => intro _ b hb; simp [textLinesBytes] at hb
  | cons l r ih =>
    intro h b hb
    simp only [textLinesBytes, List.mem_append] at hb
    rcases hb with (hb | hb) | hb
    · exact (h l (by simp) b hb).2.2
    · exact eol_nonzero eol he b hb
    · exact ih (fun x hx => h x (by simp [hx])) b hb

end Muscle.Gateway
