import MuscleModel.Base.Bytes

/-!
# WebSocket frame kernels (`WebSocketMessageIOGateway`)

`CreateReplyFrame` (length-field selection 125/126/65535/65536, big-endian extended lengths, mask
bit and masking of client frames) and the matching header decoding of `DoInputImplementation`
(`_headerSize` selection, `InitializeIncomingPayload`), plus the unmasking loop.
SHA-1/Base64 and the HTTP handshake are outside the model.
-/

namespace Muscle.Gateway
open Muscle

/-- big-endian encoding of `n` in `k` bytes -/
def beN (k n : Nat) : Bytes := (leN k n).reverse

def beVal (b : Bytes) : Nat := leVal b.reverse

/-- the length field written by `CreateReplyFrame` after the first byte -/
def wsLenField (maskBit : Nat) (n : Nat) : Bytes :=
  if 65535 < n then UInt8.ofNat (maskBit + 127) :: beN 8 n
  else if 125 < n then UInt8.ofNat (maskBit + 126) :: beN 2 n
  else [UInt8.ofNat (maskBit + n)]

/-- payload XOR key, key index starting at `i` (`payloadBytes[i] ^= _mask[i % 4]`) -/
def wsMask (key : Bytes) : Nat → Bytes → Bytes
  | _, [] => []
  | i, b :: r => (b ^^^ key.getD (i % 4) 0) :: wsMask key (i + 1) r

/-- `CreateReplyFrame` of a server (unmasked) -/
def wsServerFrame (opcode : Nat) (payload : Bytes) : Bytes :=
  UInt8.ofNat (128 + opcode) :: (wsLenField 0 payload.length ++ payload)

/-- `CreateReplyFrame` of a client as RFC 6455 asks for it: key in wire order -/
def wsClientFrame (opcode : Nat) (key payload : Bytes) : Bytes :=
  UInt8.ofNat (128 + opcode) :: (wsLenField 128 payload.length ++ (key ++ wsMask key 0 payload))

/-- what the receiver reads out of the second header byte and the extended length:
    `(payload length, rest)`; `none` = more bytes needed or the 64-bit length has its top bit set -/
def wsReadLen (b1 : UInt8) (rest : Bytes) : Option (Nat × Bytes) :=
  let l := b1.toNat % 128
  if l = 126 then (if rest.length < 2 then none else some (beVal (rest.take 2), rest.drop 2))
  else if l = 127 then
    (if rest.length < 8 then none else
     let n := beVal (rest.take 8)
     if 9223372036854775808 ≤ n then none else some (n, rest.drop 8))
  else some (l, rest)

/-- One complete frame as `DoInputImplementation` takes it apart: the two fixed header bytes (reserved bits must be
    clear; a server insists on the mask bit, a client on its absence), the length field in its 7-bit / 16-bit / 64-bit
    form (`_headerSize` selection; an 8-byte length above 10 MB or with the top bit set is refused), the 4 mask bytes,
    and the unmasking loop.  Result `(opcode, FIN, payload, rest)`; `none` = incomplete or refused.
    `expectMask` = the receiver is a server. -/
def wsDecodeFrame (expectMask : Bool) (b : Bytes) : Option (Nat × Bool × Bytes × Bytes) :=
  match b with
  | b0 :: b1 :: r =>
    if b0.toNat / 16 % 8 ≠ 0 then none
    else if decide (128 ≤ b1.toNat) ≠ expectMask then none
    else
      match wsReadLen b1 r with
      | none => none
      | some (n, r) =>
        if b1.toNat % 128 = 127 ∧ 10485760 < n then none
        else if expectMask then
          (if r.length < 4 + n then none
           else some (b0.toNat % 16, decide (128 ≤ b0.toNat), wsMask (r.take 4) 0 ((r.drop 4).take n), (r.drop 4).drop n))
        else (if r.length < n then none else some (b0.toNat % 16, decide (128 ≤ b0.toNat), r.take n, r.drop n))
  | _ => none

end Muscle.Gateway
