import MuscleModel.Gateway.Raw
import MuscleModel.Gateway.ProofsStream

set_option linter.unusedSimpArgs false

/-! Proofs for the raw and SLIP gateways: the instances of `RxRefines` / `TxRefines`, and the SLIP round trip. -/

namespace Muscle.Gateway
open Muscle

/-! ## raw sender (shared by SLIP) -/

/-- the bytes a Message contributes: all its chunks, back to back -/
def rawEff (m : List Bytes) : Bytes := m.flatten

def rawQueueBytes : List (List Bytes) → Bytes
  | [] => []
  | m :: r => rawEff m ++ rawQueueBytes r

theorem rawQueueBytes_append (a b : List (List Bytes)) : rawQueueBytes (a ++ b) = rawQueueBytes a ++ rawQueueBytes b := by
  induction a with
  | nil => rfl
  | cons x r ih => simp [rawQueueBytes, ih, List.append_assoc]

def rawPending (t : RawTx) : Bytes :=
  (if t.hasMsg then t.cur ++ rawEff t.chunks else []) ++ rawQueueBytes t.queue

theorem isEmpty_eq_nil {α} (l : List α) (h : l.isEmpty = true) : l = [] := by
  cases l <;> simp_all

/-- skipping the chunks without bytes does not change the bytes -/
theorem flatten_dropWhile_empty (l : List Bytes) : (l.dropWhile (fun c => c.isEmpty)).flatten = l.flatten := by
  induction l with
  | nil => rfl
  | cons c cs ih =>
    rw [List.dropWhile_cons]
    cases hc : c.isEmpty with
    | true => simp [ih, isEmpty_eq_nil c hc]
    | false => simp

theorem rawSettle_chunks (chunks : List Bytes) :
    (match chunks.dropWhile (fun c => c.isEmpty) with
      | c :: cs => c ++ rawEff cs
      | [] => []) = rawEff chunks := by
  have h := flatten_dropWhile_empty chunks
  unfold rawEff
  cases hd : chunks.dropWhile (fun c => c.isEmpty) with
  | nil => rw [hd] at h; simpa using h
  | cons c cs => rw [hd] at h; simpa using h

theorem rawSettle_pending (t : RawTx) : rawPending (rawSettle t).1 = rawPending t := by
  obtain ⟨hm, chunks, cur, queue⟩ := t
  cases hm
  · -- no current Message
    cases queue with
    | nil => simp [rawSettle, rawPending]
    | cons m r =>
      have h := rawSettle_chunks m
      cases hd : m.dropWhile (fun c => c.isEmpty) with
      | nil =>
        rw [hd] at h
        have h' : rawEff m = [] := h.symm
        simp [rawSettle, rawPending, rawQueueBytes, hd, h']
      | cons c cs => rw [hd] at h; simp [rawSettle, rawPending, rawQueueBytes, hd, ← h]
  · cases hcur : cur.isEmpty
    · simp [rawSettle, rawPending, hcur]
    · have := isEmpty_eq_nil cur hcur
      subst this
      have h := rawSettle_chunks chunks
      cases hd : chunks.dropWhile (fun c => c.isEmpty) with
      | nil =>
        rw [hd] at h
        have h' : rawEff chunks = [] := h.symm
        simp [rawSettle, rawPending, hd, h']
      | cons c cs => rw [hd] at h; simp [rawSettle, rawPending, hd, ← h]

theorem rawTx_refines (enc : List Bytes → List Bytes) :
    TxRefines rawTx (fun t m => { t with queue := t.queue ++ [enc m] }) rawPending (fun m => rawEff (enc m)) where
  settle := rawSettle_pending
  cur := by
    intro t
    obtain ⟨hm, chunks, cur, queue⟩ := t
    cases hm
    · exact ⟨rawPending ⟨false, chunks, cur, queue⟩, by simp [rawTx], by
        intro n hn
        simp [rawTx] at hn
        subst hn
        simp [rawTx, rawPending]⟩
    · exact ⟨rawEff chunks ++ rawQueueBytes queue, by simp [rawTx, rawPending], by
        intro n _
        simp [rawTx, rawPending]⟩
  enqueue := by
    intro t x
    simp [rawPending, rawQueueBytes_append, rawQueueBytes]

/-! ## raw receiver: the delivered chunks, concatenated, are the bytes consumed -/

def rawStep (readSize minChunk : Nat) (s : RawRx) (b : UInt8) : RawRx × List UInt8 :=
  (((rawRx readSize minChunk).onRead s [b]).1, ((rawRx readSize minChunk).onRead s [b]).2.flatten)

def rawInv (minChunk : Nat) (s : RawRx) : Prop := minChunk ≠ 0 → s.buf.length < minChunk

theorem rawRead0 (readSize : Nat) (s : RawRx) (c : Bytes) :
    feedBy (rawStep readSize 0) s c = (s, c) := by
  induction c with
  | nil => simp [feedBy]
  | cons b r ih => simp [feedBy, rawStep, rawRx, ih]

theorem rawReadN (readSize minChunk : Nat) (hm : minChunk ≠ 0) :
    ∀ (c : Bytes) (s : RawRx), s.buf.length < minChunk → c.length ≤ minChunk - s.buf.length →
      ((rawRx readSize minChunk).onRead s c).1 = (feedBy (rawStep readSize minChunk) s c).1 ∧
      ((rawRx readSize minChunk).onRead s c).2.flatten = (feedBy (rawStep readSize minChunk) s c).2 ∧
      rawInv minChunk ((rawRx readSize minChunk).onRead s c).1 := by
  intro c
  induction c with
  | nil =>
    intro s hs _
    simp [rawRx, hm, feedBy, rawInv, hs]
  | cons b r ih =>
    intro s hs hc
    cases r with
    | nil =>
      by_cases hfull : s.buf.length + 1 = minChunk
      · simp [rawRx, hm, feedBy, rawStep, hfull, rawInv]; omega
      · have : s.buf.length + 1 < minChunk := by simp at hc; omega
        simp [rawRx, hm, feedBy, rawStep, hfull, rawInv, this]
    | cons b2 r2 =>
      simp only [List.length_cons] at hc
      have h1 : ¬ (s.buf.length + 1 = minChunk) := by omega
      have h1' : (s.buf ++ [b]).length < minChunk := by simp; omega
      have hstep : rawStep readSize minChunk s b = ({ buf := s.buf ++ [b] }, []) := by
        simp [rawStep, rawRx, hm, h1]
      obtain ⟨i1, i2, i3⟩ := ih { buf := s.buf ++ [b] } h1' (by simp; omega)
      have e' : (rawRx readSize minChunk).onRead s (b :: b2 :: r2) = (rawRx readSize minChunk).onRead { buf := s.buf ++ [b] } (b2 :: r2) := by
        have harith : s.buf.length + (r2.length + 1 + 1) = s.buf.length + 1 + (r2.length + 1) := by omega
        simp [rawRx, hm, List.append_assoc, harith]
      rw [e']
      simp only [feedBy, hstep, List.nil_append]
      exact ⟨i1, i2, i3⟩

theorem rawRx_refines (readSize minChunk : Nat) :
    RxRefines (rawRx readSize minChunk) (rawStep readSize minChunk) List.flatten (rawInv minChunk) (fun _ => True) where
  proj_nil := rfl
  proj_append := by intro a b; simp
  read := by
    intro s c mb hi hc _
    by_cases hm : minChunk = 0
    · subst hm
      rw [rawRead0]
      cases c <;> simp [rawRx, rawInv]
    · have hs := hi hm
      have : c.length ≤ minChunk - s.buf.length := by
        simp [rawRx, hm] at hc; omega
      exact rawReadN readSize minChunk hm c s hs this

/-! ## SLIP -/

structure SlipK.WF (K : SlipK) : Prop where
  esc_ne_end : K.ESC ≠ K.END
  escEnd_ne_end : K.ESC_END ≠ K.END
  escEsc_ne_end : K.ESC_ESC ≠ K.END
  escEsc_ne_escEnd : K.ESC_ESC ≠ K.ESC_END

theorem slipFeed_eq (K : SlipK) : ∀ (c : Bytes) (s : SlipRx) (acc : List Bytes),
    slipFeed K s c acc = ((feedBy (slipByte K) s c).1, acc ++ (feedBy (slipByte K) s c).2) := by
  intro c
  induction c with
  | nil => intro s acc; simp [slipFeed, feedBy]
  | cons b r ih => intro s acc; simp [slipFeed, feedBy, ih, List.append_assoc]

theorem slipRx_refines (K : SlipK) (readSize : Nat) :
    RxRefines (slipRx K readSize) (slipByte K) id (fun _ => True) (fun _ => True) where
  proj_nil := rfl
  proj_append := by intro a b; rfl
  read := by
    intro s c mb _ _ _
    simp [slipRx, slipFeed_eq]

/-- the decoder undoes the escaping: after the escaped form of `x` the pending buffer has grown by `x` -/
theorem slip_unescape (K : SlipK) (hK : K.WF) : ∀ (x p rest : Bytes),
    feedBy (slipByte K) { pending := p, esc := false } (slipEsc K x ++ rest) =
      feedBy (slipByte K) { pending := p ++ x, esc := false } rest := by
  intro x
  induction x with
  | nil => intro p rest; simp [slipEsc]
  | cons b r ih =>
    intro p rest
    have h1 := hK.esc_ne_end; have h2 := hK.escEnd_ne_end; have h3 := hK.escEsc_ne_end; have h4 := hK.escEsc_ne_escEnd
    by_cases hb : b = K.END
    · subst hb
      simp only [slipEsc, if_true, List.cons_append, feedBy, slipByte]
      simp [h1, h2, ih, List.append_assoc]
    · by_cases hb2 : b = K.ESC
      · subst hb2
        simp only [slipEsc, hb, if_false, if_true, List.cons_append, feedBy, slipByte]
        simp [h1, h3, h4, ih, List.append_assoc]
      · simp only [slipEsc, hb, hb2, if_false, List.cons_append, feedBy, slipByte]
        simp [hb, hb2, ih, List.append_assoc]

def slipIdle : SlipRx := { pending := [], esc := false }

/-- **SLIP round trip**: decoding `SLIPEncodeBytes x` from the idle state yields exactly the frame `x`
    (nothing for the empty chunk) and returns to the idle state — with any bytes following it untouched. -/
theorem slip_roundtrip_append (K : SlipK) (hK : K.WF) (x rest : Bytes) :
    feedBy (slipByte K) slipIdle (slipEncode K x ++ rest) =
      ((feedBy (slipByte K) slipIdle rest).1, (if x.isEmpty then [] else [x]) ++ (feedBy (slipByte K) slipIdle rest).2) := by
  have h : slipEncode K x ++ rest = K.END :: (slipEsc K x ++ (K.END :: rest)) := by simp [slipEncode]
  rw [h]
  simp only [feedBy]
  have e1 : slipByte K slipIdle K.END = (slipIdle, []) := by simp [slipByte, slipIdle, slipFlush]
  rw [e1]
  simp only [slipIdle, List.nil_append]
  rw [slip_unescape K hK x [] (K.END :: rest)]
  simp only [feedBy, List.nil_append]
  cases x with
  | nil => simp [slipByte, slipFlush]
  | cons a r => simp [slipByte, slipFlush]

end Muscle.Gateway

namespace Muscle.Gateway
open Muscle

/-- what a Message contributes to the SLIP stream: the encodings of its chunks that have bytes -/
theorem rawEff_slipMsg (K : SlipK) (m : List Bytes) :
    rawEff (slipMsg K m) = ((m.filter (fun c => !c.isEmpty)).map (slipEncode K)).flatten := rfl

/-- a run of encoded non-empty chunks decodes to exactly those chunks -/
theorem slip_chunks_roundtrip (K : SlipK) (hK : K.WF) : ∀ (xs : List Bytes) (rest : Bytes), (∀ x ∈ xs, x.isEmpty = false) →
    feedBy (slipByte K) slipIdle ((xs.map (slipEncode K)).flatten ++ rest) =
      ((feedBy (slipByte K) slipIdle rest).1, xs ++ (feedBy (slipByte K) slipIdle rest).2) := by
  intro xs
  induction xs with
  | nil => intro rest _; simp
  | cons x r ih =>
    intro rest h
    have hx := h x (by simp)
    simp only [List.map_cons, List.flatten_cons, List.append_assoc]
    rw [slip_roundtrip_append K hK x, ih rest (fun y hy => h y (by simp [hy]))]
    simp [hx]

theorem filter_all_nonempty (m : List Bytes) : ∀ x ∈ m.filter (fun c => !c.isEmpty), x.isEmpty = false := by
  intro x hx
  have := (List.mem_filter.mp hx).2
  simpa using this

/-- a whole queue of SLIP Messages -/
theorem slip_stream_roundtrip (K : SlipK) (hK : K.WF) : ∀ (ms : List (List Bytes)),
    feedBy (slipByte K) slipIdle (streamOf (fun m => rawEff (slipMsg K m)) ms) =
      (slipIdle, (ms.map (fun m => m.filter (fun c => !c.isEmpty))).flatten) := by
  intro ms
  induction ms with
  | nil => simp [streamOf, feedBy]
  | cons m r ih =>
    simp only [streamOf]
    rw [rawEff_slipMsg, slip_chunks_roundtrip K hK _ _ (filter_all_nonempty m), ih]
    simp

end Muscle.Gateway
