import MuscleModel.Gateway.Stream

/-!
# Generic proofs: segmentation independence of any receiver that is "incremental"

`feedBy step` feeds a byte string to a byte-wise state machine.  A receiver `R` *refines* `step` when
one `Read` result `c` (any `c` that fits the size `R` asked for) does to the state, and delivers,
what feeding the bytes of `c` one at a time does.  Then (`rxLoop_refines`) a whole `DoInput` call —
whatever `maxBytes`, whatever grants, however short the reads — consumes some prefix `c` of the
transport and ends in `feedBy step s c`; hence (`run_good`) after ANY interleaving of queueing, output
calls and input calls the receiver's state and everything delivered so far are a function of the
consumed byte prefix alone, and every byte of the sent stream is either consumed, in transit, or still
pending in the sender.
-/

namespace Muscle.Gateway
open Muscle

def feedBy {σ ω : Type} (step : σ → UInt8 → σ × List ω) : σ → Bytes → σ × List ω
  | s, [] => (s, [])
  | s, b :: r => ((feedBy step (step s b).1 r).1, (step s b).2 ++ (feedBy step (step s b).1 r).2)

theorem feedBy_append {σ ω : Type} (step : σ → UInt8 → σ × List ω) (s : σ) (a b : Bytes) :
    feedBy step s (a ++ b) =
      ((feedBy step (feedBy step s a).1 b).1, (feedBy step s a).2 ++ (feedBy step (feedBy step s a).1 b).2) := by
  induction a generalizing s with
  | nil => simp [feedBy]
  | cons x r ih => simp [feedBy, ih, List.append_assoc]

/-- `R` does with a chunk what `step` does with its bytes one at a time -/
structure RxRefines {σ υ ω : Type} (R : RxM σ υ) (step : σ → UInt8 → σ × List ω) (proj : List υ → List ω)
    (Inv : σ → Prop) (ok : UInt8 → Prop) : Prop where
  proj_nil : proj [] = []
  proj_append : ∀ a b, proj (a ++ b) = proj a ++ proj b
  read : ∀ s c mb, Inv s → c.length ≤ R.attempt s mb → (∀ b ∈ c, ok b) →
    (R.onRead s c).1 = (feedBy step s c).1 ∧ proj (R.onRead s c).2 = (feedBy step s c).2 ∧ Inv (R.onRead s c).1

theorem rxLoop_refines {σ υ ω : Type} {R : RxM σ υ} {step : σ → UInt8 → σ × List ω} {proj : List υ → List ω}
    {Inv : σ → Prop} {ok : UInt8 → Prop} (H : RxRefines R step proj Inv ok) :
    ∀ (fuel : Nat) (s : σ) (mb : Nat) (g : Option (List Nat)) (q : Bytes) (acc : List υ),
      Inv s → (∀ b ∈ q, ok b) →
      ∃ c, q = c ++ (rxLoop R fuel s mb g q acc).2.1 ∧
        (rxLoop R fuel s mb g q acc).1 = (feedBy step s c).1 ∧
        proj (rxLoop R fuel s mb g q acc).2.2 = proj acc ++ (feedBy step s c).2 ∧
        Inv (rxLoop R fuel s mb g q acc).1 := by
  intro fuel
  induction fuel with
  | zero =>
    intro s mb g q acc hi _
    exact ⟨[], by simp [rxLoop, feedBy, hi]⟩
  | succ fuel ih =>
    intro s mb g q acc hi hq
    simp only [rxLoop]
    split
    · exact ⟨[], by simp [feedBy, hi]⟩
    · rename_i ha
      generalize hn : min (R.attempt s mb) (min (nextGrant g (R.attempt s mb)).1 q.length) = n
      have hlen : (q.take n).length ≤ R.attempt s mb := by
        rw [List.length_take]; omega
      have hok1 : ∀ b ∈ q.take n, ok b := fun b hb => hq b (List.mem_of_mem_take hb)
      have hok2 : ∀ b ∈ q.drop n, ok b := fun b hb => hq b (List.mem_of_mem_drop hb)
      obtain ⟨h1, h2, h3⟩ := H.read s (q.take n) mb hi hlen hok1
      split
      · obtain ⟨c2, e1, e2, e3, e4⟩ := ih (R.onRead s (q.take n)).1 (mb - n) (nextGrant g (R.attempt s mb)).2 (q.drop n)
          (acc ++ (R.onRead s (q.take n)).2) h3 hok2
        refine ⟨q.take n ++ c2, ?_, ?_, ?_, e4⟩
        · rw [List.append_assoc, ← e1, List.take_append_drop]
        · rw [e2, feedBy_append, h1]
        · rw [e3, feedBy_append, H.proj_append, h2, h1, List.append_assoc]
      · refine ⟨q.take n, ?_, h1, ?_, h3⟩
        · simp
        · rw [H.proj_append, h2]

/-- **A `DoInput` call consumes a prefix `c` of the transport and ends where feeding `c` byte by byte ends**,
    for every `maxBytes` and every grant list. -/
theorem rxCall_refines {σ υ ω : Type} {R : RxM σ υ} {step : σ → UInt8 → σ × List ω} {proj : List υ → List ω}
    {Inv : σ → Prop} {ok : UInt8 → Prop} (H : RxRefines R step proj Inv ok)
    (s : σ) (c : Call) (q : Bytes) (hi : Inv s) (hq : ∀ b ∈ q, ok b) :
    ∃ x, q = x ++ (rxCall R s c q).2.1 ∧ (rxCall R s c q).1 = (feedBy step s x).1 ∧
      proj (rxCall R s c q).2.2 = (feedBy step s x).2 ∧ Inv (rxCall R s c q).1 := by
  obtain ⟨x, h1, h2, h3, h4⟩ := rxLoop_refines H (callFuel c.grants q.length) s c.maxBytes c.grants q [] hi hq
  unfold rxCall
  exact ⟨x, h1, h2, by rw [h3, H.proj_nil]; simp, h4⟩

/-! ## senders: what a call appends to the transport is exactly what leaves `pending` -/

structure TxRefines {τ ι} (T : TxM τ) (enqueue : τ → ι → τ) (pending : τ → Bytes) (enc : ι → Bytes) : Prop where
  settle : ∀ t, pending (T.settle t).1 = pending t
  cur : ∀ t, ∃ rest, pending t = T.cur t ++ rest ∧
    ∀ n, n ≤ (T.cur t).length → pending (T.advance t n) = (T.cur t).drop n ++ rest
  enqueue : ∀ t x, pending (enqueue t x) = pending t ++ enc x

theorem txLoop_conserves {τ ι : Type} {T : TxM τ} {enqueue : τ → ι → τ} {pending : τ → Bytes} {enc : ι → Bytes}
    (H : TxRefines T enqueue pending enc) :
    ∀ (fuel : Nat) (t : τ) (mb : Nat) (g : Option (List Nat)) (q : Bytes),
      ∃ w, (txLoop T fuel t mb g q).2 = q ++ w ∧ w ++ pending (txLoop T fuel t mb g q).1 = pending t := by
  intro fuel
  induction fuel with
  | zero => intro t mb g q; exact ⟨[], by simp [txLoop]⟩
  | succ fuel ih =>
    intro t mb g q
    simp only [txLoop]
    split
    · exact ⟨[], by simp⟩
    · split
      · obtain ⟨w, h1, h2⟩ := ih (T.settle t).1 mb g q
        exact ⟨w, h1, by rw [h2, H.settle]⟩
      · split
        · exact ⟨[], by simp [H.settle]⟩
        · obtain ⟨rest, hp, hadv⟩ := H.cur (T.settle t).1
          generalize hn : min (min mb (T.cur (T.settle t).1).length) (nextGrant g (min mb (T.cur (T.settle t).1).length)).1 = n
          have hle : n ≤ (T.cur (T.settle t).1).length := by omega
          have hsplit : (T.cur (T.settle t).1).take n ++ (pending (T.advance (T.settle t).1 n)) = pending t := by
            rw [hadv n hle, ← List.append_assoc, List.take_append_drop, ← hp, H.settle]
          split
          · obtain ⟨w, h1, h2⟩ := ih (T.advance (T.settle t).1 n) (mb - n) (nextGrant g (min mb (T.cur (T.settle t).1).length)).2
              (q ++ (T.cur (T.settle t).1).take n)
            refine ⟨(T.cur (T.settle t).1).take n ++ w, ?_, ?_⟩
            · rw [h1, List.append_assoc]
            · rw [List.append_assoc, h2, hsplit]
          · exact ⟨(T.cur (T.settle t).1).take n, rfl, hsplit⟩

/-! ## a receiver alone, a sender alone: any list of calls -/

theorem rxCalls_refines {σ υ ω : Type} {R : RxM σ υ} {step : σ → UInt8 → σ × List ω} {proj : List υ → List ω}
    {Inv : σ → Prop} {ok : UInt8 → Prop} (H : RxRefines R step proj Inv ok) :
    ∀ (cs : List Call) (s : σ) (q : Bytes) (acc : List υ), Inv s → (∀ b ∈ q, ok b) →
      ∃ x, q = x ++ (rxCalls R s cs q acc).2.1 ∧ (rxCalls R s cs q acc).1 = (feedBy step s x).1 ∧
        proj (rxCalls R s cs q acc).2.2 = proj acc ++ (feedBy step s x).2 := by
  intro cs
  induction cs with
  | nil => intro s q acc _ _; exact ⟨[], by simp [rxCalls, feedBy]⟩
  | cons c cs ih =>
    intro s q acc hi hq
    obtain ⟨x, h1, h2, h3, h4⟩ := rxCall_refines H s c q hi hq
    have hq2 : ∀ b ∈ (rxCall R s c q).2.1, ok b := fun b hb => hq b (by rw [h1]; simp [hb])
    obtain ⟨y, e1, e2, e3⟩ := ih (rxCall R s c q).1 (rxCall R s c q).2.1 (acc ++ (rxCall R s c q).2.2) h4 hq2
    refine ⟨x ++ y, ?_, ?_, ?_⟩
    · simp only [rxCalls]; rw [List.append_assoc, ← e1, ← h1]
    · simp only [rxCalls]; rw [e2, feedBy_append, h2]
    · simp only [rxCalls]; rw [e3, feedBy_append, H.proj_append, h3, h2, List.append_assoc]

/-- **Input: any chunking gives the same result.**  Whatever the list of `DoInput` calls (number of calls, `maxBytes`,
    bytes returned by each `Read`, would-blocks), once the transport is empty the receiver is in the state, and has
    delivered the units, that feeding the whole byte string byte by byte gives: a function of the bytes alone. -/
theorem input_any_chunking {σ υ ω : Type} {R : RxM σ υ} {step : σ → UInt8 → σ × List ω} {proj : List υ → List ω}
    {Inv : σ → Prop} {ok : UInt8 → Prop} (H : RxRefines R step proj Inv ok)
    (cs : List Call) (s : σ) (q : Bytes) (hi : Inv s) (hq : ∀ b ∈ q, ok b) (hall : (rxCalls R s cs q []).2.1 = []) :
    (rxCalls R s cs q []).1 = (feedBy step s q).1 ∧ proj (rxCalls R s cs q []).2.2 = (feedBy step s q).2 := by
  obtain ⟨x, h1, h2, h3⟩ := rxCalls_refines H cs s q [] hi hq
  rw [hall, List.append_nil] at h1
  subst h1
  exact ⟨h2, by rw [h3, H.proj_nil]; simp⟩

theorem txCalls_conserves {τ ι : Type} {T : TxM τ} {enqueue : τ → ι → τ} {pending : τ → Bytes} {enc : ι → Bytes}
    (H : TxRefines T enqueue pending enc) (fuel : τ → Call → Nat) :
    ∀ (cs : List Call) (t : τ) (q : Bytes),
      ∃ w, (txCalls T fuel t cs q).2 = q ++ w ∧ w ++ pending (txCalls T fuel t cs q).1 = pending t := by
  intro cs
  induction cs with
  | nil => intro t q; exact ⟨[], by simp [txCalls]⟩
  | cons c cs ih =>
    intro t q
    obtain ⟨w, h1, h2⟩ := txLoop_conserves H (fuel t c) t c.maxBytes c.grants q
    obtain ⟨v, e1, e2⟩ := ih (txLoop T (fuel t c) t c.maxBytes c.grants q).1 (txLoop T (fuel t c) t c.maxBytes c.grants q).2
    refine ⟨w ++ v, ?_, ?_⟩
    · simp only [txCalls]; rw [e1, h1, List.append_assoc]
    · simp only [txCalls]; rw [List.append_assoc, e2, h2]

/-- **Output: any short-write schedule emits the same bytes.**  Whatever the list of `DoOutput` calls (`maxBytes`,
    bytes accepted by each `Write`, would-blocks), what has been written is a prefix of the pending bytes, and once
    nothing is pending it is exactly them. -/
theorem output_any_schedule {τ ι : Type} {T : TxM τ} {enqueue : τ → ι → τ} {pending : τ → Bytes} {enc : ι → Bytes}
    (H : TxRefines T enqueue pending enc) (fuel : τ → Call → Nat) (cs : List Call) (t : τ) :
    (∃ rest, pending t = (txCalls T fuel t cs []).2 ++ rest) ∧
    (pending (txCalls T fuel t cs []).1 = [] → (txCalls T fuel t cs []).2 = pending t) := by
  obtain ⟨w, h1, h2⟩ := txCalls_conserves H fuel cs t []
  simp only [List.nil_append] at h1
  constructor
  · exact ⟨pending (txCalls T fuel t cs []).1, by rw [h1, h2]⟩
  · intro hp
    rw [hp, List.append_nil] at h2
    rw [h1, h2]

/-! ## the system -/

def addsOf {ι} : List (Ev ι) → List ι
  | [] => []
  | .add x :: r => x :: addsOf r
  | .output _ :: r => addsOf r
  | .input _ :: r => addsOf r

theorem addsOf_append {ι} (a b : List (Ev ι)) : addsOf (a ++ b) = addsOf a ++ addsOf b := by
  induction a with
  | nil => rfl
  | cons x r ih => cases x <;> simp [addsOf, ih]

def streamOf {ι} (enc : ι → Bytes) : List ι → Bytes
  | [] => []
  | x :: r => enc x ++ streamOf enc r

theorem streamOf_append {ι} (enc : ι → Bytes) (a b : List ι) : streamOf enc (a ++ b) = streamOf enc a ++ streamOf enc b := by
  induction a with
  | nil => rfl
  | cons x r ih => simp [streamOf, ih, List.append_assoc]

theorem streamOf_ok {ι} (enc : ι → Bytes) (ok : UInt8 → Prop) (hok : ∀ x b, b ∈ enc x → ok b) (us : List ι) :
    ∀ b ∈ streamOf enc us, ok b := by
  induction us with
  | nil => intro b hb; simp [streamOf] at hb
  | cons x r ih =>
    intro b hb
    simp only [streamOf, List.mem_append] at hb
    cases hb with
    | inl hb => exact hok x b hb
    | inr hb => exact ih b hb

/-- the state of a link after some history, described by the units queued so far (`us`) alone:
    every byte of their encoding is consumed, in transit or pending, in this order; the receiver is
    where feeding the consumed prefix byte by byte leads, and has delivered what that delivers -/
def Good {τ σ ι υ ω : Type} (_G : Gw τ σ ι υ) (step : σ → UInt8 → σ × List ω) (proj : List υ → List ω) (Inv : σ → Prop)
    (ok : UInt8 → Prop) (pending : τ → Bytes) (enc : ι → Bytes) (r0 : σ) (s : Sys τ σ υ) (us : List ι) : Prop :=
  ∃ consumed, streamOf enc us = consumed ++ (s.q ++ pending s.t) ∧
    s.r = (feedBy step r0 consumed).1 ∧ proj s.out = (feedBy step r0 consumed).2 ∧ Inv s.r ∧
    (∀ b ∈ streamOf enc us, ok b)

theorem step_good {τ σ ι υ ω : Type} {G : Gw τ σ ι υ} {step : σ → UInt8 → σ × List ω} {proj : List υ → List ω}
    {Inv : σ → Prop} {ok : UInt8 → Prop} {pending : τ → Bytes} {enc : ι → Bytes}
    (HR : RxRefines G.rx step proj Inv ok) (HT : TxRefines G.tx G.enqueue pending enc)
    (r0 : σ) (s : Sys τ σ υ) (us : List ι) (e : Ev ι) (hok : ∀ x ∈ addsOf [e], ∀ b ∈ enc x, ok b)
    (h : Good G step proj Inv ok pending enc r0 s us) :
    Good G step proj Inv ok pending enc r0 (stepSys G s e) (us ++ addsOf [e]) := by
  obtain ⟨consumed, h1, h2, h3, h4, h5⟩ := h
  cases e with
  | add x =>
    refine ⟨consumed, ?_, h2, h3, h4, ?_⟩
    · simp only [stepSys, addsOf, streamOf_append, streamOf, List.append_nil, h1, HT.enqueue, List.append_assoc]
    · intro b hb
      simp only [addsOf, streamOf_append, streamOf, List.append_nil, List.mem_append] at hb
      rcases hb with hb | hb
      · exact h5 b hb
      · exact hok x (by simp [addsOf]) b hb
  | output c =>
    obtain ⟨w, e1, e2⟩ := txLoop_conserves HT (G.txFuel s.t c) s.t c.maxBytes c.grants s.q
    refine ⟨consumed, ?_, h2, h3, h4, by simpa [addsOf] using h5⟩
    simp only [stepSys, addsOf, List.append_nil, h1, e1, List.append_assoc, e2]
  | input c =>
    have hq : ∀ b ∈ s.q, ok b := fun b hb => h5 b (by rw [h1]; simp [hb])
    obtain ⟨x, e1, e2, e3, e4⟩ := rxCall_refines HR s.r c s.q h4 hq
    refine ⟨consumed ++ x, ?_, ?_, ?_, e4, by simpa [addsOf] using h5⟩
    · simp only [stepSys, addsOf, List.append_nil, h1, List.append_assoc]
      rw [← List.append_assoc x, ← e1]
    · simp only [stepSys]; rw [e2, feedBy_append, h2]
    · simp only [stepSys]; rw [HR.proj_append, e3, feedBy_append, h3, h2]

theorem run_good {τ σ ι υ ω : Type} {G : Gw τ σ ι υ} {step : σ → UInt8 → σ × List ω} {proj : List υ → List ω}
    {Inv : σ → Prop} {ok : UInt8 → Prop} {pending : τ → Bytes} {enc : ι → Bytes}
    (HR : RxRefines G.rx step proj Inv ok) (HT : TxRefines G.tx G.enqueue pending enc)
    (r0 : σ) (evs : List (Ev ι)) (hok : ∀ x ∈ addsOf evs, ∀ b ∈ enc x, ok b) (s : Sys τ σ υ) (us : List ι)
    (h : Good G step proj Inv ok pending enc r0 s us) :
    Good G step proj Inv ok pending enc r0 (run G s evs) (us ++ addsOf evs) := by
  induction evs generalizing s us with
  | nil => simpa [run, addsOf] using h
  | cons e r ih =>
    have hsplit : addsOf (e :: r) = addsOf [e] ++ addsOf r := by
      rw [← addsOf_append]; rfl
    have h1 : ∀ x ∈ addsOf [e], ∀ b ∈ enc x, ok b := fun x hx => hok x (by rw [hsplit]; simp [hx])
    have h2 : ∀ x ∈ addsOf r, ∀ b ∈ enc x, ok b := fun x hx => hok x (by rw [hsplit]; simp [hx])
    have := ih h2 (stepSys G s e) (us ++ addsOf [e]) (step_good HR HT r0 s us e h1 h)
    have e2 : us ++ addsOf (e :: r) = us ++ addsOf [e] ++ addsOf r := by
      rw [List.append_assoc, hsplit]
    rw [e2]
    simpa [run] using this

/-- **Segmentation independence (generic).**  Start from an idle link.  After ANY list of events — units queued
    at any time, output and input calls in any interleaving, each with any `maxBytes` and any grants — the
    delivered units are exactly those that feeding a PREFIX of the sent stream byte by byte delivers; and if the
    link is drained (nothing in transit, nothing pending) they are exactly what the whole stream delivers. -/
theorem deliveries_are_prefix_fn {τ σ ι υ ω : Type} {G : Gw τ σ ι υ} {step : σ → UInt8 → σ × List ω} {proj : List υ → List ω}
    {Inv : σ → Prop} {ok : UInt8 → Prop} {pending : τ → Bytes} {enc : ι → Bytes}
    (HR : RxRefines G.rx step proj Inv ok) (HT : TxRefines G.tx G.enqueue pending enc)
    (t0 : τ) (r0 : σ) (h0 : pending t0 = []) (hi : Inv r0) (evs : List (Ev ι)) (hok : ∀ x ∈ addsOf evs, ∀ b ∈ enc x, ok b) :
    let s := run G { t := t0, q := [], r := r0, out := [] } evs
    ∃ consumed, streamOf enc (addsOf evs) = consumed ++ (s.q ++ pending s.t) ∧
      s.r = (feedBy step r0 consumed).1 ∧ proj s.out = (feedBy step r0 consumed).2 := by
  have h : Good G step proj Inv ok pending enc r0 { t := t0, q := [], r := r0, out := [] } [] :=
    ⟨[], by simp [streamOf, h0], by simp [feedBy], by simp [feedBy, HR.proj_nil], hi, by intro b hb; simp [streamOf] at hb⟩
  obtain ⟨c, h1, h2, h3, _⟩ := run_good HR HT r0 evs hok _ [] h
  exact ⟨c, by simpa using h1, h2, h3⟩

theorem drained_delivers_all {τ σ ι υ ω : Type} {G : Gw τ σ ι υ} {step : σ → UInt8 → σ × List ω} {proj : List υ → List ω}
    {Inv : σ → Prop} {ok : UInt8 → Prop} {pending : τ → Bytes} {enc : ι → Bytes}
    (HR : RxRefines G.rx step proj Inv ok) (HT : TxRefines G.tx G.enqueue pending enc)
    (t0 : τ) (r0 : σ) (h0 : pending t0 = []) (hi : Inv r0) (evs : List (Ev ι)) (hok : ∀ x ∈ addsOf evs, ∀ b ∈ enc x, ok b)
    (hq : (run G { t := t0, q := [], r := r0, out := [] } evs).q = [])
    (hp : pending (run G { t := t0, q := [], r := r0, out := [] } evs).t = []) :
    proj (run G { t := t0, q := [], r := r0, out := [] } evs).out = (feedBy step r0 (streamOf enc (addsOf evs))).2 := by
  obtain ⟨c, h1, _, h3⟩ := deliveries_are_prefix_fn HR HT t0 r0 h0 hi evs hok
  rw [hq, hp] at h1
  simp at h1
  rw [h3, h1]

end Muscle.Gateway
