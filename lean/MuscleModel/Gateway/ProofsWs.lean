import MuscleModel.Gateway.WebSocket

set_option linter.unusedSimpArgs false

/-! WebSocket frame kernels: masking is an involution for every key; the length field round-trips in its 7-bit, 16-bit
and 64-bit form; a frame built by `CreateReplyFrame` (server: unmasked; client: masked with any 4-byte key) is taken
apart by the receiver's header logic into exactly its opcode and payload. -/

namespace Muscle.Gateway
open Muscle

theorem wsMask_involutive (key : Bytes) : ∀ (i : Nat) (p : Bytes), wsMask key i (wsMask key i p) = p := by
  intro i p
  induction p generalizing i with
  | nil => rfl
  | cons b r ih =>
    simp only [wsMask, ih]
    rw [UInt8.xor_assoc, UInt8.xor_self, UInt8.xor_zero]

theorem wsMask_length (key : Bytes) : ∀ (i : Nat) (p : Bytes), (wsMask key i p).length = p.length := by
  intro i p
  induction p generalizing i with
  | nil => rfl
  | cons b r ih => simp [wsMask, ih]

theorem beN_length (k n : Nat) : (beN k n).length = k := by simp [beN]

theorem beVal_beN (k n : Nat) (h : n < 256 ^ k) : beVal (beN k n) = n := by
  simp [beVal, beN, leVal_leN k n h]

theorem u8_toNat (n : Nat) (h : n < 256) : (UInt8.ofNat n).toNat = n := by
  rw [UInt8.toNat_ofNat']; omega

/-- **the length field round-trips** in each of its three forms, with or without the mask bit -/
theorem wsReadLen_lenField (mask : Nat) (hm : mask = 0 ∨ mask = 128) (n : Nat) (hn : n < 9223372036854775808) (rest : Bytes) :
    ∃ b1 ext, wsLenField mask n = b1 :: ext ∧ wsReadLen b1 (ext ++ rest) = some (n, rest) ∧
      decide (128 ≤ b1.toNat) = decide (mask = 128) ∧ (b1.toNat % 128 = 127 → 65535 < n) := by
  by_cases h1 : 65535 < n
  · refine ⟨UInt8.ofNat (mask + 127), beN 8 n, by simp [wsLenField, h1], ?_, ?_, fun _ => h1⟩
    · have ht : (UInt8.ofNat (mask + 127)).toNat % 128 = 127 := by
        rw [u8_toNat _ (by omega)]; omega
      have hlen : ¬ ((beN 8 n ++ rest).length < 8) := by simp [beN_length]
      have htake : (beN 8 n ++ rest).take 8 = beN 8 n := List.take_left' (beN_length 8 n)
      have hdrop : (beN 8 n ++ rest).drop 8 = rest := List.drop_left' (beN_length 8 n)
      have hv : beVal (beN 8 n) = n := beVal_beN 8 n (by omega)
      have hnot : ¬ (9223372036854775808 ≤ n) := by omega
      simp only [wsReadLen, ht]
      simp [htake, hdrop, hv, hnot, beN_length]
    · rw [u8_toNat _ (by omega)]; rcases hm with h | h <;> subst h <;> simp
  · by_cases h2 : 125 < n
    · refine ⟨UInt8.ofNat (mask + 126), beN 2 n, by simp [wsLenField, h1, h2], ?_, ?_, ?_⟩
      · have ht : (UInt8.ofNat (mask + 126)).toNat % 128 = 126 := by
          rw [u8_toNat _ (by omega)]; omega
        have hlen : ¬ ((beN 2 n ++ rest).length < 2) := by simp [beN_length]
        have htake : (beN 2 n ++ rest).take 2 = beN 2 n := List.take_left' (beN_length 2 n)
        have hdrop : (beN 2 n ++ rest).drop 2 = rest := List.drop_left' (beN_length 2 n)
        have hv : beVal (beN 2 n) = n := beVal_beN 2 n (by omega)
        simp only [wsReadLen, ht]
        simp [htake, hdrop, hv, beN_length]
      · rw [u8_toNat _ (by omega)]; rcases hm with h | h <;> subst h <;> simp
      · rw [u8_toNat _ (by omega)]; omega
    · refine ⟨UInt8.ofNat (mask + n), [], by simp [wsLenField, h1, h2], ?_, ?_, ?_⟩
      · have ht : (UInt8.ofNat (mask + n)).toNat % 128 = n := by
          rw [u8_toNat _ (by omega)]; omega
        have h126 : ¬ (n = 126) := by omega
        have h127 : ¬ (n = 127) := by omega
        simp only [wsReadLen, ht]
        simp [h126, h127]
      · rw [u8_toNat _ (by omega)]
        rcases hm with h | h <;> subst h <;> simp <;> omega
      · rw [u8_toNat _ (by omega)]; omega

theorem ws_b0 (op : Nat) (h : op < 16) :
    (UInt8.ofNat (128 + op)).toNat / 16 % 8 = 0 ∧ (UInt8.ofNat (128 + op)).toNat % 16 = op ∧
      decide (128 ≤ (UInt8.ofNat (128 + op)).toNat) = true := by
  rw [u8_toNat _ (by omega)]
  exact ⟨by omega, by omega, by simp⟩

/-- **server frame**: what `CreateReplyFrame` of a server builds, a client's header logic takes apart exactly -/
theorem ws_server_frame_decode (op : Nat) (hop : op < 16) (p : Bytes) (hp : p.length ≤ 10485760) (rest : Bytes) :
    wsDecodeFrame false (wsServerFrame op p ++ rest) = some (op, true, p, rest) := by
  obtain ⟨b1, ext, hf, hr, hmask, h127⟩ := wsReadLen_lenField 0 (Or.inl rfl) p.length (by omega) (p ++ rest)
  obtain ⟨c1, c2, c3⟩ := ws_b0 op hop
  have hshape : wsServerFrame op p ++ rest = UInt8.ofNat (128 + op) :: b1 :: (ext ++ (p ++ rest)) := by
    simp [wsServerFrame, hf]
  rw [hshape]
  have hm : decide (128 ≤ b1.toNat) = false := by rw [hmask]; simp
  have hbig : ¬ (b1.toNat % 128 = 127 ∧ 10485760 < p.length) := by omega
  simp only [wsDecodeFrame, c1, c2, c3, hm, hr, hbig]
  simp

/-- **client frame**: masked with ANY 4-byte key, a server's header logic and unmasking loop restore the payload -/
theorem ws_client_frame_decode (op : Nat) (hop : op < 16) (key : Bytes) (hk : key.length = 4) (p : Bytes)
    (hp : p.length ≤ 10485760) (rest : Bytes) :
    wsDecodeFrame true (wsClientFrame op key p ++ rest) = some (op, true, p, rest) := by
  obtain ⟨b1, ext, hf, hr, hmask, h127⟩ := wsReadLen_lenField 128 (Or.inr rfl) p.length (by omega) (key ++ (wsMask key 0 p ++ rest))
  obtain ⟨c1, c2, c3⟩ := ws_b0 op hop
  have hshape : wsClientFrame op key p ++ rest = UInt8.ofNat (128 + op) :: b1 :: (ext ++ (key ++ (wsMask key 0 p ++ rest))) := by
    simp [wsClientFrame, hf]
  rw [hshape]
  have hm : decide (128 ≤ b1.toNat) = true := by rw [hmask]; simp
  have hbig : ¬ (b1.toNat % 128 = 127 ∧ 10485760 < p.length) := by omega
  have hlen : ¬ ((key ++ (wsMask key 0 p ++ rest)).length < 4 + p.length) := by
    simp [hk, wsMask_length]
  have ht4 : (key ++ (wsMask key 0 p ++ rest)).take 4 = key := List.take_left' hk
  have hd4 : (key ++ (wsMask key 0 p ++ rest)).drop 4 = wsMask key 0 p ++ rest := List.drop_left' hk
  have htn : (wsMask key 0 p ++ rest).take p.length = wsMask key 0 p := List.take_left' (wsMask_length key 0 p)
  have hdn : (wsMask key 0 p ++ rest).drop p.length = rest := List.drop_left' (wsMask_length key 0 p)
  simp only [wsDecodeFrame, c1, c2, c3, hm, hr, hbig, hlen, ht4, hd4, htn, hdn, wsMask_involutive]
  simp

end Muscle.Gateway
