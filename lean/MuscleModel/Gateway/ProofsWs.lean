import MuscleModel.Gateway.WebSocket

namespace Muscle.Gateway
open Muscle

theorem wsMask_involutive (key : Bytes) : ∀ (i : Nat) (p : Bytes), wsMask key i (wsMask key i p) = p := by
  intro i p
  induction p generalizing i with
  | nil => rfl
  | cons b r ih =>
    simp only [wsMask, ih]
    rw [UInt8.xor_assoc, UInt8.xor_self, UInt8.xor_zero]

end Muscle.Gateway
