import MuscleModel.Gateway.Stream

/-!
# `RawDataMessageIOGateway` and `SLIPFramedDataMessageIOGateway` over a stream transport

Raw sender: `DoOutputImplementation` (stream branch) — a Message is a list of chunks written back
to back; the sender walks the chunks by count and skips a chunk without bytes (`Message::FindData`
has no pointer to return for an empty buffer; it contributes nothing but must not end the Message).
Raw receiver: immediate-forward mode (`minChunk = 0`): one `Read` of at most `readSize` bytes per
call, forwarded as one chunk; minimum-chunk mode: reads into a `minChunk`-byte buffer, forwards it
when full and recurses.

SLIP: `PopNextOutgoingMessage` replaces every chunk by `SLIPEncodeBytes` of it; the receiver feeds
what the raw receiver forwards through the decoder of `MessageReceivedFromGateway`
(`_pendingBuffer`, `_lastReceivedCharWasEscape` survive across reads) and hands over the frames
completed during the call.
-/

namespace Muscle.Gateway
open Muscle

structure RawTx where
  hasMsg : Bool
  chunks : List Bytes      -- chunks of the current Message not yet loaded
  cur : Bytes              -- `_sendBuf` from `_sendBufByteOffset` on
  queue : List (List Bytes)

def rawSettle (t0 : RawTx) : RawTx × Bool :=
  let t := if t0.hasMsg then t0 else
    match t0.queue with
    | [] => t0
    | m :: r => { hasMsg := true, chunks := m, cur := [], queue := r }
  if !t.hasMsg then (t, false)
  else if t.cur.isEmpty then
    match t.chunks.dropWhile (fun c => c.isEmpty) with     -- the next chunk that has bytes
    | c :: cs => ({ t with cur := c, chunks := cs }, false)
    | [] => ({ t with hasMsg := false, chunks := [] }, true)
  else (t, false)

def rawTx : TxM RawTx where
  zeroStops := false
  settle := rawSettle
  cur := fun t => if t.hasMsg then t.cur else []
  advance := fun t n => { t with cur := t.cur.drop n }
  again := fun _ n => decide (0 < n)

structure RawRx where
  buf : Bytes     -- minimum-chunk mode: bytes of the chunk being filled (`_recvBufByteOffset` of them)

def rawRx (readSize minChunk : Nat) : RxM RawRx Bytes where
  attempt := fun s mb => if minChunk = 0 then min readSize mb else min mb (minChunk - s.buf.length)
  onRead := fun s c =>
    if minChunk = 0 then (s, if c.isEmpty then [] else [c])
    else if !c.isEmpty && (s.buf ++ c).length == minChunk then ({ buf := [] }, [s.buf ++ c])
    else ({ buf := s.buf ++ c }, [])
  again := fun s _ n => minChunk != 0 && decide (0 < n) && s.buf.isEmpty

def rawFuel (t : RawTx) (c : Call) : Nat :=
  callFuel c.grants (t.chunks.length + (t.queue.map List.length).sum) + t.queue.length + 2

def rawGw (readSize minChunk : Nat) : Gw RawTx RawRx (List Bytes) Bytes where
  tx := rawTx
  rx := rawRx readSize minChunk
  enqueue := fun t m => { t with queue := t.queue ++ [m] }
  txFuel := rawFuel
  hasOut := fun t => t.hasMsg || !t.queue.isEmpty

def rawInitTx : RawTx := { hasMsg := false, chunks := [], cur := [], queue := [] }
def rawInitRx : RawRx := { buf := [] }

/-! ## SLIP -/

structure SlipK where
  END : UInt8
  ESC : UInt8
  ESC_END : UInt8
  ESC_ESC : UInt8

/-- `SLIPEncodeBytes` without the two delimiters -/
def slipEsc (K : SlipK) : Bytes → Bytes
  | [] => []
  | b :: r =>
    if b = K.END then K.ESC :: K.ESC_END :: slipEsc K r
    else if b = K.ESC then K.ESC :: K.ESC_ESC :: slipEsc K r
    else b :: slipEsc K r

/-- `SLIPEncodeBytes` -/
def slipEncode (K : SlipK) (x : Bytes) : Bytes := K.END :: (slipEsc K x ++ [K.END])

structure SlipRx where
  pending : Bytes     -- `_pendingBuffer`
  esc : Bool          -- `_lastReceivedCharWasEscape`

/-- `FlushCurrentIncomingSLIPFrame`: an empty frame is dropped -/
def slipFlush (s : SlipRx) : SlipRx × List Bytes :=
  if s.pending.isEmpty then ({ s with pending := [] }, []) else ({ s with pending := [] }, [s.pending])

/-- one byte through the decoder of `MessageReceivedFromGateway` -/
def slipByte (K : SlipK) (s : SlipRx) (b : UInt8) : SlipRx × List Bytes :=
  if s.esc then
    if b = K.END then let r := slipFlush s; ({ r.1 with esc := false }, r.2)
    else if b = K.ESC_END then ({ pending := s.pending ++ [K.END], esc := false }, [])
    else if b = K.ESC_ESC then ({ pending := s.pending ++ [K.ESC], esc := false }, [])
    else ({ pending := s.pending ++ [b], esc := false }, [])
  else
    if b = K.END then let r := slipFlush s; ({ r.1 with esc := false }, r.2)
    else if b = K.ESC then ({ s with esc := true }, [])
    else ({ pending := s.pending ++ [b], esc := false }, [])

def slipFeed (K : SlipK) : SlipRx → Bytes → List Bytes → SlipRx × List Bytes
  | s, [], acc => (s, acc)
  | s, b :: r, acc => let x := slipByte K s b; slipFeed K x.1 r (acc ++ x.2)

def slipRx (K : SlipK) (readSize : Nat) : RxM SlipRx Bytes where
  attempt := fun _ mb => min readSize mb
  onRead := fun s c => slipFeed K s c []
  again := fun _ _ _ => false

/-- what `PopNextOutgoingMessage` makes of a Message: every chunk that has bytes, SLIP-encoded -/
def slipMsg (K : SlipK) (m : List Bytes) : List Bytes := (m.filter (fun c => !c.isEmpty)).map (slipEncode K)

def slipGw (K : SlipK) (readSize : Nat) : Gw RawTx SlipRx (List Bytes) Bytes where
  tx := rawTx
  rx := slipRx K readSize
  enqueue := fun t m => { t with queue := t.queue ++ [slipMsg K m] }
  txFuel := rawFuel
  hasOut := fun t => t.hasMsg || !t.queue.isEmpty

def slipInitRx : SlipRx := { pending := [], esc := false }

end Muscle.Gateway
