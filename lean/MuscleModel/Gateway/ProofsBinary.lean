import MuscleModel.Gateway.Binary
import MuscleModel.Gateway.ProofsStream

set_option linter.unusedSimpArgs false
set_option linter.unusedVariables false

/-! Proofs for the binary gateway: sender conservation and the receiver refinement — a `Read` result of
any size that fits what `ReceiveMoreData` asked for does what its bytes do one at a time, in the header
phase and in the body phase, in the scratch buffer and in a reallocated one. -/

namespace Muscle.Gateway
open Muscle Muscle.Wire Muscle.Gen

/-! ## sender -/

def binQueueBytes (P : BinParams) (lvl : Nat) : List Msg → Bytes
  | [] => []
  | m :: r => frameZ P lvl m ++ binQueueBytes P lvl r

theorem binQueueBytes_append (P : BinParams) (lvl : Nat) (a b : List Msg) :
    binQueueBytes P lvl (a ++ b) = binQueueBytes P lvl a ++ binQueueBytes P lvl b := by
  induction a with
  | nil => rfl
  | cons x r ih => simp [binQueueBytes, ih, List.append_assoc]

def binPending (P : BinParams) (lvl : Nat) (t : BinTx) : Bytes := t.cur ++ binQueueBytes P lvl t.queue

theorem binTx_refines (P : BinParams) (lvl : Nat) :
    TxRefines (binTx P lvl) (fun t m => { t with queue := t.queue ++ [m] }) (binPending P lvl) (frameZ P lvl) where
  settle := by
    intro t
    obtain ⟨cur, queue⟩ := t
    cases cur with
    | nil => cases queue <;> simp [binTx, binSettle, binPending, binQueueBytes]
    | cons a r => simp [binTx, binSettle, binPending]
  cur := by
    intro t
    exact ⟨binQueueBytes P lvl t.queue, rfl, by intro n _; simp [binTx, binPending]⟩
  enqueue := by
    intro t x
    simp [binPending, binQueueBytes_append, binQueueBytes]

/-! ## receiver -/

def binStep (P : BinParams) (s : BinRx) (b : UInt8) : BinRx × List Msg := binOnRead P s [b]

/-- before the header is complete the buffer is the scratch buffer; afterwards the frame is incomplete -/
def binInv (P : BinParams) (s : BinRx) : Prop :=
  (s.buf.length < P.hs → s.cap = P.scratch) ∧ (P.hs ≤ s.buf.length → s.buf.length < s.cap)

/-- the room `ReceiveMoreData` computes -/
def binRoom (P : BinParams) (s : BinRx) : Nat := (if s.buf.length < P.hs then P.hs else s.cap) - s.buf.length

theorem binComplete_inv (P : BinParams) (hP : 0 < P.hs) (s : BinRx)
    (h : s.buf.length ≠ s.cap → binInv P s) : binInv P (binComplete P s).1 := by
  unfold binComplete
  split
  · split <;> exact ⟨fun _ => rfl, fun h => by simp at h; omega⟩
  · rename_i hne
    exact h hne

theorem binOnRead_inv (P : BinParams) (hP : 0 < P.hs ∧ P.hs < P.scratch) (s : BinRx) (c : Bytes)
    (hi : binInv P s) (hc : c.length ≤ binRoom P s) : binInv P (binOnRead P s c).1 := by
  obtain ⟨buf, cap, err⟩ := s
  obtain ⟨hi1, hi2⟩ := hi
  simp only [binRoom] at hc
  simp only at hi1 hi2
  unfold binOnRead
  simp only
  by_cases hh : buf.length < P.hs
  · simp only [hh, if_true] at hc ⊢
    have hcap := hi1 hh
    by_cases h2 : (buf ++ c).length < P.hs
    · simp only [h2, if_true]
      exact ⟨fun _ => hcap, fun h => by simp only at h; omega⟩
    · have hlen : (buf ++ c).length = P.hs := by simp at h2 ⊢; omega
      simp only [h2, if_false]
      split
      · exact ⟨fun h => by simp only at h; omega, fun _ => by simp only; omega⟩
      · rename_i bs _
        split
        · exact ⟨fun h => by simp only at h; omega, fun _ => by simp only; omega⟩
        · split
          · apply binComplete_inv P hP.1
            intro hne
            simp only at hne
            exact ⟨fun h => by simp only at h; omega, fun _ => by simp only; omega⟩
          · apply binComplete_inv P hP.1
            intro hne
            have : (List.take P.hs (buf ++ c)).length = P.hs := by rw [List.length_take]; omega
            simp only at hne
            exact ⟨fun h => by simp only at h; omega, fun _ => by simp only; omega⟩
  · simp only [hh, if_false] at hc ⊢
    apply binComplete_inv P hP.1
    intro hne
    simp only [List.length_append] at hne ⊢
    have := hi2 (by omega)
    exact ⟨fun h => by simp only [List.length_append] at h; omega, fun _ => by simp only [List.length_append]; omega⟩

theorem binOnRead_nil (P : BinParams) (s : BinRx) (hi : binInv P s) : binOnRead P s [] = (s, []) := by
  obtain ⟨buf, cap, err⟩ := s
  obtain ⟨_, hi2⟩ := hi
  simp only at hi2
  unfold binOnRead
  simp only [List.append_nil]
  by_cases hh : buf.length < P.hs
  · simp [hh]
  · have := hi2 (by omega)
    have hne : buf.length ≠ cap := by omega
    simp [hh, binComplete, hne]

/-- a chunk of two or more bytes that fits the room: its first byte completes nothing -/
theorem binOnRead_cons (P : BinParams) (s : BinRx) (b b2 : UInt8) (r : Bytes)
    (hc : (b :: b2 :: r).length ≤ binRoom P s) :
    binOnRead P s [b] = ({ s with buf := s.buf ++ [b] }, []) ∧
    binOnRead P s (b :: b2 :: r) = binOnRead P { s with buf := s.buf ++ [b] } (b2 :: r) := by
  obtain ⟨buf, cap, err⟩ := s
  simp only [binRoom, List.length_cons] at hc
  by_cases hh : buf.length < P.hs
  · simp only [hh, if_true] at hc
    have h1 : (buf ++ [b]).length < P.hs := by simp; omega
    constructor
    · unfold binOnRead
      simp only [hh, h1, if_true]
    · unfold binOnRead
      simp only [hh, h1, if_true, List.append_assoc, List.singleton_append]
  · simp only [hh, if_false] at hc
    have h1 : ¬ (buf ++ [b]).length < P.hs := by simp; omega
    have h2 : (buf ++ [b]).length ≠ cap := by simp; omega
    constructor
    · unfold binOnRead
      simp only [hh, if_false, binComplete, h2]
    · unfold binOnRead
      simp only [hh, h1, if_false, List.append_assoc, List.singleton_append]

theorem binRead (P : BinParams) (hP : 0 < P.hs ∧ P.hs < P.scratch) : ∀ (c : Bytes) (s : BinRx),
    binInv P s → c.length ≤ binRoom P s →
    (binOnRead P s c).1 = (feedBy (binStep P) s c).1 ∧ (binOnRead P s c).2 = (feedBy (binStep P) s c).2 := by
  intro c
  induction c with
  | nil => intro s hi _; simp [binOnRead_nil P s hi, feedBy]
  | cons b r ih =>
    intro s hi hc
    cases r with
    | nil => simp [feedBy, binStep]
    | cons b2 r2 =>
      obtain ⟨e1, e2⟩ := binOnRead_cons P s b b2 r2 hc
      have hc1 : [b].length ≤ binRoom P s := by simp only [List.length_cons, List.length_nil] at hc ⊢; omega
      have hi' : binInv P { s with buf := s.buf ++ [b] } := by
        have := binOnRead_inv P hP s [b] hi hc1
        rw [e1] at this
        exact this
      have hroom : (b2 :: r2).length ≤ binRoom P { s with buf := s.buf ++ [b] } := by
        obtain ⟨buf, cap, err⟩ := s
        simp only [binRoom, List.length_cons, List.length_append, List.length_nil] at hc ⊢
        by_cases hh : buf.length < P.hs
        · simp only [hh, if_true] at hc
          have : buf.length + (0 + 1) < P.hs := by omega
          simp only [this, if_true]; omega
        · simp only [hh, if_false] at hc
          have : ¬ buf.length + (0 + 1) < P.hs := by omega
          simp only [this, if_false]; omega
      obtain ⟨i1, i2⟩ := ih { s with buf := s.buf ++ [b] } hi' hroom
      rw [e2]
      simp only [feedBy, binStep, e1, List.nil_append]
      exact ⟨i1, i2⟩

theorem binRx_refines (P : BinParams) (hP : 0 < P.hs ∧ P.hs < P.scratch) :
    RxRefines (binRx P) (binStep P) id (binInv P) (fun _ => True) where
  proj_nil := rfl
  proj_append := by intro a b; rfl
  read := by
    intro s c mb hi hc _
    have hroom : c.length ≤ binRoom P s := by
      simp only [binRx, binAttempt] at hc
      by_cases he : s.err
      · simp [he] at hc; simp [hc]
      · simp only [he] at hc
        simp only [binRoom]
        have : c.length ≤ min mb ((if s.buf.length < P.hs then P.hs else s.cap) - s.buf.length) := by simpa using hc
        omega
    obtain ⟨h1, h2⟩ := binRead P hP c s hi hroom
    exact ⟨h1, h2, binOnRead_inv P hP s c hi hroom⟩

end Muscle.Gateway
