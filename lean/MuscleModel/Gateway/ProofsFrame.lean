import MuscleModel.Gateway.ProofsBinary
import MuscleModel.Props.C01

set_option linter.unusedSimpArgs false
set_option linter.unusedVariables false

/-! The frame round trip of the binary gateway: feeding `frame m` (8-byte header, then the flattened
Message) to the receiver — byte by byte, hence by `binRx_refines` in ANY segmentation — delivers exactly
`tripMsg m` and returns the receiver to its initial state.  Uses C01 (`decode (encode m) = tripMsg m`). -/

namespace Muscle.Gateway
open Muscle Muscle.Wire Muscle.Gen

structure BinParams.OK (P : BinParams) : Prop where
  hs8 : P.hs = 8
  scratch : 8 < P.scratch

/-- Messages the link is specified for: C01's well-formedness, within the nesting limit, within the
    receiver's size limit and the 32-bit length field -/
def frameOK (P : BinParams) (m : Msg) : Prop :=
  wfMsg m ∧ depthMsg m ≤ P.mx ∧ (encode m).length ≤ P.maxIn ∧ 8 + (encode m).length < 4294967296

theorem leVal_le32 (n : Nat) (h : n < 4294967296) : leVal (le32 n) = n :=
  leVal_leN 4 n (by simpa using h)

theorem hdr_take (a b : Nat) (x : Bytes) : (le32 a ++ (le32 b ++ x)).take 4 = le32 a :=
  List.take_left' (by simp)

theorem hdr_drop_take (a b : Nat) (x : Bytes) : ((le32 a ++ (le32 b ++ x)).drop 4).take 4 = le32 b := by
  rw [List.drop_left' (by simp)]
  exact List.take_left' (by simp)

theorem hdr_drop8 (a b : Nat) (x : Bytes) : (le32 a ++ (le32 b ++ x)).drop 8 = x := by
  have : le32 a ++ (le32 b ++ x) = (le32 a ++ le32 b) ++ x := by simp
  rw [this]
  exact List.drop_left' (by simp)

theorem encode_length_pos (m : Msg) : 12 ≤ (encode m).length := by
  cases m with
  | mk w fs => simp [encode, encMsg]; omega

theorem encDefault_lt : encodingDefault < 4294967296 := by decide
theorem encDefault_range : encodingDefault ≤ encodingDefault ∧ encodingDefault < encodingEndMarker := by decide

/-- state after the 8 header bytes of `frame m` -/
def afterHeader (m : Msg) : BinRx :=
  { buf := le32 (encode m).length ++ le32 encodingDefault, cap := 8 + (encode m).length, err := false }

theorem hdr_bodySize (n : Nat) (hl32 : n < 4294967296) :
    bodySizeOf (le32 n ++ le32 encodingDefault) = some n := by
  have h1 := hdr_take n encodingDefault []
  have h2 := hdr_drop_take n encodingDefault []
  simp only [List.append_nil] at h1 h2
  simp only [bodySizeOf, h1, h2, leVal_le32 _ hl32, leVal_le32 _ encDefault_lt]
  have := encDefault_range
  simp only [this.1, this.2, and_self, if_true]

/-- header phase, symbolic: the chunk completes a valid header of a non-empty body -/
theorem binOnRead_hdr (P : BinParams) (s : BinRx) (c : Bytes) (bs : Nat)
    (h1 : s.buf.length < P.hs) (h2 : ¬ (s.buf ++ c).length < P.hs) (hb : bodySizeOf (s.buf ++ c) = some bs)
    (hc : ¬ (P.maxIn < bs ∨ 4294967296 ≤ P.hs + bs)) (hne : ¬ (s.buf ++ c).length = P.hs + bs)
    (htake : (s.buf ++ c).take P.hs = s.buf ++ c) :
    binOnRead P s c = ({ buf := s.buf ++ c, cap := P.hs + bs, err := false }, []) := by
  unfold binOnRead
  simp only [h1, h2, hb, hc, if_true, if_false]
  split <;> simp only [binComplete, htake, hne, if_false]

/-- body phase, symbolic: the chunk fills the buffer -/
theorem binOnRead_body (P : BinParams) (s : BinRx) (c : Bytes) (m : Msg)
    (h1 : ¬ s.buf.length < P.hs) (hfull : (s.buf ++ c).length = s.cap) (hu : unframe P (s.buf ++ c) = some m) :
    binOnRead P s c = ({ buf := [], cap := P.scratch, err := false }, [m]) := by
  unfold binOnRead
  simp only [h1, if_false, binComplete, hfull, if_true, hu]

theorem onRead_header (P : BinParams) (hP : P.OK) (m : Msg) (hm : frameOK P m) :
    binOnRead P (binInitRx P) (le32 (encode m).length ++ le32 encodingDefault) = (afterHeader m, []) := by
  obtain ⟨_, _, hmax, h32⟩ := hm
  have hlen := encode_length_pos m
  have hbody := hdr_bodySize (encode m).length (by omega)
  have hl8 : (le32 (encode m).length ++ le32 encodingDefault).length = 8 := by simp
  have hs8 := hP.hs8
  have e := binOnRead_hdr P (binInitRx P) (le32 (encode m).length ++ le32 encodingDefault) (encode m).length
    (by show ([] : Bytes).length < P.hs; rw [hs8]; exact Nat.zero_lt_succ 7)
    (by show ¬ (([] : Bytes) ++ _).length < P.hs; rw [List.nil_append, hl8, hs8]; omega)
    (by show bodySizeOf (([] : Bytes) ++ _) = _; rw [List.nil_append]; exact hbody)
    (by rw [hs8]; omega)
    (by show ¬ (([] : Bytes) ++ _).length = _; rw [List.nil_append, hl8, hs8]; omega)
    (by show (([] : Bytes) ++ _).take P.hs = ([] : Bytes) ++ _; rw [List.nil_append]; exact List.take_of_length_le (by rw [hl8, hs8]; omega))
  rw [e]
  show ({ buf := ([] : Bytes) ++ _, cap := P.hs + _, err := false }, []) = (afterHeader m, [])
  rw [List.nil_append, hs8]
  rfl

theorem onRead_body (P : BinParams) (hP : P.OK) (m : Msg) (hm : frameOK P m) :
    binOnRead P (afterHeader m) (encode m) = (binInitRx P, [tripMsg m]) := by
  obtain ⟨hwf, hd, _, _⟩ := hm
  have hdec := Muscle.Props.C01.decode_encode P.mx m hwf hd
  have h2 := hdr_drop_take (encode m).length encodingDefault (encode m)
  have h3 := hdr_drop8 (encode m).length encodingDefault (encode m)
  have hs8 := hP.hs8
  have hl8 : (le32 (encode m).length ++ le32 encodingDefault).length = 8 := by simp
  have hu : unframe P ((le32 (encode m).length ++ le32 encodingDefault) ++ encode m) = some (tripMsg m) := by
    rw [List.append_assoc]
    unfold unframe
    simp only [h2, leVal_le32 _ encDefault_lt, if_true]
    rw [hs8, h3]
    exact hdec
  have e := binOnRead_body P (afterHeader m) (encode m) (tripMsg m)
    (by show ¬ (le32 (encode m).length ++ le32 encodingDefault).length < P.hs; rw [hl8, hs8]; omega)
    (by show ((le32 (encode m).length ++ le32 encodingDefault) ++ encode m).length = 8 + (encode m).length
        rw [List.length_append, hl8])
    hu
  rw [e]
  rfl

theorem bin_frame_roundtrip (P : BinParams) (hP : P.OK) (m : Msg) (hm : frameOK P m) (rest : Bytes) :
    feedBy (binStep P) (binInitRx P) (frame m ++ rest) =
      ((feedBy (binStep P) (binInitRx P) rest).1, tripMsg m :: (feedBy (binStep P) (binInitRx P) rest).2) := by
  have hP' : 0 < P.hs ∧ P.hs < P.scratch := by rw [hP.hs8]; exact ⟨by omega, hP.scratch⟩
  have hinit : binInv P (binInitRx P) := by
    constructor
    · intro _; rfl
    · intro h; simp [binInitRx, hP.hs8] at h
  -- header
  have hroom1 : (le32 (encode m).length ++ le32 encodingDefault).length ≤ binRoom P (binInitRx P) := by
    simp [binRoom, binInitRx, hP.hs8]
  obtain ⟨a1, a2⟩ := binRead P hP' _ _ hinit hroom1
  rw [onRead_header P hP m hm] at a1 a2
  -- body
  have hinv2 : binInv P (afterHeader m) := by
    have := binOnRead_inv P hP' _ _ hinit hroom1
    rw [onRead_header P hP m hm] at this
    exact this
  have hroom2 : (encode m).length ≤ binRoom P (afterHeader m) := by
    simp [binRoom, afterHeader, hP.hs8]
  obtain ⟨b1, b2⟩ := binRead P hP' _ _ hinv2 hroom2
  rw [onRead_body P hP m hm] at b1 b2
  have hsplit : frame m ++ rest = (le32 (encode m).length ++ le32 encodingDefault) ++ (encode m ++ rest) := by
    simp [frame]
  rw [hsplit, feedBy_append, ← a1, ← a2, feedBy_append, ← b1, ← b2]
  simp

/-- a whole queue of frames, back to back -/
theorem bin_stream_roundtrip (P : BinParams) (hP : P.OK) : ∀ (ms : List Msg), (∀ m ∈ ms, frameOK P m) →
    feedBy (binStep P) (binInitRx P) (streamOf frame ms) = (binInitRx P, ms.map tripMsg) := by
  intro ms
  induction ms with
  | nil => intro _; simp [streamOf, feedBy]
  | cons m r ih =>
    intro h
    simp only [streamOf]
    rw [bin_frame_roundtrip P hP m (h m (by simp)), ih (fun x hx => h x (by simp [hx]))]
    simp

end Muscle.Gateway
