import MuscleModel.Gateway.ProofsBinary
import MuscleModel.Props.C01

set_option linter.unusedSimpArgs false
set_option linter.unusedVariables false

/-! The frame round trip of the binary gateway: feeding a frame (8-byte header, then the body) to the
receiver — byte by byte, hence by `binRx_refines` in ANY segmentation — delivers exactly the Message
the body stands for and returns the receiver to its initial state.  Plain frames: C01
(`decode (encode m) = tripMsg m`).  zlib-flagged frames: the codec is an opaque pair of functions of
which only `inflate (deflate x) = x` is assumed (`CodecOK`). -/

namespace Muscle.Gateway
open Muscle Muscle.Wire Muscle.Gen

structure BinParams.OK (P : BinParams) : Prop where
  hs8 : P.hs = 8
  scratch : 8 < P.scratch

/-- the only thing assumed of zlib: what `Deflate` at level 1..9 produces, `Inflate` (selected by the encoding id) restores -/
def CodecOK (P : BinParams) : Prop :=
  ∀ (lvl : Nat) (x : Bytes), 1 ≤ lvl → lvl ≤ 9 → P.inflate (encodingDefault + lvl) (P.deflate lvl x) = some x

/-- the body `frameZ` sends -/
def bodyZ (P : BinParams) (lvl : Nat) (m : Msg) : Bytes :=
  if lvl ≠ 0 ∧ 32 ≤ P.hs + (encode m).length then P.deflate lvl (encode m) else encode m

/-- Messages the link is specified for: C01's well-formedness, within the nesting limit; the body as sent is
    non-empty, within the receiver's size limit and the 32-bit length field -/
def frameOKZ (P : BinParams) (lvl : Nat) (m : Msg) : Prop :=
  wfMsg m ∧ depthMsg m ≤ P.mx ∧ 0 < (bodyZ P lvl m).length ∧ (bodyZ P lvl m).length ≤ P.maxIn ∧
    8 + (bodyZ P lvl m).length < 4294967296

/-- …for the default encoding -/
def frameOK (P : BinParams) (m : Msg) : Prop :=
  wfMsg m ∧ depthMsg m ≤ P.mx ∧ (encode m).length ≤ P.maxIn ∧ 8 + (encode m).length < 4294967296

theorem leVal_le32 (n : Nat) (h : n < 4294967296) : leVal (le32 n) = n :=
  leVal_leN 4 n (by simpa using h)

theorem hdr_take (a b : Nat) (x : Bytes) : (le32 a ++ (le32 b ++ x)).take 4 = le32 a :=
  List.take_left' (by simp)

theorem hdr_drop_take (a b : Nat) (x : Bytes) : ((le32 a ++ (le32 b ++ x)).drop 4).take 4 = le32 b := by
  rw [List.drop_left' (by simp)]
  exact List.take_left' (by simp)

theorem hdr_drop8 (a b : Nat) (x : Bytes) : (le32 a ++ (le32 b ++ x)).drop 8 = x := by
  have : le32 a ++ (le32 b ++ x) = (le32 a ++ le32 b) ++ x := by simp
  rw [this]
  exact List.drop_left' (by simp)

theorem encode_length_pos (m : Msg) : 12 ≤ (encode m).length := by
  cases m with
  | mk w fs => simp [encode, encMsg]; omega

theorem encDefault_lt : encodingDefault < 4294967296 := by decide
theorem encEnd_lt : encodingEndMarker < 4294967296 := by decide
theorem encEnd_eq : encodingEndMarker = encodingDefault + 10 := by decide

/-- a valid encoding id: `MUSCLE_MESSAGE_ENCODING_DEFAULT ≤ e < MUSCLE_MESSAGE_ENCODING_END_MARKER` -/
def encValid (e : Nat) : Prop := encodingDefault ≤ e ∧ e < encodingEndMarker

theorem hdr_bodySize (n e : Nat) (hl32 : n < 4294967296) (he : encValid e) :
    bodySizeOf (le32 n ++ le32 e) = some n := by
  have h1 := hdr_take n e []
  have h2 := hdr_drop_take n e []
  have he32 : e < 4294967296 := Nat.lt_trans he.2 encEnd_lt
  simp only [List.append_nil] at h1 h2
  simp only [bodySizeOf, h1, h2, leVal_le32 _ hl32, leVal_le32 _ he32]
  simp only [he.1, he.2, and_self, if_true]

/-- state after the 8 header bytes of `frameOf e body` -/
def afterHeader (e : Nat) (body : Bytes) : BinRx :=
  { buf := le32 body.length ++ le32 e, cap := 8 + body.length, err := false }

/-- header phase, symbolic: the chunk completes a valid header of a non-empty body -/
theorem binOnRead_hdr (P : BinParams) (s : BinRx) (c : Bytes) (bs : Nat)
    (h1 : s.buf.length < P.hs) (h2 : ¬ (s.buf ++ c).length < P.hs) (hb : bodySizeOf (s.buf ++ c) = some bs)
    (hc : ¬ (P.maxIn < bs ∨ 4294967296 ≤ P.hs + bs)) (hne : ¬ (s.buf ++ c).length = P.hs + bs)
    (htake : (s.buf ++ c).take P.hs = s.buf ++ c) :
    binOnRead P s c = ({ buf := s.buf ++ c, cap := P.hs + bs, err := false }, []) := by
  unfold binOnRead
  simp only [h1, h2, hb, hc, if_true, if_false]
  split <;> simp only [binComplete, htake, hne, if_false]

/-- body phase, symbolic: the chunk fills the buffer -/
theorem binOnRead_body (P : BinParams) (s : BinRx) (c : Bytes) (m : Msg)
    (h1 : ¬ s.buf.length < P.hs) (hfull : (s.buf ++ c).length = s.cap) (hu : unframe P (s.buf ++ c) = some m) :
    binOnRead P s c = ({ buf := [], cap := P.scratch, err := false }, [m]) := by
  unfold binOnRead
  simp only [h1, if_false, binComplete, hfull, if_true, hu]

theorem onRead_header (P : BinParams) (hP : P.OK) (e : Nat) (body : Bytes) (he : encValid e)
    (hpos : 0 < body.length) (hmax : body.length ≤ P.maxIn) (h32 : 8 + body.length < 4294967296) :
    binOnRead P (binInitRx P) (le32 body.length ++ le32 e) = (afterHeader e body, []) := by
  have hbody := hdr_bodySize body.length e (by omega) he
  have hl8 : (le32 body.length ++ le32 e).length = 8 := by simp
  have hs8 := hP.hs8
  have e1 := binOnRead_hdr P (binInitRx P) (le32 body.length ++ le32 e) body.length
    (by show ([] : Bytes).length < P.hs; rw [hs8]; exact Nat.zero_lt_succ 7)
    (by show ¬ (([] : Bytes) ++ _).length < P.hs; rw [List.nil_append, hl8, hs8]; omega)
    (by show bodySizeOf (([] : Bytes) ++ _) = _; rw [List.nil_append]; exact hbody)
    (by rw [hs8]; omega)
    (by show ¬ (([] : Bytes) ++ _).length = _; rw [List.nil_append, hl8, hs8]; omega)
    (by show (([] : Bytes) ++ _).take P.hs = ([] : Bytes) ++ _; rw [List.nil_append]; exact List.take_of_length_le (by rw [hl8, hs8]; omega))
  rw [e1]
  show ({ buf := ([] : Bytes) ++ _, cap := P.hs + _, err := false }, []) = (afterHeader e body, [])
  rw [List.nil_append, hs8]
  rfl

/-- what `UnflattenHeaderAndMessage` makes of a complete frame -/
theorem unframe_frameOf (P : BinParams) (hP : P.OK) (e : Nat) (body : Bytes) (he : e < 4294967296) :
    unframe P (frameOf e body) =
      if e = encodingDefault then decode P.mx body
      else match P.inflate e body with
        | some raw => decode P.mx raw
        | none => none := by
  have h2 := hdr_drop_take body.length e body
  have h3 := hdr_drop8 body.length e body
  unfold unframe frameOf
  simp only [h2, leVal_le32 _ he, hP.hs8, h3]
  rfl

theorem onRead_body (P : BinParams) (hP : P.OK) (e : Nat) (body : Bytes) (m : Msg)
    (hu : unframe P (frameOf e body) = some m) :
    binOnRead P (afterHeader e body) body = (binInitRx P, [m]) := by
  have hs8 := hP.hs8
  have hl8 : (le32 body.length ++ le32 e).length = 8 := by simp
  have hu' : unframe P ((le32 body.length ++ le32 e) ++ body) = some m := by
    rw [List.append_assoc]; exact hu
  have e1 := binOnRead_body P (afterHeader e body) body m
    (by show ¬ (le32 body.length ++ le32 e).length < P.hs; rw [hl8, hs8]; omega)
    (by show ((le32 body.length ++ le32 e) ++ body).length = 8 + body.length
        rw [List.length_append, hl8])
    hu'
  rw [e1]
  rfl

/-- any frame whose body the parser accepts as `m`: fed byte by byte it delivers `m` and leaves the receiver idle -/
theorem bin_frameOf_roundtrip (P : BinParams) (hP : P.OK) (e : Nat) (body : Bytes) (m : Msg) (he : encValid e)
    (hpos : 0 < body.length) (hmax : body.length ≤ P.maxIn) (h32 : 8 + body.length < 4294967296)
    (hu : unframe P (frameOf e body) = some m) (rest : Bytes) :
    feedBy (binStep P) (binInitRx P) (frameOf e body ++ rest) =
      ((feedBy (binStep P) (binInitRx P) rest).1, m :: (feedBy (binStep P) (binInitRx P) rest).2) := by
  have hP' : 0 < P.hs ∧ P.hs < P.scratch := by rw [hP.hs8]; exact ⟨by omega, hP.scratch⟩
  have hinit : binInv P (binInitRx P) := by
    constructor
    · intro _; rfl
    · intro h; simp [binInitRx, hP.hs8] at h
  have hroom1 : (le32 body.length ++ le32 e).length ≤ binRoom P (binInitRx P) := by
    simp [binRoom, binInitRx, hP.hs8]
  obtain ⟨a1, a2⟩ := binRead P hP' _ _ hinit hroom1
  rw [onRead_header P hP e body he hpos hmax h32] at a1 a2
  have hinv2 : binInv P (afterHeader e body) := by
    have := binOnRead_inv P hP' _ _ hinit hroom1
    rw [onRead_header P hP e body he hpos hmax h32] at this
    exact this
  have hroom2 : body.length ≤ binRoom P (afterHeader e body) := by
    simp [binRoom, afterHeader, hP.hs8]
  obtain ⟨b1, b2⟩ := binRead P hP' _ _ hinv2 hroom2
  rw [onRead_body P hP e body m hu] at b1 b2
  have hsplit : frameOf e body ++ rest = (le32 body.length ++ le32 e) ++ (body ++ rest) := by
    simp [frameOf]
  rw [hsplit, feedBy_append, ← a1, ← a2, feedBy_append, ← b1, ← b2]
  simp

theorem encValid_default : encValid encodingDefault := by unfold encValid; decide

theorem encValid_level (lvl : Nat) (h : lvl ≤ 9) : encValid (encodingDefault + lvl) := by
  unfold encValid; rw [encEnd_eq]; omega

/-- plain frame -/
theorem bin_frame_roundtrip (P : BinParams) (hP : P.OK) (m : Msg) (hm : frameOK P m) (rest : Bytes) :
    feedBy (binStep P) (binInitRx P) (frame m ++ rest) =
      ((feedBy (binStep P) (binInitRx P) rest).1, tripMsg m :: (feedBy (binStep P) (binInitRx P) rest).2) := by
  obtain ⟨hwf, hd, hmax, h32⟩ := hm
  have hlen := encode_length_pos m
  have hu : unframe P (frameOf encodingDefault (encode m)) = some (tripMsg m) := by
    rw [unframe_frameOf P hP _ _ encDefault_lt]
    simp only [if_true]
    exact Muscle.Props.C01.decode_encode P.mx m hwf hd
  exact bin_frameOf_roundtrip P hP encodingDefault (encode m) (tripMsg m) encValid_default (by omega) hmax h32 hu rest

/-- the frame `FlattenHeaderAndMessage` builds for outgoing level `lvl` (0 = default, 1..9 = zlib), compressed or not -/
theorem bin_frameZ_roundtrip (P : BinParams) (hP : P.OK) (hC : CodecOK P) (lvl : Nat) (hl : lvl ≤ 9) (m : Msg)
    (hm : frameOKZ P lvl m) (rest : Bytes) :
    feedBy (binStep P) (binInitRx P) (frameZ P lvl m ++ rest) =
      ((feedBy (binStep P) (binInitRx P) rest).1, tripMsg m :: (feedBy (binStep P) (binInitRx P) rest).2) := by
  obtain ⟨hwf, hd, hpos, hmax, h32⟩ := hm
  have hdec := Muscle.Props.C01.decode_encode P.mx m hwf hd
  by_cases hz : lvl ≠ 0 ∧ 32 ≤ P.hs + (encode m).length
  · have hb : bodyZ P lvl m = P.deflate lvl (encode m) := by unfold bodyZ; rw [if_pos hz]
    have hf : frameZ P lvl m = frameOf (encodingDefault + lvl) (P.deflate lvl (encode m)) := by unfold frameZ; rw [if_pos hz]
    rw [hb] at hpos hmax h32
    have he := encValid_level lvl hl
    have hne : ¬ (encodingDefault + lvl = encodingDefault) := by omega
    have hu : unframe P (frameOf (encodingDefault + lvl) (P.deflate lvl (encode m))) = some (tripMsg m) := by
      rw [unframe_frameOf P hP _ _ (Nat.lt_trans he.2 encEnd_lt)]
      simp only [hne, if_false, hC lvl (encode m) (by omega) hl]
      exact hdec
    rw [hf]
    exact bin_frameOf_roundtrip P hP _ _ (tripMsg m) he hpos hmax h32 hu rest
  · have hb : bodyZ P lvl m = encode m := by unfold bodyZ; rw [if_neg hz]
    have hf : frameZ P lvl m = frame m := by unfold frameZ; rw [if_neg hz]
    rw [hb] at hpos hmax h32
    rw [hf]
    exact bin_frame_roundtrip P hP m ⟨hwf, hd, hmax, h32⟩ rest

/-- a whole queue of frames, back to back -/
theorem bin_stream_roundtrip (P : BinParams) (hP : P.OK) (hC : CodecOK P) (lvl : Nat) (hl : lvl ≤ 9) :
    ∀ (ms : List Msg), (∀ m ∈ ms, frameOKZ P lvl m) →
    feedBy (binStep P) (binInitRx P) (streamOf (frameZ P lvl) ms) = (binInitRx P, ms.map tripMsg) := by
  intro ms
  induction ms with
  | nil => intro _; simp [streamOf, feedBy]
  | cons m r ih =>
    intro h
    simp only [streamOf]
    rw [bin_frameZ_roundtrip P hP hC lvl hl m (h m (by simp)), ih (fun x hx => h x (by simp [hx]))]
    simp

end Muscle.Gateway
