import MuscleModel.Base.Bytes

/-!
# Stream gateways over a scheduled transport (generic part)

A transport is a byte queue.  One `DoOutput(maxBytes)` / `DoInput(maxBytes)` call comes with its
*grants*: for each `Write`/`Read` the call performs, the number of bytes the transport accepts /
returns (0 = would block); `none` = every transfer gets all it asks for.  A zero-size `Read`/`Write`
transfers nothing and consumes no grant (the harness' `ScheduledDataIO` does the same).

* `RxM` — a receiver as the real code sees it: how many bytes the next `Read` asks for, what one
  `Read` result does to the state, whether the call loops.  `rxCall` is the call loop
  (`MessageIOGateway::DoInputImplementation` + `ReceiveMoreData`, `PlainTextMessageIOGateway::
  DoInputImplementation`, `RawDataMessageIOGateway::DoInputImplementation`).
* `TxM` — a sender (`DoOutputImplementation` + `SendMoreData` and the text/raw equivalents).
* `Sys` — sender, transport queue, receiver, delivered units; `Ev` — queue a unit, one output call,
  one input call; `run` — any interleaving of these.
-/

namespace Muscle.Gateway
open Muscle

structure Call where
  maxBytes : Nat
  grants : Option (List Nat)

/-- the grant of the next transfer and the grants that remain -/
def nextGrant : Option (List Nat) → Nat → Nat × Option (List Nat)
  | none, want => (want, none)
  | some [], _ => (0, some [])
  | some (k :: ks), _ => (k, some ks)

/-- loop bound of one call: every round that continues has consumed a grant (or, with unlimited
    grants, at least one byte / one queued item) -/
def callFuel (g : Option (List Nat)) (unl : Nat) : Nat :=
  match g with
  | none => unl + 2
  | some gs => gs.length + 2

/-! ## receivers -/

structure RxM (σ υ : Type) where
  /-- size of the next `Read`, given the state and what is left of `maxBytes` (0 = the call ends) -/
  attempt : σ → Nat → Nat
  /-- state after a `Read` returned these bytes, and the units handed to the callback -/
  onRead : σ → Bytes → σ × List υ
  /-- does the call go round again?  (new state, attempted size, bytes obtained) -/
  again : σ → Nat → Nat → Bool

def rxLoop {σ υ} (R : RxM σ υ) : Nat → σ → Nat → Option (List Nat) → Bytes → List υ → σ × Bytes × List υ
  | 0, s, _, _, q, acc => (s, q, acc)
  | fuel+1, s, mb, g, q, acc =>
    let a := R.attempt s mb
    if a = 0 then (s, q, acc) else
    let kg := nextGrant g a
    let n := min a (min kg.1 q.length)
    let r := R.onRead s (q.take n)
    if R.again r.1 a n then rxLoop R fuel r.1 (mb - n) kg.2 (q.drop n) (acc ++ r.2)
    else (r.1, q.drop n, acc ++ r.2)

/-- one `DoInput(maxBytes)` call: new state, what is left in the transport, units delivered -/
def rxCall {σ υ} (R : RxM σ υ) (s : σ) (c : Call) (q : Bytes) : σ × Bytes × List υ :=
  rxLoop R (callFuel c.grants q.length) s c.maxBytes c.grants q []

/-! ## senders -/

structure TxM (τ : Type) where
  /-- `true`: the call returns before touching the queue when `maxBytes = 0` (`while(maxBytes > 0)`) -/
  zeroStops : Bool
  /-- make the next buffer current: pop the next Message / load its next chunk.  `true` = an exhausted
      Message was dropped instead, which costs one round (one recursion in the text and raw senders) -/
  settle : τ → τ × Bool
  /-- unsent rest of the current buffer -/
  cur : τ → Bytes
  /-- the transport accepted `n` bytes -/
  advance : τ → Nat → τ
  /-- does the call go round again?  (attempted size, bytes accepted) -/
  again : Nat → Nat → Bool

def txLoop {τ} (T : TxM τ) : Nat → τ → Nat → Option (List Nat) → Bytes → τ × Bytes
  | 0, t, _, _, q => (t, q)
  | fuel+1, t, mb, g, q =>
    if T.zeroStops && mb == 0 then (t, q) else
    let td := T.settle t
    if td.2 then txLoop T fuel td.1 mb g q else
    let a := min mb (T.cur td.1).length
    if a = 0 then (td.1, q) else
    let kg := nextGrant g a
    let n := min a kg.1
    let t' := T.advance td.1 n
    let q' := q ++ (T.cur td.1).take n
    if T.again a n then txLoop T fuel t' (mb - n) kg.2 q' else (t', q')

/-- a receiver alone: a list of `DoInput` calls on a transport that already holds the bytes -/
def rxCalls {σ υ} (R : RxM σ υ) : σ → List Call → Bytes → List υ → σ × Bytes × List υ
  | s, [], q, acc => (s, q, acc)
  | s, c :: cs, q, acc =>
    let r := rxCall R s c q
    rxCalls R r.1 cs r.2.1 (acc ++ r.2.2)

/-- a sender alone: a list of `DoOutput` calls; the transport collects what is written -/
def txCalls {τ} (T : TxM τ) (fuel : τ → Call → Nat) : τ → List Call → Bytes → τ × Bytes
  | t, [], q => (t, q)
  | t, c :: cs, q =>
    let r := txLoop T (fuel t c) t c.maxBytes c.grants q
    txCalls T fuel r.1 cs r.2

/-! ## the system: any interleaving of queueing, output calls and input calls -/

structure Gw (τ σ ι υ : Type) where
  tx : TxM τ
  rx : RxM σ υ
  /-- `AddOutgoingMessage` -/
  enqueue : τ → ι → τ
  /-- loop bound of one output call (1024 for the text sender's recursion limit; otherwise "enough") -/
  txFuel : τ → Call → Nat
  /-- `HasBytesToOutput` -/
  hasOut : τ → Bool

structure Sys (τ σ υ : Type) where
  t : τ
  q : Bytes
  r : σ
  out : List υ

inductive Ev (ι : Type) where
  | add (x : ι)
  | output (c : Call)
  | input (c : Call)

def stepSys {τ σ ι υ} (G : Gw τ σ ι υ) (s : Sys τ σ υ) : Ev ι → Sys τ σ υ
  | .add x => { s with t := G.enqueue s.t x }
  | .output c =>
    let r := txLoop G.tx (G.txFuel s.t c) s.t c.maxBytes c.grants s.q
    { s with t := r.1, q := r.2 }
  | .input c =>
    let r := rxCall G.rx s.r c s.q
    { s with r := r.1, q := r.2.1, out := s.out ++ r.2.2 }

def run {τ σ ι υ} (G : Gw τ σ ι υ) (s : Sys τ σ υ) (evs : List (Ev ι)) : Sys τ σ υ :=
  evs.foldl (stepSys G) s

end Muscle.Gateway
