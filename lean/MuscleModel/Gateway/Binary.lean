import MuscleModel.Gateway.Stream
import MuscleModel.Wire.Decode

/-!
# `MessageIOGateway` (default encoding) over a stream transport

Frame = 8-byte header {body length, encoding id}, little-endian, then the flattened Message.
Sender: `DoOutputImplementation` + `SendMoreData`.  Receiver: `DoInputImplementation` +
`ReceiveMoreData` + `GetBodySize` + `UnflattenHeaderAndMessage`, including the scratch-buffer
branch: a frame whose body fits the scratch buffer is received in place (the buffer is truncated
to header+body), a bigger one gets a new buffer into which the header bytes are copied.

`P.hs`, `P.scratch`, `P.maxIn`, `P.mx` are the compiled values of `GetHeaderSize()`, the scratch
buffer size, `_maxIncomingMessageSize` and `MUSCLE_MAX_MESSAGE_NESTING_DEPTH` (parameters: the
theorems hold for all values with `8 ≤ hs ≤ scratch`).  `P.deflate`/`P.inflate` stand for zlib (an opaque
pair of functions; the theorems assume only `inflate (deflate x) = x`): the body of a frame whose encoding id
is one of the zlib ids goes through `inflate` (`none` = error).
-/

namespace Muscle.Gateway
open Muscle Muscle.Wire Muscle.Gen

structure BinParams where
  hs : Nat
  scratch : Nat
  maxIn : Nat
  mx : Nat
  /-- zlib, sending side: compression level 1..9 → flattened Message → what `ZLibCodec::Deflate` returns -/
  deflate : Nat → Bytes → Bytes
  /-- zlib, receiving side: encoding id → frame body → the inflated bytes (`none` = error) -/
  inflate : Nat → Bytes → Option Bytes

/-- header {body length, encoding id} + body -/
def frameOf (enc : Nat) (body : Bytes) : Bytes :=
  le32 body.length ++ (le32 enc ++ body)

/-- `FlattenHeaderAndMessage`, default encoding -/
def frame (m : Msg) : Bytes := frameOf encodingDefault (encode m)

/-- `FlattenHeaderAndMessage` with `_outgoingEncoding = MUSCLE_MESSAGE_ENCODING_DEFAULT + lvl`: a buffer of at least 32 bytes
    (header included) goes through the codec and is flagged with the zlib encoding id, a smaller one is sent plain -/
def frameZ (P : BinParams) (lvl : Nat) (m : Msg) : Bytes :=
  if lvl ≠ 0 ∧ 32 ≤ P.hs + (encode m).length then frameOf (encodingDefault + lvl) (P.deflate lvl (encode m))
  else frame m

structure BinTx where
  cur : Bytes          -- `_sendBuffer`: the bytes from `_offset` on ([] = no buffer)
  queue : List Msg     -- `_outgoingMessages`

/-- top of the `DoOutputImplementation` loop: no buffer ⇒ pop the next Message and flatten it -/
def binSettle (P : BinParams) (lvl : Nat) (t : BinTx) : BinTx × Bool :=
  match t.cur, t.queue with
  | [], m :: r => ({ cur := frameZ P lvl m, queue := r }, false)
  | _, _ => (t, false)

def binTx (P : BinParams) (lvl : Nat) : TxM BinTx where
  zeroStops := true
  settle := binSettle P lvl
  cur := fun t => t.cur
  advance := fun t n => { t with cur := t.cur.drop n }
  again := fun a n => n == a      -- `SendMoreData` returns B_ERROR on a short write

structure BinRx where
  buf : Bytes        -- received so far of the current frame (`length = _recvBuffer._offset`)
  cap : Nat          -- `_recvBuffer._buffer()->GetNumBytes()`
  err : Bool         -- `GetUnrecoverableErrorStatus().IsError()`

/-- `ReceiveMoreData`'s attempt size for the header phase resp. the body phase -/
def binAttempt (P : BinParams) (s : BinRx) (mb : Nat) : Nat :=
  if s.err then 0 else min mb ((if s.buf.length < P.hs then P.hs else s.cap) - s.buf.length)

/-- `GetBodySize` -/
def bodySizeOf (hdr : Bytes) : Option Nat :=
  let enc := leVal ((hdr.drop 4).take 4)
  if encodingDefault ≤ enc ∧ enc < encodingEndMarker then some (leVal (hdr.take 4)) else none

/-- `UnflattenHeaderAndMessage` on a complete buffer -/
def unframe (P : BinParams) (b : Bytes) : Option Msg :=
  let enc := leVal ((b.drop 4).take 4)
  if enc = encodingDefault then decode P.mx (b.drop P.hs)
  else match P.inflate enc (b.drop P.hs) with
    | some raw => decode P.mx raw
    | none => none

/-- the buffer is full ⇒ parse it, hand the Message over, start afresh -/
def binComplete (P : BinParams) (s : BinRx) : BinRx × List Msg :=
  if s.buf.length = s.cap then
    match unframe P s.buf with
    | some m => ({ buf := [], cap := P.scratch, err := false }, [m])
    | none => ({ buf := [], cap := P.scratch, err := true }, [])
  else (s, [])

/-- one `Read` result and the rest of that loop iteration -/
def binOnRead (P : BinParams) (s : BinRx) (c : Bytes) : BinRx × List Msg :=
  let buf := s.buf ++ c
  if s.buf.length < P.hs then
    if buf.length < P.hs then ({ s with buf := buf }, [])
    else
      match bodySizeOf buf with
      | none => ({ s with buf := buf, err := true }, [])
      | some bodySize =>
        if P.maxIn < bodySize ∨ 4294967296 ≤ P.hs + bodySize then ({ s with buf := buf, err := true }, [])
        else if bodySize ≤ s.cap - P.hs then
          binComplete P { buf := buf, cap := P.hs + bodySize, err := false }               -- TruncateToLength
        else
          binComplete P { buf := buf.take P.hs, cap := P.hs + bodySize, err := false }     -- bigger buffer, header copied
  else binComplete P { s with buf := buf }

def binRx (P : BinParams) : RxM BinRx Msg where
  attempt := binAttempt P
  onRead := binOnRead P
  again := fun s a n => n == a && !s.err   -- `ReceiveMoreData` returns B_ERROR on a short read; an error ends the loop

def binGw (P : BinParams) (lvl : Nat) : Gw BinTx BinRx Msg Msg where
  tx := binTx P lvl
  rx := binRx P
  enqueue := fun t m => { t with queue := t.queue ++ [m] }
  txFuel := fun t c => callFuel c.grants (t.queue.length + 1)
  hasOut := fun t => !t.cur.isEmpty || !t.queue.isEmpty

def binInitTx : BinTx := { cur := [], queue := [] }
def binInitRx (P : BinParams) : BinRx := { buf := [], cap := P.scratch, err := false }

end Muscle.Gateway
