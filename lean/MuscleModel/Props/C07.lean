import MuscleModel.Props.C06
import MuscleModel.Engines.Srv
import MuscleModel.Reflector.OrderProofs
import MuscleModel.Reflector.WorkBoundProofs
import MuscleModel.Props.C05Reach

/-!
# C07 — One client's traffic can never hang or crash the server

What a Lean theorem can say here: in the reflector model every command handler is a total function
(accepted by Lean's termination checker: every loop is structural recursion on a list, on the tree, or
on explicit fuel bounded by MUSCLE_MAX_NODE_DEPTH), so "handles each Message in bounded time and keeps
running" holds for the model by construction; and whatever one session does, another session stays
attached with its parameters intact (C06, `frame_sessions_lookup`) and its ping is answered in the very
next step (`witness_pong`).  Wall-clock time, stack depth and crashes of the binary are runtime facts:
they are decided by the correspondence run of engine `srv` with its witness session (`wping` after every
hostile command, a 20 s alarm per op, ASan/UBSan) — this property is claimed *partial*.

The model covers the command subset of `Engines/Srv.lean` (`Cmd`); Messages outside it (arbitrary
what-codes, wrong field types, hostile filter archives, JETTISON* with results queued for a client that
does not read) are decided by the harness oracle alone.
-/

namespace Muscle.Props.C07
open Muscle Muscle.Reflector Muscle.Eng.SrvEngine

/-- A ping is answered at once: the PONG is the last thing in the pinging session's inbox. -/
theorem ping_answered (sv : Server) (sid : Nat) (s : Sess) (tag : Nat) (hs : sv.sess? sid = some s) :
    ∃ s', (runCmd sv sid (.ping tag)).sess? sid = some s' ∧ s'.inbox = s.inbox ++ ["PONG " ++ toString tag] := by
  have key : ∀ (l : List Sess), l.find? (fun s => s.sid = sid) = some s →
      ∃ s', (l.map (fun t => if t.sid = sid then { t with inbox := t.inbox ++ ["PONG " ++ toString tag] } else t)).find?
          (fun s => s.sid = sid) = some s' ∧ s'.inbox = s.inbox ++ ["PONG " ++ toString tag] := by
    intro l
    induction l with
    | nil => intro h; simp at h
    | cons t r ih =>
      intro h
      simp only [List.map_cons, List.find?_cons] at h ⊢
      by_cases ht : t.sid = sid
      · simp only [ht, decide_true] at h
        cases h
        simp [ht]
      · simp only [ht, decide_false] at h
        simp only [ht, if_false, decide_false]
        exact ih h
  simpa [runCmd, Server.deliver, Server.updSess, Server.sess?] using key sv.sessions (by simpa [Server.sess?] using hs)

/-- The witness: whatever command `c` any session `a` has just run, session `b`'s ping is answered. -/
theorem witness_pong (sv : Server) (a b : Nat) (c : Cmd) (t : Sess) (tag : Nat)
    (hb : sv.sess? b = some t) :
    ∃ t', (runCmd (runCmd sv a c) b (.ping tag)).sess? b = some t' ∧
      t'.inbox.getLast? = some ("PONG " ++ toString tag) := by
  obtain ⟨t1, ht1, _⟩ := Muscle.Props.C06.frame_sessions_lookup sv a c b t hb
  obtain ⟨t2, ht2, hin⟩ := ping_answered (runCmd sv a c) b t1 tag ht1
  exact ⟨t2, ht2, by simp [hin]⟩

/-- …and after any history of commands by any sessions. -/
theorem witness_pong_history (sv : Server) (hist : List (Nat × Cmd)) (b : Nat) (t : Sess) (tag : Nat)
    (hb : sv.sess? b = some t) :
    ∃ t', (runCmd (hist.foldl (fun sv p => runCmd sv p.1 p.2) sv) b (.ping tag)).sess? b = some t' ∧
      t'.inbox.getLast? = some ("PONG " ++ toString tag) := by
  have hkeep : ∃ t1, (hist.foldl (fun sv p => runCmd sv p.1 p.2) sv).sess? b = some t1 := by
    induction hist generalizing sv t with
    | nil => exact ⟨t, hb⟩
    | cons p r ih =>
      obtain ⟨t1, ht1, _⟩ := Muscle.Props.C06.frame_sessions_lookup sv p.1 p.2 b t hb
      exact ih (runCmd sv p.1 p.2) t1 ht1
  obtain ⟨t1, ht1⟩ := hkeep
  obtain ⟨t2, ht2, hin⟩ := ping_answered _ b t1 tag ht1
  exact ⟨t2, ht2, by simp [hin]⟩

end Muscle.Props.C07

/-!
# C07, second part — what is queued for a client is never removed or reordered

Lemmas: `Reflector/OrderProofs.lean` (prefix `od_`).  Every theorem holds for EVERY server state.
`OdEv` / `odRunEv` / `odRunEvs` (OrderProofs.lean): histories of events `cmd sid c | push | attach slot host | detach sid`.
-/

namespace Muscle.Props.C07
open Muscle Muscle.Reflector Muscle.Eng.SrvEngine

/-- **Append-only, one command.**  Whatever command any session runs, the session table keeps its length and order,
    and every session's inbox afterwards is its inbox before followed by `extra`: nothing already queued for a
    client is removed or reordered. -/
theorem inbox_append_only (sv : Server) (sid : Nat) (c : Cmd) :
    (runCmd sv sid c).sessions.length = sv.sessions.length ∧
    ∀ (i : Nat) (t : Sess), sv.sessions[i]? = some t →
      ∃ t' extra, (runCmd sv sid c).sessions[i]? = some t' ∧ t'.sid = t.sid ∧ t'.inbox = t.inbox ++ extra := by
  have h := od_runCmd sv sid c
  refine ⟨SessAll₂.length _ _ h, fun i t ht => ?_⟩
  obtain ⟨t', h1, h2, e, h3, _⟩ := SessAll₂.get _ _ h i t ht
  exact ⟨t', e, h1, h2, h3⟩

/-- the same through the lookup by session id -/
theorem inbox_append_only_lookup (sv : Server) (sid : Nat) (c : Cmd) (b : Nat) (t : Sess) (ht : sv.sess? b = some t) :
    ∃ t' extra, (runCmd sv sid c).sess? b = some t' ∧ t'.inbox = t.inbox ++ extra := by
  obtain ⟨t', h1, _, e, h3, _⟩ := od_lookup (od_runCmd sv sid c) b t ht
  exact ⟨t', e, h1, h3⟩

/-- `pushAll` (`PushSubscriptionMessages`) only appends -/
theorem inbox_append_only_push (sv : Server) (b : Nat) (t : Sess) (ht : sv.sess? b = some t) :
    ∃ t' extra, (pushAll sv).sess? b = some t' ∧ t'.inbox = t.inbox ++ extra := by
  obtain ⟨t', h1, _, e, h3, _⟩ := od_lookup (od_pushAll sv) b t ht
  exact ⟨t', e, h1, h3⟩

/-- a new session attaching only appends to the inboxes of the sessions already there -/
theorem inbox_append_only_attach (sv : Server) (slot : Nat) (host : Bytes) (b : Nat) (t : Sess) (ht : sv.sess? b = some t) :
    ∃ t' extra, (attach sv slot host).1.sess? b = some t' ∧ t'.inbox = t.inbox ++ extra := by
  obtain ⟨t', h1, _, e, h3, _⟩ := od_lookup_attach sv slot host b t ht
  exact ⟨t', e, h1, h3⟩

/-- the departure of ANOTHER session only appends -/
theorem inbox_append_only_detach (sv : Server) (x b : Nat) (hb : b ≠ x) (t : Sess) (ht : sv.sess? b = some t) :
    ∃ t' extra, (detach sv x).sess? b = some t' ∧ t'.inbox = t.inbox ++ extra := by
  obtain ⟨t', h1, _, e, h3, _⟩ := od_lookup_detach sv x b hb t ht
  exact ⟨t', e, h1, h3⟩

/-- **Append-only, histories.**  After any history of commands of any sessions, pushes, attaches and departures of
    other sessions, session `b` is still there and its inbox extends the inbox it had. -/
theorem inbox_append_only_history (sv : Server) (evs : List OdEv) (b : Nat) (hb : ∀ e ∈ evs, e ≠ .detach b)
    (t : Sess) (ht : sv.sess? b = some t) :
    ∃ t' extra, (odRunEvs sv evs).sess? b = some t' ∧ t'.inbox = t.inbox ++ extra := by
  obtain ⟨t', h1, _, e, h3, _⟩ := od_lookup_evs evs b hb sv t ht
  exact ⟨t', e, h1, h3⟩

/-- the history form used by `witness_pong_history` (commands only) -/
theorem inbox_append_only_cmds (sv : Server) (hist : List (Nat × Cmd)) (b : Nat) (t : Sess) (ht : sv.sess? b = some t) :
    ∃ t' extra, (hist.foldl (fun sv p => runCmd sv p.1 p.2) sv).sess? b = some t' ∧ t'.inbox = t.inbox ++ extra := by
  have key : ∀ (hist : List (Nat × Cmd)) (sv : Server) (t : Sess), sv.sess? b = some t →
      ∃ t', (hist.foldl (fun sv p => runCmd sv p.1 p.2) sv).sess? b = some t' ∧ InboxExt AnyLine t t' := by
    intro hist
    induction hist with
    | nil => intro sv t ht; exact ⟨t, ht, InboxExt.refl AnyLine t⟩
    | cons p r ih =>
      intro sv t ht
      obtain ⟨t1, h1, e1⟩ := od_lookup (od_runCmd sv p.1 p.2) b t ht
      obtain ⟨t2, h2, e2⟩ := ih (runCmd sv p.1 p.2) t1 h1
      exact ⟨t2, h2, e1.trans e2⟩
  obtain ⟨t', h1, _, e, h3, _⟩ := key hist sv t ht
  exact ⟨t', e, h1, h3⟩

/-! Non-vacuity: a reachable state with two sessions; session 0 broadcasts, session 1 pings, session 0 broadcasts again:
    session 1's inbox only grows. -/
def exOdSv0 : Server := (attach (attach {} 0 [104]).1 1 [104]).1
def exOdEvs : List OdEv := [.cmd 0 (.send 7 []), .cmd 1 (.ping 3), .push, .cmd 0 (.send 8 [])]

example : ∀ e ∈ exOdEvs, e ≠ OdEv.detach 1 := by
  intro e he
  simp only [exOdEvs, List.mem_cons, List.not_mem_nil, or_false] at he
  rcases he with rfl | rfl | rfl | rfl <;> exact fun h => OdEv.noConfusion h
example : (exOdSv0.sess? 1).map (·.inbox) = some [] := by decide
example : ((odRunEvs exOdSv0 exOdEvs).sess? 1).map (·.inbox) =
    some ["MSG 1234 from=0 tag=7", "PONG 3", "MSG 1234 from=0 tag=8"] := by decide

end Muscle.Props.C07


/-!
# C07, third part — bounded work: one traversal records at most one visit per node of the tree

Lemmas: `Reflector/WorkBoundProofs.lean` (prefix `wb_`).  Every data command (`set`, `rm`, `sub`, `unsub`, `ins`, `reorder`, `send`, `find`)
runs the wildcard traversal `doTraversal` (`NodePathMatcher::DoTraversal`, Reflector/Traverse.lean) through `travGlobal` / `travSession`; its
result is the list of recorded visits, and the handlers do one unit of work (one node update, one `deliver`, …) per visit.

PROVED, for EVERY tree (sibling names need not even be distinct), matcher, callback, `useFilters`, root depth and fuel — no hypothesis:
* the number of recorded visits is at most the number of nodes strictly below the traversal root within `fuel` levels,
  `(descendants fuel node []).length`, which is at most `node.size - 1` (`Node.size`: all nodes of the tree, root included).  The bound does
  NOT grow with the number of patterns: `CheckChildForTraversal` hands a child to the callback at most once (`matched`) and descends into
  it at most once (`recursed`) however many entries match it, and the literal-lookup path handles each child name at most once
  (`alreadyDid`).  (With the descent rule as it was before the repair of F27 the same holds: the flags were already there.)
  The bound is attained (`*`, `*/*`, `*/*/*` on a three-level tree: example below), so it is the tightest bound in terms of the tree alone.
* every recorded path has between 1 and `fuel` names: a hostile chain of nodes deeper than `fuelDepth` (110 > MUSCLE_MAX_NODE_DEPTH) is not
  followed; the recursion depth of `travAux` is its fuel by construction (structural recursion on the fuel).
* `send` (one client-to-client Message): when the session ids are pairwise distinct (every reachable state: `session_ids_distinct` of C05,
  Props/C05Reach.lean), all inboxes together (`wbTotal`) grow by at most one line per recorded visit of `route`, i.e. by at most the
  number of nodes below the root, and by at most the number of sessions in the broadcast fallback — one hostile Message enqueues at most
  `max (nodes below the root) (sessions)` copies (C05 sharpens this to one copy per selected session).

* a node found in the tree is no larger than the tree (`getNode_size_le`), so the traversal from a session's own node is bounded by the
  size of the whole tree as well (`travSession_bounded_root`): every traversal a client can trigger records fewer visits than the tree has
  nodes.
* pattern tests per child (`pattern_tests_bounded`): `checkEntriesCost` is the entry loop of `CheckChildForTraversal` with a counter of the
  entries it examines (one clause test each); it computes the same state as `checkEntries`, and the counter is at most the number of
  entries taking part at that level, which is at most `pmNumEntries pm`.
* the TOTAL number of pattern tests of one traversal (`traversal_tests_bounded`): `travAuxC` (WorkBoundProofs.lean) is the whole traversal
  — `checkEntries`, `checkChild`, `travKids`, `lookupElems`, `travLookups`, `travLevel`, `travAux` — returning (result, number of entries
  examined by the entry loops of `CheckChildForTraversal`, the recursive calls included); its result is the real traversal's, and the count
  is at most (nodes below the root within `fuel`) × `pmNumEntries pm`, on the child-iteration path and on the literal-lookup path alike
  (each child is handed to `CheckChildForTraversal` at most once per traversal, and one hand-over examines at most every entry once).
  Attained: one pattern `*/*/*` on the three-level tree (5 tests), and on the literal-lookup path 5 nodes × 2 entries = 10 tests (`#eval`;
  `decide` cannot run literal clauses).  One step of the loop is counted by the condition `descends` (= the step makes the recursive call).
* in every reachable state (`RReach`, ids pairwise distinct by `session_ids_distinct` of C05) the hypothesis of `send_deliveries_bounded` /
  `route_deliveries_bounded` is discharged (`cmd_deliveries_bounded_reach`, `route_deliveries_bounded_reach`).

NOT proved here (stays with the harness: `wping` witness after every hostile command, 20 s alarm per op, ASan/UBSan): wall-clock time; the
cost of one pattern test (`regcomp`/`regexec` for a clause, C15) and of one filter evaluation (C14); the multi-pattern re-check `MatchesNode`
(at most one per child, `pmMatchesPath` over one depth group); memory.
-/

namespace Muscle.Props.C07
open Muscle Muscle.Reflector Muscle.Eng.SrvEngine

/-- **Bounded number of visits.**  Any matcher, callback, tree, root depth, fuel: at most one recorded visit per node strictly below the
    traversal root (within `fuel` levels), hence fewer than `node.size`. -/
theorem traversal_visits_bounded (pm : PM) (useFilters : Bool) (rd : Nat) (cb : Visit → Nat → Node → Bool × Int) (node : Node)
    (fuel : Nat) :
    (doTraversal pm useFilters rd cb node fuel).length ≤ (descendants fuel node []).length ∧
    (descendants fuel node []).length + 1 ≤ node.size := by
  rw [wb_descendants_length]
  exact ⟨(wb_travAux _ fuel node [] rd).1, wb_cnt_lt_size fuel node⟩

/-- the form "nodes × patterns": weaker than `traversal_visits_bounded`, which does not depend on the matcher at all -/
theorem traversal_visits_bounded_entries (pm : PM) (useFilters : Bool) (rd : Nat) (cb : Visit → Nat → Node → Bool × Int) (node : Node)
    (fuel : Nat) :
    (doTraversal pm useFilters rd cb node fuel).length + 1 ≤ node.size * max 1 (pmNumEntries pm) := by
  obtain ⟨h1, h2⟩ := traversal_visits_bounded pm useFilters rd cb node fuel
  have : node.size * 1 ≤ node.size * max 1 (pmNumEntries pm) := Nat.mul_le_mul_left _ (Nat.le_max_left ..)
  omega

/-- once the fuel covers the tree (`fits fuel₀ node`) the bound is the number of nodes below the root, whatever the fuel -/
theorem traversal_visits_bounded_fits (pm : PM) (useFilters : Bool) (rd : Nat) (cb : Visit → Nat → Node → Bool × Int) (node : Node)
    (fuel₀ j : Nat) (hfit : fits fuel₀ node = true) :
    (doTraversal pm useFilters rd cb node (fuel₀ + j)).length ≤ (descendants fuel₀ node []).length := by
  have := (traversal_visits_bounded pm useFilters rd cb node (fuel₀ + j)).1
  rwa [descendants_stable fuel₀ node [] hfit j] at this

/-- **Bounded depth.**  Every recorded path (relative to the traversal root) has at least 1 and at most `fuel` names. -/
theorem traversal_depth_bounded (pm : PM) (useFilters : Bool) (rd : Nat) (cb : Visit → Nat → Node → Bool × Int) (node : Node)
    (fuel : Nat) :
    ∀ v ∈ doTraversal pm useFilters rd cb node fuel, 1 ≤ v.length ∧ v.length ≤ fuel := by
  intro v hv
  obtain ⟨_, h2, h3⟩ := (wb_travAux _ fuel node [] rd).2 v hv
  simp only [List.length_nil] at h2 h3
  omega

/-- the traversal from the global root that `set` (absolute paths), `sub`, `unsub`, `send`, `find` run -/
theorem travGlobal_bounded (sv : Server) (pm : PM) (useFilters : Bool) (cb : Visit → Nat → Node → Bool × Int) :
    (travGlobal sv pm useFilters cb).length ≤ (descendants fuelDepth sv.root []).length ∧
    (travGlobal sv pm useFilters cb).length + 1 ≤ sv.root.size ∧
    ∀ v ∈ travGlobal sv pm useFilters cb, 1 ≤ v.length ∧ v.length ≤ fuelDepth := by
  obtain ⟨h1, h2⟩ := traversal_visits_bounded pm useFilters 0 cb sv.root fuelDepth
  exact ⟨h1, by unfold travGlobal; omega, traversal_depth_bounded pm useFilters 0 cb sv.root fuelDepth⟩

/-- the traversal from a session's own node that `set`, `rm`, `ins`, `reorder`, `find` (relative paths) run: bounded by the session's own
    subtree `n`; the recorded (absolute) paths have between 3 and `2 + fuelDepth` names -/
theorem travSession_bounded (sv : Server) (s : Sess) (pm : PM) (cb : Visit → Nat → Node → Bool × Int) :
    (∀ n, getNode sv (sessNames s) = some n →
      (travSession sv s pm cb).length ≤ (descendants fuelDepth n []).length ∧ (travSession sv s pm cb).length + 1 ≤ n.size) ∧
    (getNode sv (sessNames s) = none → travSession sv s pm cb = []) ∧
    ∀ v ∈ travSession sv s pm cb, 3 ≤ v.length ∧ v.length ≤ 2 + fuelDepth := by
  refine ⟨?_, ?_, ?_⟩
  · intro n hn
    obtain ⟨h1, h2⟩ := traversal_visits_bounded pm true 2 cb n fuelDepth
    unfold travSession
    rw [hn]
    simp only [List.length_map]
    exact ⟨h1, by omega⟩
  · intro hn
    unfold travSession
    rw [hn]
  · intro v hv
    unfold travSession at hv
    split at hv
    · cases hv
    · rename_i n hn
      obtain ⟨v', hv', rfl⟩ := List.mem_map.1 hv
      have := traversal_depth_bounded pm true 2 cb n fuelDepth v' hv'
      simp only [List.length_append, sessNames, List.length_cons, List.length_nil]
      omega

/-- **Deliveries of `route`.**  Session ids pairwise distinct: the lines queued for all clients together grow by at most one per recorded
    visit, hence by at most the number of nodes below the root. -/
theorem route_deliveries_bounded (sv : Server) (sid : Nat) (pm : PM) (what : String) (hnd : (sv.sessions.map (·.sid)).Nodup) :
    wbTotal (route sv sid pm what) ≤ wbTotal sv + (travGlobal sv pm true (fun _ _ _ => (true, 1))).length ∧
    wbTotal (route sv sid pm what) ≤ wbTotal sv + (descendants fuelDepth sv.root []).length ∧
    wbTotal (route sv sid pm what) + 1 ≤ wbTotal sv + sv.root.size := by
  have h := (wb_route sv sid pm what hnd).1
  obtain ⟨b1, b2, _⟩ := travGlobal_bounded sv pm true (fun _ _ _ => (true, 1))
  exact ⟨h, by omega, by omega⟩

/-- **Deliveries of one client-to-client Message**, whichever of the three branches of `sendMsg` it takes (explicit keys, default route,
    broadcast): at most `max (nodes below the root) (sessions)` lines are queued, for all clients together. -/
theorem send_deliveries_bounded (sv : Server) (sid tag : Nat) (keys : List Bytes) (hnd : (sv.sessions.map (·.sid)).Nodup) :
    wbTotal (runCmd sv sid (.send tag keys)) ≤
      wbTotal sv + max (descendants fuelDepth sv.root []).length sv.sessions.length := by
  show wbTotal (sendMsg sv sid tag keys) ≤ _
  have hl := Nat.le_max_left (descendants fuelDepth sv.root []).length sv.sessions.length
  have hr := Nat.le_max_right (descendants fuelDepth sv.root []).length sv.sessions.length
  unfold sendMsg
  split
  · omega
  · simp only []
    split
    · have := (route_deliveries_bounded sv sid (pmOfKeys (keys.map (fun k => (k, none))) (some defaultPrefix))
        ("MSG 1234 from=" ++ toString sid ++ " tag=" ++ toString tag) hnd).2.1
      omega
    · split
      · rename_i s _ _ _
        have := (route_deliveries_bounded sv sid s.route ("MSG 1234 from=" ++ toString sid ++ " tag=" ++ toString tag) hnd).2.1
        omega
      · refine Nat.le_trans (wb_fold _ ?_ sv.sessions sv hnd).1 (by omega)
        intro sv1 t h1
        split
        · exact wb_deliver _ _ _ h1
        · exact ⟨by omega, rfl⟩

/-! Non-vacuity: the bound is attained.  The three-level tree of C05 (one host, two sessions, one node each: 5 nodes below the root, 6 in
    all) and the matcher `*`, `*/*`, `*/*/*`: five visits.  With 9 patterns that all match everything: still five visits. -/
def exWbAll : PM :=
  [(1, [{ path := [42], clauses := [[42]], filter := none }]),
   (2, [{ path := [42, 47, 42], clauses := [[42], [42]], filter := none }]),
   (3, [{ path := [42, 47, 42, 47, 42], clauses := [[42], [42], [42]], filter := none }])]
def exWbMany : PM :=
  [(1, [{ path := [42], clauses := [[42]], filter := none }, { path := [42, 42], clauses := [[42]], filter := none },
        { path := [63], clauses := [[42]], filter := none }]),
   (2, [{ path := [42, 47, 42], clauses := [[42], [42]], filter := none }, { path := [1], clauses := [[42], [42]], filter := none },
        { path := [2], clauses := [[42], [42]], filter := none }]),
   (3, [{ path := [42, 47, 42, 47, 42], clauses := [[42], [42], [42]], filter := none },
        { path := [3], clauses := [[42], [42], [42]], filter := none }, { path := [4], clauses := [[42], [42], [42]], filter := none }])]

example : (doTraversal exWbAll true 0 cbContinue C05.exSrvTree 4).length = 5 ∧
    (descendants 4 C05.exSrvTree []).length = 5 ∧ C05.exSrvTree.size = 6 ∧ fits 3 C05.exSrvTree = true ∧
    pmNumEntries exWbMany = 9 ∧ (doTraversal exWbMany true 0 cbContinue C05.exSrvTree 4).length = 5 ∧
    (doTraversal exWbAll true 0 cbContinue C05.exSrvTree 2).length = 3 ∧ (descendants 2 C05.exSrvTree []).length = 3 ∧
    (doTraversal exWbAll true 0 cbContinue C05.exSrvTree 4).map List.length = [1, 2, 3, 2, 3] := by decide

/-- deliveries: three sessions on two hosts; session 0 broadcasts: 2 copies (sessions 1 and 2), within the bound (3 sessions). -/
example : (C05.exBcSv.sessions.map (·.sid)).Nodup ∧ wbTotal C05.exBcSv = 0 ∧ C05.exBcSv.sessions.length = 3 ∧
    wbTotal (runCmd C05.exBcSv 0 (.send 7 [])) = 2 := by decide

/-! ### the whole tree bounds every traversal; pattern tests per child; reachable states -/

/-- a node found in the tree is no larger than the tree -/
theorem getNode_size_le (sv : Server) (path : List Bytes) (n : Node) (h : getNode sv path = some n) : n.size ≤ sv.root.size :=
  wb_getNode_size h

theorem nodeAt_size_le (fuel : Nat) (root : Node) (path : List Bytes) (n : Node) (h : nodeAt fuel root path = some n) :
    n.size ≤ root.size :=
  wb_nodeAt_size path fuel root n h

/-- the traversal from a session's own node records fewer visits than the WHOLE tree has nodes (whether or not the session node exists) -/
theorem travSession_bounded_root (sv : Server) (s : Sess) (pm : PM) (cb : Visit → Nat → Node → Bool × Int) :
    (travSession sv s pm cb).length + 1 ≤ sv.root.size := by
  obtain ⟨h1, h2, _⟩ := travSession_bounded sv s pm cb
  cases hn : getNode sv (sessNames s) with
  | none =>
    rw [h2 hn]
    have := wb_cnt_lt_size 0 sv.root
    simp only [List.length_nil]
    omega
  | some n =>
    have := (h1 n hn).2
    have := wb_getNode_size hn
    omega

/-- **Pattern tests per child.**  The instrumented entry loop computes the same state as `checkEntries` and examines at most as many
    entries as take part at the level, at most `pmNumEntries ctx.pm` (for the entry list `checkChild` passes: `activeEntries`). -/
theorem pattern_tests_bounded (ctx : TCtx) (rec : Rec) (child : Node) (cn : Visit) (depth : Nat) (known : Option Nat) :
    (∀ (es : List Entry) (idx : Nat) (st : CState),
      (checkEntriesCost ctx rec child cn depth known es idx st).1 = checkEntries ctx rec child cn depth known es idx st ∧
      (checkEntriesCost ctx rec child cn depth known es idx st).2 ≤ es.length) ∧
    (checkEntriesCost ctx rec child cn depth known (activeEntries ctx.pm (depth - ctx.rootDepth)) 0 {}).2 ≤ pmNumEntries ctx.pm := by
  refine ⟨wb_checkEntriesCost ctx rec child cn depth known, ?_⟩
  exact Nat.le_trans (wb_checkEntriesCost ctx rec child cn depth known _ 0 {}).2 (wb_activeEntries_length _ _)

/-- the instrumented loop IS `checkChild` when run the way `checkChild` runs it -/
theorem pattern_tests_checkChild (ctx : TCtx) (rec : Rec) (child : Node) (names : Visit) (depth : Nat) (known : Option Nat) :
    checkChild ctx rec child names depth known =
      ((checkEntriesCost ctx rec child (names ++ [child.name]) depth known (activeEntries ctx.pm (depth - ctx.rootDepth)) 0 {}).1.visits,
       (checkEntriesCost ctx rec child (names ++ [child.name]) depth known (activeEntries ctx.pm (depth - ctx.rootDepth)) 0 {}).1.abort) := by
  rw [(wb_checkEntriesCost ctx rec child (names ++ [child.name]) depth known _ 0 {}).1]
  rfl

/-- **Deliveries of one client-to-client Message in a reachable state**: no hypothesis on the ids. -/
theorem cmd_deliveries_bounded_reach (sv : Server) (h : RReach sv) (sid tag : Nat) (keys : List Bytes) :
    wbTotal (runCmd sv sid (.send tag keys)) ≤
      wbTotal sv + max (descendants fuelDepth sv.root []).length sv.sessions.length :=
  send_deliveries_bounded sv sid tag keys (C05.session_ids_distinct sv h).1

theorem route_deliveries_bounded_reach (sv : Server) (h : RReach sv) (sid : Nat) (pm : PM) (what : String) :
    wbTotal (route sv sid pm what) ≤ wbTotal sv + (travGlobal sv pm true (fun _ _ _ => (true, 1))).length ∧
    wbTotal (route sv sid pm what) ≤ wbTotal sv + (descendants fuelDepth sv.root []).length ∧
    wbTotal (route sv sid pm what) + 1 ≤ wbTotal sv + sv.root.size :=
  route_deliveries_bounded sv sid pm what (C05.session_ids_distinct sv h).1

/-- in terms of the size of the tree alone: fewer than `max (nodes of the tree) (sessions + 1)` new lines -/
theorem cmd_deliveries_bounded_reach_size (sv : Server) (h : RReach sv) (sid tag : Nat) (keys : List Bytes) :
    wbTotal (runCmd sv sid (.send tag keys)) + 1 ≤ wbTotal sv + max sv.root.size (sv.sessions.length + 1) := by
  have h1 := cmd_deliveries_bounded_reach sv h sid tag keys
  have h2 := (traversal_visits_bounded [] true 0 cbContinue sv.root fuelDepth).2
  have := Nat.le_max_left sv.root.size (sv.sessions.length + 1)
  have := Nat.le_max_right sv.root.size (sv.sessions.length + 1)
  rcases Nat.le_total (descendants fuelDepth sv.root []).length sv.sessions.length with hc | hc
  · rw [Nat.max_eq_right hc] at h1; omega
  · rw [Nat.max_eq_left hc] at h1; omega

/-- non-vacuity: the three-session state of C05 is reachable -/
example : RReach C05.exBcSv := .attach _ _ (.attach _ _ (.attach _ _ .init))

/-- two `*/*/*` entries, then `*`: the loop examines all three for a host node (descent at the first, nothing at the second, the callback
    at the third): the bound `pmNumEntries` is attained.  With `exWbAll` (`*`, `*/*`, `*/*/*`) the loop stops after two entries at the first
    level (`done`), and only one entry takes part at the third level. -/
def exWbRev : PM :=
  [(3, [{ path := [42, 47, 42, 47, 42], clauses := [[42], [42], [42]], filter := none },
        { path := [1], clauses := [[42], [42], [42]], filter := none }]),
   (1, [{ path := [42], clauses := [[42]], filter := none }])]

example : pmNumEntries exWbRev = 3 ∧ pmNumEntries exWbAll = 3 ∧
    (checkEntriesCost { pm := exWbRev, useFilters := true, rootDepth := 0, cb := cbContinue }
      (travAux { pm := exWbRev, useFilters := true, rootDepth := 0, cb := cbContinue } 3)
      (.mk [104] none [] [] 0 []) [[104]] 0 none (activeEntries exWbRev 0) 0 {}).2 = 3 ∧
    (checkEntriesCost { pm := exWbAll, useFilters := true, rootDepth := 0, cb := cbContinue }
      (travAux { pm := exWbAll, useFilters := true, rootDepth := 0, cb := cbContinue } 3)
      (.mk [104] none [] [] 0 []) [[104]] 0 none (activeEntries exWbAll 0) 0 {}).2 = 2 ∧
    (checkEntriesCost { pm := exWbAll, useFilters := true, rootDepth := 0, cb := cbContinue }
      (travAux { pm := exWbAll, useFilters := true, rootDepth := 0, cb := cbContinue } 1)
      (.mk [120] none [] [] 0 []) [[104], [115], [120]] 2 none (activeEntries exWbAll 2) 0 {}).2 = 1 := by decide

/-! ### total pattern tests of one traversal -/

/-- the instrumented traversal, any arguments: same result, and at most (nodes below `node` within `fuel`) × (entries of the matcher) tests -/
theorem traversal_tests_twin (ctx : TCtx) (fuel : Nat) (node : Node) (names : Visit) (depth : Nat) :
    (travAuxC ctx fuel node names depth).1 = travAux ctx fuel node names depth ∧
    (travAuxC ctx fuel node names depth).2 ≤ (descendants fuel node names).length * pmNumEntries ctx.pm := by
  rw [wb_descendants_length]
  exact ⟨wb_travAuxC_fst ctx fuel node names depth, wb_travAuxC_cost ctx fuel node names depth⟩

/-- **Bounded number of pattern tests.**  Any matcher, callback, tree, root depth, fuel: the instrumented traversal records exactly the
    visits of `doTraversal`, and examines at most (nodes strictly below the root within `fuel`) × `pmNumEntries pm` pattern entries. -/
theorem traversal_tests_bounded (pm : PM) (useFilters : Bool) (rd : Nat) (cb : Visit → Nat → Node → Bool × Int) (node : Node)
    (fuel : Nat) :
    (travAuxC { pm := pm, useFilters := useFilters, rootDepth := rd, cb := cb } fuel node [] rd).1.1 =
      doTraversal pm useFilters rd cb node fuel ∧
    (travAuxC { pm := pm, useFilters := useFilters, rootDepth := rd, cb := cb } fuel node [] rd).2 ≤
      (descendants fuel node []).length * pmNumEntries pm ∧
    (travAuxC { pm := pm, useFilters := useFilters, rootDepth := rd, cb := cb } fuel node [] rd).2 + pmNumEntries pm ≤
      node.size * pmNumEntries pm := by
  obtain ⟨h1, h2⟩ := traversal_tests_twin { pm := pm, useFilters := useFilters, rootDepth := rd, cb := cb } fuel node [] rd
  refine ⟨by rw [h1]; rfl, h2, ?_⟩
  have h3 := (traversal_visits_bounded pm useFilters rd cb node fuel).2
  have h4 : ((descendants fuel node []).length + 1) * pmNumEntries pm ≤ node.size * pmNumEntries pm := Nat.mul_le_mul_right _ h3
  rw [Nat.add_mul, Nat.one_mul] at h4
  exact Nat.le_trans (Nat.add_le_add_right h2 _) h4

/-- the traversal from the global root of a server: tests ≤ (nodes below the root) × (entries), fewer than (nodes of the tree) × (entries) -/
theorem travGlobal_tests_bounded (sv : Server) (pm : PM) (useFilters : Bool) (cb : Visit → Nat → Node → Bool × Int) :
    (travAuxC { pm := pm, useFilters := useFilters, rootDepth := 0, cb := cb } fuelDepth sv.root [] 0).1.1 =
      travGlobal sv pm useFilters cb ∧
    (travAuxC { pm := pm, useFilters := useFilters, rootDepth := 0, cb := cb } fuelDepth sv.root [] 0).2 ≤
      (descendants fuelDepth sv.root []).length * pmNumEntries pm ∧
    (travAuxC { pm := pm, useFilters := useFilters, rootDepth := 0, cb := cb } fuelDepth sv.root [] 0).2 + pmNumEntries pm ≤
      sv.root.size * pmNumEntries pm :=
  traversal_tests_bounded pm useFilters 0 cb sv.root fuelDepth

/-- the traversal from a session's own node: tests ≤ (nodes below the session node) × (entries) ≤ (nodes of the whole tree) × (entries) -/
theorem travSession_tests_bounded (sv : Server) (s : Sess) (pm : PM) (cb : Visit → Nat → Node → Bool × Int) (n : Node)
    (hn : getNode sv (sessNames s) = some n) :
    travSession sv s pm cb =
      (travAuxC { pm := pm, useFilters := true, rootDepth := 2, cb := cb } fuelDepth n [] 2).1.1.map (fun v => sessNames s ++ v) ∧
    (travAuxC { pm := pm, useFilters := true, rootDepth := 2, cb := cb } fuelDepth n [] 2).2 + pmNumEntries pm ≤
      sv.root.size * pmNumEntries pm := by
  obtain ⟨h1, _, h3⟩ := traversal_tests_bounded pm true 2 cb n fuelDepth
  refine ⟨by unfold travSession; rw [hn, h1], ?_⟩
  exact Nat.le_trans h3 (Nat.mul_le_mul_right _ (wb_getNode_size hn))

/-- non-vacuity on the three-level tree (5 nodes below the root): one pattern `*/*/*`: 5 tests = 5 × 1 (attained); `*`, `*/*`, `*/*/*`: 8;
    two `*/*/*` then `*`: 11; nine patterns: 18 — within 5 × 3, 5 × 3, 5 × 9; and the instrumented traversal returns the real visits -/
example :
    (travAuxC { pm := C05.exPM3, useFilters := true, rootDepth := 0, cb := cbContinue } 4 C05.exSrvTree [] 0).2 = 5 ∧
    pmNumEntries C05.exPM3 = 1 ∧
    (travAuxC { pm := exWbAll, useFilters := true, rootDepth := 0, cb := cbContinue } 4 C05.exSrvTree [] 0).2 = 8 ∧
    (travAuxC { pm := exWbRev, useFilters := true, rootDepth := 0, cb := cbContinue } 4 C05.exSrvTree [] 0).2 = 11 ∧
    (travAuxC { pm := exWbMany, useFilters := true, rootDepth := 0, cb := cbContinue } 4 C05.exSrvTree [] 0).2 = 18 ∧
    (travAuxC { pm := exWbAll, useFilters := true, rootDepth := 0, cb := cbContinue } 4 C05.exSrvTree [] 0).1.1 =
      doTraversal exWbAll true 0 cbContinue C05.exSrvTree 4 := by decide

end Muscle.Props.C07
