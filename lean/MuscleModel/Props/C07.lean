import MuscleModel.Props.C06
import MuscleModel.Engines.Srv
import MuscleModel.Reflector.OrderProofs

/-!
# C07 — One client's traffic can never hang or crash the server

What a Lean theorem can say here: in the reflector model every command handler is a total function
(accepted by Lean's termination checker: every loop is structural recursion on a list, on the tree, or
on explicit fuel bounded by MUSCLE_MAX_NODE_DEPTH), so "handles each Message in bounded time and keeps
running" holds for the model by construction; and whatever one session does, another session stays
attached with its parameters intact (C06, `frame_sessions_lookup`) and its ping is answered in the very
next step (`witness_pong`).  Wall-clock time, stack depth and crashes of the binary are runtime facts:
they are decided by the correspondence run of engine `srv` with its witness session (`wping` after every
hostile command, a 20 s alarm per op, ASan/UBSan) — this property is claimed *partial*.

The model covers the command subset of `Engines/Srv.lean` (`Cmd`); Messages outside it (arbitrary
what-codes, wrong field types, hostile filter archives, JETTISON* with results queued for a client that
does not read) are decided by the harness oracle alone.
-/

namespace Muscle.Props.C07
open Muscle Muscle.Reflector Muscle.Eng.SrvEngine

/-- A ping is answered at once: the PONG is the last thing in the pinging session's inbox. -/
theorem ping_answered (sv : Server) (sid : Nat) (s : Sess) (tag : Nat) (hs : sv.sess? sid = some s) :
    ∃ s', (runCmd sv sid (.ping tag)).sess? sid = some s' ∧ s'.inbox = s.inbox ++ ["PONG " ++ toString tag] := by
  have key : ∀ (l : List Sess), l.find? (fun s => s.sid = sid) = some s →
      ∃ s', (l.map (fun t => if t.sid = sid then { t with inbox := t.inbox ++ ["PONG " ++ toString tag] } else t)).find?
          (fun s => s.sid = sid) = some s' ∧ s'.inbox = s.inbox ++ ["PONG " ++ toString tag] := by
    intro l
    induction l with
    | nil => intro h; simp at h
    | cons t r ih =>
      intro h
      simp only [List.map_cons, List.find?_cons] at h ⊢
      by_cases ht : t.sid = sid
      · simp only [ht, decide_true] at h
        cases h
        simp [ht]
      · simp only [ht, decide_false] at h
        simp only [ht, if_false, decide_false]
        exact ih h
  simpa [runCmd, Server.deliver, Server.updSess, Server.sess?] using key sv.sessions (by simpa [Server.sess?] using hs)

/-- The witness: whatever command `c` any session `a` has just run, session `b`'s ping is answered. -/
theorem witness_pong (sv : Server) (a b : Nat) (c : Cmd) (t : Sess) (tag : Nat)
    (hb : sv.sess? b = some t) :
    ∃ t', (runCmd (runCmd sv a c) b (.ping tag)).sess? b = some t' ∧
      t'.inbox.getLast? = some ("PONG " ++ toString tag) := by
  obtain ⟨t1, ht1, _⟩ := Muscle.Props.C06.frame_sessions_lookup sv a c b t hb
  obtain ⟨t2, ht2, hin⟩ := ping_answered (runCmd sv a c) b t1 tag ht1
  exact ⟨t2, ht2, by simp [hin]⟩

/-- …and after any history of commands by any sessions. -/
theorem witness_pong_history (sv : Server) (hist : List (Nat × Cmd)) (b : Nat) (t : Sess) (tag : Nat)
    (hb : sv.sess? b = some t) :
    ∃ t', (runCmd (hist.foldl (fun sv p => runCmd sv p.1 p.2) sv) b (.ping tag)).sess? b = some t' ∧
      t'.inbox.getLast? = some ("PONG " ++ toString tag) := by
  have hkeep : ∃ t1, (hist.foldl (fun sv p => runCmd sv p.1 p.2) sv).sess? b = some t1 := by
    induction hist generalizing sv t with
    | nil => exact ⟨t, hb⟩
    | cons p r ih =>
      obtain ⟨t1, ht1, _⟩ := Muscle.Props.C06.frame_sessions_lookup sv p.1 p.2 b t hb
      exact ih (runCmd sv p.1 p.2) t1 ht1
  obtain ⟨t1, ht1⟩ := hkeep
  obtain ⟨t2, ht2, hin⟩ := ping_answered _ b t1 tag ht1
  exact ⟨t2, ht2, by simp [hin]⟩

end Muscle.Props.C07

/-!
# C07, second part — what is queued for a client is never removed or reordered

Lemmas: `Reflector/OrderProofs.lean` (prefix `od_`).  Every theorem holds for EVERY server state.
`OdEv` / `odRunEv` / `odRunEvs` (OrderProofs.lean): histories of events `cmd sid c | push | attach slot host | detach sid`.
-/

namespace Muscle.Props.C07
open Muscle Muscle.Reflector Muscle.Eng.SrvEngine

/-- **Append-only, one command.**  Whatever command any session runs, the session table keeps its length and order,
    and every session's inbox afterwards is its inbox before followed by `extra`: nothing already queued for a
    client is removed or reordered. -/
theorem inbox_append_only (sv : Server) (sid : Nat) (c : Cmd) :
    (runCmd sv sid c).sessions.length = sv.sessions.length ∧
    ∀ (i : Nat) (t : Sess), sv.sessions[i]? = some t →
      ∃ t' extra, (runCmd sv sid c).sessions[i]? = some t' ∧ t'.sid = t.sid ∧ t'.inbox = t.inbox ++ extra := by
  have h := od_runCmd sv sid c
  refine ⟨SessAll₂.length _ _ h, fun i t ht => ?_⟩
  obtain ⟨t', h1, h2, e, h3, _⟩ := SessAll₂.get _ _ h i t ht
  exact ⟨t', e, h1, h2, h3⟩

/-- the same through the lookup by session id -/
theorem inbox_append_only_lookup (sv : Server) (sid : Nat) (c : Cmd) (b : Nat) (t : Sess) (ht : sv.sess? b = some t) :
    ∃ t' extra, (runCmd sv sid c).sess? b = some t' ∧ t'.inbox = t.inbox ++ extra := by
  obtain ⟨t', h1, _, e, h3, _⟩ := od_lookup (od_runCmd sv sid c) b t ht
  exact ⟨t', e, h1, h3⟩

/-- `pushAll` (`PushSubscriptionMessages`) only appends -/
theorem inbox_append_only_push (sv : Server) (b : Nat) (t : Sess) (ht : sv.sess? b = some t) :
    ∃ t' extra, (pushAll sv).sess? b = some t' ∧ t'.inbox = t.inbox ++ extra := by
  obtain ⟨t', h1, _, e, h3, _⟩ := od_lookup (od_pushAll sv) b t ht
  exact ⟨t', e, h1, h3⟩

/-- a new session attaching only appends to the inboxes of the sessions already there -/
theorem inbox_append_only_attach (sv : Server) (slot : Nat) (host : Bytes) (b : Nat) (t : Sess) (ht : sv.sess? b = some t) :
    ∃ t' extra, (attach sv slot host).1.sess? b = some t' ∧ t'.inbox = t.inbox ++ extra := by
  obtain ⟨t', h1, _, e, h3, _⟩ := od_lookup_attach sv slot host b t ht
  exact ⟨t', e, h1, h3⟩

/-- the departure of ANOTHER session only appends -/
theorem inbox_append_only_detach (sv : Server) (x b : Nat) (hb : b ≠ x) (t : Sess) (ht : sv.sess? b = some t) :
    ∃ t' extra, (detach sv x).sess? b = some t' ∧ t'.inbox = t.inbox ++ extra := by
  obtain ⟨t', h1, _, e, h3, _⟩ := od_lookup_detach sv x b hb t ht
  exact ⟨t', e, h1, h3⟩

/-- **Append-only, histories.**  After any history of commands of any sessions, pushes, attaches and departures of
    other sessions, session `b` is still there and its inbox extends the inbox it had. -/
theorem inbox_append_only_history (sv : Server) (evs : List OdEv) (b : Nat) (hb : ∀ e ∈ evs, e ≠ .detach b)
    (t : Sess) (ht : sv.sess? b = some t) :
    ∃ t' extra, (odRunEvs sv evs).sess? b = some t' ∧ t'.inbox = t.inbox ++ extra := by
  obtain ⟨t', h1, _, e, h3, _⟩ := od_lookup_evs evs b hb sv t ht
  exact ⟨t', e, h1, h3⟩

/-- the history form used by `witness_pong_history` (commands only) -/
theorem inbox_append_only_cmds (sv : Server) (hist : List (Nat × Cmd)) (b : Nat) (t : Sess) (ht : sv.sess? b = some t) :
    ∃ t' extra, (hist.foldl (fun sv p => runCmd sv p.1 p.2) sv).sess? b = some t' ∧ t'.inbox = t.inbox ++ extra := by
  have key : ∀ (hist : List (Nat × Cmd)) (sv : Server) (t : Sess), sv.sess? b = some t →
      ∃ t', (hist.foldl (fun sv p => runCmd sv p.1 p.2) sv).sess? b = some t' ∧ InboxExt AnyLine t t' := by
    intro hist
    induction hist with
    | nil => intro sv t ht; exact ⟨t, ht, InboxExt.refl AnyLine t⟩
    | cons p r ih =>
      intro sv t ht
      obtain ⟨t1, h1, e1⟩ := od_lookup (od_runCmd sv p.1 p.2) b t ht
      obtain ⟨t2, h2, e2⟩ := ih (runCmd sv p.1 p.2) t1 h1
      exact ⟨t2, h2, e1.trans e2⟩
  obtain ⟨t', h1, _, e, h3, _⟩ := key hist sv t ht
  exact ⟨t', e, h1, h3⟩

/-! Non-vacuity: a reachable state with two sessions; session 0 broadcasts, session 1 pings, session 0 broadcasts again:
    session 1's inbox only grows. -/
def exOdSv0 : Server := (attach (attach {} 0 [104]).1 1 [104]).1
def exOdEvs : List OdEv := [.cmd 0 (.send 7 []), .cmd 1 (.ping 3), .push, .cmd 0 (.send 8 [])]

example : ∀ e ∈ exOdEvs, e ≠ OdEv.detach 1 := by
  intro e he
  simp only [exOdEvs, List.mem_cons, List.not_mem_nil, or_false] at he
  rcases he with rfl | rfl | rfl | rfl <;> exact fun h => OdEv.noConfusion h
example : (exOdSv0.sess? 1).map (·.inbox) = some [] := by decide
example : ((odRunEvs exOdSv0 exOdEvs).sess? 1).map (·.inbox) =
    some ["MSG 1234 from=0 tag=7", "PONG 3", "MSG 1234 from=0 tag=8"] := by decide

end Muscle.Props.C07
