import MuscleModel.Props.C06
import MuscleModel.Engines.Srv

/-!
# C07 — One client's traffic can never hang or crash the server

What a Lean theorem can say here: in the reflector model every command handler is a total function
(accepted by Lean's termination checker: every loop is structural recursion on a list, on the tree, or
on explicit fuel bounded by MUSCLE_MAX_NODE_DEPTH), so "handles each Message in bounded time and keeps
running" holds for the model by construction; and whatever one session does, another session stays
attached with its parameters intact (C06, `frame_sessions_lookup`) and its ping is answered in the very
next step (`witness_pong`).  Wall-clock time, stack depth and crashes of the binary are runtime facts:
they are decided by the correspondence run of engine `srv` with its witness session (`wping` after every
hostile command, a 20 s alarm per op, ASan/UBSan) — this property is claimed *partial*.

The model covers the command subset of `Engines/Srv.lean` (`Cmd`); Messages outside it (arbitrary
what-codes, wrong field types, hostile filter archives, JETTISON* with results queued for a client that
does not read) are decided by the harness oracle alone.
-/

namespace Muscle.Props.C07
open Muscle Muscle.Reflector Muscle.Eng.SrvEngine

/-- A ping is answered at once: the PONG is the last thing in the pinging session's inbox. -/
theorem ping_answered (sv : Server) (sid : Nat) (s : Sess) (tag : Nat) (hs : sv.sess? sid = some s) :
    ∃ s', (runCmd sv sid (.ping tag)).sess? sid = some s' ∧ s'.inbox = s.inbox ++ ["PONG " ++ toString tag] := by
  have key : ∀ (l : List Sess), l.find? (fun s => s.sid = sid) = some s →
      ∃ s', (l.map (fun t => if t.sid = sid then { t with inbox := t.inbox ++ ["PONG " ++ toString tag] } else t)).find?
          (fun s => s.sid = sid) = some s' ∧ s'.inbox = s.inbox ++ ["PONG " ++ toString tag] := by
    intro l
    induction l with
    | nil => intro h; simp at h
    | cons t r ih =>
      intro h
      simp only [List.map_cons, List.find?_cons] at h ⊢
      by_cases ht : t.sid = sid
      · simp only [ht, decide_true] at h
        cases h
        simp [ht]
      · simp only [ht, decide_false] at h
        simp only [ht, if_false, decide_false]
        exact ih h
  simpa [runCmd, Server.deliver, Server.updSess, Server.sess?] using key sv.sessions (by simpa [Server.sess?] using hs)

/-- The witness: whatever command `c` any session `a` has just run, session `b`'s ping is answered. -/
theorem witness_pong (sv : Server) (a b : Nat) (c : Cmd) (t : Sess) (tag : Nat)
    (hb : sv.sess? b = some t) :
    ∃ t', (runCmd (runCmd sv a c) b (.ping tag)).sess? b = some t' ∧
      t'.inbox.getLast? = some ("PONG " ++ toString tag) := by
  obtain ⟨t1, ht1, _⟩ := Muscle.Props.C06.frame_sessions_lookup sv a c b t hb
  obtain ⟨t2, ht2, hin⟩ := ping_answered (runCmd sv a c) b t1 tag ht1
  exact ⟨t2, ht2, by simp [hin]⟩

/-- …and after any history of commands by any sessions. -/
theorem witness_pong_history (sv : Server) (hist : List (Nat × Cmd)) (b : Nat) (t : Sess) (tag : Nat)
    (hb : sv.sess? b = some t) :
    ∃ t', (runCmd (hist.foldl (fun sv p => runCmd sv p.1 p.2) sv) b (.ping tag)).sess? b = some t' ∧
      t'.inbox.getLast? = some ("PONG " ++ toString tag) := by
  have hkeep : ∃ t1, (hist.foldl (fun sv p => runCmd sv p.1 p.2) sv).sess? b = some t1 := by
    induction hist generalizing sv t with
    | nil => exact ⟨t, hb⟩
    | cons p r ih =>
      obtain ⟨t1, ht1, _⟩ := Muscle.Props.C06.frame_sessions_lookup sv p.1 p.2 b t hb
      exact ih (runCmd sv p.1 p.2) t1 ht1
  obtain ⟨t1, ht1⟩ := hkeep
  obtain ⟨t2, ht2, hin⟩ := ping_answered _ b t1 tag ht1
  exact ⟨t2, ht2, by simp [hin]⟩

end Muscle.Props.C07
