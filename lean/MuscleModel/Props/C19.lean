import MuscleModel.Conc.ProofsTP8

/-!
# C19 — A thread pool handles each client's Messages once, in order, one at a time

Statements only (proofs call lemmas of `MuscleModel/Conc/ProofsTP*.lean`).  `Reachable maxT regs progs c` = "`c` is
reachable from the initial configuration (a fresh `ThreadPool(maxT)`, the clients `regs` registered, user thread `i`
about to run `progs[i]`) by some sequence of enabled steps of user threads and pool threads" — i.e. under EVERY
schedule, for any pool size, any number of clients, user threads and any finite programs.
-/

namespace Muscle.Props.C19
open Muscle.Conc Muscle.Conc.TP

def Reachable (maxT : Nat) (regs : List Client) (progs : List (List Op)) (c : Cfg) : Prop :=
  machine.Reach (Cfg.init maxT regs progs) c

/-- every result of running a schedule (SKIP rule) and then the TAIL rule — what `mdriver tp` prints — is reachable -/
theorem driver_runs_are_reachable (maxT : Nat) (regs : List Client) (progs : List (List Op)) (evs : List Ev) (n fuel : Nat) :
    Reachable maxT regs progs (machine.runTail n fuel (machine.runSched (Cfg.init maxT regs progs) evs).1).1 :=
  machine.reach_runTail n fuel (machine.reach_runSched Machine.Reach.init evs)

/-- **Thread limit.**  The pool never owns more threads than `_maxThreadCount`; the two thread tables are duplicate-free
and disjoint, and a thread in the available table serves nobody.  (All programs, no discipline needed.) -/
theorem thread_limit {maxT regs progs c} (h : Reachable maxT regs progs c) :
    c.p.availR.length + c.p.active.length ≤ maxT ∧ c.p.availR.Nodup ∧ c.p.active.Nodup ∧
    (∀ T, T ∈ c.p.availR → T ∉ c.p.active ∧ ∀ k, ¬ serving c T k) := by
  have hi := reach_inv0 h
  have hm : c.p.maxT = maxT := reach_maxT h
  refine ⟨hm ▸ hi.limit, hi.ndA, hi.ndB, fun T hT => ⟨hi.disj T hT, fun k hk => ?_⟩⟩
  have := hi.availIdle T hT
  cases hk with
  | inl h1 => rw [this.1] at h1; cases h1
  | inr h2 => exact this.2 k h2

/-- **Parallelism (non-vacuity).**  With two pool threads, two different clients are inside their handlers at the same time. -/
theorem parallel_ok : ∃ c, Reachable 2 [0, 1] [[.sub 0 7, .sub 1 8]] c ∧
    (c.pth 0).pc = .handler ∧ (c.pth 0).cur = some 0 ∧ (c.pth 1).pc = .handler ∧ (c.pth 1).cur = some 1 :=
  ⟨(machine.runSched (Cfg.init 2 [0, 1] [[.sub 0 7, .sub 1 8]]) [.run 0, .run 0, .run 0, .run 0, .run 1, .run 2]).1,
   machine.reach_runSched Machine.Reach.init _, by decide, by decide, by decide, by decide⟩

/-- … and with ONE pool thread the second client has to wait (the limit binds): same program, same schedule -/
example : ∃ c, Reachable 1 [0, 1] [[.sub 0 7, .sub 1 8]] c ∧ (c.pth 0).cur = some 0 ∧ c.p.pend 1 = [8] ∧ c.p.idc = 1 :=
  ⟨(machine.runSched (Cfg.init 1 [0, 1] [[.sub 0 7, .sub 1 8]]) [.run 0, .run 0, .run 0, .run 0, .run 1, .run 2]).1,
   machine.reach_runSched Machine.Reach.init _, by decide, by decide, by decide⟩

/-! ## Theorems under the client discipline

`Disciplined progs` (defined in `Conc/ProofsTP2.lean`): a client that some program registers or unregisters is used by
that program only (`IThreadPoolClient` is not itself thread-safe — `_threadPool` is an unsynchronised member — so
`SetThreadPool` racing with another thread's call on the same client is outside the documented contract).  Clients
that are registered up front and only submitted to may be shared by all threads.  Without the discipline the theorems
below are FALSE in the model and in the code: see `undisciplined_two_handlers` at the end. -/

/-- **Exactly once, in order.**  For every client k: the Messages already handled, then the batch a pool thread holds
for k (head = the Message inside the handler right now), then k's pending queue, then its deferred queue are — as ONE
list — exactly the Messages accepted from k, in submission order.  So nothing is lost, duplicated or reordered.
Holds as long as nothing of k's was dropped (`c.dropped k = []`; dropping happens only in `Shutdown()`: see
`nothing_dropped_before_shutdown`). -/
theorem handled_once {maxT regs progs c} (hd : Disciplined progs) (h : Reachable maxT regs progs c) (k : Client)
    (hk : c.dropped k = []) :
    (∀ T, (c.pth T).cur = some k → c.handled k ++ (c.pth T).queue ++ c.p.pend k ++ c.p.defr k = c.submitted k) ∧
    ((∀ T, (c.pth T).cur ≠ some k) → c.handled k ++ c.p.pend k ++ c.p.defr k = c.submitted k) :=
  have hi := (reach_invAll hd h).h
  ⟨fun T hT => hi.ho1 k T hk hT, fun hn => hi.ho2 k hk hn⟩

/-- until `Shutdown()` has begun no accepted Message is ever dropped (in particular `UnregisterClient` drops nothing) -/
theorem nothing_dropped_before_shutdown {maxT regs progs c} (hd : Disciplined progs) (h : Reachable maxT regs progs c)
    (hs : c.p.shut = false) (k : Client) : c.dropped k = [] :=
  (reach_invAll hd h).h.nd hs k

/-- non-vacuity of `handled_once`: one Message handled, the next inside the handler, a third deferred behind it -/
example : ∃ c, Reachable 1 [0] [[.sub 0 1, .sub 0 2, .sub 0 3]] c ∧ c.handled 0 = [1] ∧ (c.pth 0).queue = [2] ∧ c.p.defr 0 = [3] :=
  ⟨(machine.runSched (Cfg.init 1 [0] [[.sub 0 1, .sub 0 2, .sub 0 3]]) [.run 0, .run 0, .run 1, .run 0, .run 0, .run 1, .run 1, .run 0, .run 0]).1,
   machine.reach_runSched Machine.Reach.init _, by decide, by decide, by decide⟩

/-- **One at a time.**  At most one pool thread serves a client (owns its batch or is handing it back); until shutdown
such a client is marked "being handled", and a client marked so has nothing in the pending table (the `MASSERT` of
`DispatchPendingMessagesUnsafe` never fires): new Messages go to the deferred queue. -/
theorem one_at_a_time {maxT regs progs c} (hd : Disciplined progs) (h : Reachable maxT regs progs c) (k : Client) :
    (∀ T T', serving c T k → serving c T' k → T = T') ∧
    (c.p.shut = false → ∀ T, serving c T k → c.p.flag k = true) ∧
    (c.p.flag k = true → c.p.pend k = []) ∧ (c.p.flag k = false → c.p.defr k = []) :=
  have hi := (reach_invAll hd h).inv
  ⟨fun T T' => hi.i1.o1 T T' k, fun hs T => hi.i1.s1 hs T k, hi.i0.flagPend k, hi.i1.f1 k⟩

/-- **Unregistering waits.**  When `UnregisterClient(k)` reaches its final clean-up (after which `SetThreadPool(NULL)`
returns in the same step) nothing is outstanding for k; and unless `Shutdown()` intervened no pool thread serves k any
more and every Message ever accepted from k has been handled, in order. -/
theorem unregister_waits {maxT regs progs c} (hd : Disciplined progs) (h : Reachable maxT regs progs c) (t : Tid) (k : Client)
    (hpc : (c.uth t).pc = .unregLock2 k) :
    c.p.flag k = false ∧ c.p.pend k = [] ∧ c.p.defr k = [] ∧
    (c.p.shut = false → (∀ T, ¬ serving c T k) ∧ c.handled k = c.submitted k) := by
  have hi := reach_invAll hd h
  have hq := hi.inv.i1.u1 t k hpc
  refine ⟨hq.1, hq.2.1, hq.2.2, fun hs => ?_⟩
  have hn : ∀ T, ¬ serving c T k := fun T hT => by
    have := hi.inv.i1.s1 hs T k hT
    rw [hq.1] at this; cases this
  refine ⟨hn, ?_⟩
  have := hi.h.ho2 k (hi.h.nd hs k) (fun T hT => hn T (Or.inl hT))
  rw [hq.2.1, hq.2.2] at this
  simpa using this

/-- the wake-up of a thread blocked in `UnregisterClient(k)` is never early: a pending notification means k is quiet -/
theorem unregister_wakeup_not_early {maxT regs progs c} (hd : Disciplined progs) (h : Reachable maxT regs progs c) (t : Tid) (k : Client)
    (hpc : (c.uth t).pc = .unregWait k) (hn : (c.uth t).notif > 0) : c.p.flag k = false ∧ c.p.pend k = [] ∧ c.p.defr k = [] :=
  (reach_invAll hd h).inv.i1.u2 t k hpc hn

/-- non-vacuity of `unregister_waits`: the unregistering thread really blocks while the handler runs … -/
example : ∃ c, Reachable 1 [0] [[.sub 0 1, .unreg 0]] c ∧ (c.uth 0).pc = .unregWait 0 ∧ (c.uth 0).notif = 0 ∧ (c.pth 0).pc = .handler :=
  ⟨(machine.runSched (Cfg.init 1 [0] [[.sub 0 1, .unreg 0]]) [.run 0, .run 0, .run 1, .run 0, .run 0]).1,
   machine.reach_runSched Machine.Reach.init _, by decide, by decide, by decide⟩

/-- … and is released once the handler has returned -/
example : ∃ c, Reachable 1 [0] [[.sub 0 1, .unreg 0]] c ∧ (c.uth 0).pc = .unregLock2 0 ∧ c.handled 0 = [1] :=
  ⟨(machine.runSched (Cfg.init 1 [0] [[.sub 0 1, .unreg 0]]) [.run 0, .run 0, .run 1, .run 0, .run 0, .run 1, .run 1, .run 0]).1,
   machine.reach_runSched Machine.Reach.init _, by decide, by decide⟩

/-! ## Progress: no deadlock, and `Shutdown()` terminates

Two more hypotheses on the programs (both are what the API allows: `Shutdown()` is private and runs from the
destructor / `FlushCachedObjects()`, after which the pool must not be used): `NoRegIfShutdown progs` — if some program
calls `Shutdown`, no program registers a client (registering with a pool that is shut down would strand the client:
nothing is dispatched any more, see `register_after_shutdown_strands`); and the pool has at least one thread
(`1 ≤ maxT`; with `ThreadPool(0)` nothing is ever dispatched, see `pool_of_size_zero_strands`). -/

/-- **Deadlock freedom.**  In every reachable configuration, as long as some user thread has not finished its program,
some thread (a user thread or a pool thread) can take a step.  In particular a thread blocked in `UnregisterClient`
or in the join of `Shutdown()` is never stranded: the wake-up it waits for is owed by a thread that can run. -/
theorem deadlock_free {maxT regs progs c} (hd : Disciplined progs) (hn : NoRegIfShutdown progs) (hm : 1 ≤ maxT)
    (h : Reachable maxT regs progs c) (hex : ∃ t, t < c.nU ∧ (c.uth t).pc ≠ .done) :
    ∃ e c' o, machine.step c e = some (c', o) := by
  obtain ⟨t, ht, hnd⟩ := hex
  have hl := reach_invLive hd hn h
  have hmx : 1 ≤ c.p.maxT := by rw [reach_maxT h]; exact hm
  obtain ⟨e, r, hr⟩ := live_progress hl hmx t ht hnd
  exact ⟨e, r.1, r.2, hr⟩

/-- non-vacuity of `deadlock_free`: a blocked unregistering thread, and the pool thread that owes it the wake-up can step -/
example : ∃ c, Reachable 1 [0] [[.sub 0 1, .unreg 0]] c ∧ (c.uth 0).pc = .unregWait 0 ∧ (stepUser c 0).isNone ∧ (stepPool c 0).isSome :=
  ⟨(machine.runSched (Cfg.init 1 [0] [[.sub 0 1, .unreg 0]]) [.run 0, .run 0, .run 1, .run 0, .run 0]).1,
   machine.reach_runSched Machine.Reach.init _, by decide, by decide, by decide⟩

/-- the hypothesis `1 ≤ maxT` is necessary: with `ThreadPool(0)` the Message stays pending and the unregistering thread
waits for ever (user thread blocked, no pool thread exists) -/
theorem pool_of_size_zero_strands : ∃ c, Reachable 0 [0] [[.sub 0 1, .unreg 0]] c ∧
    (c.uth 0).pc = .unregWait 0 ∧ (stepUser c 0).isNone ∧ c.p.idc = 0 ∧ c.p.pend 0 = [1] :=
  ⟨(machine.runSched (Cfg.init 0 [0] [[.sub 0 1, .unreg 0]]) [.run 0, .run 0, .run 0, .run 0]).1,
   machine.reach_runSched Machine.Reach.init _, by decide, by decide, by decide, by decide⟩

/-- the hypothesis `NoRegIfShutdown` is necessary: a client registered after `Shutdown()` gets its Message accepted but
never handled, and its `SetThreadPool(NULL)` waits for ever (the only pool thread has ended) -/
theorem register_after_shutdown_strands : ∃ c, Reachable 1 [] [[.shutdown, .reg 0, .sub 0 1, .unreg 0]] c ∧
    (c.uth 0).pc = .unregWait 0 ∧ (stepUser c 0).isNone ∧ c.p.idc = 0 ∧ c.p.pend 0 = [1] ∧ c.p.shut = true :=
  ⟨(machine.runTail 1 40 (Cfg.init 1 [] [[.shutdown, .reg 0, .sub 0 1, .unreg 0]])).1,
   machine.reach_runTail 1 40 Machine.Reach.init, by decide, by decide, by decide, by decide, by decide⟩

/-- **The shutdown phase has a ranking function.**  `rank` (defined in `Conc/ProofsTP7.lean`: what is left of the user
programs and of the calls in progress — a `Shutdown` call counting 20 per pool thread still in the tables —, plus
4 per Message in a pool thread's inbox, 2 per Message of its batch, plus its program-counter weight) becomes
strictly smaller with EVERY step of EVERY thread once `_shuttingDown` is set; and `_shuttingDown` stays set. -/
theorem shutdown_rank_decreases {maxT regs progs c c' e o} (hd : Disciplined progs) (hn : NoRegIfShutdown progs)
    (h : Reachable maxT regs progs c) (hs : c.p.shut = true) (hst : machine.step c e = some (c', o)) :
    rank c' < rank c ∧ c'.p.shut = true :=
  rank_decreases (reach_invLive hd hn h).p hs hst

/-- **`Shutdown()` terminates.**  From any reachable configuration in which `Shutdown()` has begun: (1) every run —
whatever the scheduler does — has at most `rank c` steps, so there is no infinite run; (2) a run can stop only in a
configuration where every user thread has finished its program — in particular the thread inside `Shutdown()` has
returned from it (no deadlock on the way). -/
theorem shutdown_terminates {maxT regs progs c} (hd : Disciplined progs) (hn : NoRegIfShutdown progs) (hm : 1 ≤ maxT)
    (h : Reachable maxT regs progs c) (hs : c.p.shut = true) {n : Nat} {c' : Cfg} (hrun : Steps n c c') :
    n ≤ rank c ∧ ((∀ e, step c' e = none) → ∀ t, t < c'.nU → (c'.uth t).pc = .done) := by
  have hl := reach_invLive hd hn h
  obtain ⟨b1, b2, b3, b4⟩ := steps_bounded hl hs hrun
  refine ⟨by omega, fun hstuck t ht => ?_⟩
  cases hpc : (c'.uth t).pc with
  | done => rfl
  | _ =>
    have hmx : 1 ≤ c'.p.maxT := by rw [b4, reach_maxT h]; exact hm
    obtain ⟨e, r, hr⟩ := live_progress b3 hmx t ht (by rw [hpc]; simp)
    rw [hstuck e] at hr; cases hr

/-- the join in `Shutdown()` returns only for a pool thread that has ended -/
theorem shutdown_join_waits (c : Cfg) (t : Tid) {b nA tot n T rest r} (hpc : (c.uth t).pc = .sdJoin b nA tot n T rest)
    (hs : stepUser c t = some r) : (c.pth T).pc = .exited := by
  unfold stepUser at hs
  simp only [hpc] at hs
  split at hs
  · assumption
  · cases hs

/-- non-vacuity: a complete shutdown run with a handler in flight when `Shutdown()` starts; the pool thread finishes its
batch, gets the quit Message and ends, `Shutdown()` joins it and returns -/
theorem shutdown_example : ∃ c, Reachable 1 [0] [[.sub 0 1], [.shutdown]] c ∧
    (c.uth 0).pc = .done ∧ (c.uth 1).pc = .done ∧ (c.pth 0).pc = .exited ∧ c.handled 0 = [1] :=
  ⟨(machine.runTail 3 40 (Cfg.init 1 [0] [[.sub 0 1], [.shutdown]])).1,
   machine.reach_runTail 3 40 Machine.Reach.init, by decide, by decide, by decide, by decide⟩

/-- non-vacuity of the ranking: in the middle of that run (shutdown begun, handler running) the rank is positive and the run is inside `Shutdown` -/
example : ∃ c, Reachable 1 [0] [[.sub 0 1], [.shutdown]] c ∧ c.p.shut = true ∧ (c.pth 0).pc = .handler ∧ rank c = 31 :=
  ⟨(machine.runSched (Cfg.init 1 [0] [[.sub 0 1], [.shutdown]]) [.run 0, .run 0, .run 2, .run 1, .run 1]).1,
   machine.reach_runSched Machine.Reach.init _, by decide, by decide, by decide⟩

/-- **`Shutdown()` returns with every pool thread ended.**  If `Shutdown` is called by one thread only
(`OneShutdownThread progs`; necessary: `two_shutdowns_overtake`), then whenever that thread is at the final section of
`Shutdown()` (the section that clears the tables, wakes the waiters and returns, all in one step) every pool thread
that was ever created has left its entry function.  Proof: the cover invariant "every pool thread has ended, or is
in one of the two tables, or is in the list `Shutdown` is joining" (`Conc/ProofsTP8.lean`), carried through
`DispatchPendingMessagesUnsafe`, `ThreadFinishedProcessingClientMessages` and the swap/join phases of
`ShutdownThreadsInTableWithoutDeadlocking`. -/
theorem shutdown_returns_all_exited {maxT regs progs c} (hd : Disciplined progs) (hn : NoRegIfShutdown progs)
    (h1 : OneShutdownThread progs) (h : Reachable maxT regs progs c) (t : Tid) (tot : Nat)
    (hpc : (c.uth t).pc = .sdFinal tot) : ∀ T, T < c.p.idc → (c.pth T).pc = .exited :=
  (reach_invX hd hn h1 h).cvi.cv3 t tot hpc

/-- the same invariant one phase earlier: while `Shutdown` joins the threads of a table, every pool thread that has not
ended is the one being joined, next in line, or (first table only) still in the active table -/
theorem shutdown_join_cover {maxT regs progs c} (hd : Disciplined progs) (hn : NoRegIfShutdown progs)
    (h1 : OneShutdownThread progs) (h : Reachable maxT regs progs c) {t b nA tot n T rest}
    (hpc : (c.uth t).pc = .sdJoin b nA tot n T rest) (T' : PTid) (hT' : T' < c.p.idc) :
    (c.pth T').pc = .exited ∨ T' = T ∨ T' ∈ rest ∨ (b = false ∧ T' ∈ c.p.active) := by
  obtain ⟨x1, x2, x3⟩ := (reach_invX hd hn h1 h).cvi.cv2 t b nA tot n T rest hpc
  rcases x1 T' hT' with a | a | a | a
  · exact Or.inl a
  · rw [x2] at a; simp at a
  · cases b with
    | false => exact Or.inr (Or.inr (Or.inr ⟨rfl, a⟩))
    | true => rw [x3 rfl] at a; simp at a
  · simp only [List.mem_cons] at a
    rcases a with a | a
    · exact Or.inr (Or.inl a)
    · exact Or.inr (Or.inr (Or.inl a))

/-- non-vacuity: the final section is reached with a pool thread that exists and has ended -/
example : ∃ c, Reachable 1 [0] [[.sub 0 1], [.shutdown]] c ∧ (c.uth 1).pc = .sdFinal 1 ∧ c.p.idc = 1 ∧ (c.pth 0).pc = .exited :=
  ⟨(machine.runSched (Cfg.init 1 [0] [[.sub 0 1], [.shutdown]]) [.run 0, .run 0, .run 2, .run 1, .run 1, .run 1, .run 1, .run 2, .run 2, .run 1, .run 1, .run 1]).1,
   machine.reach_runSched Machine.Reach.init _, by decide, by decide, by decide⟩

/-- `OneShutdownThread` is necessary: when two threads call `Shutdown()` at the same time, the second finds the tables
already emptied by the first and reaches its final section while the pool thread is still inside a handler -/
theorem two_shutdowns_overtake : ∃ c, Reachable 1 [0] [[.sub 0 1], [.shutdown], [.shutdown]] c ∧
    (c.uth 2).pc = .sdFinal 0 ∧ (c.pth 0).pc = .handler :=
  ⟨(machine.runSched (Cfg.init 1 [0] [[.sub 0 1], [.shutdown], [.shutdown]])
      [.run 0, .run 0, .run 3, .run 1, .run 1, .run 1, .run 1, .run 2, .run 2, .run 2, .run 2]).1,
   machine.reach_runSched Machine.Reach.init _, by decide, by decide⟩

/-! ## The `MASSERT`s of ThreadPool.cpp never fire

The model does not represent assertion failures (`MASSERT` → `MCRASH`); these theorems say that the asserted conditions
hold wherever the code evaluates them.  The dispatcher evaluates its assertion inside its loop, i.e. in intermediate
states of a critical section: `massert_dispatch_holds_in_loop` is therefore stated for every state that satisfies the
structural invariant `Inv0`, and `Conc/ProofsTP0.lean` (`inv0_spawnIfNeeded`, `inv0_assign`, `inv0_dispatchLoop`) shows
that every iteration of the loop starts in such a state. -/

/-- ThreadPool.cpp:207 `MASSERT(*isBeingHandled == false, "Client that is being handled is in the _pendingMessages table")`,
evaluated in `DispatchPendingMessagesUnsafe` for a registered client whose pending queue has items — at step boundaries -/
theorem massert_dispatch_207 {maxT regs progs c} (h : Reachable maxT regs progs c) (k : Client)
    (hr : k ∈ c.p.regK) (hp : c.p.pend k ≠ []) : c.p.flag k = false := by
  cases hf : c.p.flag k with
  | false => rfl
  | true => exact absurd ((reach_inv0 h).flagPend k hf) hp

/-- … and in every iteration of the dispatcher's loop (any state satisfying the structural invariant) -/
theorem massert_dispatch_holds_in_loop {c : Cfg} (h : Inv0 c) (k : Client) (hp : c.p.pend k ≠ []) : c.p.flag k = false := by
  cases hf : c.p.flag k with
  | false => rfl
  | true => exact absurd (h.flagPend k hf) hp

/-- ThreadPool.cpp:252 `MASSERT(*isClientBeingHandled, …)`, evaluated in `ThreadFinishedProcessingClientMessages(T, k)`
when the pool is not shutting down and client k is registered: the pool thread about to enter that critical section
finds the flag set -/
theorem massert_finished_252 {maxT regs progs c} (hd : Disciplined progs) (h : Reachable maxT regs progs c) (T : PTid) (k : Client)
    (hpc : (c.pth T).pc = .finLock k) (hs : c.p.shut = false) : c.p.flag k = true :=
  (reach_invAll hd h).inv.i1.s1 hs T k (Or.inr hpc)

/-- ThreadPool.cpp:261 `MASSERT(pendingMessages->IsEmpty(), …)`, evaluated in the same critical section when the
client's deferred queue has items: its pending queue is empty, so the swap promotes the deferred Messages into an
empty queue -/
theorem massert_finished_261 {maxT regs progs c} (hd : Disciplined progs) (h : Reachable maxT regs progs c) (T : PTid) (k : Client)
    (hpc : (c.pth T).pc = .finLock k) (hs : c.p.shut = false) : c.p.pend k = [] :=
  (reach_inv0 h).flagPend k (massert_finished_252 hd h T k hpc hs)

/-- ThreadPool.cpp:144 `MASSERT(_currentClient == NULL, …)` in `SendMessagesToInternalThread`: a thread taken from the
available table has no current client (any state of the dispatcher's loop) -/
theorem massert_send_144 {c : Cfg} (h : Inv0 c) (T : PTid) (hT : T ∈ c.p.availR) : (c.pth T).cur = none :=
  (h.availIdle T hT).1

/-- ThreadPool.cpp:165 `MASSERT(_currentClient != NULL, …)` in `MessageReceivedFromOwner`: a pool thread that finds the
batch announcement in its inbox has a current client -/
theorem massert_received_165 {maxT regs progs c} (hd : Disciplined progs) (hn : NoRegIfShutdown progs) (h : Reachable maxT regs progs c)
    (T : PTid) (hb : Item.batch ∈ (c.pth T).inbox) : ∃ k, (c.pth T).cur = some k :=
  ((reach_invLive hd hn h).p.b1 T hb).1

/-- non-vacuity of the assertion theorems: a pool thread at the lock of `ThreadFinishedProcessingClientMessages` with
Messages deferred behind it -/
example : ∃ c, Reachable 1 [0] [[.sub 0 1, .sub 0 2]] c ∧ (c.pth 0).pc = .finLock 0 ∧ c.p.shut = false ∧ c.p.defr 0 = [2] ∧ c.p.flag 0 = true :=
  ⟨(machine.runSched (Cfg.init 1 [0] [[.sub 0 1, .sub 0 2]]) [.run 0, .run 0, .run 1, .run 0, .run 0, .run 1]).1,
   machine.reach_runSched Machine.Reach.init _, by decide, by decide, by decide, by decide⟩

/- NOT COVERED: the two remaining assertions `_internalQueue.IsEmpty()` (line 145) and `_internalQueue.HasItems()` (line 166)
   need "an available thread's batch queue is empty" and "a dispatched batch is non-empty", which are not among the
   invariants proved; the harness would see them as crashes. -/

/-- **No API step ever blocks on `_poolLock`**: a user thread that cannot step has finished, or is inside the `Wait` of
`UnregisterClient` without a notification, or inside the join of `Shutdown` with the joined pool thread still alive.
(All configurations; the case analysis behind `deadlock_free`.) -/
theorem lock_steps_never_block (c : Cfg) (t : Tid) (hn : stepUser c t = none) :
    (c.uth t).pc = .done ∨ ((c.uth t).pc = .opStart ∧ (c.uth t).prog = []) ∨
    (∃ k, (c.uth t).pc = .unregWait k ∧ (c.uth t).notif = 0) ∨
    (∃ b nA tot n T r, (c.uth t).pc = .sdJoin b nA tot n T r ∧ (c.pth T).pc ≠ .exited) :=
  stuck_cases c t hn

/-- **The discipline is necessary** (model-level witness of the race that the `IThreadPoolClient` documentation rules
out): if thread 1 submits to client 0 while thread 0 unregisters and re-registers it, two pool threads end up inside
client 0's handler at the same time.  The real code shows the same two overlapping handler calls on the line
`x 2 1 2 u0r0s0 s0 0 0 1 1 2 0 0 0 0 0 3` of engine `tp` and later aborts in the `MASSERT` of
`ThreadFinishedProcessingClientMessages` (ThreadPool.cpp:252), which the model does not represent. -/
theorem undisciplined_two_handlers : ∃ c, Reachable 2 [0] [[.unreg 0, .reg 0, .sub 0 5], [.sub 0 9]] c ∧
    (c.pth 0).pc = .handler ∧ (c.pth 0).cur = some 0 ∧ (c.pth 1).pc = .handler ∧ (c.pth 1).cur = some 0 :=
  ⟨(machine.runSched (Cfg.init 2 [0] [[.unreg 0, .reg 0, .sub 0 5], [.sub 0 9]])
      [.run 0, .run 0, .run 1, .run 1, .run 2, .run 0, .run 0, .run 0, .run 0, .run 0, .run 3]).1,
   machine.reach_runSched Machine.Reach.init _, by decide, by decide, by decide, by decide⟩

end Muscle.Props.C19
