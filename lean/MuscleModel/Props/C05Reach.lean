import MuscleModel.Props.C05
import MuscleModel.Reflector.MirrorProofs24
import MuscleModel.Reflector.RouteProofsM

/-!
# C05, broadcast fallback — the corollaries for reachable states

`Props/C05.lean` proves `broadcast_exactly_once` for any server whose session ids are pairwise distinct.  Here: the ids are pairwise
distinct (and below the id counter) in every `RReach` state (RouteProofs.lean: reachable from the empty server by attach, detach, ANY
command, `pushAll`, pump), hence in every `MReach` / `CReach` state, so the hypothesis can be dropped there.  (Separate file: the
id-counter lemmas `nextSid_runCmd`, `nextSid_detach`, `attach_shape` live in `Reflector/MirrorProofs21/24.lean`, which import
`Props/C05.lean`.)
-/

namespace Muscle.Reflector
open Muscle Muscle.Eng.SrvEngine

/-- the ids of the table are pairwise distinct and below the id counter -/
def SidsOK (sv : Server) : Prop := (sv.sessions.map (·.sid)).Nodup ∧ ∀ i ∈ sv.sessions.map (·.sid), i < sv.nextSid

theorem bc_all2_sids {P : String → Prop} : ∀ l l' : List Sess, SessAll₂ (InboxExt P) l l' → l'.map (·.sid) = l.map (·.sid)
  | [], [], _ => rfl
  | a :: l, b :: l', h => by
      simp only [List.map_cons, h.1.1, bc_all2_sids l l' h.2]
  | [], _ :: _, h => h.elim
  | _ :: _, [], h => h.elim

theorem SidsOK.of_same {a b : Server} (hs : b.sessions.map (·.sid) = a.sessions.map (·.sid)) (hn : b.nextSid = a.nextSid)
    (h : SidsOK a) : SidsOK b := by
  unfold SidsOK
  rw [hs, hn]
  exact h

theorem SidsOK.of_app {P : String → Prop} {a b : Server} (hs : InboxApp P a b) (hn : b.nextSid = a.nextSid) (h : SidsOK a) :
    SidsOK b :=
  h.of_same (bc_all2_sids _ _ hs) hn

theorem SidsOK.attach {sv : Server} (h : SidsOK sv) (slot : Nat) (host : Bytes) : SidsOK (attach sv slot host).1 := by
  obtain ⟨A, hAr, hAn, ⟨ns, hAss, hns1, _⟩, hshape⟩ := attach_shape sv slot host
  have hA : SidsOK A := by
    unfold SidsOK
    rw [hAss, hAn]
    simp only [List.map_append, List.map_cons, List.map_nil, hns1]
    constructor
    · rw [List.nodup_append]
      refine ⟨h.1, by simp, ?_⟩
      intro x hx y hy
      simp only [List.mem_singleton] at hy
      have := h.2 x hx
      omega
    · intro i hi
      rcases List.mem_append.mp hi with hi | hi
      · have := h.2 i hi; omega
      · simp only [List.mem_singleton] at hi; omega
  rw [hshape]
  refine SidsOK.of_app (od_pushAll _) (nextSid_pushAll _) ?_
  refine SidsOK.of_app (od_putChild ..) (nextSid_putChild ..) ?_
  split
  · exact hA
  · exact SidsOK.of_app (od_putChild ..) (nextSid_putChild ..) hA

theorem SidsOK.detach {sv : Server} (h : SidsOK sv) (x : Nat) : SidsOK (detach sv x) := by
  rcases od_detach sv x with hd | hd
  · have hs := bc_all2_sids _ _ hd
    unfold SidsOK
    rw [hs, nextSid_detach]
    have hsub : ((sv.sessions.filter (fun t => t.sid ≠ x)).map (·.sid)).Sublist (sv.sessions.map (·.sid)) :=
      List.Sublist.map _ List.filter_sublist
    exact ⟨h.1.sublist hsub, fun i hi => h.2 i (hsub.subset hi)⟩
  · rw [hd]; exact h

/-- in every reachable state the session ids are pairwise distinct and below the id counter -/
theorem rt_reach_sidsOK {sv : Server} (h : RReach sv) : SidsOK sv := by
  induction h with
  | init => exact ⟨by simp, by simp⟩
  | attach slot host _ ih => exact ih.attach slot host
  | detach sid _ ih => exact ih.detach sid
  | cmd sid c _ ih => exact SidsOK.of_app (od_runCmd _ sid c) (nextSid_runCmd _ sid c) ih
  | push _ ih => exact SidsOK.of_app (od_pushAll _) (nextSid_pushAll _) ih
  | @pump sv0 _ ih =>
    refine SidsOK.of_same (a := sv0) ?_ rfl ih
    simp only [List.map_map]
    rfl

end Muscle.Reflector

namespace Muscle.Props.C05
open Muscle Muscle.Reflector Muscle.Eng.SrvEngine

/-- In every reachable state (`RReach`: attach, detach, ANY command, `pushAll`, pump from the empty server) the session ids are pairwise
    distinct, and every id is below the id counter. -/
theorem session_ids_distinct (sv : Server) (h : RReach sv) :
    (sv.sessions.map (·.sid)).Nodup ∧ ∀ t ∈ sv.sessions, t.sid < sv.nextSid := by
  obtain ⟨h1, h2⟩ := rt_reach_sidsOK h
  exact ⟨h1, fun t ht => h2 t.sid (List.mem_map.2 ⟨t, ht, rfl⟩)⟩

/-- `broadcast_exactly_once` in a reachable state: no hypothesis on the ids -/
theorem broadcast_exactly_once_reach (sv : Server) (h : RReach sv) (sid tag : Nat) (s : Sess)
    (hs : sv.sess? sid = some s) (hk : s.hasRouteKeys = false) :
    (∀ t ∈ sv.sessions, ∃ t', (sendMsg sv sid tag []).sess? t.sid = some t' ∧
        t'.inbox = (if t.sid ≠ sid ∨ s.reflectSelf = true then t.inbox ++ [msgText sid tag] else t.inbox) ∧
        { t' with inbox := t.inbox } = t) ∧
    (sendMsg sv sid tag []).sessions.map (·.sid) = sv.sessions.map (·.sid) ∧
    (sendMsg sv sid tag []).root = sv.root ∧
    (sendMsg sv sid tag []).live = sv.live ∧
    (sendMsg sv sid tag []).nextSid = sv.nextSid ∧
    (sendMsg sv sid tag []).subsDirty = sv.subsDirty ∧
    (sendMsg sv sid tag []).maxItemsDefault = sv.maxItemsDefault :=
  broadcast_exactly_once sv (rt_reach_sidsOK h).1 sid tag s hs hk

theorem broadcast_session_table_reach (sv : Server) (h : RReach sv) (sid tag : Nat) (s : Sess)
    (hs : sv.sess? sid = some s) (hk : s.hasRouteKeys = false) :
    (sendMsg sv sid tag []).sessions =
      sv.sessions.map (fun t => if t.sid ≠ sid ∨ s.reflectSelf = true then { t with inbox := t.inbox ++ [msgText sid tag] } else t) :=
  broadcast_session_table sv (rt_reach_sidsOK h).1 sid tag s hs hk

theorem broadcast_sender_excluded_unless_reflect_reach (sv : Server) (h : RReach sv) (sid tag : Nat) (s : Sess)
    (hs : sv.sess? sid = some s) (hk : s.hasRouteKeys = false) :
    ∃ s', (sendMsg sv sid tag []).sess? sid = some s' ∧
      s'.inbox = (if s.reflectSelf = true then s.inbox ++ [msgText sid tag] else s.inbox) ∧
      { s' with inbox := s.inbox } = s :=
  broadcast_sender_excluded_unless_reflect sv (rt_reach_sidsOK h).1 sid tag s hs hk

/-- the same for the states of C04 (`MReach`: commands restricted by `CmdOK`), which are `RReach` states -/
theorem broadcast_exactly_once_mreach (sv : Server) (h : MReach sv) (sid tag : Nat) (s : Sess)
    (hs : sv.sess? sid = some s) (hk : s.hasRouteKeys = false) :
    (∀ t ∈ sv.sessions, ∃ t', (sendMsg sv sid tag []).sess? t.sid = some t' ∧
        t'.inbox = (if t.sid ≠ sid ∨ s.reflectSelf = true then t.inbox ++ [msgText sid tag] else t.inbox) ∧
        { t' with inbox := t.inbox } = t) ∧
    (sendMsg sv sid tag []).sessions.map (·.sid) = sv.sessions.map (·.sid) ∧
    (sendMsg sv sid tag []).root = sv.root ∧
    (sendMsg sv sid tag []).live = sv.live ∧
    (sendMsg sv sid tag []).nextSid = sv.nextSid ∧
    (sendMsg sv sid tag []).subsDirty = sv.subsDirty ∧
    (sendMsg sv sid tag []).maxItemsDefault = sv.maxItemsDefault :=
  broadcast_exactly_once_reach sv (rt_of_mreach h) sid tag s hs hk

/-- non-vacuity: the concrete three-session state of `Props/C05.lean` is reachable, so the corollary applies to it -/
example : (sendMsg exBcSv 0 7 []).sessions.map (·.sid) = exBcSv.sessions.map (·.sid) :=
  (broadcast_exactly_once_reach exBcSv (.attach _ _ (.attach _ _ (.attach _ _ .init))) 0 7
    { slot := 0, sid := 0, host := [104] } rfl rfl).2.1

end Muscle.Props.C05
