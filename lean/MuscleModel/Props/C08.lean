import MuscleModel.Props.C01
import MuscleModel.Wire.Frame
import MuscleModel.Spec.WireConstants
import MuscleModel.Generated.Dialects

/-!
# C08 — All Message implementations agree on one wire format, byte for byte

Property theorems only.  What is PROVED here is about the model `encode` (= `Message::Flatten`, tied to the C++ code
by the correspondence run of engine `msg`, which harness `xwire` drives on the common repertoire):

* `constants_as_documented` — every constant regenerated from /repo on this run (C++ headers, the C mini and micro
  codecs and their gateways, the Python codec and its transceiver) equals the hand-typed documented table
  `Spec/WireConstants.lean`; `documented_constants_are_fourcc` ties that table to the four-character codes;
* `header_layout`, `field_layout`, `payload_layout_*` — the bytes `encode` produces ARE the documented layout;
* `encode_injective` — two well-formed Messages with the same bytes have the same content (so "parse to the same
  content" is well defined: the bytes determine the content);
* `frame_roundtrip` — the 8-byte length/encoding frame.

NOT proved (partial by design, DESIGN.md C08): the internals of the C and Python codecs are not modelled; that they
read and write this layout is established by the direct oracle of harness `xwire`, not by a theorem.
Numbers ↔ item bytes: an item of a fixed-size type is its flattened bytes in the model; the little-endian conversion
(`leN`) sits in the op layer of engine `msg` and is tied to `DataFlattener::WritePrimitive` by the correspondence run.
-/

set_option linter.unusedSimpArgs false

namespace Muscle.Props.C08
open Muscle Muscle.Wire

/-- Every wire constant of every implementation, as regenerated from /repo's current source, is the documented one. -/
theorem constants_as_documented :
    -- C++ (message/Message.h, support/MuscleSupport.h, iogateway/MessageIOGateway.h)
    (Gen.protocolVersion = Spec.protocolVersion ∧ Gen.oldestProtocolVersion = Spec.protocolVersion ∧
     [Gen.tcBool, Gen.tcDouble, Gen.tcFloat, Gen.tcInt64, Gen.tcInt32, Gen.tcInt16, Gen.tcInt8, Gen.tcMessage,
      Gen.tcPointer, Gen.tcPoint, Gen.tcRect, Gen.tcString, Gen.tcRaw, Gen.tcTag, Gen.tcAny]
     = [Spec.tcBool, Spec.tcDouble, Spec.tcFloat, Spec.tcInt64, Spec.tcInt32, Spec.tcInt16, Spec.tcInt8, Spec.tcMessage,
        Spec.tcPointer, Spec.tcPoint, Spec.tcRect, Spec.tcString, Spec.tcRaw, Spec.tcTag, Spec.tcAny] ∧
     [Gen.encodingDefault, Gen.encodingZlib1, Gen.encodingZlib2, Gen.encodingZlib3, Gen.encodingZlib4, Gen.encodingZlib5,
      Gen.encodingZlib6, Gen.encodingZlib7, Gen.encodingZlib8, Gen.encodingZlib9, Gen.encodingEndMarker]
     = (List.range 10).map Spec.encoding ++ [Spec.encodingEnd] ∧
     Gen.gatewayHeaderSize = Spec.frameHeaderSize ∧
     (∀ p ∈ Spec.itemSizes, Gen.wireItemSize p.1 = p.2) ∧ (∀ tc ∈ Spec.variableTypes, Gen.wireItemSize tc = 0)) ∧
    -- C mini codec (lang/c/minimessage/MiniMessage.c, MiniMessageGateway.c)
    (Gen.miniProtocolVersion = Spec.protocolVersion ∧ Gen.miniOldestProtocolVersion = Spec.protocolVersion ∧
     [Gen.miniTcBool, Gen.miniTcDouble, Gen.miniTcFloat, Gen.miniTcInt64, Gen.miniTcInt32, Gen.miniTcInt16, Gen.miniTcInt8,
      Gen.miniTcMessage, Gen.miniTcPointer, Gen.miniTcPoint, Gen.miniTcRect, Gen.miniTcString, Gen.miniTcRaw, Gen.miniTcTag, Gen.miniTcAny]
     = [Spec.tcBool, Spec.tcDouble, Spec.tcFloat, Spec.tcInt64, Spec.tcInt32, Spec.tcInt16, Spec.tcInt8, Spec.tcMessage,
        Spec.tcPointer, Spec.tcPoint, Spec.tcRect, Spec.tcString, Spec.tcRaw, Spec.tcTag, Spec.tcAny] ∧
     [Gen.miniSzBool, Gen.miniSzInt8, Gen.miniSzInt16, Gen.miniSzInt32, Gen.miniSzInt64, Gen.miniSzFloat, Gen.miniSzDouble, Gen.miniSzPoint, Gen.miniSzRect]
     = [Spec.szBool, Spec.szInt8, Spec.szInt16, Spec.szInt32, Spec.szInt64, Spec.szFloat, Spec.szDouble, Spec.szPoint, Spec.szRect] ∧
     Gen.miniHeaderSize = Spec.messageHeaderSize ∧ Gen.miniGwEncodingDefault = Spec.encoding 0 ∧ Gen.miniGwHeaderSize = Spec.frameHeaderSize) ∧
    -- C micro codec (lang/c/micromessage/MicroMessage.c, MicroMessageGateway.c)
    (Gen.microProtocolVersion = Spec.protocolVersion ∧ Gen.microOldestProtocolVersion = Spec.protocolVersion ∧
     [Gen.microTcBool, Gen.microTcDouble, Gen.microTcFloat, Gen.microTcInt64, Gen.microTcInt32, Gen.microTcInt16, Gen.microTcInt8,
      Gen.microTcMessage, Gen.microTcPointer, Gen.microTcPoint, Gen.microTcRect, Gen.microTcString, Gen.microTcRaw, Gen.microTcTag, Gen.microTcAny]
     = [Spec.tcBool, Spec.tcDouble, Spec.tcFloat, Spec.tcInt64, Spec.tcInt32, Spec.tcInt16, Spec.tcInt8, Spec.tcMessage,
        Spec.tcPointer, Spec.tcPoint, Spec.tcRect, Spec.tcString, Spec.tcRaw, Spec.tcTag, Spec.tcAny] ∧
     [Gen.microSzBool, Gen.microSzInt8, Gen.microSzInt16, Gen.microSzInt32, Gen.microSzInt64, Gen.microSzFloat, Gen.microSzDouble, Gen.microSzPoint, Gen.microSzRect]
     = [Spec.szBool, Spec.szInt8, Spec.szInt16, Spec.szInt32, Spec.szInt64, Spec.szFloat, Spec.szDouble, Spec.szPoint, Spec.szRect] ∧
     Gen.microHeaderSize = Spec.messageHeaderSize ∧ Gen.microGwMessageHeaderSize = Spec.messageHeaderSize ∧
     Gen.microGwEncodingDefault = Spec.encoding 0 ∧ Gen.microGwHeaderSize = Spec.frameHeaderSize) ∧
    -- Python codec (lang/python3/message.py, message_transceiver_thread.py); message.py has no tag type
    (Gen.pyProtocolVersion = Spec.protocolVersion ∧
     [Gen.pyTcBool, Gen.pyTcDouble, Gen.pyTcFloat, Gen.pyTcInt64, Gen.pyTcInt32, Gen.pyTcInt16, Gen.pyTcInt8,
      Gen.pyTcMessage, Gen.pyTcPointer, Gen.pyTcPoint, Gen.pyTcRect, Gen.pyTcString, Gen.pyTcRaw, Gen.pyTcAny]
     = [Spec.tcBool, Spec.tcDouble, Spec.tcFloat, Spec.tcInt64, Spec.tcInt32, Spec.tcInt16, Spec.tcInt8, Spec.tcMessage,
        Spec.tcPointer, Spec.tcPoint, Spec.tcRect, Spec.tcString, Spec.tcRaw, Spec.tcAny] ∧
     [Gen.pySzBool, Gen.pySzInt8, Gen.pySzInt16, Gen.pySzInt32, Gen.pySzInt64, Gen.pySzFloat, Gen.pySzDouble, Gen.pySzPoint, Gen.pySzRect]
     = [Spec.szBool, Spec.szInt8, Spec.szInt16, Spec.szInt32, Spec.szInt64, Spec.szFloat, Spec.szDouble, Spec.szPoint, Spec.szRect] ∧
     Gen.pyHeaderSize = Spec.messageHeaderSize ∧ Gen.pyGwEncodingDefault = Spec.encoding 0) := by
  decide

/-- The documented numbers are the four-character codes the documentation names. -/
theorem documented_constants_are_fourcc :
    Spec.protocolVersion = Spec.fourCC 'P' 'M' '0' '0' ∧
    Spec.tcBool = Spec.fourCC 'B' 'O' 'O' 'L' ∧ Spec.tcDouble = Spec.fourCC 'D' 'B' 'L' 'E' ∧
    Spec.tcFloat = Spec.fourCC 'F' 'L' 'O' 'T' ∧ Spec.tcInt64 = Spec.fourCC 'L' 'L' 'N' 'G' ∧
    Spec.tcInt32 = Spec.fourCC 'L' 'O' 'N' 'G' ∧ Spec.tcInt16 = Spec.fourCC 'S' 'H' 'R' 'T' ∧
    Spec.tcInt8 = Spec.fourCC 'B' 'Y' 'T' 'E' ∧ Spec.tcMessage = Spec.fourCC 'M' 'S' 'G' 'G' ∧
    Spec.tcPointer = Spec.fourCC 'P' 'N' 'T' 'R' ∧ Spec.tcPoint = Spec.fourCC 'B' 'P' 'N' 'T' ∧
    Spec.tcRect = Spec.fourCC 'R' 'E' 'C' 'T' ∧ Spec.tcString = Spec.fourCC 'C' 'S' 'T' 'R' ∧
    Spec.tcRaw = Spec.fourCC 'R' 'A' 'W' 'T' ∧ Spec.tcTag = Spec.fourCC 'M' 'T' 'A' 'G' ∧
    Spec.tcAny = Spec.fourCC 'A' 'N' 'Y' 'T' ∧
    Spec.encoding 0 = Spec.fourCC 'E' 'n' 'c' '0' ∧ Spec.encoding 9 = Spec.fourCC 'E' 'n' 'c' '9' ∧
    Spec.encodingEnd = Spec.encoding 9 + 1 := by
  decide

/-! ## layout of the bytes `encode` produces -/

/-- The first 12 bytes: little-endian protocol version, what-code, number of flattenable fields. -/
theorem header_layout (m : Msg) :
    (encode m).take 12 = le32 Gen.protocolVersion ++ (le32 m.what ++ le32 (countFlat m.fields)) := by
  cases m with
  | mk w fs =>
    have h : (le32 Gen.protocolVersion ++ (le32 w ++ le32 (countFlat fs))).length = 12 := by simp
    have e : encode (.mk w fs) = (le32 Gen.protocolVersion ++ (le32 w ++ le32 (countFlat fs))) ++ encFields fs := by
      simp [encode, encMsg]
    rw [e, ← h, List.take_left']
    · rfl
    · rfl

/-- …and on the wire the version word is the four bytes `30 30 4D 50` ('PM00' little-endian). -/
theorem header_magic_bytes (m : Msg) : (encode m).take 4 = [0x30, 0x30, 0x4D, 0x50] := by
  cases m with
  | mk w fs =>
    have e : encode (.mk w fs) = le32 Gen.protocolVersion ++ (le32 w ++ (le32 (countFlat fs) ++ encFields fs)) := by
      simp [encode, encMsg]
    have h : (le32 Gen.protocolVersion).length = 4 := by simp
    rw [e, ← h, List.take_left']
    · decide
    · rfl

/-- After the header come the fields, in order; nothing else. -/
theorem body_layout (m : Msg) :
    encode m = le32 Gen.protocolVersion ++ (le32 m.what ++ (le32 (countFlat m.fields) ++ encFields m.fields)) := by
  cases m with
  | mk w fs => simp [encode, encMsg, Msg.what, Msg.fields]

/-- Per flattenable field: le32 (name length + 1), the name, a NUL, le32 type code, le32 payload length, payload;
    then the remaining fields. -/
theorem field_layout (n : Bytes) (f : Field) (r : List (Bytes × Field)) (h : f.flattenable = true) :
    encFields ((n, f) :: r) =
      le32 (n.length + 1) ++ (n ++ ([0] ++ (le32 f.typeCode ++ (le32 (encPayload f).length ++ (encPayload f ++ encFields r))))) := by
  cases f <;> simp [encFields, encPayload, Field.typeCode, Field.flattenable] at h ⊢

/-- Pointer and tag fields are never on the wire. -/
theorem field_layout_opaque (n : Bytes) (tc k : Nat) (r : List (Bytes × Field)) :
    encFields ((n, .opaque tc k) :: r) = encFields r := by
  simp [encFields]

/-- Fixed-size types (bool, int8…int64, float, double, point, rect): the items' bytes one after the other, no count,
    no padding.  (In a well-formed Message each item has exactly `wireItemSize tc` bytes, see `payload_length_fixed`.) -/
theorem payload_layout_fixed (tc : Nat) (rp : Rep) (xs : List Bytes) (h : rp = .inl → xs.length = 1) :
    encPayload (.fixed tc rp xs) = xs.flatten := by
  have : ∀ ys : List Bytes, encFixedArr ys = ys.flatten := by
    intro ys; induction ys with
    | nil => rfl
    | cons y r ih => simp [encFixedArr, ih]
  simp [encPayload, encFixed_eq_arr rp xs h, this]

/-- …so a fixed-size field of `k` items has `k × (documented item size)` payload bytes: bool 1, int8 1, int16 2,
    int32 4, int64 8, float 4, double 8, point 8, rect 16. -/
theorem payload_length_fixed (tc sz : Nat) (rp : Rep) (xs : List Bytes) (hp : (tc, sz) ∈ Spec.itemSizes)
    (h : rp = .inl → xs.length = 1) (hx : ∀ x ∈ xs, x.length = Gen.wireItemSize tc) :
    (encPayload (.fixed tc rp xs)).length = xs.length * sz := by
  have hs : Gen.wireItemSize tc = sz := (constants_as_documented.1.2.2.2.2.2.1) (tc, sz) hp
  simp only [encPayload, encFixed_eq_arr rp xs h]
  rw [← hs]
  exact encFixedArr_length _ xs hx

/-- Strings: item count, then per string le32 (length + 1), the bytes, a NUL. -/
theorem payload_layout_string (rp : Rep) (xs : List Bytes) (h : rp = .inl → xs.length = 1) :
    encPayload (.strs rp xs) = le32 xs.length ++ (xs.map (fun s => le32 (s.length + 1) ++ (s ++ [0]))).flatten := by
  have : ∀ ys : List Bytes, encStrItems ys = (ys.map (fun s => le32 (s.length + 1) ++ (s ++ [0]))).flatten := by
    intro ys; induction ys with
    | nil => rfl
    | cons y r ih => simp [encStrItems, ih]
  simp [encPayload, encStrs_eq_arr rp xs h, this]

/-- Raw data (any other type code): item count, then per item le32 length and the bytes. -/
theorem payload_layout_raw (tc : Nat) (rp : Rep) (xs : List Bytes) (h : rp = .inl → xs.length = 1) :
    encPayload (.raws tc rp xs) = le32 xs.length ++ (xs.map (fun b => le32 b.length ++ b)).flatten := by
  have : ∀ ys : List Bytes, encRawItems ys = (ys.map (fun b => le32 b.length ++ b)).flatten := by
    intro ys; induction ys with
    | nil => rfl
    | cons y r ih => simp [encRawItems, ih]
  simp [encPayload, encRaws_eq_arr rp xs h, this]

/-- Sub-Messages: per item le32 length and the flattened Message — and NO item count (the historical special case). -/
theorem payload_layout_message (rp : Rep) (ms : List Msg) (h : rp = .inl → ms.length = 1) :
    encPayload (.msgs rp ms) = (ms.map (fun m => le32 (encode m).length ++ encode m)).flatten := by
  have : ∀ ys : List Msg, encMsgItems ys = (ys.map (fun m => le32 (encode m).length ++ encode m)).flatten := by
    intro ys; induction ys with
    | nil => simp [encMsgItems]
    | cons y r ih => simp [encMsgItems, ih, encode]
  simp [encPayload, encMsgsF_eq_items rp ms h, this]

/-- The bytes determine the content: two well-formed Messages that flatten to the same bytes are equal up to
    what a round trip may change (non-flattenable fields, inline/array representation). -/
theorem encode_injective (m₁ m₂ : Msg) (h₁ : wfMsg m₁) (h₂ : wfMsg m₂) (h : encode m₁ = encode m₂) :
    tripMsg m₁ = tripMsg m₂ := by
  have d1 := Muscle.Props.C01.decode_encode (max (depthMsg m₁) (depthMsg m₂)) m₁ h₁ (Nat.le_max_left _ _)
  have d2 := Muscle.Props.C01.decode_encode (max (depthMsg m₁) (depthMsg m₂)) m₂ h₂ (Nat.le_max_right _ _)
  rw [h] at d1
  exact Option.some.inj (d1.symm.trans d2)

/-- The 8-byte frame: what the sender wraps, the receiver unwraps — for every encoding id and every body that fits. -/
theorem frame_roundtrip (enc : Nat) (body : Bytes) (he : validEncoding enc = true)
    (hl : Gen.gatewayHeaderSize + body.length < 4294967296) :
    unframe (frame enc body) = some (enc, body) := by
  have := unframeStream_frame enc body [] he hl
  simp only [List.append_nil] at this
  simp [unframe, this]

/-- …and in a stream the bytes behind a frame are left untouched. -/
theorem frame_roundtrip_stream (enc : Nat) (body rest : Bytes) (he : validEncoding enc = true)
    (hl : Gen.gatewayHeaderSize + body.length < 4294967296) :
    unframeStream (frame enc body ++ rest) = some (enc, body, rest) :=
  unframeStream_frame enc body rest he hl

/-- The frame header is exactly: le32 body length, le32 encoding. -/
theorem frame_layout (enc : Nat) (body : Bytes) :
    (frame enc body).take 8 = le32 body.length ++ le32 enc ∧ (frame enc body).drop 8 = body := by
  have h : (le32 body.length ++ le32 enc).length = 8 := by simp
  have e : frame enc body = (le32 body.length ++ le32 enc) ++ body := by simp [frame]
  constructor
  · rw [e, ← h, List.take_left']; rfl
  · rw [e, ← h, List.drop_left']; rfl

/-! Non-vacuity: the hypotheses are satisfiable and the statements compute on a concrete Message. -/

example : validEncoding (Spec.encoding 0) = true ∧ validEncoding (Spec.encoding 9) = true ∧ validEncoding Spec.encodingEnd = false := by decide
example : unframe (frame (Spec.encoding 0) [1, 2, 3]) = some (Spec.encoding 0, [1, 2, 3]) :=
  frame_roundtrip _ _ (by decide) (by decide)
example : frame (Spec.encoding 0) [7] = [1, 0, 0, 0, 0x30, 0x63, 0x6e, 0x45, 7] := by decide
example : (encode Muscle.Props.C01.sample).take 12 = [0x30, 0x30, 0x4D, 0x50, 42, 0, 0, 0, 3, 0, 0, 0] := by
  rw [header_layout]
  simp [Muscle.Props.C01.sample, Msg.what, Msg.fields, countFlat, le32, leN, Gen.protocolVersion]
example : wfMsg Muscle.Props.C01.sample → tripMsg Muscle.Props.C01.sample = tripMsg Muscle.Props.C01.sample :=
  fun h => encode_injective _ _ h h rfl

end Muscle.Props.C08
