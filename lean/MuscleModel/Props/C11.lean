import MuscleModel.Conc.ProofsTQFifo
import MuscleModel.Conc.ProofsTQInv
import MuscleModel.Conc.ProofsTQLive
import MuscleModel.Conc.ProofsTQRank

/-!
# C11 — Thread-to-owner Messages arrive exactly once, in order, and always wake the peer

Statements only (proofs call lemmas of `MuscleModel/Conc/ProofsTQ*.lean`).  The model is
`MuscleModel/Conc/ThreadQueue.lean`: one `muscle::Thread`, its owner (user thread 0), any number of extra sender threads
and the internal thread(s).  Every theorem quantifies over **both** signalling mechanisms (`mode : sock | cond`), **all**
programs of the owner (start, send, poll / blocking / timed receive, shutdown with and without join, join, restart, in
any order and number), **any number** of sender threads with any programs of sends, and **every** schedule of thread
steps and time-out events: `Reachable mode progs c` = "`c` is reachable from the initial configuration by some sequence
of enabled events".  `OwnerOnly progs` is the usage rule of the class: only the owner starts, receives replies, shuts
down and joins; other threads only send.
-/

namespace Muscle.Props.C11
open Muscle.Conc Muscle.Conc.TQ

/-- reachable from the initial configuration of `progs` (user thread `i` runs `progs[i]`) under some schedule -/
def Reachable (mode : Mode) (progs : List (List Op)) (c : Cfg) : Prop := machine.Reach (Cfg.init mode progs) c

/-- every result of running a schedule (SKIP rule) and then the TAIL rule — what `mdriver thr` prints — is reachable -/
theorem driver_runs_are_reachable (mode : Mode) (progs : List (List Op)) (evs : List Ev) (n fuel : Nat) :
    Reachable mode progs (machine.runTail n fuel (machine.runSched (Cfg.init mode progs) evs).1).1 :=
  machine.reach_runTail n fuel (machine.reach_runSched Machine.Reach.init evs)

/-- **Exactly once, in order** (both directions, no hypothesis on the programs): at every instant, what the receiver has
taken out of a queue, followed by what is still queued, is exactly what was put in, in the order of the critical
sections that put it in. -/
theorem fifo_exactly_once {mode progs c} (h : Reachable mode progs c) (d : Dir) :
    (c.sh.ch d).recvd ++ (c.sh.ch d).queue = (c.sh.ch d).sent := by
  cases d
  · exact (reach_fifo h).1
  · exact (reach_fifo h).2

/-- consequences: the received sequence is a prefix of the sent sequence, and nothing is received twice unless it was
sent twice -/
theorem received_is_prefix {mode progs c} (h : Reachable mode progs c) (d : Dir) : (c.sh.ch d).recvd <+: (c.sh.ch d).sent :=
  ⟨_, fifo_exactly_once h d⟩

theorem received_once {mode progs c} (h : Reachable mode progs c) (d : Dir) (hs : (c.sh.ch d).sent.Nodup) :
    ((c.sh.ch d).recvd ++ (c.sh.ch d).queue).Nodup := by
  rw [fifo_exactly_once h d]; exact hs

/-- non-vacuity: a Message and its reply really travel (socket mode, the TAIL schedule) -/
example : ∃ c, Reachable .sock [[.start, .send ⟨1, 1⟩, .recv, .shutdown true]] c ∧
    c.sh.ci.recvd = [some ⟨1, 1⟩, none] ∧ c.sh.co.recvd = [some ⟨11, 0⟩] ∧ (c.th 0).pc = .done ∧ c.ipc = .exited :=
  ⟨(machine.runTail 4 40 (Cfg.init .sock [[.start, .send ⟨1, 1⟩, .recv, .shutdown true]])).1,
   machine.reach_runTail 4 40 Machine.Reach.init, by decide, by decide, by decide, by decide⟩

/-- **No lost wake-up, owner → internal thread.**  Whenever the internal thread is blocked in the wait of
`WaitForNextMessageFromOwner()` while a Message is queued for it, a wake-up signal is pending (a byte in the socket
pair / a counted notification), or some thread stands between the unlock of `SendMessageAux()` with
`sendNotification = true` (resp. the spawn in `StartInternalThread()` with `needsInitialSignal = true`) and its signal. -/
theorem no_lost_wakeup {mode progs c} (hw : OwnerOnly progs) (h : Reachable mode progs c)
    (hb : c.ipc = .recvWait) (hq : c.sh.ci.queue ≠ []) :
    c.sh.ci.sig > 0 ∨ ∃ t, t < c.n ∧ ((∃ tj, (c.th t).pc = .sendSig tj) ∨ (c.th t).pc = .startSig) := by
  have hi := reach_inv hw h
  rcases hi.wakeI hb hq with hs | ⟨t, ht⟩
  · exact Or.inl hs
  · refine Or.inr ⟨t, ?_, ?_⟩
    · apply Classical.byContradiction
      intro hn
      have := hi.outside t (Nat.le_of_not_lt hn)
      simp [this, isSigPc] at ht
    · cases hp : (c.th t).pc <;> simp_all [isSigPc]

/-- **No lost wake-up, internal thread → owner.**  Whenever the owner is blocked in the wait of
`GetNextReplyFromInternalThread()` while a reply is queued, a signal is pending, or (socket mode) the internal thread has
closed its socket so that the owner's `select()` returns, or the internal thread stands between an unlock of the reply
queue and `SignalOwner()`. -/
theorem no_lost_wakeup_reply {mode progs c} (hw : OwnerOnly progs) (h : Reachable mode progs c) (w : Wk)
    (hb : (c.th 0).pc = .recvWait w) (hq : c.sh.co.queue ≠ []) :
    c.sh.co.sig > 0 ∨ (c.sh.mode = .sock ∧ c.sh.closedO = true) ∨ c.ipc = .entrySig ∨ ∃ id j k, c.ipc = .replySig id j k :=
  (reach_inv hw h).wakeO w hb hq

/-- in both cases "pending" means the blocked receiver (or the signaller) can take a step: the wake-up is not only
promised but enabled -/
theorem wakeup_is_enabled {mode progs c} (hw : OwnerOnly progs) (h : Reachable mode progs c) :
    (c.ipc = .recvWait → c.sh.ci.queue ≠ [] → ¬ Quiescent c) ∧
    (∀ w, (c.th 0).pc = .recvWait w → c.sh.co.queue ≠ [] → ¬ Quiescent c) := by
  have hi := reach_inv hw h
  constructor
  · intro hb hq hqu
    have := ((quiescent_shape hi hqu).1 (by simp [hb])).2
    exact hq this
  · intro w hb hq hqu
    rcases (quiescent_shape hi hqu).2 0 (by simp [hb]) with ⟨_, ⟨w', _, he⟩ | ⟨b, hj, _⟩⟩
    · exact hq he
    · simp [hb] at hj

/-- non-vacuity of `no_lost_wakeup`: the window "enqueued, not yet signalled, receiver already blocked" is reachable
(wait-condition mode; thread 1 is the internal thread) -/
example : ∃ c, Reachable .cond [[.start, .send ⟨1, 0⟩]] c ∧ c.ipc = .recvWait ∧ c.sh.ci.queue ≠ [] ∧ c.sh.ci.sig = 0 ∧
    (c.th 0).pc = .sendSig false :=
  ⟨(machine.runSched (Cfg.init .cond [[.start, .send ⟨1, 0⟩]]) [.run 0, .run 1, .run 1, .run 1, .run 0]).1,
   machine.reach_runSched Machine.Reach.init _, by decide, by decide, by decide, by decide⟩

/-- **No deadlock** other than waiting for Messages that nobody sends: in a reachable configuration where no event is
enabled, the internal thread (if it is alive) waits on an EMPTY queue, and every unfinished user thread is the owner,
who either waits for a reply on an EMPTY reply queue or joins an internal thread that waits on an empty queue (i.e. one
that was never asked to exit).  No thread is ever stuck at a lock, at a signal, or at a wait with a Message queued. -/
theorem deadlock_free {mode progs c} (hw : OwnerOnly progs) (h : Reachable mode progs c) (hq : Quiescent c) :
    (c.ipc ≠ .exited → c.ipc = .recvWait ∧ c.sh.ci.queue = []) ∧
    (∀ t, (c.th t).pc ≠ .done → t = 0 ∧
      ((∃ w, (c.th 0).pc = .recvWait w ∧ c.sh.co.queue = []) ∨
       (∃ b, (c.th 0).pc = .join b ∧ c.ipc = .recvWait ∧ c.sh.ci.queue = []))) :=
  quiescent_shape (reach_inv hw h) hq

/-- non-vacuity: the justified blocking does occur (the owner waits for a reply that was never requested) -/
example : ∃ c, Reachable .sock [[.start, .recv]] c ∧ Quiescent c ∧ (c.th 0).pc = .recvWait .block ∧ c.ipc = .recvWait := by
  refine ⟨(machine.runTail 4 40 (Cfg.init .sock [[.start, .recv]])).1, machine.reach_runTail 4 40 Machine.Reach.init, ?_, by decide, by decide⟩
  intro e
  have hn : (machine.runTail 4 40 (Cfg.init .sock [[.start, .recv]])).1.n = 1 := by decide
  have hg : (machine.runTail 4 40 (Cfg.init .sock [[.start, .recv]])).1.sh.gen = 1 := by decide
  cases e with
  | run t =>
    by_cases h0 : t = 0
    · subst h0; decide
    · by_cases h1 : t = 1
      · subst h1; decide
      · have h2 : ¬ t < 1 := fun h => h0 (Nat.lt_one_iff.mp h)
        simp [step, hn, hg, Cfg.intTid, h1, h2]
  | timeout t =>
    by_cases h0 : t = 0
    · subst h0; decide
    · have h2 : ¬ t < 1 := fun h => h0 (Nat.lt_one_iff.mp h)
      simp [step, hn, h2]

/-- **Messages queued before the thread was started are delivered once it starts.**
(1) `StartInternalThread()` on a non-empty queue spawns the thread and leaves the owner in front of the initial
signal — the pending signaller that `no_lost_wakeup` counts.
(2) In every reachable configuration where nothing can run and the internal thread is alive, *everything* ever queued
for it — before or after the start, by any thread — has been received, in order. -/
theorem prestart_delivered {mode progs c} (hw : OwnerOnly progs) (h : Reachable mode progs c) :
    (∀ rest, 0 < c.n → (c.th 0).pc = .idle → (c.th 0).prog = .start :: rest → c.sh.running = false → c.sh.ci.queue ≠ [] →
      ∃ c', step c (.run 0) = some (c', .quiet) ∧ (c'.th 0).pc = .startSig ∧ c'.ipc = .start ∧ c'.sh.ci.queue = c.sh.ci.queue) ∧
    (Quiescent c → c.ipc ≠ .exited → c.sh.ci.recvd = c.sh.ci.sent) := by
  constructor
  · intro rest hn hpc hprog hr hq
    exact start_step hn hpc hprog hr hq
  · intro hq hlive
    have he := ((quiescent_shape (reach_inv hw h) hq).1 hlive).2
    have hf := (reach_fifo h).1
    simp only [Chan.Fifo, he, List.append_nil] at hf
    exact hf

/-- non-vacuity: two Messages queued before the start are received after it (both modes) -/
example : ∀ mode, ∃ c, Reachable mode [[.send ⟨1, 0⟩, .send ⟨2, 0⟩, .start, .shutdown true]] c ∧
    c.sh.ci.recvd = [some ⟨1, 0⟩, some ⟨2, 0⟩, none] ∧ (c.th 0).pc = .done := by
  intro mode
  refine ⟨(machine.runTail 4 40 (Cfg.init mode [[.send ⟨1, 0⟩, .send ⟨2, 0⟩, .start, .shutdown true]])).1,
    machine.reach_runTail 4 40 Machine.Reach.init, ?_, ?_⟩ <;> cases mode <;> decide

/-- **Shutdown completes.**
(1) *Never stuck*: while the owner is inside `ShutdownInternalThread(true)` with the NULL Message enqueued (in front of
its signal, or in the join), some event is enabled — whatever else is queued, whatever the other threads do.
(2) *Every execution is finite*: `rank` strictly decreases with every step of every thread from every reachable
configuration under every schedule (`no_infinite_run` below is the well-foundedness form), so at most `rank c` more
steps can happen.  Hence every maximal execution (a fortiori every fair one) from such a configuration leaves it, and
the only way out is the join step (3), after which the thread is not running.
Fairness is not needed beyond "enabled events keep being scheduled", because (2) holds for every schedule. -/
theorem shutdown_completes {mode progs c} (hw : OwnerOnly progs) (h : Reachable mode progs c)
    (hp : (c.th 0).pc = .sendSig true ∨ (c.th 0).pc = .join true) :
    (¬ Quiescent c) ∧
    (∀ c1 e c2 o, Reachable mode progs c1 → step c1 e = some (c2, o) → rank c2 < rank c1) ∧
    (∀ c' o, (c.th 0).pc = .join true → step c (.run 0) = some (c', o) → c'.sh.running = false ∧ (c'.th 0).pc ≠ .join true) :=
  ⟨shutdown_not_quiescent (reach_inv hw h) hp, fun _ _ _ _ hr hs => step_decreases (reach_inv hw hr) hs,
   fun _ _ hj hs => join_step (reach_inv hw h) hj hs⟩

/-- the well-foundedness form of (2): there is no infinite execution, under any schedule -/
theorem no_infinite_run {mode progs} (hw : OwnerOnly progs) :
    WellFounded (fun c' c : Cfg => Reachable mode progs c ∧ ∃ e o, step c e = some (c', o)) :=
  Subrelation.wf (r := fun c' c => rank c' < rank c) (fun ⟨hr, _, _, hs⟩ => step_decreases (reach_inv hw hr) hs) (measure rank).wf

/-- non-vacuity: shutdown with two Messages still queued completes; the internal thread handles them first -/
example : ∃ c, Reachable .cond [[.start, .send ⟨1, 2⟩, .send ⟨2, 0⟩, .shutdown true]] c ∧
    c.sh.ci.recvd = [some ⟨1, 2⟩, some ⟨2, 0⟩, none] ∧ c.sh.running = false ∧ (c.th 0).pc = .done ∧ c.sh.co.queue.length = 2 :=
  ⟨(machine.runTail 4 60 (Cfg.init .cond [[.start, .send ⟨1, 2⟩, .send ⟨2, 0⟩, .shutdown true]])).1,
   machine.reach_runTail 4 60 Machine.Reach.init, by decide, by decide, by decide, by decide⟩

end Muscle.Props.C11
