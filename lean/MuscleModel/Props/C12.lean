import MuscleModel.Tunnel.Proofs4
import MuscleModel.Tunnel.ProofsMini
import MuscleModel.Tunnel.Proofs5
import MuscleModel.Tunnel.Backpressure

/-!
# C12 — The packet tunnel never delivers a Message that was not sent

Property theorems only (lemmas: `Tunnel/Proofs*.lean`; vocabulary: `Tunnel/Spec.lean`, `Tunnel/Net.lean`).
The model (`Tunnel/Frag.lean`, `Tunnel/Mini.lean`) mirrors `PacketTunnelIOGateway::DoOutputImplementation` /
`DoInputImplementation` and the mini tunnel; the tie to the C++ code is the correspondence run of engine `tun`.

* payloads are opaque byte strings (`Bytes`); a datagram is `(source, bytes)`;
* the network is ANY list of datagrams: the safety theorems quantify over every `delivered` list (loss,
  duplication, reordering, arbitrary delay, even forged datagrams as long as what the receiver accepts out of
  them is `Genuine`);
* "ids distinct per source among deliverable packets" is the fact that `sent : SentMap` is a function
  (`safety_any_datagrams`), respectively `ms.length ≤ 2^32` for a concrete sender (`safety`);
* every tunable is a parameter: MTUs, magic, exclusion ids, the size limit, the receive-state cap
  `c.maxStates`, the start value of the id counter.  The header size is the value measured on the code.
-/

namespace Muscle.Props.C12
open Muscle Muscle.Tunnel Muscle.Gen

/-- `FRAGMENT_HEADER_SIZE` as measured on the compiled gateway -/
abbrev hdr : Nat := tunnelFragmentHeaderSize

/-- the model reads six 32-bit words per fragment header: that is the header size measured on the code -/
theorem header_is_six_words : tunnelFragmentHeaderSize = 6 * 4 := by decide

/-- **Invariant.**  Whatever datagrams arrive in whatever order, as long as the fragments the receiver
    accepts stem from sent Messages with per-source distinct ids, every receive state names a sent Message
    and its buffer holds, in its first `off` bytes, exactly that Message's first `off` bytes (and has its
    size): fragments of two Messages are never mixed in one buffer. -/
theorem rx_buffer_prefix (c : RxCfg) (hmisc : c.misc = false) (sent : SentMap) (delivered : List Datagram)
    (hgen : AllGenuine hdr c sent delivered) :
    TableInv sent (rxAll hdr c [] delivered).1 :=
  (rxAll_inv sent hdr c hmisc delivered [] (fun _ _ h => by cases h) hgen).1

/-- …and it is inductive: it holds from every table that satisfies it, not only from the empty one. -/
theorem rx_buffer_prefix_step (c : RxCfg) (hmisc : c.misc = false) (sent : SentMap) (t : Table) (delivered : List Datagram)
    (hinv : TableInv sent t) (hgen : AllGenuine hdr c sent delivered) :
    TableInv sent (rxAll hdr c t delivered).1 :=
  (rxAll_inv sent hdr c hmisc delivered t hinv hgen).1

/-- **Safety, general form.**  For ANY list of datagrams (any loss, duplication, reordering; any receiver
    MTU, size limit, exclusion id, state cap), if the accepted fragments are genuine for a per-source
    id-to-Message FUNCTION `sent`, then every buffer handed to the receiver as coming from `src` is
    bit-identical to a Message that `src` sent. -/
theorem safety_any_datagrams (c : RxCfg) (hmisc : c.misc = false) (sent : SentMap) (delivered : List Datagram)
    (hgen : AllGenuine hdr c sent delivered) :
    ∀ src b, (src, b) ∈ (rxAll hdr c [] delivered).2 → ∃ id, sent src id = some b :=
  (rxAll_inv sent hdr c hmisc delivered [] (fun _ _ h => by cases h) hgen).2

/-- a sending gateway: configuration, start value of `_sendMessageIDCounter`, the payloads it is given -/
structure Source where
  tx : TxCfg
  id0 : Nat
  ms : List Bytes

/-- header words are `uint32`s, payload sizes fit `uint32`, and — the explicit hypothesis of the property —
    the source sends at most 2^32 Messages while its packets can still be delivered, so that no two
    different Messages carry the same id -/
def Source.OK (s : Source) : Prop :=
  s.tx.magic < W32 ∧ s.tx.sex < W32 ∧ s.id0 < W32 ∧ s.ms.length ≤ W32 ∧ ∀ m, m ∈ s.ms → m.length < W32

/-- the datagrams source `s` writes (`DoOutputImplementation` run until its queue is empty) -/
def sentDatagrams (s : Source) : List Bytes := (sendAllBytes hdr s.tx s.id0 s.ms).1

/-- **Safety, for the modelled senders.**  Any number of sources, each a real sender of the model with its
    own MTU, magic, exclusion id and counter start; `delivered` is ANY list over the packets they wrote
    (each datagram of source `s` is one of `s`'s packets — nothing else is assumed).  Then whatever the
    receiver (any MTU — smaller ones truncate —, any filter, any cap) hands on as coming from `src` is one of
    the payloads `src` was given.  In particular fragments of different Messages or of different senders
    are never combined. -/
theorem safety (c : RxCfg) (hmisc : c.misc = false) (srcs : Nat → Source) (hok : ∀ s, (srcs s).OK)
    (delivered : List Datagram) (hnet : ∀ s p, (s, p) ∈ delivered → p ∈ sentDatagrams (srcs s)) :
    ∀ src b, (src, b) ∈ (rxAll hdr c [] delivered).2 → b ∈ (srcs src).ms := by
  intro src b hb
  let sent : SentMap := fun s => sentBy (srcs s).id0 (srcs s).ms
  have hgen : AllGenuine hdr c sent delivered := by
    intro s p hp f hf
    obtain ⟨hmg, hsx, hid, hlen, hW⟩ := hok s
    have hp' := hnet s p hp
    simp only [sentDatagrams, sendAllBytes, List.mem_map] at hp'
    obtain ⟨fr, hfr, rfl⟩ := hp'
    have hst := (sendLoop_stream hdr (effMtu hdr (srcs s).tx.mtu) (srcs s).tx.magic (srcs s).tx.sex (effMtu_gt _ _)
      (txMeasure 0 (srcs s).ms + 1) (srcs s).id0 0 (srcs s).ms (by omega) (offOK_zero _)).1
    have hall := stream_genuine (srcs s).tx.magic (srcs s).tx.sex hmg hsx (srcs s).id0 (srcs s).ms hlen hW s sent rfl hst 0
      (by simp only [W32] at *; omega) (fun i => by simp)
    have hsub : ∀ g, g ∈ fr → FragWF0 g ∧ Genuine sent s g := fun g hg =>
      hall g (List.mem_flatten.mpr ⟨fr, hfr, hg⟩)
    exact (hsub f (accepted_sub hdr c fr (fun g hg => (hsub g hg).1) f hf)).2
  obtain ⟨id, hid⟩ := safety_any_datagrams c hmisc sent delivered hgen src b hb
  exact sentBy_mem _ _ _ _ hid

/-- **Safety also for cut datagrams.**  The same with every delivered datagram being any PREFIX of a packet a
    source wrote: a transport that took only part of a packet (short `Write`), a path that truncates, a
    receiver with a smaller MTU. -/
theorem safety_truncated (c : RxCfg) (hmisc : c.misc = false) (srcs : Nat → Source) (hok : ∀ s, (srcs s).OK)
    (delivered : List Datagram)
    (hnet : ∀ s d, (s, d) ∈ delivered → ∃ p t, p ∈ sentDatagrams (srcs s) ∧ d ++ t = p) :
    ∀ src b, (src, b) ∈ (rxAll hdr c [] delivered).2 → b ∈ (srcs src).ms := by
  intro src b hb
  let sent : SentMap := fun s => sentBy (srcs s).id0 (srcs s).ms
  have hgen : AllGenuine hdr c sent delivered := by
    intro s d hd f hf
    obtain ⟨hmg, hsx, hid, hlen, hW⟩ := hok s
    obtain ⟨p, t, hp', hpre⟩ := hnet s d hd
    simp only [sentDatagrams, sendAllBytes, List.mem_map] at hp'
    obtain ⟨fr, hfr, rfl⟩ := hp'
    have hst := (sendLoop_stream hdr (effMtu hdr (srcs s).tx.mtu) (srcs s).tx.magic (srcs s).tx.sex (effMtu_gt _ _)
      (txMeasure 0 (srcs s).ms + 1) (srcs s).id0 0 (srcs s).ms (by omega) (offOK_zero _)).1
    have hall := stream_genuine (srcs s).tx.magic (srcs s).tx.sex hmg hsx (srcs s).id0 (srcs s).ms hlen hW s sent rfl hst 0
      (by simp only [W32] at *; omega) (fun i => by simp)
    have hsub : ∀ g, g ∈ fr → FragWF0 g ∧ Genuine sent s g := fun g hg =>
      hall g (List.mem_flatten.mpr ⟨fr, hfr, hg⟩)
    have hmem : f ∈ fr :=
      parse_sub c fr _ _ (d.drop (effMtu hdr c.mtu) ++ t) (fun g hg => (hsub g hg).1)
        (by rw [← List.append_assoc, List.take_append_drop, hpre]) f hf
    exact (hsub f hmem).2
  obtain ⟨id, hid⟩ := safety_any_datagrams c hmisc sent delivered hgen src b hb
  exact sentBy_mem _ _ _ _ hid

/-- **No cross-source interaction.**  What the fragments of a datagram from `src` do depends on, and
    changes, only the receive state of `src` (`srcRun` never sees the table) … -/
theorem no_cross_source (c : RxCfg) (src : Nat) (fs : List Frag) (t : Table) :
    tget (rxFrags c src t fs).1 src = (srcRun (tget t src) fs).1 ∧
    (rxFrags c src t fs).2 = (srcRun (tget t src) fs).2 :=
  rxFrags_own c src fs t

/-- … and the state of every other source `s` is left exactly as it was — unless `src` is new and the table
    is above its cap, the one place where the code deliberately forgets the least recently heard-from
    sources (`MAX_NUM_RECEIVE_STATES`). -/
theorem no_cross_source_others (c : RxCfg) (src s : Nat) (hs : s ≠ src) (fs : List Frag) (t : Table)
    (hroom : tget t src ≠ none ∨ t.length ≤ c.maxStates) :
    tget (rxFrags c src t fs).1 s = tget t s :=
  rxFrags_other c src s hs fs t hroom

/-- the same at the datagram level, for a whole run: datagrams of other sources — with ANY content, forged
    ones included — leave the receive state of `s` exactly as it was, as long as the table cannot exceed its
    cap during the run (each datagram adds at most one entry) -/
theorem no_cross_source_datagrams (c : RxCfg) (s : Nat) (ps : List Datagram) (t : Table)
    (hothers : ∀ p, p ∈ ps → p.1 ≠ s) (hcap : t.length + ps.length ≤ c.maxStates) :
    tget (rxAll hdr c t ps).1 s = tget t s :=
  rxAll_other hdr c s ps t hothers hcap

/-- **Interleaving independence.**  What the receiver hands on for source `s` when `s`'s datagrams arrive
    interleaved with arbitrary datagrams of other sources is exactly what it hands on for `s`'s datagrams
    alone (under the same no-overflow condition). -/
theorem interleaving_independent (c : RxCfg) (s : Nat) (ps : List Datagram) (t : Table)
    (hcap : t.length + ps.length ≤ c.maxStates) :
    (rxAll hdr c t ps).2.filter (fun d => decide (d.1 = s)) =
      (rxAll hdr c t (ps.filter (fun d => decide (d.1 = s)))).2 :=
  rxAll_interleaved hdr c s ps t t rfl hcap

/-- **Perfect transport ⇒ exactly once, in order.**  For every MTU (the constructor raises it to at least
    header+1), every start value of the 32-bit id counter (so also across the wrap 2^32−1 → 0), every
    receiver that listens to this sender (same magic, source not excluded, MTU not smaller) in any table
    state in which the source is not known yet, every size limit, and every queue of payloads: delivering the
    sender's packets once, in order, hands over exactly the queued payloads THAT FIT THE RECEIVER'S SIZE LIMIT,
    each once, in order, tagged with the source — and nothing else.  Payloads over the limit are dropped and
    do not affect their neighbours (fix 79d1d2b of finding C12-oversize; before it the payload following an
    oversized one was lost).
    `hlen` is the id hypothesis again: within one queue of at most 2^32 payloads no id repeats.  It is needed
    here because a skipped payload leaves the receive state at the id of an *earlier* payload (with exactly
    2^32−1 oversized payloads between two fitting ones the second would carry the first one's id). -/
theorem perfect_liveness (tx : TxCfg) (c : RxCfg) (src id0 : Nat) (ms : List Bytes) (t : Table)
    (hmisc : c.misc = false) (hmagic : c.magic = tx.magic) (hsex : c.sex = 0 ∨ c.sex ≠ tx.sex)
    (hmg : tx.magic < W32) (hsx : tx.sex < W32) (hid : id0 < W32)
    (hmtu : effMtu hdr tx.mtu ≤ effMtu hdr c.mtu)
    (hW : ∀ m, m ∈ ms → m.length < W32) (hlen : ms.length ≤ W32)
    (hfresh : tget t src = none) :
    (rxAll hdr c t ((sendAllBytes hdr tx id0 ms).1.map (fun p => (src, p)))).2 =
      (ms.filter (fun m => decide (m.length ≤ c.maxIn))).map (fun m => (src, m)) := by
  have hs := sendLoop_stream hdr (effMtu hdr tx.mtu) tx.magic tx.sex (effMtu_gt _ _)
    (txMeasure 0 ms + 1) id0 0 ms (by omega) (offOK_zero _)
  have hwf := stream_wf c tx.magic tx.sex hmg hsx hmagic hsex hs.1 hid hW
  have hacc : ∀ p, p ∈ (sendAll hdr tx id0 ms).1 →
      accepted hdr c (encPacket p) = (fun p => p.filter (fun f => decide (f.total ≤ c.maxIn))) p := by
    intro p hp
    exact accepted_enc hdr c p (fun f hf => hwf f (List.mem_flatten.mpr ⟨p, hp, hf⟩))
      (Nat.le_trans (hs.2 (by decide) p hp) hmtu)
  have hmap : (sendAllBytes hdr tx id0 ms).1.map (fun p => (src, p)) =
      (sendAll hdr tx id0 ms).1.map (fun p => (src, encPacket p)) := by
    simp [sendAllBytes, List.map_map]
  rw [hmap, rxAll_packets hdr c hmisc src _ _ t hacc]
  simp only
  rw [flatten_map_filter, (rxFrags_own c src _ t).2, hfresh]
  have := stream_delivers_fit tx.magic tx.sex c.maxIn hs.1 none hid hW hlen
    (sync2_of_before c.maxIn none id0 ms (Or.inl rfl))
  simp only [sendAll] at this ⊢
  rw [this]

/-- the special case without oversized payloads: the whole queue arrives -/
theorem perfect_liveness_all_fit (tx : TxCfg) (c : RxCfg) (src id0 : Nat) (ms : List Bytes) (t : Table)
    (hmisc : c.misc = false) (hmagic : c.magic = tx.magic) (hsex : c.sex = 0 ∨ c.sex ≠ tx.sex)
    (hmg : tx.magic < W32) (hsx : tx.sex < W32) (hid : id0 < W32)
    (hmtu : effMtu hdr tx.mtu ≤ effMtu hdr c.mtu)
    (hW : ∀ m, m ∈ ms → m.length < W32) (hlen : ms.length ≤ W32) (hfit : ∀ m, m ∈ ms → m.length ≤ c.maxIn)
    (hfresh : tget t src = none) :
    (rxAll hdr c t ((sendAllBytes hdr tx id0 ms).1.map (fun p => (src, p)))).2 = ms.map (fun m => (src, m)) := by
  rw [perfect_liveness tx c src id0 ms t hmisc hmagic hsex hmg hsx hid hmtu hW hlen hfresh]
  congr 1
  exact List.filter_eq_self.mpr (fun m hm => decide_eq_true (hfit m hm))

/-- **…with other sources interleaved.**  `src`'s packets arrive once and in order, but between them any
    datagrams of other sources may arrive (any content): `src`'s deliveries are still exactly its queued
    payloads within the size limit, once, in order. -/
theorem perfect_liveness_interleaved (tx : TxCfg) (c : RxCfg) (src id0 : Nat) (ms : List Bytes) (t : Table)
    (ps : List Datagram)
    (hmine : ps.filter (fun d => decide (d.1 = src)) = (sendAllBytes hdr tx id0 ms).1.map (fun p => (src, p)))
    (hcap : t.length + ps.length ≤ c.maxStates)
    (hmisc : c.misc = false) (hmagic : c.magic = tx.magic) (hsex : c.sex = 0 ∨ c.sex ≠ tx.sex)
    (hmg : tx.magic < W32) (hsx : tx.sex < W32) (hid : id0 < W32)
    (hmtu : effMtu hdr tx.mtu ≤ effMtu hdr c.mtu)
    (hW : ∀ m, m ∈ ms → m.length < W32) (hlen : ms.length ≤ W32)
    (hfresh : tget t src = none) :
    (rxAll hdr c t ps).2.filter (fun d => decide (d.1 = src)) =
      (ms.filter (fun m => decide (m.length ≤ c.maxIn))).map (fun m => (src, m)) := by
  rw [interleaving_independent c src ps t hcap, hmine]
  exact perfect_liveness tx c src id0 ms t hmisc hmagic hsex hmg hsx hid hmtu hW hlen hfresh

/-- every packet the sender writes respects its MTU -/
theorem packets_within_mtu (tx : TxCfg) (id0 : Nat) (ms : List Bytes) :
    ∀ p, p ∈ (sendAllBytes hdr tx id0 ms).1 → p.length ≤ effMtu hdr tx.mtu := by
  intro p hp
  simp only [sendAllBytes, List.mem_map] at hp
  obtain ⟨fr, hfr, rfl⟩ := hp
  exact (sendLoop_stream hdr (effMtu hdr tx.mtu) tx.magic tx.sex (effMtu_gt _ _)
    (txMeasure 0 ms + 1) id0 0 ms (by omega) (offOK_zero _)).2 (by decide) fr hfr

/-! ## Non-vacuity

A sender at the minimum MTU (25: one payload byte per packet) whose id counter starts at 2^32−1 and wraps,
two payloads; the hypotheses of `safety` and `perfect_liveness` hold and the statements compute. -/

def exTx : TxCfg := { mtu := 0, magic := tunnelDefaultMagic, sex := 0 }
def exRx : RxCfg := { mtu := 0, magic := tunnelDefaultMagic, sex := 0, maxIn := muscleNoLimit, misc := false, maxStates := tunnelMaxReceiveStates }
def exMs : List Bytes := [[1, 2, 3], [], [9]]

example : (Source.OK { tx := exTx, id0 := 4294967295, ms := exMs }) := by
  refine ⟨by decide, by decide, by decide, by decide, ?_⟩
  intro m hm
  simp only [exMs, List.mem_cons, List.not_mem_nil, or_false] at hm
  rcases hm with h | h | h <;> subst h <;> decide

example : (sendAllBytes hdr exTx 4294967295 exMs).1.length = 5 := by decide

example : (rxAll hdr exRx [] ((sendAllBytes hdr exTx 4294967295 exMs).1.map (fun p => (7, p)))).2
    = [(7, [1, 2, 3]), (7, []), (7, [9])] := by decide

/-- a receiver limit of 2 bytes: the 3-byte payload is dropped, its neighbours arrive (the regression of C12-oversize) -/
example : (rxAll hdr { exRx with maxIn := 2, mtu := 100 } []
    ((sendAllBytes hdr { exTx with mtu := 100 } 4294967295 exMs).1.map (fun p => (7, p)))).2
    = [(7, []), (7, [9])] := by decide

/-- back-pressure (`Tunnel/Backpressure.lean`, correspondence-checked, no general theorem yet): MTU 26, the
    transport takes the first packet and blocks on the second, which is held; a later call (one more payload
    queued) writes the held packet first: nothing is lost, the order is kept -/
def exBlocked : List Bytes :=
  let d1 := drain hdr 26 tunnelDefaultMagic 0 50 [100000, 0] { queue := [[1, 2, 3]] }
  let d2 := drain hdr 26 tunnelDefaultMagic 0 50 [] { d1.2 with queue := d1.2.queue ++ [[9]] }
  d1.1 ++ d2.1
example : (drain hdr 26 tunnelDefaultMagic 0 50 [100000, 0] { queue := [[1, 2, 3]] }).1.length = 1 := by decide
example : (rxAll hdr { exRx with mtu := 26 } [] (exBlocked.map (fun p => (7, p)))).2 = [(7, [1, 2, 3]), (7, [9])] := by decide

/-- loss of the middle packet of the first payload: it is not delivered, the others are -/
example : (rxAll hdr exRx [] (((sendAllBytes hdr exTx 4294967295 exMs).1.eraseIdx 1).map (fun p => (7, p)))).2
    = [(7, []), (7, [9])] := by decide

/-! ## The mini tunnel (`MiniPacketTunnelIOGateway`)

No fragmentation and no receive state: safety needs no hypothesis about ids.  zlib is an arbitrary codec with
the one law `inflate (deflate x) = x` (`Codec.Lawful`); the theorems hold with and without compression
(`tx.level`).  The receiver's MTU must not be smaller than the sender's (a truncated deflated packet is
outside the codec law). -/

/-- the layout facts the mini model relies on, as measured on the compiled gateway -/
theorem mini_layout : miniPacketHeaderSize = 3 * 4 ∧ miniChunkHeaderSize = 4 ∧ miniPacketIdBits ≤ 24 := by decide

structure MiniSource where
  tx : MiniTx
  id0 : Nat
  ms : List Bytes

def MiniSource.OK (s : MiniSource) : Prop :=
  s.tx.magic < W32 ∧ s.tx.sex < W32 ∧ s.tx.level < 256 ∧ s.id0 < 2 ^ miniPacketIdBits ∧ ∀ m, m ∈ s.ms → m.length < W32

/-- the datagrams a mini-tunnel sender writes for its queue -/
def miniSent (cd : Codec) (s : MiniSource) : List Bytes :=
  (miniSendAll cd miniPacketHeaderSize miniChunkHeaderSize miniPacketIdBits s.tx s.id0 s.ms).1

theorem mini_rx_of_sent (cd : Codec) (hcd : cd.Lawful) (c : MiniRx) (hmisc : c.misc = false) (s : MiniSource) (hok : s.OK)
    (hmtu : miniEffMtu miniPacketHeaderSize miniChunkHeaderSize s.tx.mtu ≤ miniEffMtu miniPacketHeaderSize miniChunkHeaderSize c.mtu)
    (pk : Nat × List Bytes)
    (hpk : pk ∈ (miniLoop miniPacketHeaderSize miniChunkHeaderSize miniPacketIdBits
                  (miniEffMtu miniPacketHeaderSize miniChunkHeaderSize s.tx.mtu) [] s.id0 s.ms).1) :
    miniRx cd miniPacketHeaderSize miniChunkHeaderSize miniPacketIdBits c (miniEncPacket cd miniPacketIdBits s.tx pk.1 pk.2) =
      (if s.tx.magic = c.magic && (c.sex = 0 || c.sex ≠ s.tx.sex) then pk.2 else []) ∧
    ∀ b, b ∈ pk.2 → b ∈ s.ms := by
  obtain ⟨hmg, hsx, hlv, hid, hW⟩ := hok
  have hspec := miniLoop_spec 12 miniPacketIdBits (miniEffMtu 12 4 s.tx.mtu) s.ms [] s.id0 (fun h => absurd rfl h) hid
  have hp := hspec.2 pk hpk
  have hsub : ∀ b, b ∈ pk.2 → b ∈ s.ms := by
    intro b hb
    have : b ∈ ((miniLoop 12 4 miniPacketIdBits (miniEffMtu 12 4 s.tx.mtu) [] s.id0 s.ms).1.map (·.2)).flatten :=
      List.mem_flatten.mpr ⟨pk.2, List.mem_map.mpr ⟨pk, hpk, rfl⟩, hb⟩
    rw [hspec.1] at this
    simp only [List.nil_append, List.mem_filter] at this
    exact this.1
  refine ⟨?_, hsub⟩
  exact miniRx_enc cd hcd 4 miniPacketIdBits (by decide) s.tx c pk.1 pk.2 hmg hsx hlv hp.1
    (fun x hx => hW x (hsub x hx)) hmisc (Nat.le_trans hp.2.2 hmtu)

/-- **Mini tunnel, safety.**  For ANY list over the packets the senders wrote (loss, duplication,
    reordering), with or without compression, every chunk the receiver hands on as coming from `src` is one
    of the payloads `src` was given. -/
theorem mini_safety (cd : Codec) (hcd : cd.Lawful) (c : MiniRx) (hmisc : c.misc = false)
    (srcs : Nat → MiniSource) (hok : ∀ s, (srcs s).OK)
    (hmtu : ∀ s, miniEffMtu miniPacketHeaderSize miniChunkHeaderSize (srcs s).tx.mtu ≤ miniEffMtu miniPacketHeaderSize miniChunkHeaderSize c.mtu)
    (delivered : List Datagram) (hnet : ∀ s p, (s, p) ∈ delivered → p ∈ miniSent cd (srcs s)) :
    ∀ src b, (src, b) ∈ miniRxAll cd miniPacketHeaderSize miniChunkHeaderSize miniPacketIdBits c delivered → b ∈ (srcs src).ms := by
  induction delivered with
  | nil => intro src b hb; simp [miniRxAll] at hb
  | cons d ds ih =>
    obtain ⟨s, p⟩ := d
    intro src b hb
    simp only [miniRxAll, List.mem_append, List.mem_map] at hb
    rcases hb with ⟨b', hb', heq⟩ | hb
    · have h1 : s = src := (Prod.mk.inj heq).1
      have h2 : b' = b := (Prod.mk.inj heq).2
      rw [← h1, ← h2]
      have hp := hnet s p List.mem_cons_self
      simp only [miniSent, miniSendAll, List.mem_map] at hp
      obtain ⟨pk, hpk, rfl⟩ := hp
      have h := mini_rx_of_sent cd hcd c hmisc (srcs s) (hok s) (hmtu s) pk hpk
      rw [h.1] at hb'
      split at hb'
      · exact h.2 b' hb'
      · cases hb'
    · exact ih (fun s p hp => hnet s p (List.mem_cons_of_mem _ hp)) src b hb

/-- **Mini tunnel, perfect transport.**  Every packet once and in order, a receiver that listens to the
    sender: exactly the payloads that fit a packet (`size ≤ MTU − 16`) are handed on, each once, in order. -/
theorem mini_perfect_liveness (cd : Codec) (hcd : cd.Lawful) (c : MiniRx) (hmisc : c.misc = false) (s : MiniSource) (hok : s.OK)
    (hmtu : miniEffMtu miniPacketHeaderSize miniChunkHeaderSize s.tx.mtu ≤ miniEffMtu miniPacketHeaderSize miniChunkHeaderSize c.mtu)
    (hmagic : s.tx.magic = c.magic) (hsex : c.sex = 0 ∨ c.sex ≠ s.tx.sex) (src : Nat) :
    miniRxAll cd miniPacketHeaderSize miniChunkHeaderSize miniPacketIdBits c ((miniSent cd s).map (fun p => (src, p))) =
      (s.ms.filter (miniFits miniPacketHeaderSize miniChunkHeaderSize
        (miniEffMtu miniPacketHeaderSize miniChunkHeaderSize s.tx.mtu))).map (fun m => (src, m)) := by
  have hlisten : (s.tx.magic = c.magic && (c.sex = 0 || c.sex ≠ s.tx.sex)) = true := by
    simp only [hmagic, decide_true, Bool.true_and, Bool.or_eq_true, decide_eq_true_eq]
    rcases hsex with h | h
    · left; exact h
    · right; simpa using h
  have key : ∀ pks : List (Nat × List Bytes),
      (∀ pk, pk ∈ pks → pk ∈ (miniLoop miniPacketHeaderSize miniChunkHeaderSize miniPacketIdBits
                  (miniEffMtu miniPacketHeaderSize miniChunkHeaderSize s.tx.mtu) [] s.id0 s.ms).1) →
      miniRxAll cd miniPacketHeaderSize miniChunkHeaderSize miniPacketIdBits c
        ((pks.map (fun p => miniEncPacket cd miniPacketIdBits s.tx p.1 p.2)).map (fun p => (src, p))) =
        ((pks.map (·.2)).flatten).map (fun m => (src, m)) := by
    intro pks
    induction pks with
    | nil => intro _; rfl
    | cons pk r ih =>
      intro h
      simp only [List.map_cons, miniRxAll, List.flatten_cons, List.map_append]
      rw [(mini_rx_of_sent cd hcd c hmisc s hok hmtu pk (h pk List.mem_cons_self)).1, hlisten, if_pos rfl,
        ih (fun q hq => h q (List.mem_cons_of_mem _ hq))]
  obtain ⟨_, _, _, hid, _⟩ := hok
  have hspec := miniLoop_spec 12 miniPacketIdBits (miniEffMtu 12 4 s.tx.mtu) s.ms [] s.id0 (fun h => absurd rfl h) hid
  simp only [miniSent, miniSendAll]
  rw [key _ (fun _ h => h)]
  have h1 := hspec.1
  simp only [List.nil_append] at h1
  exact congrArg _ h1

/-- non-vacuity: a lawful codec exists (the identity), and a sender/receiver pair satisfying the hypotheses -/
def idCodec : Codec := { deflate := fun _ b => some b, inflate := fun b => some b }
example : idCodec.Lawful := by intro l b z h; cases h; rfl
def exMini : MiniSource := { tx := { mtu := 40, magic := miniTunnelDefaultMagic, sex := 0, level := 6 }, id0 := 16777215, ms := [[1, 2], [], List.replicate 30 7, [5]] }
example : exMini.OK := by
  refine ⟨by decide, by decide, by decide, by decide, ?_⟩
  intro m hm
  simp only [exMini, List.mem_cons, List.not_mem_nil, or_false] at hm
  rcases hm with h | h | h | h <;> subst h <;> decide
example : miniRxAll idCodec miniPacketHeaderSize miniChunkHeaderSize miniPacketIdBits
    { mtu := 40, magic := miniTunnelDefaultMagic, sex := 0, misc := false } ((miniSent idCodec exMini).map (fun p => (3, p)))
    = [(3, [1, 2]), (3, []), (3, [5])] := by decide

end Muscle.Props.C12
