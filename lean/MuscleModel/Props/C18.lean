import MuscleModel.Conc.ProofsStep
import MuscleModel.Conc.ProofsCtl
import MuscleModel.Conc.ProofsLiveInv
import MuscleModel.Conc.ProofsCounts
import MuscleModel.Conc.ProofsBounded

/-!
# C18 — The reader/writer mutex excludes correctly and never strands a compliant thread

Statements only (proofs call lemmas of `MuscleModel/Conc/Proofs*.lean`).  Every theorem quantifies over **all**
thread programs (any number of threads, any finite sequences of lock-read / lock-write / try / timed / unlock,
including recursion and read→write upgrade), **both** writer-preference settings and **every** schedule of thread
steps and time-out events: `Reachable prefW progs c` = "`c` is reachable from the initial configuration by some
sequence of enabled events".  The model has no clock: a time-out is an event that may fire whenever a timed wait has
nothing pending; "by its deadline" is rendered as "after the time-out event, no further blocking step".
-/

namespace Muscle.Props.C18
open Muscle.Conc Muscle.Conc.RW

/-- reachable from the initial configuration of `progs` (thread `i` runs `progs[i]`) under some schedule -/
def Reachable (prefW : Bool) (progs : List (List Op)) (c : Cfg) : Prop := machine.Reach (Cfg.init prefW progs) c

/-- every result of running a schedule (SKIP rule) and then the TAIL rule — what `mdriver rw` prints — is reachable -/
theorem driver_runs_are_reachable (prefW : Bool) (progs : List (List Op)) (evs : List Ev) (n fuel : Nat) :
    Reachable prefW progs (machine.runTail n fuel (machine.runSched (Cfg.init prefW progs) evs).1).1 :=
  machine.reach_runTail n fuel (machine.reach_runSched Machine.Reach.init evs)

/-- **Exclusion.**  At no instant does a thread hold the lock for writing while any other thread holds it in any
mode: a thread with a write count is the only entry of the executing-threads table, and every thread that holds
anything is in that table. -/
theorem exclusion {prefW progs c} (h : Reachable prefW progs c) (t u : Tid)
    (hw : c.mx.rw t > 0) (hu : c.mx.ro u + c.mx.rw u > 0) : u = t ∧ c.mx.exec = [t] := by
  have hi := reach_mxInv (init_mxInv prefW progs) h
  have he := hi.excl t hw
  have := (hi.mem u).2 hu
  rw [he] at this
  exact ⟨by simpa using this, he⟩

/-- non-vacuity of `exclusion`, and **any number of readers may hold it together**: two threads hold read locks at once -/
theorem readers_share : ∃ c, Reachable true [[.lockR .block], [.lockR .block]] c ∧ c.mx.ro 0 = 1 ∧ c.mx.ro 1 = 1 ∧ c.mx.exec = [0, 1] :=
  ⟨(machine.runSched (Cfg.init true [[.lockR .block], [.lockR .block]]) [.run 0, .run 1]).1,
   machine.reach_runSched Machine.Reach.init _, by decide, by decide, by decide⟩

example : ∃ c, Reachable true [[.lockW .block]] c ∧ c.mx.rw 0 > 0 :=
  ⟨(machine.runSched (Cfg.init true [[.lockW .block]]) [.run 0]).1, machine.reach_runSched Machine.Reach.init _, by decide⟩

/-- `_totalReadWriteRecurseCount` is the sum of the write counts of the executing-threads table -/
theorem total_is_sum {prefW progs c} (h : Reachable prefW progs c) : c.mx.total = sumRw c.mx :=
  (reach_mxInv (init_mxInv prefW progs) h).total_eq_sum

/-- the table is a set of threads, each with a non-zero count, and threads outside it hold nothing -/
theorem table_consistent {prefW progs c} (h : Reachable prefW progs c) :
    c.mx.exec.Nodup ∧ ∀ t, t ∈ c.mx.exec ↔ c.mx.ro t + c.mx.rw t > 0 :=
  ⟨(reach_mxInv (init_mxInv prefW progs) h).nodup, (reach_mxInv (init_mxInv prefW progs) h).mem⟩

/-- **Each release undoes exactly one acquire; recursion and upgrade keep exact counts.**  In every reachable
configuration, for every thread that is not inside the upgrade path of `LockReadWriteAux` — in particular between calls
and when finished — the table counts are exactly (successful read acquisitions − successful read releases, successful
write acquisitions − successful write releases).  (Inside the upgrade path the counts are the intermediate ones of its
drop / lock / re-take stages: `CountsOk` in `Conc/ProofsCounts.lean`.) -/
theorem counts_exact {prefW progs c} (h : Reachable prefW progs c) (t : Tid) (hctx : (c.th t).ctx = []) :
    c.mx.ro t = (c.th t).hr ∧ c.mx.rw t = (c.th t).hw :=
  (reach_countInv prefW progs h).counts_plain t hctx

/-- non-vacuity of `counts_exact` through recursion and a completed upgrade: thread 0 did R, R, W (upgrade: drops two read
locks, takes the write lock, re-takes two read locks) and now holds 2 read + 1 write, outside the upgrade path -/
example : ∃ c, Reachable true [[.lockR .block, .lockR .block, .lockW .block], [.lockR .block, .unlockR]] c ∧
    (c.th 0).ctx = [] ∧ (c.th 0).pc = .done ∧ c.mx.ro 0 = 2 ∧ c.mx.rw 0 = 1 ∧ (c.th 0).hr = 2 ∧ (c.th 0).hw = 1 :=
  ⟨(machine.runSched (Cfg.init true [[.lockR .block, .lockR .block, .lockW .block], [.lockR .block, .unlockR]])
      [.run 0, .run 0, .run 1, .run 0, .run 0, .run 0, .run 1, .run 0, .run 0, .run 0, .run 0]).1,
   machine.reach_runSched Machine.Reach.init _, by decide, by decide, by decide, by decide, by decide, by decide⟩

/-- the per-critical-section form of exact counting, for every reachable state: a successful unlock takes exactly one
lock of its mode from the caller (and one off the total for a write lock) and touches nobody else's counts; a failed
unlock changes nothing; an acquisition that succeeds at once adds exactly one -/
theorem counts_per_section {prefW progs c} (h : Reachable prefW progs c) (t : Tid) :
    ((unlockR c.mx t).2 = .ok → c.mx.ro t > 0 ∧ (unlockR c.mx t).1.ro t = c.mx.ro t - 1 ∧ (unlockR c.mx t).1.rw = c.mx.rw ∧
        (unlockR c.mx t).1.total = c.mx.total ∧ ∀ u, u ≠ t → (unlockR c.mx t).1.ro u = c.mx.ro u) ∧
    ((unlockR c.mx t).2 ≠ .ok → (unlockR c.mx t).1 = c.mx) ∧
    ((unlockW c.mx t).2 = .ok → c.mx.rw t > 0 ∧ (unlockW c.mx t).1.rw t = c.mx.rw t - 1 ∧ (unlockW c.mx t).1.ro = c.mx.ro ∧
        (unlockW c.mx t).1.total = c.mx.total - 1 ∧ ∀ u, u ≠ t → (unlockW c.mx t).1.rw u = c.mx.rw u) ∧
    (∀ m, (lockRStart c.mx t m).2 = .done .ok → (lockRStart c.mx t m).1.ro t = c.mx.ro t + 1 ∧ (lockRStart c.mx t m).1.rw = c.mx.rw ∧
        (lockRStart c.mx t m).1.total = c.mx.total ∧ ∀ u, u ≠ t → (lockRStart c.mx t m).1.ro u = c.mx.ro u) ∧
    (∀ m, (lockWStart c.mx t m).2 = .done .ok → (lockWStart c.mx t m).1.rw t = c.mx.rw t + 1 ∧ (lockWStart c.mx t m).1.ro = c.mx.ro ∧
        (lockWStart c.mx t m).1.total = c.mx.total + 1 ∧ ∀ u, u ≠ t → (lockWStart c.mx t m).1.rw u = c.mx.rw u) :=
  have hi := reach_mxInv (init_mxInv prefW progs) h
  ⟨unlockR_exact, unlockR_failed, unlockW_exact, fun _ => lockRStart_exact hi, fun _ => lockWStart_exact hi⟩

/-- **Failed try leaves the lock state unchanged**: a `TryLockReadOnly()` / `TryLockReadWrite()` that returns
`B_TIMED_OUT` — from any state, including the read→write upgrade situation — changes nothing at all in the shared state. -/
theorem try_unchanged {c c' : Cfg} {t : Tid} (hpc : (c.th t).pc = .rStart .try_ ∨ (c.th t).pc = .wStart .try_)
    (hctx : (c.th t).ctx = []) (h : machine.step c (.run t) = some (c', some .timedOut)) : c'.mx = c.mx :=
  try_fail_unchanged hpc hctx h

/-- a try acquisition is a single step: it never waits — including `TryLockReadWrite()` issued by a read-lock holder
(read→write upgrade), which since /repo commit d881489 fails before any read lock is dropped -/
theorem try_returns_at_once {c : Cfg} {t : Tid} (hpc : (c.th t).pc = .rStart .try_ ∨ (c.th t).pc = .wStart .try_)
    (hctx : (c.th t).ctx = []) : ∃ c' st, machine.step c (.run t) = some (c', some st) :=
  try_single_step hpc hctx

/-- the fixed half of finding F13, as a positive statement: a `TryLockReadWrite()` by a thread that holds the lock
read-only while other readers execute (the upgrade situation) is ONE non-blocking step that returns `B_TIMED_OUT` and
leaves the whole shared state — in particular the caller's read locks — untouched -/
theorem try_upgrade_never_blocks {c : Cfg} {t : Tid} (hpc : (c.th t).pc = .wStart .try_) (hctx : (c.th t).ctx = [])
    (hin : t ∈ c.mx.exec) (hrw : c.mx.rw t = 0) (hothers : c.mx.exec.length ≠ 1) :
    ∃ c', machine.step c (.run t) = some (c', some .timedOut) ∧ c'.mx = c.mx :=
  try_upgrade_single_step hpc hctx hin hrw hothers

/-- non-vacuity: the upgrade situation is reachable (thread 0 and thread 1 both hold read locks, thread 0 is about to try) -/
example : ∃ c, Reachable true [[.lockR .block, .lockW .try_], [.lockR .block]] c ∧ (c.th 0).pc = .wStart .try_ ∧
    (c.th 0).ctx = [] ∧ 0 ∈ c.mx.exec ∧ c.mx.rw 0 = 0 ∧ c.mx.exec.length ≠ 1 :=
  ⟨(machine.runSched (Cfg.init true [[.lockR .block, .lockW .try_], [.lockR .block]]) [.run 0, .run 1]).1,
   machine.reach_runSched Machine.Reach.init _, by decide, by decide, by decide, by decide, by decide⟩

/-- **Failed timed acquisition leaves the lock state unchanged**: the step that returns `B_TIMED_OUT` from a timed wait
removes exactly the caller's waiting entry (added when the call started to wait) and touches no count. -/
theorem timed_fail_unchanged {c c' : Cfg} {t : Tid} {o : Option St} {m : Mode}
    (hpc : (c.th t).pc = .rWoke m false ∨ (c.th t).pc = .wWoke m false) (h : machine.step c (.run t) = some (c', o)) :
    c'.mx.exec = c.mx.exec ∧ c'.mx.ro = c.mx.ro ∧ c'.mx.rw = c.mx.rw ∧ c'.mx.total = c.mx.total ∧
    ((c.th t).pc = .rWoke m false → c'.mx.waitR = c.mx.waitR.erase t ∧ c'.mx.waitW = c.mx.waitW) ∧
    ((c.th t).pc = .wWoke m false → c'.mx.waitW = c.mx.waitW.erase t ∧ c'.mx.waitR = c.mx.waitR) :=
  timed_fail_frame hpc h

/-- a thread between calls (or finished) is in neither waiting table, and a waiting thread is not executing -/
theorem waiting_tables_exact {prefW progs c} (h : Reachable prefW progs c) (t : Tid) :
    (t ∈ c.mx.waitR ↔ ∃ m, (c.th t).pc = .rWait m ∨ ∃ b, (c.th t).pc = .rWoke m b) ∧
    (t ∈ c.mx.waitW ↔ ∃ m, (c.th t).pc = .wWait m ∨ ∃ b, (c.th t).pc = .wWoke m b) ∧
    ((t ∈ c.mx.waitR ∨ t ∈ c.mx.waitW) → t ∉ c.mx.exec) :=
  (reach_ctlInv prefW progs h).waiting t

/-- **No lost wake-up.**  In every reachable configuration in which nobody executes, the threads that the hand-off rule
favours are *signalled* — they have a pending notification or are between wake-up and re-check: the first waiting
writer (if writers are preferred or no reader waits), respectively every waiting reader (if readers are preferred or no
writer waits). -/
theorem no_lost_wakeup {prefW progs c} (h : Reachable prefW progs c) (he : c.mx.exec = []) :
    (∀ w rest, c.mx.waitW = w :: rest → (c.mx.prefW = true ∨ c.mx.waitR = []) → Signalled c w) ∧
    (∀ r, r ∈ c.mx.waitR → (c.mx.prefW = false ∨ c.mx.waitW = []) → Signalled c r) :=
  (reach_liveInv prefW progs h).wake he

/-- the hand-off step behind `no_lost_wakeup`, for every state: after `NotifySomeWaitingThreads()` the favoured waiters
have a pending notification -/
theorem handoff_notifies (s : Mx) :
    (∀ w rest, s.waitW = w :: rest → (s.prefW = true ∨ s.waitR = []) → (notifySome s).pend w > 0) ∧
    (∀ r, r ∈ s.waitR → (s.prefW = false ∨ s.waitW = []) → (notifySome s).pend r > 0) :=
  notifySome_wakes s

/-- **No deadlock among threads that use only this lock.**  In every reachable configuration in which some thread is
unfinished and no finished thread still holds the lock ("every holder eventually releases"), some event is enabled. -/
theorem deadlock_free {prefW progs c} (h : Reachable prefW progs c) (t : Tid) (hunf : (c.th t).pc ≠ .done)
    (hcompliant : ∀ u, (c.th u).pc = .done → c.mx.ro u + c.mx.rw u = 0) :
    ∃ e c' o, machine.step c e = some (c', o) :=
  no_deadlock (reach_mxInv (init_mxInv prefW progs) h) (reach_ctlInv prefW progs h) (reach_liveInv prefW progs h) t hunf hcompliant

/-- non-vacuity of the compliance hypothesis: a thread that finishes while holding does strand a writer -/
example : ∃ c, Reachable true [[.lockR .block], [.lockW .block]] c ∧ (c.th 1).pc = .wWait .block ∧ c.mx.pend 1 = 0 ∧ (c.th 0).pc = .done :=
  ⟨(machine.runSched (Cfg.init true [[.lockR .block], [.lockW .block]]) [.run 0, .run 1]).1,
   machine.reach_runSched Machine.Reach.init _, by decide, by decide, by decide⟩

/-- **Writer preference.**  With `preferWriters`, a thread that is not already executing is admitted as a reader only
in a state where no writer is waiting: readers arriving after a waiting writer cannot overtake it (the writer leaves
the waiting table only by acquiring the lock or by timing out). -/
theorem writer_pref {c c' : Cfg} {t : Tid} {o : Option St} (hp : c.mx.prefW = true) (ht : t ∉ c.mx.exec)
    (h : machine.step c (.run t) = some (c', o)) (hin : t ∈ c'.mx.exec) (hr : c'.mx.rw t = 0) : c.mx.waitW = [] :=
  reader_admitted_no_writer_waiting hp ht h hin hr

/-- non-vacuity of `writer_pref`: without writer preference the late reader does overtake -/
example : ∃ c, Reachable false [[.lockR .block], [.lockW .block], [.lockR .block]] c ∧ c.mx.waitW = [1] ∧ c.mx.exec = [0, 2] :=
  ⟨(machine.runSched (Cfg.init false [[.lockR .block], [.lockW .block], [.lockR .block]]) [.run 0, .run 1, .run 2]).1,
   machine.reach_runSched Machine.Reach.init _, by decide, by decide⟩

/-- **Timed acquisitions return by their deadline** (plain acquisitions): the time-out event moves a timed wait to the
wake-up point, and the thread's next step is enabled unconditionally and returns `B_TIMED_OUT`. -/
theorem timed_returns {c c1 : Cfg} {t : Tid} {o : Option St} (hctx : (c.th t).ctx = [])
    (h : machine.step c (.timeout t) = some (c1, o)) :
    ∃ c2, machine.step c1 (.run t) = some (c2, some .timedOut) :=
  timeout_then_returns hctx h

/-! ### Which try/timed calls are bounded, and which one is not (finding F13, timed variant — open)

The model has no clock, so "returns by its deadline" is rendered as: *the calling thread never depends on another thread
to get out of the call* — in every reachable configuration it has an enabled event of its own (a step, or the time-out of
its timed wait), and after the time-out event a plain call returns in its next step (`timed_returns`).  The three
theorems below say exactly which calls have this property and that the single exception is real. -/

/-- **Bounded calls.**  In every reachable configuration, a thread inside `TryLockReadOnly/ReadWrite()` or a timed
`LockReadOnly/ReadWrite()` — including a timed read→write upgrade while it drops its read locks, while it waits for the
write lock, and while it re-takes its read locks after the upgrade was GRANTED — has an enabled event of its own, unless
it is in the re-take stage of an upgrade whose write-lock attempt FAILED. -/
theorem try_timed_calls_bounded {prefW progs c} (h : Reachable prefW progs c) (t : Tid) (hunf : (c.th t).pc ≠ .done)
    (hcall : NonBlockingCall (c.th t)) (hnot : ¬ InFailedRetake (c.th t)) :
    (∃ c' o, machine.step c (.run t) = some (c', o)) ∨ (∃ c' o, machine.step c (.timeout t) = some (c', o)) :=
  nonblocking_call_proceeds (reach_mxInv (init_mxInv prefW progs) h) (reach_ctlInv prefW progs h)
    (reach_countInv prefW progs h) (reach_modeInv prefW progs h) hunf hcall hnot

/-- **The only unbounded call.**  If, in a reachable configuration, a thread inside a try/timed acquisition has NO enabled
event of its own, then the call is a *timed* `LockReadWrite()` issued as a read→write upgrade, its write-lock attempt
failed (`ret ≠ ok`), and the thread is parked with nothing pending in the UNTIMED `Wait()` of the `LockReadOnly()` that
re-takes its read locks (`LockReadWriteAux`, the loop after `lrwRet`). -/
theorem only_failed_timed_upgrade_is_unbounded {prefW progs c} (h : Reachable prefW progs c) (t : Tid)
    (hunf : (c.th t).pc ≠ .done) (hcall : NonBlockingCall (c.th t))
    (hstuck : machine.step c (.run t) = none ∧ machine.step c (.timeout t) = none) :
    ∃ u k ret, (c.th t).ctx = [u] ∧ u.stage = .retake k ret ∧ ret ≠ .ok ∧ u.m = .timed ∧
      (c.th t).cur = .lockW .timed ∧ (c.th t).pc = .rWait .block ∧ c.mx.pend t = 0 :=
  stuck_call_is_failed_timed_upgrade (reach_mxInv (init_mxInv prefW progs) h) (reach_ctlInv prefW progs h)
    (reach_countInv prefW progs h) (reach_modeInv prefW progs h) hunf hcall hstuck

/-- Finding **F13** (open, TIMED variant): the exception is real.  Witness schedule `0 1 0 0 2 0 T0 0 0` for the programs
`R q u | R u | W v` with writer preference: thread 0 (a reader) asks for a timed upgrade while reader 1 executes, drops
its read lock, queues behind writer 2, its time-out fires, `LockReadWriteAux` returns `B_TIMED_OUT` internally, and the
untimed `LockReadOnly()` that must restore the read lock parks behind the waiting writer: thread 0 is inside a timed call,
its time-out is spent (`retake 1 timedOut`), and it has NO enabled event — when it returns depends only on how long
threads 1 and 2 keep the lock.  Reproduced on the real code by `corpus/C18/rw-known-F13.ops`.  A repair has to keep the
read locks while waiting for the upgrade (a different upgrade protocol); see the finding's entry. -/
theorem f13_timed_upgrade_blocks :
    ∃ c, Reachable true [[.lockR .block, .lockW .timed, .unlockR], [.lockR .block, .unlockR], [.lockW .block, .unlockW]] c ∧
      (c.th 0).cur = .lockW .timed ∧ (c.th 0).pc = .rWait .block ∧ c.mx.pend 0 = 0 ∧
      (c.th 0).ctx = [{ n := 1, m := .timed, stage := .retake 1 .timedOut }] ∧
      (machine.step c (.run 0)).isNone = true ∧ (machine.step c (.timeout 0)).isNone = true ∧
      c.mx.ro 0 = 0 ∧ (c.th 0).hr = 1 :=
  ⟨(machine.runSched (Cfg.init true [[.lockR .block, .lockW .timed, .unlockR], [.lockR .block, .unlockR], [.lockW .block, .unlockW]])
      [.run 0, .run 1, .run 0, .run 0, .run 2, .run 0, .timeout 0, .run 0, .run 0]).1,
   machine.reach_runSched Machine.Reach.init _, by decide, by decide, by decide, by decide, by decide, by decide, by decide, by decide⟩

/-- non-vacuity of `try_timed_calls_bounded` inside an upgrade: the same programs one event earlier — thread 0 waits (timed)
for the write lock inside its upgrade, nothing pending: its time-out is enabled -/
example : ∃ c, Reachable true [[.lockR .block, .lockW .timed, .unlockR], [.lockR .block, .unlockR], [.lockW .block, .unlockW]] c ∧
    (c.th 0).pc = .wWait .timed ∧ (c.th 0).ctx = [{ n := 1, m := .timed, stage := .lock }] ∧
    (machine.step c (.timeout 0)).isSome = true :=
  ⟨(machine.runSched (Cfg.init true [[.lockR .block, .lockW .timed, .unlockR], [.lockR .block, .unlockR], [.lockW .block, .unlockW]])
      [.run 0, .run 1, .run 0, .run 0, .run 2, .run 0]).1,
   machine.reach_runSched Machine.Reach.init _, by decide, by decide, by decide⟩

end Muscle.Props.C18
