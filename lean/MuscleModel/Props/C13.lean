import MuscleModel.Reflector.IndexProofsReach

/-!
# C13 — An ordered child index replayed from its update log equals the server's index

Property theorems only.  Definitions: `Reflector/IndexSpec.lean` (`Instr`, `Instr.render`, `Instr.parse`, the
client `replay`/`replayAll`, `InRange`, `IdxInv`, `AllNodes`, `IdxOp`, `runOps`, `snapshotLog`); lemmas:
`Reflector/IndexProofsList.lean` (list algebra), `IndexProofsInstr.lean` (decimal/`:` parsing),
`IndexProofsTree.lean`, `IndexProofsSrv.lean`, `IndexProofsOps.lean`, `IndexProofsRemove.lean`,
`IndexProofsSeq.lean`, `IndexProofsAll.lean` (whole trees), `IndexProofsAuto.lean` (generated names),
`IndexProofsSet.lean` (`SetDataNode`, handlers), `IndexProofsSnap.lean` (`doGetData`'s snapshot),
`IndexProofsTrav.lean` (every traversal visit is an existing node), `IndexProofsReorder.lean` (REORDERDATA handler),
`IndexProofsReach.lean` (every engine command, every engine state), `IndexProofsClone.lean` (subtree clone / restore:
model in `Reflector/Clone.lean`).

How the statements fit together.

* The client is `replay : index → instruction bytes → Option index` (`none` = the client would refuse the
  instruction: position out of range, wrong name at a remove position, unknown op).  It reads rendered
  instructions back exactly (`parse_render`), for every name (names may contain `:`).
* For each index-changing model function `F` there is an `…_emits` equation
  `F sv … = notifyIndex sv₀ parent p' (instruction)` with `sv₀` an explicit term and
  `getNode sv₀ parent = some p'`: this exposes, without touching the model, exactly what `F` hands to
  `notifyIndex` and that the node it notifies about is the parent as it is after the change.
  `log_replay_F` then says that the client applying that instruction to the parent's old index holds the
  parent's new index.
* `IdxOp.log` collects those instructions as a function of the state before; `log_replay` lifts to arbitrary
  sequences of operations on one parent; `snapshot_replay` is the GETDATA snapshot.
* Delivery of what `notifyIndex` queues to each subscriber, in order, is property C04 (not restated here).
-/

set_option linter.unusedSimpArgs false
set_option linter.unusedVariables false

namespace Muscle.Props.C13
open Muscle Muscle.Reflector

/-! ## a concrete state used by the non-vacuity examples: a node with children `a`, `b`, both indexed -/

def exNode : Node := .mk [] none [.mk [97] none [] [] 0 [], .mk [98] none [] [] 0 []] [[97], [98]] 0 []
def exSv : Server := { root := exNode }

example : getNode exSv [] = some exNode := rfl
example : getNode exSv ([] ++ [[98]]) = some (.mk [98] none [] [] 0 []) := rfl
example : lastIndexOf exNode.index [98] = some 1 := by decide
example : lastIndexOf exNode.index [99] = none := by decide
example : IdxInv exNode := ⟨by decide, by decide⟩
example : exNode.index.Nodup := by decide

/-! ## the instruction format -/

/-- The client's reading (`op` = first byte, `atol` of the digits, split at the FIRST `:`) of a rendered
    instruction is that instruction — for every position and every name, including names containing `:`
    or digits. -/
theorem parse_render (i : Instr) : Instr.parse i.render = some i :=
  Reflector.parse_render i

/-- so the raw client on rendered instructions is the structured client -/
theorem replay_render (ix : List Bytes) (l : List Instr) :
    replayAll ix (l.map Instr.render) = applyAll ix l :=
  replayAll_render ix l

example : Instr.parse (Instr.ins 12 [58, 49, 58]).render = some (Instr.ins 12 [58, 49, 58]) := parse_render _

/-! ## 1. replay of the log, per function -/

/-- `RemoveIndexEntry(key, notify)` when `key` is indexed (last occurrence at `i`): the equation exposing the
    instruction, the parent afterwards, and the client's replay. -/
theorem log_replay_removeIndexEntry {sv : Server} {parent : List Bytes} {p : Node} {key : Bytes} {i : Nat}
    (h : getNode sv parent = some p) (hi : lastIndexOf p.index key = some i) :
    removeIndexEntry sv parent key true =
        notifyIndex (setNode sv parent (fun q => q.setIndex (q.index.eraseIdx i))) parent
          (p.setIndex (p.index.eraseIdx i)) (Instr.rem i key).render ∧
      getNode (setNode sv parent (fun q => q.setIndex (q.index.eraseIdx i))) parent =
        some (p.setIndex (p.index.eraseIdx i)) ∧
      getNode (removeIndexEntry sv parent key true) parent = some (p.setIndex (p.index.eraseIdx i)) ∧
      replayAll p.index [(Instr.rem i key).render] = some (p.setIndex (p.index.eraseIdx i)).index := by
  refine ⟨removeIndexEntry_emits h hi, getNode_setIndex (fun q => q.index.eraseIdx i) h, ?_, ?_⟩
  · have := getNode_removeIndexEntry key true h
    simpa [eraseLast, hi] using this
  · have := replayAll_render p.index [Instr.rem i key]
    simp only [List.map_cons, List.map_nil] at this
    rw [this]
    simp [applyAll, Instr.apply, lastIndexOf_some hi]

/-- …and when `key` is not indexed nothing happens and nothing is emitted. -/
theorem removeIndexEntry_silent {sv : Server} {parent : List Bytes} {p : Node} {key : Bytes} (notify : Bool)
    (h : getNode sv parent = some p) (hi : lastIndexOf p.index key = none) :
    removeIndexEntry sv parent key notify = sv :=
  removeIndexEntry_none notify h hi

/-- `InsertOrderedChild(data, before, name)` with `before ≠ "!Rmv"`: the equation exposing the instruction
    (`insertOrderedPre` is the explicit state at the time of the notification: counter advanced, child put, entry
    inserted), the parent afterwards, and the client's replay.  Position = last entry named `before`, default
    end; name = the given one or the generated `I<n>`. -/
theorem log_replay_insertOrderedChild {sv : Server} {parent : List Bytes} {p : Node} (by_ : Nat) (d : Option Nat)
    {before : Bytes} (name : Bytes) (nc : Bool) (h : getNode sv parent = some p)
    (hb : before ≠ removeFromIndexName) :
    ∃ p', getNode (insertOrderedPre sv by_ parent d (ordPair p name).1 (ordPair p name).2 (insertPos p.index before) nc)
          parent = some p' ∧
      insertOrderedChild sv by_ parent d before name nc =
        notifyIndex (insertOrderedPre sv by_ parent d (ordPair p name).1 (ordPair p name).2 (insertPos p.index before) nc)
          parent p' (Instr.ins (insertPos p.index before) (ordPair p name).1).render ∧
      getNode (insertOrderedChild sv by_ parent d before name nc) parent = some p' ∧
      (∃ c, c.name = (ordPair p name).1 ∧ p'.kids = putKid c p.kids) ∧
      replayAll p.index [(Instr.ins (insertPos p.index before) (ordPair p name).1).render] = some p'.index := by
  refine ⟨_, getNode_insertOrderedPre _ _ _ _ _ _ h, insertOrderedChild_emits by_ d name nc h hb, ?_, ?_, ?_⟩
  · rw [insertOrderedChild_emits by_ d name nc h hb, getNode_notifyIndex]
    exact getNode_insertOrderedPre _ _ _ _ _ _ h
  · obtain ⟨c, h1, _, _, h2⟩ := insertOrderedNode_kids sv parent p d (ordPair p name).1 (ordPair p name).2 (insertPos p.index before)
    exact ⟨c, h1, h2⟩
  · have := replayAll_render p.index [Instr.ins (insertPos p.index before) (ordPair p name).1]
    simp only [List.map_cons, List.map_nil] at this
    rw [this]
    simp [applyAll, apply_ins_insertPos]

/-- `InsertOrderedChild(data, "!Rmv", name)` (PR_NAME_REMOVE_FROM_INDEX): the child is created but not indexed —
    the function IS the state after the put (`insertOrderedPut`: counter advanced, child stored; nothing is handed
    to `notifyIndex`), the parent's index is unchanged, and the empty log replays to it. -/
theorem log_replay_insertOrderedChild_unindexed {sv : Server} {parent : List Bytes} {p : Node} (by_ : Nat)
    (d : Option Nat) (name : Bytes) (nc : Bool) (h : getNode sv parent = some p) :
    insertOrderedChild sv by_ parent d removeFromIndexName name nc =
        insertOrderedPut sv by_ parent d (ordPair p name).1 (ordPair p name).2 nc ∧
      ∃ p', getNode (insertOrderedChild sv by_ parent d removeFromIndexName name nc) parent = some p' ∧
        p'.index = p.index ∧ (∃ c, c.name = (ordPair p name).1 ∧ p'.kids = putKid c p.kids) ∧
        replayAll p.index [] = some p'.index := by
  refine ⟨insertOrderedChild_unindexed by_ d name nc h rfl,
    insertOrderedPutNode sv parent p d (ordPair p name).1 (ordPair p name).2, ?_, ?_, ?_, ?_⟩
  · rw [insertOrderedChild_unindexed by_ d name nc h rfl]
    exact getNode_insertOrderedPut _ _ _ _ _ h
  · simp
  · obtain ⟨c, h1, _, _, h2⟩ := insertOrderedPutNode_kids sv parent p d (ordPair p name).1 (ordPair p name).2
    exact ⟨c, h1, h2⟩
  · simp [replayAll]

/-- `ReorderChild(child, before)` emits: nothing (before itself / remove-from-index of something in an empty
    index), the removal alone (`before = "!Rmv"`), or the removal (if the child was indexed) followed by an
    insert.  These four equations expose the calls; the removal is `removeIndexEntry … true`, whose own
    instruction is exposed by `log_replay_removeIndexEntry`. -/
theorem reorderChild_emitted {sv : Server} {parent : List Bytes} {p : Node} (child before : Bytes)
    (h : getNode sv parent = some p) :
    (before = child → reorderChild sv parent child before = sv) ∧
    ((p.index.isEmpty && !(p.index.contains child) && before = removeFromIndexName) = true →
      reorderChild sv parent child before = sv) ∧
    (before ≠ child → ¬ (p.index.isEmpty && !(p.index.contains child) && before = removeFromIndexName) = true →
      before = removeFromIndexName → reorderChild sv parent child before = removeIndexEntry sv parent child true) ∧
    (before ≠ child → ¬ (p.index.isEmpty && !(p.index.contains child) && before = removeFromIndexName) = true →
      before ≠ removeFromIndexName →
      reorderChild sv parent child before =
        notifyIndex
          (setNode (removeIndexEntry sv parent child true) parent
            (fun q => q.setIndex (q.index.take (reorderTarget p child before) ++ [child] ++
              q.index.drop (reorderTarget p child before))))
          parent (p.setIndex (insertAt (eraseLast p.index child) (reorderTarget p child before) child))
          (Instr.ins (reorderTarget p child before) child).render) :=
  ⟨fun hb => reorderChild_self h hb, fun hg => reorderChild_nothing h hg,
   fun hb hg hr => reorderChild_remove h hb hg hr, fun hb hg hr => reorderChild_emits h hb hg hr⟩

/-- …and replaying those instructions (`reorderLog`) on the parent's old index gives its new index; the
    children are untouched. -/
theorem log_replay_reorderChild {sv : Server} {parent : List Bytes} {p : Node} (child before : Bytes)
    (h : getNode sv parent = some p) :
    ∃ p', getNode (reorderChild sv parent child before) parent = some p' ∧ p'.kids = p.kids ∧
      replayAll p.index ((reorderLog p child before).map Instr.render) = some p'.index := by
  refine ⟨_, getNode_reorderChild child before h, by simp, ?_⟩
  rw [replayAll_render, applyAll_reorderLog]; simp

/-- `RemoveChild`'s body for one child (`removeOne`, notifying): it is `RemoveIndexEntry(key, notify)` followed by
    the removed-notification and the removal of the child (`removeOneRest`); the client that applies the one
    emitted instruction (if the child was indexed) holds the parent's new index. -/
theorem log_replay_removeOne {sv : Server} {parent : List Bytes} {p c : Node} {key : Bytes} (by_ : Nat)
    (h : getNode sv parent = some p) (hc : getNode sv (parent ++ [key]) = some c) :
    removeOne sv by_ true (parent ++ [key]) =
        removeOneRest (removeIndexEntry sv parent key true) by_ true parent key ∧
      ∃ p', getNode (removeOne sv by_ true (parent ++ [key])) parent = some p' ∧
        p'.kids = removeKid key p.kids ∧
        replayAll p.index ((remLog p.index key).map Instr.render) = some p'.index := by
  refine ⟨removeOne_eq by_ true hc, _, getNode_removeOne by_ true h hc, by simp, ?_⟩
  rw [replayAll_render, applyAll_remLog]; simp

/-- `RemoveChild(key, notify, recurse)`: first the descendants (`removeDescs`, which leaves the parent's index and
    the names of its children alone and keeps the child), then `removeOne` of the child itself; the client that
    applies the one emitted instruction holds the parent's new index. -/
theorem log_replay_removeChild {sv : Server} {parent : List Bytes} {p c : Node} {key : Bytes} (by_ : Nat)
    (h : getNode sv parent = some p) (hc : getNode sv (parent ++ [key]) = some c) :
    removeChild sv by_ true (parent ++ [key]) =
        removeOne (removeDescs sv by_ true (parent ++ [key]) c) by_ true (parent ++ [key]) ∧
      (∃ q, getNode (removeDescs sv by_ true (parent ++ [key]) c) parent = some q ∧ q.index = p.index) ∧
      ∃ p', getNode (removeChild sv by_ true (parent ++ [key])) parent = some p' ∧
        replayAll p.index ((remLog p.index key).map Instr.render) = some p'.index := by
  obtain ⟨q, hs, hq, hp'⟩ := getNode_removeChild by_ true h hc
  refine ⟨removeChild_eq by_ true hc, ⟨q, hq, hs.1⟩, _, hp', ?_⟩
  rw [replayAll_render, applyAll_remLog]; simp

/-! ## 1b. sequences of operations, and the snapshot -/

/-- For every list of index operations on the children of one node (ordered inserts with generated or explicit
    names, reorders, index-entry removals, removals of indexed and non-indexed children with or without
    subtrees, plain puts): the client that starts from the node's index and applies the concatenated log, in
    order, holds exactly the node's final index (and never refuses an instruction). -/
theorem log_replay {parent : List Bytes} (ops : List IdxOp) {sv : Server} {p : Node}
    (h : getNode sv parent = some p) :
    ∃ p', getNode (runOps parent sv ops).1 parent = some p' ∧
      replayAll p.index (runOps parent sv ops).2 = some p'.index :=
  runOps_replay ops h

/-- non-vacuity: a run on the concrete node (reorder `b` before `a`, insert `c` at the end, remove `a`) -/
example : ∃ p', getNode (runOps [] exSv [.reorder [98] [97], .insert 0 none [] [99] true, .removeChild 0 [97]]).1 []
    = some p' ∧ replayAll exNode.index
      (runOps [] exSv [.reorder [98] [97], .insert 0 none [] [99] true, .removeChild 0 [97]]).2 = some p'.index :=
  log_replay _ rfl

/-- The snapshot `c, i0:n0, i1:n1, …` replayed on ANY client index gives exactly the server's index. -/
theorem snapshot_replay (clientIx ix : List Bytes) : replayAll clientIx (snapshotLog ix) = some ix := by
  rw [snapshotLog_eq, replayAll_render]
  exact applyAll_snapshot clientIx ix

/-- `snapshotLog` is what `doGetData` sends: the exact expression it evaluates for a node with a non-empty index
    appends `c, i0:n0, i1:n1, …` to that node's field (`idxField … np`) of the PR_RESULT_INDEXUPDATED Message. -/
theorem snapshot_emitted (im : IdxMsg) (np : Bytes) (ix : List Bytes) :
    idxField ((ix.zipIdx).foldl (fun im (nm, i) => IdxMsg.add im np (instrOf 'i' i nm))
      (IdxMsg.add im np "c".toUTF8.toList)) np = idxField im np ++ snapshotLog ix :=
  doGetData_snapshot im np ix

/-- A subscriber that joins at any point: snapshot, then the log of whatever happens afterwards. -/
theorem snapshot_then_log_replay {parent : List Bytes} (ops : List IdxOp) {sv : Server} {p : Node}
    (clientIx : List Bytes) (h : getNode sv parent = some p) :
    ∃ p', getNode (runOps parent sv ops).1 parent = some p' ∧
      replayAll clientIx (snapshotLog p.index ++ (runOps parent sv ops).2) = some p'.index := by
  obtain ⟨p', hp', hr⟩ := runOps_replay ops h
  refine ⟨p', hp', ?_⟩
  rw [replayAll_append, snapshot_replay]
  exact hr

/-! ## 2. positions -/

/-- Every emitted insert position is ≤ the current length, every remove position is < the current length and the
    removed name is the name at that position — along the whole log of any run. -/
theorem positions_in_range {parent : List Bytes} (ops : List IdxOp) {sv : Server} {p : Node}
    (h : getNode sv parent = some p) :
    InRange p.index (opsLog parent sv ops) ∧ (runOps parent sv ops).2 = (opsLog parent sv ops).map Instr.render :=
  ⟨opsLog_inRange ops h, runOps_log parent sv ops⟩

/-- the same for the snapshot, from any client index -/
theorem positions_in_range_snapshot (clientIx ix : List Bytes) :
    InRange clientIx (Instr.clear :: (ix.zipIdx.map (fun (nm, i) => Instr.ins i nm))) :=
  inRange_of_applyAll (applyAll_snapshot clientIx ix)

/-! ## 3. the index lists existing children, each at most once -/

/-- One operation keeps the invariant of the node whose children it works on.  `IdxOp.ok`: `InsertOrderedChild`
    does not index (`before = "!Rmv"`) or the name it uses is not already an indexed child; `ReorderChild` names
    an existing child (or removes from the index). -/
theorem index_sound_step {sv : Server} {parent : List Bytes} {p : Node} (op : IdxOp)
    (h : getNode sv parent = some p) (hinv : IdxInv p) (hok : op.ok p) :
    ∃ p', getNode (op.run parent sv) parent = some p' ∧ IdxInv p' :=
  op.step_inv h hinv hok

example : (IdxOp.reorder [98] [97]).ok exNode := by simp [IdxOp.ok, exNode, findKid, Node.name, Node.kids]
example : (IdxOp.insert 0 none [] [99] true).ok exNode := by right; left; decide

/-- …and so does every sequence of operations. -/
theorem index_sound_run {parent : List Bytes} (ops : List IdxOp) {sv : Server} {p : Node}
    (h : getNode sv parent = some p) (hinv : IdxInv p) (hok : OpsOk parent sv ops) :
    ∃ p', getNode (runOps parent sv ops).1 parent = some p' ∧ IdxInv p' :=
  runOps_inv ops h hinv hok

/-! ## 4. removal drops the entry -/

/-- After `removeOne` of child `key`, `key` is not in the parent's index. -/
theorem remove_drops_entry_removeOne {sv : Server} {parent : List Bytes} {p c : Node} {key : Bytes} (by_ : Nat)
    (notify : Bool) (h : getNode sv parent = some p) (hc : getNode sv (parent ++ [key]) = some c)
    (hn : p.index.Nodup) :
    ∃ p', getNode (removeOne sv by_ notify (parent ++ [key])) parent = some p' ∧ key ∉ p'.index := by
  obtain ⟨p', h1, h2, _⟩ := removeOne_drops by_ notify h hc hn
  exact ⟨p', h1, h2⟩

/-- After `removeChild` (recursive) of child `key`, `key` is not in the parent's index. -/
theorem remove_drops_entry {sv : Server} {parent : List Bytes} {p c : Node} {key : Bytes} (by_ : Nat)
    (notify : Bool) (h : getNode sv parent = some p) (hc : getNode sv (parent ++ [key]) = some c)
    (hn : p.index.Nodup) :
    ∃ p', getNode (removeChild sv by_ notify (parent ++ [key])) parent = some p' ∧ key ∉ p'.index :=
  removeChild_drops by_ notify h hc hn


/-! ## 1c. `SetDataNode` with SETDATANODE_FLAG_ADDTOINDEX -/

/-- The clause loop of `SetDataNode(path, data, ADDTOINDEX)`: an inner clause creates a missing child by a plain
    `PutChild` (no index change) and descends; at the last clause an existing child means nothing happens at all,
    a missing child means exactly `InsertOrderedChild(data, "", clause)` on the node reached — whose instruction
    and replay are `log_replay_insertOrderedChild` (position = before the last entry with the empty name, i.e. the
    end of the index unless a child with an empty name is indexed). -/
theorem log_replay_setDataNode {sv : Server} {cur : List Bytes} {p : Node} (by_ : Nat) (d : Option Nat) (cl : Bytes)
    (h : getNode sv cur = some p) :
    (∀ rest, rest ≠ [] →
      setDataClauses by_ d true sv cur (cl :: rest) =
        setDataClauses by_ d true
          (if (findKid cl p.kids).isSome then sv else putChild sv by_ cur (Node.fresh cl none) true)
          (cur ++ [cl]) rest) ∧
    (∀ c, findKid cl p.kids = some c → setDataClauses by_ d true sv cur [cl] = sv) ∧
    (findKid cl p.kids = none →
      setDataClauses by_ d true sv cur [cl] =
        (insertOrderedChild sv by_ cur d [] cl true).updSess by_ (fun s => { s with indexingPresent := true }) ∧
      ∃ p', getNode (setDataClauses by_ d true sv cur [cl]) cur = some p' ∧
        replayAll p.index [(Instr.ins (insertPos p.index []) (ordPair p cl).1).render] = some p'.index) := by
  refine ⟨fun rest hr => setDataClauses_inner by_ d cl rest hr h,
    fun c hk => setDataClauses_last_present by_ d cl h hk, fun hk => ?_⟩
  have he := setDataClauses_last_absent by_ d cl h hk
  refine ⟨he, ?_⟩
  obtain ⟨p', _, _, hg, _, hr⟩ := log_replay_insertOrderedChild by_ d cl true h nil_ne_removeFromIndexName
  exact ⟨p', by rw [he]; exact hg, hr⟩


example : findKid [99] exNode.kids = none := by decide

/-! ## 3b. the invariant over whole trees (`TreeInv sv`: at every node `NodeInv` = `IdxInv` ∧ sibling names distinct) -/

/-- the generated name `I<n>` is never the name of an existing child (`kids.length + 1` attempts, pairwise
    different candidates) -/
theorem generated_name_fresh (p : Node) : findKid (ordPair p []).1 p.kids = none :=
  ordPair_fresh p rfl

/-- the tree a server starts with -/
theorem index_sound_init : TreeInv ({} : Server) := AllNodes.fresh _ _

/-- plain `PutChild` (also when it replaces an indexed child of the same name: the entry then refers to the new
    child), for any child whose own subtree is sound -/
theorem index_sound_putChild {sv : Server} (by_ : Nat) (parent : List Bytes) (child : Node) (notify : Bool)
    (h : TreeInv sv) (hc : AllNodes NodeInv child) : TreeInv (putChild sv by_ parent child notify) :=
  treeInv_putChild by_ parent child notify h hc

/-- `InsertOrderedChild`, provided it does not index (`before = "!Rmv"`) or the name used is not already an indexed
    child of the parent (always true for
    generated names, `generated_name_fresh`, and for `SetDataNode`, which only inserts absent children).  Without
    this hypothesis the statement is false in the model and in the C++ alike: `InsertOrderedChild(…, name)` with
    `name` an indexed child appends a second entry of that name. -/
theorem index_sound_insertOrderedChild {sv : Server} (by_ : Nat) (parent : List Bytes) (d : Option Nat)
    (before name : Bytes) (nc : Bool) (h : TreeInv sv)
    (hok : ∀ p, getNode sv parent = some p →
      before = removeFromIndexName ∨ findKid (ordPair p name).1 p.kids = none ∨ (ordPair p name).1 ∉ p.index) :
    TreeInv (insertOrderedChild sv by_ parent d before name nc) :=
  treeInv_insertOrderedChild by_ parent d before name nc h hok

/-- `ReorderChild(child, before)` for an existing child (or out of the index) -/
theorem index_sound_reorderChild {sv : Server} (parent : List Bytes) (child before : Bytes) (h : TreeInv sv)
    (hok : ∀ p, getNode sv parent = some p → before = removeFromIndexName ∨ (findKid child p.kids).isSome) :
    TreeInv (reorderChild sv parent child before) :=
  treeInv_reorderChild parent child before h hok

theorem index_sound_removeIndexEntry {sv : Server} (parent : List Bytes) (key : Bytes) (notify : Bool)
    (h : TreeInv sv) : TreeInv (removeIndexEntry sv parent key notify) :=
  treeInv_removeIndexEntry parent key notify h

theorem index_sound_removeOne {sv : Server} (by_ : Nat) (notify : Bool) (names : List Bytes) (h : TreeInv sv) :
    TreeInv (removeOne sv by_ notify names) :=
  treeInv_removeOne by_ notify names h

/-- `RemoveChild` (recursive, notifying or quiet), any path -/
theorem index_sound_removeChild {sv : Server} (by_ : Nat) (notify : Bool) (names : List Bytes) (h : TreeInv sv) :
    TreeInv (removeChild sv by_ notify names) :=
  treeInv_removeChild by_ notify names h

/-- `SetDataNode`, with or without ADDTOINDEX, any path -/
theorem index_sound_setDataNode {sv : Server} (by_ : Nat) (path : Bytes) (d : Option Nat) (addToIndex : Bool)
    (h : TreeInv sv) : TreeInv (setDataNode sv by_ path d addToIndex) :=
  treeInv_setDataNode by_ path d addToIndex h

/-- the handlers PR_COMMAND_INSERTORDEREDDATA, PR_COMMAND_REMOVEDATA, `AttachedToServer`, `Cleanup` -/
theorem index_sound_handlers {sv : Server} (h : TreeInv sv) :
    (∀ sid key before vals, TreeInv (insertOrdered sv sid key before vals)) ∧
    (∀ sid keys, TreeInv (removeData sv sid keys)) ∧
    (∀ slot host, TreeInv (attach sv slot host).1) ∧
    (∀ sid, TreeInv (detach sv sid)) :=
  ⟨fun sid key before vals => treeInv_insertOrdered sid key before vals h,
   fun sid keys => treeInv_removeData sid keys h,
   fun slot host => treeInv_attach slot host h,
   fun sid => treeInv_detach sid h⟩

/-- Every path the wildcard traversal hands to a handler is the name path of an existing node — for every
    matcher, callback and fuel (no pattern laws needed). -/
theorem traversal_visits_exist {sv : Server} (s : Sess) (pm : PM) (cb : Visit → Nat → Node → Bool × Int)
    (h : TreeInv sv) : ∀ v ∈ travSession sv s pm cb, below sv.root v = true :=
  travSession_sound s pm cb h

/-- PR_COMMAND_REORDERDATA, unconditionally: the traversal hands over existing nodes, and reorders never make a
    node disappear, so every visited node is still a child of its parent when its turn comes. -/
theorem index_sound_reorder {sv : Server} (sid : Nat) (key before : Bytes) (h : TreeInv sv) :
    TreeInv (reorder sv sid key before) :=
  treeInv_reorder sid key before h

/-- every command a session can send (`runCmd` of engine `srv`: SETDATA ± ADDTOINDEX, REMOVEDATA, subscribe,
    unsubscribe, parameters, INSERTORDEREDDATA, REORDERDATA, client-to-client Messages, PING) -/
theorem index_sound_runCmd {sv : Server} (sid : Nat) (c : Muscle.Eng.SrvEngine.Cmd) (h : TreeInv sv) :
    TreeInv (Muscle.Eng.SrvEngine.runCmd sv sid c) :=
  treeInv_runCmd sid c h

/-- Every reachable server state — any interleaving of `attach`, `detach`, commands of any sessions, pushes and
    inbox pumps, from the initial server — has at every node an index that lists existing children of that node
    at most once (and pairwise different sibling names). -/
theorem index_sound_reach {sv : Server} (h : Reach sv) : TreeInv sv :=
  treeInv_reach h

/-- …in particular every state of the engine `srv` on any op stream whatsoever (batches, bad ops, `case` resets
    included). -/
theorem index_sound_engine (lines : List (List String)) :
    TreeInv (lines.foldl (fun st toks => (Muscle.Eng.SrvEngine.step st toks).1) ({} : Muscle.Eng.SrvEngine.St)).sv :=
  treeInv_engine lines

/-- what `TreeInv` says about one node -/
theorem index_sound {sv : Server} (h : Reach sv) {path : List Bytes} {n : Node} (hn : getNode sv path = some n) :
    n.index.Nodup ∧ ∀ c ∈ n.index, (findKid c n.kids).isSome :=
  (treeInv_getNode (treeInv_reach h) hn).here.1

/-- non-vacuity: a reachable tree with a non-empty index -/
example : (getNode (insertOrderedChild ({} : Server) 0 [] (some 1) [] [97] true) []).map Node.index = some [[97]] := by
  rw [getNode_insertOrderedChild 0 (some 1) [] [97] true (sv := {}) (parent := []) (p := Node.fresh [] none) rfl]
  simp only [Option.map_some, insertOrderedResult_index, insertIndexAfter, if_neg nil_ne_removeFromIndexName]
  decide
example : TreeInv (insertOrderedChild ({} : Server) 0 [] (some 1) [] [97] true) :=
  index_sound_insertOrderedChild 0 [] (some 1) [] [97] true index_sound_init
    (by intro p hp; cases hp; right; left; decide)

/-- non-vacuity of `Reach`: attach a session, let it insert two ordered children and reorder -/
example : Reach (Muscle.Eng.SrvEngine.runCmd (Muscle.Eng.SrvEngine.runCmd (attach {} 0 [104]).1 0 (.ins [] [] [1, 2]))
    0 (.reorder [42] [])) :=
  .cmd 0 _ (.cmd 0 _ (.attach 0 [104] .init))

/-! ## 5. subtree clone / save / restore (`CloneDataNodeSubtree`, `SaveNodeTreeToMessage`, `RestoreNodeTreeFromMessage`;
model: `Reflector/Clone.lean`, engine ops `clone` / `save` / `restore`) -/

/-- `DataNode::InsertIndexEntryAt(i, key)` keeps the invariant when `key` is not listed yet (that `key` is a child is
    checked by the function itself).  Without the hypothesis it is false, in the model and in the C++ alike: this is the
    call the clone made for children the destination already listed, before /repo 003a760. -/
theorem index_sound_insertIndexEntryAt {sv : Server} (parent : List Bytes) (i : Nat) (key : Bytes) (h : TreeInv sv)
    (hok : ∀ p, getNode sv parent = some p → key ∉ p.index) : TreeInv (insertIndexEntryAt sv parent i key) :=
  treeInv_insertIndexEntryAt parent i key h hok

/-- `CloneDataNodeSubtree` (as repaired by /repo 003a760), from EVERY state: any source node, any destination — fresh,
    existing, with an index of its own, the source itself, inside the source or above it —, with or without ADDTOINDEX,
    whether the call succeeds, stops at the depth limit or (in the model) runs out of fuel: every index of the resulting
    tree is duplicate-free and lists only existing children, sibling names stay distinct. -/
theorem index_sound_clone {sv : Server} (by_ : Nat) (src dest : List Bytes) (ati : Bool) (h : TreeInv sv) :
    TreeInv (cloneDataNodeSubtree sv by_ src dest ati).1 :=
  treeInv_cloneDataNodeSubtree by_ src dest ati h

/-- `RestoreNodeTreeFromMessage`, from every state and for EVERY saved tree — also one `SaveNodeTreeToMessage` would
    never write (an index naming absent children, or the same child twice) —, any destination, flag and depth. -/
theorem index_sound_restore {sv : Server} (by_ : Nat) (t : Node) (dest : List Bytes) (ati : Bool) (maxDepth : Nat)
    (h : TreeInv sv) : TreeInv (restoreNodeTree sv by_ t dest ati maxDepth).1 :=
  treeInv_restoreNodeTree by_ t dest ati maxDepth h

/-- a small tree: `/p` and `/q`, each with children `x`, `y`, both indexed -/
def exLeafX : Node := .mk [120] none [] [] 0 []
def exLeafY : Node := .mk [121] none [] [] 0 []
def exTwo : Server :=
  { root := .mk [] none [.mk [112] none [exLeafX, exLeafY] [[120], [121]] 0 [],
                         .mk [113] none [exLeafX, exLeafY] [[120], [121]] 0 []] [] 0 [] }

theorem exTwo_inv : TreeInv exTwo := by
  have leafX : AllNodes NodeInv exLeafX := AllNodes.fresh [120] none
  have leafY : AllNodes NodeInv exLeafY := AllNodes.fresh [121] none
  have mid : ∀ nm : Bytes, AllNodes NodeInv (.mk nm none [exLeafX, exLeafY] [[120], [121]] 0 []) := by
    intro nm
    refine AllNodes.mk _ ⟨⟨by simp only [Node.index]; decide, by simp only [Node.index, Node.kids]; decide⟩,
      by unfold KidsDistinct; simp only [Node.kids]; decide⟩ ?_
    intro k hk
    simp only [Node.kids, List.mem_cons, List.mem_nil_iff, or_false] at hk
    rcases hk with rfl | rfl
    · exact leafX
    · exact leafY
  refine AllNodes.mk _ ⟨⟨by decide, by decide⟩, by unfold KidsDistinct; decide⟩ ?_
  intro k hk
  simp only [exTwo, Node.kids, List.mem_cons, List.mem_nil_iff, or_false] at hk
  rcases hk with rfl | rfl
  · exact mid _
  · exact mid _

/-- the repaired index loop, cloning `/p`'s index onto `/q` (which lists the same children): `/q`'s index is `/p`'s -/
example : (getNode (cloneIndexLoop true [[112]] [[113]] 2 0 0 exTwo) [[113]]).map Node.index = some [[120], [121]] := by
  decide

/-- …and the loop as it was BEFORE /repo 003a760 (`dedup := false`: `InsertIndexEntryAt` without removing the child's
    existing entry) lists every child twice — the defect a reviewer found, which no check exercised before the engine
    had the `clone` op -/
example : (getNode (cloneIndexLoop false [[112]] [[113]] 2 0 0 exTwo) [[113]]).map Node.index =
    some [[120], [121], [120], [121]] := by
  decide

/-- so the unrepaired variant does NOT preserve the invariant (from a state that satisfies it: `exTwo_inv`) -/
theorem index_unsound_clone_before_003a760 : ¬ TreeInv (cloneIndexLoop false [[112]] [[113]] 2 0 0 exTwo) := by
  intro h
  have hi : (getNode (cloneIndexLoop false [[112]] [[113]] 2 0 0 exTwo) [[113]]).map Node.index =
      some [[120], [121], [120], [121]] := by decide
  cases hg : getNode (cloneIndexLoop false [[112]] [[113]] 2 0 0 exTwo) [[113]] with
  | none => rw [hg] at hi; cases hi
  | some n =>
    rw [hg] at hi
    simp only [Option.map_some, Option.some.injEq] at hi
    have hn := (treeInv_getNode h hg).here.1.1
    rw [hi] at hn
    exact absurd hn (by decide)

/-- What the index part of a clone hands to `notifyIndex`: one round of the loop, for an entry whose name is a child of
    the clone, is `RemoveIndexEntry(name, notify)` followed by `InsertIndexEntryAt(writeIdxCounter, name, notify)` on the
    destination (first equation); the removal's instruction is exposed by `log_replay_removeIndexEntry`, the insert's by
    the second equation, with the destination node as it is after the change. -/
theorem clone_emitted {sv : Server} {src dest : List Bytes} {nm : Bytes} {clone : Node} (r i w : Nat)
    (hs : (getNode sv src).bind (fun n => n.index[i]?) = some nm) (hd : getNode sv dest = some clone)
    (hk : (findKid nm clone.kids).isSome) :
    cloneIndexLoop true src dest (r+1) i w sv =
        cloneIndexLoop true src dest r (i+1) (w+1) (insertIndexEntryAt (removeIndexEntry sv dest nm true) dest w nm) ∧
      (∀ (sv' : Server) (p : Node) (k : Nat), getNode sv' dest = some p → (findKid nm p.kids).isSome →
        insertIndexEntryAt sv' dest k nm =
          notifyIndex (setNode sv' dest (fun q => q.setIndex (q.index.take k ++ [nm] ++ q.index.drop k))) dest
            (p.setIndex (insertAt p.index k nm)) (Instr.ins k nm).render) :=
  ⟨cloneIndexLoop_emitted r i w hs hd hk, fun _ _ k hp hkid => insertIndexEntryAt_emits k hp hkid⟩

/-- The index loop of a clone from any point that satisfies the loop invariant `CloneInv` (the first `w` entries of the
    destination's index are the names written so far and none of them is read again; it holds at the start of the loop in
    every `TreeInv` state and is kept by every round): the destination keeps its children, and the client that applies the
    emitted instructions (`cloneIndexLog`), in order, to the destination's old index holds its new index.  Source and
    destination may be one node or lie inside one another; the source's index is read as it is at each round. -/
theorem log_replay_clone_loop (src dest : List Bytes) (r i w : Nat) {sv : Server} {pd : Node}
    (hinv : CloneInv src dest i w sv) (hd : getNode sv dest = some pd) :
    ∃ pd', getNode (cloneIndexLoop true src dest r i w sv) dest = some pd' ∧ pd'.kids = pd.kids ∧
      replayAll pd.index ((cloneIndexLog src dest r i w sv).map Instr.render) = some pd'.index := by
  obtain ⟨pd', h1, h2, h3⟩ := cloneIndexLoop_replay src dest r i w sv pd hinv hd
  exact ⟨pd', h1, h2, by rw [replayAll_render]; exact h3⟩

/-- `CloneDataNodeSubtree`'s "make sure the clone ends up with an equivalent index", in any state of a sound tree: the
    instructions handed to `notifyIndex` during the clone (`cloneIndexLogOf`), replayed on the destination's old index,
    give its new index — and the client never refuses one (every position in range, every removal names the entry at
    its position). -/
theorem log_replay_clone {sv : Server} (by_ : Nat) {src dest : List Bytes} {pd : Node} (h : TreeInv sv)
    (hd : getNode sv dest = some pd) :
    ∃ pd', getNode (cloneIndex true by_ sv src dest).1 dest = some pd' ∧ pd'.kids = pd.kids ∧
      replayAll pd.index ((cloneIndexLogOf by_ sv src dest).map Instr.render) = some pd'.index :=
  cloneIndex_replay by_ h hd

/-- "…make sure the clone ends up with an equivalent index": after the loop the destination's index BEGINS with the copied
    names (`cloneIndexNames`: the source's entries, read live, whose name is a child of the clone), in the order in which they
    were read; entries the destination had for other children follow. -/
theorem clone_index_prefix (src dest : List Bytes) (r i w : Nat) {sv : Server} {pd : Node}
    (hinv : CloneInv src dest i w sv) (hd : getNode sv dest = some pd) :
    ∃ pd', getNode (cloneIndexLoop true src dest r i w sv) dest = some pd' ∧
      pd'.index.take (w + (cloneIndexNames src dest r i w sv).length) =
        pd.index.take w ++ cloneIndexNames src dest r i w sv :=
  cloneIndexLoop_prefix src dest r i w sv pd hinv hd

/-- non-vacuity: `/q` listed `[y, x]`-like entries of its own; after the loop its index is `/p`'s -/
example : cloneIndexNames [[112]] [[113]] 2 0 0 exTwo = [[120], [121]] := by decide

/-- the positions of a clone's log are in range -/
theorem positions_in_range_clone {sv : Server} (by_ : Nat) {src dest : List Bytes} {pd : Node} (h : TreeInv sv)
    (hd : getNode sv dest = some pd) : InRange pd.index (cloneIndexLogOf by_ sv src dest) := by
  obtain ⟨pd', _, _, hr⟩ := cloneIndex_replay by_ (src := src) h hd
  rw [replayAll_render] at hr
  exact inRange_of_applyAll hr

/-- non-vacuity: the log of cloning `/p`'s index onto `/q` is remove-then-insert per entry, and replays -/
example : cloneIndexLogOf 0 exTwo [[112]] [[113]] =
    [.rem 0 [120], .ins 0 [120], .rem 1 [121], .ins 1 [121]] := by decide
example : ∃ pd', getNode (cloneIndex true 0 exTwo [[112]] [[113]]).1 [[113]] = some pd' ∧
    pd'.kids = [exLeafX, exLeafY] ∧
    replayAll [[120], [121]] ((cloneIndexLogOf 0 exTwo [[112]] [[113]]).map Instr.render) = some pd'.index :=
  log_replay_clone 0 (pd := .mk [113] none [exLeafX, exLeafY] [[120], [121]] 0 []) exTwo_inv rfl

/-- non-vacuity of the new `Reach` constructors: a session attaches, inserts ordered children, clones that subtree
    twice onto one destination, restores a saved copy of it -/
example : Reach (restoreNodeTree
    (cloneDataNodeSubtree (cloneDataNodeSubtree
      (Muscle.Eng.SrvEngine.runCmd (attach {} 0 [104]).1 0 (.ins [] [] [1, 2])) 0 [[104], [48]] [[113]] false).1
      0 [[104], [48]] [[113]] false).1 0 (Node.fresh [] none) [[114]] true 5).1 :=
  .restore 0 _ _ _ _ (.clone 0 _ _ _ (.clone 0 _ _ _ (.cmd 0 _ (.attach 0 [104] .init))))

end Muscle.Props.C13
