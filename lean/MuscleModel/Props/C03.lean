import MuscleModel.Gateway.ProofsFrame
import MuscleModel.Gateway.ProofsText
import MuscleModel.Gateway.ProofsRaw
import MuscleModel.Gateway.ProofsWs
import MuscleModel.Gateway.ProofsTemplating
import MuscleModel.Generated.Constants

/-!
# C03 — A gateway delivers exactly the sent sequence for every byte segmentation

Property theorems only (lemmas: `Gateway/Proofs*.lean`).  The model (`Gateway/*.lean`) mirrors the
call loops of the real gateways — `DoOutputImplementation`/`SendMoreData`,
`DoInputImplementation`/`ReceiveMoreData` with the scratch-buffer branch, the text line splitter, the
raw and SLIP gateways, the WebSocket frame header — over a *scheduled transport*: a byte queue, and for
every `DoOutput(maxBytes)` / `DoInput(maxBytes)` call the list of byte counts its `Write`s/`Read`s obtain
(0 = would block).  The tie to the C++ code is the correspondence run of engine `gw`, which executes the
same definitions.

* `rxCalls R s cs q` — ANY list `cs` of input calls (each with its own `maxBytes` and grants) on a transport
  holding `q`; `txCalls T fuel t cs []` — ANY list of output calls; `run G s evs` — ANY list of events
  (`Ev.add u` = `AddOutgoingMessage`, `Ev.output c`, `Ev.input c`): every interleaving and segmentation.
* Hypotheses, all explicit: Messages are C01-well-formed, within the nesting limit and the size limits
  (`frameOKZ`/`frameOK`); zlib is an opaque pair of functions with `inflate (deflate x) = x` (`CodecOK`; the
  history dependence of the real deflate stream is outside the model — validated by the correspondence run
  and the direct oracle, incl. the F24 regression); text lines contain no CR/LF/NUL (`cleanLine`) and the
  terminator is CR LF, LF or CR; a raw/SLIP chunk without bytes contributes nothing (the SLIP decoder drops empty
  frames, so the SLIP unit is the non-empty chunk); "drained" = nothing in transit, nothing pending.  Templating and the WebSocket handshake / receive loop are outside these theorems.
-/

namespace Muscle.Props.C03
open Muscle Muscle.Wire Muscle.Gen Muscle.Gateway

/-! ## the generic statements, proved once -/

/-- **The receiver's state is a function of the consumed byte prefix alone.**  For any receiver whose single
    `Read` results refine a byte-wise machine `step` (`RxRefines`): one `DoInput` call — any `maxBytes`, any
    grants — consumes a prefix `x` of the transport and ends exactly where feeding `x` byte by byte ends. -/
theorem rx_state_is_prefix_fn {σ υ ω : Type} {R : RxM σ υ} {step : σ → UInt8 → σ × List ω} {proj : List υ → List ω}
    {Inv : σ → Prop} {ok : UInt8 → Prop} (H : RxRefines R step proj Inv ok)
    (s : σ) (c : Call) (q : Bytes) (hi : Inv s) (hq : ∀ b ∈ q, ok b) :
    ∃ x, q = x ++ (rxCall R s c q).2.1 ∧ (rxCall R s c q).1 = (feedBy step s x).1 ∧
      proj (rxCall R s c q).2.2 = (feedBy step s x).2 :=
  let ⟨x, h1, h2, h3, _⟩ := rxCall_refines H s c q hi hq
  ⟨x, h1, h2, h3⟩

/-- **Input: any chunking of the byte stream gives the same sequence.**  Two arbitrary lists of `DoInput` calls
    (different numbers of calls, `maxBytes`, bytes per `Read`, would-blocks) that both empty the transport end in
    the same receiver state and have delivered the same units — those of feeding the bytes one at a time. -/
theorem input_chunking_independent {σ υ ω : Type} {R : RxM σ υ} {step : σ → UInt8 → σ × List ω} {proj : List υ → List ω}
    {Inv : σ → Prop} {ok : UInt8 → Prop} (H : RxRefines R step proj Inv ok)
    (cs1 cs2 : List Call) (s : σ) (q : Bytes) (hi : Inv s) (hq : ∀ b ∈ q, ok b)
    (h1 : (rxCalls R s cs1 q []).2.1 = []) (h2 : (rxCalls R s cs2 q []).2.1 = []) :
    (rxCalls R s cs1 q []).1 = (rxCalls R s cs2 q []).1 ∧
    proj (rxCalls R s cs1 q []).2.2 = proj (rxCalls R s cs2 q []).2.2 ∧
    proj (rxCalls R s cs1 q []).2.2 = (feedBy step s q).2 := by
  obtain ⟨a1, a2⟩ := input_any_chunking H cs1 s q hi hq h1
  obtain ⟨b1, b2⟩ := input_any_chunking H cs2 s q hi hq h2
  exact ⟨by rw [a1, b1], by rw [a2, b2], a2⟩

/-- **Output: any short-write schedule emits the same bytes.**  Whatever the list of `DoOutput` calls, what has been
    written is a prefix of the sender's pending bytes; two schedules that both leave nothing pending have written
    the same bytes — exactly the pending bytes. -/
theorem output_schedule_independent {τ ι : Type} {T : TxM τ} {enqueue : τ → ι → τ} {pending : τ → Bytes} {enc : ι → Bytes}
    (H : TxRefines T enqueue pending enc) (fuel : τ → Call → Nat) (cs1 cs2 : List Call) (t : τ)
    (h1 : pending (txCalls T fuel t cs1 []).1 = []) (h2 : pending (txCalls T fuel t cs2 []).1 = []) :
    (∃ rest, pending t = (txCalls T fuel t cs1 []).2 ++ rest) ∧
    (txCalls T fuel t cs1 []).2 = (txCalls T fuel t cs2 []).2 ∧ (txCalls T fuel t cs1 []).2 = pending t := by
  have a := output_any_schedule H fuel cs1 t
  have b := output_any_schedule H fuel cs2 t
  exact ⟨a.1, by rw [a.2 h1, b.2 h2], a.2 h1⟩

/-- **…for whole histories**: after any interleaving of queueing, output calls and input calls, every byte of
    the sent stream is consumed, in transit, or pending (in this order), and receiver state and deliveries are
    those of feeding the consumed prefix byte by byte.  Nothing is lost, duplicated or reordered at any time. -/
theorem interleave_independent {τ σ ι υ ω : Type} {G : Gw τ σ ι υ} {step : σ → UInt8 → σ × List ω} {proj : List υ → List ω}
    {Inv : σ → Prop} {ok : UInt8 → Prop} {pending : τ → Bytes} {enc : ι → Bytes}
    (HR : RxRefines G.rx step proj Inv ok) (HT : TxRefines G.tx G.enqueue pending enc)
    (t0 : τ) (r0 : σ) (h0 : pending t0 = []) (hi : Inv r0) (evs : List (Ev ι)) (hok : ∀ x ∈ addsOf evs, ∀ b ∈ enc x, ok b) :
    ∃ consumed, streamOf enc (addsOf evs) =
        consumed ++ ((run G { t := t0, q := [], r := r0, out := [] } evs).q ++ pending (run G { t := t0, q := [], r := r0, out := [] } evs).t) ∧
      (run G { t := t0, q := [], r := r0, out := [] } evs).r = (feedBy step r0 consumed).1 ∧
      proj (run G { t := t0, q := [], r := r0, out := [] } evs).out = (feedBy step r0 consumed).2 :=
  deliveries_are_prefix_fn HR HT t0 r0 h0 hi evs hok

/-! ## binary gateway (`MessageIOGateway`), default encoding and zlib-flagged frames -/

/-- A `Read` result of any size that fits what `ReceiveMoreData` asked for does what its bytes do one at a time. -/
theorem binary_rx_incremental (P : BinParams) (hP : 0 < P.hs ∧ P.hs < P.scratch) :
    RxRefines (binRx P) (binStep P) id (binInv P) (fun _ => True) :=
  binRx_refines P hP

/-- the sender, for every outgoing encoding level: what a call appends to the transport is exactly what leaves the
    sender (`DoOutputImplementation`/`SendMoreData`, any `maxBytes`, any short writes) -/
theorem binary_tx_conserves (P : BinParams) (lvl : Nat) :
    TxRefines (binTx P lvl) (fun t m => { t with queue := t.queue ++ [m] }) (binPending P lvl) (frameZ P lvl) :=
  binTx_refines P lvl

/-- header + flattened Message, fed to the receiver in any segmentation, yields that Message and the idle state -/
theorem frame_roundtrip (P : BinParams) (hP : P.OK) (m : Msg) (hm : frameOK P m) (rest : Bytes) :
    feedBy (binStep P) (binInitRx P) (frame m ++ rest) =
      ((feedBy (binStep P) (binInitRx P) rest).1, tripMsg m :: (feedBy (binStep P) (binInitRx P) rest).2) :=
  bin_frame_roundtrip P hP m hm rest

/-- the same for the frame built with outgoing level `lvl` ∈ 0..9 — compressed and flagged when the buffer has at least
    32 bytes, plain otherwise — for ANY codec with `inflate (deflate x) = x` -/
theorem frame_roundtrip_zlib (P : BinParams) (hP : P.OK) (hC : CodecOK P) (lvl : Nat) (hl : lvl ≤ 9) (m : Msg)
    (hm : frameOKZ P lvl m) (rest : Bytes) :
    feedBy (binStep P) (binInitRx P) (frameZ P lvl m ++ rest) =
      ((feedBy (binStep P) (binInitRx P) rest).1, tripMsg m :: (feedBy (binStep P) (binInitRx P) rest).2) :=
  bin_frameZ_roundtrip P hP hC lvl hl m hm rest

/-- **Input, binary gateway**: the frames of `ms` on the transport, ANY list of input calls that empties it:
    exactly `ms` (C01 round trip of each) is delivered, in order, and the receiver is idle without error. -/
theorem binary_input_any_chunking (P : BinParams) (hP : P.OK) (hC : CodecOK P) (lvl : Nat) (hl : lvl ≤ 9)
    (ms : List Msg) (hm : ∀ m ∈ ms, frameOKZ P lvl m) (cs : List Call)
    (hall : (rxCalls (binRx P) (binInitRx P) cs (streamOf (frameZ P lvl) ms) []).2.1 = []) :
    (rxCalls (binRx P) (binInitRx P) cs (streamOf (frameZ P lvl) ms) []).2.2 = ms.map tripMsg ∧
    (rxCalls (binRx P) (binInitRx P) cs (streamOf (frameZ P lvl) ms) []).1 = binInitRx P := by
  have hP' : 0 < P.hs ∧ P.hs < P.scratch := by rw [hP.hs8]; exact ⟨by omega, hP.scratch⟩
  have hinit : binInv P (binInitRx P) := ⟨fun _ => rfl, fun h => by simp [binInitRx, hP.hs8] at h⟩
  obtain ⟨a1, a2⟩ := input_any_chunking (binRx_refines P hP') cs (binInitRx P) _ hinit (fun _ _ => trivial) hall
  rw [bin_stream_roundtrip P hP hC lvl hl ms hm] at a1 a2
  exact ⟨a2, a1⟩

/-- **Output, binary gateway**: ANY list of output calls that leaves nothing pending has written exactly the frames of
    the queued Messages, back to back. -/
theorem binary_output_any_schedule (P : BinParams) (lvl : Nat) (ms : List Msg) (fuel : BinTx → Call → Nat) (cs : List Call)
    (hp : binPending P lvl (txCalls (binTx P lvl) fuel { cur := [], queue := ms } cs []).1 = []) :
    (txCalls (binTx P lvl) fuel { cur := [], queue := ms } cs []).2 = binQueueBytes P lvl ms := by
  have h := (output_any_schedule (binTx_refines P lvl) fuel cs { cur := [], queue := ms }).2 hp
  rw [h]; simp [binPending]

/-- **Segmentation independence, binary gateway**: whatever the events (interleaving, `maxBytes`, grants), if the
    link ends drained the receiver has delivered exactly the Messages queued, in order, each as C01's round trip
    of it, and is idle without error — for every outgoing encoding level and any codec satisfying `CodecOK`. -/
theorem segmentation_independent_binary (P : BinParams) (hP : P.OK) (hC : CodecOK P) (lvl : Nat) (hl : lvl ≤ 9)
    (evs : List (Ev Msg)) (hm : ∀ m ∈ addsOf evs, frameOKZ P lvl m)
    (hq : (run (binGw P lvl) { t := binInitTx, q := [], r := binInitRx P, out := [] } evs).q = [])
    (hp : binPending P lvl (run (binGw P lvl) { t := binInitTx, q := [], r := binInitRx P, out := [] } evs).t = []) :
    (run (binGw P lvl) { t := binInitTx, q := [], r := binInitRx P, out := [] } evs).out = (addsOf evs).map tripMsg ∧
    (run (binGw P lvl) { t := binInitTx, q := [], r := binInitRx P, out := [] } evs).r = binInitRx P := by
  have hP' : 0 < P.hs ∧ P.hs < P.scratch := by rw [hP.hs8]; exact ⟨by omega, hP.scratch⟩
  have hinit : binInv P (binInitRx P) := ⟨fun _ => rfl, fun h => by simp [binInitRx, hP.hs8] at h⟩
  obtain ⟨c, h1, h2, h3⟩ := deliveries_are_prefix_fn (G := binGw P lvl) (binRx_refines P hP') (binTx_refines P lvl)
    binInitTx (binInitRx P) rfl hinit evs (fun _ _ _ _ => trivial)
  rw [hq, hp] at h1
  simp only [List.append_nil] at h1
  rw [← h1, bin_stream_roundtrip P hP hC lvl hl _ hm] at h2 h3
  exact ⟨h3, h2⟩

/-! ## plain-text gateway -/

/-- **The line splitter**: scanning the read buffers one after the other (each with the carry-over text and the
    previous-char-was-CR flag the previous one left) = feeding their concatenation byte by byte: the lines do not
    depend on where the reads fall — CR at the end of one read and LF at the start of the next included. -/
theorem text_line_splitter (readSize : Nat) :
    RxRefines (textRx readSize) textStep id (fun _ => True) (fun b => b ≠ 0) :=
  textRx_refines readSize

/-- lines free of CR, LF, NUL, each followed by the terminator, come out as exactly those lines -/
theorem text_roundtrip (eol : Bytes) (he : IsEol eol) (ls : List Bytes) (h : ∀ l ∈ ls, cleanLine l) :
    (feedBy textStep textInitRx (textLinesBytes eol ls)).2 = ls := by
  obtain ⟨p', _, e⟩ := feed_lines eol he ls h false (fun _ => rfl) []
  simp only [List.append_nil] at e
  simp [textInitRx, e, feedBy]

/-- the text sender conserves bytes under every schedule (within its recursion limit per call) -/
theorem text_tx_conserves (eol : Bytes) :
    TxRefines (textTx eol) (fun t m => { t with queue := t.queue ++ [m] }) (textPending eol) (textLinesBytes eol) :=
  textTx_refines eol

/-- **Input, text gateway**: clean lines with their terminators on the transport, ANY list of input calls that empties
    it (any read sizes, a terminator split across reads): exactly those lines are delivered, in order. -/
theorem text_input_any_chunking (readSize : Nat) (eol : Bytes) (he : IsEol eol) (ls : List Bytes) (h : ∀ l ∈ ls, cleanLine l)
    (cs : List Call) (hall : (rxCalls (textRx readSize) textInitRx cs (textLinesBytes eol ls) []).2.1 = []) :
    (rxCalls (textRx readSize) textInitRx cs (textLinesBytes eol ls) []).2.2 = ls := by
  obtain ⟨_, a2⟩ := input_any_chunking (textRx_refines readSize) cs textInitRx _ trivial
    (textLinesBytes_nonzero eol he ls h) hall
  rw [text_roundtrip eol he ls h] at a2
  exact a2

/-- **Segmentation independence, text gateway**: any events; drained link ⇒ the delivered lines are exactly the lines of
    the queued Messages, in order (how they are grouped into delivered Messages depends on the reads; the lines do not). -/
theorem segmentation_independent_text (readSize limit : Nat) (eol : Bytes) (he : IsEol eol) (evs : List (Ev (List Bytes)))
    (hc : ∀ m ∈ addsOf evs, ∀ l ∈ m, cleanLine l)
    (hq : (run (textGw readSize limit eol) { t := textInitTx, q := [], r := textInitRx, out := [] } evs).q = [])
    (hp : textPending eol (run (textGw readSize limit eol) { t := textInitTx, q := [], r := textInitRx, out := [] } evs).t = []) :
    (run (textGw readSize limit eol) { t := textInitTx, q := [], r := textInitRx, out := [] } evs).out = (addsOf evs).flatten := by
  have hok : ∀ x ∈ addsOf evs, ∀ b ∈ textLinesBytes eol x, b ≠ 0 :=
    fun x hx => textLinesBytes_nonzero eol he x (hc x hx)
  have h := drained_delivers_all (G := textGw readSize limit eol) (textRx_refines readSize) (textTx_refines eol)
    textInitTx textInitRx rfl trivial evs hok hq hp
  have hclean : ∀ l ∈ (addsOf evs).flatten, cleanLine l := by
    intro l hl
    obtain ⟨m, hm, hlm⟩ := List.mem_flatten.mp hl
    exact hc m hm l hlm
  rw [streamOf_textLines, text_roundtrip eol he _ hclean] at h
  exact h

/-! ## SLIP and raw -/

/-- **SLIP escape/unescape round trip, for all byte strings**: `SLIPEncodeBytes x` decodes to exactly the frame `x`
    (nothing for the empty chunk) and leaves the decoder idle -/
theorem slip_roundtrip (K : SlipK) (hK : K.WF) (x rest : Bytes) :
    feedBy (slipByte K) slipIdle (slipEncode K x ++ rest) =
      ((feedBy (slipByte K) slipIdle rest).1, (if x.isEmpty then [] else [x]) ++ (feedBy (slipByte K) slipIdle rest).2) :=
  slip_roundtrip_append K hK x rest

/-- the SLIP decoder's END/ESC state survives any segmentation: a read of any size = its bytes one at a time -/
theorem slip_rx_incremental (K : SlipK) (readSize : Nat) :
    RxRefines (slipRx K readSize) (slipByte K) id (fun _ => True) (fun _ => True) :=
  slipRx_refines K readSize

/-- the SLIP constants of the compiled code satisfy the side conditions of `slip_roundtrip` -/
theorem slip_constants_wf :
    SlipK.WF { END := UInt8.ofNat slipEnd, ESC := UInt8.ofNat slipEsc, ESC_END := UInt8.ofNat slipEscEnd, ESC_ESC := UInt8.ofNat slipEscEsc } :=
  ⟨by decide, by decide, by decide, by decide⟩

/-- **Input, SLIP**: the encodings of non-empty chunks on the transport, ANY list of input calls that empties it
    (an ESC and its companion in different reads included): exactly those chunks are delivered. -/
theorem slip_input_any_chunking (K : SlipK) (hK : K.WF) (readSize : Nat) (xs : List Bytes) (hx : ∀ x ∈ xs, x.isEmpty = false)
    (cs : List Call) (hall : (rxCalls (slipRx K readSize) slipIdle cs ((xs.map (slipEncode K)).flatten) []).2.1 = []) :
    (rxCalls (slipRx K readSize) slipIdle cs ((xs.map (slipEncode K)).flatten) []).2.2 = xs := by
  obtain ⟨_, a2⟩ := input_any_chunking (slipRx_refines K readSize) cs slipIdle _ trivial (fun _ _ => trivial) hall
  have := slip_chunks_roundtrip K hK xs [] hx
  simp only [List.append_nil, feedBy] at this
  rw [this] at a2
  simpa using a2

/-- **Segmentation independence, SLIP gateway**: any events; drained link ⇒ the delivered frames are exactly the non-empty
    chunks of the queued Messages, in order. -/
theorem segmentation_independent_slip (K : SlipK) (hK : K.WF) (readSize : Nat) (evs : List (Ev (List Bytes)))
    (hq : (run (slipGw K readSize) { t := rawInitTx, q := [], r := slipInitRx, out := [] } evs).q = [])
    (hp : rawPending (run (slipGw K readSize) { t := rawInitTx, q := [], r := slipInitRx, out := [] } evs).t = []) :
    (run (slipGw K readSize) { t := rawInitTx, q := [], r := slipInitRx, out := [] } evs).out =
      ((addsOf evs).map (fun m => m.filter (fun c => !c.isEmpty))).flatten := by
  have h := drained_delivers_all (G := slipGw K readSize) (slipRx_refines K readSize) (rawTx_refines (slipMsg K))
    rawInitTx slipInitRx rfl trivial evs (fun _ _ _ _ => trivial) hq hp
  have hs := slip_stream_roundtrip K hK (addsOf evs)
  simp only [slipIdle] at hs
  simp only [slipInitRx] at h
  rw [hs] at h
  exact h

/-- raw gateway, both receive modes: the delivered chunks, concatenated, are the bytes consumed, however they were read -/
theorem raw_rx_incremental (readSize minChunk : Nat) :
    RxRefines (rawRx readSize minChunk) (rawStep readSize minChunk) List.flatten (rawInv minChunk) (fun _ => True) :=
  rawRx_refines readSize minChunk

/-- the raw sender (also used by SLIP, with `enc` = the SLIP encoding of the chunks) conserves bytes under every schedule -/
theorem raw_tx_conserves (enc : List Bytes → List Bytes) :
    TxRefines rawTx (fun t m => { t with queue := t.queue ++ [enc m] }) rawPending (fun m => rawEff (enc m)) :=
  rawTx_refines enc

/-- **Segmentation independence, raw gateway (immediate-forward mode)**: if the link ends drained, the delivered
    bytes are exactly the bytes of all queued chunks, in order. -/
theorem segmentation_independent_raw (readSize : Nat) (evs : List (Ev (List Bytes)))
    (hq : (run (rawGw readSize 0) { t := rawInitTx, q := [], r := rawInitRx, out := [] } evs).q = [])
    (hp : rawPending (run (rawGw readSize 0) { t := rawInitTx, q := [], r := rawInitRx, out := [] } evs).t = []) :
    (run (rawGw readSize 0) { t := rawInitTx, q := [], r := rawInitRx, out := [] } evs).out.flatten =
      (addsOf evs).flatten.flatten := by
  have h := drained_delivers_all (G := rawGw readSize 0) (rawRx_refines readSize 0) (rawTx_refines id)
    rawInitTx rawInitRx rfl (fun h => absurd rfl h) evs (fun _ _ _ _ => trivial) hq hp
  rw [h, rawRead0]
  show streamOf rawEff (addsOf evs) = _
  generalize addsOf evs = ms
  induction ms with
  | nil => rfl
  | cons m r ih => simp [streamOf, rawEff, ih]

/-! ## WebSocket frame kernels (`CreateReplyFrame` vs. the header logic and unmasking loop of `DoInputImplementation`) -/

/-- masking is an involution, for every key and every starting offset -/
theorem ws_mask_involutive (key : Bytes) (i : Nat) (p : Bytes) : wsMask key i (wsMask key i p) = p :=
  wsMask_involutive key i p

/-- the length field round-trips in its 7-bit, 16-bit (126) and 64-bit (127) form, with or without the mask bit -/
theorem ws_len_field_roundtrip (mask : Nat) (hm : mask = 0 ∨ mask = 128) (n : Nat) (hn : n < 9223372036854775808) (rest : Bytes) :
    ∃ b1 ext, wsLenField mask n = b1 :: ext ∧ wsReadLen b1 (ext ++ rest) = some (n, rest) :=
  let ⟨b1, ext, h1, h2, _, _⟩ := wsReadLen_lenField mask hm n hn rest
  ⟨b1, ext, h1, h2⟩

/-- a server's frame (unmasked), any opcode, any payload up to the receiver's 10 MB limit, any of the three length forms -/
theorem ws_server_frame_roundtrip (op : Nat) (hop : op < 16) (p : Bytes) (hp : p.length ≤ 10485760) (rest : Bytes) :
    wsDecodeFrame false (wsServerFrame op p ++ rest) = some (op, true, p, rest) :=
  ws_server_frame_decode op hop p hp rest

/-- a client's frame, masked with ANY 4-byte key written in the order it is applied -/
theorem ws_client_frame_roundtrip (op : Nat) (hop : op < 16) (key : Bytes) (hk : key.length = 4) (p : Bytes)
    (hp : p.length ≤ 10485760) (rest : Bytes) :
    wsDecodeFrame true (wsClientFrame op key p ++ rest) = some (op, true, p, rest) :=
  ws_client_frame_decode op hop key hk p hp rest

/-! ## templating gateway: the two ends' template caches (`TemplatingMessageIOGateway`, same `maxLRUCacheSizeBytes` on both ends) -/

/-- **Lock-step.**  Start both ends with the same cache (in particular: empty) and send ANY Message sequence: the receiver
    never fails, delivers exactly the sequence, and afterwards sender and receiver hold the same templates — same ids, same
    layouts and sizes, in the same recency order — and the same byte tally.  (`TCache` equality is equality of the ordered
    entry list and of the tally; `tRun` returns `none` as soon as the receiver cannot find or use a template.) -/
theorem template_caches_in_step (max : Nat) (us : List TUnit) (c : TCache) :
    ∃ c', tRun max c c us = some (c', c', us) :=
  tRun_lockstep max us c

/-- …after EVERY Message of the sequence, not only at its end -/
theorem template_caches_in_step_after_every_message (max : Nat) (us : List TUnit) (n : Nat) :
    ∃ c', tRun max tEmpty tEmpty (us.take n) = some (c', c', us.take n) :=
  tRun_lockstep max (us.take n) tEmpty

/-- one Message through both ends: equal caches stay equal (the sender's `GetAndMoveToFront`/`PutAtFront`/`TrimLRUCache`
    are matched move for move by the receiver's), and the receiver delivers that Message -/
theorem template_step_in_step (max : Nat) (c : TCache) (u : TUnit) :
    tRx max c (tTx max c u).2 = some ((tTx max c u).1, u) :=
  tStep_lockstep max c u

/-- **consequently every payload-only Message finds its template**: whenever the sender, in step with the receiver,
    chooses the payload-only form, the receiver's cache holds a template of that id with the Message's layout -/
theorem template_payload_finds_template (max : Nat) (c : TCache) (u v : TUnit) (h : (tTx max c u).2 = .payload v) :
    ∃ e, tLookup v.id c.entries = some e ∧ e.layout = v.layout ∧ tRx max c (.payload v) ≠ none :=
  tPayload_finds_template max c u v h

/-! ## non-vacuity -/

/-- the scenario A B C A D A with room for three templates: the sender evicts B (not the re-used A), sends the last A
    payload-only, and the receiver — in step — still has A -/
example :
    let A : TUnit := { id := 1, layout := [1], tsize := 10, trivial := false }
    let B : TUnit := { id := 2, layout := [2], tsize := 10, trivial := false }
    let C : TUnit := { id := 3, layout := [3], tsize := 10, trivial := false }
    let D : TUnit := { id := 4, layout := [4], tsize := 10, trivial := false }
    tKinds 35 tEmpty [A, B, C, A, D, A, B] = ['C', 'C', 'C', 'T', 'C', 'T', 'C'] ∧
    (tRun 35 tEmpty tEmpty [A, B, C, A, D, A]).map (fun x => x.1.entries.map (·.id)) = some [1, 4, 3] := by
  decide


/-- the parameters of the compiled code satisfy `BinParams.OK` -/
example : BinParams.OK { hs := gwHeaderSize, scratch := gwScratchRecvBufferSize, maxIn := 4294967295, mx := 256, deflate := (fun _ x => x), inflate := (fun _ _ => none) } :=
  ⟨rfl, by decide⟩

/-- `CodecOK` is satisfiable (the identity codec), so the zlib theorems are not vacuous -/
example : CodecOK { hs := 8, scratch := 2048, maxIn := 4294967295, mx := 256, deflate := (fun _ x => x), inflate := (fun _ b => some b) } := by
  intro lvl x _ _; rfl

/-- the hypotheses are satisfiable: an empty Message is `frameOK` -/
example : frameOK { hs := 8, scratch := 2048, maxIn := 4294967295, mx := 256, deflate := (fun _ x => x), inflate := (fun _ _ => none) } (.mk 7 []) := by
  refine ⟨?_, ?_, ?_, ?_⟩
  · simp [wfMsg, wfFields, countFlat, U32]
  · simp [depthMsg, depthFields]
  · simp [encode, encMsg, encFields]
  · simp [encode, encMsg, encFields]

/-- a non-trivial drained history: queue a Message, one whole-buffer output call — the transport then holds
    exactly its frame and the sender has nothing pending -/
example :
    let P : BinParams := { hs := 8, scratch := 2048, maxIn := 4294967295, mx := 256, deflate := (fun _ x => x), inflate := (fun _ _ => none) }
    let s := run (binGw P 0) { t := binInitTx, q := [], r := binInitRx P, out := [] }
      [.add (.mk 7 []), .output { maxBytes := 4294967295, grants := none }]
    s.q = frame (.mk 7 []) ∧ binPending P 0 s.t = [] := by
  simp [run, stepSys, binGw, binInitTx, txLoop, callFuel, binTx, binSettle, nextGrant, binPending, binQueueBytes, frame, frameZ, frameOf,
    encode, encMsg, encFields, countFlat]
  exact List.take_of_length_le (by simp)

/-- a CR LF split across two reads yields one line, not a line and an empty line -/
example : (textScan [10, 0x62, 13] [] (textScan [0x61, 13] [] textInitRx []).1 []).2 = [[0x62]]
    ∧ (textScan [0x61, 13] [] textInitRx []).2 = [[0x61]] := by decide

example : cleanLine [0x61, 0x62] := by intro b hb; simp at hb; rcases hb with h | h <;> subst h <;> decide

/-- the three length forms really occur: 125 → 7-bit, 126 → 16-bit, 65536 → 64-bit -/
example : (wsLenField 0 125).length = 1 ∧ (wsLenField 0 126).length = 3 ∧ (wsLenField 128 65536).length = 9 := by
  simp [wsLenField, beN]

end Muscle.Props.C03
