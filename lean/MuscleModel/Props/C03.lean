import MuscleModel.Gateway.ProofsFrame
import MuscleModel.Gateway.ProofsText
import MuscleModel.Gateway.ProofsRaw
import MuscleModel.Gateway.ProofsWs
import MuscleModel.Generated.Constants

/-!
# C03 — A gateway delivers exactly the sent sequence for every byte segmentation

Property theorems only (lemmas: `Gateway/Proofs*.lean`).  The model (`Gateway/*.lean`) mirrors the
call loops of the real gateways — `DoOutputImplementation`/`SendMoreData`,
`DoInputImplementation`/`ReceiveMoreData` with the scratch-buffer branch, the text line splitter, the
raw and SLIP gateways — over a *scheduled transport*: a byte queue, and for every `DoOutput(maxBytes)` /
`DoInput(maxBytes)` call the list of byte counts its `Write`s/`Read`s obtain (0 = would block).  The tie
to the C++ code is the correspondence run of engine `gw`, which executes the same definitions.

`run G s evs` executes ANY list of events (`Ev.add u` = `AddOutgoingMessage`, `Ev.output c`, `Ev.input c`,
each call `c` with its own `maxBytes` and grants), i.e. every interleaving and every segmentation.

Hypotheses, all explicit: Messages are C01-well-formed, within the nesting limit and the size limits
(`frameOK`); text lines contain no CR/LF/NUL (`cleanLine`) and the terminator is CR LF, LF or CR;
SLIP/raw chunks are non-empty (an empty chunk makes the real sender drop the rest of its Message:
reported finding, mirrored by the model as `rawEff`); the link is *drained* at the end (nothing in
transit, nothing pending: "the grants suffice").  zlib, templating and the WebSocket handshake are
outside these theorems (validated by the correspondence run and the direct oracle only).
-/

namespace Muscle.Props.C03
open Muscle Muscle.Wire Muscle.Gen Muscle.Gateway

/-! ## the generic statement, proved once -/

/-- **The receiver's state is a function of the consumed byte prefix alone.**  For any receiver whose single
    `Read` results refine a byte-wise machine `step` (`RxRefines`): one `DoInput` call — any `maxBytes`, any
    grants — consumes a prefix `x` of the transport and ends exactly where feeding `x` byte by byte ends. -/
theorem rx_state_is_prefix_fn {σ υ ω : Type} {R : RxM σ υ} {step : σ → UInt8 → σ × List ω} {proj : List υ → List ω}
    {Inv : σ → Prop} {ok : UInt8 → Prop} (H : RxRefines R step proj Inv ok)
    (s : σ) (c : Call) (q : Bytes) (hi : Inv s) (hq : ∀ b ∈ q, ok b) :
    ∃ x, q = x ++ (rxCall R s c q).2.1 ∧ (rxCall R s c q).1 = (feedBy step s x).1 ∧
      proj (rxCall R s c q).2.2 = (feedBy step s x).2 :=
  let ⟨x, h1, h2, h3, _⟩ := rxCall_refines H s c q hi hq
  ⟨x, h1, h2, h3⟩

/-- **…for whole histories**: after any interleaving of queueing, output calls and input calls, every byte of
    the sent stream is consumed, in transit, or pending (in this order), and receiver state and deliveries are
    those of feeding the consumed prefix byte by byte.  Nothing is lost, duplicated or reordered at any time. -/
theorem interleave_independent {τ σ ι υ ω : Type} {G : Gw τ σ ι υ} {step : σ → UInt8 → σ × List ω} {proj : List υ → List ω}
    {Inv : σ → Prop} {ok : UInt8 → Prop} {pending : τ → Bytes} {enc : ι → Bytes}
    (HR : RxRefines G.rx step proj Inv ok) (HT : TxRefines G.tx G.enqueue pending enc) (hok : ∀ x b, b ∈ enc x → ok b)
    (t0 : τ) (r0 : σ) (h0 : pending t0 = []) (hi : Inv r0) (evs : List (Ev ι)) :
    ∃ consumed, streamOf enc (addsOf evs) =
        consumed ++ ((run G { t := t0, q := [], r := r0, out := [] } evs).q ++ pending (run G { t := t0, q := [], r := r0, out := [] } evs).t) ∧
      (run G { t := t0, q := [], r := r0, out := [] } evs).r = (feedBy step r0 consumed).1 ∧
      proj (run G { t := t0, q := [], r := r0, out := [] } evs).out = (feedBy step r0 consumed).2 :=
  deliveries_are_prefix_fn HR HT hok t0 r0 h0 hi evs

/-! ## binary gateway (`MessageIOGateway`, default encoding) -/

/-- A `Read` result of any size that fits what `ReceiveMoreData` asked for does what its bytes do one at a time. -/
theorem binary_rx_incremental (P : BinParams) (hP : 0 < P.hs ∧ P.hs < P.scratch) :
    RxRefines (binRx P) (binStep P) id (binInv P) (fun _ => True) :=
  binRx_refines P hP

/-- header + flattened Message, fed to the receiver in any segmentation, yields that Message and the idle state -/
theorem frame_roundtrip (P : BinParams) (hP : P.OK) (m : Msg) (hm : frameOK P m) (rest : Bytes) :
    feedBy (binStep P) (binInitRx P) (frame m ++ rest) =
      ((feedBy (binStep P) (binInitRx P) rest).1, tripMsg m :: (feedBy (binStep P) (binInitRx P) rest).2) :=
  bin_frame_roundtrip P hP m hm rest

/-- **Segmentation independence, binary gateway**: whatever the events (interleaving, `maxBytes`, grants), if the
    link ends drained the receiver has delivered exactly the Messages queued, in order, each as C01's round trip
    of it, and reports no error. -/
theorem segmentation_independent_binary (P : BinParams) (hP : P.OK) (evs : List (Ev Msg))
    (hm : ∀ m ∈ addsOf evs, frameOK P m)
    (hq : (run (binGw P) { t := binInitTx, q := [], r := binInitRx P, out := [] } evs).q = [])
    (hp : binPending (run (binGw P) { t := binInitTx, q := [], r := binInitRx P, out := [] } evs).t = []) :
    (run (binGw P) { t := binInitTx, q := [], r := binInitRx P, out := [] } evs).out = (addsOf evs).map tripMsg ∧
    (run (binGw P) { t := binInitTx, q := [], r := binInitRx P, out := [] } evs).r = binInitRx P := by
  have hP' : 0 < P.hs ∧ P.hs < P.scratch := by rw [hP.hs8]; exact ⟨by omega, hP.scratch⟩
  have hinit : binInv P (binInitRx P) := ⟨fun _ => rfl, fun h => by simp [binInitRx, hP.hs8] at h⟩
  obtain ⟨c, h1, h2, h3⟩ := deliveries_are_prefix_fn (G := binGw P) (binRx_refines P hP') binTx_refines
    (fun _ _ _ => trivial) binInitTx (binInitRx P) rfl hinit evs
  rw [hq, hp] at h1
  simp only [List.append_nil] at h1
  rw [← h1, bin_stream_roundtrip P hP _ hm] at h2 h3
  exact ⟨h3, h2⟩

/-! ## plain-text gateway -/

/-- **The line splitter**: scanning the read buffers one after the other (each with the carry-over text and the
    previous-char-was-CR flag the previous one left) = feeding their concatenation byte by byte: the lines do not
    depend on where the reads fall — CR at the end of one read and LF at the start of the next included. -/
theorem text_line_splitter (readSize : Nat) :
    RxRefines (textRx readSize) textStep id (fun _ => True) (fun b => b ≠ 0) :=
  textRx_refines readSize

/-- lines free of CR, LF, NUL, each followed by the terminator, come out as exactly those lines -/
theorem text_roundtrip (eol : Bytes) (he : IsEol eol) (ls : List Bytes) (h : ∀ l ∈ ls, cleanLine l) :
    (feedBy textStep textInitRx (textLinesBytes eol ls)).2 = ls := by
  obtain ⟨p', _, e⟩ := feed_lines eol he ls h false (fun _ => rfl) []
  simp only [List.append_nil] at e
  simp [textInitRx, e, feedBy]

/-! ## SLIP and raw -/

/-- `SLIPEncodeBytes x` decodes to exactly the frame `x` (nothing for the empty chunk) and leaves the decoder idle -/
theorem slip_roundtrip (K : SlipK) (hK : K.WF) (x rest : Bytes) :
    feedBy (slipByte K) slipIdle (slipEncode K x ++ rest) =
      ((feedBy (slipByte K) slipIdle rest).1, (if x.isEmpty then [] else [x]) ++ (feedBy (slipByte K) slipIdle rest).2) :=
  slip_roundtrip_append K hK x rest

/-- the SLIP decoder's END/ESC state survives any segmentation: a read of any size = its bytes one at a time -/
theorem slip_rx_incremental (K : SlipK) (readSize : Nat) :
    RxRefines (slipRx K readSize) (slipByte K) id (fun _ => True) (fun _ => True) :=
  slipRx_refines K readSize

/-- the SLIP constants of the compiled code satisfy the side conditions of `slip_roundtrip` -/
theorem slip_constants_wf :
    SlipK.WF { END := UInt8.ofNat slipEnd, ESC := UInt8.ofNat slipEsc, ESC_END := UInt8.ofNat slipEscEnd, ESC_ESC := UInt8.ofNat slipEscEsc } :=
  ⟨by decide, by decide, by decide, by decide⟩

/-- raw gateway, both receive modes: the delivered chunks, concatenated, are the bytes consumed, however they were read -/
theorem raw_rx_incremental (readSize minChunk : Nat) :
    RxRefines (rawRx readSize minChunk) (rawStep readSize minChunk) List.flatten (rawInv minChunk) (fun _ => True) :=
  rawRx_refines readSize minChunk

/-- **Segmentation independence, raw gateway (immediate-forward mode)**: if the link ends drained, the delivered
    bytes are exactly the bytes of the queued chunks (up to the first empty chunk of each Message), in order. -/
theorem segmentation_independent_raw (readSize : Nat) (evs : List (Ev (List Bytes)))
    (hq : (run (rawGw readSize 0) { t := rawInitTx, q := [], r := rawInitRx, out := [] } evs).q = [])
    (hp : rawPending (run (rawGw readSize 0) { t := rawInitTx, q := [], r := rawInitRx, out := [] } evs).t = []) :
    (run (rawGw readSize 0) { t := rawInitTx, q := [], r := rawInitRx, out := [] } evs).out.flatten =
      streamOf rawEff (addsOf evs) := by
  have h := drained_delivers_all (G := rawGw readSize 0) (rawRx_refines readSize 0) (rawTx_refines id)
    (fun _ _ _ => trivial) rawInitTx rawInitRx rfl (fun h => absurd rfl h) evs hq hp
  rw [h, rawRead0]
  rfl

/-- senders: what a call appends to the transport is exactly what leaves the sender, for every `maxBytes` and grants -/
theorem tx_conserves_binary : TxRefines binTx (fun t m => { t with queue := t.queue ++ [m] }) binPending frame :=
  binTx_refines

/-! ## WebSocket kernels -/

theorem ws_mask_involutive (key : Bytes) (i : Nat) (p : Bytes) : wsMask key i (wsMask key i p) = p :=
  wsMask_involutive key i p

/-! ## non-vacuity -/

/-- the parameters of the compiled code satisfy `BinParams.OK` -/
example : BinParams.OK { hs := gwHeaderSize, scratch := gwScratchRecvBufferSize, maxIn := 4294967295, mx := 256, inflate := fun _ _ => none } :=
  ⟨rfl, by decide⟩

/-- the hypotheses are satisfiable: an empty Message is `frameOK`, and the empty history is drained -/
example : frameOK { hs := 8, scratch := 2048, maxIn := 4294967295, mx := 256, inflate := fun _ _ => none } (.mk 7 []) := by
  refine ⟨?_, ?_, ?_, ?_⟩
  · simp [wfMsg, wfFields, countFlat, U32]
  · simp [depthMsg, depthFields]
  · simp [encode, encMsg, encFields]
  · simp [encode, encMsg, encFields]

/-- a non-trivial drained history: queue a Message, one whole-buffer output call — the transport then holds
    exactly its frame and the sender has nothing pending -/
example :
    let P : BinParams := { hs := 8, scratch := 2048, maxIn := 4294967295, mx := 256, inflate := fun _ _ => none }
    let s := run (binGw P) { t := binInitTx, q := [], r := binInitRx P, out := [] }
      [.add (.mk 7 []), .output { maxBytes := 4294967295, grants := none }]
    s.q = frame (.mk 7 []) ∧ binPending s.t = [] := by
  simp [run, stepSys, binGw, binInitTx, txLoop, callFuel, binTx, binSettle, nextGrant, binPending, binQueueBytes, frame,
    encode, encMsg, encFields, countFlat]
  exact List.take_of_length_le (by simp)

/-- a CR LF split across two reads yields one line, not a line and an empty line -/
example : (textScan [10, 0x62, 13] [] (textScan [0x61, 13] [] textInitRx []).1 []).2 = [[0x62]]
    ∧ (textScan [0x61, 13] [] textInitRx []).2 = [[0x61]] := by decide

example : cleanLine [0x61, 0x62] := by intro b hb; simp at hb; rcases hb with h | h <;> subst h <;> decide

end Muscle.Props.C03
