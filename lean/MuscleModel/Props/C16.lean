import MuscleModel.Containers.QStep

/-!
# C16 — Queue behaves as an ideal double-ended sequence under every operation sequence

Property theorems only (lemmas: `Containers/QProofs.lean`, `QProofs2.lean`, `QStep.lean`; model of the C++ class:
`Containers/QRing.lean`; ideal sequence: `Containers/QSpec.lean`).  `Ring` is the private state of `muscle::Queue`
(slot array, head, tail, count, which buffer is in use, the idle inline buffer); `Ring.abs` is what an observer sees
through `operator[]`; `Good` = the representation invariant `Inv` between public calls and, for owning item types,
`Clean`: every slot outside the window and the idle inline buffer hold the default item.  All theorems hold for
every item configuration `c` (default item, content of uninitialised memory, trivial/owning, inline capacity `sq`).
The tie to the C++ code (as of /repo c9f3294: findings F22, C16-D1..D6 repaired) is the correspondence run of engine `q`.

COVERAGE of the refinement theorems: all 66 op kinds of engine `q`.  `Op` (one Queue, 40 kinds) —
AddTail/AddHead (also the forms taking an item of the Queue), the no-argument AddTailAndGet/AddHeadAndGet (followed by a
write: `addTailRaw_write`; without one: `Op.addTailRaw/addHeadRaw`), RemoveHead/RemoveTail, GetItemAt and the head/tail
accessors, ReplaceItemAt, Clear(release), EnsureSize/ShrinkToFit on all paths, RemoveHeadMulti/RemoveTailMulti,
AddTailMulti/AddHeadMulti/InsertItemsAt from an array, from another Queue, from the Queue ITSELF and from a pointer into its
own array, operator=, CopyFrom, Swap, RemoveItemAt, InsertItemAt, Sort (as a stable sort), Normalize (all branches),
==/StartsWith/EndsWith/`<`, IndexOf, LastIndexOf, RemoveFirstInstanceOf/RemoveLastInstanceOf, RemoveAllInstancesOf,
InsertItemAtSortedPosition, RemoveSortedDuplicateItems, RemoveDuplicateItems, ReverseItemOrdering (the `…at` engine forms
pass an item of the Queue by value); `BOp` (several Queues, 6 kinds) — any of the above with another register as the Queue
argument, SwapContents (inline/inline, inline/heap via SwapContentsAux, heap/heap), move assignment (Plunder), move and
copy construction.

The ONE deliberate exclusion, explicit as the hypothesis `Op.specified` / `BOp.specified`: the no-argument
AddTailAndGet()/AddHeadAndGet() WITHOUT a following write on a TRIVIAL item type — the API documents the new item as
uninitialised, so there is no ideal result to refine (`raw_add_exposed` says what is known: the Queue is as after
`AddTail(x)` for the value `x` the slot happened to hold).  For owning item types the call is specified (a default item)
and covered.  Two modelling conventions: `Swap` with a bad index (an assertion failure in C++) is a refused call
(`err`, nothing changes); `Sort` is its functional result, a stable sort, and `Normalize`'s cycle-leader rotation a rotation.
The ideal results of the value-searching calls are in `QSpec.lean`: first/last matching index in the clipped range
(`findIdx?`), erase at the first/last occurrence, `filter (· ≠ x)`, insertion behind the last item that is not greater,
collapse of runs of equal adjacent items, reversal of the clipped sub-range.
-/

namespace Muscle.Props.C16
open Muscle.Containers

variable {α : Type} [DecidableEq α] (c : ItemCfg α)

/-- `InternalizeIndex` stays inside the array and is `(head+idx) mod size`. -/
theorem index_kernels (head idx size : Nat) (hi : idx < size) (hh : head < size) :
    internalizeIndex head size idx < size ∧ internalizeIndex head size idx = (head + idx) % size := by
  unfold internalizeIndex
  split
  · refine ⟨by omega, ?_⟩
    rw [Nat.mod_eq_of_lt (by omega)]
  · refine ⟨by omega, ?_⟩
    rw [Nat.mod_eq_sub_mod (by omega), Nat.mod_eq_of_lt (by omega)]

/-- `NextIndex`/`PrevIndex` stay inside the array and walk the ring in step with the user index. -/
theorem step_kernels (head idx size : Nat) (hi : idx + 1 < size) (hh : head < size) :
    nextIndex size (internalizeIndex head size idx) = internalizeIndex head size (idx + 1) ∧
    prevIndex size (internalizeIndex head size (idx + 1)) = internalizeIndex head size idx ∧
    nextIndex size (internalizeIndex head size idx) < size ∧ prevIndex size (internalizeIndex head size idx) < size := by
  have a := intern_spec head size idx
  have b := intern_spec head size (idx + 1)
  have n := next_spec size (internalizeIndex head size idx)
  have p := prev_spec size (internalizeIndex head size (idx + 1))
  have p' := prev_spec size (internalizeIndex head size idx)
  omega

/-- A default-constructed Queue satisfies the invariant and is the empty sequence. -/
theorem empty_ok : Inv c (Ring.empty c) ∧ (Ring.empty c).abs c = [] :=
  ⟨inv_empty c, abs_of_count_zero c _ rfl⟩

/-- Every operation on one Queue, from every `Good` state, yields a `Good` state whose abstraction is the ideal sequence's
    result, and returns the ideal result.  All 40 single-Queue op kinds; `Op.specified` excludes only the no-argument
    AddTailAndGet/AddHeadAndGet without a write on a trivial item type (unspecified by the API). -/
theorem ring_refines (q : Ring α) (h : Good c q) (op : Op α) (hs : op.specified c) :
    Good c (q.step c op).1 ∧ (q.step c op).1.abs c = (Spec.step c.dflt c.junk (q.abs c) op).1 ∧
    (q.step c op).2 = (Spec.step c.dflt c.junk (q.abs c) op).2 :=
  step_refines c q h op hs

/-- The same for calls that involve two Queues: another register as the Queue argument, SwapContents, move assignment,
    move and copy construction. -/
theorem bank_refines (b : Nat → Ring α) (h : ∀ i, Good c (b i)) (op : BOp α) (hs : op.specified c) :
    (∀ i, Good c ((bankStep c b op).1 i)) ∧
    (fun i => ((bankStep c b op).1 i).abs c) = (Spec.bankStep c.dflt c.junk (fun i => (b i).abs c) op).1 ∧
    (bankStep c b op).2 = (Spec.bankStep c.dflt c.junk (fun i => (b i).abs c) op).2 :=
  bankStep_refines c b h op hs

/-- For every finite history of (specified) operations on any number of fresh Queues: the final contents and every result
    along the way are those of the ideal sequences, and every Queue ends `Good`. -/
theorem history_refines (ops : List (BOp α)) (hs : ∀ op, op ∈ ops → op.specified c) :
    (∀ i, Good c ((bankExec c (fun _ => Ring.empty c) ops).1 i)) ∧
    (fun i => ((bankExec c (fun _ => Ring.empty c) ops).1 i).abs c) = (Spec.bankExec c.dflt c.junk (fun _ => []) ops).1 ∧
    (bankExec c (fun _ => Ring.empty c) ops).2 = (Spec.bankExec c.dflt c.junk (fun _ => []) ops).2 := by
  have h := bankExec_refines c (fun _ => Ring.empty c) (fun _ => good_empty c) ops hs
  simp only [(empty_ok c).2] at h
  exact h

/-- Failure is reported exactly when the ideal operation is undefined (empty sequence, bad index, no such item), and a
    failing call changes nothing — not even the hidden state.  (`Good` is used for `Normalize`, whose "ok" is its
    post-condition, and for RemoveFirst/LastInstanceOf; every other case holds for arbitrary states.) -/
theorem failure_exact (q : Ring α) (h : Good c q) (op : Op α) (hs : op.specified c) :
    ((q.step c op).2 = .err ↔ Spec.undefined (q.abs c) op) ∧ ((q.step c op).2 = .err → (q.step c op).1 = q) :=
  step_failure c q h op hs

/-- What an operation shows afterwards depends only on what was visible before: two Queues with the same visible content
    (whatever their capacity, head offset and hidden slots) stay indistinguishable. -/
theorem hidden_state_invisible (q q' : Ring α) (h : Good c q) (h' : Good c q') (e : q.abs c = q'.abs c) (op : Op α)
    (hs : op.specified c) :
    (q.step c op).1.abs c = (q'.step c op).1.abs c ∧ (q.step c op).2 = (q'.step c op).2 := by
  have a := step_refines c q h op hs
  have b := step_refines c q' h' op hs
  rw [a.2.1, a.2.2, b.2.1, b.2.2, e]
  exact ⟨rfl, rfl⟩

/-- `EnsureSize(n, false, extra, allowShrink)` never changes the content and (without shrink) leaves room for `n` items. -/
theorem reserve_id (q : Ring α) (h : Good c q) (n extra : Nat) (shrink : Bool) :
    Good c (q.ensureSizeAux c n false extra shrink) ∧ (q.ensureSizeAux c n false extra shrink).abs c = q.abs c ∧
    (shrink = false → n ≤ (q.ensureSizeAux c n false extra shrink).size) := by
  have := ensure_nosn c q h.1 h.2 n extra shrink
  exact ⟨⟨this.1, this.2.2.2.2⟩, this.2.1, this.2.2.2.1⟩

/-- `EnsureSize(n, true, extra, allowShrink)` on every path: the content becomes the old content cut to `n` items or padded
    with DEFAULT items — never with old ones (findings F22, C16-D1, C16-D2 cannot return). -/
theorem set_size_exact (q : Ring α) (h : Good c q) (n extra : Nat) (shrink : Bool) :
    Good c (q.ensureSizeAux c n true extra shrink) ∧
    (q.ensureSizeAux c n true extra shrink).abs c =
      (if n > q.count then q.abs c ++ List.replicate (n - q.count) c.dflt else (q.abs c).take n) := by
  obtain ⟨e1, e2, e3, _⟩ := ensure_spec c q h.1 h.2 n true extra shrink
  refine ⟨⟨e1, e3⟩, ?_⟩
  rw [e2]; simp [Spec.ensureSize]

/-- `Normalize()` is the identity on the content, leaves the items contiguous and keeps the invariant — in every branch
    (already contiguous, copy into the free middle when `2*count ≤ size`, rotation otherwise). -/
theorem normalize_id (q : Ring α) (h : Good c q) :
    Good c (q.normalize c) ∧ (q.normalize c).abs c = q.abs c ∧ (q.normalize c).isNormalized = true :=
  normalize_refines c q h

/-- `SwapContents(that)`: each Queue ends up with exactly the other one's items and both stay `Good` — for inline/inline,
    inline/heap (SwapContentsAux) and heap/heap pairs.  For owning item types `Good` includes that the inline slots handed
    over by SwapContentsAux hold the default item afterwards (finding C16-D3 cannot return). -/
theorem swap_contents_exact (a b : Ring α) (ha : Good c a) (hb : Good c b) :
    Good c (swapContents c a b).1 ∧ Good c (swapContents c a b).2 ∧
    (swapContents c a b).1.abs c = b.abs c ∧ (swapContents c a b).2.abs c = a.abs c :=
  swapContents_refines c a b ha hb

/-- Move construction / assignment (`Plunder`): the target has exactly the source's items, the source is empty, both `Good`. -/
theorem plunder_exact (me rhs : Ring α) (h : Good c me) (hr : Good c rhs) :
    Good c (plunder c me rhs).1 ∧ Good c (plunder c me rhs).2 ∧
    (plunder c me rhs).1.abs c = rhs.abs c ∧ (plunder c me rhs).2.abs c = [] :=
  plunder_refines c me rhs h hr

/-- The item handed out by the no-argument `AddTailAndGet()`: the Queue is exactly as after `AddTail(x)` for the value `x`
    the slot happened to hold; for owning item types `x` is the default item (no stale item can be handed out), for
    trivial item types it is unspecified (documented). -/
theorem raw_add_exposed (q : Ring α) (h : Good c q) :
    (∃ x, q.addTailRaw c = q.addTail c x ∧ (c.clear = true → x = c.dflt)) ∧
    (∃ x, q.addHeadRaw c = q.addHead c x ∧ (c.clear = true → x = c.dflt)) :=
  ⟨⟨_, addTailRaw_eq c q, fun hcl => addTailRaw_default c hcl q h⟩, ⟨_, addHeadRaw_eq c q, fun hcl => addHeadRaw_default c hcl q h⟩⟩

/-- Owning item types (`IsPerItemClearNecessary()`): no stale item survives outside the window or in the idle inline
    buffer, whatever operation is applied to whatever Queues — including the slots vacated by SwapContentsAux, Plunder and
    Clear(true).  (For an owning item type every operation is specified, so there is no side condition.) -/
theorem no_stale (hcl : c.clear = true) (b : Nat → Ring α) (h : ∀ i, Inv c (b i) ∧ Clean c (b i)) (op : BOp α) :
    Clean c (Ring.empty c) ∧ ∀ i, Clean c ((bankStep c b op).1 i) := by
  have hs : op.specified c := by
    cases op with
    | on r o => cases o <;> first | exact hcl | exact trivial
    | fromQ r s f => intro xs; cases f xs <;> first | exact hcl | exact trivial
    | _ => exact trivial
  exact ⟨clean_empty c hcl, fun i => ((bankStep_refines c b (fun j => ⟨(h j).1, fun _ => (h j).2⟩) op hs).1 i).2 hcl⟩

/-! Non-vacuity: a concrete history drives a Queue with inline capacity 3 through a reallocation and a
wrapped window; the hypotheses of the theorems above are met by reachable states. -/

def cfgI : ItemCfg Nat := { dflt := 0, junk := 77, clear := false, moves := false, sq := 3 }
def cfgC : ItemCfg Nat := { dflt := 0, junk := 77, clear := true, moves := true, sq := 3 }
def hist : List (Op Nat) :=
  [.addTail 1, .addTail 2, .addHead 3, .addTail 4, .removeHead, .replaceItemAt 0 9, .removeTail, .addHead 5, .addHead 6, .getItemAt 7, .removeTail]
def hist2 : List (Op Nat) :=
  [.addTailMulti [1, 2, 3, 4, 5], .removeHeadMulti 2, .addHeadMulti [8, 9], .swap 0 4, .ensureSize 7 true 0 false,
   .ensureSize 2 true 0 true, .removeTailMulti 1, .copyFrom [4, 4], .swap 5 0]

example : ((Ring.empty cfgI).exec cfgI hist).1.abs cfgI = [6, 5, 9] := by decide
example : (Spec.exec 0 77 ([] : List Nat) hist).1 = [6, 5, 9] := by decide
example : ((Ring.empty cfgC).exec cfgC hist2).1.abs cfgC = [4, 4] ∧ (Spec.exec 0 77 ([] : List Nat) hist2).1 = [4, 4] ∧
    ((Ring.empty cfgC).exec cfgC (hist2.take 6)).1.abs cfgC = [5, 9] ∧ ((Ring.empty cfgC).exec cfgC hist2).2.getLast? = some Res.err := by decide
-- the window is wrapped (head > tail) and the queue is more than half full: the rotation branch of Normalize applies
example : let q := ((Ring.empty cfgI).exec cfgI (hist ++ [.addHead 7, .addHead 8, .addHead 10])).1
    q.isNormalized = false ∧ ¬ (q.count * 2 ≤ q.size) ∧ q.kind = .heap := by decide
-- a failing call exists (so `failure_exact` is not vacuous) …
example : ((Ring.empty cfgI).step cfgI .removeHead).2 = Res.err := by decide
-- … and a reachable clean state of an owning type with hidden slots, where growing in place is possible
example : let q := ((Ring.empty cfgC).exec cfgC [.addTail 1, .addTail 2, .removeTail]).1
    q.kind ≠ .null ∧ 3 ≤ q.size ∧ q.count < 3 ∧ (q.ensureSizeAux cfgC 3 true 0 false).abs cfgC = [1, 0, 0] := by decide

-- the new op families compute, on one Queue …
def hist3 : List (Op Nat) :=
  [.addTailMulti [1, 2, 3, 4, 5, 6], .removeHead, .removeHead, .addTail 7, .addTail 8, .removeItemAt 1, .insertItemAt 2 9,
   .insertItemsOwn 1 3 2, .addHeadSelf 0 2, .sort (fun a b => a < b) 1 100, .normalize, .removeItemAt 50]
example : ((Ring.empty cfgC).exec cfgC hist3).1.abs cfgC = (Spec.exec 0 77 ([] : List Nat) hist3).1 ∧
    ((Ring.empty cfgC).exec cfgC hist3).1.abs cfgC = [3, 3, 5, 6, 6, 6, 7, 7, 8, 9] ∧
    ((Ring.empty cfgC).exec cfgC hist3).2.getLast? = some Res.err := by decide
-- … and on several: an inline Queue swaps with a heap Queue (SwapContentsAux), then is moved from
def bhist : List (BOp Nat) :=
  [.on 0 (.addTailMulti [1, 2]), .on 1 (.addTailMulti [10, 11, 12, 13, 14]), .swapContents 0 1, .fromQ 2 0 (fun xs => .insertItemsAt 0 xs true),
   .move 1 2, .on 0 (.ensureSize 1 true 0 true), .on 0 (.ensureSize 3 true 0 false)]
example : let r := (bankExec cfgC (fun _ => Ring.empty cfgC) bhist).1
    (r 0).abs cfgC = [10, 0, 0] ∧ (r 1).abs cfgC = [10, 11, 12, 13, 14] ∧ (r 2).abs cfgC = [] := by decide

-- the value-searching and reordering calls compute and agree with their list specifications
def hist4 : List (Op Nat) :=
  [.addTailMulti [5, 3, 5, 1, 3, 3, 9, 5], .removeHead, .addTail 3, .indexOf 3 1 100, .lastIndexOf 5 100 0, .removeFirst 5,
   .removeLast 3, .reverse 1 5, .removeAll 9, .insertSortedPos (fun a b => a < b) 4, .removeDups (fun a b => a < b),
   .addTailRaw, .removeFirst 77]
example : ((Ring.empty cfgC).exec cfgC hist4).1.abs cfgC = (Spec.exec 0 77 ([] : List Nat) hist4).1 ∧
    ((Ring.empty cfgC).exec cfgC hist4).2 = (Spec.exec 0 77 ([] : List Nat) hist4).2 ∧
    ((Ring.empty cfgC).exec cfgC hist4).2.getLast? = some Res.err := by decide
-- the side condition is met by the no-argument add of an owning type, and only fails for a trivial one
example : (Op.addTailRaw : Op Nat).specified cfgC ∧ ¬ (Op.addTailRaw : Op Nat).specified cfgI := by
  constructor
  · show cfgC.clear = true; rfl
  · show ¬ cfgI.clear = true; decide

end Muscle.Props.C16
