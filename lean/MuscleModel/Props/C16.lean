import MuscleModel.Containers.QProofs

/-!
# C16 — Queue behaves as an ideal double-ended sequence under every operation sequence

Property theorems only (lemmas: `Containers/QProofs.lean`; model of the C++ class: `Containers/QRing.lean`;
ideal sequence: `Containers/QSpec.lean`).  `Ring` is the private state of `muscle::Queue` (slot array, head,
tail, count, which buffer is in use, the idle inline buffer); `Ring.abs` is what an observer sees through
`operator[]`; `Inv` is the representation invariant between public calls; `Clean` says that every slot
outside the window (and the idle inline buffer) holds the default item.  All theorems hold for every item
configuration `c` (default item, content of uninitialised memory, trivial/owning, inline capacity `sq`).
The tie to the C++ code is the correspondence run of engine `q` (all 55 op kinds, not only the proved ones).

Proved for all states satisfying `Good` (= `Inv` and, for owning item types, `Clean`), hence — by
`history_refines_partial` — for all histories from a fresh Queue, for the 15 op kinds of `Op`:
AddTail, AddHead, RemoveHead, RemoveTail, GetItemAt, ReplaceItemAt, Clear with/without release,
EnsureSize(n, setNumItems, extra, allowShrink) on ALL paths (code as of /repo 97f299d: shrink guard,
reallocation to the heap or back into the inline buffer, growth in place, shrinking), RemoveHeadMulti,
RemoveTailMulti, AddTailMulti and AddHeadMulti from an array / another queue, operator=, CopyFrom, Swap;
plus Normalize (already-contiguous and rotation branches).  `Clean` (no stale item outside the window) is
part of the invariant that every one of these operations is proved to preserve.

NOT proved (validated by the correspondence run and the `std::deque` oracle only) — full statement:
  `∀ q, Good c q → ∀ op : AnyOp, Good c (step q op).1 ∧ abs (step q op).1 = (Spec.step (abs q) op).1 ∧ results equal`
  for `op` ranging also over RemoveItemAt (the two shifting loops are proved: `shiftFromHead_spec`,
  `shiftFromTail_spec` in QProofs.lean), InsertItemAt, InsertItemsAt, the self-aliased multi-item forms,
  ReverseItemOrdering, Sort (as a stable sort), InsertItemAtSortedPosition, RemoveAllInstancesOf/First/Last,
  RemoveSortedDuplicateItems/RemoveDuplicateItems, SwapContents, Plunder, the copy branch of Normalize,
  the no-argument AddTailAndGet()/AddHeadAndGet().  For SwapContents/Plunder, the self-aliased forms and
  InsertItemsAt with a pointer into the own array the model follows the REPAIRED code (findings C16-D3..D6).
-/

namespace Muscle.Props.C16
open Muscle.Containers

variable {α : Type} [DecidableEq α] (c : ItemCfg α)

/-- `InternalizeIndex` stays inside the array and is `(head+idx) mod size`. -/
theorem index_kernels (head idx size : Nat) (hi : idx < size) (hh : head < size) :
    internalizeIndex head size idx < size ∧ internalizeIndex head size idx = (head + idx) % size := by
  unfold internalizeIndex
  split
  · refine ⟨by omega, ?_⟩
    rw [Nat.mod_eq_of_lt (by omega)]
  · refine ⟨by omega, ?_⟩
    rw [Nat.mod_eq_sub_mod (by omega), Nat.mod_eq_of_lt (by omega)]

/-- `NextIndex`/`PrevIndex` stay inside the array and walk the ring in step with the user index. -/
theorem step_kernels (head idx size : Nat) (hi : idx + 1 < size) (hh : head < size) :
    nextIndex size (internalizeIndex head size idx) = internalizeIndex head size (idx + 1) ∧
    prevIndex size (internalizeIndex head size (idx + 1)) = internalizeIndex head size idx ∧
    nextIndex size (internalizeIndex head size idx) < size ∧ prevIndex size (internalizeIndex head size idx) < size := by
  have a := intern_spec head size idx
  have b := intern_spec head size (idx + 1)
  have n := next_spec size (internalizeIndex head size idx)
  have p := prev_spec size (internalizeIndex head size (idx + 1))
  have p' := prev_spec size (internalizeIndex head size idx)
  omega

/-- A default-constructed Queue satisfies the invariant and is the empty sequence. -/
theorem empty_ok : Inv c (Ring.empty c) ∧ (Ring.empty c).abs c = [] :=
  ⟨inv_empty c, abs_of_count_zero c _ rfl⟩

/-- Every proved operation keeps the invariant (including, for owning item types, "every slot outside the
    window and the idle inline buffer hold the default item"), commutes with the abstraction to the ideal
    sequence and returns the same result.
    (`_partial`: covers the 15 op kinds of `Op` — AddTail, AddHead, RemoveHead, RemoveTail, GetItemAt,
    ReplaceItemAt, Clear(release), EnsureSize(n, setNum, extra, allowShrink) on all paths, RemoveHeadMulti,
    RemoveTailMulti, AddTailMulti and AddHeadMulti (array / other queue), operator=, CopyFrom, Swap;
    see the file comment for the op kinds that are not covered.) -/
theorem ring_refines_partial (q : Ring α) (h : Good c q) (op : Op α) :
    Good c (q.step c op).1 ∧ (q.step c op).1.abs c = (Spec.step c.dflt c.junk (q.abs c) op).1 ∧
    (q.step c op).2 = (Spec.step c.dflt c.junk (q.abs c) op).2 :=
  step_refines c q h op

/-- For every finite history of (proved) operations on a fresh Queue: the final content and every
    result along the way are those of the ideal sequence, and the final state is `Good`. -/
theorem history_refines_partial (ops : List (Op α)) :
    Good c ((Ring.empty c).exec c ops).1 ∧
    ((Ring.empty c).exec c ops).1.abs c = (Spec.exec c.dflt c.junk [] ops).1 ∧
    ((Ring.empty c).exec c ops).2 = (Spec.exec c.dflt c.junk [] ops).2 := by
  have h := exec_refines c (Ring.empty c) (good_empty c) ops
  rw [(empty_ok c).2] at h
  exact h

/-- Failure is reported exactly when the ideal operation is undefined (empty sequence, bad index), and a
    failing call changes nothing — not even the hidden state.  (`_partial`: the 15 op kinds of `Op`.) -/
theorem failure_exact_partial (q : Ring α) (op : Op α) :
    ((q.step c op).2 = .err ↔ Spec.undefined (q.abs c) op) ∧ ((q.step c op).2 = .err → (q.step c op).1 = q) :=
  step_failure c q op

/-- What an operation shows afterwards depends only on what was visible before: two Queues with the same
    visible content (whatever their capacity, head offset and hidden slots) stay indistinguishable.
    (`_partial`: the 15 op kinds of `Op`.) -/
theorem hidden_state_invisible_partial (q q' : Ring α) (h : Good c q) (h' : Good c q') (e : q.abs c = q'.abs c) (op : Op α) :
    (q.step c op).1.abs c = (q'.step c op).1.abs c ∧ (q.step c op).2 = (q'.step c op).2 := by
  have a := step_refines c q h op
  have b := step_refines c q' h' op
  rw [a.2.1, a.2.2, b.2.1, b.2.2, e]
  exact ⟨rfl, rfl⟩

/-- `EnsureSize(n, false, extra, allowShrink)` never changes the content and (without shrink) leaves room for
    `n` items — for every `n` (no hypothesis since the fix 97f299d of findings C16-D1/D2). -/
theorem reserve_id (q : Ring α) (h : Good c q) (n extra : Nat) (shrink : Bool) :
    Good c (q.ensureSizeAux c n false extra shrink) ∧ (q.ensureSizeAux c n false extra shrink).abs c = q.abs c ∧
    (shrink = false → n ≤ (q.ensureSizeAux c n false extra shrink).size) := by
  have := ensure_nosn c q h.1 h.2 n extra shrink
  exact ⟨⟨this.1, this.2.2.2.2⟩, this.2.1, this.2.2.2.1⟩

/-- `EnsureSize(n, true, extra, allowShrink)` on every path (reallocation to the heap or back into the inline
    buffer, growth in place, shrinking, shrink guard): the content becomes the old content cut to `n` items or
    padded with DEFAULT items — never with old ones (findings F22, C16-D1, C16-D2 cannot return). -/
theorem set_size_exact (q : Ring α) (h : Good c q) (n extra : Nat) (shrink : Bool) :
    Good c (q.ensureSizeAux c n true extra shrink) ∧
    (q.ensureSizeAux c n true extra shrink).abs c =
      (if n > q.count then q.abs c ++ List.replicate (n - q.count) c.dflt else (q.abs c).take n) := by
  obtain ⟨e1, e2, e3, _⟩ := ensure_spec c q h.1 h.2 n true extra shrink
  refine ⟨⟨e1, e3⟩, ?_⟩
  rw [e2]; simp [Spec.ensureSize]

/-- `Normalize()` is the identity on the content and leaves the items contiguous.
    (`_partial`: the already-contiguous case and the rotation branch `2*count > size`; the copy branch
    `2*count ≤ size` is covered by the correspondence run only.) -/
theorem normalize_id_partial (q : Ring α) (h : Inv c q) (hb : q.isNormalized = true ∨ ¬ (q.count * 2 ≤ q.size)) :
    Inv c (q.normalize c) ∧ (q.normalize c).abs c = q.abs c ∧ (q.normalize c).isNormalized = true :=
  normalize_rot c q h hb

/-- Owning item types (`IsPerItemClearNecessary()`): no stale item survives outside the window, whatever
    (proved) operation is applied — vacated slots are reset, new arrays and the idle inline buffer are clean.
    (`_partial`: the 15 op kinds of `Op`.) -/
theorem no_stale_partial (hcl : c.clear = true) (q : Ring α) (h : Inv c q) (hC : Clean c q) (op : Op α) :
    Clean c (Ring.empty c) ∧ Clean c (q.step c op).1 :=
  ⟨clean_empty c hcl, (step_refines c q ⟨h, fun _ => hC⟩ op).1.2 hcl⟩

/-! Non-vacuity: a concrete history drives a Queue with inline capacity 3 through a reallocation and a
wrapped window; the hypotheses of the theorems above are met by reachable states. -/

def cfgI : ItemCfg Nat := { dflt := 0, junk := 77, clear := false, moves := false, sq := 3 }
def cfgC : ItemCfg Nat := { dflt := 0, junk := 77, clear := true, moves := true, sq := 3 }
def hist : List (Op Nat) :=
  [.addTail 1, .addTail 2, .addHead 3, .addTail 4, .removeHead, .replaceItemAt 0 9, .removeTail, .addHead 5, .addHead 6, .getItemAt 7, .removeTail]
def hist2 : List (Op Nat) :=
  [.addTailMulti [1, 2, 3, 4, 5], .removeHeadMulti 2, .addHeadMulti [8, 9], .swap 0 4, .ensureSize 7 true 0 false,
   .ensureSize 2 true 0 true, .removeTailMulti 1, .copyFrom [4, 4], .swap 5 0]

example : ((Ring.empty cfgI).exec cfgI hist).1.abs cfgI = [6, 5, 9] := by decide
example : (Spec.exec 0 77 ([] : List Nat) hist).1 = [6, 5, 9] := by decide
example : ((Ring.empty cfgC).exec cfgC hist2).1.abs cfgC = [4, 4] ∧ (Spec.exec 0 77 ([] : List Nat) hist2).1 = [4, 4] ∧
    ((Ring.empty cfgC).exec cfgC (hist2.take 6)).1.abs cfgC = [5, 9] ∧ ((Ring.empty cfgC).exec cfgC hist2).2.getLast? = some Res.err := by decide
-- the window is wrapped (head > tail) and the queue is more than half full: the rotation branch of Normalize applies
example : let q := ((Ring.empty cfgI).exec cfgI (hist ++ [.addHead 7, .addHead 8, .addHead 10])).1
    q.isNormalized = false ∧ ¬ (q.count * 2 ≤ q.size) ∧ q.kind = .heap := by decide
-- a failing call exists (so `failure_exact_partial` is not vacuous) …
example : ((Ring.empty cfgI).step cfgI .removeHead).2 = Res.err := by decide
-- … and a reachable clean state of an owning type with hidden slots, where growing in place is possible
example : let q := ((Ring.empty cfgC).exec cfgC [.addTail 1, .addTail 2, .removeTail]).1
    q.kind ≠ .null ∧ 3 ≤ q.size ∧ q.count < 3 ∧ (q.ensureSizeAux cfgC 3 true 0 false).abs cfgC = [1, 0, 0] := by decide

end Muscle.Props.C16
