import MuscleModel.Containers.QProofs

/-!
# C16 — Queue behaves as an ideal double-ended sequence under every operation sequence

Property theorems only (lemmas: `Containers/QProofs.lean`; model of the C++ class: `Containers/QRing.lean`;
ideal sequence: `Containers/QSpec.lean`).  `Ring` is the private state of `muscle::Queue` (slot array, head,
tail, count, which buffer is in use, the idle inline buffer); `Ring.abs` is what an observer sees through
`operator[]`; `Inv` is the representation invariant between public calls; `Clean` says that every slot
outside the window (and the idle inline buffer) holds the default item.  All theorems hold for every item
configuration `c` (default item, content of uninitialised memory, trivial/owning, inline capacity `sq`).
The tie to the C++ code is the correspondence run of engine `q` (all 55 op kinds, not only the proved ones).

Proved for all states satisfying the invariant (hence, by `history_refines_partial`, for all histories):
add/remove at head and tail, get/replace at index, Clear with/without release, EnsureSize without
set-size (any `extra`, with and without `allowShrink` under the hypothesis `n ≥ count`), Normalize
(already-contiguous and rotation branches), and the no-stale facts below.

NOT proved (validated by the correspondence run and the `std::deque` oracle only) — full statement:
  `∀ q, Inv c q → ∀ op : AnyOp, Inv c (step q op).1 ∧ abs (step q op).1 = (Spec.step (abs q) op).1 ∧ results equal`
  for `op` ranging also over RemoveItemAt, InsertItemAt, InsertItemsAt, AddTailMulti/AddHeadMulti,
  RemoveHeadMulti/RemoveTailMulti, EnsureSize(n, true), Swap, ReverseItemOrdering, Sort (as a stable sort),
  RemoveAllInstancesOf/First/Last, RemoveSortedDuplicateItems, operator=/CopyFrom, SwapContents, Plunder, the
  copy branch of Normalize; and `Clean` preserved by every one of them for owning item types, under the
  hypotheses that exclude findings C16-D1..D4.
-/

namespace Muscle.Props.C16
open Muscle.Containers

variable {α : Type} [DecidableEq α] (c : ItemCfg α)

/-- `InternalizeIndex` stays inside the array and is `(head+idx) mod size`. -/
theorem index_kernels (head idx size : Nat) (hi : idx < size) (hh : head < size) :
    internalizeIndex head size idx < size ∧ internalizeIndex head size idx = (head + idx) % size := by
  unfold internalizeIndex
  split
  · refine ⟨by omega, ?_⟩
    rw [Nat.mod_eq_of_lt (by omega)]
  · refine ⟨by omega, ?_⟩
    rw [Nat.mod_eq_sub_mod (by omega), Nat.mod_eq_of_lt (by omega)]

/-- `NextIndex`/`PrevIndex` stay inside the array and walk the ring in step with the user index. -/
theorem step_kernels (head idx size : Nat) (hi : idx + 1 < size) (hh : head < size) :
    nextIndex size (internalizeIndex head size idx) = internalizeIndex head size (idx + 1) ∧
    prevIndex size (internalizeIndex head size (idx + 1)) = internalizeIndex head size idx ∧
    nextIndex size (internalizeIndex head size idx) < size ∧ prevIndex size (internalizeIndex head size idx) < size := by
  have a := intern_spec head size idx
  have b := intern_spec head size (idx + 1)
  have n := next_spec size (internalizeIndex head size idx)
  have p := prev_spec size (internalizeIndex head size (idx + 1))
  have p' := prev_spec size (internalizeIndex head size idx)
  omega

/-- A default-constructed Queue satisfies the invariant and is the empty sequence. -/
theorem empty_ok : Inv c (Ring.empty c) ∧ (Ring.empty c).abs c = [] :=
  ⟨inv_empty c, abs_of_count_zero c _ rfl⟩

/-- Every proved operation keeps the invariant, commutes with the abstraction to the ideal sequence and
    returns the same result.  (`_partial`: 8 of the op kinds, see the file comment for the full statement.) -/
theorem ring_refines_partial (q : Ring α) (h : Inv c q) (op : Op α) :
    Inv c (q.step c op).1 ∧ (q.step c op).1.abs c = (Spec.step (q.abs c) op).1 ∧
    (q.step c op).2 = (Spec.step (q.abs c) op).2 :=
  step_refines c q h op

/-- For every finite history of (proved) operations on a fresh Queue: the final content and every
    result along the way are those of the ideal sequence. -/
theorem history_refines_partial (ops : List (Op α)) :
    ((Ring.empty c).exec c ops).1.abs c = (Spec.exec [] ops).1 ∧
    ((Ring.empty c).exec c ops).2 = (Spec.exec [] ops).2 := by
  have h := exec_refines c (Ring.empty c) (inv_empty c) ops
  rw [(empty_ok c).2] at h
  exact ⟨h.2.1, h.2.2⟩

/-- Failure is reported exactly when the ideal operation is undefined (empty sequence, bad index), and a
    failing call changes nothing — not even the hidden state. -/
theorem failure_exact_partial (q : Ring α) (op : Op α) :
    ((q.step c op).2 = .err ↔ Spec.undefined (q.abs c) op) ∧ ((q.step c op).2 = .err → (q.step c op).1 = q) :=
  step_failure c q op

/-- What an operation shows afterwards depends only on what was visible before: two Queues with the same
    visible content (whatever their capacity, head offset and hidden slots) stay indistinguishable. -/
theorem hidden_state_invisible_partial (q q' : Ring α) (h : Inv c q) (h' : Inv c q') (e : q.abs c = q'.abs c) (op : Op α) :
    (q.step c op).1.abs c = (q'.step c op).1.abs c ∧ (q.step c op).2 = (q'.step c op).2 := by
  have a := step_refines c q h op
  have b := step_refines c q' h' op
  rw [a.2.1, a.2.2, b.2.1, b.2.2, e]
  exact ⟨rfl, rfl⟩

/-- `EnsureSize(n, false, extra, allowShrink)` never changes the content and (without shrink) leaves room for `n` items. -/
theorem reserve_id (q : Ring α) (h : Inv c q) (n extra : Nat) (shrink : Bool) (hp : shrink = true → q.count ≤ n) :
    Inv c (q.ensureSizeAux c n false extra shrink) ∧ (q.ensureSizeAux c n false extra shrink).abs c = q.abs c ∧
    (shrink = false → n ≤ (q.ensureSizeAux c n false extra shrink).size) := by
  have := ensure_nosn c q h n extra shrink hp
  exact ⟨this.1, this.2.1, this.2.2.2⟩

/-- `Normalize()` is the identity on the content and leaves the items contiguous.
    (`_partial`: the already-contiguous case and the rotation branch `2*count > size`; the copy branch
    `2*count ≤ size` is covered by the correspondence run only.) -/
theorem normalize_id_partial (q : Ring α) (h : Inv c q) (hb : q.isNormalized = true ∨ ¬ (q.count * 2 ≤ q.size)) :
    Inv c (q.normalize c) ∧ (q.normalize c).abs c = q.abs c ∧ (q.normalize c).isNormalized = true :=
  normalize_rot c q h hb

/-- Owning item types (`IsPerItemClearNecessary()`): no stale item survives outside the window — a fresh
    Queue is clean, removal at either end resets the vacated slot, writing a visible item touches nothing else.
    (`_partial`: these three operation kinds.) -/
theorem no_stale_partial (hcl : c.clear = true) (q : Ring α) (h : Inv c q) (hC : Clean c q) :
    Clean c (Ring.empty c) ∧ Clean c (q.removeHead c).1 ∧ Clean c (q.removeTail c).1 ∧
    (∀ i v, i < q.count → Clean c (q.put i v)) :=
  ⟨clean_empty c hcl, clean_removeHead c hcl q h hC, clean_removeTail c hcl q h hC, fun i v hi => clean_put c q h hC i hi v⟩

/-- …and therefore growing in place with `EnsureSize(n, true)` shows default items, never old ones
    (the shape of the fixed defect F22, here for owning item types). -/
theorem grow_shows_defaults (hcl : c.clear = true) (q : Ring α) (h : Inv c q) (hC : Clean c q) (n : Nat)
    (hk : q.kind ≠ .null) (hn : n ≤ q.size) (hg : q.count < n) :
    (q.ensureSizeAux c n true 0 false).abs c = q.abs c ++ List.replicate (n - q.count) c.dflt := by
  have := ensure_grow_inplace_clean c hcl q h hC n hk hn hg
  simpa [Spec.ensureSize, hg] using this

/-! Non-vacuity: a concrete history drives a Queue with inline capacity 3 through a reallocation and a
wrapped window; the hypotheses of the theorems above are met by reachable states. -/

def cfgI : ItemCfg Nat := { dflt := 0, junk := 77, clear := false, moves := false, sq := 3 }
def cfgC : ItemCfg Nat := { dflt := 0, junk := 77, clear := true, moves := true, sq := 3 }
def hist : List (Op Nat) :=
  [.addTail 1, .addTail 2, .addHead 3, .addTail 4, .removeHead, .replaceItemAt 0 9, .removeTail, .addHead 5, .addHead 6, .getItemAt 7, .removeTail]

example : ((Ring.empty cfgI).exec cfgI hist).1.abs cfgI = [6, 5, 9] := by decide
example : (Spec.exec ([] : List Nat) hist).1 = [6, 5, 9] := by decide
-- the window is wrapped (head > tail) and the queue is more than half full: the rotation branch of Normalize applies
example : let q := ((Ring.empty cfgI).exec cfgI (hist ++ [.addHead 7, .addHead 8, .addHead 10])).1
    q.isNormalized = false ∧ ¬ (q.count * 2 ≤ q.size) ∧ q.kind = .heap := by decide
-- a failing call exists (so `failure_exact_partial` is not vacuous) …
example : ((Ring.empty cfgI).step cfgI .removeHead).2 = Res.err := by decide
-- … and a reachable clean state of an owning type with hidden slots, where growing in place is possible
example : let q := ((Ring.empty cfgC).exec cfgC [.addTail 1, .addTail 2, .removeTail]).1
    q.kind ≠ .null ∧ 3 ≤ q.size ∧ q.count < 3 ∧ (q.ensureSizeAux cfgC 3 true 0 false).abs cfgC = [1, 0, 0] := by decide

end Muscle.Props.C16
