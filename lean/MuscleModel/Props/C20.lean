import MuscleModel.Pulse.Ops
import MuscleModel.Pulse.Proofs22

/-!
# C20 — Pulse callbacks fire for every due node and never before their time

Property theorems only (lemmas: `Pulse/Proofs.lean` … `Proofs4.lean`).  The model
(`Pulse/Tree.lean`, `Pulse/Ops.lean`) mirrors `util/PulseNode.cpp`; the tie to the C++ code is the
correspondence run of engine `pn`.  `never` = `MUSCLE_TIME_NEVER`, `d`/`k` = fuel (theorems hold for every
value and speak about the runs that complete: `… = some _`).  A node's behaviour is a script: the time it
answers next plus, per callback, a list of re-entrant actions (invalidate, change request, detach, attach).

What is proved in full, for EVERY history and EVERY script (attach/detach from inside callbacks included): `never_early`,
`fires_with_asked_time`, `fired_loses_request`, `sorted_insert`, `needsrecalc_reaches_root`, the local firing / asking rules, and
that the tree invariant `Inv` and the flagging invariant `V` are preserved by every public operation (destroy included) and by the
whole pulse sweep (`inv_preserved`, `v_preserved`).
Under explicitly stated disciplines, each with a necessity witness (`example`s at the end of the file):
`inv_preserved_gpt_sweep`, `gpt_sweep_settles`, `wakeup_never_late`, `due_nodes_reachable`, `all_asked_after_sweep`, `reasked`
(discipline: no `GetPulseTime` callback touches a node whose own `GetPulseTimeAux` is in progress) and `fires_iff_due`
(additionally: `Pulse` callbacks only change requests).
Still partial: `wakeup_is_min_partial` (exactness `≥`) and `fuel_irrelevant_partial` (termination measure); the comments in front of
them say exactly what is missing.

Finding `C20-lost-invalidate` (`corpus/C20/pn-regress-inprogress-invalidate.ops`) is repaired: `GetPulseTimeAux` makes a
second pass when the node was invalidated during the first, and files a node that is invalid even then with aggregate
time 0.  The model mirrors the repaired code; `lost_invalidate_reasked/_bounded/_live` state the repaired behaviour.
-/

set_option linter.unusedSimpArgs false
set_option linter.unusedVariables false

namespace Muscle.Props.C20
open Muscle Muscle.Pulse

/-! ## List maintenance -/

/-- `ReschedulePulseChild(child, SCHEDULED)` — empty list / tail shortcut guarded by `>=` the last / `O(N)` walk —
    keeps the list sorted by aggregate time and inserts exactly the child. -/
theorem sorted_insert (a : Nat → Nat) (c : Nat) (l : List Nat) (h : Sorted a l) :
    Sorted a (insertSched a c l) ∧ ∀ x, x ∈ insertSched a c l ↔ x = c ∨ x ∈ l :=
  ⟨insertSched_sorted a c l h, fun x => mem_insertSched a c x l⟩

/-- the walk is entered only below the last element and then never runs off the list (no NULL dereference in
    `while(p->_aggregatePulseTime < child->_aggregatePulseTime) p = p->_nextSibling`) -/
theorem walk_stays_inside (a : Nat → Nat) (c last : Nat) (l : List Nat)
    (hl : l.getLast? = some last) (hlt : a c < a last) : (insertBefore a c l).getLast? = some last :=
  insertBefore_not_last a c last l hl hlt

/-- `inv_preserved`, part 1: every public operation and the whole pulse sweep preserve the tree invariant.
    `Inv never f` (`Pulse/Proofs5.lean`) = list membership ↔ (`_parent`, `_curList`) in both directions, no duplicates, roots are in
    no list and non-roots in exactly one, a non-root node with a child in NEEDSRECALC is itself in NEEDSRECALC (so the flag
    reaches the root: `needsrecalc_reaches_root`), every filed (SCHEDULED/UNSCHEDULED) node has `agg ≤ myTime`, `agg ≤` first
    scheduled child's aggregate, `agg = min(myTime, first scheduled child)` while its request stands, SCHEDULED ↔ `agg ≠ never`,
    all aggregates `≤ never`, all SCHEDULED lists sorted by aggregate.
    Preserved by attach, detach, destroy, invalidate, change of request, scripts, and by the WHOLE PULSE SWEEP with arbitrary
    re-entrant scripts (invalidate/attach/detach from inside `Pulse`).  The `GetPulseTimeAux` sweep is part 2
    (`inv_preserved_gpt_sweep`).  Acyclicity of the parent pointers is not a component: nothing below needs it (the call stack of
    the sweep is a duplicate-free chain of parent pointers ending in a root, which is proved along the way). -/
theorem inv_preserved (never d k : Nat) (w w' : World) (r : Res) (o : Op)
    (hg : ∀ root now, o ≠ .gpt root now) (hi : Inv never w.f)
    (h : applyOp never d k w o = some (w', r)) : Inv never w'.f := by
  cases o with
  | attach c p =>
    simp only [applyOp] at h
    split at h
    · cases h; exact hi
    · simp only [Option.map_eq_some_iff] at h
      obtain ⟨f', hf, he⟩ := h; cases he
      exact putChild_inv never d w.f p c f' hi hf
  | detach c =>
    simp only [applyOp, Option.map_eq_some_iff] at h
    obtain ⟨f', hf, he⟩ := h; cases he
    exact detach_inv never d w.f c f' hi hf
  | destroy c =>
    simp only [applyOp, Option.map_eq_some_iff] at h
    obtain ⟨f', hf, he⟩ := h; cases he
    exact destroy_inv never d w.f c f' hi hf
  | inval c clear =>
    simp only [applyOp, Option.map_eq_some_iff] at h
    obtain ⟨f', hf, he⟩ := h; cases he
    exact invalidate_inv never d w.f c clear f' hi hf
  | setReq c t => simp only [applyOp] at h; cases h; exact hi
  | script g c acts => cases g <;> (simp only [applyOp] at h; cases h; exact hi)
  | gpt root now => exact absurd rfl (hg root now)
  | pulse root now =>
    simp only [applyOp] at h
    split at h
    · cases h; exact hi
    · simp only [Option.map_eq_some_iff] at h
      obtain ⟨w1, hf, he⟩ := h; cases he
      simp only [managerPulse] at hf
      split at hf
      · exact (pulse_inv never d k).1 w _ root now hi hf
      · cases hf; exact hi

/-- `inv_preserved`, part 2: the `GetPulseTimeAux` sweep.  DISCIPLINE (the verdict `true` of `managerGptC`, `Pulse/Disc.lean`): no
    `GetPulseTime` callback of the sweep invalidates, detaches or (re-)attaches a node whose own `GetPulseTimeAux` is in progress at
    that moment — the asked node itself or a node further up the call stack.  Callbacks may invalidate, detach, attach and change
    the requests of every OTHER node, inside or outside the swept tree.  `managerGptC` is `managerGpt` plus that verdict
    (`managerGptC_is_managerGpt`), so the hypothesis is a decidable statement about the run.
    Outside the discipline: an invalidation of a node in progress is handled by the second pass of the repaired code
    (`lost_invalidate_*`), a re-attachment of a node in progress makes its frame re-enter below itself
    (`corpus/C20/pn-reattach-inprogress-ancestor.ops`: no timer lost or late on the real code, correspondence exact); neither is
    covered by this theorem. -/
theorem inv_preserved_gpt_sweep (never d k : Nat) (w w' : World) (root now m : Nat)
    (h : managerGptC never d (k+1) w root now = some (w', m, true)) (hi : Inv never w.f)
    (hroot : (w.f root).parent = none) : Inv never w'.f :=
  (managerGptC_settles never d k w w' root now m h hi hroot).1

/-- dropping the verdict of `managerGptC` gives the model's `managerGpt` -/
theorem managerGptC_is_managerGpt (never d k : Nat) (w w' : World) (root now m : Nat) (b : Bool)
    (h : managerGptC never d k w root now = some (w', m, b)) : managerGpt never d k w root now = some (w', m) :=
  (gptC_erase never d k).1 w w' root now never m [] b h

/-- after a disciplined sweep from a root the whole tree below the root is settled: nobody waits in NEEDSRECALC, every node's
    aggregate is at or below its own time and its first scheduled child's aggregate, SCHEDULED lists are sorted, UNSCHEDULED
    children have aggregate `never` -/
theorem gpt_sweep_settles (never d k : Nat) (w w' : World) (root now m : Nat)
    (h : managerGptC never d (k+1) w root now = some (w', m, true)) (hi : Inv never w.f)
    (hroot : (w.f root).parent = none) : Settled never w'.f root :=
  (managerGptC_settles never d k w w' root now m h hi hroot).2.1

/-- `wakeup_is_min`, the half that matters for "no timer is slept through", now WITHOUT a hypothesis on the result: the wake-up
    time a disciplined sweep reports is at or before the time stored for EVERY node below the root -/
theorem wakeup_never_late (never d k : Nat) (w w' : World) (root now m : Nat)
    (h : managerGptC never d (k+1) w root now = some (w', m, true)) (hi : Inv never w.f)
    (hroot : (w.f root).parent = none) : ∀ n, Desc w'.f root n → m ≤ (w'.f n).myTime := by
  intro n hn
  obtain ⟨_, hs, hm⟩ := managerGptC_settles never d k w w' root now m h hi hroot
  have := (settled_agg_le never w'.f root n hs hn).2
  omega

/-- `fires_iff_due`, reachability half, WITHOUT a hypothesis on the result: after a disciplined sweep every node below the root
    whose stored time is `≤ t` has only ancestors with aggregate `≤ t` — the loop condition of `CallPulseAux`/`PulseAux` holds all
    the way down to it -/
theorem due_nodes_reachable (never d k : Nat) (w w' : World) (root now m : Nat)
    (h : managerGptC never d (k+1) w root now = some (w', m, true)) (hi : Inv never w.f)
    (hroot : (w.f root).parent = none) (n t : Nat) (hn : Desc w'.f root n) (hdue : (w'.f n).myTime ≤ t) :
    ∀ a, Desc w'.f root a → Desc w'.f a n → (w'.f a).agg ≤ t := by
  intro a ha han
  have hs := (managerGptC_settles never d k w w' root now m h hi hroot).2.1
  have hsa : Settled never w'.f a :=
    { agg_my := fun p hp => hs.agg_my p (desc_trans ha hp)
      agg_fsa := fun p hp => hs.agg_fsa p (desc_trans ha hp)
      agg_le := fun p hp => hs.agg_le p (desc_trans ha hp)
      sorted := fun p hp => hs.sorted p (desc_trans ha hp)
      filed := fun p c hp hc => hs.filed p c (desc_trans ha hp) hc }
  have := (settled_agg_le never w'.f a n hsa han).2
  omega

/-- the initial state (16 newly constructed nodes … any number) satisfies the invariant -/
theorem inv_init (never : Nat) : Inv never (World.init never).f := by
  refine ⟨⟨?_, ?_, ?_, ?_, ?_, ?_, ?_, ?_, ?_⟩, fun _ => by simp [World.init, Node.fresh, Sorted]⟩
  · intro q x l hx; cases l <;> simp [World.init, Node.fresh, Node.list] at hx
  · intro q l; cases l <;> simp [World.init, Node.fresh, Node.list]
  · intro x q l _ hp; simp [World.init, Node.fresh] at hp
  · intro x hx; exact hx.elim
  · intro x _; simp [World.init, Node.fresh]
  · intro x q hp; simp [World.init, Node.fresh] at hp
  · intro x q hp; simp [World.init, Node.fresh] at hp
  · intro x _ hf; obtain ⟨⟨q, hq⟩, _⟩ := hf; simp [World.init, Node.fresh] at hq
  · intro x; simp [World.init, Node.fresh]

/-- in every state that satisfies the invariant, a node flagged NEEDSRECALC is in its parent's NEEDSRECALC list and the
    parent, unless it is a root, is flagged too: the flag propagates all the way to the root, which is what makes the
    next `GetPulseTimeAux` sweep from the root reach the node -/
theorem needsrecalc_reaches_root (never : Nat) (f : Forest) (hi : Inv never f) (x q : Nat)
    (hp : (f x).parent = some q) (hc : (f x).cur = some .recalc) :
    x ∈ (f q).recalc ∧ ∀ g, (f q).parent = some g → (f q).cur = some .recalc := by
  have hm : x ∈ (f q).list .recalc := hi.1.complete x q .recalc (fun h => h) hp hc
  refine ⟨hm, fun g hg => hi.1.marked q g hg ?_⟩
  intro he
  have : x ∈ (f q).recalc := hm
  rw [he] at this; cases this

example : AllSorted (World.init 100).f := fun _ => by simp [World.init, Node.fresh, Sorted]

/-! ## Never early, with the time asked for, only while the request stands -/

/-- every operation keeps the log discipline (`Good` = `LogOK` log ∧ every standing request is the node's latest answer) -/
theorem good_preserved (never d k : Nat) (w w' : World) (r : Res) (o : Op) (g : Good none w)
    (h : applyOp never d k w o = some (w', r)) : Good none w' := by
  cases o with
  | attach c p =>
    simp only [applyOp] at h
    split at h
    · cases h; exact g
    · simp only [Option.map_eq_some_iff] at h
      obtain ⟨f', hf, he⟩ := h; cases he
      exact good_mono g f' (putChild_mono never d w.f p c f' hf)
  | detach c =>
    simp only [applyOp, Option.map_eq_some_iff] at h
    obtain ⟨f', hf, he⟩ := h; cases he
    exact good_mono g f' (detach_mono never d w.f c f' hf)
  | destroy c =>
    simp only [applyOp, Option.map_eq_some_iff] at h
    obtain ⟨f', hf, he⟩ := h; cases he
    have := good_mono g f' (destroy_mono never d w.f c f' hf)
    exact ⟨this.1, this.2⟩
  | inval c clear =>
    simp only [applyOp, Option.map_eq_some_iff] at h
    obtain ⟨f', hf, he⟩ := h; cases he
    exact good_mono g f' (invalidate_mono never d w.f c clear f' hf)
  | setReq c t => simp only [applyOp] at h; cases h; exact ⟨g.1, g.2⟩
  | script b c acts => cases b <;> (simp only [applyOp] at h; cases h; exact ⟨g.1, g.2⟩)
  | gpt root now =>
    simp only [applyOp] at h
    split at h
    · cases h; exact g
    · simp only [Option.map_eq_some_iff] at h
      obtain ⟨⟨w1, m⟩, hf, he⟩ := h; cases he
      exact (gpt_good never d k).1 w _ root now never _ g hf
  | pulse root now =>
    simp only [applyOp] at h
    split at h
    · cases h; exact g
    · simp only [Option.map_eq_some_iff] at h
      obtain ⟨w1, hf, he⟩ := h; cases he
      simp only [managerPulse] at hf
      split at hf
      · exact (pulse_good never d k).1 w _ root now g hf
      · cases hf; exact g

theorem good_init (never : Nat) : Good none (World.init never) :=
  ⟨LogOK.nil, fun m _ hv => by simp [World.init, Node.fresh] at hv⟩

theorem good_history (never d k : Nat) : ∀ (ops : List Op) (w w' : World), Good none w →
    runOps never d k w ops = some w' → Good none w' := by
  intro ops
  induction ops with
  | nil => intro w w' g h; simp [runOps] at h; subst h; exact g
  | cons o r ih =>
    intro w w' g h
    simp only [runOps] at h
    split at h
    · rename_i w1 r1 h1
      exact ih w1 w' (good_preserved never d k w w1 r1 o g h1) h
    · cases h

/-- `fires_with_asked_time`: in EVERY history (any operations, any scripts, any clock values), every `Pulse`
    callback is made with exactly the time the node answered in its latest `GetPulseTime` call … -/
theorem fires_with_asked_time (never d k : Nat) (ops : List Op) (w' : World)
    (h : runOps never d k (World.init never) ops = some w')
    (l1 l2 : List Event) (id now s : Nat) (hl : w'.log = l1 ++ [.P id now s] ++ l2) :
    lastAns l1 id = some s :=
  (logOK_P w'.log (good_history never d k ops _ w' (good_init never) h).1 l1 l2 id now s hl).1

/-- `never_early`: … and never before that time. -/
theorem never_early (never d k : Nat) (ops : List Op) (w' : World)
    (h : runOps never d k (World.init never) ops = some w')
    (l1 l2 : List Event) (id now s : Nat) (hl : w'.log = l1 ++ [.P id now s] ++ l2) :
    s ≤ now :=
  (logOK_P w'.log (good_history never d k ops _ w' (good_init never) h).1 l1 l2 id now s hl).2

/-- soundness half of `fires_iff_due`, and `reasked` part 1: a pulse sweep at `now` (on any state, with any
    scripts) makes `Pulse` callbacks only, each at `now` with a scheduled time `≤ now`; every node it fires has NO
    standing request at the end of the sweep (so it cannot fire again before it has been asked again), and the sweep
    neither creates nor alters any other node's standing request. -/
theorem fired_loses_request (never d k : Nat) (w w' : World) (root now : Nat)
    (h : managerPulse never d k w root now = some w') :
    ∃ l, w'.log = w.log ++ l ∧
      (∀ e ∈ l, ∃ id s, e = .P id now s ∧ s ≤ now ∧ (w'.f id).valid = false) ∧
      (∀ i, (w'.f i).valid = true → (w.f i).valid = true ∧ (w'.f i).myTime = (w.f i).myTime) := by
  simp only [managerPulse] at h
  split at h
  · exact (pulse_step never d k).1 w w' root now h
  · cases h; exact PulseStep.refl now w

/-- the firing rule of one node: `PulseAux` on a node whose request stands and is due (`valid ∧ myTime ≤ now`)
    makes its callback, first thing, with the time it asked for … -/
theorem fires_self_if_due (never d k : Nat) (w w' : World) (n now : Nat)
    (hv : (w.f n).valid = true) (ht : (w.f n).myTime ≤ now)
    (h : pulseAux never d (k+1) w n now = some w') :
    ∃ l, w'.log = w.log ++ [.P n now (w.f n).myTime] ++ l :=
  pulseAux_fires_self never d k w w' n now hv ht h

/-- … and otherwise goes straight to its due SCHEDULED children and the re-filing in NEEDSRECALC. -/
theorem skips_self_if_not_due (never d k : Nat) (w w' : World) (n now : Nat)
    (hn : ¬ ((w.f n).valid = true ∧ (w.f n).myTime ≤ now))
    (h : pulseAux never d (k+1) w n now = some w') :
    ∃ w1, pulseLoop never d k w n now = some w1 ∧ pulseFinish never d w1 n = some w' :=
  pulseAux_skips_self never d k w w' n now hn h

/-- in ANY settled tree every node whose stored time is `≤ t` is reachable for `PulseAux`: all its ancestors have an aggregate
    time `≤ t`, the loop condition of `PulseAux` and of `CallPulseAux` -/
theorem settled_due_reachable (never : Nat) (f : Forest) (root n t : Nat) (hs : Settled never f root)
    (hn : Desc f root n) (hdue : (f n).myTime ≤ t) :
    ∀ a, Desc f root a → Desc f a n → (f a).agg ≤ t := by
  intro a ha han
  have hsa : Settled never f a :=
    { agg_my := fun p hp => hs.agg_my p (desc_trans ha hp)
      agg_fsa := fun p hp => hs.agg_fsa p (desc_trans ha hp)
      agg_le := fun p hp => hs.agg_le p (desc_trans ha hp)
      sorted := fun p hp => hs.sorted p (desc_trans ha hp)
      filed := fun p c hp hc => hs.filed p c (desc_trans ha hp) hc }
  have := (settled_agg_le never f a n hsa han).2
  omega

/-- `fires_iff_due` (DESIGN).  DISCIPLINE: the `Pulse` callbacks of the sweep only change requests (`PQuiet`: every queued `Pulse`
    script consists of `setRequest` actions).  It is needed in some form: a `Pulse` callback that invalidates (or detaches, or cuts
    off an ancestor of) a node that is due in the same sweep before its turn legitimately prevents its firing — first pair of
    examples at the end of the file; the weakest sufficient discipline ("… does not touch a node that is due before its turn, nor
    one of its ancestors") is not formalised.
    After a disciplined `GetPulseTimeAux` sweep from a root (`managerGptC`, verdict `true`) the following `CallPulseAux(root, t)`,
    `t < never`, fires EXACTLY the due nodes: every node below the root whose request stands and is `≤ t` gets a `Pulse(t, ·)`
    entry (completeness), every entry of the sweep is such a `Pulse` of a node whose request stood and was due
    (`never_early`, `fires_with_asked_time`), and every node fired has no standing request afterwards, so none fires twice on one
    request (`fired_loses_request`). -/
theorem fires_iff_due (never d k k2 : Nat) (w w1 w2 : World) (root now t m : Nat) (ht : t < never)
    (hi : Inv never w.f) (hroot : (w.f root).parent = none)
    (hg : managerGptC never d (k+1) w root now = some (w1, m, true))
    (hq : PQuiet w1) (hp : managerPulse never d k2 w1 root t = some w2) :
    ∃ l, w2.log = w1.log ++ l ∧
      (∀ x, Desc w1.f root x → (w1.f x).valid = true → (w1.f x).myTime ≤ t → ∃ s, Event.P x t s ∈ l) ∧
      (∀ e ∈ l, ∃ id s, e = .P id t s ∧ s ≤ t ∧ (w2.f id).valid = false) := by
  obtain ⟨i1, s1, _⟩ := managerGptC_settles never d k w w1 root now m hg hi hroot
  have hroot1 : (w1.f root).parent = none := by
    have hcur : (w.f root).cur = none := hi.1.rootcur root hroot
    have hun : ∀ y ∈ [root], Unfiled w.f y := by
      intro y hy
      have : y = root := by simpa using hy
      subst this
      exact ⟨by rw [hcur]; simp, by rw [hcur]; simp⟩
    simp only [managerGptC] at hg
    exact ((gptC_inv never d (k+1)).1 w w1 root now never m [] hg hi (by simp [Chain, hroot]) (by simp) hun).2.2.trans hroot
  obtain ⟨l, e, comp⟩ := managerPulse_complete never d k2 w1 w2 root t ht hp i1 hq hroot1 s1
  obtain ⟨l', e', snd, _⟩ := fired_loses_request never d k2 w1 w2 root t hp
  have : l' = l := List.append_cancel_left (e'.symm.trans e)
  subst this
  exact ⟨l', e, comp, snd⟩

/-- the same for any settled tree, however it was reached -/
theorem fires_every_due_node (never d k : Nat) (w w' : World) (root t : Nat) (ht : t < never)
    (h : managerPulse never d k w root t = some w') (hi : Inv never w.f) (hq : PQuiet w)
    (hroot : (w.f root).parent = none) (hS : Settled never w.f root) :
    ∃ l, w'.log = w.log ++ l ∧
      ∀ x, Desc w.f root x → (w.f x).valid = true → (w.f x).myTime ≤ t → ∃ s, Event.P x t s ∈ l :=
  managerPulse_complete never d k w w' root t ht h hi hq hroot hS

/-! ## The wake-up time -/

/-- FULL STATEMENT (DESIGN `wakeup_is_min`): `(getPulseTime f root now).min = min over attached nodes of the requested time`
    (0 when a node is left invalid).  PROVED: `≤` every stored time below the root after a disciplined sweep, with no hypothesis on
    the result (`wakeup_never_late`); here, for ANY run: `≤` the root's new aggregate, and `≤` every stored time if the result is
    settled; after an in-progress invalidation that survives the second pass the reported time is 0 (`lost_invalidate_live`).
    NOW PROVED (`wakeup_is_min_quiet`, `wakeup_is_min_undisturbed`): exactness — `m` IS the minimum of the stored times below the
    root, `never` if there is none — for every sweep whose `GetPulseTime` callbacks only answer and change requests (`GQuiet`: every
    queued `GetPulseTime` script consists of `setRequest` actions; in particular: no scripts), from a state with `Inv`, `V` and a
    parent relation of finite height.
    STILL MISSING: exactness for callbacks that invalidate / attach / detach other nodes.  It is FALSE for callbacks that
    invalidate an already recalculated node and raise its request within one sweep — `min` is only ever lowered, so the superseded
    answer is reported (spurious early wake-up, corrected in the next cycle; witness at the end of the file) — so the quiet
    discipline cannot simply be dropped; the exact boundary (e.g. "callbacks only lower the requests of nodes already
    recalculated") is not formalised.  The finite-height hypothesis is needed as stated (the invariant alone allows an infinite
    descending chain whose aggregate is attained nowhere); it holds in every reachable state (`finite_height_reachable`: preserved
    by every operation and both sweeps with arbitrary scripts, the `isAnc` guard of attach being sound for every depth), so
    `wakeup_is_min_reachable` needs it no more, `wakeup_is_min_first_sweep` needs neither it nor `Inv` nor `V`, and
    `wakeup_is_min_quiet_history` has NO hypothesis about the state: after any history whose `script` operations queue request-only
    actions (`gpt` and `pulse` operations included) every sweep from a root reports the exact minimum.  Validated on every undisturbed sweep of the correspondence run by the direct oracle. -/
theorem wakeup_is_min_partial (never d k : Nat) (w w' : World) (root now m : Nat)
    (h : managerGpt never d (k+1) w root now = some (w', m)) :
    m ≤ (w'.f root).agg ∧
    (Settled never w'.f root → ∀ n, Desc w'.f root n → m ≤ (w'.f n).myTime) := by
  simp only [managerGpt] at h
  obtain ⟨w1, w2, m2, _, _, hr⟩ := gptAux_shape never d k w w' root now never m h
  have hm : m ≤ (w'.f root).agg := by
    rcases hr with ⟨_, hf⟩ | ⟨_, w3, w4, m4, _, _, hf⟩
    · exact (gptFinish_min never d w2 w' root m2 m hf).2.1
    · exact (gptFinish_min never d w4 w' root m4 m hf).2.1
  refine ⟨hm, fun hs n hn => ?_⟩
  have := (settled_agg_le never w'.f root n hs hn).2
  omega

/-! ## Asked again -/

/-- `wakeup_is_min`, exact, for sweeps whose `GetPulseTime` callbacks only answer and change requests.
    HYPOTHESES: `Inv` and `V` (both proved for the initial state, every public operation and the pulse sweep), `root` is a root,
    `GQuiet w` = every queued `GetPulseTime` script consists of `setRequest` actions only (no invalidate / attach / detach), and the
    parent relation has finite height (`ht` decreases from parent to child; true for every finite acyclic forest).
    CONCLUSION: the reported wake-up time `m` is the minimum of the times stored for the nodes below the root after the sweep (all
    of which have a standing request, `all_asked_after_sweep`): it is `≤` each of them, and it is attained by one of them — or it is
    `never`, in which case (by the first part) every stored time is `never` too. -/
theorem wakeup_is_min_quiet (never d k : Nat) (w w' : World) (root now m : Nat)
    (h : managerGpt never d (k+1) w root now = some (w', m)) (hi : Inv never w.f) (hV : V w.f) (hq : GQuiet w)
    (hroot : (w.f root).parent = none)
    (hfin : ∃ ht : Nat → Nat, ∀ c p, (w.f c).parent = some p → ht c < ht p) :
    (∀ n, Desc w'.f root n → m ≤ (w'.f n).myTime) ∧
    (m = never ∨ ∃ n, Desc w'.f root n ∧ (w'.f n).myTime = m) :=
  managerGpt_exact never d k w w' root now m h hi hV hq hroot hfin

/-- the undisturbed sweep: no `GetPulseTime` scripts are queued at all (every callback just answers its stored request) -/
theorem wakeup_is_min_undisturbed (never d k : Nat) (w w' : World) (root now m : Nat)
    (h : managerGpt never d (k+1) w root now = some (w', m)) (hi : Inv never w.f) (hV : V w.f)
    (hnone : ∀ n, w.gq n = []) (hroot : (w.f root).parent = none)
    (hfin : ∃ ht : Nat → Nat, ∀ c p, (w.f c).parent = some p → ht c < ht p) :
    (∀ n, Desc w'.f root n → m ≤ (w'.f n).myTime) ∧
    (m = never ∨ ∃ n, Desc w'.f root n ∧ (w'.f n).myTime = m) :=
  managerGpt_exact never d k w w' root now m h hi hV
    (fun n acts ha => by rw [hnone n] at ha; cases ha) hroot hfin

/-- non-vacuity: root 0 (request 500), child 1 (400), grandchild 2 (300), no scripts: the sweep reports 300, the request of the
    grandchild -/
example : ((runOps 1000 8 40 (World.init 1000)
      [.attach 1 0, .attach 2 1, .setReq 0 500, .setReq 1 400, .setReq 2 300]).bind
      fun w => managerGpt 1000 8 40 w 0 10).map
      (fun r => (r.2, (r.1.f 2).myTime, (r.1.f 2).parent, (r.1.f 1).parent, (r.1.f 0).myTime, (r.1.f 1).myTime)) =
    some (300, 300, some 1, some 0, 500, 400) := by decide +kernel

/-! ### the finite-height hypothesis holds in every reachable state

`Height f` = `∃ ht, ∀ c p, (f c).parent = some p → ht c < ht p` (exactly the `hfin` hypothesis above): the parent relation has
finite height, in particular it is acyclic.  The only operation that adds a parent pointer is `attach` (`PutPulseChild`).  In the
model — at top level (`applyOp`) and inside callbacks (`runAct`) — it is guarded by `isAnc d f c p`, which walks up from `p` with fuel
`d` and answers `true` = "refuse" when it meets `c` OR RUNS OUT OF FUEL.  So the guard is sound for every depth
(`isAnc_sound : isAnc d f a n = false → ¬ Desc f a n`): a deep tree can only make it refuse an attachment that would have been
legal, never let a cycle in.  The C++ `PulseNode::PutPulseChild` itself has NO ancestor guard (only `MASSERT(child != this)`); closing a
cycle there makes `ReschedulePulseChild` / `GetCycleStartTime` recurse for ever, so "the caller never attaches a node below itself" is a
precondition of the API.  The harness enforces it with an unbounded walk over `GetPulseParent()` and prints `cycle`; the engine's
fuel (64) exceeds the number of nodes (16), so both agree on every generated input. -/

/-- the guard at work: attaching an ancestor below its own descendant is refused; with too little fuel (`d = 1`, chain of depth 2)
    a LEGAL attachment is refused too — the conservative direction — while enough fuel accepts it -/
example : ((runOps 1000 8 40 (World.init 1000) [.attach 1 0, .attach 2 1]).bind
      fun w => applyOp 1000 8 40 w (.attach 0 2)).map (·.2) = some .cycle := by decide +kernel

example : ((runOps 1000 8 40 (World.init 1000) [.attach 1 0, .attach 2 1]).bind
      fun w => applyOp 1000 1 40 w (.attach 3 2)).map (·.2) = some .cycle := by decide +kernel

example : ((runOps 1000 8 40 (World.init 1000) [.attach 1 0, .attach 2 1]).bind
      fun w => applyOp 1000 8 40 w (.attach 3 2)).map (·.2) = some .ok := by decide +kernel

/-- (a) the initial state has a height function (there are no parent pointers) -/
theorem finite_height_init (never : Nat) : Height (World.init never).f :=
  ⟨fun _ => 0, fun c p h => by simp [World.init, Node.fresh] at h⟩

/-- (b) EVERY operation — attach, detach, destroy, invalidate, change of request, scripts, and both sweeps with whatever their
    callback scripts do (attach / detach / invalidate from inside `GetPulseTime` and `Pulse`) — keeps the height finite -/
theorem finite_height_preserved (never d k : Nat) (w w' : World) (r : Res) (o : Op) (hH : Height w.f)
    (h : applyOp never d k w o = some (w', r)) : Height w'.f := by
  cases o with
  | attach c p =>
    simp only [applyOp] at h
    split at h
    · cases h; exact hH
    · rename_i hg
      simp only [Option.map_eq_some_iff] at h
      obtain ⟨f', hf, he⟩ := h; cases he
      exact putChild_height never d w.f p c f' hH (isAnc_sound d w.f c p (by simpa using hg)) hf
  | detach c =>
    simp only [applyOp, Option.map_eq_some_iff] at h
    obtain ⟨f', hf, he⟩ := h; cases he
    exact hH.mono (detach_parSub never d w.f c f' hf)
  | destroy c =>
    simp only [applyOp, Option.map_eq_some_iff] at h
    obtain ⟨f', hf, he⟩ := h; cases he
    exact hH.mono (destroy_parSub never d w.f c f' hf)
  | inval c clear =>
    simp only [applyOp, Option.map_eq_some_iff] at h
    obtain ⟨f', hf, he⟩ := h; cases he
    exact hH.mono (parSub_of_eq (invalidate_parent never d w.f c clear f' hf))
  | setReq c t => simp only [applyOp] at h; cases h; exact hH
  | script g c acts => cases g <;> (simp only [applyOp] at h; cases h; exact hH)
  | gpt root now =>
    simp only [applyOp] at h
    split at h
    · cases h; exact hH
    · simp only [Option.map_eq_some_iff] at h
      obtain ⟨⟨w1, m⟩, hf, he⟩ := h; cases he
      exact (gpt_height never d k).1 w _ root now never _ hH hf
  | pulse root now =>
    simp only [applyOp] at h
    split at h
    · cases h; exact hH
    · simp only [Option.map_eq_some_iff] at h
      obtain ⟨w1, hf, he⟩ := h; cases he
      simp only [managerPulse] at hf
      split at hf
      · exact (pulse_height never d k).1 w _ root now hH hf
      · cases hf; exact hH

theorem finite_height_history (never d k : Nat) : ∀ (ops : List Op) (w w' : World), Height w.f →
    runOps never d k w ops = some w' → Height w'.f := by
  intro ops
  induction ops with
  | nil => intro w w' g h; simp [runOps] at h; subst h; exact g
  | cons o r ih =>
    intro w w' g h
    simp only [runOps] at h
    split at h
    · rename_i w1 r1 h1
      exact ih w1 w' (finite_height_preserved never d k w w1 r1 o g h1) h
    · cases h

/-- (c) every state reachable from the initial state by ANY history of operations has a parent relation of finite height -/
theorem finite_height_reachable (never d k : Nat) (ops : List Op) (w : World)
    (h : runOps never d k (World.init never) ops = some w) :
    ∃ ht : Nat → Nat, ∀ c p, (w.f c).parent = some p → ht c < ht p :=
  finite_height_history never d k ops _ w (finite_height_init never) h

/-- `wakeup_is_min_quiet` in a reachable state: the finite-height hypothesis is discharged from reachability.  `Inv` and `V` stay
    hypotheses here: they are proved for the initial state, every public operation and the pulse sweep (`inv_init`, `inv_preserved`,
    `v_init`, `v_preserved`), but for a `gpt` operation of the history only under the discipline verdict of `managerGptC`
    (`inv_preserved_gpt_sweep`, `all_asked_after_sweep`), which `applyOp` does not expose — see `wakeup_is_min_first_sweep` for
    histories where they are discharged too. -/
theorem wakeup_is_min_reachable (never d k k2 : Nat) (ops : List Op) (w w' : World) (root now m : Nat)
    (hreach : runOps never d k (World.init never) ops = some w)
    (h : managerGpt never d (k2+1) w root now = some (w', m)) (hi : Inv never w.f) (hV : V w.f) (hq : GQuiet w)
    (hroot : (w.f root).parent = none) :
    (∀ n, Desc w'.f root n → m ≤ (w'.f n).myTime) ∧
    (m = never ∨ ∃ n, Desc w'.f root n ∧ (w'.f n).myTime = m) :=
  wakeup_is_min_quiet never d k2 w w' root now m h hi hV hq hroot (finite_height_reachable never d k ops w hreach)

/-- the asking rule of one node: `GetPulseTimeAux` asks every node it visits that has no standing request — first thing, passing
    the time the node requested before — and it returns from a node only when that node's NEEDSRECALC list is empty -/
theorem asks_when_visited (never d k : Nat) (w w' : World) (n now mn mn' : Nat)
    (h : gptAux never d (k+1) w n now mn = some (w', mn')) :
    ((w.f n).valid = false → ∃ ret l, w'.log = w.log ++ [.G n now (w.f n).myTime ret] ++ l) ∧
    (∀ w1 w2 m1 m2, gptLoop never d k w1 n now m1 = some (w2, m2) → (w2.f n).recalc = []) :=
  ⟨fun hv => gptAux_asks never d k w w' n now mn mn' hv h,
   fun w1 w2 m1 m2 hl => gptLoop_empties never d k w1 w2 n now m1 m2 hl⟩

/-! ## `reasked`

Invariant `V` (`Pulse/Proofs12.lean`): a non-root node without a standing request is flagged NEEDSRECALC — at every step
boundary; inside a node's own `PulseAux`, between its `Pulse` callback and its return, the node itself is excepted (that is the
exception set of `VEx`, empty at operation boundaries). -/

/-- `V` holds initially and is preserved by every public operation and by the whole pulse sweep with arbitrary scripts -/
theorem v_init (never : Nat) : V (World.init never).f :=
  fun x q _ hp _ => by simp [World.init, Node.fresh] at hp

theorem v_preserved (never d k : Nat) (w w' : World) (r : Res) (o : Op)
    (hg : ∀ root now, o ≠ .gpt root now) (hv : V w.f)
    (h : applyOp never d k w o = some (w', r)) : V w'.f := by
  cases o with
  | attach c p =>
    simp only [applyOp] at h
    split at h
    · cases h; exact hv
    · simp only [Option.map_eq_some_iff] at h
      obtain ⟨f', hf, he⟩ := h; cases he
      exact VEx.step hv (putChild_vrel never d w.f p c f' hf)
  | detach c =>
    simp only [applyOp, Option.map_eq_some_iff] at h
    obtain ⟨f', hf, he⟩ := h; cases he
    simp only [detach] at hf
    split at hf
    · exact VEx.step hv (removeChild_vrel never d w.f _ c f' hf)
    · cases hf; exact hv
  | destroy c =>
    simp only [applyOp, Option.map_eq_some_iff] at h
    obtain ⟨f', hf, he⟩ := h; cases he
    exact VEx.step hv (destroy_vrel never d w.f c f' hf)
  | inval c clear =>
    simp only [applyOp, Option.map_eq_some_iff] at h
    obtain ⟨f', hf, he⟩ := h; cases he
    exact VEx.step hv (invalidate_vrel never d w.f c clear f' hf)
  | setReq c t => simp only [applyOp] at h; cases h; exact hv
  | script g c acts => cases g <;> (simp only [applyOp] at h; cases h; exact hv)
  | gpt root now => exact absurd rfl (hg root now)
  | pulse root now =>
    simp only [applyOp] at h
    split at h
    · cases h; exact hv
    · simp only [Option.map_eq_some_iff] at h
      obtain ⟨w1, hf, he⟩ := h; cases he
      simp only [managerPulse] at hf
      split at hf
      · exact (pulse_V never d k).1 _ w _ root now hv hf
      · cases hf; exact hv

/-- after a disciplined `GetPulseTimeAux` sweep from a root, EVERY node below the root has a standing request again, and `V`
    still holds.  (Discipline = verdict of `managerGptC`, see `inv_preserved_gpt_sweep`.  It is needed: a node that invalidates
    itself in both passes is left without a request — second example below; the repaired code then reports wake-up time 0,
    `lost_invalidate_live`.) -/
theorem all_asked_after_sweep (never d k : Nat) (w w' : World) (root now m : Nat)
    (h : managerGptC never d (k+1) w root now = some (w', m, true)) (hi : Inv never w.f) (hv : V w.f)
    (hroot : (w.f root).parent = none) :
    V w'.f ∧ ∀ x, Desc w'.f root x → (w'.f x).valid = true :=
  managerGptC_reasks never d k w w' root now m h hi hv hroot

/-- `reasked` (DESIGN): every node fired by a pulse sweep (arbitrary `Pulse` scripts) has no standing request afterwards
    (`fired_loses_request`) and — if it is still below the root — is ASKED by the next disciplined `GetPulseTimeAux` sweep from
    that root: a `GetPulseTime` entry for it appears in that sweep's part of the log. -/
theorem reasked (never d k k2 : Nat) (w w1 w2 : World) (root t now m : Nat)
    (hi : Inv never w.f) (hv : V w.f)
    (hp : managerPulse never d k w root t = some w1) (hroot : (w1.f root).parent = none)
    (hg : managerGptC never d (k2+1) w1 root now = some (w2, m, true)) :
    ∃ l1 l2, w1.log = w.log ++ l1 ∧ w2.log = w1.log ++ l2 ∧
      ∀ id s, Event.P id t s ∈ l1 → Desc w2.f root id → ∃ n p r, Event.G id n p r ∈ l2 := by
  obtain ⟨l1, e1, hf, _⟩ := fired_loses_request never d k w w1 root t hp
  have i1 : Inv never w1.f := by
    simp only [managerPulse] at hp
    split at hp
    · exact (pulse_inv never d k).1 w w1 root t hi hp
    · cases hp; exact hi
  have v1 : V w1.f := by
    simp only [managerPulse] at hp
    split at hp
    · exact (pulse_V never d k).1 _ w w1 root t hv hp
    · cases hp; exact hv
  obtain ⟨_, hall⟩ := managerGptC_reasks never d k2 w1 w2 root now m hg i1 v1 hroot
  have he := (gptC_erase never d (k2+1)).1 w1 w2 root now never m [] true hg
  obtain ⟨l2, e2, ha⟩ := (gpt_asked never d (k2+1)).1 w1 w2 root now never m he
  refine ⟨l1, l2, e1, e2, fun id s hm hd => ?_⟩
  obtain ⟨id', s', he', _, hinv⟩ := hf _ hm
  cases he'
  exact ha id hinv (hall id hd)

/-! ### the first sweep after a `gpt`-free history: no hypothesis about the state -/

theorem inv_v_history_gptfree (never d k : Nat) : ∀ (ops : List Op) (w w' : World),
    (∀ o ∈ ops, ∀ root now, o ≠ .gpt root now) → Inv never w.f → V w.f →
    runOps never d k w ops = some w' → Inv never w'.f ∧ V w'.f := by
  intro ops
  induction ops with
  | nil => intro w w' _ hi hv h; simp [runOps] at h; subst h; exact ⟨hi, hv⟩
  | cons o r ih =>
    intro w w' hg hi hv h
    simp only [runOps] at h
    split at h
    · rename_i w1 r1 h1
      have hgo := hg o (by simp)
      exact ih w1 w' (fun o' ho' => hg o' (List.mem_cons_of_mem _ ho'))
        (inv_preserved never d k w w1 r1 o hgo hi h1) (v_preserved never d k w w1 r1 o hgo hv h1) h
    · cases h

/-- the FIRST recalculation sweep after any history of attach / detach / destroy / invalidate / change of request / script / pulse
    operations: no hypothesis about the state is left — only that the queued `GetPulseTime` scripts change requests only and that the
    swept node is a root.  The reported wake-up time is the minimum of the requested times of the attached nodes (`never` if none). -/
theorem wakeup_is_min_first_sweep (never d k k2 : Nat) (ops : List Op) (w w' : World) (root now m : Nat)
    (hg : ∀ o ∈ ops, ∀ r n, o ≠ .gpt r n)
    (hreach : runOps never d k (World.init never) ops = some w)
    (h : managerGpt never d (k2+1) w root now = some (w', m)) (hq : GQuiet w)
    (hroot : (w.f root).parent = none) :
    (∀ n, Desc w'.f root n → m ≤ (w'.f n).myTime) ∧
    (m = never ∨ ∃ n, Desc w'.f root n ∧ (w'.f n).myTime = m) := by
  obtain ⟨hi, hv⟩ := inv_v_history_gptfree never d k ops _ w hg (inv_init never) (v_init never) hreach
  exact wakeup_is_min_reachable never d k k2 ops w w' root now m hreach h hi hv hq hroot

/-! ## The repaired `GetPulseTimeAux` (finding `C20-lost-invalidate`, fixed)

Before the repair an `InvalidatePulseTime()` (or detach + re-attach) that reached a node while its own `GetPulseTimeAux` was
in progress was lost: the node was filed with `_myScheduledTimeValid == false`, never asked again, never fired.  The three
theorems below are the repaired behaviour; `never_early` / `fires_with_asked_time` above hold for the repaired model as
they did before (every `Pulse` callback still needs a standing request, and a standing request is still the node's latest
answer). -/

/-- not lost: if the request does not stand after the first pass (own callback + needy children), the node is asked again
    in the same `GetPulseTimeAux` call, and is told the answer it gave the first time -/
theorem lost_invalidate_reasked (never d k : Nat) (w w' : World) (n now mn m : Nat)
    (h : gptAux never d (k+1) w n now mn = some (w', m)) (w1 w2 : World) (m2 : Nat)
    (h1 : (if (w.f n).valid then some w else callG never d w n now) = some w1)
    (h2 : gptLoop never d k w1 n now mn = some (w2, m2)) (hv : (w2.f n).valid = false) :
    ∃ ret l, w'.log = w2.log ++ [.G n now (w2.f n).myTime ret] ++ l :=
  gptAux_reasks_in_progress never d k w w' n now mn m h w1 w2 m2 h1 h2 hv

/-- bounded: one `GetPulseTimeAux` call consists of one pass, or — exactly when the request does not stand after the first
    pass — two; a node that invalidates itself on every `GetPulseTime` call is asked twice per call, not for ever -/
theorem lost_invalidate_bounded (never d k : Nat) (w w' : World) (n now mn m : Nat)
    (h : gptAux never d (k+1) w n now mn = some (w', m)) :
    ∃ w1 w2 m2, (if (w.f n).valid then some w else callG never d w n now) = some w1 ∧
      gptLoop never d k w1 n now mn = some (w2, m2) ∧
      (((w2.f n).valid = true ∧ gptFinish never d w2 n m2 = some (w', m)) ∨
       ((w2.f n).valid = false ∧ ∃ w3 w4 m4, callG never d w2 n now = some w3 ∧
          gptLoop never d k w3 n now m2 = some (w4, m4) ∧ gptFinish never d w4 n m4 = some (w', m))) :=
  gptAux_shape never d k w w' n now mn m h

/-- live: when `GetPulseTimeAux` returns, the node's request stands, or — it was invalidated again during the second pass —
    the node's aggregate time and the reported wake-up time are 0: the event loop does not wait (`0 ≤ now`), the next
    `CallPulseAux`/`PulseAux` reaches the node (`now ≥ 0` is the loop condition) without calling `Pulse` (`never_early`: the
    request does not stand), and `PulseAux` flags every node it visits NEEDSRECALC, so that the next sweep asks it
    (`reasked_partial`) -/
theorem lost_invalidate_live (never d k : Nat) (w w' : World) (n now mn m : Nat)
    (h : gptAux never d (k+1) w n now mn = some (w', m)) :
    ((w'.f n).valid = true ∨ ((w'.f n).agg = 0 ∧ m = 0)) ∧
    (∀ (k2 : Nat) (v v' : World) (now2 q : Nat), pulseAux never d (k2+1) v n now2 = some v' →
        (v'.f n).parent = some q → (v'.f n).cur = some .recalc) :=
  ⟨gptAux_live never d k w w' n now mn m h,
   fun k2 v v' now2 q hp hq => pulseAux_marks never d k2 v v' n now2 hp q hq⟩

/-! ## Fuel

TERMINATION.  Two kinds of fuel: `d` for the recursion of `ReschedulePulseChild` up the parent chain, `k` for the two sweeps.
PROVED:
* the fuel is not part of the semantics (`fuel_irrelevant_partial`): a sweep that completes with fuel `k` completes with exactly the
  same result with every larger fuel;
* fuel `d` (`reschedule_terminates`): if the parent relation has a height function bounded by `B` (`HeightLe B ht f`; a height function
  exists in every reachable state, `finite_height_reachable`) then EVERY `ReschedulePulseChild` call completes with any `d > B` —
  explicit bound — and so do `InvalidatePulseTime`, the last statements of `PulseAux` and of `GetPulseTimeAux`
  (`invalidate_terminates`, `pulseFinish_terminates`, `gptFinish_terminates` in `Pulse/Proofs16.lean`); quiet callbacks always complete
  (`callP_quiet_some`, `callG_quiet_some`);
* fuel `k`, PULSE SWEEP, in full (`pulse_sweep_terminates_quiet`): with quiet `Pulse` scripts, a height bound `B < d` and SCHEDULED lists
  of length `≤ N` the sweep completes with fuel `B * (N + 2)` — the measure is (height of the node, length of its SCHEDULED list);
* fuel `k`, RECALCULATION SWEEP, in full (`gpt_sweep_terminates_quiet`): with quiet `GetPulseTime` scripts, `Inv`, `V`, a height bound `B < d`
  and NEEDSRECALC lists of length `≤ N` the sweep (both passes at every node) completes with fuel `B * (N + 2)` — the measure is (height
  of the node, length of its NEEDSRECALC list).
* the bounds `B` and `N` exist in every forest with finite support (`sweeps_terminate_finite_support`: `FSupp M`, all parent pointers among
  the ids below `M`, gives a bounded height function and lists of length `≤ M`, hence termination of both sweeps for every `d > B`).
* finite support holds in every reachable state (`finite_support_reachable`, `M = opsBound ops`), so in reachable quiet states both sweeps
  terminate for every `d` above the height bound (`sweeps_terminate_reachable`; after a `gpt`-free history with no hypothesis left,
  `sweeps_terminate_first_sweep`).
* after ANY quiet history (`QuietOps`: the `script` operations queue request-only actions; `gpt` and `pulse` operations included) `Inv`, `V`
  and the quietness of both queues hold (`inv_v_history_quiet`), so both sweeps terminate with no hypothesis about the state
  (`sweeps_terminate_quiet_history`).
* EXPLICIT NUMBERS (`sweeps_terminate_quiet_history_explicit`): with `M = opsBound ops`, every `d > M + 1` and every `k ≥ (M + 1) * (M + 2)` suffice
  for both sweeps after a quiet history.  The engine's node ids are `< 16`, so `M ≤ 16` and `d > 17`, `k ≥ 17 · 18 = 306` suffice — far below the
  engine's `d = 64`, `k = 100000` — which is why the correspondence runs never print `fuel`.
STILL MISSING:
(i) `Inv` and `V` for histories whose scripts are not quiet and that contain `gpt` operations (they need the discipline verdict);
(ii) scripts that are not quiet (attach changes the height function). -/

/-- fuel `d`: with a height function bounded by `B`, every `ReschedulePulseChild(child, whichList)` call on a node `p` completes with any
    fuel `d` such that `d + ht p > B`; in particular with any `d > B`, whatever the node -/
theorem reschedule_terminates (never B : Nat) (ht : Nat → Nat) (d : Nat) (f : Forest) (p c : Nat) (w : Option Which)
    (h : HeightLe B ht f) (hd : B + 1 ≤ d + ht p) : ∃ f', resched never d f p c w = some f' :=
  resched_terminates never B ht d f p c w h hd

/-- non-vacuity: in the initial state (no parent pointers: height function `0`, bound `B = 1`) fuel `d = 2` suffices -/
example : ∃ f', resched 1000 2 (World.init 1000).f 0 1 (some .recalc) = some f' :=
  reschedule_terminates 1000 1 (fun _ => 0) 2 (World.init 1000).f 0 1 (some .recalc)
    ⟨fun c p h => by simp [World.init, Node.fresh] at h, fun _ => Nat.zero_lt_one⟩ (Nat.le_refl 2)

/-- TERMINATION OF THE PULSE SWEEP with an explicit fuel.  HYPOTHESES: `Inv`; the queued `Pulse` scripts only change requests
    (`PQuiet`, in particular: no scripts); the parent relation has a height function bounded by `B` (`HeightLe B ht`; a height function
    exists in every reachable state, `finite_height_reachable`; the bound is a hypothesis) and `d > B`; every SCHEDULED list has at most `N`
    members (a hypothesis: finite support of reachable states is not proved).  CONCLUSION: `CallPulseAux(root, t)` completes with fuel
    `B * (N + 2)` and with every larger fuel (and always with the same result, `fuel_irrelevant_partial`).  The measure: the height of
    the node (levels) and, within a node, the length of its SCHEDULED list, which every completed child sweep shortens (the child is
    flagged NEEDSRECALC and nothing enters a SCHEDULED list during a pulse sweep). -/
theorem pulse_sweep_terminates_quiet (never d B N : Nat) (ht : Nat → Nat) (w : World) (root t : Nat)
    (hi : Inv never w.f) (hq : PQuiet w) (hH : HeightLe B ht w.f) (hd : B < d)
    (hN : ∀ x, (w.f x).sched.length ≤ N) (k : Nat) (hk : B * (N + 2) ≤ k) :
    ∃ w', managerPulse never d k w root t = some w' :=
  managerPulse_terminates never d B N ht hd w root t ⟨hi, hq, hH, hN⟩ k hk

/-- non-vacuity: the 3-node chain 0 ← 1 ← 2 (height bound `B = 3`, lists of length `N = 1`), all three due: the sweep completes with
    fuel `B * (N + 2) = 9` and `d = 4`, and fires all three -/
example : ((runOps 1000 8 40 (World.init 1000)
      [.attach 1 0, .attach 2 1, .setReq 0 50, .setReq 1 40, .setReq 2 30, .gpt 0 10]).bind
      fun w => managerPulse 1000 4 9 w 0 60).map (·.log) =
    some [.G 0 10 1000 50, .G 1 10 1000 40, .G 2 10 1000 30, .P 0 60 50, .P 1 60 40, .P 2 60 30] := by decide +kernel

/-- TERMINATION OF THE RECALCULATION SWEEP with an explicit fuel.  HYPOTHESES: `Inv` and `V`; the queued `GetPulseTime` scripts only change
    requests (`GQuiet`, in particular: no scripts); a height function bounded by `B` and `d > B`; every NEEDSRECALC list has at most `N`
    members; `root` is a root.  CONCLUSION: `CallGetPulseTimeAux(root, now, min)` — both passes at every node — completes with fuel
    `B * (N + 2)` and with every larger fuel (and always with the same result).  The measure: the height of the node and, within a node,
    the length of its NEEDSRECALC list, which every completed child sweep shortens (the child is filed, and nothing is flagged
    NEEDSRECALC during a quiet recalculation sweep). -/
theorem gpt_sweep_terminates_quiet (never d B N : Nat) (ht : Nat → Nat) (w : World) (root now : Nat)
    (hi : Inv never w.f) (hV : V w.f) (hq : GQuiet w) (hH : HeightLe B ht w.f) (hd : B < d)
    (hN : ∀ x, (w.f x).recalc.length ≤ N) (hroot : (w.f root).parent = none) (k : Nat) (hk : B * (N + 2) ≤ k) :
    ∃ res, managerGpt never d k w root now = some res :=
  managerGpt_terminates never d B N ht hd w root now hi hV hq hH hN hroot k hk

/-- non-vacuity: the 3-node chain 0 ← 1 ← 2 (`B = 3`, NEEDSRECALC lists of length `N = 1`), nobody asked yet: the sweep completes with fuel
    `B * (N + 2) = 9` and `d = 4`, asks all three and reports the minimum -/
example : ((runOps 1000 8 40 (World.init 1000)
      [.attach 1 0, .attach 2 1, .setReq 0 50, .setReq 1 40, .setReq 2 30]).bind
      fun w => managerGpt 1000 4 9 w 0 10).map (fun r => (r.2, r.1.log)) =
    some (30, [.G 0 10 1000 50, .G 1 10 1000 40, .G 2 10 1000 30]) := by decide +kernel

/-- THE BOUNDS EXIST IN EVERY FINITE FOREST.  `FSupp M f` = all parent pointers live among the node ids below `M` (finite support; a hypothesis:
    that every state reached by `runOps` from `World.init` has it — with `M` above every id mentioned in the history — is NOT proved).
    Then a bounded height function exists (`B`) and every child list has at most `M` members, so in a quiet state both sweeps complete:
    there is a `B` such that for every `d > B` there is a `k` such that for every `k' ≥ k` `CallPulseAux` (quiet `Pulse` scripts) and
    `CallGetPulseTimeAux` on a root (quiet `GetPulseTime` scripts) complete.  (`k = B * (M + 2)`.)  `Height` holds in every reachable state
    (`finite_height_reachable`); `Inv` and `V` as in `wakeup_is_min_reachable`. -/
theorem sweeps_terminate_finite_support (never M : Nat) (w : World) (hs : FSupp M w.f) (hi : Inv never w.f) (hV : V w.f)
    (hH : Height w.f) :
    ∃ B, ∀ d, B < d →
      (PQuiet w → ∀ root t, ∃ k, ∀ k', k ≤ k' → ∃ w', managerPulse never d k' w root t = some w') ∧
      (GQuiet w → ∀ root now, (w.f root).parent = none →
        ∃ k, ∀ k', k ≤ k' → ∃ res, managerGpt never d k' w root now = some res) :=
  sweeps_terminate_of_fsupp never M w hs hi hV hH

/-- non-vacuity: the hypotheses hold in the initial state (no parent pointers: `M = 0`) -/
example : ∃ B, ∀ d, B < d →
      (PQuiet (World.init 1000) → ∀ root t, ∃ k, ∀ k', k ≤ k' → ∃ w', managerPulse 1000 d k' (World.init 1000) root t = some w') ∧
      (GQuiet (World.init 1000) → ∀ root now, ((World.init 1000).f root).parent = none →
        ∃ k, ∀ k', k ≤ k' → ∃ res, managerGpt 1000 d k' (World.init 1000) root now = some res) :=
  sweeps_terminate_finite_support 1000 0 (World.init 1000)
    (fun c p h => by simp [World.init, Node.fresh] at h) (inv_init 1000) (v_init 1000) (finite_height_init 1000)

/-- FINITE SUPPORT OF REACHABLE STATES.  `opsBound ops` = 1 + the largest node id that an `attach` of the history mentions — at top level
    or inside a queued script (0 if there is none; only `attach` creates a parent pointer).  In every state reached from the initial
    state by ANY history — all operations, both sweeps, whatever the scripts do — all parent pointers live among the ids below it. -/
theorem finite_support_reachable (never d k : Nat) (ops : List Op) (w : World)
    (h : runOps never d k (World.init never) ops = some w) : FSupp (opsBound ops) w.f :=
  (runOps_fsq never d k (opsBound ops) ops _ w (fsq_init never _) (fun o ho => opBound_le_opsBound ops o ho) h).1

/-- `sweeps_terminate_finite_support` in a reachable state: finite support and the height function are discharged from reachability.
    `Inv` and `V` stay hypotheses for histories that contain `gpt` operations (see `wakeup_is_min_reachable`); `sweeps_terminate_first_sweep`
    below has nothing left. -/
theorem sweeps_terminate_reachable (never d0 k0 : Nat) (ops : List Op) (w : World)
    (hreach : runOps never d0 k0 (World.init never) ops = some w) (hi : Inv never w.f) (hV : V w.f) :
    ∃ B, ∀ d, B < d →
      (PQuiet w → ∀ root t, ∃ k, ∀ k', k ≤ k' → ∃ w', managerPulse never d k' w root t = some w') ∧
      (GQuiet w → ∀ root now, (w.f root).parent = none →
        ∃ k, ∀ k', k ≤ k' → ∃ res, managerGpt never d k' w root now = some res) :=
  sweeps_terminate_finite_support never (opsBound ops) w (finite_support_reachable never d0 k0 ops w hreach) hi hV
    (finite_height_reachable never d0 k0 ops w hreach)

/-- after any `gpt`-free history (attach / detach / destroy / invalidate / change of request / scripts / pulse sweeps with arbitrary
    scripts) NO hypothesis about the state is left: there is a `B` such that for every `d > B` the next pulse sweep (if the queued `Pulse`
    scripts are quiet) and the next recalculation sweep from a root (if the queued `GetPulseTime` scripts are quiet) complete with all
    sufficiently large fuels `k`. -/
theorem sweeps_terminate_first_sweep (never d0 k0 : Nat) (ops : List Op) (w : World)
    (hg : ∀ o ∈ ops, ∀ r n, o ≠ .gpt r n)
    (hreach : runOps never d0 k0 (World.init never) ops = some w) :
    ∃ B, ∀ d, B < d →
      (PQuiet w → ∀ root t, ∃ k, ∀ k', k ≤ k' → ∃ w', managerPulse never d k' w root t = some w') ∧
      (GQuiet w → ∀ root now, (w.f root).parent = none →
        ∃ k, ∀ k', k ≤ k' → ∃ res, managerGpt never d k' w root now = some res) := by
  obtain ⟨hi, hv⟩ := inv_v_history_gptfree never d0 k0 ops _ w hg (inv_init never) (v_init never) hreach
  exact sweeps_terminate_reachable never d0 k0 ops w hreach hi hv

/-- non-vacuity: the bound of a small history with a scripted attach, and a concrete reachable state to which the theorems apply -/
example : opsBound [.attach 1 0, .attach 2 1, .script true 2 [.attach 5 1], .setReq 7 3] = 6 := by decide

example : (runOps 1000 8 40 (World.init 1000) [.attach 1 0, .attach 2 1, .setReq 0 50]).isSome = true := by decide +kernel

example (w : World) (h : runOps 1000 8 40 (World.init 1000) [.attach 1 0, .attach 2 1, .setReq 0 50] = some w) :
    FSupp 3 w.f := finite_support_reachable 1000 8 40 _ w h

theorem fuel_irrelevant_partial (never d k k' : Nat) (hk : k ≤ k') :
    (∀ (w r : World) (n now : Nat), pulseAux never d k w n now = some r → pulseAux never d k' w n now = some r) ∧
    (∀ (w : World) (n now mn : Nat) (r : World × Nat),
      gptAux never d k w n now mn = some r → gptAux never d k' w n now mn = some r) :=
  ⟨fun w r n now h => pulse_fuel_mono never d k k' hk w r n now h,
   fun w n now mn r h => gpt_fuel_mono never d k k' hk w n now mn r h⟩

/-! ## Non-vacuity: a two-node history in which the child fires exactly on time -/

def sampleOps : List Op :=
  [.attach 1 0, .setReq 1 50, .gpt 0 10, .pulse 0 49, .pulse 0 50]

example : (runOps 1000 8 40 (World.init 1000) sampleOps).map (·.log) =
    some [.G 0 10 1000 1000, .G 1 10 1000 50, .P 1 50 50] := by decide +kernel

/-- non-vacuity of the repair theorems: node 1 invalidates itself inside its own `GetPulseTime` and is asked again at once;
    invalidating itself twice, it is asked twice in the first sweep and once more in the next cycle -/
example : (runOps 1000 8 40 (World.init 1000)
      [.attach 1 0, .setReq 1 50, .script true 1 [.inval 1 false], .gpt 0 10]).map (·.log) =
    some [.G 0 10 1000 1000, .G 1 10 1000 50, .G 1 10 50 50] := by decide +kernel

example : (runOps 1000 8 40 (World.init 1000)
      [.attach 1 0, .setReq 1 50, .script true 1 [.inval 1 false], .script true 1 [.inval 1 false],
       .gpt 0 10, .pulse 0 10, .gpt 0 10]).map (fun w => (w.log, (w.f 1).valid)) =
    some ([.G 0 10 1000 1000, .G 1 10 1000 50, .G 1 10 50 50, .G 1 10 50 50], true) := by decide +kernel

/-- non-vacuity of the discipline: node 1's `GetPulseTime` invalidates the already recalculated node 2 and changes its request —
    verdict `true`, node 2 is asked again, the sweep reports the new minimum; node 1 invalidating ITSELF — verdict `false` -/
example : ((runOps 1000 8 40 (World.init 1000)
      [.attach 1 0, .attach 2 0, .setReq 1 50, .setReq 2 60, .script true 1 [.inval 2 false, .setReq 2 30]]).bind
      fun w => managerGptC 1000 8 40 w 0 10).map (fun r => (r.2.1, r.2.2, r.1.log)) =
    some (30, true, [.G 0 10 1000 1000, .G 2 10 1000 60, .G 1 10 1000 50, .G 2 10 60 30]) := by decide +kernel

example : ((runOps 1000 8 40 (World.init 1000) [.attach 1 0, .setReq 1 50, .script true 1 [.inval 1 false]]).bind
      fun w => managerGptC 1000 8 40 w 0 10).map (fun r => (r.2.1, r.2.2)) = some (50, false) := by decide +kernel

/-! ## Quiet histories: no hypothesis about the state is left

`QuietOps ops` = every `script` operation of the history queues request-only actions (`setRequest`).  Everything else is allowed, `gpt`
and `pulse` operations included (`applyOp` runs `managerGpt` / `managerPulse` only on a node that is a root at that moment and answers
`notroot` otherwise, so no rootness condition is needed). -/

def QuietOps (ops : List Op) : Prop :=
  ∀ o ∈ ops, ∀ g c acts, o = Op.script g c acts → ∀ a ∈ acts, Act.target a = none

/-- one operation of a quiet history keeps `Inv`, `V` and the quietness of both script queues -/
theorem quiet_step (never d k : Nat) (w w' : World) (r : Res) (o : Op)
    (hQ : Inv never w.f ∧ V w.f ∧ GQuiet w ∧ PQuiet w)
    (ho : ∀ g c acts, o = Op.script g c acts → ∀ a ∈ acts, Act.target a = none)
    (h : applyOp never d k w o = some (w', r)) : Inv never w'.f ∧ V w'.f ∧ GQuiet w' ∧ PQuiet w' := by
  obtain ⟨hi, hv, hg, hp⟩ := hQ
  cases o with
  | gpt root now =>
    simp only [applyOp] at h
    split at h
    · cases h; exact ⟨hi, hv, hg, hp⟩
    · rename_i hnr
      have hroot : (w.f root).parent = none := by
        cases hpp : (w.f root).parent with
        | none => rfl
        | some q => rw [hpp] at hnr; simp at hnr
      simp only [Option.map_eq_some_iff] at h
      obtain ⟨⟨w1, m⟩, hf, he⟩ := h; cases he
      cases k with
      | zero => simp [managerGpt, gptAux] at hf
      | succ k =>
        simp only [managerGpt] at hf
        obtain ⟨hc, hg1⟩ := (gptC_complete never d (k+1)).1 w w1 root now never m [] hg hf
        have hC : managerGptC never d (k+1) w root now = some (w1, m, true) := by simpa [managerGptC] using hc
        refine ⟨(managerGptC_settles never d k w w1 root now m hC hi hroot).1,
          (managerGptC_reasks never d k w w1 root now m hC hi hv hroot).1, hg1, ?_⟩
        intro n acts ha
        rw [(gpt_pq never d (k+1)).1 w w1 root now never m hf] at ha
        exact hp n acts ha
  | pulse root now =>
    have hng : ∀ r n, Op.pulse root now ≠ .gpt r n := fun _ _ e => by cases e
    refine ⟨inv_preserved never d k w w' r _ hng hi h, v_preserved never d k w w' r _ hng hv h, ?_, ?_⟩
    · simp only [applyOp] at h
      split at h
      · cases h; exact hg
      · simp only [Option.map_eq_some_iff] at h
        obtain ⟨w1, hf, he⟩ := h; cases he
        simp only [managerPulse] at hf
        split at hf
        · intro n acts ha
          rw [(pulse_gq never d k).1 w _ root now hf] at ha
          exact hg n acts ha
        · cases hf; exact hg
    · simp only [applyOp] at h
      split at h
      · cases h; exact hp
      · simp only [Option.map_eq_some_iff] at h
        obtain ⟨w1, hf, he⟩ := h; cases he
        simp only [managerPulse] at hf
        split at hf
        · exact ((pulse_keep never d k).1 w _ root now hp hf).1
        · cases hf; exact hp
  | attach c p =>
    have hng : ∀ r n, Op.attach c p ≠ .gpt r n := fun _ _ e => by cases e
    refine ⟨inv_preserved never d k w w' r _ hng hi h, v_preserved never d k w w' r _ hng hv h, ?_, ?_⟩ <;>
    · simp only [applyOp] at h
      split at h
      · cases h; assumption
      · simp only [Option.map_eq_some_iff] at h
        obtain ⟨f', _, he⟩ := h; cases he; assumption
  | detach c =>
    have hng : ∀ r n, Op.detach c ≠ .gpt r n := fun _ _ e => by cases e
    refine ⟨inv_preserved never d k w w' r _ hng hi h, v_preserved never d k w w' r _ hng hv h, ?_, ?_⟩ <;>
    · simp only [applyOp, Option.map_eq_some_iff] at h
      obtain ⟨f', _, he⟩ := h; cases he; assumption
  | inval c clear =>
    have hng : ∀ r n, Op.inval c clear ≠ .gpt r n := fun _ _ e => by cases e
    refine ⟨inv_preserved never d k w w' r _ hng hi h, v_preserved never d k w w' r _ hng hv h, ?_, ?_⟩ <;>
    · simp only [applyOp, Option.map_eq_some_iff] at h
      obtain ⟨f', _, he⟩ := h; cases he; assumption
  | setReq c t =>
    have hng : ∀ r n, Op.setReq c t ≠ .gpt r n := fun _ _ e => by cases e
    refine ⟨inv_preserved never d k w w' r _ hng hi h, v_preserved never d k w w' r _ hng hv h, ?_, ?_⟩ <;>
    · simp only [applyOp] at h; cases h; assumption
  | destroy c =>
    have hng : ∀ r n, Op.destroy c ≠ .gpt r n := fun _ _ e => by cases e
    refine ⟨inv_preserved never d k w w' r _ hng hi h, v_preserved never d k w w' r _ hng hv h, ?_, ?_⟩
    · simp only [applyOp, Option.map_eq_some_iff] at h
      obtain ⟨f', _, he⟩ := h; cases he
      intro n acts ha
      simp only [updF] at ha
      by_cases hn : n = c
      · simp [hn] at ha
      · simp only [hn, if_false] at ha; exact hg n acts ha
    · simp only [applyOp, Option.map_eq_some_iff] at h
      obtain ⟨f', _, he⟩ := h; cases he
      intro n acts ha
      simp only [updF] at ha
      by_cases hn : n = c
      · simp [hn] at ha
      · simp only [hn, if_false] at ha; exact hp n acts ha
  | script g c acts =>
    have hng : ∀ r n, Op.script g c acts ≠ .gpt r n := fun _ _ e => by cases e
    have hq := ho g c acts rfl
    refine ⟨inv_preserved never d k w w' r _ hng hi h, v_preserved never d k w w' r _ hng hv h, ?_, ?_⟩
    · cases g
      · simp only [applyOp] at h; cases h; exact hg
      · simp only [applyOp] at h; cases h
        intro n l hl
        simp only [updF] at hl
        by_cases hn : n = c
        · subst hn
          simp only [if_true] at hl
          rcases List.mem_append.mp hl with hl | hl
          · exact hg n l hl
          · have : l = acts := by simpa using hl
            subst this; exact hq
        · simp only [hn, if_false] at hl; exact hg n l hl
    · cases g
      · simp only [applyOp] at h; cases h
        intro n l hl
        simp only [updF] at hl
        by_cases hn : n = c
        · subst hn
          simp only [if_true] at hl
          rcases List.mem_append.mp hl with hl | hl
          · exact hp n l hl
          · have : l = acts := by simpa using hl
            subst this; exact hq
        · simp only [hn, if_false] at hl; exact hp n l hl
      · simp only [applyOp] at h; cases h; exact hp

theorem inv_v_history_quiet_from (never d k : Nat) : ∀ (ops : List Op) (w w' : World), QuietOps ops →
    (Inv never w.f ∧ V w.f ∧ GQuiet w ∧ PQuiet w) → runOps never d k w ops = some w' →
    Inv never w'.f ∧ V w'.f ∧ GQuiet w' ∧ PQuiet w' := by
  intro ops
  induction ops with
  | nil => intro w w' _ hQ h; simp [runOps] at h; subst h; exact hQ
  | cons o r ih =>
    intro w w' hq hQ h
    simp only [runOps] at h
    split at h
    · rename_i w1 r1 h1
      exact ih w1 w' (fun o' ho' => hq o' (List.mem_cons_of_mem _ ho'))
        (quiet_step never d k w w1 r1 o hQ (hq o (by simp)) h1) h
    · cases h

/-- every state reached from the initial state by a quiet history — `gpt` and `pulse` operations INCLUDED — satisfies the tree invariant
    and the flagging invariant, and both script queues are quiet -/
theorem inv_v_history_quiet (never d k : Nat) (ops : List Op) (w : World) (hq : QuietOps ops)
    (h : runOps never d k (World.init never) ops = some w) :
    Inv never w.f ∧ V w.f ∧ GQuiet w ∧ PQuiet w :=
  inv_v_history_quiet_from never d k ops _ w hq
    ⟨inv_init never, v_init never, fun n acts ha => by simp [World.init] at ha, fun n acts ha => by simp [World.init] at ha⟩ h

/-- after ANY quiet history every recalculation sweep from a root reports the exact minimum of the requested times of the attached nodes
    (`never` if none): no hypothesis about the state is left -/
theorem wakeup_is_min_quiet_history (never d k k2 : Nat) (ops : List Op) (w w' : World) (root now m : Nat)
    (hq : QuietOps ops) (hreach : runOps never d k (World.init never) ops = some w)
    (h : managerGpt never d (k2+1) w root now = some (w', m)) (hroot : (w.f root).parent = none) :
    (∀ n, Desc w'.f root n → m ≤ (w'.f n).myTime) ∧
    (m = never ∨ ∃ n, Desc w'.f root n ∧ (w'.f n).myTime = m) := by
  obtain ⟨hi, hv, hg, _⟩ := inv_v_history_quiet never d k ops w hq hreach
  exact wakeup_is_min_reachable never d k k2 ops w w' root now m hreach h hi hv hg hroot

/-- after ANY quiet history both sweeps terminate: there is a `B` such that for every `d > B` the pulse sweep on any node and the
    recalculation sweep from any root complete with all sufficiently large fuels `k` -/
theorem sweeps_terminate_quiet_history (never d0 k0 : Nat) (ops : List Op) (w : World)
    (hq : QuietOps ops) (hreach : runOps never d0 k0 (World.init never) ops = some w) :
    ∃ B, ∀ d, B < d →
      (∀ root t, ∃ k, ∀ k', k ≤ k' → ∃ w', managerPulse never d k' w root t = some w') ∧
      (∀ root now, (w.f root).parent = none →
        ∃ k, ∀ k', k ≤ k' → ∃ res, managerGpt never d k' w root now = some res) := by
  obtain ⟨hi, hv, hg, hp⟩ := inv_v_history_quiet never d0 k0 ops w hq hreach
  obtain ⟨B, hB⟩ := sweeps_terminate_reachable never d0 k0 ops w hreach hi hv
  exact ⟨B, fun d hd => ⟨(hB d hd).1 hp, (hB d hd).2 hg⟩⟩

/-- non-vacuity: a quiet history with two `gpt` operations and a `pulse` in between; it is quiet, it reaches a state, and in that state
    the theorems above apply -/
def quietSample : List Op :=
  [.attach 1 0, .attach 2 1, .setReq 0 50, .setReq 1 40, .setReq 2 30, .script false 2 [.setReq 2 90],
   .gpt 0 10, .pulse 0 35, .gpt 0 35]

example : QuietOps quietSample := by
  intro o ho g c acts he a ha
  subst he
  simp [quietSample] at ho
  obtain ⟨_, _, rfl⟩ := ho
  simp at ha
  subst ha
  rfl

example : (runOps 1000 8 40 (World.init 1000) quietSample).map (·.log) =
    some [.G 0 10 1000 50, .G 1 10 1000 40, .G 2 10 1000 30, .P 2 35 30, .G 2 35 30 90] := by decide +kernel

/-- EXPLICIT FUEL after any quiet history.  With `M := opsBound ops` (1 + the largest id an `attach` of the history mentions) there is a
    height function with values `≤ M` (rank compression, `heightLe_explicit`: bound `B = M + 1`) and every child list has at most `M`
    members, so for EVERY `d > M + 1` and EVERY `k ≥ (M + 1) * (M + 2)` the pulse sweep on any node and the recalculation sweep from any
    root complete.  (The engine uses node ids `< 16`, so `M ≤ 16`: `d > 17` and `k ≥ 17 · 18 = 306` suffice, against the engine's
    `d = 64`, `k = 100000`.) -/
theorem sweeps_terminate_quiet_history_explicit (never d0 k0 d k : Nat) (ops : List Op) (w : World)
    (hq : QuietOps ops) (hreach : runOps never d0 k0 (World.init never) ops = some w)
    (hd : opsBound ops + 1 < d) (hk : (opsBound ops + 1) * (opsBound ops + 2) ≤ k) :
    (∀ root t, ∃ w', managerPulse never d k w root t = some w') ∧
    (∀ root now, (w.f root).parent = none → ∃ res, managerGpt never d k w root now = some res) := by
  obtain ⟨hi, hv, hg, hp⟩ := inv_v_history_quiet never d0 k0 ops w hq hreach
  have h := sweeps_terminate_explicit never (opsBound ops) d k w (finite_support_reachable never d0 k0 ops w hreach) hi hv
    (finite_height_reachable never d0 k0 ops w hreach) hd hk
  exact ⟨h.1 hp, h.2 hg⟩

theorem quietSample_quiet : QuietOps quietSample := by
  intro o ho g c acts he a ha
  subst he
  simp [quietSample] at ho
  obtain ⟨_, _, rfl⟩ := ho
  simp at ha
  subst ha
  rfl

/-- non-vacuity: `opsBound quietSample = 3`, so `d = 5` and `k = 20` suffice in the state `quietSample` reaches -/
example : opsBound quietSample = 3 := by decide

example (w : World) (h : runOps 1000 8 40 (World.init 1000) quietSample = some w) :
    (∀ root t, ∃ w', managerPulse 1000 5 20 w root t = some w') ∧
    (∀ root now, (w.f root).parent = none → ∃ res, managerGpt 1000 5 20 w root now = some res) :=
  sweeps_terminate_quiet_history_explicit 1000 8 40 5 20 quietSample w quietSample_quiet h (by decide) (by decide)

/-- THE HEADLINE OF C20 WITH NO HYPOTHESIS ABOUT THE STATE.  After ANY quiet history (`QuietOps`: `script` operations queue request-only
    actions; `gpt` and `pulse` operations included), a recalculation sweep from a root followed by a pulse sweep at `t < never` fires the
    due nodes: (1) every node below the root whose request stands and is `≤ t` after the recalculation gets a `Pulse(t, ·)` entry
    (completeness); (2) every entry of the pulse sweep is a `Pulse` at `t` with a scheduled time `≤ t`, of a node that has no standing
    request afterwards (never early; not twice on one request).  This is exactly the conjunction `fires_iff_due` gives; that the scheduled
    time of each entry is the node's latest answer is `fires_with_asked_time` (every history), and "exactly once" is (1) + "no standing
    request afterwards" (a second `Pulse` needs a standing request, `never_early`/`fired_loses_request`), not a separate counting
    statement. -/
theorem fires_iff_due_quiet_history (never d0 k0 d k k2 : Nat) (ops : List Op) (w w1 w2 : World) (root now t m : Nat)
    (hq : QuietOps ops) (hreach : runOps never d0 k0 (World.init never) ops = some w)
    (hroot : (w.f root).parent = none) (ht : t < never)
    (hg : managerGpt never d (k+1) w root now = some (w1, m))
    (hp : managerPulse never d k2 w1 root t = some w2) :
    ∃ l, w2.log = w1.log ++ l ∧
      (∀ x, Desc w1.f root x → (w1.f x).valid = true → (w1.f x).myTime ≤ t → ∃ s, Event.P x t s ∈ l) ∧
      (∀ e ∈ l, ∃ id s, e = .P id t s ∧ s ≤ t ∧ (w2.f id).valid = false) := by
  obtain ⟨hi, _, hgq, hpq⟩ := inv_v_history_quiet never d0 k0 ops w hq hreach
  have hg' := hg
  simp only [managerGpt] at hg'
  obtain ⟨hc, _⟩ := (gptC_complete never d (k+1)).1 w w1 root now never m [] hgq hg'
  have hC : managerGptC never d (k+1) w root now = some (w1, m, true) := by simpa [managerGptC] using hc
  have hpq1 : PQuiet w1 := by
    intro n acts ha
    rw [(gpt_pq never d (k+1)).1 w w1 root now never m hg'] at ha
    exact hpq n acts ha
  exact fires_iff_due never d k k2 w w1 w2 root now t m ht hi hroot hC hpq1 hp

/-- non-vacuity: after `quietSample` (which ends with `gpt 0 35`) node 2 requests 90; sweep again at 40, pulse at 95: exactly nodes 1 (40),
    0 (50) and 2 (90) fire -/
example : ((runOps 1000 8 40 (World.init 1000) quietSample).bind fun w =>
      (managerGpt 1000 8 40 w 0 40).bind fun r => managerPulse 1000 8 40 r.1 0 95).map (·.log.drop 5) =
    some [.P 0 95 50, .P 1 95 40, .P 2 95 90] := by decide +kernel

/-! ### necessity witnesses for the disciplines of the statements that are still partial or conditional -/

/-- `fires_iff_due` needs a discipline on `Pulse` callbacks: nodes 1 and 2 are both due at 50; undisturbed, both fire; when node 2's
    `Pulse` invalidates its due sibling 1 before 1's turn, node 1 legitimately does not fire in this sweep -/
example : (runOps 1000 8 40 (World.init 1000)
      [.attach 1 0, .attach 2 0, .setReq 1 50, .setReq 2 50, .gpt 0 10, .pulse 0 50]).map (·.log) =
    some [.G 0 10 1000 1000, .G 2 10 1000 50, .G 1 10 1000 50, .P 2 50 50, .P 1 50 50] := by decide +kernel

example : (runOps 1000 8 40 (World.init 1000)
      [.attach 1 0, .attach 2 0, .setReq 1 50, .setReq 2 50, .gpt 0 10, .script false 2 [.inval 1 false], .pulse 0 50]).map (·.log) =
    some [.G 0 10 1000 1000, .G 2 10 1000 50, .G 1 10 1000 50, .P 2 50 50] := by decide +kernel

/-- `wakeup_is_min` exactness needs more than the sweep discipline: node 2 answers 30; node 1's `GetPulseTime` then invalidates the
    already recalculated node 2 and raises its request to 60 (verdict `true`: node 2 is not in progress); the sweep ends settled with
    root aggregate 50 = the true minimum, but reports the superseded 30 -/
example : ((runOps 1000 8 40 (World.init 1000)
      [.attach 1 0, .attach 2 0, .setReq 1 50, .setReq 2 30, .script true 1 [.inval 2 false, .setReq 2 60]]).bind
      fun w => managerGptC 1000 8 40 w 0 10).map (fun r => (r.2.1, r.2.2, (r.1.f 0).agg, (r.1.f 1).myTime, (r.1.f 2).myTime)) =
    some (30, true, 50, 50, 60) := by decide +kernel

/-- `all_asked_after_sweep` needs its discipline: a node that invalidates itself in both passes ends the sweep without a standing
    request (verdict `false`; the repaired code reports wake-up time 0 so that the event loop comes back at once) -/
example : ((runOps 1000 8 40 (World.init 1000)
      [.attach 1 0, .setReq 1 50, .script true 1 [.inval 1 false], .script true 1 [.inval 1 false]]).bind
      fun w => managerGptC 1000 8 40 w 0 10).map (fun r => (r.2.1, r.2.2, (r.1.f 1).valid)) =
    some (0, false, false) := by decide +kernel

end Muscle.Props.C20
