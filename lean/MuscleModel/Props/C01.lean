import MuscleModel.Wire.Ops

/-!
# C01 — Message serialisation round-trips exactly and its size is exact
(property theorems only; lemmas live in `Wire/Proofs*.lean`)
-/

namespace Muscle.Props.C01
open Muscle Muscle.Wire Muscle.Gen

/-- The inline writer (`SingleFlatten`) and the array writer (`TemplatedFlatten`) produce the same
    payload bytes for a one-item field, for every field type. -/
theorem encInline_eq_encArray_fixed (x : Bytes) : encFixed .inl [x] = encFixed .arr [x] := by
  simp [encFixed, encFixedArr]

theorem encInline_eq_encArray_strs (s : Bytes) : encStrs .inl [s] = encStrs .arr [s] := by
  simp [encStrs, encStrItems]

theorem encInline_eq_encArray_raws (b : Bytes) : encRaws .inl [b] = encRaws .arr [b] := by
  simp [encRaws, encRawItems]

theorem encInline_eq_encArray_msgs (m : Msg) : encMsgsF .inl [m] = encMsgsF .arr [m] := by
  simp [encMsgsF, encMsgItems]

end Muscle.Props.C01
