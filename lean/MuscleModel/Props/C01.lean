import MuscleModel.Wire.Proofs2
import MuscleModel.Wire.MoreProofs
import MuscleModel.Wire.ChecksumProofs
import MuscleModel.Wire.EqProofs

/-!
# C01 — Message serialisation round-trips exactly and its size is exact

Property theorems only (lemmas: `Wire/Proofs.lean`, `Wire/Proofs2.lean`).
`encode`/`decode`/`sizeMsg` mirror `Message::Flatten/Unflatten/FlattenedSize`; the tie to the C++
code is the correspondence run of engine `msg`.

`tripMsg m` is `canon (flatPart m)`: the Message without its non-flattenable (pointer/tag) fields and
with the inline/array representation tag reset to what the parser chooses.  By definition it keeps
the what-code, the field order, names, type codes, item counts and every item's bytes at every
nesting level.  `wfMsg` = constructible through the public API with all sizes below 2^32;
`depthMsg m ≤ mx` = nesting within `MUSCLE_MAX_MESSAGE_NESTING_DEPTH` (a parameter: the theorems hold
for every value of the limit).
-/

set_option linter.unusedSimpArgs false

namespace Muscle.Props.C01
open Muscle Muscle.Wire Muscle.Gen

/-- The inline writer (`SingleFlatten`) and the array writer (`TemplatedFlatten`) produce the same
    payload bytes for a one-item field, for every field type. -/
theorem encInline_eq_encArray_fixed (x : Bytes) : encFixed .inl [x] = encFixed .arr [x] := by
  simp [encFixed, encFixedArr]

theorem encInline_eq_encArray_strs (s : Bytes) : encStrs .inl [s] = encStrs .arr [s] := by
  simp [encStrs, encStrItems]

theorem encInline_eq_encArray_raws (b : Bytes) : encRaws .inl [b] = encRaws .arr [b] := by
  simp [encRaws, encRawItems]

theorem encInline_eq_encArray_msgs (m : Msg) : encMsgsF .inl [m] = encMsgsF .arr [m] := by
  simp [encMsgsF, encMsgItems]

/-- Parsing the serialised bytes yields the original Message (minus non-flattenable fields), for every
    well-formed Message and every value `mx` of the nesting limit that admits it. -/
theorem decode_encode (mx : Nat) (m : Msg) (h : wfMsg m) (hd : depthMsg m ≤ mx) :
    decode mx (encode m) = some (tripMsg m) := by
  have hn := nodes_msg m h
  have := decMsg_enc mx m h ((encode m).length + 2) 1 [] (by simp only [encode]; omega) (by omega)
  simp only [List.append_nil, encode] at this
  simp only [decode, encode, this]

/-- …and trailing bytes after a complete encoding do not change the result (streams, sub-buffers). -/
theorem decode_encode_append (mx : Nat) (m : Msg) (rest : Bytes) (h : wfMsg m) (hd : depthMsg m ≤ mx) :
    decode mx (encode m ++ rest) = some (tripMsg m) := by
  have hn := nodes_msg m h
  have := decMsg_enc mx m h ((encode m ++ rest).length + 2) 1 rest
    (by simp only [encode, List.length_append]; omega) (by omega)
  simp only [encode] at this
  simp only [decode, encode, this]

/-- Serialising the parsed Message reproduces the original bytes exactly. -/
theorem reencode (m : Msg) (h : wfMsg m) : encode (tripMsg m) = encode m :=
  reenc_msg m h

/-- The advertised flattened size equals the number of bytes written. -/
theorem size_exact (m : Msg) (h : wfMsg m) : (encode m).length = sizeMsg m :=
  size_msg m h

/-- Field order is preserved: the parsed Message lists exactly the flattenable fields, in order. -/
theorem order_preserved (fs : List (Bytes × Field)) : (tripFields fs).map (·.1) = flatNames fs := by
  induction fs with
  | nil => simp [tripFields, flatNames]
  | cons a r ih =>
    obtain ⟨n, f⟩ := a
    cases f <;> simp [tripFields, flatNames, ih]

/-! Non-vacuity: a concrete Message with an inline int32, a two-item string array, a nested
Message and a pointer field satisfies the hypotheses, and the statement computes. -/

def sample : Msg :=
  .mk 42 [ ([0x61], .fixed tcInt32 .inl [[1, 0, 0, 0]]),
           ([0x62], .strs .arr [[0x68, 0x69], []]),
           ([0x70], .opaque tcPointer 1),
           ([0x63], .msgs .inl [.mk 7 [([0x64], .fixed tcBool .arr [[1]])]]) ]

example : wfMsg sample ∧ depthMsg sample ≤ 256 := by
  refine ⟨?_, ?_⟩
  · simp [sample, wfMsg, wfFields, wfMsgs, countFlat, nulFree, flatNames, U32, wireItemSize, tcInt32, tcBool,
      tcDouble, tcFloat, tcInt64, tcInt16, tcInt8, tcPoint, tcRect, normBool, encStrs, encStrItems, encMsgItems,
      encMsg, encFields, encFixed, encFixedArr, le32, leN, protocolVersion]
  · simp [sample, depthMsg, depthFields, depthMsgs]

/-! ## Further consequences: injectivity, exact consumption, truncation, additive size

Lemmas: `Wire/MoreProofs.lean`. -/

/-- The bytes determine the content (same statement as `C08.encode_injective`, available here without
    the C08 imports): equal encodings of well-formed Messages mean equal Messages up to what a round
    trip may change. -/
theorem encode_injective_c01 (m₁ m₂ : Msg) (h₁ : wfMsg m₁) (h₂ : wfMsg m₂) (h : encode m₁ = encode m₂) :
    tripMsg m₁ = tripMsg m₂ := by
  have d1 := decode_encode (max (depthMsg m₁) (depthMsg m₂)) m₁ h₁ (Nat.le_max_left _ _)
  have d2 := decode_encode (max (depthMsg m₁) (depthMsg m₂)) m₂ h₂ (Nat.le_max_right _ _)
  rw [h] at d1
  exact Option.some.inj (d1.symm.trans d2)

/-- The stream reader (`decMsg`, which returns the unread rest) applied to `encode m ++ rest` consumes
    exactly `sizeMsg m` bytes: it yields the Message, leaves exactly `rest`, and the consumed prefix
    `encode m` is `sizeMsg m` bytes long.  Any fuel ≥ the encoded length will do (`decode` supplies
    input length + 2). -/
theorem decode_consumes_exactly (mx : Nat) (m : Msg) (rest : Bytes) (h : wfMsg m) (hd : depthMsg m ≤ mx)
    (fuel : Nat) (hf : (encode m).length ≤ fuel) :
    decMsg mx fuel 1 (encode m ++ rest) = some (tripMsg m, rest) ∧
    (encode m).length = sizeMsg m ∧
    (encode m ++ rest).length = sizeMsg m + rest.length := by
  have hn := nodes_msg m h
  have hs := size_msg m h
  refine ⟨?_, hs, ?_⟩
  · exact decMsg_enc mx m h fuel 1 rest (by simp only [encode] at hf; omega) (by omega)
  · simp only [encode, List.length_append, hs]

/-- For ARBITRARY input bytes: whatever the parser accepts has a flattened size no larger than the
    input.  (No well-formedness hypothesis: this is about the reader alone.) -/
theorem decode_result_le_input (mx : Nat) (b : Bytes) (m' : Msg) (h : decode mx b = some m') :
    sizeMsg m' ≤ b.length := by
  unfold decode at h
  cases hd : decMsg mx (b.length + 2) 1 b with
  | none => rw [hd] at h; cases h
  | some v =>
    obtain ⟨m'', r⟩ := v
    rw [hd] at h
    cases h
    have := decMsg_size mx _ _ _ _ _ hd
    omega

/-- Truncation, strongest true form for *every* cut point: whatever the parser makes of a strict prefix
    of `encode m`, the result is strictly smaller (in flattened size) than `m`.  The parser is lenient
    — `decode_strict_prefix_none_is_false` below shows a cut exactly where the last payload starts IS
    accepted, as a Message with an empty field — so "always `none`" is false; but it never reconstructs
    the original, or anything as large, from fewer bytes. -/
theorem decode_strict_prefix_smaller (mx : Nat) (m : Msg) (k : Nat) (h : wfMsg m)
    (hk : k < (encode m).length) (m' : Msg) (hdec : decode mx ((encode m).take k) = some m') :
    sizeMsg m' < sizeMsg m := by
  have h1 := decode_result_le_input mx _ m' hdec
  have h2 := size_exact m h
  simp only [List.length_take] at h1
  omega

/-- A truncated buffer is never accepted as the complete Message: for every `k` below the encoded
    length, parsing the first `k` bytes does not yield `m` (i.e. not what parsing all bytes yields). -/
theorem decode_strict_prefix_fails (mx : Nat) (m : Msg) (k : Nat) (h : wfMsg m)
    (hk : k < (encode m).length) : decode mx ((encode m).take k) ≠ some (tripMsg m) := by
  intro hdec
  have := decode_strict_prefix_smaller mx m k h hk _ hdec
  rw [sizeMsg_trip m h] at this
  omega

/-- Same, phrased against the full parse: a strict prefix never parses to the same result as the
    whole encoding. -/
theorem decode_strict_prefix_differs (mx : Nat) (m : Msg) (k : Nat) (h : wfMsg m) (hd : depthMsg m ≤ mx)
    (hk : k < (encode m).length) : decode mx ((encode m).take k) ≠ decode mx (encode m) := by
  rw [decode_encode mx m h hd]
  exact decode_strict_prefix_fails mx m k h hk

/-- …and a cut inside the 12-byte header, or anywhere before `12 + 12 × (number of flattenable entries)`
    bytes, IS always rejected (header reads fail; then the parser's plausibility check "every declared
    entry needs at least 12 bytes of what is left" fails). -/
theorem decode_truncated_head_fails (mx : Nat) (m : Msg) (k : Nat) (h : wfMsg m)
    (hk : k < 12 + 12 * countFlat m.fields) : decode mx ((encode m).take k) = none := by
  cases m with
  | mk w fs =>
    simp only [wfMsg] at h
    simp only [Msg.fields] at hk
    simp only [decode, encode, decMsg_take_head mx _ 1 w fs k h.1 h.2.1 hk]

/-- `Message::FlattenedSize` is additive: 12 header bytes plus, per entry, `sizeEntry` (name length
    word, name + NUL, type code, payload length word, payload; 0 for a pointer/tag field). -/
theorem size_additive (m : Msg) :
    sizeMsg m = 12 + (m.fields.map (fun e => sizeEntry e.1 e.2)).sum := by
  cases m with
  | mk w fs => simp only [sizeMsg, Msg.fields, sizeFields_eq_sum]

theorem size_entry_flattenable (n : Bytes) (f : Field) (h : f.flattenable = true) :
    sizeEntry n f = 4 + (n.length + 1) + 4 + 4 + sizePayload f := by
  simp [sizeEntry, h]

/-! Non-vacuity for the truncation theorems: `sample` (nested, 105 bytes) satisfies the hypotheses for
every cut point; and the counter-example showing why the conclusion is not "`= none`". -/

theorem sample_wf : wfMsg sample := by
  simp [sample, wfMsg, wfFields, wfMsgs, countFlat, nulFree, flatNames, U32, wireItemSize, tcInt32, tcBool,
    tcDouble, tcFloat, tcInt64, tcInt16, tcInt8, tcPoint, tcRect, normBool, encStrs, encStrItems, encMsgItems,
    encMsg, encFields, encFixed, encFixedArr, le32, leN, protocolVersion]

theorem sample_length : (encode sample).length = 105 := by
  rw [size_exact sample sample_wf]
  simp [sample, sizeMsg, sizeFields, sizeFixed, sizeStrs, sizeMsgsF, sumLen, wireItemSize, tcInt32, tcBool,
    tcDouble, tcFloat, tcInt64, tcInt16, tcInt8, tcPoint, tcRect]

example : ∀ k, k < 105 → decode 256 ((encode sample).take k) ≠ some (tripMsg sample) :=
  fun k hk => decode_strict_prefix_fails 256 sample k sample_wf (by rw [sample_length]; exact hk)

example : ∀ k, k < 48 → decode 256 ((encode sample).take k) = none :=
  fun k hk => decode_truncated_head_fails 256 sample k sample_wf (by simp [sample, Msg.fields, countFlat]; omega)

/-- one inline int32 field `a = 1`; 30 bytes, the last 4 are the payload -/
def truncSample : Msg := .mk 1 [([0x61], .fixed tcInt32 .inl [[1, 0, 0, 0]])]

theorem truncSample_take :
    (encode truncSample).take 26 =
      [48, 48, 77, 80, 1, 0, 0, 0, 1, 0, 0, 0, 2, 0, 0, 0, 97, 0, 71, 78, 79, 76, 4, 0, 0, 0] := by
  simp [truncSample, encode, encMsg, encFields, encFixed, countFlat, le32, leN, protocolVersion, tcInt32]

/-- Counter-example to "a truncated Message is always rejected": cutting `truncSample` (30 bytes) after
    26 bytes — header and field header intact, payload gone — is ACCEPTED by the parser, as a Message
    whose field `a` is an empty int32 array (the limited view is empty, `0 % 4 = 0`, zero items). -/
theorem decode_strict_prefix_none_is_false :
    (26 < (encode truncSample).length) ∧
    decode 256 ((encode truncSample).take 26) = some (.mk 1 [([0x61], .fixed tcInt32 .arr [])]) := by
  refine ⟨?_, ?_⟩
  · simp [truncSample, encode, encMsg, encFields, encFixed, countFlat, le32, leN, protocolVersion, tcInt32]
  · rw [truncSample_take]
    simp [decode, decMsg, decFields, decPayload, decFixed, chunks, rd32, rdN, takeN, leVal, cstr, lookupField,
      upsertField, wireItemSize, oldestProtocolVersion, protocolVersion,
      tcMessage, tcBool, tcDouble, tcFloat, tcInt64, tcInt32, tcInt16, tcInt8, tcPoint, tcRect, tcPointer, tcTag]

/-! ## The content checksum (`Message::CalculateChecksum(false)`) is unchanged by the trip

`checksumMsg` (`Wire/Checksum.lean`) is transcribed from the C++ and compared with it op by op (`cksum` of
engine `msg`).  Lemmas: `Wire/ChecksumProofs.lean`. -/

/-- The parse of the serialisation has the same checksum as the original: dropping the non-flattenable
    fields (never counted) and resetting the representation tag do not change it, at any nesting level. -/
theorem checksum_trip (m : Msg) (h : wfMsg m) : checksumMsg (tripMsg m) = checksumMsg m :=
  checksumMsg_trip m h

/-- …stated on the parser: whatever `decode` makes of `encode m` (followed by anything) has `m`'s checksum. -/
theorem checksum_decode_encode (mx : Nat) (m : Msg) (rest : Bytes) (h : wfMsg m) (hd : depthMsg m ≤ mx) :
    (decode mx (encode m ++ rest)).map checksumMsg = some (checksumMsg m) := by
  rw [decode_encode_append mx m rest h hd]
  simp [checksum_trip m h]

/-- A one-item field has the same checksum in the inline representation (`SingleCalculateChecksum`:
    type code + 1 + item) and in the array representation (the `*DataArray` classes: type code + count +
    Σ (i+1)·item), for every field type. -/
theorem checksum_rep_independent (tc : Nat) (x : Bytes) (m : Msg) :
    checksumField (.fixed tc .inl [x]) = checksumField (.fixed tc .arr [x]) ∧
    checksumField (.strs .inl [x]) = checksumField (.strs .arr [x]) ∧
    checksumField (.raws tc .inl [x]) = checksumField (.raws tc .arr [x]) ∧
    checksumField (.msgs .inl [m]) = checksumField (.msgs .arr [m]) := by
  simp [checksumField, chkMsgList, chkItems_inl_eq_arr]

/-- …hence the representation tag of any field built through the API (inline only with exactly one item) is
    irrelevant to the Message checksum. -/
theorem checksum_rep_independent_items (tc : Nat) (rp : Rep) (cs : List Nat) (h : rp = .inl → cs.length = 1) :
    chkItems tc rp cs = chkItems tc .arr cs := by
  rw [chkItems_eq_arr tc rp cs h, chkItems_eq_arr tc .arr cs (by intro e; cases e)]

/-- The checksum ignores the order of the fields ("deliberately NOT considering the ordering of the
    fields", `Message::CalculateChecksum`): any permutation of the entry list gives the same value. -/
theorem checksum_order_independent (w : Nat) (fs₁ fs₂ : List (Bytes × Field)) (h : fs₁.Perm fs₂) :
    checksumMsg (.mk w fs₁) = checksumMsg (.mk w fs₂) := by
  simp only [checksumMsg, chkFields_perm h]

/-- The Message checksum is the what-code plus one `entryChk` per entry (0 for pointer/tag fields), mod 2^32. -/
theorem checksum_additive (m : Msg) :
    checksumMsg m = (m.what + (m.fields.map (fun e => entryChk e.1 e.2)).sum) % 4294967296 := by
  cases m with
  | mk w fs => simp only [checksumMsg, Msg.what, Msg.fields, chkFields_eq_sum, M32]

/-! Non-vacuity: the checksum of `sample` computes to the value the C++ prints for the same Message, the trip
keeps it (the pointer field does not count, the one-item bool array becomes inline), and reversing the
field list keeps it. -/

example : checksumMsg sample = 2048938212 := by decide

example : checksumMsg (tripMsg sample) = 2048938212 := by rw [checksum_trip sample sample_wf]; decide

example : tripMsg sample ≠ sample ∧ checksumMsg (.mk 42 sample.fields.reverse) = checksumMsg sample :=
  ⟨by simp [sample, tripMsg, tripFields], checksum_order_independent 42 _ _ (List.reverse_perm _)⟩

/-! ## Equality (`Message::operator==`) is unchanged by the trip

`msgEq` (`Wire/Ops.lean`) models `operator==`: `what == rhs.what && GetNumNames() == rhs.GetNumNames() &&
FieldsAreSubsetOf(rhs, true)`, with `MessageField::IsEqualTo` comparing type code, item count and items (IEEE
`==` on float/double/point/rect items, whatever the inline/array representation of the two sides).  Lemmas:
`Wire/EqProofs.lean`.

Non-flattenable (pointer/tag) fields: `GetNumNames()` counts EVERY entry, pointer and tag fields included, and
`FieldsAreSubsetOf` looks every one of this Message's entries up in the other.  `Flatten` skips those fields, so
the parsed Message has fewer names than the original and `==` is false in both directions (first counter-example
below: `sample`, which holds a pointer field).  The theorems are therefore stated for Messages without
non-flattenable fields at any nesting level (`hasOpaque m = false`); no other hypothesis is needed for the
congruence — not even well-formedness. -/

/-- Replacing the left operand by its parse does not change the comparison, against any Message. -/
theorem eq_trip_left (a b : Msg) (ha : hasOpaque a = false) : msgEq (tripMsg a) b = msgEq a b :=
  msgEq_trip_left a ha b

/-- Replacing the right operand by its parse does not change the comparison, against any Message. -/
theorem eq_trip_right (a b : Msg) (hb : hasOpaque b = false) : msgEq a (tripMsg b) = msgEq a b :=
  msgEq_trip_right b hb a

/-- The parsed Message compares equal to the original, in both directions, whenever the original compares
    equal to itself (i.e. holds no NaN: `msgEq_refl_of_nanfree`). -/
theorem eq_trip (m : Msg) (ho : hasOpaque m = false) (hs : msgEq m m = true) :
    msgEq (tripMsg m) m = true ∧ msgEq m (tripMsg m) = true := by
  rw [eq_trip_left m m ho, eq_trip_right m m ho]; exact ⟨hs, hs⟩

/-- …stated on the parser. -/
theorem eq_decode_encode (mx : Nat) (m : Msg) (rest : Bytes) (h : wfMsg m) (hd : depthMsg m ≤ mx)
    (ho : hasOpaque m = false) (hs : msgEq m m = true) :
    ∃ m', decode mx (encode m ++ rest) = some m' ∧ msgEq m' m = true ∧ msgEq m m' = true :=
  ⟨tripMsg m, decode_encode_append mx m rest h hd, eq_trip m ho hs⟩

/-- "Equality is unchanged by the trip": two Messages compare the same before and after both went through
    serialisation and parsing (no self-equality hypothesis needed: NaN-holding Messages stay unequal). -/
theorem eq_trip_iff (a b : Msg) (ha : hasOpaque a = false) (hb : hasOpaque b = false) :
    msgEq (tripMsg a) (tripMsg b) = msgEq a b := by
  rw [eq_trip_left a (tripMsg b) ha, eq_trip_right a b hb]

/-- Self-equality characterised: a well-formed Message (without pointer/tag fields) compares equal to itself
    iff no float, double, point or rect item at any nesting level is a NaN bit pattern. -/
theorem msgEq_refl_of_nanfree (m : Msg) (hw : wfMsg m) (ho : hasOpaque m = false) :
    msgEq m m = true ↔ nanFreeMsg m = true := by
  rw [msgEq_self m hw ho]

/-- A one-item field compares the same in the inline and in the array representation (`IsEqualTo` handles the
    mixed cases explicitly; the model's `fieldEq` never looks at the tag): equal iff the item is equal to itself. -/
theorem eq_rep_independent (tc : Nat) (x : Bytes) (m : Msg) :
    fieldEq (.fixed tc .inl [x]) (.fixed tc .arr [x]) = itemNanFree tc x ∧
    fieldEq (.strs .inl [x]) (.strs .arr [x]) = true ∧
    fieldEq (.raws tc .inl [x]) (.raws tc .arr [x]) = true ∧
    fieldEq (.msgs .inl [m]) (.msgs .arr [m]) = msgEq m m := by
  simp [fieldEq, listEqBy, msgsEq, itemEq_self]

/-- …and in general the representation tags of the two sides are irrelevant to the comparison. -/
theorem eq_rep_irrelevant (tc tc' : Nat) (r r' s s' : Rep) (xs ys : List Bytes) (ms ns : List Msg) :
    fieldEq (.fixed tc r xs) (.fixed tc' r' ys) = fieldEq (.fixed tc s xs) (.fixed tc' s' ys) ∧
    fieldEq (.strs r xs) (.strs r' ys) = fieldEq (.strs s xs) (.strs s' ys) ∧
    fieldEq (.raws tc r xs) (.raws tc' r' ys) = fieldEq (.raws tc s xs) (.raws tc' s' ys) ∧
    fieldEq (.msgs r ms) (.msgs r' ns) = fieldEq (.msgs s ms) (.msgs s' ns) := by
  simp [fieldEq]

/-- The comparison of a Message with its parse is the same in both directions (both are `msgEq m m`). -/
theorem eq_trip_symm (m : Msg) (ho : hasOpaque m = false) : msgEq (tripMsg m) m = msgEq m (tripMsg m) := by
  rw [eq_trip_left m m ho, eq_trip_right m m ho]

/-! Non-vacuity and counter-examples. -/

/-- Counter-example for Messages WITH a non-flattenable field: `sample` holds a pointer field, its parse does
    not, `GetNumNames()` differs (4 vs 3) and `==` is false in both directions. -/
example : hasOpaque sample = true ∧ msgEq sample sample = true ∧
    msgEq (tripMsg sample) sample = false ∧ msgEq sample (tripMsg sample) = false := by
  refine ⟨by decide, ?_⟩
  simp [sample, tripMsg, tripFields, tripMsgs, repOf, msgEq, fieldsSubset, lookupField, fieldEq, listEqBy, itemEq,
    msgsEq, tcInt32, tcBool, tcDouble, tcFloat, tcPoint, tcRect, tcPointer]

/-- `sample` without its pointer field -/
def sampleFlat : Msg :=
  .mk 42 [ ([0x61], .fixed tcInt32 .inl [[1, 0, 0, 0]]),
           ([0x62], .strs .arr [[0x68, 0x69], []]),
           ([0x63], .msgs .inl [.mk 7 [([0x64], .fixed tcBool .arr [[1]])]]) ]

theorem sampleFlat_selfEq : msgEq sampleFlat sampleFlat = true := by
  simp [sampleFlat, msgEq, fieldsSubset, lookupField, fieldEq, listEqBy, itemEq, msgsEq,
    tcInt32, tcBool, tcDouble, tcFloat, tcPoint, tcRect]

example : hasOpaque sampleFlat = false ∧ msgEq sampleFlat sampleFlat = true ∧ nanFreeMsg sampleFlat = true ∧
    tripMsg sampleFlat ≠ sampleFlat := by
  refine ⟨by decide, sampleFlat_selfEq, by decide, by simp [sampleFlat, tripMsg, tripFields, tripMsgs, repOf]⟩

example : msgEq (tripMsg sampleFlat) sampleFlat = true ∧ msgEq sampleFlat (tripMsg sampleFlat) = true :=
  eq_trip sampleFlat (by decide) sampleFlat_selfEq

/-- a Message holding a float NaN (0x7FC00000) is not equal to itself, before and after the trip -/
def nanMsg : Msg := .mk 1 [([0x61], .fixed tcFloat .inl [[0, 0, 0xC0, 0x7F]])]

example : nanFreeMsg nanMsg = false ∧ msgEq nanMsg nanMsg = false ∧
    msgEq (tripMsg nanMsg) (tripMsg nanMsg) = false := by
  refine ⟨by decide, ?_⟩
  simp [nanMsg, tripMsg, tripFields, repOf, msgEq, fieldsSubset, lookupField, fieldEq, listEqBy, itemEq, feq32,
    isNaN32, leVal, tcFloat]

/-- `msgEq` is NOT symmetric on arbitrary `Msg` values: the value type allows a repeated field name, which a
    real Message (a hash table keyed by name) cannot hold; with one, "same count and subset" is one-directional.
    Symmetry for Messages with distinct names is not proved here. -/
example :
    msgEq (.mk 0 [([1], .strs .arr []), ([1], .strs .arr [])]) (.mk 0 [([1], .strs .arr []), ([2], .strs .arr [])]) = true ∧
    msgEq (.mk 0 [([1], .strs .arr []), ([2], .strs .arr [])]) (.mk 0 [([1], .strs .arr []), ([1], .strs .arr [])]) = false := by
  simp [msgEq, fieldsSubset, lookupField, fieldEq]

end Muscle.Props.C01
