import MuscleModel.Wire.Proofs2

/-!
# C01 — Message serialisation round-trips exactly and its size is exact

Property theorems only (lemmas: `Wire/Proofs.lean`, `Wire/Proofs2.lean`).
`encode`/`decode`/`sizeMsg` mirror `Message::Flatten/Unflatten/FlattenedSize`; the tie to the C++
code is the correspondence run of engine `msg`.

`tripMsg m` is `canon (flatPart m)`: the Message without its non-flattenable (pointer/tag) fields and
with the inline/array representation tag reset to what the parser chooses.  By definition it keeps
the what-code, the field order, names, type codes, item counts and every item's bytes at every
nesting level.  `wfMsg` = constructible through the public API with all sizes below 2^32;
`depthMsg m ≤ mx` = nesting within `MUSCLE_MAX_MESSAGE_NESTING_DEPTH` (a parameter: the theorems hold
for every value of the limit).
-/

set_option linter.unusedSimpArgs false

namespace Muscle.Props.C01
open Muscle Muscle.Wire Muscle.Gen

/-- The inline writer (`SingleFlatten`) and the array writer (`TemplatedFlatten`) produce the same
    payload bytes for a one-item field, for every field type. -/
theorem encInline_eq_encArray_fixed (x : Bytes) : encFixed .inl [x] = encFixed .arr [x] := by
  simp [encFixed, encFixedArr]

theorem encInline_eq_encArray_strs (s : Bytes) : encStrs .inl [s] = encStrs .arr [s] := by
  simp [encStrs, encStrItems]

theorem encInline_eq_encArray_raws (b : Bytes) : encRaws .inl [b] = encRaws .arr [b] := by
  simp [encRaws, encRawItems]

theorem encInline_eq_encArray_msgs (m : Msg) : encMsgsF .inl [m] = encMsgsF .arr [m] := by
  simp [encMsgsF, encMsgItems]

/-- Parsing the serialised bytes yields the original Message (minus non-flattenable fields), for every
    well-formed Message and every value `mx` of the nesting limit that admits it. -/
theorem decode_encode (mx : Nat) (m : Msg) (h : wfMsg m) (hd : depthMsg m ≤ mx) :
    decode mx (encode m) = some (tripMsg m) := by
  have hn := nodes_msg m h
  have := decMsg_enc mx m h ((encode m).length + 2) 1 [] (by simp only [encode]; omega) (by omega)
  simp only [List.append_nil, encode] at this
  simp only [decode, encode, this]

/-- …and trailing bytes after a complete encoding do not change the result (streams, sub-buffers). -/
theorem decode_encode_append (mx : Nat) (m : Msg) (rest : Bytes) (h : wfMsg m) (hd : depthMsg m ≤ mx) :
    decode mx (encode m ++ rest) = some (tripMsg m) := by
  have hn := nodes_msg m h
  have := decMsg_enc mx m h ((encode m ++ rest).length + 2) 1 rest
    (by simp only [encode, List.length_append]; omega) (by omega)
  simp only [encode] at this
  simp only [decode, encode, this]

/-- Serialising the parsed Message reproduces the original bytes exactly. -/
theorem reencode (m : Msg) (h : wfMsg m) : encode (tripMsg m) = encode m :=
  reenc_msg m h

/-- The advertised flattened size equals the number of bytes written. -/
theorem size_exact (m : Msg) (h : wfMsg m) : (encode m).length = sizeMsg m :=
  size_msg m h

/-- Field order is preserved: the parsed Message lists exactly the flattenable fields, in order. -/
theorem order_preserved (fs : List (Bytes × Field)) : (tripFields fs).map (·.1) = flatNames fs := by
  induction fs with
  | nil => simp [tripFields, flatNames]
  | cons a r ih =>
    obtain ⟨n, f⟩ := a
    cases f <;> simp [tripFields, flatNames, ih]

/-! Non-vacuity: a concrete Message with an inline int32, a two-item string array, a nested
Message and a pointer field satisfies the hypotheses, and the statement computes. -/

def sample : Msg :=
  .mk 42 [ ([0x61], .fixed tcInt32 .inl [[1, 0, 0, 0]]),
           ([0x62], .strs .arr [[0x68, 0x69], []]),
           ([0x70], .opaque tcPointer 1),
           ([0x63], .msgs .inl [.mk 7 [([0x64], .fixed tcBool .arr [[1]])]]) ]

example : wfMsg sample ∧ depthMsg sample ≤ 256 := by
  refine ⟨?_, ?_⟩
  · simp [sample, wfMsg, wfFields, wfMsgs, countFlat, nulFree, flatNames, U32, wireItemSize, tcInt32, tcBool,
      tcDouble, tcFloat, tcInt64, tcInt16, tcInt8, tcPoint, tcRect, normBool, encStrs, encStrItems, encMsgItems,
      encMsg, encFields, encFixed, encFixedArr, le32, leN, protocolVersion]
  · simp [sample, depthMsg, depthFields, depthMsgs]

end Muscle.Props.C01
