import MuscleModel.Reflector.UpdateProofs

/-!
# C04 — A subscriber's mirror of the node tree converges to the server's tree

What is proved here (the rest of the convergence argument — which node events reach which subscriber —
is decided by the correspondence of the full reflector model `Reflector/Server.lean`, `Handlers.lean`
with the real server, and by the direct mirror-vs-matching-set oracle of `harness/srv.cpp`):

`batching_invisible`: however the server cuts the stream of node events for one subscriber into
PR_RESULT_DATAITEMS Messages — flush at `maxItems` names (any value), flush forced by a removal
following a set of the same path, and flushes at ARBITRARY further points (other sessions' traffic makes
`PushSubscriptionMessages` flush everybody) — a client that applies every Message in order, removals
first and then sets, ends up with exactly the data set obtained by applying the events one at a time:
nothing missing, nothing stale, nothing extra because of batching.

Full statement of the property theorem that is NOT proved yet (kept for reference):
  `converges : ∀ history, NoQuiet history → NormalisedSubs history →
     ∀ session s, replayMirror (deliveredTo s (runAll init history)) = Matching (runAll init history) s`
where `Matching` = the other sessions' nodes whose path matches one of s's subscriptions and passes its
filter.  Missing: the invariant that a node's subscriber table counts exactly the matching subscription
entries of every session (`marks_correct`), which needs the traversal theorem of C05, and the case
analysis of `NodeChanged`'s filter transitions.
-/

namespace Muscle.Props.C04
open Muscle Muscle.Reflector

/-- Batching of update Messages is invisible to the subscriber, for every limit `maxItems`, every event
    sequence and every placement of additional flushes. -/
theorem batching_invisible (maxItems : Nat) (evs : List (Ev × Bool)) (m : Mirror) :
    applyMsgs m (delivered (run maxItems {} evs)) = (evs.map (·.1)).foldl applyEv m := by
  have h := view_run maxItems evs {} m
  have h0 : (({} : Pipe)).view m = m := by
    simp [Pipe.view, applyMsgs, applyMsg_empty]
  rw [h0] at h
  rw [← h, ← view_flush]
  unfold delivered Pipe.view
  have : (run maxItems {} evs).flush.cur.numNames = 0 := by
    generalize run maxItems {} evs = t
    unfold Pipe.flush
    by_cases hz : t.cur.numNames = 0
    · rw [if_pos hz]; exact hz
    · rw [if_neg hz]; simp [UpdMsg.numNames]
  rw [applyMsg_noNames _ _ this]

/-- One event: what `NodeChangedAux` adds to the pending Message changes the client's eventual view by
    exactly that event (the single-step form of the theorem above). -/
theorem feed_sound (maxItems : Nat) (s : Pipe) (m : Mirror) (e : Ev) :
    (feed maxItems s e).view m = applyEv (s.view m) e :=
  view_feed maxItems s m e

/-! Non-vacuity: a stream with a set, a removal of the same path (forcing a flush) and a re-creation,
cut at `maxItems = 1` and with an extra flush, yields four Messages whose in-order application equals the
event-by-event result. -/
example :
    let evs : List (Ev × Bool) := [(.set [1] (some 5), false), (.removed [1], true), (.set [1] (some 6), false), (.set [2] none, false)]
    (delivered (run 1 {} evs)).length = 4 := by decide

end Muscle.Props.C04
