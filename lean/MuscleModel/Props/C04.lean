import MuscleModel.Reflector.UpdateProofs
import MuscleModel.Reflector.MirrorProofs7

/-!
# C04 — A subscriber's mirror of the node tree converges to the server's tree

What is proved here (the rest of the convergence argument — which node events reach which subscriber —
is decided by the correspondence of the full reflector model `Reflector/Server.lean`, `Handlers.lean`
with the real server, and by the direct mirror-vs-matching-set oracle of `harness/srv.cpp`):

`batching_invisible`: however the server cuts the stream of node events for one subscriber into
PR_RESULT_DATAITEMS Messages — flush at `maxItems` names (any value), flush forced by a removal
following a set of the same path, and flushes at ARBITRARY further points (other sessions' traffic makes
`PushSubscriptionMessages` flush everybody) — a client that applies every Message in order, removals
first and then sets, ends up with exactly the data set obtained by applying the events one at a time:
nothing missing, nothing stale, nothing extra because of batching.

`marks_correct` (lemmas `Reflector/MirrorProofs1…5.lean`): in every state the engine reaches (`MReach`: attach, detach,
every command of `runCmd`, pushes, pumps, from the empty server; SUBSCRIBE paths must be `GoodPath` after
normalisation) every node below the root carries, for every attached session, exactly the number of that session's
subscription entries whose clauses match the node's path, and nothing for ids that are not attached.

`notify_exact` (lemmas `Reflector/MirrorProofs6.lean`): `NotifySubscribersThatNodeChanged` IS the fold of
`NodeChangedAux` (`feedSrv`) over an explicit list of (session id, event) pairs, at most one per session, and a pair is
in the list iff the session is attached, has a positive match count on the node's path (equivalently a mark on the
node), is not the caller (unless the caller reflects to itself) and the filter transition rule `changeEv` yields that event.

Full statements of the property theorems that are NOT proved (kept for reference):
  `step_mirror : MReach sv → CmdOK c → NoQuiet → ∀ s, (eventsFedTo s (runCmd sv a c)).foldl applyEv (Matching sv s) = Matching (runCmd sv a c) s`
  `converges : ∀ history, NoQuiet history → NormalisedSubs history →
     ∀ session s, replayMirror (deliveredTo s (runAll init history)) = Matching (runAll init history) s`
where `Matching sv s` = the nodes of the other sessions (of all sessions when `s.reflectSelf`) whose path matches an entry of
`s.subs` whose filter accepts the node's payload ↦ that payload.  Missing, exactly:
 (a) the tie between `feedSrv`/`nodeChangedAux` on the server state and `feed` on the abstract `Pipe` of
     `Reflector/Update.lean` (the pending Message of ONE session; `pushAll` flushes every session and also the index
     Message, and the inbox holds canonical TEXT (`dataText`), so the statement needs the structured twin of the inbox);
 (b) per command class, the list of `changeEvents` along the handler (`setDataClauses`: one per created/overwritten node;
     `removeChild`: one per node of `removalOrder`; `subscribe`: the `doGetData` snapshot — which goes to the inbox
     directly, not through `nodeChangedAux`; re-filter: the `ChangeQueryFilterCallback` fold) and the proof that folding
     `applyEv` over them turns `Matching sv s` into `Matching sv' s` — this needs `marks_correct` (here), the exact
     `getNode` reads after each primitive (`mr_nodeAt_putKid`, `mr_nodeAt_removeKid`, `mr_refs_data`: here) and the
     equivalence "positive match count ∧ `changeEv` = set ↔ some entry matches path and filter" (immediate from
     `pmMatchesPath`), plus the client rule for unsubscribe (the server sends no removals);
 (c) the induction over histories (`converges`), with `batching_invisible` for the flush points.
-/

set_option linter.unusedSimpArgs false
set_option linter.unusedVariables false

namespace Muscle.Props.C04
open Muscle Muscle.Reflector Muscle.Eng.SrvEngine

/-- Batching of update Messages is invisible to the subscriber, for every limit `maxItems`, every event
    sequence and every placement of additional flushes. -/
theorem batching_invisible (maxItems : Nat) (evs : List (Ev × Bool)) (m : Mirror) :
    applyMsgs m (delivered (run maxItems {} evs)) = (evs.map (·.1)).foldl applyEv m := by
  have h := view_run maxItems evs {} m
  have h0 : (({} : Pipe)).view m = m := by
    simp [Pipe.view, applyMsgs, applyMsg_empty]
  rw [h0] at h
  rw [← h, ← view_flush]
  unfold delivered Pipe.view
  have : (run maxItems {} evs).flush.cur.numNames = 0 := by
    generalize run maxItems {} evs = t
    unfold Pipe.flush
    by_cases hz : t.cur.numNames = 0
    · rw [if_pos hz]; exact hz
    · rw [if_neg hz]; simp [UpdMsg.numNames]
  rw [applyMsg_noNames _ _ this]

/-- One event: what `NodeChangedAux` adds to the pending Message changes the client's eventual view by
    exactly that event (the single-step form of the theorem above). -/
theorem feed_sound (maxItems : Nat) (s : Pipe) (m : Mirror) (e : Ev) :
    (feed maxItems s e).view m = applyEv (s.view m) e :=
  view_feed maxItems s m e

/-! Non-vacuity: a stream with a set, a removal of the same path (forcing a flush) and a re-creation,
cut at `maxItems = 1` and with an extra flush, yields four Messages whose in-order application equals the
event-by-event result. -/
example :
    let evs : List (Ev × Bool) := [(.set [1] (some 5), false), (.removed [1], true), (.set [1] (some 6), false), (.set [2] none, false)]
    (delivered (run 1 {} evs)).length = 4 := by decide

/-! ## 1. the subscriber tables count exactly the matching subscription entries

Hypotheses.  `MReach sv` (Reflector/MirrorProofs5.lean): `sv` is reached from the empty server by `attach`, `detach`,
`runCmd` of ANY session with ANY command satisfying `CmdOK`, `pushAll`, and the pump that empties the inboxes
(`MReach.reach`: every such state is a `Reach` state of C13).  `CmdOK c`: for `c = .sub path f` the normalised path
`adjustPrefix path "*/*"` is a `GoodPath` — no empty clause (finding F11: `a//b` is stored under clause count 3 but looked
up under `GetPathDepth` = 2, so in the model a second SUBSCRIBE of the same string marks every node twice while the
matcher holds ONE entry) and the two pattern-layer laws `UniqueLaw`/`UVListLaw` of C05 for every clause; every other command is
unrestricted (unsubscribe needs nothing: the entry it removes was put by an accepted SUBSCRIBE).  NOT needed: distinct
SUBSCRIBE spellings (F10 does not disturb the marks), any bound on the tree depth, anything about filters. -/

/-- Every state the engine reaches satisfies the marking invariant (`MKT` = tree invariant of C13, session ids
    pairwise distinct and below the id counter, every matcher well formed, `MarksOK`). -/
theorem invariant_reach {sv : Server} (h : MReach sv) : MKT sv := mkt_reach h

/-- MAIN 1.  In every reachable state, for every node `n` at a path `v` below the root: for every attached session `s`
    the node's subscriber table holds exactly `pmMatchCount s.subs v` = the number of subscription entries of `s`
    whose clauses match `v`; an id that is not attached has no count; the table has pairwise distinct ids and no zero
    entry (so "has an entry" = "positive count").  Session ids are pairwise distinct. -/
theorem marks_correct {sv : Server} (h : MReach sv) {v : List Bytes} {n : Node} (hv : v ≠ [])
    (hn : getNode sv v = some n) :
    (∀ s ∈ sv.sessions, subCount n.subs s.sid = pmMatchCount s.subs v) ∧
    (∀ sid, (∀ s ∈ sv.sessions, s.sid ≠ sid) → subCount n.subs sid = 0) ∧
    (n.subs.map (·.1)).Nodup ∧ (∀ p ∈ n.subs, 0 < p.2) ∧ (sv.sessions.map (·.sid)).Nodup := by
  obtain ⟨_, hs, hm⟩ := mkt_reach h
  obtain ⟨h1, h2⟩ := hm v n hv hn
  have hnd : (sv.sessions.map (·.sid)).Nodup := by
    have := hs.nodup
    unfold sessKeys at this
    rw [List.map_map] at this
    exact this
  refine ⟨?_, ?_, h2.1, h2.2, hnd⟩
  · intro s hsm
    rw [h1]
    exact mr_expCount_of_mem hs.nodup (p := (s.sid, s.subs)) (List.mem_map.2 ⟨s, hsm, rfl⟩) v
  · intro sid hno
    rw [h1]
    apply mr_expCount_not_mem
    intro hm'
    obtain ⟨p, hp, hp1⟩ := List.mem_map.1 hm'
    obtain ⟨s, hsm, rfl⟩ := List.mem_map.1 hp
    exact hno s hsm hp1

/-- Departure clears the marks: after `detach sv sid` of a reachable state no node carries a count for `sid`
    (closes `departure_no_marks_partial` of C06 for reachable states: the coverage hypothesis there is a consequence of
    `marks_correct` and the traversal theorem of C05). -/
theorem marks_correct_detached {sv : Server} (h : MReach sv) (sid : Nat) {v : List Bytes} {n : Node} (hv : v ≠ [])
    (hn : getNode (detach sv sid) v = some n) : subCount n.subs sid = 0 := by
  have h' : MReach (detach sv sid) := .detach sid h
  by_cases hs : sv.sess? sid = none
  · -- nobody had that id
    have hd : detach sv sid = sv := by unfold detach; rw [hs]
    rw [hd] at hn
    apply (marks_correct h hv hn).2.1
    intro s hsm e
    have : sv.sessions.find? (fun t => t.sid = sid) = none := hs
    rw [List.find?_eq_none] at this
    exact this s hsm (by simpa using e)
  · apply (marks_correct h' hv hn).2.1
    intro s hsm
    rcases detach_sessions sv sid s hsm with h1 | h1
    · exact h1
    · exact absurd h1 hs

/-! Non-vacuity: the normalised form `*/*/a` of the SUBSCRIBE path `a` is a `GoodPath`; the state `exSv` (two sessions on
two hosts, session 1 sets `a` = 5, session 0 subscribes to `a`) is reachable, the node `/i/1/a` exists in it, carries
exactly one mark of session 0 (which holds one subscription entry) and none of session 1 (which holds none). -/

theorem goodPath_a : GoodPath (adjustPrefix [97] (some defaultPrefix)) := by
  have hs : splitSlash (adjustPrefix [97] (some defaultPrefix)) = [[42], [42], [97]] := by decide
  unfold GoodPath
  rw [hs]
  refine ⟨by decide, ?_⟩
  intro c hc
  simp only [List.mem_cons, List.not_mem_nil, or_false] at hc
  rcases hc with rfl | rfl | rfl
  · exact laws_star
  · exact laws_star
  · exact ⟨uniqueLaw_a, uvListLaw_a⟩

def exSv : Server :=
  runCmd (runCmd (attach (attach {} 0 [104]).1 1 [105]).1 1 (.set [97] 5 false)) 0 (.sub [97] none)

theorem exSv_reach : MReach exSv :=
  .cmd 0 _ goodPath_a (.cmd 1 _ trivial (.attach 1 [105] (.attach 0 [104] .init)))

example : (getNode exSv [[105], sidName 1, [97]]).map (·.subs) = some [(0, 1)] := by decide +kernel
example : exSv.sessions.map (fun s => (s.sid, pmNumEntries s.subs)) = [(0, 1), (1, 0)] := by decide +kernel

/-! ## 2. which node event reaches which subscriber

`changeEv s names new old removed` (Reflector/MirrorProofs6.lean) is the filter transition rule of `NodeChanged` as a
function of the session's subscriptions only: subscriptions disabled → nothing; no filter in the matcher → the event as
it is; otherwise with `before` = "old payload matched" (`old = none`, a created node: "the path matches") and `now` =
"new payload matches": removal → removed iff `before`; change → set iff `now`, removed iff `before ∧ ¬now`, nothing
otherwise; creation → set iff `now`.  `feedSrv sv sid ev` = `NodeChangedAux` for that event; `changeEvents` = the list of
(session id, event) pairs in the order of the node's subscriber table, all decided on the state BEFORE the call. -/

/-- `NodeChanged` for one session is `NodeChangedAux` of the event `changeEv` selects (or nothing). -/
theorem nodeChanged_exact (sv : Server) (sid : Nat) (names : List Bytes) (newData : Option Nat)
    (oldData : Option (Option Nat)) (removed : Bool) :
    nodeChanged sv sid names newData oldData removed =
      match sv.sess? sid with
      | none => sv
      | some s =>
        match changeEv s names newData oldData removed with
        | none => sv
        | some ev => feedSrv sv sid ev :=
  nodeChanged_twin sv sid names newData oldData removed

/-- MAIN 2.  For every state satisfying the marking invariant (every reachable state: `invariant_reach`; the
    invariant is also kept by every primitive, so it holds at each call site inside a handler), every node `n` at a path
    `v` below the root and every caller `by_`:
    (1) `NotifySubscribersThatNodeChanged` is the fold of `NodeChangedAux` over `changeEvents`;
    (2) no session occurs twice in that list;
    (3) `(sid, ev)` is in the list iff `sid` is the id of an attached session `s` with a POSITIVE match count on `v`
        (i.e. a mark on the node), `s` is not the caller unless the caller reflects to itself, and the filter
        transition rule gives `ev`. -/
theorem notify_exact {sv : Server} (h : MKT sv) {v : List Bytes} {n : Node} (hv : v ≠ [])
    (hn : getNode sv v = some n) (by_ : Nat) (od : Option (Option Nat)) (removed : Bool) :
    notifyChanged sv by_ v n od removed =
        (changeEvents sv by_ v n od removed).foldl (fun sv (p : Nat × Ev) => feedSrv sv p.1 p.2) sv ∧
    ((changeEvents sv by_ v n od removed).map (·.1)).Nodup ∧
    ∀ sid ev, (sid, ev) ∈ changeEvents sv by_ v n od removed ↔
      ∃ s ∈ sv.sessions, s.sid = sid ∧ 0 < pmMatchCount s.subs v ∧ (sid ≠ by_ ∨ bySelfOf sv by_ = true) ∧
        changeEv s v n.data od removed = some ev := by
  obtain ⟨_, hs, hm⟩ := h
  obtain ⟨h1, h2⟩ := hm v n hv hn
  refine ⟨notifyChanged_twin sv by_ v n od removed, mr_changeEvents_nodup sv by_ v n od removed h2.1, ?_⟩
  intro sid ev
  rw [mr_mem_changeEvents]
  have hcount : ∀ s ∈ sv.sessions, subCount n.subs s.sid = pmMatchCount s.subs v := by
    intro s hsm
    rw [h1]
    exact mr_expCount_of_mem hs.nodup (p := (s.sid, s.subs)) (List.mem_map.2 ⟨s, hsm, rfl⟩) v
  constructor
  · rintro ⟨⟨c, hc⟩, hcond, hse⟩
    unfold sessEv at hse
    cases hq : sv.sess? sid with
    | none => rw [hq] at hse; cases hse
    | some s =>
      rw [hq] at hse
      simp only [Option.bind_some] at hse
      have hsm : s ∈ sv.sessions := List.mem_of_find?_eq_some hq
      have hsid : s.sid = sid := by simpa using List.find?_some hq
      refine ⟨s, hsm, hsid, ?_, hcond, hse⟩
      rw [← hcount s hsm, hsid]
      -- the entry `(sid, c)` is the one `subCount` finds, and it is positive
      have hpos := h2.2 (sid, c) hc
      have : subCount n.subs sid = c := by
        unfold subCount
        have hnd := h2.1
        clear hcount h1 hm
        generalize n.subs = l at hc hnd
        induction l with
        | nil => cases hc
        | cons a r ih =>
          obtain ⟨k, c'⟩ := a
          simp only [List.map_cons, List.nodup_cons] at hnd
          rcases List.mem_cons.1 hc with heq | hc'
          · cases heq; simp
          · have hne : k ≠ sid := fun e => hnd.1 (e ▸ List.mem_map_of_mem (f := (·.1)) hc')
            simp only [List.find?_cons, hne, decide_false]
            exact ih hc' hnd.2
      rw [this]; exact hpos
  · rintro ⟨s, hsm, hsid, hpos, hcond, hev⟩
    have hq : sv.sess? sid = some s := by
      -- ids are pairwise distinct: the lookup finds `s`
      have hnd : (sv.sessions.map (·.sid)).Nodup := by
        have := hs.nodup
        unfold sessKeys at this
        rw [List.map_map] at this
        exact this
      unfold Server.sess?
      clear hcount hm h1 hs
      generalize sv.sessions = l at hsm hnd
      induction l with
      | nil => cases hsm
      | cons a r ih =>
        simp only [List.map_cons, List.nodup_cons] at hnd
        rcases List.mem_cons.1 hsm with rfl | hsm
        · simp [hsid]
        · have hne : a.sid ≠ sid := fun e => hnd.1 (by rw [e, ← hsid]; exact List.mem_map_of_mem hsm)
          simp only [List.find?_cons, hne, decide_false]
          exact ih hsm hnd.2
    refine ⟨?_, hcond, ?_⟩
    · apply mr_subCount_pos_mem
      rw [← hsid, hcount s hsm]; exact hpos
    · unfold sessEv; rw [hq]; exact hev

/-- …in particular in every reachable state. -/
theorem notify_exact_reach {sv : Server} (h : MReach sv) {v : List Bytes} {n : Node} (hv : v ≠ [])
    (hn : getNode sv v = some n) (by_ : Nat) (od : Option (Option Nat)) (removed : Bool) :
    notifyChanged sv by_ v n od removed =
        (changeEvents sv by_ v n od removed).foldl (fun sv (p : Nat × Ev) => feedSrv sv p.1 p.2) sv ∧
    ((changeEvents sv by_ v n od removed).map (·.1)).Nodup ∧
    ∀ sid ev, (sid, ev) ∈ changeEvents sv by_ v n od removed ↔
      ∃ s ∈ sv.sessions, s.sid = sid ∧ 0 < pmMatchCount s.subs v ∧ (sid ≠ by_ ∨ bySelfOf sv by_ = true) ∧
        changeEv s v n.data od removed = some ev :=
  notify_exact (mkt_reach h) hv hn by_ od removed

/-- the marking invariant is kept by the tree primitives the handlers call between two notifications (so
    `notify_exact` applies at every call site of `notifyChanged` inside `SetDataNode`, `PutChild`, `RemoveChild`) -/
theorem invariant_primitives {sv : Server} (h : MKT sv) :
    (∀ path d, MK (setNode sv path (fun n => n.setData d))) ∧
    (∀ by_ parent nm d notify, MK (putChild sv by_ parent (Node.fresh nm d) notify)) ∧
    (∀ parent key notify, MK (removeIndexEntry sv parent key notify)) ∧
    (∀ by_ notify names, MKT (removeOne sv by_ notify names)) ∧
    (∀ by_ names node od removed, MK (notifyChanged sv by_ names node od removed)) :=
  ⟨fun path d => h.2.setField path _ (fun _ => rfl) (fun _ => rfl) (fun _ => rfl),
   fun by_ parent nm d notify => h.2.putChild by_ parent _ notify rfl,
   fun parent key notify => h.2.removeIndexEntry parent key notify,
   fun by_ notify names => h.removeOne by_ notify names,
   fun by_ names node od removed => h.2.notifyChanged by_ names node od removed⟩

/-! Non-vacuity of `notify_exact`: in `exSv` a change of `/i/1/a` by its owner (session 1) produces exactly one event, for
session 0. -/
example : (changeEvents exSv 1 [[105], sidName 1, [97]]
    (.mk [97] (some 6) [] [] 0 [(0, 1)]) (some (some 5)) false).map (·.1) = [0] := by decide +kernel

/-! ## 3. one node, one subscriber: the filter transition rule keeps the mirror entry right  (`step_mirror_partial`)

`wants s v d` = `PathMatcher::MatchesPath(v, d)` on `s.subs` (some entry matches the path and its filter accepts the
payload); `entryFor s v x` = what the mirror of `s` must hold at the node's path (`x = none`: no such node; `some d`:
`some d` iff wanted); `applyOpt m e?` = the client applying the event, if one was sent.

Full statement NOT proved: `step_mirror` (see the header).  What IS proved is its per-node, per-subscriber core: for a
session with subscriptions enabled and a positive match count on `v` (by `notify_exact` exactly the sessions that are
notified; a session with match count 0 wants nothing at `v`: `wants_needs_mark`), if the mirror entry at the node's path is
right before an overwrite / creation / removal of the node, then after applying the event `changeEv` selects it is right
again, and no other path of the mirror is touched. -/

theorem wants_needs_mark {s : Sess} {v : List Bytes} {d : Option Nat} (h : wants s v d = true) :
    0 < pmMatchCount s.subs v := mr_wants_pos h

theorem step_mirror_partial (s : Sess) (hen : s.subsEnabled = true) (v : List Bytes)
    (hpos : 0 < pmMatchCount s.subs v) (m : Mirror) :
    (∀ od d, m (pathString v) = entryFor s v (some od) →
      (applyOpt m (changeEv s v d (some od) false)) (pathString v) = entryFor s v (some d)) ∧
    (∀ d, m (pathString v) = entryFor s v none →
      (applyOpt m (changeEv s v d none false)) (pathString v) = entryFor s v (some d)) ∧
    (∀ od, m (pathString v) = entryFor s v (some od) →
      (applyOpt m (changeEv s v od (some od) true)) (pathString v) = entryFor s v none) ∧
    (∀ q, q ≠ pathString v → ∀ nd od r, (applyOpt m (changeEv s v nd od r)) q = m q) :=
  ⟨fun od d hm => changeEv_overwrite s hen v hpos m od d hm,
   fun d hm => changeEv_create s hen v hpos m d hm,
   fun od hm => changeEv_remove s hen v m od hm,
   fun q hq nd od r => changeEv_other s v nd od r m q hq⟩

/-! Non-vacuity: session 0 of `exSv` has subscriptions enabled and a positive match count on `/i/1/a`. -/
example : (exSv.sessions.map (fun s => (s.sid, s.subsEnabled))) = [(0, true), (1, true)] := by decide +kernel
example : ∀ n, getNode exSv [[105], sidName 1, [97]] = some n → ∀ s ∈ exSv.sessions, s.sid = 0 →
    0 < pmMatchCount s.subs [[105], sidName 1, [97]] := by
  intro n hn s hs h0
  have := (marks_correct exSv_reach (by decide) hn).1 s hs
  have h1 : (getNode exSv [[105], sidName 1, [97]]).map (·.subs) = some [(0, 1)] := by decide +kernel
  rw [hn] at h1
  simp only [Option.map_some, Option.some.injEq] at h1
  rw [← this, h0, h1]
  decide

end Muscle.Props.C04
