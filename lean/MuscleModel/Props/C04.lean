import MuscleModel.Reflector.UpdateProofs
import MuscleModel.Reflector.MirrorProofs33

/-!
# C04 — A subscriber's mirror of the node tree converges to the server's tree

What is proved here (the rest of the convergence argument — which node events reach which subscriber —
is decided by the correspondence of the full reflector model `Reflector/Server.lean`, `Handlers.lean`
with the real server, and by the direct mirror-vs-matching-set oracle of `harness/srv.cpp`):

`batching_invisible`: however the server cuts the stream of node events for one subscriber into
PR_RESULT_DATAITEMS Messages — flush at `maxItems` names (any value), flush forced by a removal
following a set of the same path, and flushes at ARBITRARY further points (other sessions' traffic makes
`PushSubscriptionMessages` flush everybody) — a client that applies every Message in order, removals
first and then sets, ends up with exactly the data set obtained by applying the events one at a time:
nothing missing, nothing stale, nothing extra because of batching.

`marks_correct` (lemmas `Reflector/MirrorProofs1…5.lean`): in every state the engine reaches (`MReach`: attach, detach,
every command of `runCmd`, pushes, pumps, from the empty server; SUBSCRIBE paths must be `GoodPath` after
normalisation) every node below the root carries, for every attached session, exactly the number of that session's
subscription entries whose clauses match the node's path, and nothing for ids that are not attached.

`notify_exact` (lemmas `Reflector/MirrorProofs6.lean`): `NotifySubscribersThatNodeChanged` IS the fold of
`NodeChangedAux` (`feedSrv`) over an explicit list of (session id, event) pairs, at most one per session, and a pair is
in the list iff the session is attached, has a positive match count on the node's path (equivalently a mark on the
node), is not the caller (unless the caller reflects to itself) and the filter transition rule `changeEv` yields that event.

Sections 4–6 (added later; lemmas `Reflector/MirrorProofs8…12.lean`): the invariant over the engine's own op lines
(`marks_correct_engine`); the structured twin of delivery (`twin_text`, `feedSrv_is_feed`, `delivery_twin`); the
specification `Matches`/`MirrorOK` with the per-change theorems `step_mirror_overwrite`, `step_mirror_create`,
`step_mirror_remove_leaf`, the whole-command theorems `step_mirror_set_overwrite` / `step_mirror_set_create`, chaining (`step_chain`) and the replay
between quiescent points (`converges_partial`).

Section 7 (lemmas `Reflector/MirrorProofs14…17.lean`): no node name contains `/` in any state reached with slash-free
host names (`CReach`), hence `Unamb` is no longer a hypothesis (`names_unambiguous`); `SyncAll` for PR_COMMAND_SETDATA in
general (any mix of existing clauses, created inner nodes and a created or overwritten last node: `step_mirror_set`), for
`setm`, for recursive `RemoveChild` / REMOVEDATA (`step_mirror_rm`), for the departure of another session
(`step_mirror_detach_other`), and the convergence theorem over steady-state histories (`converges_steady`).

Section 8 (lemmas `Reflector/MirrorProofs18…20.lean`): the snapshot of `DoGetData` as structured Messages
(`snapshot_replay`), the subscriber's own SUBSCRIBE of a new path (`step_mirror_subscribe_new`, with the visits of the
snapshot traversal as hypothesis `SnapVisits`, proved for sessions that reflect to themselves: `snapVisits_reflect_self`),
quiet commands (`quiet_step`), histories `Hist`, and `converges_fixed_subs`: ONE SUBSCRIBE from the empty mirror, then
any history.

Section 9 (lemmas `Reflector/MirrorProofs21…22.lean`): arrival of another session (`step_mirror_attach_other`), unsubscribe
with the client's drop rule `applyUnsub` (`step_mirror_unsubscribe`), histories with arrivals (`History`) and
`converges_fixed_subs_arrivals`.

Section 10 (lemmas `Reflector/MirrorProofs23…25.lean`): the index commands of other sessions (`step_mirror_ins_other`,
`step_mirror_set_indexed_other`, `step_mirror_reorder_other`), `FreshSessNode` in every reachable state
(`fresh_sess_node_reach`, invariant `HK`), `Story` = every command class + arrivals without hypothesis, and
`converges_fixed_subs_story`.

Section 11 (lemmas `Reflector/MirrorProofs26.lean`): `converges_changing_subs` — the subscriber's own SUBSCRIBEs of new
paths and unsubscribes (client drop rule threaded through the replay) interleaved with `Story` segments.

Section 12 (lemmas `Reflector/MirrorProofs27…29.lean`): the traversal with `GetDataCallback` — `getdata_visits` (the visits
are the visits of the continue-callback outside the own subtree), `snapVisits_plain_session`, `subNewOK_by_rule`: `SnapVisits`
is no longer a hypothesis except for sessions with the indexing flag that do not reflect to themselves (whose snapshots
contain their own nodes by design).

Section 13 (lemmas `Reflector/MirrorProofs30.lean`): the subscriber's own max-items and default-route parameter commands
at quiescent points (`own_param_step`), `Run2`, `converges_changing_subs_params`.

Section 14 (lemmas `Reflector/MirrorProofs31…33.lean`): re-subscription of a held path with another filter
(`step_mirror_refilter`), the reflect-to-self parameter (`own_self_step`), `Run3`, and the final theorem `converges`.

## COVERAGE OF THE FINAL THEOREM `converges` (section 14) — the one place to read what is proved and what is not

Statement.  Start: ANY state with the invariants `Inv2` (every state reached from the empty server with slash-free host
names and `GoodPath` SUBSCRIBEs: `creach_inv2`; `converges_reach` is the corollary for those) in which the subscriber `sid`
is attached with subscriptions enabled, NO subscription, nothing pending, and its client holds the EMPTY mirror.  Then any
`Run3 sid` (below).  Conclusion: `sid` is still attached, nothing is pending for it, the PR_RESULT_DATAITEMS lines appended
to its inbox are exactly the text of the Messages among the items its client consumed, and the client's fold (`applyMsg`:
removals first, then sets, per Message; `applyUnsub` at its own unsubscribes) satisfies `MirrorOK`: it holds a path with a
payload IFF some node below the root has that path, is visible to the subscriber (not one of its own, or it reflects to
itself), is matched by its CURRENT subscription set (clauses and filter) and carries that payload CURRENTLY.

COVERED — steps of a `Run3 sid`, in any order and number, each begun at a point where nothing is pending for `sid` (the
engine pushes after every command line, so every line boundary is such a point):
 * commands of ANY OTHER session: SETDATA with or without the index flag and `setm` (any mix of existing, created inner and
   created/overwritten last nodes; hypothesis `SetOK`: 2 + number of non-empty path clauses ≤ the depth fuel 110),
   REMOVEDATA (recursive, any keys), INSERTORDEREDDATA (`InsDepthOK`: the insert traversal stays within the depth fuel),
   REORDERDATA, SUBSCRIBE (`GoodPath`) / unsubscribe, every parameter command, GETPARAMETERS, PING, Message forwarding;
 * the subscriber's OWN SETDATA (both flags), REMOVEDATA, INSERTORDEREDDATA, REORDERDATA, GETPARAMETERS, PING, Messages;
 * `PushSubscriptionMessages` at any point; departure of any OTHER session; arrival of any session on a slash-free host;
 * the subscriber's own SUBSCRIBE of a path it does not hold (with or without filter): `SubNewOK` = `GoodPath` + "the
   session reflects to itself or does not carry the indexing flag" (`subNewOK_by_rule`);
 * the subscriber's own SUBSCRIBE of a path it HOLDS, with any other (or no, or the same) filter, followed by the engine's
   push: `RefilterOK` = the same rule for the session + "the path is held" (`refilterOK_by_rule`).  Nothing about own nodes:
   `ChangeQueryFilterCallback` skips the subscriber's own nodes by the rule of `GetDataCallback` (`refilter_visits`);
 * the subscriber's own unsubscribe of any path (client drop rule `applyUnsub`);
 * the subscriber's own max-items and default-route parameters, set or removed;
 * the subscriber's own reflect-to-self parameter while it holds NO subscription or reflects to itself already (`SelfOK`).
Session kinds: sessions that reflect to themselves and plain sessions without the indexing flag — everything above, with
no hypothesis about the session beyond those named.

OUTSIDE (not claimed; with the reason):
 (1) plain sessions that CARRY THE INDEXING FLAG (after their own INSERTORDEREDDATA / SETDATA with the index flag): their own
     SUBSCRIBE / re-filter.  `GetDataCallback` then includes the subscriber's own nodes in the snapshot (by design), which
     `MirrorOK` (own nodes invisible) does not allow; `SubNewOK` can still be discharged by hand when `SnapVisits` holds.
 (2) the reflect-to-self parameter set WHILE subscriptions are held by a session not yet reflecting: the server sends no
     snapshot for it, own nodes become visible for NEW events only; `MirrorOK` for the new visibility rule fails at that
     moment for every own node already matched.  There is no command that clears the flag.
 (3) the subscriber's own departure (the mirror ends) and the harness pump that empties inboxes (the theorem speaks about
     what was APPENDED to the inbox) are not steps of a run.
 (4) SUBSCRIBE paths that are not `GoodPath` (empty clause — finding F11 — or clauses outside the two pattern laws of C05),
     SETDATA / INSERTORDEREDDATA beyond the depth fuel (the model's `setDataNode` has no depth check of its own), host names
     containing `/` (path strings then stop being injective).
 (5) the engine's subtree ops `clone` / `save` / `restore` / `trees` (C13) are not commands of `runCmd`; `LineOK` of
     section 4 excludes them from `marks_correct_engine`, and no run contains them.
 (6) a start with subscriptions already held (the client would need the matching mirror; `run3_quiescent` is the per-step form
     from ANY `Quiescent` point and covers it when `MirrorOK` is given).
The earlier convergence theorems (`converges_partial`, `converges_steady`, `converges_fixed_subs…`, `converges_changing_subs`,
`converges_changing_subs_params`) are special cases kept because their statements are simpler.
-/

set_option linter.unusedSimpArgs false
set_option linter.unusedVariables false

namespace Muscle.Props.C04
open Muscle Muscle.Reflector Muscle.Eng.SrvEngine

/-- Batching of update Messages is invisible to the subscriber, for every limit `maxItems`, every event
    sequence and every placement of additional flushes. -/
theorem batching_invisible (maxItems : Nat) (evs : List (Ev × Bool)) (m : Mirror) :
    applyMsgs m (delivered (run maxItems {} evs)) = (evs.map (·.1)).foldl applyEv m := by
  have h := view_run maxItems evs {} m
  have h0 : (({} : Pipe)).view m = m := by
    simp [Pipe.view, applyMsgs, applyMsg_empty]
  rw [h0] at h
  rw [← h, ← view_flush]
  unfold delivered Pipe.view
  have : (run maxItems {} evs).flush.cur.numNames = 0 := by
    generalize run maxItems {} evs = t
    unfold Pipe.flush
    by_cases hz : t.cur.numNames = 0
    · rw [if_pos hz]; exact hz
    · rw [if_neg hz]; simp [UpdMsg.numNames]
  rw [applyMsg_noNames _ _ this]

/-- One event: what `NodeChangedAux` adds to the pending Message changes the client's eventual view by
    exactly that event (the single-step form of the theorem above). -/
theorem feed_sound (maxItems : Nat) (s : Pipe) (m : Mirror) (e : Ev) :
    (feed maxItems s e).view m = applyEv (s.view m) e :=
  view_feed maxItems s m e

/-! Non-vacuity: a stream with a set, a removal of the same path (forcing a flush) and a re-creation,
cut at `maxItems = 1` and with an extra flush, yields four Messages whose in-order application equals the
event-by-event result. -/
example :
    let evs : List (Ev × Bool) := [(.set [1] (some 5), false), (.removed [1], true), (.set [1] (some 6), false), (.set [2] none, false)]
    (delivered (run 1 {} evs)).length = 4 := by decide

/-! ## 1. the subscriber tables count exactly the matching subscription entries

Hypotheses.  `MReach sv` (Reflector/MirrorProofs5.lean): `sv` is reached from the empty server by `attach`, `detach`,
`runCmd` of ANY session with ANY command satisfying `CmdOK`, `pushAll`, and the pump that empties the inboxes
(`MReach.reach`: every such state is a `Reach` state of C13).  `CmdOK c`: for `c = .sub path f` the normalised path
`adjustPrefix path "*/*"` is a `GoodPath` — no empty clause (finding F11: `a//b` is stored under clause count 3 but looked
up under `GetPathDepth` = 2, so in the model a second SUBSCRIBE of the same string marks every node twice while the
matcher holds ONE entry) and the two pattern-layer laws `UniqueLaw`/`UVListLaw` of C05 for every clause; every other command is
unrestricted (unsubscribe needs nothing: the entry it removes was put by an accepted SUBSCRIBE).  NOT needed: distinct
SUBSCRIBE spellings (F10 does not disturb the marks), any bound on the tree depth, anything about filters. -/

/-- Every state the engine reaches satisfies the marking invariant (`MKT` = tree invariant of C13, session ids
    pairwise distinct and below the id counter, every matcher well formed, `MarksOK`). -/
theorem invariant_reach {sv : Server} (h : MReach sv) : MKT sv := mkt_reach h

/-- MAIN 1.  In every reachable state, for every node `n` at a path `v` below the root: for every attached session `s`
    the node's subscriber table holds exactly `pmMatchCount s.subs v` = the number of subscription entries of `s`
    whose clauses match `v`; an id that is not attached has no count; the table has pairwise distinct ids and no zero
    entry (so "has an entry" = "positive count").  Session ids are pairwise distinct. -/
theorem marks_correct {sv : Server} (h : MReach sv) {v : List Bytes} {n : Node} (hv : v ≠ [])
    (hn : getNode sv v = some n) :
    (∀ s ∈ sv.sessions, subCount n.subs s.sid = pmMatchCount s.subs v) ∧
    (∀ sid, (∀ s ∈ sv.sessions, s.sid ≠ sid) → subCount n.subs sid = 0) ∧
    (n.subs.map (·.1)).Nodup ∧ (∀ p ∈ n.subs, 0 < p.2) ∧ (sv.sessions.map (·.sid)).Nodup := by
  obtain ⟨_, hs, hm⟩ := mkt_reach h
  obtain ⟨h1, h2⟩ := hm v n hv hn
  have hnd : (sv.sessions.map (·.sid)).Nodup := by
    have := hs.nodup
    unfold sessKeys at this
    rw [List.map_map] at this
    exact this
  refine ⟨?_, ?_, h2.1, h2.2, hnd⟩
  · intro s hsm
    rw [h1]
    exact mr_expCount_of_mem hs.nodup (p := (s.sid, s.subs)) (List.mem_map.2 ⟨s, hsm, rfl⟩) v
  · intro sid hno
    rw [h1]
    apply mr_expCount_not_mem
    intro hm'
    obtain ⟨p, hp, hp1⟩ := List.mem_map.1 hm'
    obtain ⟨s, hsm, rfl⟩ := List.mem_map.1 hp
    exact hno s hsm hp1

/-- Departure clears the marks: after `detach sv sid` of a reachable state no node carries a count for `sid`
    (closes `departure_no_marks_partial` of C06 for reachable states: the coverage hypothesis there is a consequence of
    `marks_correct` and the traversal theorem of C05). -/
theorem marks_correct_detached {sv : Server} (h : MReach sv) (sid : Nat) {v : List Bytes} {n : Node} (hv : v ≠ [])
    (hn : getNode (detach sv sid) v = some n) : subCount n.subs sid = 0 := by
  have h' : MReach (detach sv sid) := .detach sid h
  by_cases hs : sv.sess? sid = none
  · -- nobody had that id
    have hd : detach sv sid = sv := by unfold detach; rw [hs]
    rw [hd] at hn
    apply (marks_correct h hv hn).2.1
    intro s hsm e
    have : sv.sessions.find? (fun t => t.sid = sid) = none := hs
    rw [List.find?_eq_none] at this
    exact this s hsm (by simpa using e)
  · apply (marks_correct h' hv hn).2.1
    intro s hsm
    rcases detach_sessions sv sid s hsm with h1 | h1
    · exact h1
    · exact absurd h1 hs

/-! Non-vacuity: the normalised form `*/*/a` of the SUBSCRIBE path `a` is a `GoodPath`; the state `exSv` (two sessions on
two hosts, session 1 sets `a` = 5, session 0 subscribes to `a`) is reachable, the node `/i/1/a` exists in it, carries
exactly one mark of session 0 (which holds one subscription entry) and none of session 1 (which holds none). -/

theorem goodPath_a : GoodPath (adjustPrefix [97] (some defaultPrefix)) := by
  have hs : splitSlash (adjustPrefix [97] (some defaultPrefix)) = [[42], [42], [97]] := by decide
  unfold GoodPath
  rw [hs]
  refine ⟨by decide, ?_⟩
  intro c hc
  simp only [List.mem_cons, List.not_mem_nil, or_false] at hc
  rcases hc with rfl | rfl | rfl
  · exact laws_star
  · exact laws_star
  · exact ⟨uniqueLaw_a, uvListLaw_a⟩

def exSv : Server :=
  runCmd (runCmd (attach (attach {} 0 [104]).1 1 [105]).1 1 (.set [97] 5 false)) 0 (.sub [97] none)

theorem exSv_reach : MReach exSv :=
  .cmd 0 _ goodPath_a (.cmd 1 _ trivial (.attach 1 [105] (.attach 0 [104] .init)))

example : (getNode exSv [[105], sidName 1, [97]]).map (·.subs) = some [(0, 1)] := by decide +kernel
example : exSv.sessions.map (fun s => (s.sid, pmNumEntries s.subs)) = [(0, 1), (1, 0)] := by decide +kernel

/-! ## 2. which node event reaches which subscriber

`changeEv s names new old removed` (Reflector/MirrorProofs6.lean) is the filter transition rule of `NodeChanged` as a
function of the session's subscriptions only: subscriptions disabled → nothing; no filter in the matcher → the event as
it is; otherwise with `before` = "old payload matched" (`old = none`, a created node: "the path matches") and `now` =
"new payload matches": removal → removed iff `before`; change → set iff `now`, removed iff `before ∧ ¬now`, nothing
otherwise; creation → set iff `now`.  `feedSrv sv sid ev` = `NodeChangedAux` for that event; `changeEvents` = the list of
(session id, event) pairs in the order of the node's subscriber table, all decided on the state BEFORE the call. -/

/-- `NodeChanged` for one session is `NodeChangedAux` of the event `changeEv` selects (or nothing). -/
theorem nodeChanged_exact (sv : Server) (sid : Nat) (names : List Bytes) (newData : Option Nat)
    (oldData : Option (Option Nat)) (removed : Bool) :
    nodeChanged sv sid names newData oldData removed =
      match sv.sess? sid with
      | none => sv
      | some s =>
        match changeEv s names newData oldData removed with
        | none => sv
        | some ev => feedSrv sv sid ev :=
  nodeChanged_twin sv sid names newData oldData removed

/-- MAIN 2.  For every state satisfying the marking invariant (every reachable state: `invariant_reach`; the
    invariant is also kept by every primitive, so it holds at each call site inside a handler), every node `n` at a path
    `v` below the root and every caller `by_`:
    (1) `NotifySubscribersThatNodeChanged` is the fold of `NodeChangedAux` over `changeEvents`;
    (2) no session occurs twice in that list;
    (3) `(sid, ev)` is in the list iff `sid` is the id of an attached session `s` with a POSITIVE match count on `v`
        (i.e. a mark on the node), `s` is not the caller unless the caller reflects to itself, and the filter
        transition rule gives `ev`. -/
theorem notify_exact {sv : Server} (h : MKT sv) {v : List Bytes} {n : Node} (hv : v ≠ [])
    (hn : getNode sv v = some n) (by_ : Nat) (od : Option (Option Nat)) (removed : Bool) :
    notifyChanged sv by_ v n od removed =
        (changeEvents sv by_ v n od removed).foldl (fun sv (p : Nat × Ev) => feedSrv sv p.1 p.2) sv ∧
    ((changeEvents sv by_ v n od removed).map (·.1)).Nodup ∧
    ∀ sid ev, (sid, ev) ∈ changeEvents sv by_ v n od removed ↔
      ∃ s ∈ sv.sessions, s.sid = sid ∧ 0 < pmMatchCount s.subs v ∧ (sid ≠ by_ ∨ bySelfOf sv by_ = true) ∧
        changeEv s v n.data od removed = some ev := by
  obtain ⟨_, hs, hm⟩ := h
  obtain ⟨h1, h2⟩ := hm v n hv hn
  refine ⟨notifyChanged_twin sv by_ v n od removed, mr_changeEvents_nodup sv by_ v n od removed h2.1, ?_⟩
  intro sid ev
  rw [mr_mem_changeEvents]
  have hcount : ∀ s ∈ sv.sessions, subCount n.subs s.sid = pmMatchCount s.subs v := by
    intro s hsm
    rw [h1]
    exact mr_expCount_of_mem hs.nodup (p := (s.sid, s.subs)) (List.mem_map.2 ⟨s, hsm, rfl⟩) v
  constructor
  · rintro ⟨⟨c, hc⟩, hcond, hse⟩
    unfold sessEv at hse
    cases hq : sv.sess? sid with
    | none => rw [hq] at hse; cases hse
    | some s =>
      rw [hq] at hse
      simp only [Option.bind_some] at hse
      have hsm : s ∈ sv.sessions := List.mem_of_find?_eq_some hq
      have hsid : s.sid = sid := by simpa using List.find?_some hq
      refine ⟨s, hsm, hsid, ?_, hcond, hse⟩
      rw [← hcount s hsm, hsid]
      -- the entry `(sid, c)` is the one `subCount` finds, and it is positive
      have hpos := h2.2 (sid, c) hc
      have : subCount n.subs sid = c := by
        unfold subCount
        have hnd := h2.1
        clear hcount h1 hm
        generalize n.subs = l at hc hnd
        induction l with
        | nil => cases hc
        | cons a r ih =>
          obtain ⟨k, c'⟩ := a
          simp only [List.map_cons, List.nodup_cons] at hnd
          rcases List.mem_cons.1 hc with heq | hc'
          · cases heq; simp
          · have hne : k ≠ sid := fun e => hnd.1 (e ▸ List.mem_map_of_mem (f := (·.1)) hc')
            simp only [List.find?_cons, hne, decide_false]
            exact ih hc' hnd.2
      rw [this]; exact hpos
  · rintro ⟨s, hsm, hsid, hpos, hcond, hev⟩
    have hq : sv.sess? sid = some s := by
      -- ids are pairwise distinct: the lookup finds `s`
      have hnd : (sv.sessions.map (·.sid)).Nodup := by
        have := hs.nodup
        unfold sessKeys at this
        rw [List.map_map] at this
        exact this
      unfold Server.sess?
      clear hcount hm h1 hs
      generalize sv.sessions = l at hsm hnd
      induction l with
      | nil => cases hsm
      | cons a r ih =>
        simp only [List.map_cons, List.nodup_cons] at hnd
        rcases List.mem_cons.1 hsm with rfl | hsm
        · simp [hsid]
        · have hne : a.sid ≠ sid := fun e => hnd.1 (by rw [e, ← hsid]; exact List.mem_map_of_mem hsm)
          simp only [List.find?_cons, hne, decide_false]
          exact ih hsm hnd.2
    refine ⟨?_, hcond, ?_⟩
    · apply mr_subCount_pos_mem
      rw [← hsid, hcount s hsm]; exact hpos
    · unfold sessEv; rw [hq]; exact hev

/-- …in particular in every reachable state. -/
theorem notify_exact_reach {sv : Server} (h : MReach sv) {v : List Bytes} {n : Node} (hv : v ≠ [])
    (hn : getNode sv v = some n) (by_ : Nat) (od : Option (Option Nat)) (removed : Bool) :
    notifyChanged sv by_ v n od removed =
        (changeEvents sv by_ v n od removed).foldl (fun sv (p : Nat × Ev) => feedSrv sv p.1 p.2) sv ∧
    ((changeEvents sv by_ v n od removed).map (·.1)).Nodup ∧
    ∀ sid ev, (sid, ev) ∈ changeEvents sv by_ v n od removed ↔
      ∃ s ∈ sv.sessions, s.sid = sid ∧ 0 < pmMatchCount s.subs v ∧ (sid ≠ by_ ∨ bySelfOf sv by_ = true) ∧
        changeEv s v n.data od removed = some ev :=
  notify_exact (mkt_reach h) hv hn by_ od removed

/-- the marking invariant is kept by the tree primitives the handlers call between two notifications (so
    `notify_exact` applies at every call site of `notifyChanged` inside `SetDataNode`, `PutChild`, `RemoveChild`) -/
theorem invariant_primitives {sv : Server} (h : MKT sv) :
    (∀ path d, MK (setNode sv path (fun n => n.setData d))) ∧
    (∀ by_ parent nm d notify, MK (putChild sv by_ parent (Node.fresh nm d) notify)) ∧
    (∀ parent key notify, MK (removeIndexEntry sv parent key notify)) ∧
    (∀ by_ notify names, MKT (removeOne sv by_ notify names)) ∧
    (∀ by_ names node od removed, MK (notifyChanged sv by_ names node od removed)) :=
  ⟨fun path d => h.2.setField path _ (fun _ => rfl) (fun _ => rfl) (fun _ => rfl),
   fun by_ parent nm d notify => h.2.putChild by_ parent _ notify rfl,
   fun parent key notify => h.2.removeIndexEntry parent key notify,
   fun by_ notify names => h.removeOne by_ notify names,
   fun by_ names node od removed => h.2.notifyChanged by_ names node od removed⟩

/-! Non-vacuity of `notify_exact`: in `exSv` a change of `/i/1/a` by its owner (session 1) produces exactly one event, for
session 0. -/
example : (changeEvents exSv 1 [[105], sidName 1, [97]]
    (.mk [97] (some 6) [] [] 0 [(0, 1)]) (some (some 5)) false).map (·.1) = [0] := by decide +kernel

/-! ## 3. one node, one subscriber: the filter transition rule keeps the mirror entry right  (`step_mirror_partial`)

`wants s v d` = `PathMatcher::MatchesPath(v, d)` on `s.subs` (some entry matches the path and its filter accepts the
payload); `entryFor s v x` = what the mirror of `s` must hold at the node's path (`x = none`: no such node; `some d`:
`some d` iff wanted); `applyOpt m e?` = the client applying the event, if one was sent.

Full statement NOT proved: `step_mirror` (see the header).  What IS proved is its per-node, per-subscriber core: for a
session with subscriptions enabled and a positive match count on `v` (by `notify_exact` exactly the sessions that are
notified; a session with match count 0 wants nothing at `v`: `wants_needs_mark`), if the mirror entry at the node's path is
right before an overwrite / creation / removal of the node, then after applying the event `changeEv` selects it is right
again, and no other path of the mirror is touched. -/

theorem wants_needs_mark {s : Sess} {v : List Bytes} {d : Option Nat} (h : wants s v d = true) :
    0 < pmMatchCount s.subs v := mr_wants_pos h

theorem step_mirror_partial (s : Sess) (hen : s.subsEnabled = true) (v : List Bytes)
    (hpos : 0 < pmMatchCount s.subs v) (m : Mirror) :
    (∀ od d, m (pathString v) = entryFor s v (some od) →
      (applyOpt m (changeEv s v d (some od) false)) (pathString v) = entryFor s v (some d)) ∧
    (∀ d, m (pathString v) = entryFor s v none →
      (applyOpt m (changeEv s v d none false)) (pathString v) = entryFor s v (some d)) ∧
    (∀ od, m (pathString v) = entryFor s v (some od) →
      (applyOpt m (changeEv s v od (some od) true)) (pathString v) = entryFor s v none) ∧
    (∀ q, q ≠ pathString v → ∀ nd od r, (applyOpt m (changeEv s v nd od r)) q = m q) :=
  ⟨fun od d hm => changeEv_overwrite s hen v hpos m od d hm,
   fun d hm => changeEv_create s hen v hpos m d hm,
   fun od hm => changeEv_remove s hen v m od hm,
   fun q hq nd od r => changeEv_other s v nd od r m q hq⟩

/-! Non-vacuity: session 0 of `exSv` has subscriptions enabled and a positive match count on `/i/1/a`. -/
example : (exSv.sessions.map (fun s => (s.sid, s.subsEnabled))) = [(0, true), (1, true)] := by decide +kernel
example : ∀ n, getNode exSv [[105], sidName 1, [97]] = some n → ∀ s ∈ exSv.sessions, s.sid = 0 →
    0 < pmMatchCount s.subs [[105], sidName 1, [97]] := by
  intro n hn s hs h0
  have := (marks_correct exSv_reach (by decide) hn).1 s hs
  have h1 : (getNode exSv [[105], sidName 1, [97]]).map (·.subs) = some [(0, 1)] := by decide +kernel
  rw [hn] at h1
  simp only [Option.map_some, Option.some.injEq] at h1
  rw [← this, h0, h1]
  decide

/-! ## 4. the marking invariant over the engine's own op lines

`LineOK toks` (Reflector/MirrorProofs8.lean): if the line parses to a command (`parseCmd`), the command is `CmdOK` — only
SUBSCRIBE lines are restricted (`GoodPath`) — and the line is none of the server-side subtree ops `clone` / `save` /
`restore` / `trees`.  `EInv st`: the engine's server state is `MReach` and every command waiting in
an open batch is `CmdOK`. -/

/-- every state of the engine `srv` on ANY op stream whose lines are `LineOK` (`case` resets, `pump`, `wping`, `attach`,
    `detach`, `find`, `setm`, batches, queued and direct commands, bad ops, poisoned cases) is `MReach`… -/
theorem reach_engine (lines : List (List String)) (hl : ∀ toks ∈ lines, LineOK toks) :
    MReach (lines.foldl (fun st toks => (step st toks).1) ({} : St)).sv :=
  (einv_engine lines hl).1

/-- …hence carries exactly the right subscriber tables. -/
theorem marks_correct_engine (lines : List (List String)) (hl : ∀ toks ∈ lines, LineOK toks) {v : List Bytes} {n : Node}
    (hv : v ≠ []) (hn : getNode (lines.foldl (fun st toks => (step st toks).1) ({} : St)).sv v = some n) :
    ∀ s ∈ (lines.foldl (fun st toks => (step st toks).1) ({} : St)).sv.sessions,
      subCount n.subs s.sid = pmMatchCount s.subs v :=
  (marks_correct (reach_engine lines hl) hv hn).1

/-- what `LineOK` asks, exactly: a line that parses to a SUBSCRIBE must carry a `GoodPath`, and the line is none of the
    server-side subtree ops `clone` / `save` / `restore` / `trees` (first token; they are not commands of `Cmd`) -/
theorem lineOK_iff (toks : List String) :
    LineOK toks ↔ (∀ p f, parseCmd toks = some (.sub p f) → GoodPath (adjustPrefix p (some defaultPrefix))) ∧
      isSubtreeOp toks = false := by
  unfold LineOK
  constructor
  · rintro ⟨h, h2⟩
    exact ⟨fun p f hp => h _ hp, by simpa using h2⟩
  · rintro ⟨h, h2⟩
    refine ⟨fun c hc => ?_, by simp [h2]⟩
    cases c <;> first | exact h _ _ hc | trivial

/-! Non-vacuity: a line that is no command is `LineOK` (a reachable state with an accepted SUBSCRIBE: `exSv_reach`); a
`clone` line is not. -/
example : LineOK ["pump"] := ⟨by intro c hc; simp [parseCmd] at hc, by decide⟩
example : ¬ LineOK ["clone", "0", "0", "x", "x"] := fun h => h.2 (by decide)

/-! ## 5. the structured twin of delivery (one session)

`pend s` = the pending PR_RESULT_DATAITEMS Message of `s`; `dataLines s` = the PR_RESULT_DATAITEMS lines of its inbox
(`isData`: first character `D`; `dataText` produces such lines, `idxText`/`PONG`/`PARAMS`/`MSG` lines do not).
`auxSess s np d removed` (Reflector/MirrorProofs9.lean) = `NodeChangedAux` on the session record. -/

/-- TWIN.  For the session itself `NodeChangedAux` on the server IS `auxSess` on its record, and `auxSess` IS `feed
    s.maxItems` on the abstract pipe `⟨pend s, []⟩` of `Reflector/Update.lean`: same pending Message afterwards, the data
    lines appended to the inbox are exactly the text of the Messages `feed` sends, and nothing else of the session
    changes (`core`). -/
theorem twin_text {sv : Server} {sid : Nat} {s : Sess} (hs : sv.sess? sid = some s) (np : Bytes) (d : Option Nat)
    (removed : Bool) :
    (nodeChangedAux sv sid np d removed).sess? sid = some (auxSess s np d removed) ∧
    pend (auxSess s np d removed) = (feed s.maxItems { cur := pend s, sent := [] } (evOf np d removed)).cur ∧
    dataLines (auxSess s np d removed) =
      dataLines s ++ (feed s.maxItems { cur := pend s, sent := [] } (evOf np d removed)).sent.map dataText ∧
    (auxSess s np d removed).core = s.core :=
  ⟨nodeChangedAux_sess hs np d removed, auxSess_feed s np d removed⟩

/-- …and every OTHER session is untouched or flushed (`pushSess`: pending Message → inbox). -/
theorem twin_other {sv : Server} {sid t : Nat} {x : Sess} (hx : sv.sess? t = some x) (ht : t ≠ sid) (np : Bytes)
    (d : Option Nat) (removed : Bool) :
    (nodeChangedAux sv sid np d removed).sess? t = some x ∨
    (nodeChangedAux sv sid np d removed).sess? t = some (pushSess x) :=
  nodeChangedAux_other hx ht np d removed

/-- `PipeStep sid sv sv' evs`: `sid` keeps identity and parameters, receives structured Messages `sent` whose text is what
    was appended to its data lines, and the view of a client that applies everything sent and then the pending Message
    advances by exactly `evs` (this is `batching_invisible`'s invariant, `view_feed`, on the server state).
    `feedSrv` is one event for its session and an extra flush (or nothing) for the others; `pushAll` is an extra flush;
    `NotifySubscribersThatNodeChanged` feeds `sid` the events `changeEvents` holds for it. -/
theorem feedSrv_is_feed (sv : Server) (sid : Nat) (ev : Ev) :
    PipeStep sid sv (feedSrv sv sid ev) [ev] ∧
    (∀ t, t ≠ sid → PipeStep t sv (feedSrv sv sid ev) []) ∧
    (∀ t, PipeStep t sv (pushAll sv) []) :=
  ⟨pipeStep_feed_self sv sid ev, fun t ht => pipeStep_feed_other sv ht ev, fun t => pipeStep_pushAll t sv⟩

theorem delivery_twin (sid : Nat) (sv : Server) (by_ : Nat) (names : List Bytes) (node : Node)
    (od : Option (Option Nat)) (removed : Bool) :
    PipeStep sid sv (notifyChanged sv by_ names node od removed)
      (evsFor sid (changeEvents sv by_ names node od removed)) :=
  pipeStep_notifyChanged sid sv by_ names node od removed

/-- what `PipeStep` says, spelled out (`Sess.vcore` = `core` without max-items, parameter list, indexing flag and default
    route: what the data view reads) -/
theorem pipeStep_def (sid : Nat) (sv sv' : Server) (evs : List Ev) :
    PipeStep sid sv sv' evs ↔
      ∀ s, sv.sess? sid = some s → ∃ s' sent, sv'.sess? sid = some s' ∧ s'.vcore = s.vcore ∧
        dataLines s' = dataLines s ++ sent.map dataText ∧
        ∀ m, applyMsg (applyMsgs m sent) (pend s') = evs.foldl applyEv (applyMsg m (pend s)) := Iff.rfl

/-! ## 6. the specification and the steady-state steps

`visible s v`: the node at `v` is not one of `s`'s own, or `s` reflects to itself.  `Matches sv s p d`: a node below the
root whose path string is `p`, visible to `s`, matched by an entry of `s.subs` whose filter accepts its payload, has payload
`d`.  `MirrorOK sv s m := ∀ p d, m p = some d ↔ Matches sv s p d` (nothing missing, stale or extra).
`Unamb sv v`: no other existing node has the path string of `v` (true when no node name contains `/`).
`Sync sid s sv sv' m evs := PipeStep sid sv sv' evs ∧ (MirrorOK sv s m → MirrorOK sv' s (evs.foldl applyEv m))`. -/

theorem sync_def (sid : Nat) (s : Sess) (sv sv' : Server) (m : Mirror) (evs : List Ev) :
    Sync sid s sv sv' m evs ↔
      (PipeStep sid sv sv' evs ∧ (MirrorOK sv s m → MirrorOK sv' s (evs.foldl applyEv m))) := Iff.rfl

/-- the caller test of `NotifySubscribersThatNodeChanged` is `visible` for every node of the caller's subtree
    (session-node names are injective in the id: `sidName_inj`) -/
theorem caller_test_is_visible {sv : Server} {a sid : Nat} {sa s : Sess} (hsa : sv.sess? a = some sa)
    (hs : sv.sess? sid = some s) (w : List Bytes) :
    (sid ≠ a ∨ bySelfOf sv a = true) ↔ visible s (sessNames sa ++ w) = true :=
  caller_visible hsa hs w

/-- OVERWRITE.  `SetData(d)` on the existing node at `v`, then the notification with the old payload. -/
theorem step_mirror_overwrite {sv : Server} (hk : MK sv) {v : List Bytes} (hv : v ≠ []) {n0 : Node}
    (hn0 : getNode sv v = some n0) (d : Option Nat) (hu : Unamb sv v)
    {sid : Nat} {s : Sess} (hs : sv.sess? sid = some s) (hen : s.subsEnabled = true) (by_ : Nat)
    (hcaller : (sid ≠ by_ ∨ bySelfOf sv by_ = true) ↔ visible s v = true) (m : Mirror) :
    Sync sid s sv
      (notifyChanged (setNode sv v (fun n => n.setData d)) by_ v (n0.setData d) (some n0.data) false) m
      (evsFor sid (changeEvents (setNode sv v (fun n => n.setData d)) by_ v (n0.setData d) (some n0.data) false)) :=
  sync_overwrite hk hv hn0 d hu hs hen by_ hcaller m

/-- CREATION of a leaf (what `PutChild` + the created-notification do; `parent.length < fuelDepth`: the model has no
    `MUSCLE_MAX_NODE_DEPTH` check, a node created at depth 111 would be notified but is invisible to `getNode`). -/
theorem step_mirror_create {sv : Server} (hk : MK sv) (parent : List Bytes) (child : Node) (hleaf : child.kids = [])
    {p : Node} (hp : getNode sv parent = some p) (hkid : findKid child.name p.kids = none)
    (hlen : parent.length < fuelDepth)
    (hu1 : Unamb (setNode sv parent (fun q => q.setKids (putKid (child.setSubs (marksForNewNode sv (parent ++ [child.name])))
      q.kids))) (parent ++ [child.name]))
    {sid : Nat} {s : Sess} (hs : sv.sess? sid = some s) (hen : s.subsEnabled = true) (by_ : Nat)
    (hcaller : (sid ≠ by_ ∨ bySelfOf sv by_ = true) ↔ visible s (parent ++ [child.name]) = true) (m : Mirror) :
    Sync sid s sv
      (notifyChanged (setNode sv parent (fun q => q.setKids (putKid
        (child.setSubs (marksForNewNode sv (parent ++ [child.name]))) q.kids))) by_ (parent ++ [child.name])
        (child.setSubs (marksForNewNode sv (parent ++ [child.name]))) none false) m
      (evsFor sid (changeEvents (setNode sv parent (fun q => q.setKids (putKid
        (child.setSubs (marksForNewNode sv (parent ++ [child.name]))) q.kids))) by_ (parent ++ [child.name])
        (child.setSubs (marksForNewNode sv (parent ++ [child.name]))) none false)) :=
  sync_create hk parent child hleaf hp hkid hlen hu1 hs hen by_ hcaller m

/-- REMOVAL of a childless node: the notifying part of `RemoveChild` (`removeOneRest`: removed-notification first, then
    the node leaves the tree; `removeOne = removeOneRest ∘ removeIndexEntry`, C13 `log_replay_removeOne`). -/
theorem step_mirror_remove_leaf {sv : Server} (hti : TreeInv sv) (hk : MK sv) (parent : List Bytes) (key : Bytes)
    {c : Node} (hc : getNode sv (parent ++ [key]) = some c) (hleaf : c.kids = []) (hu : Unamb sv (parent ++ [key]))
    {sid : Nat} {s : Sess} (hs : sv.sess? sid = some s) (hen : s.subsEnabled = true) (by_ : Nat)
    (hcaller : (sid ≠ by_ ∨ bySelfOf sv by_ = true) ↔ visible s (parent ++ [key]) = true) (m : Mirror) :
    Sync sid s sv (removeOneRest sv by_ true parent key) m
      (evsFor sid (changeEvents sv by_ (parent ++ [key]) c (some c.data) true)) :=
  sync_removeRest hti hk parent key hc hleaf hu hs hen by_ hcaller m

/-- WHOLE COMMAND: PR_COMMAND_SETDATA by session `a` on a path of its own subtree whose node exists (`pathClauses path` = the
    `/`-split of the path without empty clauses: `a//b` means `a/b`).  For EVERY attached
    session `sid` with subscriptions enabled (the sender included): its pipe is fed exactly the listed events and a
    mirror that was right before is right afterwards. -/
theorem step_mirror_set_overwrite {sv : Server} (h : MReach sv) {a : Nat} {sa : Sess} (hsa : sv.sess? a = some sa)
    (path : Bytes) (hpath : ∀ c r, path = c :: r → c ≠ cSlash) (hne : pathClauses path ≠ []) (x : Nat) {n0 : Node}
    (hn : getNode sv (sessNames sa ++ pathClauses path) = some n0)
    (hu : Unamb sv (sessNames sa ++ pathClauses path))
    {sid : Nat} {s : Sess} (hs : sv.sess? sid = some s) (hen : s.subsEnabled = true) (m : Mirror) :
    Sync sid s sv (runCmd sv a (.set path x false)) m
      (evsFor sid (changeEvents (setNode sv (sessNames sa ++ pathClauses path) (fun n => n.setData (some x))) a
        (sessNames sa ++ pathClauses path) (n0.setData (some x)) (some n0.data) false)) :=
  sync_set_overwrite (mkt_reach h).2 hsa path hpath hne (some x) hn hu hs hen m

/-- WHOLE COMMAND: PR_COMMAND_SETDATA by session `a` on a path whose parent node exists and whose last clause does not
    (the node is created with the payload; `PutChild` without notification, then the created-notification). -/
theorem step_mirror_set_create {sv : Server} (h : MReach sv) {a : Nat} {sa : Sess} (hsa : sv.sess? a = some sa)
    (cls : List Bytes) (cl : Bytes) (path : Bytes) (hpath : ∀ c r, path = c :: r → c ≠ cSlash)
    (hsp : pathClauses path = cls ++ [cl]) (x : Nat) {p : Node}
    (hp : getNode sv (sessNames sa ++ cls) = some p) (hkid : findKid cl p.kids = none)
    (hlen : (sessNames sa ++ cls).length < fuelDepth)
    (hu1 : Unamb (putChild sv a (sessNames sa ++ cls) (Node.fresh cl (some x)) false) (sessNames sa ++ cls ++ [cl]))
    {sid : Nat} {s : Sess} (hs : sv.sess? sid = some s) (hen : s.subsEnabled = true) (m : Mirror) :
    Sync sid s sv (runCmd sv a (.set path x false)) m
      (evsFor sid (changeEvents (putChild sv a (sessNames sa ++ cls) (Node.fresh cl (some x)) false) a
        (sessNames sa ++ cls ++ [cl])
        ((Node.fresh cl (some x)).setSubs (marksForNewNode sv (sessNames sa ++ cls ++ [cl]))) none false)) :=
  sync_set_create_last (mkt_reach h).2 hsa cls cl path hpath hsp (some x) hp hkid hlen hu1 hs hen m

/-- steps chain, a push is an empty step -/
theorem step_chain {sid : Nat} {s : Sess} {a b c : Server} {m : Mirror} {e1 e2 : List Ev}
    (h1 : Sync sid s a b m e1) (h2 : Sync sid s b c (e1.foldl applyEv m) e2) :
    Sync sid s a c m (e1 ++ e2) ∧ Sync sid s c (pushAll c) ((e1 ++ e2).foldl applyEv m) [] :=
  ⟨h1.trans h2, sync_pushAll sid s c _⟩

/-- `converges`, the part that is proved: for ANY chain of `Sync` steps between two quiescent points (nothing pending for
    `sid` before and after — e.g. after `pushAll`: `pend_after_pushAll`), what was appended to the PR_RESULT_DATAITEMS lines
    of the inbox is the text of structured Messages `sent`, and the client that applies them one Message at a time
    (removals first, then sets) turns a right mirror into a right mirror.  Missing for the full `converges`: `Sync` for
    the remaining command classes (see the header) and the induction over the history. -/
theorem converges_partial {sid : Nat} {s : Sess} {sv sv' : Server} {m : Mirror} {evs : List Ev}
    (h : Sync sid s sv sv' m evs) (hs : sv.sess? sid = some s) (hq : pend s = {})
    (hq' : ∀ s', sv'.sess? sid = some s' → pend s' = {}) :
    ∃ s' sent, sv'.sess? sid = some s' ∧ s'.vcore = s.vcore ∧ dataLines s' = dataLines s ++ sent.map dataText ∧
      applyMsgs m sent = evs.foldl applyEv m ∧ (MirrorOK sv s m → MirrorOK sv' s (applyMsgs m sent)) :=
  replay_of_sync h hs hq hq'

/-! Non-vacuity of `step_mirror_set_overwrite` on `exSv` (session 1 owns `/i/1/a` = 5, session 0 subscribes to `a`): every
hypothesis holds for the sender `a = 1`, the path `a`, and the subscriber `sid = 0`. -/
theorem exSv_paths : (descendants fuelDepth exSv.root []).map (·.1) =
    [[[104]], [[104], [48]], [[105]], [[105], [49]], [[105], [49], [97]]] := by decide +kernel

theorem exSv_unamb : Unamb exSv [[105], [49], [97]] := by
  intro w hw hsome
  obtain ⟨n, hn⟩ := Option.isSome_iff_exists.1 hsome
  by_cases hw0 : w = []
  · subst hw0; exact absurd hw (by decide)
  · have hmem := (mr_mem_descendants fuelDepth exSv.root [] w n
      (mr_kidsNodup_of_allNodes _ _ (mkt_reach exSv_reach).1)).2 ⟨hw0, hn⟩
    have : w ∈ (descendants fuelDepth exSv.root []).map (·.1) :=
      List.mem_map.2 ⟨(w, n), by simpa using hmem, rfl⟩
    rw [exSv_paths] at this
    simp only [List.mem_cons, List.not_mem_nil, or_false] at this
    rcases this with rfl | rfl | rfl | rfl | rfl
    all_goals first | rfl | exact absurd hw (by decide)

example : ∃ sa s n0, exSv.sess? 1 = some sa ∧ exSv.sess? 0 = some s ∧ s.subsEnabled = true ∧
    sessNames sa ++ pathClauses [97] = [[105], [49], [97]] ∧
    getNode exSv (sessNames sa ++ pathClauses [97]) = some n0 ∧ n0.data = some 5 := by
  have h1 : (exSv.sess? 1).isSome = true := by decide +kernel
  have h0 : (exSv.sess? 0).isSome = true := by decide +kernel
  obtain ⟨sa, hsa⟩ := Option.isSome_iff_exists.1 h1
  obtain ⟨s, hs⟩ := Option.isSome_iff_exists.1 h0
  have hen : (exSv.sess? 0).map (·.subsEnabled) = some true := by decide +kernel
  have hnm : (exSv.sess? 1).map (fun sa => sessNames sa ++ pathClauses [97]) = some [[105], [49], [97]] := by decide +kernel
  have hd : (getNode exSv [[105], [49], [97]]).map (·.data) = some (some 5) := by decide +kernel
  rw [hs] at hen; rw [hsa] at hnm
  simp only [Option.map_some, Option.some.injEq] at hen hnm
  cases hn : getNode exSv [[105], [49], [97]] with
  | none => rw [hn] at hd; cases hd
  | some n0 =>
    rw [hn] at hd
    simp only [Option.map_some, Option.some.injEq] at hd
    exact ⟨sa, s, n0, hsa, hs, hen, hnm, by rw [hnm]; exact hn, hd⟩

/-! ## 7. steady-state commands in general; convergence over steady-state histories

`CReach sv` (Reflector/MirrorProofs14.lean) = `MReach sv` with every `attach` host name free of `/`.  `NS sv`: no node name
contains `/` (path clauses are split at `/`, generated names are `I<n>`, session-node names are decimal).  `Inv sv` =
`TreeInv sv ∧ MK sv ∧ NS sv`.  `SetOK path`: 2 + number of non-empty clauses ≤ 110 (the model has no
`MUSCLE_MAX_NODE_DEPTH` check).  `SyncAll sv sv'`: for EVERY attached session with subscriptions enabled and every mirror
`m` there are events `evs` with `Sync` (its pipe is fed exactly `evs`; `MirrorOK` before ⇒ `MirrorOK` after applying them).
`SyncFor sid` is the same for the one subscriber `sid`. -/

theorem creach_inv {sv : Server} (h : CReach sv) : Inv sv := h.inv

/-- in a `CReach` state every existing node's path string belongs to no other existing node -/
theorem names_unambiguous {sv : Server} (h : CReach sv) {v : List Bytes} {n : Node} (hn : getNode sv v = some n) :
    Unamb sv v :=
  h.ns.unamb (h.ns.names hn)

theorem syncAll_def (sv sv' : Server) :
    SyncAll sv sv' ↔ ∀ sid s, sv.sess? sid = some s → s.subsEnabled = true → ∀ m, ∃ evs, Sync sid s sv sv' m evs := Iff.rfl

/-- PR_COMMAND_SETDATA without flags, ANY sender, ANY path within the depth bound (existing clauses are walked, missing
    inner nodes are created without payload, the last node is created or overwritten): every enabled subscriber stays
    right, and the invariants are kept. -/
theorem step_mirror_set {sv : Server} (h : Inv sv) (a : Nat) (path : Bytes) (hok : SetOK path) (x : Nat) :
    SyncAll sv (runCmd sv a (.set path x false)) ∧ Inv (runCmd sv a (.set path x false)) := by
  obtain ⟨s1, g1⟩ := syncAll_set h.2 a path hok x
  exact ⟨s1, treeInv_runCmd a _ h.1, g1⟩

/-- `setm`: several payloads set one after the other WITHOUT a push in between. -/
theorem step_mirror_setm {sv : Server} (h : Inv sv) (a : Nat) (path : Bytes) (hok : SetOK path) (vs : List Nat) :
    SyncAll sv (vs.foldl (fun sv v => runCmd sv a (.set path v false)) sv) :=
  (syncAll_setm h.2 a path hok vs).1

/-- PR_COMMAND_REMOVEDATA (wildcards, nested subtrees: `RemoveChild(recurse)` takes every matched subtree apart children
    first), ANY sender. -/
theorem step_mirror_rm {sv : Server} (h : Inv sv) (a : Nat) (keys : List Bytes) :
    SyncAll sv (runCmd sv a (.rm keys)) ∧ Inv (runCmd sv a (.rm keys)) :=
  syncAll_removeData h a keys

/-- departure of ANOTHER session `t`: its subtree goes away with notifications, an emptied host node too. -/
theorem step_mirror_detach_other {sv : Server} (h : Inv sv) (t : Nat) {sid : Nat} (hne : sid ≠ t) :
    SyncFor sid sv (detach sv t) :=
  syncFor_detach h t hne

/-- `Steady sid`: histories made of SETDATA (no flags; `SetOK`), REMOVEDATA, pushes and departures of sessions other than
    `sid`, by any senders in any order (`setm` and BATCHes of these are such histories: `steady_setm`). -/
theorem steady_step {sid : Nat} {sv sv' : Server} (hst : Steady sid sv sv') (h : Inv sv) :
    SyncFor sid sv sv' ∧ Inv sv' :=
  steady_sync hst h

/-- CONVERGENCE, steady state (`converges_partial` instantiated).  From a state with the invariants (every `CReach` state:
    `creach_inv`) in which subscriber `sid` has nothing pending and holds a right mirror `m`, through ANY steady history,
    to a state in which it has nothing pending again (e.g. after a push): what was appended to the PR_RESULT_DATAITEMS
    lines of its inbox is the text of structured Messages `sent`, and the client that applies them in order — removals
    first, then sets, per Message — holds a right mirror: no matching node missing, none stale, none extra.
    Not in THIS theorem (see `converges`, section 14, and the coverage list in the header): histories containing
    SUBSCRIBE / re-filter / unsubscribe of `sid` itself, arrivals, INSERTORDEREDDATA / SETDATA with the index flag, and the
    parameter commands of `sid`. -/
theorem converges_steady {sid : Nat} {sv sv' : Server} (hst : Steady sid sv sv') (h : Inv sv) {s : Sess}
    (hs : sv.sess? sid = some s) (hen : s.subsEnabled = true) (hq : pend s = {})
    (hq' : ∀ s', sv'.sess? sid = some s' → pend s' = {}) (m : Mirror) (hm : MirrorOK sv s m) :
    ∃ s' sent, sv'.sess? sid = some s' ∧ s'.vcore = s.vcore ∧ dataLines s' = dataLines s ++ sent.map dataText ∧
      MirrorOK sv' s' (applyMsgs m sent) :=
  converges_steady_core hst h hs hen hq hq' m hm

/-! Non-vacuity: `exSv` is `CReach`; the path `a` is `SetOK`; "session 1 sets `a` to 6 and 7 (`setm`), removes `*`, then a
push, then session 1 departs" is a steady history for subscriber 0 starting in `exSv`. -/
theorem exSv_creach : CReach exSv :=
  .cmd 0 _ goodPath_a (.cmd 1 _ trivial (.attach 1 [105] (by decide) (.attach 0 [104] (by decide) .init)))

theorem setOK_a : SetOK [97] := by
  unfold SetOK
  have : (pathClauses [97]).length = 1 := by decide
  rw [this]; decide

example : Steady 0 exSv (detach (pushAll (runCmd ([6, 7].foldl (fun sv v => runCmd sv 1 (.set [97] v false)) exSv) 1
    (.rm [[42]]))) 1) :=
  .trans (steady_setm 0 1 [97] setOK_a [6, 7] exSv) (.trans (.rm 1 [[42]]) (.trans .push (.detach 1 (by decide))))

/-! ## 8. the subscriber's own SUBSCRIBE; quiet commands; convergence for a fixed subscription set

`snapEvs C vs` = one `set` per visited node that exists, in visit order.  `subC sv sid path f` = the state `DoGetData` runs on
inside `subscribe` (entry put, reference counts adjusted, parameter recorded), `subSess s path f` = the subscriber's record
there.  `SnapVisits C sC fix f`: the snapshot traversal (callback `GetDataCallback`) visits exactly the existing nodes the
new entry matches — path AND filter — that are `visible` to the subscriber. -/

/-- `DoGetData` as structured Messages: whatever `maxItems` is, and with index Messages (no data lines) interleaved, the
    data lines appended to the inbox are the text of Messages `sent` whose in-order application is the fold of one `set`
    per visited node; the tree and the rest of the session are untouched (`SD`). -/
theorem snapshot_replay (C : Server) (sid : Nat) (sC : Sess) (hs : C.sess? sid = some sC)
    (keys : List (Bytes × Option Filt)) (m : Mirror) :
    ∃ sent, SD C sid sC (doGetData C sid keys) sent ∧
      applyMsgs m sent =
        (snapEvs C (travGlobal C (pmOfKeys keys (some defaultPrefix)) true (getDataCb sC))).foldl applyEv m :=
  doGetData_replay C sid sC hs keys m

/-- for a session that reflects to itself `GetDataCallback` is the continue-callback and C05's theorem gives the visits -/
theorem snapVisits_reflect_self {C : Server} (hti : TreeInv C) {sC : Sess} (hr : sC.reflectSelf = true) {fix : Bytes}
    (hgood : GoodPath fix) (f : Option Filt) : SnapVisits C sC fix f :=
  snapVisits_reflectSelf hti hr hgood f

/-- SUBSCRIBE of a NEW path by `sid` itself (any earlier subscriptions allowed, `pmFind … = none`: F10 excluded for this
    path): the data lines of its inbox grow by the text of Messages `sent`, its pending Message is untouched, and a mirror
    that is right for the OLD subscription set is, after applying `sent`, right for the NEW one. -/
theorem step_mirror_subscribe_new {sv : Server} (hinv : Inv sv) {sid : Nat} {s : Sess} (hs : sv.sess? sid = some s)
    (path : Bytes) (f : Option Filt) (hgood : GoodPath (adjustPrefix path (some defaultPrefix)))
    (hf : pmFind s.subs (adjustPrefix path (some defaultPrefix)) = none)
    (hV : SnapVisits (subC sv sid path f) (subSess s path f) (adjustPrefix path (some defaultPrefix)) f)
    (m : Mirror) (hm : MirrorOK sv s m) :
    ∃ sD sent, (runCmd sv sid (.sub path f)).sess? sid = some sD ∧ sD.core = (subSess s path f).core ∧
      sD.nextData = s.nextData ∧ dataLines sD = dataLines s ++ sent.map dataText ∧
      MirrorOK (runCmd sv sid (.sub path f)) sD (applyMsgs m sent) :=
  subscribe_new_replay hinv hs path f hgood hf hV m hm

/-- quiet commands: PING, GETPARAMETERS and client-to-client Messages of anybody (also `sid`'s own: the lines are no data
    lines), parameter / SUBSCRIBE / unsubscribe commands of OTHER sessions: the pipe of `sid` makes an empty step and no
    payload of the tree changes. -/
theorem quiet_step {sid a : Nat} (sv : Server) (c : Cmd) (h : QuietCmd sid a c) :
    PipeStep sid sv (runCmd sv a c) [] ∧
    ∀ w, (getNode (runCmd sv a c) w).map Node.data = (getNode sv w).map Node.data :=
  quiet_runCmd sv c h

/-- `Hist sid`: `Steady` histories and quiet commands, in any order. -/
theorem hist_step {sid : Nat} {sv sv' : Server} (hh : Hist sid sv sv') (h : Inv sv) : SyncFor sid sv sv' ∧ Inv sv' :=
  hist_sync hh h

/-- CONVERGENCE for a subscription set established by ONE SUBSCRIBE (`converges` for the common case).  `sv0` satisfies
    the invariants (every `CReach` state, i.e. anything reached from the empty server: `creach_inv`); session `sid` is attached
    with no subscription yet, subscriptions enabled, nothing pending, and its client holds the empty mirror.  It sends
    SUBSCRIBE `path` with filter `f` (`GoodPath`; `SnapVisits`: `snapVisits_reflect_self`), then ANY `Hist sid` history
    happens (SETDATA, `setm`, REMOVEDATA, pushes, departures of others, and the quiet commands, by any senders in any
    order).  At every later point with nothing pending for `sid`: the PR_RESULT_DATAITEMS lines appended to its inbox since
    `sv0` are the text of Messages `sent`, and the client that applied them in order — removals first, then sets — holds
    exactly the nodes matching its subscription, with their current payloads.
    Not in THIS theorem (see `converges`, section 14): arrivals, INSERTORDEREDDATA / index flag / REORDERDATA, further
    (un)subscribes and parameter commands of `sid` itself; `SnapVisits` is a hypothesis here (discharged in section 12). -/
theorem converges_fixed_subs {sv0 sv' : Server} (h0 : Inv sv0) {sid : Nat} {s0 : Sess} (hs0 : sv0.sess? sid = some s0)
    (hnos : s0.subs = []) (hen : s0.subsEnabled = true) (hq0 : pend s0 = {}) (path : Bytes) (f : Option Filt)
    (hgood : GoodPath (adjustPrefix path (some defaultPrefix)))
    (hV : SnapVisits (subC sv0 sid path f) (subSess s0 path f) (adjustPrefix path (some defaultPrefix)) f)
    (hh : Hist sid (runCmd sv0 sid (.sub path f)) sv')
    (hq' : ∀ s', sv'.sess? sid = some s' → pend s' = {}) :
    ∃ s' sent, sv'.sess? sid = some s' ∧ dataLines s' = dataLines s0 ++ sent.map dataText ∧
      s'.subs = pmPut [] (adjustPrefix path (some defaultPrefix)) f ∧
      MirrorOK sv' s' (applyMsgs (fun _ => none) sent) :=
  converges_fixed_subs_core h0 hs0 hnos hen hq0 path f hgood hV hh hq'

/-! Non-vacuity: in `exSv1` (two sessions, session 1 owns `a` = 5, session 0 has the reflect-to-self parameter and no
subscription) the hypotheses of `converges_fixed_subs` hold for `sid = 0`, the path `a` and the history "session 1 sets `a`
to 6, pings, push". -/
def exSv1 : Server :=
  runCmd (runCmd (attach (attach {} 0 [104]).1 1 [105]).1 1 (.set [97] 5 false)) 0 .paramSelf

theorem exSv1_creach : CReach exSv1 :=
  .cmd 0 _ trivial (.cmd 1 _ trivial (.attach 1 [105] (by decide) (.attach 0 [104] (by decide) .init)))

example : (exSv1.sess? 0).map (fun s => (s.subs.length, s.subsEnabled, s.reflectSelf, s.nextData.isNone)) =
    some (0, true, true, true) := by decide +kernel

example : Hist 0 (runCmd exSv1 0 (.sub [97] none))
    (pushAll (runCmd (runCmd (runCmd exSv1 0 (.sub [97] none)) 1 (.set [97] 6 false)) 1 (.ping 3))) :=
  .trans (.steady (.set 1 [97] 6 setOK_a)) (.trans (.quiet 1 (.ping 3) trivial trivial) (.steady .push))

/-! ## 9. arrivals; unsubscribe with the client's drop rule

`FreshSessNode sv host`: the host node, if it exists, has no child named like the id the arriving session gets (ids are
never reused, session-node names are injective in the id: true in every reachable state; an explicit hypothesis here).
`namesOf p` = the names of a path string (inverse of `pathString` on slash-free names: `namesOf_pathString`).
`applyUnsub pm m` = the client's step after its own unsubscribe: keep a mirrored path `p` with payload `d` iff an entry of the
remaining matcher `pm` matches `namesOf p` and its filter accepts `d` (the server sends nothing on unsubscribe). -/

/-- ARRIVAL of another session, seen by a subscriber that is already attached: the created host node (if new) and session
    node are notified like any created node. -/
theorem step_mirror_attach_other {sv : Server} (h : Inv sv) (slot : Nat) (host : Bytes) (hh : cSlash ∉ host)
    (hfresh : FreshSessNode sv host) {sid : Nat} (hold : (sv.sess? sid).isSome) :
    SyncFor sid sv (attach sv slot host).1 ∧ Inv (attach sv slot host).1 :=
  ⟨syncFor_attach h slot host hh hfresh hold, h.attach slot host hh⟩

theorem applyUnsub_def (pm : PM) (m : Mirror) (p : Bytes) :
    applyUnsub pm m p = match m p with
      | some d => if pmMatchesPath pm (namesOf p) true d then some d else none
      | none => none := rfl

/-- UNSUBSCRIBE by `sid` itself (whatever the command does: entry removed and reference counts decremented, or nothing when
    the parameter / entry does not exist): nothing is sent, nothing pending changes, and the client that applies its drop
    rule with the REMAINING subscription set turns a right mirror for the old set into a right mirror for the new one. -/
theorem step_mirror_unsubscribe {sv : Server} (hinv : Inv sv) {sid : Nat} {s : Sess} (hs : sv.sess? sid = some s)
    (path : Bytes) (m : Mirror) (hm : MirrorOK sv s m) :
    ∃ s', (runCmd sv sid (.unsub path)).sess? sid = some s' ∧ s'.nextData = s.nextData ∧ s'.inbox = s.inbox ∧
      MirrorOK (runCmd sv sid (.unsub path)) s' (applyUnsub s'.subs m) :=
  unsubscribe_step hinv hs path m hm

/-- `History sid` = `Hist sid` plus arrivals of other sessions. -/
theorem history_step {sid : Nat} {sv sv' : Server} (hh : History sid sv sv') (h : Inv sv) :
    SyncFor sid sv sv' ∧ Inv sv' :=
  history_sync hh h

/-- `converges_fixed_subs` with arrivals in the history. -/
theorem converges_fixed_subs_arrivals {sv0 sv' : Server} (h0 : Inv sv0) {sid : Nat} {s0 : Sess}
    (hs0 : sv0.sess? sid = some s0) (hnos : s0.subs = []) (hen : s0.subsEnabled = true) (hq0 : pend s0 = {})
    (path : Bytes) (f : Option Filt) (hgood : GoodPath (adjustPrefix path (some defaultPrefix)))
    (hV : SnapVisits (subC sv0 sid path f) (subSess s0 path f) (adjustPrefix path (some defaultPrefix)) f)
    (hh : History sid (runCmd sv0 sid (.sub path f)) sv')
    (hq' : ∀ s', sv'.sess? sid = some s' → pend s' = {}) :
    ∃ s' sent, sv'.sess? sid = some s' ∧ dataLines s' = dataLines s0 ++ sent.map dataText ∧
      s'.subs = pmPut [] (adjustPrefix path (some defaultPrefix)) f ∧
      MirrorOK sv' s' (applyMsgs (fun _ => none) sent) :=
  converges_fixed_subs_history h0 hs0 hnos hen hq0 path f hgood hV hh hq'

/-! Non-vacuity: `FreshSessNode` holds in `exSv1` for a new host and for the existing host `h`; `namesOf` inverts
`pathString` on `/i/1/a`. -/
example : FreshSessNode exSv1 [106] := by
  intro hn hg
  have : getNode exSv1 [[106]] = none := by decide +kernel
  rw [this] at hg; cases hg
example : (getNode exSv1 [[104]]).map (fun hn => (findKid (sidName exSv1.nextSid) hn.kids).isSome) = some false := by
  decide +kernel
example : namesOf (pathString [[105], [49], [97]]) = [[105], [49], [97]] := by decide

/-! ## 10. the index commands; arrivals without hypothesis; `Story`

`InsDepthOK sv a key`: the nodes the insert traversal of session `a` visits lie above depth 110 (the model has no
`MUSCLE_MAX_NODE_DEPTH` check).  `HK sv`: every node `[host, x]` has `x = sidName k` with `k < sv.nextSid`.
`Inv2 sv = Inv sv ∧ HK sv` (every `CReach` state: `creach_inv2`).  `StoryCmd sid sv a c`: SETDATA (with or without the index
flag) within the depth bound; REMOVEDATA; INSERTORDEREDDATA (`InsDepthOK`); REORDERDATA; otherwise a quiet command that is
`CmdOK` — the index commands may be the subscriber's own.  `Story sid`: such commands, pushes, departures of others, arrivals. -/

/-- PR_COMMAND_INSERTORDEREDDATA of ANY session (the subscriber's own included; the sender's indexing flag is not part of
    `vcore`): each inserted child is a notified creation (generated name `I<n>`);
    counter, index entry and `NodeIndexChanged` do not touch the data view (index Messages are no data lines). -/
theorem step_mirror_ins_other {sid a : Nat} {sv : Server} (h : Inv sv) (key before : Bytes) (vals : List Nat)
    (hd : InsDepthOK sv a key) :
    SyncFor sid sv (runCmd sv a (.ins key before vals)) :=
  (syncFor_insertOrdered h.2 key before vals hd).1

/-- SETDATA with SETDATANODE_FLAG_ADDTOINDEX of ANY session (inner nodes created plainly, the last clause by
    `InsertOrderedChild`, nothing when it exists). -/
theorem step_mirror_set_indexed_other {sid a : Nat} {sv : Server} (h : Inv sv) (path : Bytes)
    (hok : SetOK path) (x : Nat) : SyncFor sid sv (runCmd sv a (.set path x true)) :=
  (syncFor_setIndexed h.2 path hok x).1

/-- PR_COMMAND_REORDERDATA of ANY session: an empty step of the data pipe, no payload changes. -/
theorem step_mirror_reorder_other (sid a : Nat) (sv : Server) (key before : Bytes) :
    PipeStep sid sv (runCmd sv a (.reorder key before)) [] ∧
    ∀ w, (getNode (runCmd sv a (.reorder key before)) w).map Node.data = (getNode sv w).map Node.data :=
  quiet_reorder sid a sv key before

theorem creach_inv2 {sv : Server} (h : CReach sv) : Inv2 sv := h.inv2

/-- in every reachable state an arriving session finds no child of its host node named like its id -/
theorem fresh_sess_node_reach {sv : Server} (h : CReach sv) (host : Bytes) : FreshSessNode sv host := h.fresh host

theorem story_step {sid : Nat} {sv sv' : Server} (hh : Story sid sv sv') (h : Inv2 sv) : SyncFor sid sv sv' ∧ Inv2 sv' :=
  story_sync hh h

/-- `converges_fixed_subs` over `Story`: after ONE SUBSCRIBE from the empty mirror, ANY interleaving of the commands of
    all sessions (every command class for the others; SETDATA, REMOVEDATA, PING, GETPARAMETERS and client-to-client
    Messages also for the subscriber itself), pushes, departures of others and arrivals keeps the replayed mirror right at
    every quiescent point.  Not in THIS theorem (see `converges`, section 14): further SUBSCRIBE / unsubscribe /
    parameter commands of the subscriber itself; `SnapVisits` is a hypothesis here (discharged in section 12). -/
theorem converges_fixed_subs_story_thm {sv0 sv' : Server} (h0 : Inv2 sv0) {sid : Nat} {s0 : Sess}
    (hs0 : sv0.sess? sid = some s0) (hnos : s0.subs = []) (hen : s0.subsEnabled = true) (hq0 : pend s0 = {})
    (path : Bytes) (f : Option Filt) (hgood : GoodPath (adjustPrefix path (some defaultPrefix)))
    (hV : SnapVisits (subC sv0 sid path f) (subSess s0 path f) (adjustPrefix path (some defaultPrefix)) f)
    (hh : Story sid (runCmd sv0 sid (.sub path f)) sv')
    (hq' : ∀ s', sv'.sess? sid = some s' → pend s' = {}) :
    ∃ s' sent, sv'.sess? sid = some s' ∧ dataLines s' = dataLines s0 ++ sent.map dataText ∧
      s'.subs = pmPut [] (adjustPrefix path (some defaultPrefix)) f ∧
      MirrorOK sv' s' (applyMsgs (fun _ => none) sent) :=
  converges_fixed_subs_story h0 hs0 hnos hen hq0 path f hgood hV hh hq'

/-! Non-vacuity: a `Story` for subscriber 0 from `runCmd exSv1 0 (.sub a)`: session 1 reorders, a third session arrives on
a new host, session 1 pings, push. -/
example : Story 0 (runCmd exSv1 0 (.sub [97] none))
    (pushAll (runCmd (attach (runCmd (runCmd exSv1 0 (.sub [97] none)) 1 (.reorder [42] [])) 2 [106]).1 1 (.ping 1))) :=
  .trans (.cmd 1 (.reorder [42] []) trivial)
    (.trans (.attach 2 [106] (by decide) (by decide +kernel)) (.trans (.cmd 1 (.ping 1) ⟨trivial, trivial⟩) .push))

/-! ## 11. `converges` with a changing subscription set

`In` = what the client consumes: `.data u` (a PR_RESULT_DATAITEMS Message) or `.unsub pm` (its own unsubscribe, with the
subscription set that remains); `client m items` = its fold (`applyMsg` — removals first, then sets — resp. `applyUnsub`);
`msgsOf items` = the Messages among them.  `SubNewOK sid sv path f`: `GoodPath`, the subscriber has no entry under this
normalised spelling yet (`pmFind … = none`: F10 excluded), `SnapVisits` (`subNewOK_reflect_self`: for a subscriber that reflects
to itself only the first two).  `Run sid`: `Story` segments that end with nothing pending for `sid` (every engine command is
followed by a push), SUBSCRIBEs of new paths by `sid`, unsubscribes by `sid`, in any order. -/

theorem subNewOK_reflect_self {sid : Nat} {sv : Server} (hti : TreeInv sv) (path : Bytes) (f : Option Filt)
    (hgood : GoodPath (adjustPrefix path (some defaultPrefix)))
    (h : ∀ s, sv.sess? sid = some s → s.reflectSelf = true ∧ pmFind s.subs (adjustPrefix path (some defaultPrefix)) = none) :
    SubNewOK sid sv path f :=
  subNewOK_of_reflectSelf hti path f hgood h

theorem client_def (m : Mirror) (items : List In) :
    client m items = items.foldl (fun m i => match i with | .data u => applyMsg m u | .unsub pm => applyUnsub pm m) m := by
  unfold client
  have : clientStep = (fun m i => match i with | .data u => applyMsg m u | .unsub pm => applyUnsub pm m) := by
    funext m i
    cases i <;> rfl
  rw [this]

/-- CONVERGENCE with a changing subscription set.  `sv0` satisfies the invariants (every `CReach` state: `creach_inv2`, i.e.
    anything reached from the empty server); `sid` is attached with no subscription, subscriptions enabled, nothing pending,
    and its client holds the empty mirror.  After ANY `Run sid` — its own SUBSCRIBEs of new paths (with or without filters),
    its own unsubscribes, and in between any interleaving of every command class of the other sessions, its own
    SETDATA / REMOVEDATA / PING / GETPARAMETERS / Messages, pushes, departures and arrivals —: nothing is pending, the data
    lines appended to its inbox are the text of the Messages among `items`, and the client's fold over `items` holds exactly
    the nodes matching its CURRENT subscription set with their current payloads.
    Not in THIS theorem (see `converges`, section 14): re-subscription of a held path with another filter (re-filter) and
    the subscriber's own parameter commands. -/
theorem converges_changing_subs {sid : Nat} {sv0 sv' : Server} (h0 : Inv2 sv0) {s0 : Sess} (hs0 : sv0.sess? sid = some s0)
    (hnos : s0.subs = []) (hen : s0.subsEnabled = true) (hq0 : pend s0 = {}) (hr : Run sid sv0 sv') :
    ∃ s' items, sv'.sess? sid = some s' ∧ pend s' = {} ∧
      dataLines s' = dataLines s0 ++ (msgsOf items).map dataText ∧
      MirrorOK sv' s' (client (fun _ => none) items) :=
  converges_run h0 hs0 hnos hen hq0 hr

/-! Non-vacuity: a `Run` for subscriber 0 from `exSv1`: it subscribes to `a`, session 1 sets `a` to 6 and a push follows, it
unsubscribes `a`. -/
theorem exSv1_sess0 : (exSv1.sess? 0).map (fun s => (s.subs.length, s.reflectSelf)) = some (0, true) := by decide +kernel

example : Run 0 exSv1 (runCmd (pushAll (runCmd (runCmd exSv1 0 (.sub [97] none)) 1 (.set [97] 6 false))) 0 (.unsub [97])) := by
  refine .trans (.subNew [97] none ?_) (.trans (.seg (.trans (.cmd 1 (.set [97] 6 false) setOK_a) .push) ?_) (.unsub [97]))
  · apply subNewOK_reflect_self (creach_inv2 exSv1_creach).1.1 [97] none goodPath_a
    intro s hs
    have h := exSv1_sess0
    rw [hs] at h
    simp only [Option.map_some, Option.some.injEq, Prod.mk.injEq] at h
    have hnil : s.subs = [] := List.eq_nil_of_length_eq_zero h.1
    exact ⟨h.2, by rw [hnil]; rfl⟩
  · intro s' hs'
    exact pend_after_pushAll (by decide +kernel) hs'

/-! ## 12. the snapshot traversal of plain sessions

`cbG own` = `GetDataCallback` of a session that neither reflects to itself nor carries the indexing flag and whose session
node is named `own`: `(false, 2)` on the nodes of its own subtree, `(true, depth)` elsewhere.  `ctxGg pm uf own` / `ctxCc pm uf`
= the traversal contexts from the global root with that callback / with the continue-callback. -/

/-- From the global root, for every matcher satisfying the hypotheses of C05, every tree with distinct sibling names and
    every fuel: the visits recorded with `GetDataCallback` are exactly the visits recorded with the continue-callback that
    do not lie in the own subtree (answering depth 2 on an own node at depth ≥ 4 unwinds to the session level, at depth 3
    it rules out the descent: nothing outside the own subtree is lost). -/
theorem getdata_visits (pm : PM) (uf : Bool) (own : Bytes) (hwf : pmWF pm = true) (hl : ClauseLaws pm) (fuel : Nat)
    (root : Node) (hk : kidsNodup fuel root = true) :
    ∀ v, v ∈ (travAux (ctxGg pm uf own) fuel root [] 0).1 ↔
      v ∈ (travAux (ctxCc pm uf) fuel root [] 0).1 ∧ ¬ ownerName v = some own :=
  travG_mem pm uf own hwf hl fuel root hk

/-- `SnapVisits` for a plain session. -/
theorem snapVisits_plain_session {C : Server} (hti : TreeInv C) {sC : Sess} (hr : sC.reflectSelf = false)
    (hi : sC.indexingPresent = false) {fix : Bytes} (hgood : GoodPath fix) (f : Option Filt) : SnapVisits C sC fix f :=
  snapVisits_plain hti hr hi hgood f

/-- the premises of a new SUBSCRIBE reduce to `GoodPath`, "not yet subscribed under this normalised spelling", and "the
    session reflects to itself or does not carry the indexing flag" -/
theorem subNewOK_by_rule {sid : Nat} {sv : Server} (hti : TreeInv sv) (path : Bytes) (f : Option Filt)
    (hgood : GoodPath (adjustPrefix path (some defaultPrefix)))
    (h : ∀ s, sv.sess? sid = some s → (s.reflectSelf = true ∨ s.indexingPresent = false) ∧
      pmFind s.subs (adjustPrefix path (some defaultPrefix)) = none) :
    SubNewOK sid sv path f :=
  subNewOK_of_rule hti path f hgood h

/-! Non-vacuity: in `exSv` (no reflect-to-self anywhere) session 1 — which OWNS `/i/1/a` — is a plain session without
subscription; its SUBSCRIBE of `a` satisfies `SubNewOK`. -/
theorem exSv_sess1 : (exSv.sess? 1).map (fun s => (s.subs.length, s.reflectSelf, s.indexingPresent)) =
    some (0, false, false) := by decide +kernel

example : SubNewOK 1 exSv [97] none := by
  apply subNewOK_by_rule (creach_inv2 exSv_creach).1.1 [97] none goodPath_a
  intro s hs
  have h := exSv_sess1
  rw [hs] at h
  simp only [Option.map_some, Option.some.injEq, Prod.mk.injEq] at h
  have hnil : s.subs = [] := List.eq_nil_of_length_eq_zero h.1
  exact ⟨Or.inr h.2.2, by rw [hnil]; rfl⟩

/-! ## 13. the subscriber's own parameter commands

`OwnParamCmd c`: max-items-per-update and default-route parameters, set or removed (NOT the reflect-to-self parameter: it
changes which nodes are visible and the server sends no snapshot for it).  `Quiescent sid sv s m`: invariants, `sid` attached
as `s` with subscriptions enabled, nothing pending, `MirrorOK sv s m`.  `Run2` = `Run` plus these commands of `sid` itself. -/

/-- Sent by the subscriber itself at a quiescent point, such a command leaves tree, pending Message, inbox and the
    specification of its mirror untouched. -/
theorem own_param_step {sid : Nat} {sv : Server} {s : Sess} {m : Mirror} (q : Quiescent sid sv s m) (c : Cmd)
    (hc : OwnParamCmd c) :
    ∃ s', Quiescent sid (runCmd sv sid c) s' m ∧ dataLines s' = dataLines s ∧ s'.sid = s.sid ∧
      s'.reflectSelf = s.reflectSelf :=
  ownParam_quiescent q c hc

/-- `converges_changing_subs` with the subscriber's own parameter commands in the run. -/
theorem converges_changing_subs_params {sid : Nat} {sv0 sv' : Server} (h0 : Inv2 sv0) {s0 : Sess}
    (hs0 : sv0.sess? sid = some s0) (hnos : s0.subs = []) (hen : s0.subsEnabled = true) (hq0 : pend s0 = {})
    (hr : Run2 sid sv0 sv') :
    ∃ s' items, sv'.sess? sid = some s' ∧ pend s' = {} ∧
      dataLines s' = dataLines s0 ++ (msgsOf items).map dataText ∧
      MirrorOK sv' s' (client (fun _ => none) items) :=
  converges_run2 h0 hs0 hnos hen hq0 hr

/-! Non-vacuity: session 0 of `exSv1` sets its max-items parameter to 1 before subscribing. -/
example : Run2 0 exSv1 (runCmd exSv1 0 (.paramMax 1)) := .ownParam (.paramMax 1) trivial


/-! ## 14. re-filter, the reflect-to-self parameter, and `converges`

`verdict g d`: the verdict of an entry's filter `g` on payload `d` (no filter: true).  `rfCond s fix e f v n`: the condition
under which `ChangeQueryFilterCallback` reports node `n` at `v` when the held entry `e` (normalised path `fix`) gets filter
`f`: the verdict changes and no OTHER entry of the session matches.  `RefilterOK sid sv path f`: the session reflects to
itself or does not carry the indexing flag, and it holds an entry under the normalised spelling of `path`.
`SelfOK sid sv`: the session holds no subscription or reflects to itself already.
`Run3` = `Run2` plus re-filter steps (with the engine's push) and the reflect-to-self parameter. -/

/-- RE-FILTER.  At a quiescent point the subscriber sends SUBSCRIBE for a path it holds.  The server feeds the changes of
    the filter verdict into the pending Message (flushing at `maxItems`), replaces the filter, delivers the snapshot of the
    new filter's matches STRAIGHT to the inbox while the rest of those changes is still pending, and the push sends the
    rest.  The client that applies everything in the order of arrival again holds a right mirror, now for the new filter;
    nothing is pending. -/
theorem step_mirror_refilter {sid : Nat} {sv : Server} {s : Sess} {m : Mirror} (q : Quiescent sid sv s m) (path : Bytes)
    (f : Option Filt) (hok : RefilterOK sid sv path f) :
    ∃ s' items, Quiescent sid (pushAll (runCmd sv sid (.sub path f))) s' (client m items) ∧
      dataLines s' = dataLines s ++ (msgsOf items).map dataText ∧ s'.sid = s.sid ∧ s'.reflectSelf = s.reflectSelf :=
  refilter_quiescent q path f hok

/-- for a subscriber that reflects to itself `RefilterOK` is "the path is held" -/
theorem refilterOK_reflect_self {sid : Nat} {sv : Server} (path : Bytes) (f : Option Filt)
    (h : ∀ s, sv.sess? sid = some s → s.reflectSelf = true ∧
      (pmFind s.subs (adjustPrefix path (some defaultPrefix))).isSome = true) : RefilterOK sid sv path f :=
  refilterOK_of_reflectSelf path f h

/-- `RefilterOK` spelled out: the rule of section 12 and "the path is held" -/
theorem refilterOK_by_rule {sid : Nat} {sv : Server} (path : Bytes) (f : Option Filt)
    (h : ∀ s, sv.sess? sid = some s → (s.reflectSelf = true ∨ s.indexingPresent = false) ∧
      (pmFind s.subs (adjustPrefix path (some defaultPrefix))).isSome = true) : RefilterOK sid sv path f :=
  refilterOK_of_rule path f h

/-- the nodes `ChangeQueryFilterCallback` is run on: the existing nodes the path's clauses match that are VISIBLE to the
    session — its own nodes are skipped unless it reflects to itself (the rule of `GetDataCallback`; coupling
    `getdata_visits`) -/
theorem refilter_visits {sv : Server} (hti : TreeInv sv) {s : Sess} (h : s.reflectSelf = true ∨ s.indexingPresent = false)
    {fix : Bytes} (hgood : GoodPath fix) :
    ∀ w, w ∈ travGlobal sv (pmPut [] fix none) false (getDataCb s) ↔
      ∃ n, w ≠ [] ∧ getNode sv w = some n ∧ clausesMatch (splitSlash fix) w = true ∧ visible s w = true :=
  rfVisits_of hti h hgood

/-- what the re-filter reports over visits `V`, as events: for every visited node whose verdict changes and that no other
    entry matches, a removal if the old verdict was true, a set otherwise -/
theorem refilter_events {s : Sess} {fix : Bytes} {e : Entry} {f : Option Filt} {sv : Server} {V : List Visit} {ev : Ev} :
    ev ∈ rfEvs s fix e f sv V ↔ ∃ w ∈ V, ∃ n, getNode sv w = some n ∧ rfCond s fix e f w n = true ∧
      ev = evOf (pathString w) n.data (verdict e.filter n.data) :=
  mem_rfEvs

/-- The subscriber's own reflect-to-self parameter at a quiescent point, under `SelfOK`: tree, pending Message, inbox and
    the specification of its mirror are untouched; from then on it reflects to itself. -/
theorem own_self_step {sid : Nat} {sv : Server} {s : Sess} {m : Mirror} (q : Quiescent sid sv s m) (hok : SelfOK sid sv) :
    ∃ s', Quiescent sid (runCmd sv sid .paramSelf) s' m ∧ dataLines s' = dataLines s ∧ s'.sid = s.sid ∧
      s'.subs = s.subs ∧ s'.reflectSelf = true :=
  selfParam_quiescent q hok

/-- the per-step form: from ANY quiescent point with a right mirror, a `Run3` leads to a quiescent point with a right
    mirror -/
theorem run3_quiescent {sid : Nat} {sv sv' : Server} (hr : Run3 sid sv sv') {s : Sess} {m : Mirror}
    (q : Quiescent sid sv s m) :
    ∃ s' items, Quiescent sid sv' s' (client m items) ∧
      dataLines s' = dataLines s ++ (msgsOf items).map dataText ∧ s'.sid = s.sid :=
  run3_step hr q

/-- CONVERGENCE, final form.  See "COVERAGE OF THE FINAL THEOREM" in the header of this file for the exact list of what a
    `Run3` may contain and what remains outside.  From a state with the invariants in which `sid` is attached with
    subscriptions enabled, no subscription, nothing pending, and an empty client mirror, after ANY `Run3 sid`: `sid` is
    attached, nothing is pending, the data lines appended to its inbox are the text of the Messages among `items`, and the
    client's fold over `items` holds exactly the nodes that are visible to it and match its CURRENT subscription set, with
    their CURRENT payloads. -/
theorem converges {sid : Nat} {sv0 sv' : Server} (h0 : Inv2 sv0) {s0 : Sess} (hs0 : sv0.sess? sid = some s0)
    (hnos : s0.subs = []) (hen : s0.subsEnabled = true) (hq0 : pend s0 = {}) (hr : Run3 sid sv0 sv') :
    ∃ s' items, sv'.sess? sid = some s' ∧ pend s' = {} ∧
      dataLines s' = dataLines s0 ++ (msgsOf items).map dataText ∧
      MirrorOK sv' s' (client (fun _ => none) items) :=
  converges_run3 h0 hs0 hnos hen hq0 hr

/-- the same from any state the engine reaches with slash-free host names -/
theorem converges_reach {sid : Nat} {sv0 sv' : Server} (h0 : CReach sv0) {s0 : Sess} (hs0 : sv0.sess? sid = some s0)
    (hnos : s0.subs = []) (hen : s0.subsEnabled = true) (hq0 : pend s0 = {}) (hr : Run3 sid sv0 sv') :
    ∃ s' items, sv'.sess? sid = some s' ∧ pend s' = {} ∧
      dataLines s' = dataLines s0 ++ (msgsOf items).map dataText ∧
      MirrorOK sv' s' (client (fun _ => none) items) :=
  converges_run3 h0.inv2 hs0 hnos hen hq0 hr

/-! Non-vacuity.  (The examples that evaluate a filter use the path `*` — normalised `*/*/*` — because the kernel cannot
evaluate `globMatch` on a literal clause.) -/

def fGt (n : Nat) : Filt := { op := 2, val := n }

theorem goodPath_star : GoodPath (adjustPrefix [42] (some defaultPrefix)) := by
  have hs : splitSlash (adjustPrefix [42] (some defaultPrefix)) = [[42], [42], [42]] := by decide
  unfold GoodPath
  rw [hs]
  refine ⟨by decide, ?_⟩
  intro c hc
  simp only [List.mem_cons, List.not_mem_nil, or_false] at hc
  rcases hc with rfl | rfl | rfl <;> exact laws_star

/-- session 0 of `exSv1` (it reflects to itself) after its SUBSCRIBE of `*` -/
def exSv2 : Server := runCmd exSv1 0 (.sub [42] none)

theorem exSv2_sess0 : (exSv2.sess? 0).map (fun s => (s.reflectSelf,
    (pmFind s.subs (adjustPrefix [42] (some defaultPrefix))).isSome)) = some (true, true) := by decide +kernel

/-- a `Run3`: session 0 subscribes to `*`, then re-subscribes with the filter "> 5" -/
example : Run3 0 exSv1 (pushAll (runCmd exSv2 0 (.sub [42] (some (fGt 5))))) := by
  refine .trans (.run (.run (.subNew [42] none ?_))) (.refilter [42] (some (fGt 5)) ?_)
  · apply subNewOK_reflect_self (creach_inv2 exSv1_creach).1.1 [42] none goodPath_star
    intro s hs
    have h := exSv1_sess0
    rw [hs] at h
    simp only [Option.map_some, Option.some.injEq, Prod.mk.injEq] at h
    have hnil : s.subs = [] := List.eq_nil_of_length_eq_zero h.1
    exact ⟨h.2, by rw [hnil]; rfl⟩
  · apply refilterOK_reflect_self
    intro s hs
    have h := exSv2_sess0
    rw [show exSv2.sess? 0 = some s from hs] at h
    simp only [Option.map_some, Option.some.injEq, Prod.mk.injEq] at h
    exact h

/-- what session 0 holds after that re-filter, before the push: one line in the inbox (the snapshot of its first SUBSCRIBE
    with `/i/1/a` = 5; the second snapshot is empty), and the removal of `/i/1/a` (5 > 5 fails) pending -/
example : ((runCmd exSv2 0 (.sub [42] (some (fGt 5)))).sess? 0).map (fun s => decide (s.inbox.length = 1 ∧
    (pend s).removed = [pathString [[105], sidName 1, [97]]] ∧ (pend s).sets = [])) = some true := by decide +kernel

/-- a plain session: session 0 of `exSv` holds `a`; re-subscribing it with a filter satisfies `RefilterOK` -/
theorem exSv_sess0 : (exSv.sess? 0).map (fun s => (s.reflectSelf, s.indexingPresent,
    (pmFind s.subs (adjustPrefix [97] (some defaultPrefix))).isSome)) = some (false, false, true) := by
  decide +kernel

example : RefilterOK 0 exSv [97] (some (fGt 5)) := by
  apply refilterOK_by_rule
  intro s hs
  have h := exSv_sess0
  rw [hs] at h
  simp only [Option.map_some, Option.some.injEq, Prod.mk.injEq] at h
  exact ⟨Or.inr h.2.1, h.2.2⟩

/-- the reflect-to-self parameter of a plain session without subscription (session 1 of `exSv`) -/
example : Run3 1 exSv (runCmd exSv 1 .paramSelf) := by
  refine .ownSelf ?_
  intro s hs
  have h := exSv_sess1
  rw [hs] at h
  simp only [Option.map_some, Option.some.injEq, Prod.mk.injEq] at h
  exact Or.inl (List.eq_nil_of_length_eq_zero h.1)

/-! Own nodes are not reported.  `exOwn`: session 1, plain, owns `/i/1/a` = 5 and holds `*` with the filter "> 7": its
inbox is empty, nothing is pending, the node is invisible to it.  It re-subscribes to `*` without filter (`RefilterOK`
holds): the verdict on its own node changes from false to true and no other entry matches it, but nothing is fed and the
snapshot is empty.  `refilterOld` = the re-filter fold over the visits of the continue-callback (the rule before the
repair of `ChangeQueryFilterCallback`): it put a `set` of the session's OWN node into its pending Message. -/
def exOwn : Server :=
  runCmd (runCmd (attach (attach {} 0 [104]).1 1 [105]).1 1 (.set [97] 5 false)) 1 (.sub [42] (some (fGt 7)))

theorem exOwn_sess1 : (exOwn.sess? 1).map (fun s => (s.reflectSelf, s.indexingPresent, s.inbox.length, s.nextData.isNone,
    visible s [[105], sidName 1, [97]], (pmFind s.subs (adjustPrefix [42] (some defaultPrefix))).isSome)) =
    some (false, false, 0, true, false, true) := by decide +kernel

example : RefilterOK 1 exOwn [42] none := by
  apply refilterOK_by_rule
  intro s hs
  have h := exOwn_sess1
  rw [hs] at h
  simp only [Option.map_some, Option.some.injEq, Prod.mk.injEq] at h
  exact ⟨Or.inr h.2.1, h.2.2.2.2.2⟩

example : ((runCmd exOwn 1 (.sub [42] none)).sess? 1).map (fun s => decide (s.inbox.length = 0 ∧
    (pend s).removed = [] ∧ (pend s).sets = [])) = some true := by
  decide +kernel

def refilterOld (sv : Server) (sid : Nat) (path : Bytes) (f : Option Filt) : Server :=
  match sv.sess? sid with
  | none => sv
  | some s =>
    match pmFind s.subs (adjustPrefix path (some defaultPrefix)) with
    | none => sv
    | some e =>
      (travGlobal sv (pmPut [] (adjustPrefix path (some defaultPrefix)) none) false cbContinue).foldl
        (rfStep s sid (adjustPrefix path (some defaultPrefix)) e f) sv

example : ((refilterOld exOwn 1 [42] none).sess? 1).map (fun s => decide (s.inbox.length = 0 ∧
    (pend s).removed = [] ∧ (pend s).sets = [(pathString [[105], sidName 1, [97]], [some 5])])) = some true := by
  decide +kernel

end Muscle.Props.C04
