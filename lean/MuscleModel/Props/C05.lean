import MuscleModel.Reflector.TravProofsCouple
import MuscleModel.Reflector.Handlers

/-!
# C05 — the wildcard traversal visits exactly the nodes a one-by-one path test selects, once each

Property theorems only (lemmas: `Reflector/TravProofs.lean`, `TravProofsLevel.lean`, `TravProofsMain.lean`; model of
`NodePathMatcher::DoTraversalAux` / `DoDirectChildLookup` / `CheckChildForTraversal`: `Reflector/Traverse.lean`).

Hypotheses (all defined in `Reflector/TravProofs*.lean`):
* `pmWF pm` (Bool): every entry sits in the group keyed by its clause count (`PutPathString` guarantees it);
* `kidsNodup fuel node` (Bool): sibling names pairwise distinct at every level the fuel reaches (a `Hashtable` of children);
* `ClauseLaws pm`: for every clause pattern `c` of `pm` the two facts imported from the pattern layer (C15),
  `UniqueLaw c := isUnique c → ∀ s, clauseMatch c s = (s == unescape c)` and
  `UVListLaw c := isUVList c → ∀ s, clauseMatch c s = ((splitCommas c).filter (¬ ·.isEmpty)).any (s == unescape ·)`;
  they are what makes the literal-lookup fast path agree with the child-iteration path.
NOT needed: distinct group keys, distinct entry paths inside a group, `clauses.length ≥ 1`.
Further theorems: `route_once_per_session_node` / `route_once_per_session` / `route_sessions_exact` for the
skip-to-next-session callback of `route` (hypothesis `pmMinClauses 3 pm`; the example at the end shows it cannot be
weakened to 2: the known double delivery when a pattern for the session node itself accompanies a deeper one).
The traversal and the brute-force oracle consume fuel in lock step (one unit per tree level), so the statement holds
for every `fuel` with the same value on both sides; `traversal_eq_bruteforce_any_fuel` removes the coupling for fuel
covering the tree (`fits`).
-/

namespace Muscle.Props.C05
open Muscle Muscle.Reflector

/-- MAIN: with the continue-callback the traversal records exactly the relative paths of the descendants that
    `PathMatcher::MatchesPath` accepts when tested one by one (with the node's data iff `useFilters`), and records
    none of them twice; for every tree, matcher, `useFilters`, root depth and fuel. -/
theorem traversal_eq_bruteforce (pm : PM) (useFilters : Bool) (rd : Nat) (node : Node) (fuel : Nat)
    (hwf : pmWF pm = true) (hlaws : ClauseLaws pm) (hkids : kidsNodup fuel node = true) :
    (∀ v, v ∈ doTraversal pm useFilters rd cbContinue node fuel ↔ v ∈ bruteForce pm useFilters node fuel) ∧
    (doTraversal pm useFilters rd cbContinue node fuel).Nodup := by
  constructor
  · intro v
    have h := travAux_mem { pm := pm, useFilters := useFilters, rootDepth := rd, cb := cbContinue } rfl hwf hlaws
      fuel node [] hkids (SingleInv_nil pm) v
    simp only [List.length_nil, Nat.add_zero] at h
    unfold doTraversal bruteForce
    rw [h]
    simp only [List.mem_map, List.mem_filter]
    constructor
    · rintro ⟨n, hd, hP⟩; exact ⟨(v, n), ⟨hd, hP⟩, rfl⟩
    · rintro ⟨⟨v', n⟩, ⟨hd, hP⟩, rfl⟩; exact ⟨n, hd, hP⟩
  · exact (travAux_nodup_prefix { pm := pm, useFilters := useFilters, rootDepth := rd, cb := cbContinue } rfl hwf hlaws
      fuel node [] rd hkids).1

/-- the same with independent fuel on both sides, once the fuel covers the tree (`fits fuel₀ node`: the tree below
    `node` is at most `fuel₀` levels deep) -/
theorem traversal_eq_bruteforce_any_fuel (pm : PM) (useFilters : Bool) (rd : Nat) (node : Node) (fuel₀ fuel fuel' : Nat)
    (hfit : fits fuel₀ node = true) (hf : fuel₀ ≤ fuel) (hf' : fuel₀ ≤ fuel')
    (hwf : pmWF pm = true) (hlaws : ClauseLaws pm) (hkids : kidsNodup fuel node = true) :
    (∀ v, v ∈ doTraversal pm useFilters rd cbContinue node fuel ↔ v ∈ bruteForce pm useFilters node fuel') ∧
    (doTraversal pm useFilters rd cbContinue node fuel).Nodup := by
  obtain ⟨h1, h2⟩ := traversal_eq_bruteforce pm useFilters rd node fuel hwf hlaws hkids
  refine ⟨fun v => ?_, h2⟩
  rw [h1 v]
  unfold bruteForce
  obtain ⟨j, rfl⟩ := Nat.exists_eq_add_of_le hf
  obtain ⟨j', rfl⟩ := Nat.exists_eq_add_of_le hf'
  rw [descendants_stable fuel₀ node [] hfit j, descendants_stable fuel₀ node [] hfit j']

/-! ### non-vacuity: a tree and a two-group matcher (`a/*` with both code paths, and the comma list `a,b`) satisfying
    every hypothesis; level 0 takes the literal-lookup path, level 1 the child-iteration path, and
    `#eval doTraversal exPM true 0 cbContinue exTree 3` = `[[a,x],[a,y],[a],[b]]` (brute force: `[[a],[a,x],[a,y],[b]]`) -/

def exTree : Node :=
  .mk [] none [.mk [97] (some 1) [.mk [120] none [] [] 0 [], .mk [121] none [] [] 0 []] [] 0 [],
               .mk [98] none [] [] 0 [], .mk [99] none [] [] 0 []] [] 0 []

def exPM : PM :=
  [(2, [{ path := [97, 47, 42], clauses := [[97], [42]], filter := none }]),
   (1, [{ path := [97, 44, 98], clauses := [[97, 44, 98]], filter := none }])]

example : pmWF exPM = true ∧ kidsNodup 3 exTree = true ∧ fits 2 exTree = true := by decide

example : ClauseLaws exPM := by
  intro e he c hc
  simp [allEntries, exPM] at he
  rcases he with rfl | rfl
  · simp at hc
    rcases hc with rfl | rfl
    · exact ⟨uniqueLaw_a, uvListLaw_a⟩
    · exact laws_star
  · simp at hc; subst hc
    exact ⟨uniqueLaw_ab, uvListLaw_ab⟩


/-! ## routing: one delivery per session

`route` (Handlers.lean, `PassMessageCallbackAux`) runs the traversal from the global root (`rootDepth = 0`) with the
callback `fun _ _ _ => (true, 1)` (deliver, return `NODE_DEPTH_HOSTNAME` = skip to the next session). -/

/-- With the skip callback and every pattern at least 3 clauses deep (`pmMinClauses 3`: host/session/node…, what the
    implicit `*/*` prefix of relative patterns yields), at most one visit is recorded below each session node: the
    (host, session) prefixes of the recorded paths are pairwise different, and each visit lies below a session node
    of the tree.  No pattern law and no `pmWF` is needed. -/
theorem route_once_per_session_node (pm : PM) (useFilters : Bool) (node : Node) (fuel : Nat)
    (hmin : pmMinClauses 3 pm = true) (hkids : kidsNodup fuel node = true) :
    ((doTraversal pm useFilters 0 (fun _ _ _ => (true, 1)) node fuel).map (List.take 2)).Nodup ∧
    ∀ v ∈ doTraversal pm useFilters 0 (fun _ _ _ => (true, 1)) node fuel,
      ∃ h ∈ node.kids, ∃ s ∈ h.kids, [h.name, s.name] <+: v :=
  travAux_root { pm := pm, useFilters := useFilters, rootDepth := 0, cb := cbSkip } rfl rfl hmin fuel node hkids

/-- … hence, when session names are unique across hosts (`SessUnique`: session ids are server-wide unique), the
    visits have pairwise different `ownerName`: `route` delivers at most once to each session. -/
theorem route_once_per_session (pm : PM) (useFilters : Bool) (node : Node) (fuel : Nat)
    (hmin : pmMinClauses 3 pm = true) (hkids : kidsNodup fuel node = true) (hsess : SessUnique node) :
    ((doTraversal pm useFilters 0 (fun _ _ _ => (true, 1)) node fuel).map ownerName).Nodup := by
  obtain ⟨h1, h2⟩ := route_once_per_session_node pm useFilters node fuel hmin hkids
  refine nodup_map_of_pairwise h1 ?_
  intro x hx y hy hxy
  obtain ⟨h, hh, s, hs, hp⟩ := h2 x hx
  obtain ⟨h', hh', s', hs', hp'⟩ := h2 y hy
  rw [take2_of_prefix hp, take2_of_prefix hp']
  obtain ⟨t, rfl⟩ := hp
  obtain ⟨t', rfl⟩ := hp'
  simp [ownerName] at hxy
  rw [hxy, hsess h hh h' hh' s hs s' hs' hxy]

/-- the same for the traversal `route` performs on a server state -/
theorem route_once_per_session_server (sv : Server) (pm : PM)
    (hmin : pmMinClauses 3 pm = true) (hkids : kidsNodup fuelDepth sv.root = true) (hsess : SessUnique sv.root) :
    ((travGlobal sv pm true (fun _ _ _ => (true, 1))).map ownerName).Nodup :=
  route_once_per_session pm true sv.root fuelDepth hmin hkids hsess

/-- Which sessions get the Message: with the skip callback (and every pattern ≥ 3 clauses deep) every recorded
    visit is a node the one-by-one test accepts, and every node the one-by-one test accepts has a recorded visit
    in the same session subtree (same (host, session) prefix).  Together with `route_once_per_session_node`:
    exactly one visit in each session that owns at least one matching node, none in any other. -/
theorem route_sessions_exact (pm : PM) (useFilters : Bool) (node : Node) (fuel : Nat)
    (hmin : pmMinClauses 3 pm = true) (hwf : pmWF pm = true) (hlaws : ClauseLaws pm)
    (hkids : kidsNodup fuel node = true) :
    (∀ v ∈ doTraversal pm useFilters 0 (fun _ _ _ => (true, 1)) node fuel, v ∈ bruteForce pm useFilters node fuel) ∧
    (∀ w ∈ bruteForce pm useFilters node fuel,
       ∃ v ∈ doTraversal pm useFilters 0 (fun _ _ _ => (true, 1)) node fuel, v.take 2 = w.take 2) := by
  obtain ⟨h1, h2⟩ := root_sameSess pm useFilters hmin hwf hlaws fuel node hkids
  have hb := (traversal_eq_bruteforce pm useFilters 0 node fuel hwf hlaws hkids).1
  constructor
  · intro v hv; exact (hb v).1 (h1 v hv)
  · intro w hw; exact h2 w ((hb w).2 hw)

/-! ### non-vacuity, and the known exception: with a pattern for the session node itself next to a deeper one
    (`pmMinClauses 2` only) the same session is visited twice -/

def exSrvTree : Node :=
  .mk [] none [.mk [104] none [.mk [115] none [.mk [120] none [] [] 0 []] [] 0 [],
                               .mk [116] none [.mk [120] none [] [] 0 []] [] 0 []] [] 0 []] [] 0 []

def exPM3 : PM := [(3, [{ path := [], clauses := [[42], [42], [42]], filter := none }])]
def exPM2 : PM := [(3, [{ path := [], clauses := [[42], [42], [42]], filter := none }]),
                   (2, [{ path := [], clauses := [[42], [42]], filter := none }])]

example : pmMinClauses 3 exPM3 = true ∧ pmWF exPM3 = true ∧ kidsNodup 4 exSrvTree = true := by decide
example : ClauseLaws exPM3 := by
  intro e he c hc
  simp [allEntries, exPM3] at he
  subst he
  simp at hc
  subst hc
  exact laws_star
example : SessUnique exSrvTree := by
  intro h hh h' hh' _ _ _ _ _
  simp [exSrvTree, Node.kids] at hh hh'
  rw [hh, hh']


/-- the known exception, on the model: `*/*/*` together with `*/*` (only `pmMinClauses 2`) visits every session twice -/
example : pmMinClauses 2 exPM2 = true ∧ pmWF exPM2 = true ∧ kidsNodup 4 exSrvTree = true ∧
    doTraversal exPM2 true 0 (fun _ _ _ => (true, 1)) exSrvTree 4
      = [[[104], [115], [120]], [[104], [115]], [[104], [116], [120]], [[104], [116]]] ∧
    ¬ ((doTraversal exPM2 true 0 (fun _ _ _ => (true, 1)) exSrvTree 4).map ownerName).Nodup := by decide

end Muscle.Props.C05
