import MuscleModel.Reflector.RouteProofs
import MuscleModel.Reflector.OrderProofs
import MuscleModel.Reflector.TravProofsCouple
import MuscleModel.Reflector.Handlers
import MuscleModel.Reflector.BroadcastProofs

/-!
# C05 — the wildcard traversal visits exactly the nodes a one-by-one path test selects, once each

Property theorems only (lemmas: `Reflector/TravProofs.lean`, `TravProofsLevel.lean`, `TravProofsMain.lean`,
`TravProofsRoute.lean`, `TravProofsCouple.lean`; model of
`NodePathMatcher::DoTraversalAux` / `DoDirectChildLookup` / `CheckChildForTraversal`: `Reflector/Traverse.lean`).

Hypotheses (all defined in `Reflector/TravProofs*.lean`):
* `pmWF pm` (Bool): every entry sits in the group keyed by its clause count (`PutPathString` guarantees it);
* `kidsNodup fuel node` (Bool): sibling names pairwise distinct at every level the fuel reaches (a `Hashtable` of children);
* `ClauseLaws pm`: for every clause pattern `c` of `pm` the two facts imported from the pattern layer (C15),
  `UniqueLaw c := isUnique c → ∀ s, clauseMatch c s = (s == unescape c)` and
  `UVListLaw c := isUVList c → ∀ s, clauseMatch c s = ((splitCommas c).filter (¬ ·.isEmpty)).any (s == unescape ·)`;
  they are what makes the literal-lookup fast path agree with the child-iteration path.
NOT needed: distinct group keys, distinct entry paths inside a group, `clauses.length ≥ 1`.
Further theorems: `route_once_per_session_node` / `route_once_per_session` / `route_sessions_exact` for the
skip-to-next-session callback of `route`, hypothesis `pmMinClauses 2 pm` (with the rule of `CheckChildForTraversal`
repaired for finding F27; the statements with `pmMinClauses 3` that held before are kept as `…_min3` corollaries, and
the examples at the end run the F27 shape under the repaired rule and under a copy of the old rule).
The traversal and the brute-force oracle consume fuel in lock step (one unit per tree level), so the statement holds
for every `fuel` with the same value on both sides; `traversal_eq_bruteforce_any_fuel` removes the coupling for fuel
covering the tree (`fits`).
-/

namespace Muscle.Props.C05
open Muscle Muscle.Reflector

/-- MAIN: with the continue-callback the traversal records exactly the relative paths of the descendants that
    `PathMatcher::MatchesPath` accepts when tested one by one (with the node's data iff `useFilters`), and records
    none of them twice; for every tree, matcher, `useFilters`, root depth and fuel. -/
theorem traversal_eq_bruteforce (pm : PM) (useFilters : Bool) (rd : Nat) (node : Node) (fuel : Nat)
    (hwf : pmWF pm = true) (hlaws : ClauseLaws pm) (hkids : kidsNodup fuel node = true) :
    (∀ v, v ∈ doTraversal pm useFilters rd cbContinue node fuel ↔ v ∈ bruteForce pm useFilters node fuel) ∧
    (doTraversal pm useFilters rd cbContinue node fuel).Nodup := by
  constructor
  · intro v
    have h := travAux_mem { pm := pm, useFilters := useFilters, rootDepth := rd, cb := cbContinue } rfl hwf hlaws
      fuel node [] hkids (SingleInv_nil pm) v
    simp only [List.length_nil, Nat.add_zero] at h
    unfold doTraversal bruteForce
    rw [h]
    simp only [List.mem_map, List.mem_filter]
    constructor
    · rintro ⟨n, hd, hP⟩; exact ⟨(v, n), ⟨hd, hP⟩, rfl⟩
    · rintro ⟨⟨v', n⟩, ⟨hd, hP⟩, rfl⟩; exact ⟨n, hd, hP⟩
  · exact (travAux_nodup_prefix { pm := pm, useFilters := useFilters, rootDepth := rd, cb := cbContinue } rfl hwf hlaws
      fuel node [] rd hkids).1

/-- the same with independent fuel on both sides, once the fuel covers the tree (`fits fuel₀ node`: the tree below
    `node` is at most `fuel₀` levels deep) -/
theorem traversal_eq_bruteforce_any_fuel (pm : PM) (useFilters : Bool) (rd : Nat) (node : Node) (fuel₀ fuel fuel' : Nat)
    (hfit : fits fuel₀ node = true) (hf : fuel₀ ≤ fuel) (hf' : fuel₀ ≤ fuel')
    (hwf : pmWF pm = true) (hlaws : ClauseLaws pm) (hkids : kidsNodup fuel node = true) :
    (∀ v, v ∈ doTraversal pm useFilters rd cbContinue node fuel ↔ v ∈ bruteForce pm useFilters node fuel') ∧
    (doTraversal pm useFilters rd cbContinue node fuel).Nodup := by
  obtain ⟨h1, h2⟩ := traversal_eq_bruteforce pm useFilters rd node fuel hwf hlaws hkids
  refine ⟨fun v => ?_, h2⟩
  rw [h1 v]
  unfold bruteForce
  obtain ⟨j, rfl⟩ := Nat.exists_eq_add_of_le hf
  obtain ⟨j', rfl⟩ := Nat.exists_eq_add_of_le hf'
  rw [descendants_stable fuel₀ node [] hfit j, descendants_stable fuel₀ node [] hfit j']

/-! ### non-vacuity: a tree and a two-group matcher (`a/*` with both code paths, and the comma list `a,b`) satisfying
    every hypothesis; level 0 takes the literal-lookup path, level 1 the child-iteration path, and
    `#eval doTraversal exPM true 0 cbContinue exTree 3` = `[[a,x],[a,y],[a],[b]]` (brute force: `[[a],[a,x],[a,y],[b]]`) -/

def exTree : Node :=
  .mk [] none [.mk [97] (some 1) [.mk [120] none [] [] 0 [], .mk [121] none [] [] 0 []] [] 0 [],
               .mk [98] none [] [] 0 [], .mk [99] none [] [] 0 []] [] 0 []

def exPM : PM :=
  [(2, [{ path := [97, 47, 42], clauses := [[97], [42]], filter := none }]),
   (1, [{ path := [97, 44, 98], clauses := [[97, 44, 98]], filter := none }])]

example : pmWF exPM = true ∧ kidsNodup 3 exTree = true ∧ fits 2 exTree = true := by decide

example : ClauseLaws exPM := by
  intro e he c hc
  simp [allEntries, exPM] at he
  rcases he with rfl | rfl
  · simp at hc
    rcases hc with rfl | rfl
    · exact ⟨uniqueLaw_a, uvListLaw_a⟩
    · exact laws_star
  · simp at hc; subst hc
    exact ⟨uniqueLaw_ab, uvListLaw_ab⟩


/-! ## routing: one delivery per session

`route` (Handlers.lean, `PassMessageCallbackAux`) runs the traversal from the global root (`rootDepth = 0`) with the
callback `fun _ _ _ => (true, 1)` (deliver, return `NODE_DEPTH_HOSTNAME` = skip to the next session). -/

/-- With the skip callback and every pattern at least 2 clauses deep (`pmMinClauses 2`: host/session…; every key
    of a client Message is, since relative keys get the `*/*` prefix and absolute ones name host and session), at
    most one visit is recorded per session node — the session node itself or one node below it: the (host, session)
    prefixes of the recorded paths are pairwise different, and each visit is a session node of the tree or lies
    below one.  No pattern law and no `pmWF` is needed.
    (Repaired rule of `CheckChildForTraversal`, finding F27: before it this needed `pmMinClauses 3`.)
    A 1-clause pattern is excluded because it matches host nodes: such a visit `[h]` has no session
    (`ownerName [h] = none`, `route` skips it), so the second conjunct fails, and two matching hosts give the owner
    `none` twice; the callback's answer 1 at a host node (depth 1) neither aborts nor rules out the descent. -/
theorem route_once_per_session_node (pm : PM) (useFilters : Bool) (node : Node) (fuel : Nat)
    (hmin : pmMinClauses 2 pm = true) (hkids : kidsNodup fuel node = true) :
    ((doTraversal pm useFilters 0 (fun _ _ _ => (true, 1)) node fuel).map (List.take 2)).Nodup ∧
    ∀ v ∈ doTraversal pm useFilters 0 (fun _ _ _ => (true, 1)) node fuel,
      ∃ h ∈ node.kids, ∃ s ∈ h.kids, [h.name, s.name] <+: v :=
  travAux_root { pm := pm, useFilters := useFilters, rootDepth := 0, cb := cbSkip } rfl rfl hmin fuel node hkids

/-- … hence, when session names are unique across hosts (`SessUnique`: session ids are server-wide unique), the
    visits have pairwise different `ownerName`: `route` delivers at most once to each session. -/
theorem route_once_per_session (pm : PM) (useFilters : Bool) (node : Node) (fuel : Nat)
    (hmin : pmMinClauses 2 pm = true) (hkids : kidsNodup fuel node = true) (hsess : SessUnique node) :
    ((doTraversal pm useFilters 0 (fun _ _ _ => (true, 1)) node fuel).map ownerName).Nodup := by
  obtain ⟨h1, h2⟩ := route_once_per_session_node pm useFilters node fuel hmin hkids
  refine nodup_map_of_pairwise h1 ?_
  intro x hx y hy hxy
  obtain ⟨h, hh, s, hs, hp⟩ := h2 x hx
  obtain ⟨h', hh', s', hs', hp'⟩ := h2 y hy
  rw [take2_of_prefix hp, take2_of_prefix hp']
  obtain ⟨t, rfl⟩ := hp
  obtain ⟨t', rfl⟩ := hp'
  simp [ownerName] at hxy
  rw [hxy, hsess h hh h' hh' s hs s' hs' hxy]

/-- the same for the traversal `route` performs on a server state -/
theorem route_once_per_session_server (sv : Server) (pm : PM)
    (hmin : pmMinClauses 2 pm = true) (hkids : kidsNodup fuelDepth sv.root = true) (hsess : SessUnique sv.root) :
    ((travGlobal sv pm true (fun _ _ _ => (true, 1))).map ownerName).Nodup :=
  route_once_per_session pm true sv.root fuelDepth hmin hkids hsess

/-- Which sessions get the Message: with the skip callback (and every pattern ≥ 2 clauses deep) every recorded
    visit is a node the one-by-one test accepts, and every node the one-by-one test accepts has a recorded visit
    in the same session subtree (same (host, session) prefix).  Together with `route_once_per_session_node`:
    exactly one visit in each session that owns at least one matching node (the session node itself counts), none
    in any other. -/
theorem route_sessions_exact (pm : PM) (useFilters : Bool) (node : Node) (fuel : Nat)
    (hmin : pmMinClauses 2 pm = true) (hwf : pmWF pm = true) (hlaws : ClauseLaws pm)
    (hkids : kidsNodup fuel node = true) :
    (∀ v ∈ doTraversal pm useFilters 0 (fun _ _ _ => (true, 1)) node fuel, v ∈ bruteForce pm useFilters node fuel) ∧
    (∀ w ∈ bruteForce pm useFilters node fuel,
       ∃ v ∈ doTraversal pm useFilters 0 (fun _ _ _ => (true, 1)) node fuel, v.take 2 = w.take 2) := by
  obtain ⟨h1, h2⟩ := root_sameSess pm useFilters hmin hwf hlaws fuel node hkids
  have hb := (traversal_eq_bruteforce pm useFilters 0 node fuel hwf hlaws hkids).1
  constructor
  · intro v hv; exact (hb v).1 (h1 v hv)
  · intro w hw; exact h2 w ((hb w).2 hw)

/-! ### the statements as they stood before the repair of F27 (`pmMinClauses 3`), now corollaries -/

theorem route_once_per_session_node_min3 (pm : PM) (useFilters : Bool) (node : Node) (fuel : Nat)
    (hmin : pmMinClauses 3 pm = true) (hkids : kidsNodup fuel node = true) :
    ((doTraversal pm useFilters 0 (fun _ _ _ => (true, 1)) node fuel).map (List.take 2)).Nodup ∧
    ∀ v ∈ doTraversal pm useFilters 0 (fun _ _ _ => (true, 1)) node fuel,
      ∃ h ∈ node.kids, ∃ s ∈ h.kids, [h.name, s.name] <+: v :=
  route_once_per_session_node pm useFilters node fuel (pmMinClauses_mono (by decide) hmin) hkids

theorem route_once_per_session_min3 (pm : PM) (useFilters : Bool) (node : Node) (fuel : Nat)
    (hmin : pmMinClauses 3 pm = true) (hkids : kidsNodup fuel node = true) (hsess : SessUnique node) :
    ((doTraversal pm useFilters 0 (fun _ _ _ => (true, 1)) node fuel).map ownerName).Nodup :=
  route_once_per_session pm useFilters node fuel (pmMinClauses_mono (by decide) hmin) hkids hsess

theorem route_once_per_session_server_min3 (sv : Server) (pm : PM)
    (hmin : pmMinClauses 3 pm = true) (hkids : kidsNodup fuelDepth sv.root = true) (hsess : SessUnique sv.root) :
    ((travGlobal sv pm true (fun _ _ _ => (true, 1))).map ownerName).Nodup :=
  route_once_per_session_server sv pm (pmMinClauses_mono (by decide) hmin) hkids hsess

theorem route_sessions_exact_min3 (pm : PM) (useFilters : Bool) (node : Node) (fuel : Nat)
    (hmin : pmMinClauses 3 pm = true) (hwf : pmWF pm = true) (hlaws : ClauseLaws pm)
    (hkids : kidsNodup fuel node = true) :
    (∀ v ∈ doTraversal pm useFilters 0 (fun _ _ _ => (true, 1)) node fuel, v ∈ bruteForce pm useFilters node fuel) ∧
    (∀ w ∈ bruteForce pm useFilters node fuel,
       ∃ v ∈ doTraversal pm useFilters 0 (fun _ _ _ => (true, 1)) node fuel, v.take 2 = w.take 2) :=
  route_sessions_exact pm useFilters node fuel (pmMinClauses_mono (by decide) hmin) hwf hlaws hkids

/-! ### non-vacuity -/

/-- one host `h` with the sessions `s` and `t`, each owning one node `x` -/
def exSrvTree : Node :=
  .mk [] none [.mk [104] none [.mk [115] none [.mk [120] none [] [] 0 []] [] 0 [],
                               .mk [116] none [.mk [120] none [] [] 0 []] [] 0 []] [] 0 []] [] 0 []

def exPM3 : PM := [(3, [{ path := [], clauses := [[42], [42], [42]], filter := none }])]
/-- `*/*/*` then `*/*` -/
def exPM2 : PM := [(3, [{ path := [], clauses := [[42], [42], [42]], filter := none }]),
                   (2, [{ path := [], clauses := [[42], [42]], filter := none }])]

example : pmMinClauses 3 exPM3 = true ∧ pmWF exPM3 = true ∧ kidsNodup 4 exSrvTree = true := by decide
example : pmMinClauses 2 exPM2 = true ∧ pmWF exPM2 = true := by decide
example : ClauseLaws exPM3 := laws_of_star_only (by simp [allEntries, exPM3])
example : ClauseLaws exPM2 := laws_of_star_only (by simp [allEntries, exPM2])
example : SessUnique exSrvTree := by
  intro h hh h' hh' _ _ _ _ _
  simp [exSrvTree, Node.kids] at hh hh'
  rw [hh, hh']

/-! ### finding F27: a session-level key together with a deeper one

The shape that fired F27: keys `/*/*` and `/*/*/?` (in this order in the matcher) on a tree with two sessions.
Under the repaired rule each session is visited once (the session node; the callback's answer 1 rules out the
descent).  `OldRule` is a verbatim copy of the traversal as it was modelled before the repair (only `checkEntries`
differs: no `recursed`/`matched` update from the returned depth); on the same shape it visits each session twice.
(`?` needs `matchToks`, defined by well-founded recursion, which `decide` cannot evaluate; the repaired rule never
evaluates the third clause here, the old rule does, so the old-rule example uses `/*/*/*`, which the null matcher
evaluates; `#eval` gives the same four visits for `/*/*/?`.) -/

def exF27 : PM := [(2, [{ path := [42, 47, 42], clauses := [[42], [42]], filter := none }]),
                   (3, [{ path := [42, 47, 42, 47, 63], clauses := [[42], [42], [63]], filter := none }])]
def exF27star : PM := [(2, [{ path := [42, 47, 42], clauses := [[42], [42]], filter := none }]),
                       (3, [{ path := [42, 47, 42, 47, 42], clauses := [[42], [42], [42]], filter := none }])]

/-- repaired rule: each owner once, whichever of the two keys comes first -/
example : pmMinClauses 2 exF27 = true ∧ pmWF exF27 = true ∧ kidsNodup 4 exSrvTree = true ∧
    doTraversal exF27 true 0 (fun _ _ _ => (true, 1)) exSrvTree 4 = [[[104], [115]], [[104], [116]]] ∧
    (doTraversal exF27 true 0 (fun _ _ _ => (true, 1)) exSrvTree 4).map ownerName = [some [115], some [116]] ∧
    doTraversal exF27star true 0 (fun _ _ _ => (true, 1)) exSrvTree 4 = [[[104], [115]], [[104], [116]]] ∧
    doTraversal exPM2 true 0 (fun _ _ _ => (true, 1)) exSrvTree 4 = [[[104], [115], [120]], [[104], [116], [120]]] ∧
    (doTraversal exPM2 true 0 (fun _ _ _ => (true, 1)) exSrvTree 4).map ownerName = [some [115], some [116]] := by
  decide

namespace OldRule

/-- the entry loops of `CheckChildForTraversal` -/
def checkEntriesOld (ctx : TCtx) (rec : Rec) (child : Node) (cnames : Visit) (depth : Nat) (known : Option Nat) :
    List Entry → Nat → CState → CState
  | [], _, st => st
  | e :: es, idx, st =>
    if st.done || st.abort.isSome then st else
    let rel := depth - ctx.rootDepth
    let childDepth : Int := depth + 1
    let hit : Bool := (known = some idx) || (match e.clauses[rel]? with | some c => clauseMatch c child.name | none => false)
    let st' : CState :=
      if !hit then st
      else if depth + 1 = ctx.rootDepth + e.clauses.length then
        -- terminal clause of this entry: the callback, at most once per child
        if st.matched then st else
        if (onlyOneEntry ctx.pm && (!ctx.useFilters || e.filter.isNone)) || matchesNode ctx.pm cnames ctx.useFilters child.data then
          let (rc, nd) := ctx.cb cnames (depth + 1) child
          let vs := if rc then st.visits ++ [cnames] else st.visits
          if nd < childDepth - 1 then { st with visits := vs, abort := some nd }
          else { st with visits := vs, matched := true, done := st.recursed }
        else st
      else
        -- a non-terminal clause matched: descend, at most once per child
        if st.recursed then st else
        let (vs, nd) := rec child cnames (depth + 1)
        if nd < childDepth - 1 then { st with visits := st.visits ++ vs, abort := some nd }
        else { st with visits := st.visits ++ vs, recursed := true, done := st.matched }
    checkEntriesOld ctx rec child cnames depth known es (idx + 1) st'

/-- `CheckChildForTraversal(data, child, optKnownMatchingEntryIdx, depth)`: (visits, abort-to-depth) -/
def checkChildOld (ctx : TCtx) (rec : Rec) (child : Node) (names : Visit) (depth : Nat) (known : Option Nat) :
    List Visit × Option Int :=
  let st := checkEntriesOld ctx rec child (names ++ [child.name]) depth known
              (activeEntries ctx.pm (depth - ctx.rootDepth)) 0 {}
  (st.visits, st.abort)

/-- the child-iteration loop of the general case -/
def travKidsOld (ctx : TCtx) (rec : Rec) (names : Visit) (depth : Nat) : List Node → List Visit → List Visit × Int
  | [], acc => (acc, depth)
  | k :: r, acc =>
    match checkChildOld ctx rec k names depth none with
    | (vs, some d) => (acc ++ vs, d)
    | (vs, none) => travKidsOld ctx rec names depth r (acc ++ vs)

/-- `DoDirectChildLookup` for each element of one entry's clause; `did` = the `alreadyDid` set -/
def lookupElemsOld (ctx : TCtx) (rec : Rec) (node : Node) (names : Visit) (depth : Nat) (idx : Nat) :
    List Bytes → List Bytes → List Visit → List Visit × List Bytes × Option Int
  | [], did, acc => (acc, did, none)
  | el :: els, did, acc =>
    let nm := unescape el
    match findKid nm node.kids with
    | none => lookupElemsOld ctx rec node names depth idx els did acc
    | some k =>
      if did.contains nm then lookupElemsOld ctx rec node names depth idx els did acc else
      match checkChildOld ctx rec k names depth (some idx) with
      | (vs, some d) => (acc ++ vs, did, some d)
      | (vs, none) => lookupElemsOld ctx rec node names depth idx els (nm :: did) (acc ++ vs)

/-- the entry loop of the optimized case -/
def travLookupsOld (ctx : TCtx) (rec : Rec) (node : Node) (names : Visit) (depth : Nat) :
    List Entry → Nat → List Bytes → List Visit → List Visit × Int
  | [], _, _, acc => (acc, depth)
  | e :: es, idx, did, acc =>
    let key := (e.clauses[depth - ctx.rootDepth]?).getD []
    let elems : List Bytes := if isUVList key then (splitCommas key).filter (fun x => !x.isEmpty) else [key]
    match lookupElemsOld ctx rec node names depth idx elems did acc with
    | (acc', _, some d) => (acc', d)
    | (acc', did', none) => travLookupsOld ctx rec node names depth es (idx + 1) did' acc'

/-- one level of `DoTraversalAux` -/
def travLevelOld (ctx : TCtx) (rec : Rec) (node : Node) (names : Visit) (depth : Nat) : List Visit × Int :=
  let rel := depth - ctx.rootDepth
  if parsersHaveWildcards ctx.pm rel then travKidsOld ctx rec names depth node.kids []
  else travLookupsOld ctx rec node names depth (activeEntries ctx.pm rel) 0 [] []

/-- `DoTraversalAux(data, node)`: (visits, returned depth); `fuel` bounds the depth of descent -/
def travAuxOld (ctx : TCtx) : Nat → Node → Visit → Nat → List Visit × Int
  | 0, _, _, depth => ([], depth)
  | fuel+1, node, names, depth => travLevelOld ctx (travAuxOld ctx fuel) node names depth

/-- `DoTraversal(cb, This, node, useFilters, userData)`: the recorded visits, in order -/
def doTraversalOld (pm : PM) (useFilters : Bool) (rootDepth : Nat) (cb : Visit → Nat → Node → Bool × Int)
    (node : Node) (fuel : Nat) : List Visit :=
  (travAuxOld { pm := pm, useFilters := useFilters, rootDepth := rootDepth, cb := cb } fuel node [] rootDepth).1


end OldRule

/-- old rule: each owner twice (this was F27), for either order of the two keys -/
example :
    OldRule.doTraversalOld exF27star true 0 (fun _ _ _ => (true, 1)) exSrvTree 4
      = [[[104], [115]], [[104], [115], [120]], [[104], [116]], [[104], [116], [120]]] ∧
    (OldRule.doTraversalOld exF27star true 0 (fun _ _ _ => (true, 1)) exSrvTree 4).map ownerName
      = [some [115], some [115], some [116], some [116]] ∧
    OldRule.doTraversalOld exPM2 true 0 (fun _ _ _ => (true, 1)) exSrvTree 4
      = [[[104], [115], [120]], [[104], [115]], [[104], [116], [120]], [[104], [116]]] ∧
    ¬ ((OldRule.doTraversalOld exPM2 true 0 (fun _ _ _ => (true, 1)) exSrvTree 4).map ownerName).Nodup := by
  decide

/-- under the continue-callback the two rules agree on these inputs (in general: `checkEntries_cons_cont`, the
    new conditions are never true when a non-aborting level returns its own depth) -/
example : OldRule.doTraversalOld exF27star true 0 cbContinue exSrvTree 4 = doTraversal exF27star true 0 cbContinue exSrvTree 4 := by
  decide

/-! ### a 1-clause pattern: host nodes are visited, they have no owner -/

def exTwoHosts : Node :=
  .mk [] none [.mk [104] none [.mk [115] none [] [] 0 []] [] 0 [], .mk [105] none [.mk [116] none [] [] 0 []] [] 0 []] [] 0 []
def exPM1 : PM := [(1, [{ path := [42], clauses := [[42]], filter := none }])]

example : pmMinClauses 1 exPM1 = true ∧ pmMinClauses 2 exPM1 = false ∧ kidsNodup 4 exTwoHosts = true ∧
    doTraversal exPM1 true 0 (fun _ _ _ => (true, 1)) exTwoHosts 4 = [[[104]], [[105]]] ∧
    (doTraversal exPM1 true 0 (fun _ _ _ => (true, 1)) exTwoHosts 4).map ownerName = [none, none] := by decide

end Muscle.Props.C05


/-!
# C05, second part — the compiled default route is coherent with the parameters it is compiled from

Lemmas: `Reflector/RouteProofs.lean` (prefix `rt_`).  `Sess.route` (`_defaultMessageRoute`, what `sendMsg` routes with when
the Message names no keys) is a cache of `buildRoute s.routeKeys s.routeFilts`
(`PutPathsFromMessage(PR_NAME_KEYS, PR_NAME_FILTERS)` of `_defaultMessageRouteMessage`); the two parameters are set and
removed separately (`.paramRoute`, `.paramRouteF`, `.unparamRoute`, `.unparamRouteF`).
`RReach` (RouteProofs.lean): the states reachable from the empty server by attach, detach, ANY `runCmd` (no side
condition), `pushAll` and pump; `MReach` (MirrorProofs5.lean) is contained in it (`rt_of_mreach`, `Reflector/RouteProofsM.lean`: that file
cannot be imported here because MirrorProofs1 imports this file).
`routePairs keys fl cur` = `keys.zip ((List.range keys.length).map (assignedFilt fl cur))`,
`assignedFilt fl cur i = fl.getD i (fl.getLast?.getD cur)`: item `i` of the filter field, else its last item (bleed-down).
-/

namespace Muscle.Props.C05
open Muscle Muscle.Reflector Muscle.Eng.SrvEngine

/-- **Cache coherence.**  In every reachable state every session's compiled route is the one its two parameters
    compile to; without the keys parameter there are no keys; `hasRouteKeys` (read by `sendMsg`) says whether
    `params` holds PR_NAME_KEYS (what the C++ reads), and the filter list is present iff `params` holds PR_NAME_FILTERS. -/
theorem route_cache_coherent (sv : Server) (h : RReach sv) (s : Sess) (hs : s ∈ sv.sessions) :
    s.route = buildRoute s.routeKeys s.routeFilts ∧
    (s.hasRouteKeys = false → s.routeKeys = []) ∧
    s.hasRouteKeys = s.params.contains keyName ∧
    s.routeFilts.isSome = s.params.contains filtName :=
  rt_reach_rc h s hs

/-- the invariant is inductive: every single command preserves it from ANY state that has it -/
theorem route_cache_coherent_step (sv : Server) (sid : Nat) (c : Cmd) (h : RC sv) : RC (runCmd sv sid c) :=
  rt_runCmd_rc sv sid c h

/-- every command other than the four route-parameter commands leaves the route, both parameters, `hasRouteKeys` and the
    presence of the two parameter names alone, in EVERY session (the acting one included); any state -/
theorem data_commands_keep_route (sv : Server) (sid : Nat) (c : Cmd)
    (hc : match c with
      | .paramRoute _ | .paramRouteF _ _ | .unparamRoute | .unparamRouteF => False
      | _ => True) :
    (runCmd sv sid c).sessions.map rk = sv.sessions.map rk :=
  rt_runCmd_data sv sid c hc

/-- A Message without keys from a session with a default route is routed with exactly the matcher its two parameters
    compile to. -/
theorem default_route_is_parameters (sv : Server) (h : RReach sv) (sid : Nat) (s : Sess) (hs : sv.sess? sid = some s)
    (hk : s.hasRouteKeys = true) (tag : Nat) :
    sendMsg sv sid tag [] =
      route sv sid (buildRoute s.routeKeys s.routeFilts) ("MSG 1234 from=" ++ toString sid ++ " tag=" ++ toString tag) := by
  have hc := (rt_reach_rc h s (rt_sess?_mem hs)).1
  simp only [rk] at hc
  unfold sendMsg
  rw [hs]
  simp only [List.isEmpty_nil, Bool.not_true, Bool.false_eq_true, if_false, hk, if_true, hc]

/-- Removing the filter parameter rebuilds the route without filters: afterwards the session has the same keys, no
    filter list, the route `buildRoute keys none`, and not one entry of it carries a filter. -/
theorem unparam_filters_drops_filters (sv : Server) (h : RReach sv) (sid : Nat) (s : Sess) (hs : sv.sess? sid = some s) :
    ∃ s', (runCmd sv sid .unparamRouteF).sess? sid = some s' ∧ s'.routeKeys = s.routeKeys ∧ s'.routeFilts = none ∧
      s'.route = buildRoute s.routeKeys none ∧ pmNumFilters s'.route = 0 := by
  obtain ⟨h1, _, _, h4⟩ := rt_reach_rc h s (rt_sess?_mem hs)
  simp only [rk] at h1 h4
  have hsid : s.sid = sid := by
    have := List.find?_some hs
    simpa using this
  have hfind : (runCmd sv sid .unparamRouteF).sess? sid =
      some (if s.params.contains filtName then
        { s with routeFilts := none, route := buildRoute s.routeKeys none, params := s.params.filter (· ≠ filtName) } else s) := by
    simp only [runCmd, Server.updSess, Server.sess?]
    rw [List.find?_map]
    have : ((fun s => decide (s.sid = sid)) ∘ fun s : Sess =>
        if s.sid = sid then
          (if s.params.contains filtName then
            { s with routeFilts := none, route := buildRoute s.routeKeys none, params := s.params.filter (· ≠ filtName) } else s)
        else s) = fun s => decide (s.sid = sid) := by
      funext t
      simp only [Function.comp]
      split
      · split <;> rfl
      · rfl
    rw [this]
    have hs' : List.find? (fun s => decide (s.sid = sid)) sv.sessions = some s := hs
    rw [hs']
    simp only [Option.map_some, hsid, if_true]
  refine ⟨_, hfind, ?_⟩
  by_cases hp : s.params.contains filtName = true
  · rw [if_pos hp]
    exact ⟨rfl, rfl, rfl, (rt_buildRoute_none _).2⟩
  · have hnone : s.routeFilts = none := by
      have : s.routeFilts.isSome = false := by rw [h4]; simpa using hp
      cases hf : s.routeFilts with
      | none => rfl
      | some x => rw [hf] at this; simp at this
    rw [if_neg hp]
    refine ⟨rfl, hnone, ?_, ?_⟩
    · rw [h1, hnone]
    · rw [h1, hnone]; exact (rt_buildRoute_none _).2

/-- `PutPathsFromMessage` without recursion: the keys in order, key `i` paired with `assignedFilt` … `i` -/
theorem buildRoute_pairs (keys : List Bytes) (fs : Option (List (Option Filt))) :
    buildRoute keys fs = pmOfKeys (routePairs keys (fs.getD []) none) (some defaultPrefix) :=
  rt_buildRoute_pairs keys fs

/-- …and pair `i` carries filter item `i` when the filter field has one, its last item otherwise (bleed-down; no
    filter at all when the field is empty or absent) -/
theorem buildRoute_pairs_get (keys : List Bytes) (fl : List (Option Filt)) (i : Nat) (hi : i < keys.length) :
    (routePairs keys fl none).length = keys.length ∧
    (routePairs keys fl none)[i]? = some (keys[i], if h : i < fl.length then fl[i] else fl.getLast?.getD none) :=
  ⟨rt_routePairs_length keys fl none, rt_routePairs_get keys fl none i hi⟩

/-! ### examples: a small reachable state (one session; keys `x`, `y` with one filter that bleeds down; then the
    filter parameter removed) -/

def exRtSv1 : Server := (attach {} 0 [104]).1
def exRtSv2 : Server := runCmd exRtSv1 0 (.paramRouteF [[120], [121]] [some ⟨0, 1⟩])
def exRtSv3 : Server := runCmd exRtSv2 0 .unparamRouteF

example : RReach exRtSv2 := .cmd _ _ (.attach _ _ .init)
example : RReach exRtSv3 := .cmd _ _ (.cmd _ _ (.attach _ _ .init))
/-- the hypotheses of `default_route_is_parameters` hold in `exRtSv2`, and the route has two filtered entries -/
example : (exRtSv2.sess? 0).map (fun s => (s.hasRouteKeys, s.routeKeys, pmNumFilters s.route)) =
    some (true, [[120], [121]], 2) := by decide
example : routePairs [[120], [121], [122]] [none, some ⟨0, 1⟩] none =
    [([120], none), ([121], some ⟨0, 1⟩), ([122], some ⟨0, 1⟩)] := by decide
/-- what the seeded change ("removing only the filter parameter does not rebuild the compiled route") would leave
    behind differs observably from the coherent route -/
example : pmNumFilters (buildRoute [[120], [121]] (some [some ⟨0, 1⟩])) = 2 ∧
    pmNumFilters (buildRoute [[120], [121]] none) = 0 := by decide

end Muscle.Props.C05

/-!
# C05, third part — client-to-client Messages arrive in the order they were sent (FIFO per pair)

Lemmas: `Reflector/OrderProofs.lean` (prefix `od_`).  `msgText a tag` = the line a receiver sees for `send tag …` of session `a`;
`OdEv` / `odRunEvs`: histories of events `cmd sid c | push | attach slot host | detach sid`.  Any server state; no hypothesis on
the keys, the routes or the tree (once-per-receiver is NOT needed: inboxes are append-only, `inbox_append_only` of C07).
-/

namespace Muscle.Props.C05
open Muscle Muscle.Reflector Muscle.Eng.SrvEngine

/-- Everything a `send` appends to anybody's inbox is a copy of its own text. -/
theorem send_appends_only_its_text (sv : Server) (a tag : Nat) (keys : List Bytes) (b : Nat) (t : Sess)
    (ht : sv.sess? b = some t) :
    ∃ t' extra, (runCmd sv a (.send tag keys)).sess? b = some t' ∧ t'.inbox = t.inbox ++ extra ∧
      ∀ x ∈ extra, x = msgText a tag := by
  obtain ⟨t', h1, _, e, h3, h4⟩ := od_lookup (show InboxApp (· = msgText a tag) sv (runCmd sv a (.send tag keys)) from od_sendMsg_text sv a tag keys) b t ht
  exact ⟨t', e, h1, h3, h4⟩

/-- **FIFO per pair.**  Session `a` sends `send tag1 keys1`, then anything happens (commands of any sessions, pushes,
    attaches, departures of sessions other than `b`), then `a` sends `send tag2 keys2`.  If both sends put something into
    `b`'s inbox (`t1.inbox ≠ t0.inbox`, `t3.inbox ≠ t2.inbox`), then just before the second send `b`'s inbox was its original
    inbox followed by the first Message and more, and the second Message comes after ALL of that. -/
theorem fifo_per_pair (sv : Server) (a b tag1 tag2 : Nat) (keys1 keys2 : List Bytes) (mid : List OdEv)
    (hmid : ∀ e ∈ mid, e ≠ .detach b) (t0 t1 t2 t3 : Sess)
    (h0 : sv.sess? b = some t0)
    (h1 : (runCmd sv a (.send tag1 keys1)).sess? b = some t1)
    (h2 : (odRunEvs (runCmd sv a (.send tag1 keys1)) mid).sess? b = some t2)
    (h3 : (runCmd (odRunEvs (runCmd sv a (.send tag1 keys1)) mid) a (.send tag2 keys2)).sess? b = some t3)
    (hd1 : t1.inbox ≠ t0.inbox) (hd2 : t3.inbox ≠ t2.inbox) :
    ∃ q r, t2.inbox = t0.inbox ++ msgText a tag1 :: q ∧ t3.inbox = t2.inbox ++ msgText a tag2 :: r := by
  obtain ⟨t1', g1, _, e1, i1, p1⟩ := od_lookup (show InboxApp (· = msgText a tag1) sv (runCmd sv a (.send tag1 keys1)) from od_sendMsg_text sv a tag1 keys1) b t0 h0
  rw [h1] at g1; cases g1
  obtain ⟨t2', g2, _, e2, i2, _⟩ := od_lookup_evs mid b hmid _ t1 h1
  rw [h2] at g2; cases g2
  obtain ⟨t3', g3, _, e3, i3, p3⟩ := od_lookup (show InboxApp (· = msgText a tag2) _ (runCmd _ a (.send tag2 keys2)) from od_sendMsg_text _ a tag2 keys2) b t2 h2
  rw [h3] at g3; cases g3
  cases e1 with
  | nil => exact absurd (by simpa using i1) hd1
  | cons m1 e1' =>
    cases e3 with
    | nil => exact absurd (by simpa using i3) hd2
    | cons m3 e3' =>
      have hm1 : m1 = msgText a tag1 := p1 m1 (List.mem_cons_self ..)
      have hm3 : m3 = msgText a tag2 := p3 m3 (List.mem_cons_self ..)
      subst hm1; subst hm3
      refine ⟨e1' ++ e2, e3', ?_, i3⟩
      rw [i2, i1]; simp

/-- **FIFO, first occurrences.**  If moreover the second text was not in `b`'s inbox before it was sent (a fresh tag), the
    first occurrence of the first Message in `b`'s final inbox precedes the first occurrence of the second. -/
theorem fifo_first_occurrences (sv : Server) (a b tag1 tag2 : Nat) (keys1 keys2 : List Bytes) (mid : List OdEv)
    (hmid : ∀ e ∈ mid, e ≠ .detach b) (t0 t1 t2 t3 : Sess)
    (h0 : sv.sess? b = some t0)
    (h1 : (runCmd sv a (.send tag1 keys1)).sess? b = some t1)
    (h2 : (odRunEvs (runCmd sv a (.send tag1 keys1)) mid).sess? b = some t2)
    (h3 : (runCmd (odRunEvs (runCmd sv a (.send tag1 keys1)) mid) a (.send tag2 keys2)).sess? b = some t3)
    (hd1 : t1.inbox ≠ t0.inbox) (hd2 : t3.inbox ≠ t2.inbox) (hfresh : msgText a tag2 ∉ t2.inbox) :
    t3.inbox.idxOf (msgText a tag1) < t3.inbox.idxOf (msgText a tag2) ∧
    t3.inbox.idxOf (msgText a tag2) < t3.inbox.length := by
  obtain ⟨q, r, e2, e3⟩ := fifo_per_pair sv a b tag1 tag2 keys1 keys2 mid hmid t0 t1 t2 t3 h0 h1 h2 h3 hd1 hd2
  have hm1 : msgText a tag1 ∈ t2.inbox := by rw [e2]; simp
  constructor
  · rw [e3]; exact od_idxOf_lt hm1 hfresh
  · apply List.idxOf_lt_length_of_mem
    rw [e3]; simp

/-! ## the broadcast fallback: a Message without keys from a session without a default route

Lemmas: `Reflector/BroadcastProofs.lean` (prefix `bc_`).  `sendMsg sv sid tag []` of a session with `hasRouteKeys = false` is the
third branch of `sendMsg`, `DumbReflectSession::BroadcastToAllSessions(msg, userData, reflect-to-self)`: a fold of `deliver t.sid text`
over the session table.  `deliver` addresses a session by id, so "once each" needs the ids of the table to be pairwise distinct
(`(sv.sessions.map (·.sid)).Nodup`; with two entries of one id the fold would append to the first of them twice).  The hypothesis holds
in every reachable state: `Props/C05Reach.lean` (`broadcast_exactly_once_reach`, for `RReach`; a separate file because the id-counter
lemmas it needs, `Reflector/MirrorProofs24.lean`, import this file).  `msgText sid tag` (OrderProofs.lean) is the exact text `sendMsg`
builds (`broadcast_text` below, by `rfl`). -/

theorem broadcast_text (sid tag : Nat) : msgText sid tag = "MSG 1234 from=" ++ toString sid ++ " tag=" ++ toString tag := rfl

/-- The whole session table after a broadcast: position by position the old session, with one copy of the text appended to its inbox
    iff it is selected (another id than the sender's, or the sender has reflect-to-self), and nothing else changed. -/
theorem broadcast_session_table (sv : Server) (hnd : (sv.sessions.map (·.sid)).Nodup) (sid tag : Nat) (s : Sess)
    (hs : sv.sess? sid = some s) (hk : s.hasRouteKeys = false) :
    (sendMsg sv sid tag []).sessions =
      sv.sessions.map (fun t => if t.sid ≠ sid ∨ s.reflectSelf = true then { t with inbox := t.inbox ++ [msgText sid tag] } else t) := by
  rw [bc_sendMsg sv sid tag s hs hk, bc_fold_sessions _ _ _ sv hnd]
  apply List.map_congr_left
  intro t _
  unfold bcStep
  by_cases h : t.sid ≠ sid ∨ s.reflectSelf = true
  · rw [if_pos h, if_pos (by simpa using h)]; rfl
  · rw [if_neg h, if_neg (by simpa using h)]

/-- **Broadcast: exactly once to every selected session, nothing to the others, nothing else touched.**
    Session ids pairwise distinct, the sender `sid` present (`s`), no default route, no keys.  Then for every session `t` of the table
    the session found under `t`'s id afterwards is `t` with its inbox replaced by `t.inbox ++ [text]` if `t` is selected
    (`t.sid ≠ sid ∨ s.reflectSelf`) and by `t.inbox` itself otherwise — every other field of the session as before; the table has the
    same ids in the same order; the node tree and every other field of the server are unchanged. -/
theorem broadcast_exactly_once (sv : Server) (hnd : (sv.sessions.map (·.sid)).Nodup) (sid tag : Nat) (s : Sess)
    (hs : sv.sess? sid = some s) (hk : s.hasRouteKeys = false) :
    (∀ t ∈ sv.sessions, ∃ t', (sendMsg sv sid tag []).sess? t.sid = some t' ∧
        t'.inbox = (if t.sid ≠ sid ∨ s.reflectSelf = true then t.inbox ++ [msgText sid tag] else t.inbox) ∧
        { t' with inbox := t.inbox } = t) ∧
    (sendMsg sv sid tag []).sessions.map (·.sid) = sv.sessions.map (·.sid) ∧
    (sendMsg sv sid tag []).root = sv.root ∧
    (sendMsg sv sid tag []).live = sv.live ∧
    (sendMsg sv sid tag []).nextSid = sv.nextSid ∧
    (sendMsg sv sid tag []).subsDirty = sv.subsDirty ∧
    (sendMsg sv sid tag []).maxItemsDefault = sv.maxItemsDefault := by
  have htab := broadcast_session_table sv hnd sid tag s hs hk
  refine ⟨?_, ?_, ?_⟩
  · intro t ht
    have hg : ∀ u : Sess, (if u.sid ≠ sid ∨ s.reflectSelf = true then { u with inbox := u.inbox ++ [msgText sid tag] } else u).sid
        = u.sid := by
      intro u; split <;> rfl
    refine ⟨(if t.sid ≠ sid ∨ s.reflectSelf = true then { t with inbox := t.inbox ++ [msgText sid tag] } else t), ?_, ?_, ?_⟩
    · unfold Server.sess?
      rw [htab, bc_find_map _ hg, bc_find_of_mem hnd ht]
      rfl
    · by_cases h : t.sid ≠ sid ∨ s.reflectSelf = true
      · rw [if_pos h, if_pos h]
      · rw [if_neg h, if_neg h]
    · by_cases h : t.sid ≠ sid ∨ s.reflectSelf = true
      · rw [if_pos h]
      · rw [if_neg h]
  · rw [htab, List.map_map]
    apply List.map_congr_left
    intro u _
    simp only [Function.comp]
    split <;> rfl
  · rw [bc_sendMsg sv sid tag s hs hk]
    exact bc_fold_frame _ _ _ _ sv

/-- **The sender is excluded unless it asked for reflect-to-self**: its own inbox gets one copy of the text iff `reflectSelf`, and is
    untouched otherwise. -/
theorem broadcast_sender_excluded_unless_reflect (sv : Server) (hnd : (sv.sessions.map (·.sid)).Nodup) (sid tag : Nat) (s : Sess)
    (hs : sv.sess? sid = some s) (hk : s.hasRouteKeys = false) :
    ∃ s', (sendMsg sv sid tag []).sess? sid = some s' ∧
      s'.inbox = (if s.reflectSelf = true then s.inbox ++ [msgText sid tag] else s.inbox) ∧
      { s' with inbox := s.inbox } = s := by
  have hsid : s.sid = sid := by
    have := List.find?_some hs
    simpa using this
  obtain ⟨s', h1, h2, h3⟩ := (broadcast_exactly_once sv hnd sid tag s hs hk).1 s (rt_sess?_mem hs)
  rw [hsid] at h1
  refine ⟨s', h1, ?_, h3⟩
  rw [h2]
  simp only [hsid, ne_eq, not_true_eq_false, false_or]

/-- every other session gets exactly one copy, whatever the sender's reflect-to-self setting -/
theorem broadcast_others_once (sv : Server) (hnd : (sv.sessions.map (·.sid)).Nodup) (sid tag : Nat) (s : Sess)
    (hs : sv.sess? sid = some s) (hk : s.hasRouteKeys = false) (t : Sess) (ht : t ∈ sv.sessions) (hne : t.sid ≠ sid) :
    ∃ t', (sendMsg sv sid tag []).sess? t.sid = some t' ∧ t'.inbox = t.inbox ++ [msgText sid tag] ∧
      { t' with inbox := t.inbox } = t := by
  obtain ⟨t', h1, h2, h3⟩ := (broadcast_exactly_once sv hnd sid tag s hs hk).1 t ht
  refine ⟨t', h1, ?_, h3⟩
  rw [h2, if_pos (Or.inl hne)]

/-! Non-vacuity: three sessions on two hosts.  Session 0 (no default route, no reflect-to-self) broadcasts tag 7: sessions 1 and 2 get
    one copy each, session 0 none.  After `param self` of session 0 the broadcast of tag 8 also comes back to session 0, once. -/
def exBcSv : Server := (attach (attach (attach {} 0 [104]).1 1 [104]).1 2 [105]).1
def exBcSvSelf : Server := runCmd exBcSv 0 .paramSelf

example : RReach exBcSv := .attach _ _ (.attach _ _ (.attach _ _ .init))
example : RReach exBcSvSelf := .cmd _ _ (.attach _ _ (.attach _ _ (.attach _ _ .init)))
/-- the hypotheses of `broadcast_exactly_once` hold in both states for the sender 0 -/
example : (exBcSv.sessions.map (·.sid)).Nodup ∧ (exBcSvSelf.sessions.map (·.sid)).Nodup ∧
    (exBcSv.sess? 0).map (fun s => (s.hasRouteKeys, s.reflectSelf)) = some (false, false) ∧
    (exBcSvSelf.sess? 0).map (fun s => (s.hasRouteKeys, s.reflectSelf)) = some (false, true) := by decide
example : exBcSv.sessions.map (fun t => (t.sid, t.inbox)) = [(0, []), (1, []), (2, [])] ∧
    (sendMsg exBcSv 0 7 []).sessions.map (fun t => (t.sid, t.inbox)) = [(0, []), (1, [msgText 0 7]), (2, [msgText 0 7])] ∧
    (sendMsg exBcSvSelf 0 8 []).sessions.map (fun t => (t.sid, t.inbox)) =
      [(0, [msgText 0 8]), (1, [msgText 0 8]), (2, [msgText 0 8])] ∧
    (sendMsg exBcSv 1 9 []).sessions.map (fun t => (t.sid, t.inbox)) = [(0, [msgText 1 9]), (1, []), (2, [msgText 1 9])] := by decide
example : (sendMsg exBcSv 0 7 []).root = exBcSv.root := rfl

/-! Non-vacuity: two sessions; session 0 broadcasts tag 7, session 1 pings, pending updates are pushed, session 0 broadcasts
    tag 8.  Both broadcasts reach session 1 (its inbox changes each time), tag 8 is fresh, and the order is as sent. -/
def exFifoSv0 : Server := (attach (attach {} 0 [104]).1 1 [104]).1
def exFifoMid : List OdEv := [.cmd 1 (.ping 3), .push]
def exFifoSv1 : Server := runCmd exFifoSv0 0 (.send 7 [])
def exFifoSv2 : Server := odRunEvs exFifoSv1 exFifoMid
def exFifoSv3 : Server := runCmd exFifoSv2 0 (.send 8 [])

example : ∀ e ∈ exFifoMid, e ≠ OdEv.detach 1 := by
  intro e he
  simp only [exFifoMid, List.mem_cons, List.not_mem_nil, or_false] at he
  rcases he with rfl | rfl <;> exact fun h => OdEv.noConfusion h
example : (exFifoSv0.sess? 1).map (·.inbox) = some [] ∧
    (exFifoSv1.sess? 1).map (·.inbox) = some [msgText 0 7] ∧
    (exFifoSv2.sess? 1).map (·.inbox) = some [msgText 0 7, "PONG 3"] ∧
    (exFifoSv3.sess? 1).map (·.inbox) = some [msgText 0 7, "PONG 3", msgText 0 8] := by decide
example : msgText 0 8 ∉ [msgText 0 7, "PONG 3"] := by decide

end Muscle.Props.C05
