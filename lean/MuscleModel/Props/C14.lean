import MuscleModel.Filter.Proofs3
import MuscleModel.Filter.ProofsLex
import MuscleModel.Filter.ProofsRender

/-!
# C14 — Query filters evaluate as documented, survive archiving, tolerate bad archives

Property theorems only (lemmas: `Filter/Proofs.lean`, `Proofs2.lean`, `Proofs3.lean`, `ProofsLex.lean`, `ProofsParse.lean`, `ProofsPrint.lean`, `ProofsRender.lean`).  `eval sm f msg node`
mirrors `f.Matches(msg, node)` for every class of `regex/QueryFilter.h`, `toArchive`/`fromArchive`
mirror `SaveToArchive` / the factory + `SetFromArchive`; the tie to the C++ code is the
correspondence run of engine `qf`.  Every theorem is quantified over the StringMatcher stand-in
`sm` (the four wildcard/regex operators, property C15), over all Messages and all nodes.

`Spec` below is the documentation: the class comments of `MinimumThresholdQueryFilter`
("matches iff more than (n) of its children match", n capped at numKids-1),
`MaximumThresholdQueryFilter` ("iff no more than (n)"), And/Or/Nand/Nor/Xor, including the rows the
default constructors document for a filter with no children (And/Or: always true, Nand/Nor/Xor: always false).

Expression strings: `parseExpr` (`Filter/Lexer.lean`, `Filter/Parser.lean`) mirrors
`CreateQueryFilterFromExpression`; it is a total function (`PRes`: error / filter / filter with an operand
outside the exactly modelled `atof` subset), tied to the code by the `expr` / `exprt` ops.  Proved here:
lexer progress (the termination measure), soundness (every parsed filter is `wf`, hence survives archiving) and
`parse_print` (the canonical spelling of a tree of the documented grammar parses to its denotation).
-/

set_option linter.unusedSimpArgs false
set_option linter.unusedVariables false

namespace Muscle.Props.C14
open Muscle Muscle.Wire Muscle.Gen Muscle.Filter

/-! ## the documented truth tables, over the list of the children's results -/
namespace Spec
def minMatch (n : Nat) (vs : List Bool) : Bool := vs.isEmpty || decide (vs.count true > min n (vs.length - 1))
def maxMatch (n : Nat) (vs : List Bool) : Bool := !vs.isEmpty && decide (vs.count true ≤ min n (vs.length - 1))
def and (vs : List Bool) : Bool := vs.all id                       -- true on []
def or (vs : List Bool) : Bool := vs.isEmpty || vs.any id           -- true on [] (documented)
def nand (vs : List Bool) : Bool := !vs.isEmpty && !vs.all id       -- false on [] (documented)
def nor (vs : List Bool) : Bool := !vs.isEmpty && !vs.any id        -- false on [] (documented)
def xor (vs : List Bool) : Bool := parity vs                        -- false on []
end Spec

variable (sm : Nat → Bytes → Bytes → Bool)

/-- children's decisions -/
def kidVals (kids : List Filter) (m : Msg) (nd : Option Node) : List Bool := kids.map (fun k => eval sm k m nd)

/-- `ThresholdMaxAux` with its two early exits decides exactly "more than min(n, numKids−1) children
    match" — and true when there are no children — for every list of child results. -/
theorem threshold_spec (n : Nat) (vals : List Bool) :
    thresholdMaxAux n vals = (vals.isEmpty || decide (vals.count true > min n (vals.length - 1))) :=
  thresholdMaxAux_spec n vals

/-- …and the loop itself, started in any reachable state (`mc` matches so far, `mc ≤ threshold`). -/
theorem threshold_loop_spec (t mc : Nat) (vals : List Bool) (h : mc ≤ t) :
    thrLoop t mc vals = decide (mc + vals.count true > t) :=
  thrLoop_spec t vals mc h

theorem combinator_minMatch (n : Nat) (kids : List Filter) (m : Msg) (nd : Option Node) :
    eval sm (.minMatch n kids) m nd = Spec.minMatch n (kidVals sm kids m nd) := by
  simp only [eval, evalKids_eq_map, thresholdMaxAux_spec, Spec.minMatch, kidVals]
  rfl

theorem combinator_maxMatch (n : Nat) (kids : List Filter) (m : Msg) (nd : Option Node) :
    eval sm (.maxMatch n kids) m nd = Spec.maxMatch n (kidVals sm kids m nd) := by
  simp only [eval, evalKids_eq_map, thresholdMaxAux_spec, Spec.maxMatch, kidVals]
  have hd : ∀ (a b : Nat), decide (a < b) = !decide (b ≤ a) := by
    intro a b; by_cases h : a < b <;> simp [h] <;> omega
  cases (List.map (fun k => eval sm k m nd) kids).isEmpty <;> simp [hd]

/-- AND: every child matches (a `Queue` holds at most 2^32 children: `numKids` is a `uint32`). -/
theorem combinator_and (kids : List Filter) (m : Msg) (nd : Option Node) (h : kids.length ≤ muscleNoLimit + 1) :
    eval sm (Filter.and kids) m nd = Spec.and (kidVals sm kids m nd) := by
  simp only [Filter.and, eval, evalKids_eq_map, Spec.and, kidVals]
  exact thr_and _ (by simpa using h)

theorem combinator_or (kids : List Filter) (m : Msg) (nd : Option Node) :
    eval sm (Filter.or kids) m nd = Spec.or (kidVals sm kids m nd) := by
  simp only [Filter.or, eval, evalKids_eq_map, Spec.or, kidVals]
  exact thr_or _

theorem combinator_nand (kids : List Filter) (m : Msg) (nd : Option Node) (h : kids.length ≤ muscleNoLimit + 1) :
    eval sm (Filter.nand kids) m nd = Spec.nand (kidVals sm kids m nd) := by
  simp only [Filter.nand, eval, evalKids_eq_map, Spec.nand, kidVals]
  rw [thr_and _ (by simpa using h)]
  cases kids <;> simp

theorem combinator_nor (kids : List Filter) (m : Msg) (nd : Option Node) :
    eval sm (Filter.nor kids) m nd = Spec.nor (kidVals sm kids m nd) := by
  simp only [Filter.nor, eval, evalKids_eq_map, Spec.nor, kidVals]
  rw [thr_or]
  cases kids <;> simp

theorem combinator_xor (kids : List Filter) (m : Msg) (nd : Option Node) :
    eval sm (.xor kids) m nd = Spec.xor (kidVals sm kids m nd) := by
  simp only [eval, evalKids_eq_map, Spec.xor, kidVals, xorLoop_spec, parity_count, Nat.zero_add]

/-- The documented behaviour of the seven combinators without children. -/
theorem combinators_no_children (n : Nat) (m : Msg) (nd : Option Node) :
    eval sm (Filter.and []) m nd = true ∧ eval sm (Filter.or []) m nd = true ∧ eval sm (.minMatch n []) m nd = true ∧
    eval sm (Filter.nand []) m nd = false ∧ eval sm (Filter.nor []) m nd = false ∧ eval sm (.maxMatch n []) m nd = false ∧
    eval sm (.xor []) m nd = false := by
  simp [Filter.and, Filter.or, Filter.nand, Filter.nor, eval, evalKids, thresholdMaxAux, xorLoop]

/-- NOT (a `NorQueryFilter`/`NandQueryFilter` with one child) inverts its child. -/
theorem combinator_not (k : Filter) (m : Msg) (nd : Option Node) :
    eval sm (Filter.nor [k]) m nd = !eval sm k m nd ∧ eval sm (Filter.nand [k]) m nd = !eval sm k m nd := by
  cases h : eval sm k m nd <;>
    simp [Filter.nor, Filter.nand, eval, evalKids, thresholdMaxAux, thrLoop, h, muscleNoLimit]

/-! ## numeric comparison: per operator and operand type -/

/-- Signed integer types: the six operators are the six order relations on the two's-complement
    values of item and operand (both of the operand width). -/
theorem numeric_spec_int (t : NumTy) (ht : t = .i8 ∨ t = .i16 ∨ t = .i32 ∨ t = .i64) (a b : Bytes)
    (ha : a.length = t.size) (hb : b.length = t.size) :
    let x := sval t.size (leVal a); let y := sval t.size (leVal b)
    numCmp t nopEq a b = decide (x = y) ∧ numCmp t nopLt a b = decide (x < y) ∧ numCmp t nopGt a b = decide (x > y) ∧
    numCmp t nopLe a b = decide (x ≤ y) ∧ numCmp t nopGe a b = decide (x ≥ y) ∧ numCmp t nopNe a b = decide (x ≠ y) :=
  numCmp_int t ht a b ha hb

/-- `bool`: compared as 0/1 (false < true). -/
theorem numeric_spec_bool (a b : Bytes) :
    let x := leVal a; let y := leVal b
    numCmp .bool nopEq a b = decide (x = y) ∧ numCmp .bool nopLt a b = decide (x < y) ∧ numCmp .bool nopGt a b = decide (x > y) ∧
    numCmp .bool nopLe a b = decide (x ≤ y) ∧ numCmp .bool nopGe a b = decide (x ≥ y) ∧ numCmp .bool nopNe a b = decide (x ≠ y) :=
  numCmp_bool a b

/-- `float` / `double` on bit patterns: IEEE order = order of the sign-magnitude keys; every
    operator is false as soon as one side is a NaN, except `!=`, which is then true. -/
theorem numeric_spec_float (t : NumTy) (ht : t = .f32 ∨ t = .f64) (a b : Bytes) :
    let k := t.size; let x := leVal a; let y := leVal b
    let ord := !fNaN k x && !fNaN k y
    numCmp t nopEq a b = (ord && decide (fKey k x = fKey k y)) ∧ numCmp t nopLt a b = (ord && decide (fKey k x < fKey k y)) ∧
    numCmp t nopGt a b = (ord && decide (fKey k x > fKey k y)) ∧ numCmp t nopLe a b = (ord && decide (fKey k x ≤ fKey k y)) ∧
    numCmp t nopGe a b = (ord && decide (fKey k x ≥ fKey k y)) ∧ numCmp t nopNe a b = (!ord || decide (fKey k x ≠ fKey k y)) :=
  numCmp_float t ht a b

/-- `Point` / `Rect` (`Tuple<2,float>` / `Tuple<4,float>`): `==` is component-wise IEEE equality, `<` and `>` are
    the lexicographic order in which component pairs that are equal *or unordered* are skipped (`lexLt`), and
    `<=`, `>=`, `!=` are the *negations* of `>`, `<`, `==` (so with a NaN component `<=` and `>=` both hold). -/
theorem numeric_spec_tuple (t : NumTy) (ht : t = .pt ∨ t = .rc) (a b : Bytes) :
    let n := t.size / 4; let xy := (comps n a).zip (comps n b); let yx := (comps n b).zip (comps n a)
    numCmp t nopEq a b = allEq xy ∧ numCmp t nopLt a b = lexLt xy ∧ numCmp t nopGt a b = lexLt yx ∧
    numCmp t nopLe a b = !lexLt yx ∧ numCmp t nopGe a b = !lexLt xy ∧ numCmp t nopNe a b = !allEq xy :=
  numCmp_tuple t ht a b

/-- An operator code outside the enumeration matches nothing, whatever the type. -/
theorem numeric_spec_bad_op (t : NumTy) (op : Nat) (a b : Bytes) (h : 6 ≤ op) : numCmp t op a b = false :=
  numCmp_bad_op t op a b h

/-! ## missing data: the default rule -/

/-- `FindData` misses exactly in the documented ways (no such field / other type / index out of range) … -/
theorem findData_misses (fn : Bytes) (tc idx : Nat) (m : Msg) :
    (lookupField fn m.fields = none → findData fn tc idx m = none) ∧
    (∀ f, lookupField fn m.fields = some f → tc ≠ tcAny → tc ≠ f.typeCode → findData fn tc idx m = none) ∧
    (∀ f, lookupField fn m.fields = some f → f.count ≤ idx → findData fn tc idx m = none) :=
  ⟨findData_absent fn tc idx m, fun f h => findData_wrong_type fn tc idx m f h, fun f h => findData_out_of_range fn tc idx m f h⟩

/-- … and then a numeric filter compares the assumed default if one was given, and rejects otherwise. -/
theorem missing_data_num (ty : NumTy) (fn : Bytes) (idx op mop : Nat) (val mask : Bytes) (dflt : Option Bytes) (m : Msg) (nd : Option Node)
    (h : findData fn ty.tc idx m = none) :
    eval sm (.num ty fn idx op mop val mask dflt) m nd =
      match dflt with
      | some d => numCmp ty op (if mop = mopNone then d else doMask ty mop d mask) val
      | none => false := by
  cases dflt <;> simp [eval, h, numMatches]

theorem missing_data_str (fn : Bytes) (idx op : Nat) (val : Bytes) (dflt : Option Bytes) (m : Msg) (nd : Option Node)
    (h : findString fn idx m = none) :
    eval sm (.str fn idx op val dflt) m nd = match dflt with | some d => strMatches sm op val d | none => false := by
  cases dflt <;> simp [eval, h, strMatchesOpt]

theorem missing_data_raw (fn : Bytes) (idx op tc : Nat) (val dflt : Option Bytes) (m : Msg) (nd : Option Node)
    (h : findData fn tc idx m = none) :
    eval sm (.raw fn idx op tc val dflt) m nd = match dflt with | some d => rawMatches op val none (some d) | none => false := by
  cases dflt <;> simp [eval, h, rawMatches]

theorem missing_data_msg (fn : Bytes) (idx : Nat) (kid : Filter) (dflt : Option Msg) (m : Msg) (nd : Option Node)
    (h : findMessage fn idx m = none) :
    eval sm (.msgKid fn idx kid dflt) m nd = match dflt with | some d => eval sm kid d nd | none => false := by
  cases dflt <;> simp [eval, h, orElse']

/-- When the item is there, the default is irrelevant. -/
theorem present_data_num (ty : NumTy) (fn : Bytes) (idx op mop : Nat) (val mask : Bytes) (d1 d2 : Option Bytes) (m : Msg) (nd : Option Node)
    (v : Bytes) (h : findData fn ty.tc idx m = some v) :
    eval sm (.num ty fn idx op mop val mask d1) m nd = eval sm (.num ty fn idx op mop val mask d2) m nd := by
  simp [eval, h, numMatches]

/-! ## archiving -/

/-- A filter restored from its archived form is the same filter up to `norm` (a zero-length
    raw-data *value* buffer comes back as a NULL reference, which `Matches` treats identically) and
    decides identically on every Message and node — for every well-formed filter tree of all 19
    classes, nested to any depth.  `wf`: operands of the operand width, 32-bit indices / counts /
    type codes, 8-bit operator codes.  (A zero-length raw-data *default* is archived and restored like any other:
    regression for the former finding `C14-rawdef-empty`.)
    `fromArchive` supplies the archive's own nesting depth + 1 as fuel; `fdepth_le` shows that is enough. -/
theorem archive_roundtrip (f : Filter) (h : wf f) :
    fromArchive (toArchive f) = some (norm f) ∧ ∀ m nd, eval sm (norm f) m nd = eval sm f m nd :=
  ⟨fromArchive_toArchive f h, fun m nd => eval_norm sm f m nd⟩

/-- …stated for the fuel-indexed factory: any fuel of at least the tree depth gives the same answer. -/
theorem archive_roundtrip_fuel (f : Filter) (h : wf f) (fuel : Nat) (hf : fdepth f ≤ fuel) :
    fromArchiveF fuel (toArchive f) = some (norm f) :=
  roundtripF f fuel h hf

/-- Consequence: the restored filter itself round-trips to itself (archiving is idempotent after one trip)
    whenever it is well-formed, and decides like the original. -/
theorem archive_roundtrip_decides (f g : Filter) (h : wf f) (hg : fromArchive (toArchive f) = some g) (m : Msg) (nd : Option Node) :
    eval sm g m nd = eval sm f m nd := by
  rw [fromArchive_toArchive f h] at hg
  cases hg
  exact eval_norm sm f m nd

/-- Building a filter from an arbitrary Message either fails or yields a completely initialised
    filter: every numeric operand and mask has the operand width, every child exists and is itself
    well-shaped (`shapeOk`); in particular evaluation of the result is defined on every Message
    (`eval` is total). -/
theorem fromArchive_total (a : Msg) :
    fromArchive a = none ∨ ∃ f, fromArchive a = some f ∧ shapeOk f := by
  cases h : fromArchive a with
  | none => exact Or.inl rfl
  | some f => exact Or.inr ⟨f, rfl, fromArchiveF_shape _ a f h⟩

/-- An unknown class code is rejected. -/
theorem fromArchive_unknown_code (w : Nat) (fs : List (Bytes × Field)) (h : w < qfWhatCode ∨ qfNodeName < w) :
    fromArchive (.mk w fs) = none :=
  fromArchive_unknown w fs h

/-- A child archive that the factory rejects makes the parent fail (no partially built combinator). -/
theorem fromArchive_bad_child (fuel : Nat) (a : Msg) (k : Msg) (hk : k ∈ kidArchives a) (hbad : fromArchiveF fuel k = none)
    (hw : a.what = qfMinMatch ∨ a.what = qfMaxMatch ∨ a.what = qfXor) : fromArchiveF (fuel + 1) a = none :=
  fromArchiveF_bad_child fuel a k hk hbad hw

/-! ## expression strings -/

/-- Every call of `Lexer::GetNextToken` consumes at least one character of the expression, except when it returns
    an empty unquoted user string (in front of a vertical tab / form feed, which end a user string but are not
    skipped) — and then it gives nothing back.  This is the termination measure of the parser: each iteration of a
    token loop of `CreateQueryFilterFromExpressionAux` either shortens the input or appends a plain token to a list
    that is rejected beyond four entries, and each recursive call is preceded by the consumption of a `(`;
    `parseExpr` therefore runs its loop with `6·(length+1)` units of fuel. -/
theorem lexer_progress (s : Bytes) (t : Tok) (r : Bytes) (h : nextToken s = some (t, r)) :
    r.length < s.length ∨ (r.length ≤ s.length ∧ t = .user [] false) :=
  nextToken_progress s t r h

/-- A fixed token or synonym is never empty. -/
theorem lexer_token_nonempty (s : Bytes) (id n : Nat) (h : getMatchingToken s = some (id, n)) : 1 ≤ n :=
  getMatchingToken_pos s id n h

/-- Soundness: whatever filter `CreateQueryFilterFromExpression` builds from ANY character string is well-formed
    (operands of the operand width, 32-bit indices, 8-bit operators, children in place) … -/
theorem parser_sound (s : Bytes) (f : Filter) (h : parseExpr s = .ok f) : wf f :=
  parseExpr_wf s f h

/-- … and therefore survives archiving: the restored filter decides identically on every Message. -/
theorem parser_archive (s : Bytes) (f : Filter) (h : parseExpr s = .ok f) :
    fromArchive (toArchive f) = some (norm f) ∧ ∀ m nd, eval sm (norm f) m nd = eval sm f m nd :=
  archive_roundtrip sm f (parseExpr_wf s f h)

/-- `parse_print`.  `Ast` is the abstract syntax of the documented grammar (a predicate of 2–4 plain tokens, `!`,
    n-ary `&&` / `||` / `^`), `denote` the filter the grammar assigns to a tree (`leafOf` for predicates,
    `NorQueryFilter` for `!`, And/Or/Xor for the conjunctions), `printT` its canonical spelling as tokens (every term
    in its own parentheses) and `render` writes the tokens as characters, one blank after each.  For every tree whose
    tokens are printable (`printableTok`, `Filter/ProofsRender.lean`: every fixed token; quoted strings without `"`;
    unquoted words that are non-empty, free of white space, do not begin with `"` or with a token/synonym, and in
    which no non-letter character starts a token/synonym) parsing the printed characters yields EXACTLY the
    denotation — in particular a filter that decides identically on every Message. -/
theorem parse_print (a : Ast) (f : Filter) (hok : okAst a) (hpr : ∀ t ∈ printT a, printableTok t = true)
    (hd : denote a = some f) :
    parseExpr (render (printT a)) = .ok f ∧
    ∀ g, parseExpr (render (printT a)) = .ok g → ∀ m nd, eval sm g m nd = eval sm f m nd := by
  have h := parseExpr_render a f hok hpr hd
  refine ⟨h, fun g hg m nd => ?_⟩
  rw [h] at hg
  cases hg
  rfl

/-- The same at the level of tokens, for ANY token source that delivers the canonical spelling (no printability needed):
    the recursive-descent loop is a correct parser of the grammar. -/
theorem parse_print_tokens (a : Ast) (f : Filter) (hok : okAst a) (hd : denote a = some f) (b : Bytes)
    (hl : Lexes b (printT a)) (fuel : Nat) (hf : sizeA a + 2 ≤ fuel) :
    (parseLoopWith nextToken fuel {} b).1 = .ok f :=
  parse_of_lexes a f hok hd b hl fuel hf

/-- Rendered printable tokens lex back to themselves, whatever they are (not only spellings of trees). -/
theorem lex_render (ts : List Tok) (h : ∀ t ∈ ts, printableTok t = true) : Lexes (render ts) ts :=
  lexes_render ts h

/-! ## non-vacuity -/

-- the table is scanned from its last entry: `!=`, `<=`, `>=`, `(int32)` win over `!`, `<`, `>`, `(`
example : getMatchingToken [33, 61, 53] = some (ltNeq, 2) ∧ getMatchingToken [60, 61, 53] = some (ltLeq, 2) ∧
          getMatchingToken [62, 61, 32, 53] = some (ltGeq, 2) ∧ getMatchingToken [40, 73, 78, 84, 51, 50, 41, 53] = some (ltInt32, 7) ∧
          getMatchingToken [33, 120] = some (ltNot, 1) ∧ getMatchingToken [61, 32, 53] = some (ltEq, 1) ∧
          getMatchingToken [73, 115, 32, 53] = some (ltEq, 3) ∧ getMatchingToken [105, 115, 101, 110, 100, 111, 102, 32, 120] = some (ltIsendof, 8) ∧
          getMatchingToken [97, 103, 101] = none := by decide
-- `(eyecolor == "green") && (!(age:1 >= 21))`, canonically spelled, is printable, denotes a filter and parses to it
def sampleAst : Ast :=
  .conj ltAnd [ .leaf [.user [101,121,101,99,111,108,111,114] false, .fixed ltEq, .user [103,114,101,101,110] true],
                .not (.leaf [.user [97,103,101,58,49] false, .fixed ltGeq, .user [50,49] false]) ]
example : okAst sampleAst := by
  simp [sampleAst, okAst, okKids, plainTok, ltAnd, ltEq, ltGeq, ltNot, ltLparen, ltRparen, ltOr, ltXor]
example : (∀ t ∈ printT sampleAst, printableTok t = true) ∧ (denote sampleAst).isSome = true := by decide
example : (match parseExpr (render (printT sampleAst)), denote sampleAst with
           | .ok g, some f => feq g f | _, _ => false) = true := by decide
-- words the repaired lexer keeps whole / still refuses as unquoted field names
example : printableTok (.user [115,111,109,101,119,104,97,116] false) = true ∧      -- somewhat
          printableTok (.user [119,104,97,116,101,118,101,114] false) = false ∧     -- whatever (begins with `what`)
          printableTok (.user [97,60,98] false) = false := by decide                -- a<b
-- a vertical tab: an empty token and no progress
example : nextToken [11, 97] = some (.user [] false, [11, 97]) := by decide


def sampleFilter : Filter :=
  .minMatch 0 [ .num .i32 [97] 0 nopLt mopNone [5, 0, 0, 0] [0, 0, 0, 0] (some [1, 0, 0, 0]),
                .msgKid [109] 0 (.str [115] 0 sopStartsWith [97] none) none,
                .raw [114] 0 ropEq tcAny (some []) none ]

def sampleMsg : Msg := .mk 7 [([97], .fixed tcInt32 .inl [[4, 0, 0, 0]])]

example : wf sampleFilter := by
  simp [sampleFilter, wf, wfKids, NumTy.size, Filter.U32, nopLt, mopNone, sopStartsWith, ropEq, tcAny]

example : eval (fun _ _ _ => false) sampleFilter sampleMsg none = true := by decide
example : eval (fun _ _ _ => false) sampleFilter (.mk 7 []) none = true := by decide   -- the default 1 < 5 is used
example : eval (fun _ _ _ => false) sampleFilter (.mk 7 [([97], .fixed tcInt32 .inl [[5, 0, 0, 0]])]) none = false := by decide
example : roundTripsTo sampleFilter = true := by decide
/-- one filter of every class, with and without defaults / optional fields -/
def sampleAll : Filter :=
  .xor [ .what 3 3, .what 0 9, .valueExists [97] 2 tcAny, .valueExists [] 0 tcInt32,
         .num .bool [98] 0 nopNe mopXor [1] [1] none, .num .f64 [98] 1 nopGe mopNone [0,0,0,0,0,0,240,63] [0,0,0,0,0,0,0,0] (some [0,0,0,0,0,0,248,127]),
         .num .rc [114] 0 nopEq mopNone rectDefault rectDefault (some rectDefault), .num .i8 [97] 0 200 7 [255] [1] none,
         .childCount [] 0 nopGt mopNone [2,0,0,0] [0,0,0,0] none, .childCount [120] 3 nopEq mopAnd [2,0,0,0] [1,0,0,0] (some [0,0,0,0]),
         .str [115] 0 sopContains [97, 98] (some []), .str [115] 4 255 [] none, .nodeName [] 0 sopEq [110] none, .nodeName [102] 1 13 [110] (some [100]),
         .raw [114] 0 ropLt tcRaw (some [1, 2]) (some [3]), .raw [114] 1 ropSubsetOf tcAny none none, .raw [114] 0 0 200 (some []) none,
         .msgAny [109] 0 none, .msgAny [109] 1 none,
         .msgKid [109] 0 (.what 1 2) none, .msgKid [109] 2 (.minMatch 1 [.what 1 2, .xor []]) none,
         .minMatch muscleNoLimit [], .minMatch 0 [.what 1 1], .maxMatch 0 [.what 1 1, .what 2 2], .maxMatch 7 [], .xor [] ]
example : wf sampleAll := by
  simp [sampleAll, wf, wfKids, NumTy.size, Filter.U32, rectDefault, tcAny, tcInt32, tcRaw, muscleNoLimit,
    nopNe, nopGe, nopEq, nopGt, mopXor, mopNone, mopAnd, sopContains, sopEq, ropLt, ropSubsetOf]
example : roundTripsTo sampleAll = true := by decide
-- a zero-length assumed default survives archiving and is what a Message without the field is compared with
def rawEmptyDefault : Filter := .raw [102] 0 ropLt tcRaw (some [97, 98]) (some [])
example : roundTripsTo rawEmptyDefault = true ∧ feq (norm rawEmptyDefault) rawEmptyDefault = true ∧
          eval (fun _ _ _ => false) rawEmptyDefault (.mk 1 []) none = true := by decide
example : fromArchive (.mk qfInt32 [(kFn, .strs .inl [[97]])]) = none := by decide     -- "val" missing: rejected
-- a Point with a NaN component is both `<=` and `>=` (1.0, NaN) yet not `==`
example : numCmp .pt nopLe [0,0,128,63, 0,0,192,127] [0,0,128,63, 0,0,128,63] = true ∧
          numCmp .pt nopGe [0,0,128,63, 0,0,192,127] [0,0,128,63, 0,0,128,63] = true ∧
          numCmp .pt nopEq [0,0,128,63, 0,0,192,127] [0,0,128,63, 0,0,128,63] = false := by decide
example : ∃ m nd, findData [97] tcInt32 0 m = none ∧ eval (fun _ _ _ => false) (.num .i32 [97] 0 nopEq mopNone [1,0,0,0] [0,0,0,0] (some [1,0,0,0])) m nd = true :=
  ⟨.mk 0 [], none, by decide, by decide⟩

end Muscle.Props.C14
