import MuscleModel.Filter.Proofs2

/-!
# C14 — Query filters evaluate as documented, survive archiving, tolerate bad archives

Property theorems only (lemmas: `Filter/Proofs.lean`, `Filter/Proofs2.lean`).  `eval sm f msg node`
mirrors `f.Matches(msg, node)` for every class of `regex/QueryFilter.h`, `toArchive`/`fromArchive`
mirror `SaveToArchive` / the factory + `SetFromArchive`; the tie to the C++ code is the
correspondence run of engine `qf`.  Every theorem is quantified over the StringMatcher stand-in
`sm` (the four wildcard/regex operators, property C15), over all Messages and all nodes.

`Spec` below is the documentation: the class comments of `MinimumThresholdQueryFilter`
("matches iff more than (n) of its children match", n capped at numKids-1),
`MaximumThresholdQueryFilter` ("iff no more than (n)"), And/Or/Nand/Nor/Xor, including the rows the
default constructors document for a filter with no children (And/Or: always true, Nand/Nor/Xor: always false).

Not covered here: expression strings (`CreateQueryFilterFromExpression`) — not modelled in this version.
-/

set_option linter.unusedSimpArgs false
set_option linter.unusedVariables false

namespace Muscle.Props.C14
open Muscle Muscle.Wire Muscle.Gen Muscle.Filter

/-! ## the documented truth tables, over the list of the children's results -/
namespace Spec
def minMatch (n : Nat) (vs : List Bool) : Bool := vs.isEmpty || decide (vs.count true > min n (vs.length - 1))
def maxMatch (n : Nat) (vs : List Bool) : Bool := !vs.isEmpty && decide (vs.count true ≤ min n (vs.length - 1))
def and (vs : List Bool) : Bool := vs.all id                       -- true on []
def or (vs : List Bool) : Bool := vs.isEmpty || vs.any id           -- true on [] (documented)
def nand (vs : List Bool) : Bool := !vs.isEmpty && !vs.all id       -- false on [] (documented)
def nor (vs : List Bool) : Bool := !vs.isEmpty && !vs.any id        -- false on [] (documented)
def xor (vs : List Bool) : Bool := parity vs                        -- false on []
end Spec

variable (sm : Nat → Bytes → Bytes → Bool)

/-- children's decisions -/
def kidVals (kids : List Filter) (m : Msg) (nd : Option Node) : List Bool := kids.map (fun k => eval sm k m nd)

/-- `ThresholdMaxAux` with its two early exits decides exactly "more than min(n, numKids−1) children
    match" — and true when there are no children — for every list of child results. -/
theorem threshold_spec (n : Nat) (vals : List Bool) :
    thresholdMaxAux n vals = (vals.isEmpty || decide (vals.count true > min n (vals.length - 1))) :=
  thresholdMaxAux_spec n vals

/-- …and the loop itself, started in any reachable state (`mc` matches so far, `mc ≤ threshold`). -/
theorem threshold_loop_spec (t mc : Nat) (vals : List Bool) (h : mc ≤ t) :
    thrLoop t mc vals = decide (mc + vals.count true > t) :=
  thrLoop_spec t vals mc h

theorem combinator_minMatch (n : Nat) (kids : List Filter) (m : Msg) (nd : Option Node) :
    eval sm (.minMatch n kids) m nd = Spec.minMatch n (kidVals sm kids m nd) := by
  simp only [eval, evalKids_eq_map, thresholdMaxAux_spec, Spec.minMatch, kidVals]
  rfl

theorem combinator_maxMatch (n : Nat) (kids : List Filter) (m : Msg) (nd : Option Node) :
    eval sm (.maxMatch n kids) m nd = Spec.maxMatch n (kidVals sm kids m nd) := by
  simp only [eval, evalKids_eq_map, thresholdMaxAux_spec, Spec.maxMatch, kidVals]
  have hd : ∀ (a b : Nat), decide (a < b) = !decide (b ≤ a) := by
    intro a b; by_cases h : a < b <;> simp [h] <;> omega
  cases (List.map (fun k => eval sm k m nd) kids).isEmpty <;> simp [hd]

/-- AND: every child matches (a `Queue` holds at most 2^32 children: `numKids` is a `uint32`). -/
theorem combinator_and (kids : List Filter) (m : Msg) (nd : Option Node) (h : kids.length ≤ muscleNoLimit + 1) :
    eval sm (Filter.and kids) m nd = Spec.and (kidVals sm kids m nd) := by
  simp only [Filter.and, eval, evalKids_eq_map, Spec.and, kidVals]
  exact thr_and _ (by simpa using h)

theorem combinator_or (kids : List Filter) (m : Msg) (nd : Option Node) :
    eval sm (Filter.or kids) m nd = Spec.or (kidVals sm kids m nd) := by
  simp only [Filter.or, eval, evalKids_eq_map, Spec.or, kidVals]
  exact thr_or _

theorem combinator_nand (kids : List Filter) (m : Msg) (nd : Option Node) (h : kids.length ≤ muscleNoLimit + 1) :
    eval sm (Filter.nand kids) m nd = Spec.nand (kidVals sm kids m nd) := by
  simp only [Filter.nand, eval, evalKids_eq_map, Spec.nand, kidVals]
  rw [thr_and _ (by simpa using h)]
  cases kids <;> simp

theorem combinator_nor (kids : List Filter) (m : Msg) (nd : Option Node) :
    eval sm (Filter.nor kids) m nd = Spec.nor (kidVals sm kids m nd) := by
  simp only [Filter.nor, eval, evalKids_eq_map, Spec.nor, kidVals]
  rw [thr_or]
  cases kids <;> simp

theorem combinator_xor (kids : List Filter) (m : Msg) (nd : Option Node) :
    eval sm (.xor kids) m nd = Spec.xor (kidVals sm kids m nd) := by
  simp only [eval, evalKids_eq_map, Spec.xor, kidVals, xorLoop_spec, parity_count, Nat.zero_add]

/-- The documented behaviour of the seven combinators without children. -/
theorem combinators_no_children (n : Nat) (m : Msg) (nd : Option Node) :
    eval sm (Filter.and []) m nd = true ∧ eval sm (Filter.or []) m nd = true ∧ eval sm (.minMatch n []) m nd = true ∧
    eval sm (Filter.nand []) m nd = false ∧ eval sm (Filter.nor []) m nd = false ∧ eval sm (.maxMatch n []) m nd = false ∧
    eval sm (.xor []) m nd = false := by
  simp [Filter.and, Filter.or, Filter.nand, Filter.nor, eval, evalKids, thresholdMaxAux, xorLoop]

/-- NOT (a `NorQueryFilter`/`NandQueryFilter` with one child) inverts its child. -/
theorem combinator_not (k : Filter) (m : Msg) (nd : Option Node) :
    eval sm (Filter.nor [k]) m nd = !eval sm k m nd ∧ eval sm (Filter.nand [k]) m nd = !eval sm k m nd := by
  cases h : eval sm k m nd <;>
    simp [Filter.nor, Filter.nand, eval, evalKids, thresholdMaxAux, thrLoop, h, muscleNoLimit]

/-! ## numeric comparison: per operator and operand type -/

/-- Signed integer types: the six operators are the six order relations on the two's-complement
    values of item and operand (both of the operand width). -/
theorem numeric_spec_int (t : NumTy) (ht : t = .i8 ∨ t = .i16 ∨ t = .i32 ∨ t = .i64) (a b : Bytes)
    (ha : a.length = t.size) (hb : b.length = t.size) :
    let x := sval t.size (leVal a); let y := sval t.size (leVal b)
    numCmp t nopEq a b = decide (x = y) ∧ numCmp t nopLt a b = decide (x < y) ∧ numCmp t nopGt a b = decide (x > y) ∧
    numCmp t nopLe a b = decide (x ≤ y) ∧ numCmp t nopGe a b = decide (x ≥ y) ∧ numCmp t nopNe a b = decide (x ≠ y) :=
  numCmp_int t ht a b ha hb

/-- `bool`: compared as 0/1 (false < true). -/
theorem numeric_spec_bool (a b : Bytes) :
    let x := leVal a; let y := leVal b
    numCmp .bool nopEq a b = decide (x = y) ∧ numCmp .bool nopLt a b = decide (x < y) ∧ numCmp .bool nopGt a b = decide (x > y) ∧
    numCmp .bool nopLe a b = decide (x ≤ y) ∧ numCmp .bool nopGe a b = decide (x ≥ y) ∧ numCmp .bool nopNe a b = decide (x ≠ y) :=
  numCmp_bool a b

/-- `float` / `double` on bit patterns: IEEE order = order of the sign-magnitude keys; every
    operator is false as soon as one side is a NaN, except `!=`, which is then true. -/
theorem numeric_spec_float (t : NumTy) (ht : t = .f32 ∨ t = .f64) (a b : Bytes) :
    let k := t.size; let x := leVal a; let y := leVal b
    let ord := !fNaN k x && !fNaN k y
    numCmp t nopEq a b = (ord && decide (fKey k x = fKey k y)) ∧ numCmp t nopLt a b = (ord && decide (fKey k x < fKey k y)) ∧
    numCmp t nopGt a b = (ord && decide (fKey k x > fKey k y)) ∧ numCmp t nopLe a b = (ord && decide (fKey k x ≤ fKey k y)) ∧
    numCmp t nopGe a b = (ord && decide (fKey k x ≥ fKey k y)) ∧ numCmp t nopNe a b = (!ord || decide (fKey k x ≠ fKey k y)) :=
  numCmp_float t ht a b

/-- An operator code outside the enumeration matches nothing, whatever the type. -/
theorem numeric_spec_bad_op (t : NumTy) (op : Nat) (a b : Bytes) (h : 6 ≤ op) : numCmp t op a b = false :=
  numCmp_bad_op t op a b h

/-! ## missing data: the default rule -/

/-- `FindData` misses exactly in the documented ways (no such field / other type / index out of range) … -/
theorem findData_misses (fn : Bytes) (tc idx : Nat) (m : Msg) :
    (lookupField fn m.fields = none → findData fn tc idx m = none) ∧
    (∀ f, lookupField fn m.fields = some f → tc ≠ tcAny → tc ≠ f.typeCode → findData fn tc idx m = none) ∧
    (∀ f, lookupField fn m.fields = some f → f.count ≤ idx → findData fn tc idx m = none) :=
  ⟨findData_absent fn tc idx m, fun f h => findData_wrong_type fn tc idx m f h, fun f h => findData_out_of_range fn tc idx m f h⟩

/-- … and then a numeric filter compares the assumed default if one was given, and rejects otherwise. -/
theorem missing_data_num (ty : NumTy) (fn : Bytes) (idx op mop : Nat) (val mask : Bytes) (dflt : Option Bytes) (m : Msg) (nd : Option Node)
    (h : findData fn ty.tc idx m = none) :
    eval sm (.num ty fn idx op mop val mask dflt) m nd =
      match dflt with
      | some d => numCmp ty op (if mop = mopNone then d else doMask ty mop d mask) val
      | none => false := by
  cases dflt <;> simp [eval, h, numMatches]

theorem missing_data_str (fn : Bytes) (idx op : Nat) (val : Bytes) (dflt : Option Bytes) (m : Msg) (nd : Option Node)
    (h : findString fn idx m = none) :
    eval sm (.str fn idx op val dflt) m nd = match dflt with | some d => strMatches sm op val d | none => false := by
  cases dflt <;> simp [eval, h, strMatchesOpt]

theorem missing_data_raw (fn : Bytes) (idx op tc : Nat) (val dflt : Option Bytes) (m : Msg) (nd : Option Node)
    (h : findData fn tc idx m = none) :
    eval sm (.raw fn idx op tc val dflt) m nd = match dflt with | some d => rawMatches op val none (some d) | none => false := by
  cases dflt <;> simp [eval, h, rawMatches]

theorem missing_data_msg (fn : Bytes) (idx : Nat) (kid : Filter) (dflt : Option Msg) (m : Msg) (nd : Option Node)
    (h : findMessage fn idx m = none) :
    eval sm (.msgKid fn idx kid dflt) m nd = match dflt with | some d => eval sm kid d nd | none => false := by
  cases dflt <;> simp [eval, h, orElse']

/-- When the item is there, the default is irrelevant. -/
theorem present_data_num (ty : NumTy) (fn : Bytes) (idx op mop : Nat) (val mask : Bytes) (d1 d2 : Option Bytes) (m : Msg) (nd : Option Node)
    (v : Bytes) (h : findData fn ty.tc idx m = some v) :
    eval sm (.num ty fn idx op mop val mask d1) m nd = eval sm (.num ty fn idx op mop val mask d2) m nd := by
  simp [eval, h, numMatches]

/-! ## archiving -/

/- FULL STATEMENT — only its second half is proved in this version (the first half, the syntactic round trip
   through the archive, is validated on every generated tree by the `rt` / `arch` ops of the correspondence run, by the
   restored-twin oracle of the harness, and by the `decide` examples at the end of this file that cover every class):

   theorem archive_roundtrip (f : Filter) (h : wf f) :
       fromArchive (toArchive f) = some (norm f) ∧ ∀ m nd, eval sm (norm f) m nd = eval sm f m nd

   `wf`: operands of the operand width, 32-bit indices/counts/type codes, 8-bit operator codes, and no zero-length
   raw-data default (finding `qf-rawdef-empty`: `SaveToArchive` drops it and the restored filter decides differently). -/

/-- The one thing an archive cannot represent — a zero-length (as opposed to NULL) raw-data value
    buffer, which comes back as NULL (`norm`) — never changes a decision: the normal form decides
    identically on every Message and node, for every filter tree.  MISSING for the full
    `archive_roundtrip`: `fromArchive (toArchive f) = some (norm f)` for every `wf f`. -/
theorem archive_roundtrip_partial (f : Filter) (m : Msg) (nd : Option Node) :
    eval sm (norm f) m nd = eval sm f m nd :=
  eval_norm sm f m nd

/-- Building a filter from an arbitrary Message either fails or yields a completely initialised
    filter: every numeric operand and mask has the operand width, every child exists and is itself
    well-shaped (`shapeOk`); in particular evaluation of the result is defined on every Message
    (`eval` is total). -/
theorem fromArchive_total (a : Msg) :
    fromArchive a = none ∨ ∃ f, fromArchive a = some f ∧ shapeOk f := by
  cases h : fromArchive a with
  | none => exact Or.inl rfl
  | some f => exact Or.inr ⟨f, rfl, fromArchiveF_shape _ a f h⟩

/-- An unknown class code is rejected. -/
theorem fromArchive_unknown_code (w : Nat) (fs : List (Bytes × Field)) (h : w < qfWhatCode ∨ qfNodeName < w) :
    fromArchive (.mk w fs) = none :=
  fromArchive_unknown w fs h

/-- A child archive that the factory rejects makes the parent fail (no partially built combinator). -/
theorem fromArchive_bad_child (fuel : Nat) (a : Msg) (k : Msg) (hk : k ∈ kidArchives a) (hbad : fromArchiveF fuel k = none)
    (hw : a.what = qfMinMatch ∨ a.what = qfMaxMatch ∨ a.what = qfXor) : fromArchiveF (fuel + 1) a = none :=
  fromArchiveF_bad_child fuel a k hk hbad hw

/-! ## non-vacuity -/

def sampleFilter : Filter :=
  .minMatch 0 [ .num .i32 [97] 0 nopLt mopNone [5, 0, 0, 0] [0, 0, 0, 0] (some [1, 0, 0, 0]),
                .msgKid [109] 0 (.str [115] 0 sopStartsWith [97] none) none,
                .raw [114] 0 ropEq tcAny (some []) none ]

def sampleMsg : Msg := .mk 7 [([97], .fixed tcInt32 .inl [[4, 0, 0, 0]])]

example : wf sampleFilter := by
  simp [sampleFilter, wf, wfKids, NumTy.size, Filter.U32, nopLt, mopNone, sopStartsWith, ropEq, tcAny]

example : eval (fun _ _ _ => false) sampleFilter sampleMsg none = true := by decide
example : eval (fun _ _ _ => false) sampleFilter (.mk 7 []) none = true := by decide   -- the default 1 < 5 is used
example : eval (fun _ _ _ => false) sampleFilter (.mk 7 [([97], .fixed tcInt32 .inl [[5, 0, 0, 0]])]) none = false := by decide
example : roundTripsTo sampleFilter = true := by decide
/-- one filter of every class, with and without defaults / optional fields -/
def sampleAll : Filter :=
  .xor [ .what 3 3, .what 0 9, .valueExists [97] 2 tcAny, .valueExists [] 0 tcInt32,
         .num .bool [98] 0 nopNe mopXor [1] [1] none, .num .f64 [98] 1 nopGe mopNone [0,0,0,0,0,0,240,63] [0,0,0,0,0,0,0,0] (some [0,0,0,0,0,0,248,127]),
         .num .rc [114] 0 nopEq mopNone rectDefault rectDefault (some rectDefault), .num .i8 [97] 0 200 7 [255] [1] none,
         .childCount [] 0 nopGt mopNone [2,0,0,0] [0,0,0,0] none, .childCount [120] 3 nopEq mopAnd [2,0,0,0] [1,0,0,0] (some [0,0,0,0]),
         .str [115] 0 sopContains [97, 98] (some []), .str [115] 4 255 [] none, .nodeName [] 0 sopEq [110] none, .nodeName [102] 1 13 [110] (some [100]),
         .raw [114] 0 ropLt tcRaw (some [1, 2]) (some [3]), .raw [114] 1 ropSubsetOf tcAny none none, .raw [114] 0 0 200 (some []) none,
         .msgAny [109] 0 none, .msgAny [109] 1 none,
         .msgKid [109] 0 (.what 1 2) none, .msgKid [109] 2 (.minMatch 1 [.what 1 2, .xor []]) none,
         .minMatch muscleNoLimit [], .minMatch 0 [.what 1 1], .maxMatch 0 [.what 1 1, .what 2 2], .maxMatch 7 [], .xor [] ]
example : wf sampleAll := by
  simp [sampleAll, wf, wfKids, NumTy.size, Filter.U32, rectDefault, tcAny, tcInt32, tcRaw, muscleNoLimit,
    nopNe, nopGe, nopEq, nopGt, mopXor, mopNone, mopAnd, sopContains, sopEq, ropLt, ropSubsetOf]
example : roundTripsTo sampleAll = true := by decide
example : fromArchive (.mk qfInt32 [(kFn, .strs .inl [[97]])]) = none := by decide     -- "val" missing: rejected
example : ∃ m nd, findData [97] tcInt32 0 m = none ∧ eval (fun _ _ _ => false) (.num .i32 [97] 0 nopEq mopNone [1,0,0,0] [0,0,0,0] (some [1,0,0,0])) m nd = true :=
  ⟨.mk 0 [], none, by decide, by decide⟩

end Muscle.Props.C14
