import MuscleModel.Containers.Proofs7
import MuscleModel.Containers.HTWidth

/-!
# C09 — Hashtable behaves as an ordered map and its iterators survive any mutation

Property theorems only (lemmas: `Containers/Proofs*.lean`, kernel: `Containers/HTWidth.lean`).

Model: `Tab K V` = the iteration order as an association list `m : OMap K V` (bucket chains abstracted to
find-by-key), the iterators registered in `_iterList` (`cur` = key under the cookie, `scratch` =
`_scratchKeyAndValue`, `back` = `HTIT_FLAG_BACKWARDS`) and the auto-sort flag; `Tab.apply lt? tb op` is one public
operation, `lt? = none` for `Hashtable`, `some lt` for the auto-sorting kinds (`lt a b` = `Compare(a,b) < 0`).
`Tab.Inv` = no duplicate keys and every registered iterator's cookie is NULL or a key of the table.
The tie to util/Hashtable.h is the correspondence run of engine `ht`, which executes exactly these functions.
-/

namespace Muscle.Props.C09
open Muscle Muscle.Containers Muscle.Containers.Tab

variable {K V : Type} [DecidableEq K]

/-! ## The table is an ideal map (all three kinds, any auto-sort state) -/

/-- `Get` after `Put` of the same key returns the value put. -/
theorem get_put_same (lt? : Option (K × V → K × V → Bool)) (tb : Tab K V) (h : tb.Inv) (k : K) (v : V) :
    get (tb.apply lt? (.put k v)).m k = some v := get_putAux_same lt? k v h.1

/-- `Put` does not change what any other key maps to. -/
theorem get_put_other (lt? : Option (K × V → K × V → Bool)) (tb : Tab K V) (h : tb.Inv) (k k' : K) (v : V) (hne : k' ≠ k) :
    get (tb.apply lt? (.put k v)).m k' = get tb.m k' := get_putAux_other lt? k v hne h.1

/-- `Remove` removes the key … -/
theorem get_remove_same (lt? : Option (K × V → K × V → Bool)) (tb : Tab K V) (k : K) :
    get (tb.apply lt? (.remove k)).m k = none := get_removeKey_same tb k

/-- … and nothing else. -/
theorem get_remove_other (lt? : Option (K × V → K × V → Bool)) (tb : Tab K V) (k k' : K) (hne : k' ≠ k) :
    get (tb.apply lt? (.remove k)).m k' = get tb.m k' := get_removeKey_other tb hne

/-- `GetNumItems` after `Put` / `Remove`. -/
theorem size_put (lt? : Option (K × V → K × V → Bool)) (tb : Tab K V) (k : K) (v : V) :
    (tb.apply lt? (.put k v)).m.length = if has tb.m k then tb.m.length else tb.m.length + 1 := length_putAux lt? k v

theorem size_remove (lt? : Option (K × V → K × V → Bool)) (tb : Tab K V) (h : tb.Inv) (k : K) :
    (tb.apply lt? (.remove k)).m.length = if has tb.m k then tb.m.length - 1 else tb.m.length := length_removeKey k h.1

/-- `ContainsKey` is membership in the key sequence, `Get` finds exactly the stored pairs. -/
theorem has_iff_mem (m : OMap K V) (k : K) : has m k = true ↔ k ∈ keys m := has_iff

theorem get_iff_mem (tb : Tab K V) (h : tb.Inv) (k : K) (v : V) : get tb.m k = some v ↔ (k, v) ∈ tb.m :=
  (mem_iff_get h.1).symm

/-- The move operations, `Reposition` and the sorts only permute the entries: every key keeps its value. -/
theorem reorder_keeps_content (lt? : Option (K × V → K × V → Bool)) (tb : Tab K V) (h : tb.Inv) (k f : K) (i : Nat)
    (lt : K × V → K × V → Bool) :
    (tb.apply lt? (.moveToFront k)).m.Perm tb.m ∧ (tb.apply lt? (.moveToBack k)).m.Perm tb.m ∧
    (tb.apply lt? (.moveToBefore k f)).m.Perm tb.m ∧ (tb.apply lt? (.moveToBehind k f)).m.Perm tb.m ∧
    (tb.apply lt? (.moveToPosition k i)).m.Perm tb.m ∧ (tb.apply lt? (.reposition k)).m.Perm tb.m ∧
    (tb.apply lt? (.sortBy lt)).m.Perm tb.m := by
  refine ⟨moveFrontAux_perm k h.1, moveBackAux_perm k h.1, ?_, ?_, ?_, reposition_perm lt? k, sortBy_perm lt tb.m⟩
  · simp only [Tab.apply]; split
    · exact moveBeforeAux_perm k f h.1
    · exact List.Perm.refl _
  · simp only [Tab.apply]; split
    · exact moveBehindAux_perm k f h.1
    · exact List.Perm.refl _
  · simp only [Tab.apply]; split
    · exact movePosAux_perm k i h.1
    · exact List.Perm.refl _

/-- A permutation of the entries does not change any lookup. -/
theorem get_of_perm (m m' : OMap K V) (hp : m'.Perm m) (hn : (keys m).Nodup) (k : K) : get m' k = get m k :=
  get_perm hp.symm hn k

/-! ## Order laws of the plain `Hashtable` (`lt? = none`): the iteration order is the one defined by the operations -/

/-- `Put`: an existing key keeps its place, a new key goes to the end. -/
theorem order_put (tb : Tab K V) (k : K) (v : V) :
    keys (tb.apply none (.put k v)).m = if k ∈ keys tb.m then keys tb.m else keys tb.m ++ [k] := keys_putAux_plain tb k v

/-- `Remove` (all kinds): the other keys keep their relative order. -/
theorem order_remove (lt? : Option (K × V → K × V → Bool)) (tb : Tab K V) (k : K) :
    keys (tb.apply lt? (.remove k)).m = (keys tb.m).filter (fun x => x ≠ k) := keys_removeKey tb k

/-- `MoveToFront` / `MoveToBack` (all kinds). -/
theorem order_moveToFront (lt? : Option (K × V → K × V → Bool)) (tb : Tab K V) (h : tb.Inv) (k : K) (hk : k ∈ keys tb.m) :
    keys (tb.apply lt? (.moveToFront k)).m = k :: (keys tb.m).filter (fun x => x ≠ k) := keys_moveFrontAux h.1 hk

theorem order_moveToBack (lt? : Option (K × V → K × V → Bool)) (tb : Tab K V) (h : tb.Inv) (k : K) (hk : k ∈ keys tb.m) :
    keys (tb.apply lt? (.moveToBack k)).m = (keys tb.m).filter (fun x => x ≠ k) ++ [k] := keys_moveBackAux h.1 hk

/-- `MoveToPosition(k, idx)` (all kinds): `k` ends at position `min idx (n-1)`, the rest keeps its order. -/
theorem order_moveToPosition (lt? : Option (K × V → K × V → Bool)) (tb : Tab K V) (h : tb.Inv) (k : K) (idx : Nat)
    (hk : k ∈ keys tb.m) :
    keys (tb.apply lt? (.moveToPosition k idx)).m =
      ((keys tb.m).filter (fun x => x ≠ k)).take (min idx (tb.m.length - 1)) ++
        k :: ((keys tb.m).filter (fun x => x ≠ k)).drop (min idx (tb.m.length - 1)) := by
  simp only [Tab.apply, has_iff.mpr hk, if_true]
  exact keys_movePosAux idx h.1 hk

/-- `MoveToBefore(k, f)` (all kinds): `k` sits immediately before `f`, the rest keeps its order. -/
theorem order_moveToBefore (lt? : Option (K × V → K × V → Bool)) (tb : Tab K V) (h : tb.Inv) (k f : K)
    (hk : k ∈ keys tb.m) (hf : f ∈ keys tb.m) (hne : k ≠ f) :
    ∃ a b, (keys tb.m).filter (fun x => x ≠ k) = a ++ f :: b ∧
      keys (tb.apply lt? (.moveToBefore k f)).m = a ++ k :: f :: b := by
  simp only [Tab.apply, has_iff.mpr hk, has_iff.mpr hf, hne, ne_eq, not_false_eq_true, and_self, if_true]
  exact keys_moveBeforeAux h.1 hk hf hne

/-- `MoveToBehind(k, d)` (all kinds): `k` sits immediately behind `d`. -/
theorem order_moveToBehind (lt? : Option (K × V → K × V → Bool)) (tb : Tab K V) (h : tb.Inv) (k d : K)
    (hk : k ∈ keys tb.m) (hd : d ∈ keys tb.m) (hne : k ≠ d) :
    ∃ a b, (keys tb.m).filter (fun x => x ≠ k) = a ++ d :: b ∧
      keys (tb.apply lt? (.moveToBehind k d)).m = a ++ d :: k :: b := by
  simp only [Tab.apply, has_iff.mpr hk, has_iff.mpr hd, hne, ne_eq, not_false_eq_true, and_self, if_true]
  exact keys_moveBehindAux h.1 hk hd hne

/-- The positional puts of the plain table. -/
theorem order_putAtFront (tb : Tab K V) (h : tb.Inv) (k : K) (v : V) :
    keys (tb.apply none (.putAtFront k v)).m = k :: (keys tb.m).filter (fun x => x ≠ k) := keys_putAtFront_plain k v h

theorem order_putAtBack (tb : Tab K V) (h : tb.Inv) (k : K) (v : V) :
    keys (tb.apply none (.putAtBack k v)).m = (keys tb.m).filter (fun x => x ≠ k) ++ [k] := keys_putAtBack_plain k v h

theorem order_putAtPosition (tb : Tab K V) (h : tb.Inv) (k : K) (idx : Nat) (v : V) :
    keys (tb.apply none (.putAtPosition k idx v)).m =
      ((keys tb.m).filter (fun x => x ≠ k)).take (min idx ((tb.apply none (.put k v)).m.length - 1)) ++
        k :: ((keys tb.m).filter (fun x => x ≠ k)).drop (min idx ((tb.apply none (.put k v)).m.length - 1)) :=
  keys_putAtPosition_plain k idx v h

theorem order_putBefore (tb : Tab K V) (h : tb.Inv) (k f : K) (v : V) (hf : f ∈ keys tb.m) (hne : k ≠ f) :
    ∃ a b, (keys tb.m).filter (fun x => x ≠ k) = a ++ f :: b ∧
      keys (tb.apply none (.putBefore k f v)).m = a ++ k :: f :: b := keys_putBefore_plain k f v h hf hne

theorem order_putBehind (tb : Tab K V) (h : tb.Inv) (k d : K) (v : V) (hd : d ∈ keys tb.m) (hne : k ≠ d) :
    ∃ a b, (keys tb.m).filter (fun x => x ≠ k) = a ++ d :: b ∧
      keys (tb.apply none (.putBehind k d v)).m = a ++ d :: k :: b := keys_putBehind_plain k d v h hd hne

/-- `PutBefore` with a missing position key (or the key itself) is a plain `Put`. -/
theorem order_putBefore_missing (lt? : Option (K × V → K × V → Bool)) (tb : Tab K V) (k f : K) (v : V)
    (h : f ∉ keys (tb.apply lt? (.put k v)).m ∨ k = f) :
    tb.apply lt? (.putBefore k f v) = tb.apply lt? (.put k v) := putBefore_eq_put lt? tb k f v h

/-- `SortByKey/SortByValue/Sort`: the result is sorted, holds the same entries, and is stable (two entries
    that are not out of order keep their relative position). -/
theorem order_sort (lt? : Option (K × V → K × V → Bool)) (tb : Tab K V) (lt : K × V → K × V → Bool) (sw : StrictWeak lt) :
    Sorted lt (tb.apply lt? (.sortBy lt)).m ∧ (tb.apply lt? (.sortBy lt)).m.Perm tb.m ∧
    ∀ a b, lt b a = false → [a, b].Sublist tb.m → [a, b].Sublist (tb.apply lt? (.sortBy lt)).m := by
  refine ⟨sorted_sortBy sw tb.m, sortBy_perm lt tb.m, ?_⟩
  intro a b hab hsub
  apply List.pair_sublist_mergeSort (le := fun a b => !lt b a)
  · intro a b c h1 h2
    simp only [Bool.not_eq_true'] at h1 h2 ⊢
    exact sw.false_of h2 h1
  · intro a b
    cases h : lt a b with
    | false => simp
    | true => simp [sw.asymm a b h]
  · simp [hab]
  · exact hsub

/-- `Clear` empties the table; reallocation (`EnsureSize`, `ShrinkToFit`, growth) changes nothing observable. -/
theorem order_clear_realloc (lt? : Option (K × V → K × V → Bool)) (tb : Tab K V) :
    (tb.apply lt? .clear).m = [] ∧ tb.apply lt? .realloc = tb := ⟨rfl, rfl⟩

/-! ## Auto-sorting tables stay sorted -/

/-- For a comparison that is a strict weak order: every operation that is not documented as disturbing the
    order (`SortSafe`: puts, removals, clear, copy-from, built-in sort, reallocation, iterator traffic) keeps an
    auto-sorting table sorted, with its invariant. -/
theorem autosort_inv (lt : K × V → K × V → Bool) (sw : StrictWeak lt) (tb : Tab K V) (op : Op K V)
    (hs : SortSafe lt op) (h : SortedInv lt tb) : SortedInv lt (tb.apply (some lt) op) := sortedInv_apply sw op hs h

/-- … hence in every state reachable by such operations. -/
theorem autosort_reach (lt : K × V → K × V → Bool) (sw : StrictWeak lt) (ops : List (Op K V))
    (hs : ∀ op ∈ ops, SortSafe lt op) : SortedInv lt (ops.foldl (Tab.apply (some lt)) Tab.empty) := by
  have : ∀ (l : List (Op K V)) (tb : Tab K V), (∀ op ∈ l, SortSafe lt op) → SortedInv lt tb →
      SortedInv lt (l.foldl (Tab.apply (some lt)) tb) := by
    intro l
    induction l with
    | nil => intro tb _ h; exact h
    | cons op r ih =>
      intro tb hl h
      simp only [List.foldl_cons]
      exact ih _ (fun o ho => hl o (List.mem_cons_of_mem _ ho)) (sortedInv_apply sw op (hl op (by simp)) h)
  exact this ops _ hs ⟨inv_empty, by simp [Tab.empty, Sorted], rfl⟩

/-- `Reposition(k)` / the re-positioning inside `Put` restore the order when `k` is the only entry out of place. -/
theorem reposition_restores (lt : K × V → K × V → Bool) (sw : StrictWeak lt) (tb : Tab K V) (h : tb.Inv) (k : K)
    (hs : Sorted lt (erase tb.m k)) : Sorted lt (tb.apply (some lt) (.reposition k)).m := sorted_reposition sw k h.1 hs

/-- With the hook that honours the flag (`respectFlag`: the repair proposed for finding R3), a `Put` on an existing
    key of a table whose auto-sort is switched off leaves the iteration order alone, as `SetAutoSortEnabled`
    documents; `Tab.respectFlag = false` is the code as it stands (the entry is re-positioned regardless). -/
theorem put_existing_autosort_off (lt? : Option (K × V → K × V → Bool)) (tb : Tab K V) (hr : tb.respectFlag = true)
    (ha : tb.autoSort = false) (k : K) (v : V) (hk : k ∈ keys tb.m) :
    keys (tb.apply lt? (.put k v)).m = keys tb.m := by
  simp [Tab.apply, Tab.putAux, Tab.valueChanged, has_iff.mpr hk, hr, ha]

/-! ## Iterators never dangle -/

/-- The invariant is preserved by every operation of the public API (put variants, positional puts, removals,
    move operations, sorts, clear, copy-from, reallocation, iterator creation/advance/retreat/copy/destruction). -/
theorem inv_preserved (lt? : Option (K × V → K × V → Bool)) (tb : Tab K V) (op : Op K V) (h : tb.Inv) :
    (tb.apply lt? op).Inv := inv_apply lt? op h

/-- In every reachable state no key occurs twice and no registered iterator's cookie refers to an entry that
    is not in the table. -/
theorem iter_never_dangling (lt? : Option (K × V → K × V → Bool)) (tb : Tab K V) (h : Reach lt? tb) :
    (keys tb.m).Nodup ∧ ∀ it ∈ tb.its, it.cur = none ∨ ∃ k, it.cur = some k ∧ k ∈ keys tb.m := by
  have hi := inv_of_reach lt? h
  refine ⟨hi.1, ?_⟩
  intro it hit
  cases hc : it.cur with
  | none => exact Or.inl rfl
  | some k => exact Or.inr ⟨k, rfl, hi.2 it hit k hc⟩

/-- What such an iterator shows is its scratch copy (kept from the entry it stood on when that entry was removed
    or moved) or the current pair of an entry of the table; and once it has been advanced or retreated it has no
    scratch copy, so it shows a live entry or reports the end. -/
theorem iter_shows_live_entry (lt? : Option (K × V → K × V → Bool)) (tb : Tab K V) (h : Reach lt? tb) (it : Iter K V)
    (hit : it ∈ tb.its) (k : K) (v : V) :
    (it.peek tb.m = some (k, v) → it.scratch = some (k, v) ∨ get tb.m k = some v) ∧
    ((it.next tb.m).peek tb.m = some (k, v) → get tb.m k = some v) ∧
    ((it.prev tb.m).peek tb.m = some (k, v) → get tb.m k = some v) := by
  refine ⟨fun hp => ?_, fun hp => ?_, fun hp => ?_⟩
  · rcases Iter.peek_spec hp with h1 | h1
    · exact Or.inl h1
    · exact Or.inr h1.2.2
  · rcases Iter.peek_spec hp with h1 | h1
    · rw [Iter.scratch_next] at h1; cases h1
    · exact h1.2.2
  · rcases Iter.peek_spec hp with h1 | h1
    · rw [Iter.scratch_prev] at h1; cases h1
    · exact h1.2.2

/-- An iterator whose table is cleared or destroyed is detached: it keeps a copy of the pair it stood on and
    reports the end after its next step, whatever happens to the table afterwards. -/
theorem iter_after_clear (m m' : OMap K V) (it : Iter K V) :
    (Iter.onClear m it).cur = none ∧ ((Iter.onClear m it).next m').peek m' = none := by
  exact ⟨rfl, Iter.peek_next_of_cur_none m' rfl⟩

/-! ## A traversal under mutation (plain `Hashtable`, one registered iterator, forwards or backwards)

`TSt.start m back` = the table with order `m` right after `GetIterator(flags)`; a run is a list of events
`adv` (`iter++`), `put k v`, `remove k` — the mutations that do not reorder surviving entries; each event is the
corresponding table operation (`traversal_is_table_run`).  `visited` = the key in view at the start followed by
the key that comes into view at each `adv`. -/

/-- The run is a run of the table model: each event is `Tab.apply` on the table whose registry is this iterator. -/
theorem traversal_is_table_run (st : TSt K V) (ev : Ev K V) : (st.step ev).toTab = Tab.apply none st.toTab ev.toOp :=
  step_toTab st ev

/-- Completeness: once the iterator reports the end, every key that was in the table when the traversal began
    and was not removed during it has been visited — whatever was put or removed in between, in either
    direction. -/
theorem traversal_complete (m : OMap K V) (hn : (keys m).Nodup) (back : Bool) (evs : List (Ev K V)) (x : K)
    (hx : x ∈ keys m) (hkeep : ∀ e ∈ evs, ∀ k, e = Ev.remove k → k ≠ x)
    (hend : (runFinal (TSt.start m back) evs).shown = none) : x ∈ visited (TSt.start m back) evs :=
  complete_aux evs (TSt.start m back) _ x (wf_start back hn) ((start_covers back hn).1 x hx) hkeep hend

/-- No duplicates: if no key is put again after having been removed, no key is visited twice. -/
theorem traversal_nodup (m : OMap K V) (hn : (keys m).Nodup) (back : Bool) (evs : List (Ev K V))
    (hnr : NoReinsert [] evs) : (visited (TSt.start m back) evs).Nodup := by
  obtain ⟨_, h2, h3⟩ := start_covers back hn
  refine nodup_aux evs (TSt.start m back) _ [] (wf_start back hn) ?_ h2 (fun x hx => Or.inl (h3 x hx)) hnr
  cases (TSt.start m back).shown <;> simp

/-- An `adv` brings the next pending key into view, and that key is in the table at that moment. -/
theorem traversal_advance (st : TSt K V) (h : st.WF) :
    (st.pending = match (st.step .adv).shown with | none => [] | some s => s :: (st.step .adv).pending) ∧
    ∀ s, (st.step .adv).shown = some s → s ∈ keys st.m := by
  refine ⟨adv_spec h, ?_⟩
  intro s hs
  have := adv_spec h
  rw [hs] at this
  exact pending_subset h s (by rw [this]; simp)

/-! ## Index-width kernel (regenerated from the compiled headers) -/

/-- Every slot index of a table with `n` slots fits the index type chosen for `n` and is different from that
    type's "no slot" sentinel. -/
theorem width_safe (n i : Nat) (hn : n < 2 ^ 32) (hi : i < n) :
    i < indexRange (Gen.htIndexType n) ∧ i ≠ indexSentinel (Gen.htIndexType n) := width_safe_aux n i hn hi

/-! ## Non-vacuity -/

def ltKeyNat : Nat × Nat → Nat × Nat → Bool := fun a b => decide (a.1 < b.1)
def ltValNat : Nat × Nat → Nat × Nat → Bool := fun a b => decide (a.2 < b.2)

example : StrictWeak ltKeyNat :=
  ⟨by intro a b h; simp [ltKeyNat] at h ⊢; omega, by intro a b c h; simp [ltKeyNat] at h ⊢; omega⟩
example : StrictWeak ltValNat :=
  ⟨by intro a b h; simp [ltValNat] at h ⊢; omega, by intro a b c h; simp [ltValNat] at h ⊢; omega⟩

def sampleTab : Tab Nat Nat :=
  { m := [(1, 10), (2, 20), (3, 30)], its := [⟨some 2, none, false⟩, ⟨some 3, none, true⟩], autoSort := true }

example : sampleTab.Inv := by
  refine ⟨by decide, ?_⟩
  intro it hit
  simp [sampleTab] at hit
  rcases hit with rfl | rfl <;> intro k hk <;> simp at hk <;> subst hk <;> decide

example : keys (sampleTab.apply none (.moveToFront 3)).m = [3, 1, 2] := by decide
example : keys (sampleTab.apply none (.moveToBefore 3 2)).m = [1, 3, 2] := by decide
example : keys (sampleTab.apply none (.putAtPosition 9 1 90)).m = [1, 9, 2, 3] := by decide
/- removing the entry a forward iterator stands on: the pair moves to the scratch copy, the cookie to the successor -/
example : ((sampleTab.apply none (.remove 2)).its.map (fun it => (it.cur, it.scratch))) = [(some 3, some (2, 20)), (some 3, none)] := by decide
/- an auto-sorting (by value) table re-positions a replaced entry -/
example : (sampleTab.apply (some ltValNat) (.put 1 25)).m = [(2, 20), (1, 25), (3, 30)] := by decide
example : SortedInv ltValNat ({ sampleTab with its := [] }) := by
  refine ⟨⟨by decide, by intro it h; cases h⟩, by simp [Sorted, sampleTab, ltValNat], rfl⟩
example : width_safe 255 254 (by omega) (by omega) = width_safe 255 254 (by omega) (by omega) := rfl
example : Gen.htIndexType 254 = 0 ∧ Gen.htIndexType 255 = 1 ∧ Gen.htIndexType 65534 = 1 ∧ Gen.htIndexType 65535 = 2 := by decide

/- a forward traversal of [1,2,3] during which 2 is removed while in view, 4 is appended and 1 is removed:
   visits 1, 2, 3, 4 and ends; the hypotheses of both theorems hold -/
def sampleRun : List (Ev Nat Nat) := [.adv, .remove 2, .put 4 40, .adv, .remove 1, .adv, .adv]
example : visited (TSt.start [(1, 10), (2, 20), (3, 30)] false) sampleRun = [1, 2, 3, 4] := by decide
example : (runFinal (TSt.start [(1, 10), (2, 20), (3, 30)] false) sampleRun).shown = none := by decide
example : NoReinsert ([] : List Nat) sampleRun := by simp [NoReinsert, sampleRun]
/- backwards, with the removal of the entry in view and of a pending one -/
example : visited (TSt.start [(1, 10), (2, 20), (3, 30)] true) [.remove 3, .adv, .remove 1, .adv] = [3, 2] := by decide

end Muscle.Props.C09
