import MuscleModel.Containers.ProofsStr

/-!
# C17 — String behaves as an ideal byte string across its small-buffer boundary

Property theorems only (lemmas: `Containers/ProofsStr.lean`).  `StrBuf` mirrors the representation of
`muscle::String` (`util/String.{h,cpp}`): storage mode, cached length, buffer bytes, `EnsureBufferSize` /
`GetNextBufferSize`, and every operation that edits the buffer in place, with operands that may be the
String itself (`Arg.self`) or point into its own buffer (`Ptr.own off`).  `StrSpec` is the ideal NUL-free
byte string.  `small` (= `String::GetMaxShortStringLength()`, regenerated into `Muscle.Gen.strSmallLen`)
is a parameter: every theorem holds for every value of it.  The tie to the C++ code is the
correspondence run of engine `str`.

`Inv small b`: `len < cap`, `bytes[len] = 0`, no NUL before `len`, `inl → cap = small+1`,
`¬inl → small+1 < cap`.  `Op.WF s op` (side conditions): character arguments are not NUL, separate String
operands are NUL-free, pointers into the String lie in `[Cstr(), Cstr()+Length()]`, an `operator[]` index is
below `Length()`, lengths fit `uint32`.  `const` methods that edit a copy (`WithInsert`, `WithReplacements`,
`ToLowerCase`, …) are `String(const String &)` followed by one of these operations, and `run_refines`
covers every composition of them.
Not modelled: allocation failure and the `B_RESOURCE_LIMIT` checks for lengths ≥ 2^31 − 2.
-/

namespace Muscle.Props.C17
open Muscle Muscle.Containers Muscle.Containers.StrBuf

/-- A default-constructed String satisfies the invariant and is empty. -/
theorem init_inv (small : Nat) : Inv small (empty small) ∧ abs (empty small) = [] :=
  empty_inv small

/-- The invariant is preserved by every in-place operation (24 operations: clear, flush, shrink, prealloc,
    truncate ×2, SetCstr, SetFromString, += ×3, insert ×2, -= ×3, Replace ×2, Reverse, the three case
    conversions, `operator[]` store, Unflatten; all operands incl. aliases). -/
theorem buf_inv_preserved (small : Nat) (b : Buf) (h : Inv small b) (op : Op) (hw : op.WF (abs b)) :
    Inv small (step small b op).1 :=
  (step_ok h op hw).1

/-- Refinement: an in-place operation on the representation yields the value and the return value that
    the same operation yields on the ideal byte string — whatever the storage mode is before or after,
    and with alias operands read from the live buffer exactly where the C++ code reads them. -/
theorem buf_refines (small : Nat) (b : Buf) (h : Inv small b) (op : Op) (hw : op.WF (abs b)) :
    abs (step small b op).1 = (specStep (abs b) op).1 ∧ (step small b op).2 = (specStep (abs b) op).2 :=
  (step_ok h op hw).2

/-- Refinement for every operation sequence: all intermediate values and return values agree with the
    ideal byte string, and the invariant holds at the end. -/
theorem run_refines (small : Nat) (b : Buf) (h : Inv small b) (ops : List Op) (hw : RunWF (abs b) ops) :
    Inv small (run small b ops).1 ∧ abs (run small b ops).1 = (specRun (abs b) ops).1 ∧
    (run small b ops).2 = (specRun (abs b) ops).2 :=
  run_ok ops h hw

/-- The result of an operation does not depend on whether the contents live in the small buffer or on
    the heap, nor on the capacity or on the bytes beyond the terminator. -/
theorem mode_irrelevant (small : Nat) (b1 b2 : Buf) (h1 : Inv small b1) (h2 : Inv small b2) (he : abs b1 = abs b2)
    (op : Op) (hw : op.WF (abs b1)) :
    abs (step small b1 op).1 = abs (step small b2 op).1 ∧ (step small b1 op).2 = (step small b2 op).2 := by
  have r1 := (step_ok h1 op hw).2
  have r2 := (step_ok h2 op (he ▸ hw)).2
  rw [r1.1, r1.2, r2.1, r2.2, he]
  exact ⟨rfl, rfl⟩

/-- …and the same for every operation sequence: the whole observable trace is independent of the mode. -/
theorem mode_irrelevant_run (small : Nat) (b1 b2 : Buf) (h1 : Inv small b1) (h2 : Inv small b2) (he : abs b1 = abs b2)
    (ops : List Op) (hw : RunWF (abs b1) ops) :
    (run small b1 ops).2 = (run small b2 ops).2 ∧ abs (run small b1 ops).1 = abs (run small b2 ops).1 := by
  have r1 := run_ok ops h1 hw
  have r2 := run_ok ops h2 (he ▸ hw)
  rw [r1.2.1, r1.2.2, r2.2.1, r2.2.2, he]
  exact ⟨rfl, rfl⟩

/-- An operation whose arguments alias the String (the String itself, or a pointer into its buffer) gives
    the same result as with a separate copy of what the argument denotes. -/
theorem alias_eq_copy (small : Nat) (b : Buf) (h : Inv small b) (op : Op) (hw : op.WF (abs b)) :
    abs (step small b op).1 = abs (step small b (op.dealias (abs b))).1 ∧
    (step small b op).2 = (step small b (op.dealias (abs b))).2 := by
  have r1 := (step_ok h op hw).2
  have r2 := (step_ok h (op.dealias (abs b)) (wf_dealias _ h.nf op hw)).2
  rw [r1.1, r1.2, r2.1, r2.2, specStep_dealias _ h.nf]
  exact ⟨rfl, rfl⟩

/-- The replacement scan of the ideal string (`replAux`, one byte at a time) computes exactly what the loop of
    `String::Replace(const String &, const String &, …)` computes with `strstr`: find the next hit from the
    read position, keep the gap, emit `withMe`, continue behind the hit, at most `mx` times.  (The read/write
    pointer arithmetic over the buffer itself is not modelled: `StrBuf.replaceStr` stores this result.) -/
theorem replace_scan_is_strstr_loop (rm wm q : Bytes) (hrm : rm ≠ []) (mx F F' : Nat) (h1 : q.length ≤ F)
    (h2 : q.length ≤ F') (h3 : 1 ≤ F') :
    StrSpec.replAux rm wm F q mx = StrSpec.scanStrstr rm wm F' q mx :=
  replAux_eq_scanStrstr rm wm hrm F q mx F' h1 h2 h3

/-- The storage mode is selected by the capacity (part of the invariant). -/
theorem mode_by_capacity (small : Nat) (b : Buf) (h : Inv small b) : b.inl = true ↔ b.cap = small + 1 := by
  constructor
  · exact h.modeInl
  · intro hc
    cases hi : b.inl
    · have := h.modeHeap hi; omega
    · rfl

/-- `GetNextBufferSize` never returns less than was asked for (so the terminator always has room). -/
theorem growth_sufficient (small req : Nat) : req ≤ nextBufferSize small req :=
  le_nextBufferSize small req

/-- A String serialises to its bytes plus one NUL; `FlattenedSize() = Length()+1`. -/
theorem flatten_eq (s : Bytes) : StrSpec.flatten s = s ++ [0] ∧ (StrSpec.flatten s).length = s.length + 1 := by
  simp [StrSpec.flatten]

/-- Parsing the serialised bytes (followed by anything) gives back the String and leaves the rest. -/
theorem flatten_unflatten (s r : Bytes) (hs : StrSpec.nulFree s) :
    StrSpec.unflatten (StrSpec.flatten s ++ r) = some (s, r) := by
  have : StrSpec.flatten s ++ r = s ++ 0 :: r := by simp [StrSpec.flatten]
  rw [this]
  simp only [StrSpec.unflatten, readCString_flat s r hs]

/-- The reader underneath does reject unterminated input: `ReadCString` returns NULL (and flags the
    unflattener) when the view holds no NUL. -/
theorem readCString_rejects (v : Bytes) (h : ∀ x ∈ v, x ≠ 0) : StrSpec.readCString v = none :=
  readCString_none v h

/-- Unterminated input is rejected: a view without a NUL byte — in particular the empty view — makes
    `String::Unflatten` fail (through `UnflattenFromBytes`, `ReadFlat`, `ReadFlatWithLengthPrefix` and the
    Message parser alike, which all return its status). -/
theorem unflatten_rejects (v : Bytes) (h : ∀ x ∈ v, x ≠ 0) : StrSpec.unflatten v = none := by
  simp only [StrSpec.unflatten, readCString_none v h]

/-! ## Non-vacuity

A 3-byte String in inline mode and the same value in heap mode (after `Prealloc(40)`) both satisfy the
invariant; a self-append and an insertion of a pointer into the String's own buffer satisfy the side
conditions, cross the small-buffer boundary and compute; a NUL-free byte string exists for the flatten
theorems and an unterminated input for the rejection clause. -/

def abc : Bytes := [97, 98, 99]
def bInline : Buf := ofBytes 15 abc
def bHeap : Buf := prealloc 15 bInline 40

example : bInline.inl = true ∧ bHeap.inl = false ∧ abs bInline = abs bHeap := by decide

example : Inv 15 bInline ∧ Inv 15 bHeap := by
  have h0 : Inv 15 bInline := (setFrom_ok (init_inv 15).1 (.ext abc) (by decide) 0 StrSpec.noLimit).1
  exact ⟨h0, (ensure_retain h0 41).1⟩

example : Op.WF (abs bInline) (.appendStr .self) ∧ Op.WF (abs bInline) (.insertChars 1 (.own 2) 5) ∧
    Op.WF (abs bInline) (.replaceStr .self (.ext [120]) 1 0) := by decide

/-- three self-appends cross the boundary: 3 → 6 → 12 → 24 bytes, inline → heap -/
example : (run 15 bInline [.appendStr .self, .appendStr .self, .appendStr .self]).1.inl = false ∧
    (abs (run 15 bInline [.appendStr .self, .appendStr .self, .appendStr .self]).1).length = 24 := by decide

example : abs (step 15 bInline (.insertChars 1 (.own 2) 5)).1 = [97, 99, 98, 99] := by decide

example : Op.WF (abs bInline) (.setChar 2 120) ∧ abs (step 15 bHeap (.setChar 2 120)).1 = [97, 98, 120] ∧
    (step 15 bInline (.unflatten [104, 105, 0, 9])).2 = 0 ∧ (step 15 bInline (.unflatten [104, 105])).2 = -1 := by decide

example : StrSpec.scanStrstr [97, 98] [120] 9 [97, 98, 99, 97, 98] 5 = ([120, 99, 120], 2) := by decide

example : StrSpec.nulFree abc := by decide
example : StrSpec.unflatten (StrSpec.flatten abc ++ [7, 0]) = some (abc, [7, 0]) := by decide
example : StrSpec.unflatten abc = none ∧ StrSpec.unflatten [] = none := by decide

end Muscle.Props.C17
