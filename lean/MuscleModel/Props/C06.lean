import MuscleModel.Props.C04
import MuscleModel.Reflector.FrameProofs7

/-!
# C06 — A session can alter only its own subtree

Property theorems only (lemmas: `Reflector/FrameProofs.lean` … `FrameProofs7.lean`).

Model: `Reflector/Server.lean`, `Reflector/Handlers.lean`, `Engines/Srv.lean` (`Cmd`, `runCmd`), tied to the real
`ReflectServer` by the `srv` correspondence harness.  A session `s` owns the subtree below
`sessNames s = [s.host, sidName s.sid]`.

* `strip sid n` (FrameProofs.lean) = name, payload, index, counter of node `n`, the NAMES of its children in order,
  and its subscriber table without `sid`'s own entry.
* `SessKept sid t t'` (FrameProofs4.lean) = `t'` has the id, host and slot of `t`, and when `t.sid ≠ sid` also the same
  `subs`, `params`, `reflectSelf`, `maxItems`, `subsEnabled`, `indexingPresent`, `route`, `hasRouteKeys`
  (only `nextData`, `nextIdx`, `inbox` may differ: that is how `t` is notified).
* `runHistory sv sid cmds` = the commands one after the other, each followed by `pushAll` (the engine's `step`, BATCH).

The frame theorems (`frame_*`, `own_root_kept*`, `foreign_marks_kept`, `victim_untouched`) hold for EVERY server state
(no reachability or well-formedness hypothesis was needed: not even uniqueness of session ids or of child names); the only
hypothesis is that `sid` names a session (`sv.sess? sid = some s`), which fixes the subtree the statement talks about.
The departure theorems that say a node is GONE need unique child names below the root and the host node (`HostWF`):
the model keeps children in a list and `removeKid` removes the first child of that name.
-/

set_option linter.unusedSimpArgs false
set_option linter.unusedVariables false

namespace Muscle.Props.C06
open Muscle Muscle.Reflector Muscle.Eng.SrvEngine

/-- **Frame, tree part.**  No command of session `sid` changes, creates, removes or reorders a node outside
    `sid`'s own subtree; the only thing it may change there is `sid`'s own subscription mark. -/
theorem frame_tree (sv : Server) (sid : Nat) (s : Sess) (hs : sv.sess? sid = some s) (c : Cmd)
    (names : List Bytes) (hn : ¬ sessNames s <+: names) :
    (getNode (runCmd sv sid c) names).map (strip sid) = (getNode sv names).map (strip sid) :=
  (runCmd_own sv sid s hs c).1 names hn

/-- In particular every node in ANOTHER session's subtree (`sessNames t ≠ sessNames s`) is untouched. -/
theorem frame_tree_foreign (sv : Server) (sid : Nat) (s : Sess) (hs : sv.sess? sid = some s) (c : Cmd)
    (t : Sess) (ht : sessNames t ≠ sessNames s) (names : List Bytes) (hn : sessNames t <+: names) :
    (getNode (runCmd sv sid c) names).map (strip sid) = (getNode sv names).map (strip sid) :=
  frame_tree sv sid s hs c names (not_prefix_of_other (p := sessNames s) (q := sessNames t) rfl ht hn)

/-- Outside `sid`'s subtree no node appears or disappears, and the reference count of every OTHER
    session `o` on every such node is unchanged (`marks_only_own`). -/
theorem foreign_marks_kept (sv : Server) (sid : Nat) (s : Sess) (hs : sv.sess? sid = some s) (c : Cmd)
    (names : List Bytes) (hn : ¬ sessNames s <+: names) (o : Nat) (ho : o ≠ sid) :
    (getNode (runCmd sv sid c) names).map (fun n => subCount n.subs o) = (getNode sv names).map (fun n => subCount n.subs o) := by
  have h := frame_tree sv sid s hs c names hn
  cases h1 : getNode (runCmd sv sid c) names <;> cases h2 : getNode sv names <;> rw [h1, h2] at h <;>
    simp only [Option.map_some, Option.map_none, Option.some.injEq, reduceCtorEq] at h ⊢
  exact subCount_of_strip ho h

/-- **Frame, session part.**  The session table keeps its length and order (nobody is kicked or added); every session
    keeps id, host and slot; every OTHER session keeps its subscriptions and all parameters.
    No hypothesis at all (if `sid` names no session the command does nothing). -/
theorem frame_sessions (sv : Server) (sid : Nat) (c : Cmd) :
    (runCmd sv sid c).sessions.length = sv.sessions.length ∧
    ∀ (i : Nat) (t : Sess), sv.sessions[i]? = some t →
      ∃ t', (runCmd sv sid c).sessions[i]? = some t' ∧ SessKept sid t t' :=
  sessions_kept_of_view (runCmd_sessions sv sid c)

/-- The same through the lookup the handlers use: session `tid` is still found, unchanged. -/
theorem frame_sessions_lookup (sv : Server) (sid : Nat) (c : Cmd) (tid : Nat) (t : Sess) (ht : sv.sess? tid = some t) :
    ∃ t', (runCmd sv sid c).sess? tid = some t' ∧ SessKept sid t t' :=
  sess?_of_view (runCmd_sessions sv sid c) tid ht

/-- The host node and the session node themselves survive every command (REMOVEDATA never removes them:
    every path a session traversal records lies strictly below the session node). -/
theorem own_root_kept (sv : Server) (sid : Nat) (s : Sess) (hs : sv.sess? sid = some s) (c : Cmd) :
    ((getNode sv [s.host]).isSome → (getNode (runCmd sv sid c) [s.host]).isSome) ∧
    ((getNode sv (sessNames s)).isSome → (getNode (runCmd sv sid c) (sessNames s)).isSome) := by
  have hh := frame_tree sv sid s hs c [s.host] (not_two_prefix_one _ _ _)
  constructor
  · intro h
    cases h2 : getNode sv [s.host] with
    | none => rw [h2] at h; simp at h
    | some p =>
      rw [h2] at hh
      cases h1 : getNode (runCmd sv sid c) [s.host] with
      | none => rw [h1] at hh; simp at hh
      | some p' => rfl
  · intro h
    simp only [sessNames, getNode_two] at h ⊢
    cases h2 : getNode sv [s.host] with
    | none => rw [h2] at h; simp at h
    | some p =>
      rw [h2] at hh h
      cases h1 : getNode (runCmd sv sid c) [s.host] with
      | none => rw [h1] at hh; simp at hh
      | some p' =>
        rw [h1] at hh
        simp only [Option.map_some, Option.some.injEq] at hh
        have hk : p'.kids.map Node.name = p.kids.map Node.name := congrArg Stripped.kidNames hh
        simp only [Option.bind_some] at h ⊢
        rw [findKid_isSome_iff] at h ⊢
        rw [hk]; exact h

/-- **Frame over histories.**  After any sequence of commands of session `sid` (each followed by the push of the
    pending update Messages) every node outside `sid`'s subtree still looks the same through `strip sid`, the session
    table has the same length and order, and every other session has the same subscriptions and parameters. -/
theorem frame_history (sv : Server) (sid : Nat) (s : Sess) (hs : sv.sess? sid = some s) (cmds : List Cmd) :
    (∀ names, ¬ sessNames s <+: names →
      (getNode (runHistory sv sid cmds) names).map (strip sid) = (getNode sv names).map (strip sid)) ∧
    (runHistory sv sid cmds).sessions.length = sv.sessions.length ∧
    (∀ (i : Nat) (t : Sess), sv.sessions[i]? = some t →
      ∃ t', (runHistory sv sid cmds).sessions[i]? = some t' ∧ SessKept sid t t') := by
  have h := runHistory_own sid cmds sv s hs
  exact ⟨h.1, sessions_kept_of_view h.2⟩

/-- …and the session and host nodes are still there after the whole history. -/
theorem own_root_kept_history (sv : Server) (sid : Nat) (s : Sess) (hs : sv.sess? sid = some s) (cmds : List Cmd) :
    (getNode sv (sessNames s)).isSome → (getNode (runHistory sv sid cmds) (sessNames s)).isSome := by
  intro h
  have hh := (frame_history sv sid s hs cmds).1 [s.host] (not_two_prefix_one _ _ _)
  simp only [sessNames, getNode_two] at h ⊢
  cases h2 : getNode sv [s.host] with
  | none => rw [h2] at h; simp at h
  | some p =>
    rw [h2] at hh h
    cases h1 : getNode (runHistory sv sid cmds) [s.host] with
    | none => rw [h1] at hh; simp at hh
    | some p' =>
      rw [h1] at hh
      simp only [Option.map_some, Option.some.injEq] at hh
      have hk : p'.kids.map Node.name = p.kids.map Node.name := congrArg Stripped.kidNames hh
      simp only [Option.bind_some] at h ⊢
      rw [findKid_isSome_iff] at h ⊢
      rw [hk]; exact h

/-! Non-vacuity: in the concrete state `demoSv` (two sessions on two hosts, session 1 owns `/i/1/x` = 7 carrying a
    mark of session 0) the hypotheses of the theorems hold for session 0 and the foreign node `/i/1/x`, which exists. -/
example : demoSv.sess? 0 = some demoS0 := rfl
example : demoSv.sess? 1 = some demoS1 := rfl
example : ¬ sessNames demoS0 <+: [[105], sidName 1, [120]] := by decide
example : ¬ sessNames demoS0 <+: [[104]] := by decide
example : sessNames demoS1 ≠ sessNames demoS0 := by decide
example : sessNames demoS1 <+: [[105], sidName 1, [120]] := by simp [sessNames, demoS1]
example : (getNode demoSv [[105], sidName 1, [120]]).map (strip 0) =
    some { name := [120], data := some 7, index := [], ctr := 0, kidNames := [], subs := [] } := by
  simp [getNode, fuelDepth, nodeAt, demoSv, findKid, Node.name, Node.kids, strip, Node.data, Node.index, Node.ctr, Node.subs]
example : (getNode demoSv (sessNames demoS0)).isSome := by
  simp [getNode, fuelDepth, nodeAt, demoSv, findKid, Node.name, Node.kids, sessNames, demoS0]
example : (getNode demoSv [demoS0.host]).isSome := by
  simp [getNode, fuelDepth, nodeAt, demoSv, findKid, Node.name, Node.kids, demoS0]

/-! ## the victim's view: histories of commands of ANY other sessions (DESIGN.md `frame`)

* `runAll sv hist`: the commands `(sender id, command)` one after the other, each followed by `pushAll`.
* `stripV o n` (FrameProofs6.lean) = name, payload, index, counter, child names in order of `n`, and `o`'s OWN reference
  count on `n` (the marks of the other sessions on `o`'s nodes are theirs to change).
* `VictimKept o t t'` = same id, host, slot, and when `t.sid = o` every field except `nextData/nextIdx/inbox`. -/

/-- **Frame, victim form.**  Let `so` be any session.  After ANY interleaved history of commands sent by sessions
    other than `so` (sender id ≠ `so.sid`, sender's subtree root ≠ `so`'s), every node in `so`'s subtree has the same name,
    payload, index, counter, children names/order and the same reference count of `so`; no such node appeared or
    disappeared; the session table has the same length and order; `so` has the same subscriptions and parameters. -/
theorem victim_untouched (sv : Server) (so : Sess) (hist : List (Nat × Cmd))
    (hsend : ∀ p ∈ hist, p.1 ≠ so.sid ∧ ∀ t, sv.sess? p.1 = some t → sessNames t ≠ sessNames so) :
    (∀ names, sessNames so <+: names →
      (getNode (runAll sv hist) names).map (stripV so.sid) = (getNode sv names).map (stripV so.sid)) ∧
    (runAll sv hist).sessions.length = sv.sessions.length ∧
    (∀ (i : Nat) (t : Sess), sv.sessions[i]? = some t →
      ∃ t', (runAll sv hist).sessions[i]? = some t' ∧ VictimKept so.sid t t') := by
  have h := runAll_untouched so.sid (sessNames so) rfl hist sv sv (fun _ => rfl) hsend
  exact ⟨h.1, sessions_kept_of_viewV h.2⟩

/-! Non-vacuity: in `demoSv` session 0 sends two commands; the victim is session 1 (host `i`), whose node `/i/1/x` exists. -/
example : ∀ p ∈ [((0 : Nat), Cmd.set [120] 5 false), (0, Cmd.rm [[42]])],
    p.1 ≠ demoS1.sid ∧ ∀ t, demoSv.sess? p.1 = some t → sessNames t ≠ sessNames demoS1 := by
  intro p hp
  have h0 : p.1 = 0 := by
    simp only [List.mem_cons, List.not_mem_nil, or_false] at hp
    rcases hp with rfl | rfl <;> rfl
  rw [h0]
  refine ⟨by decide, fun t ht => ?_⟩
  have : demoSv.sess? 0 = some demoS0 := rfl
  rw [this] at ht
  cases ht
  decide

/-! ## departure (`detach` = `Cleanup` + removal from the session table)

* `HostWF sv s` (FrameProofs5.lean): child names are unique below the root and below the host node of `s` (the children
  of a `DataNode` are a `Hashtable`, so this always holds in the real server; the model's child LIST needs it said).
* `detachPre sv sid s`: the state inside `detach` just before the un-mark pass (own subtree and an emptied host node
  removed, pending update Messages pushed).
* `markAt sv sid names`: the reference count of `sid` on the node at `names` (`none` if there is no such node). -/

/-- After `detach` the departed id is in the session table no more. -/
theorem departure_session_gone (sv : Server) (sid : Nat) (s : Sess) (hs : sv.sess? sid = some s) :
    ∀ t ∈ (detach sv sid).sessions, t.sid ≠ sid := by
  intro t ht
  rcases detach_sessions sv sid t ht with h | h
  · exact h
  · rw [hs] at h; cases h

/-- After `detach` nothing is left at or below the session node. -/
theorem departure_subtree_gone (sv : Server) (sid : Nat) (s : Sess) (hs : sv.sess? sid = some s) (hwf : HostWF sv s)
    (w : List Bytes) : getNode (detach sv sid) (sessNames s ++ w) = none :=
  detach_own_gone sv sid s hs hwf w

/-- What the un-mark pass does to the marks of `sid`, exactly: cleared on every node the traversal of `s.subs`
    visits (when the tree is not empty), unchanged on every other node. -/
theorem departure_marks (sv : Server) (sid : Nat) (s : Sess) (hs : sv.sess? sid = some s) (names : List Bytes) :
    markAt (detach sv sid) sid names =
      if ¬ (detachPre sv sid s).root.kids.isEmpty ∧ names ∈ travGlobal (detachPre sv sid s) s.subs false cbContinue
      then (markAt (detachPre sv sid s) sid names).map (fun _ => 0)
      else markAt (detachPre sv sid s) sid names :=
  markAt_detach sv sid s hs names

/-- Departure changes nothing else in the tree: apart from the root and the host node (which may lose a child) and the
    departed subtree, every node looks the same through `strip sid` (only `sid`'s own marks go) — in particular the
    subtrees of the other sessions on the same host. -/
theorem departure_frame_tree (sv : Server) (sid : Nat) (s : Sess) (hs : sv.sess? sid = some s) (hwf : HostWF sv s)
    (names : List Bytes) (h0 : names ≠ []) (h1 : names ≠ [s.host]) (h2 : ¬ sessNames s <+: names) :
    (getNode (detach sv sid) names).map (strip sid) = (getNode sv names).map (strip sid) :=
  detach_frame sv sid s hs hwf names h0 h1 h2

/-- Departure removes exactly the sessions with the departed id from the table; every remaining session keeps its
    place in the order, its identity, subscriptions and parameters. -/
theorem departure_frame_sessions (sv : Server) (sid : Nat) (s : Sess) (hs : sv.sess? sid = some s) :
    (detach sv sid).sessions.length = (sv.sessions.filter (fun t => t.sid ≠ sid)).length ∧
    ∀ (i : Nat) (t : Sess), (sv.sessions.filter (fun t => t.sid ≠ sid))[i]? = some t →
      ∃ t', (detach sv sid).sessions[i]? = some t' ∧ SessKept sid t t' := by
  rcases detach_view sv sid with h | h
  · exact sessions_kept_of_view h
  · rw [hs] at h; cases h

/- Full statement (NOT proved here):
     theorem departure_no_marks (h : MarksOnlyWhereMatching sv sid s) :
       ∀ names n, getNode (detach sv sid) names = some n → subCount n.subs sid = 0
   where `MarksOnlyWhereMatching` = every node carrying a mark of `sid` has a path that some entry of `s.subs` matches.
   Missing: completeness of `doTraversal` (every node whose path an entry matches is visited: the traversal theorem
   of C04, proved elsewhere for `bruteForce`) and preservation of `MarksOnlyWhereMatching` by the removal phase.
   The `_partial` version below takes exactly that coverage as its hypothesis, on the state the traversal runs on. -/

/-- If the un-mark traversal reaches every node that still carries a mark of `sid` (traversal completeness +
    `MarksOnlyWhereMatching`), then after `detach` NO node carries a mark of `sid`. -/
theorem departure_no_marks_partial (sv : Server) (sid : Nat) (s : Sess) (hs : sv.sess? sid = some s)
    (hcover : ∀ names k, markAt (detachPre sv sid s) sid names = some k → k ≠ 0 →
      names ∈ travGlobal (detachPre sv sid s) s.subs false cbContinue)
    (names : List Bytes) (n : Node) (hn : getNode (detach sv sid) names = some n) : subCount n.subs sid = 0 :=
  detach_no_marks sv sid s hs hcover names n hn

/-- **Departure, marks — full statement for reachable states.**  In every state reached from the empty server (attach, detach,
    commands with GoodPath subscriptions, pushes, pumps) the departure of session `sid` leaves NO mark of `sid` on any node:
    the coverage hypothesis of the `_partial` version above is discharged by the subscriber-table invariant of C04
    (`marks_correct`: marks sit exactly where a subscription entry matches, so the un-mark traversal reaches all of them). -/
theorem departure_no_marks {sv : Server} (h : MReach sv) (sid : Nat) {v : List Bytes} {n : Node} (hv : v ≠ [])
    (hn : getNode (detach sv sid) v = some n) : subCount n.subs sid = 0 :=
  Muscle.Props.C04.marks_correct_detached h sid hv hn

/-! Non-vacuity: `HostWF` holds in `demoSv`; the coverage hypothesis holds in `orphanSv`, where the node `/x` does carry
    a mark of the departing session and is visited by the un-mark traversal. -/
example : HostWF demoSv demoS0 := by
  refine ⟨by decide, ?_⟩
  intro p hp
  simp [getNode, fuelDepth, nodeAt, demoSv, findKid, Node.name, Node.kids, demoS0] at hp
  subst hp
  simp [Node.kids, Node.name]
example : ([[105], sidName 1, [120]] : List Bytes) ≠ [] ∧ ([[105], sidName 1, [120]] : List Bytes) ≠ [demoS0.host] ∧
    ¬ sessNames demoS0 <+: [[105], sidName 1, [120]] := by
  refine ⟨by simp, by simp, by decide⟩
example : orphanSv.sess? 0 = some orphanS := rfl
example : markAt (detachPre orphanSv 0 orphanS) 0 [[120]] = some 1 := rfl
example : ∀ names k, markAt (detachPre orphanSv 0 orphanS) 0 names = some k → k ≠ 0 →
    names ∈ travGlobal (detachPre orphanSv 0 orphanS) orphanS.subs false cbContinue := orphan_cover

end Muscle.Props.C06
