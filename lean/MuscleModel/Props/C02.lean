import MuscleModel.Wire.CostProofs3
import MuscleModel.Wire.CostProofs5
import MuscleModel.Wire.CostProofs6
import MuscleModel.Wire.CostProofs7

/-!
# C02 — Parsing untrusted bytes is memory-safe, terminates, and costs O(input)

Property theorems only (lemmas: `Wire/CostProofs1..7.lean`; the instrumented parser: `Wire/DecodeCost.lean`).

What Lean carries here is the LOGIC of the parser on every byte string, accepted or not: the read position never
leaves the buffer and never moves backwards, the recursion is bounded by the input length and by the nesting limit, and
no reservation or copy is made for a count or length the bytes merely DECLARE — every reservation is covered by bytes
actually present.  Memory safety of the compiled code itself is validated by the sanitizer harness, not proved.

Objects.  `decode`/`decMsg`/… (`Wire/Decode.lean`) is the parser model whose status and parsed content the `parse`
engine compares with `Message::Unflatten` on hostile inputs.  `decodeT`/`decMsgT`/… (`Wire/DecodeCost.lean`) is its twin
that also returns a `Tally` (`table`, `reserve`, `copied`, `steps`, `depth`, `window`) on every path, failures included.

The tally's tie to the binary is
(a) the regenerated guards: `Generated/ParseGuards.lean` is re-derived from the source text of `message/Message.cpp` on
    every run (`tools/extract_parse_guards.py`); the twin makes each size check only `if <guard> && …` and otherwise
    charges the declared amount, and every proof below unfolds the constants — delete a guard in the source and
    `guards_present`, `erase_tally`, `cost_linear`, `depth_bounded` stop compiling (mutants/C02/guard-*.diff);
(b) the harness's measured-allocation oracle (bytes requested from the allocator during a parse ≤ 96·N + 256 KiB,
    `harness/parse.cpp`), evaluated on the hostile stream.

The nesting limit `mx` (= `Gen.maxMessageNestingDepth`, regenerated from the source) is a parameter: every theorem
holds for every value of it.  So is the presize cap of the field table (`cap : Option Nat`, `none` = presize for the bare
declared count): everything except the `table` bound holds for every `cap`; the `table` bound is proved for the
regenerated `Gen.entryPresizeCap` (`some 32` since fix fdd2b0b) and, generally, for every `some c` with `c ≤ 36`.
History: before fdd2b0b the table was presized for the declared count at EVERY nesting level (views overlap), so the
reservation was linear in N only with the nesting limit in the constant (`mx/12` slots per byte; 107 KB of input
requested 137 MB).  `uncapped_table_exceeds_view_twelfth` keeps that fact about the uncapped model.
-/

set_option linter.unusedSimpArgs false
set_option linter.unusedVariables false

namespace Muscle.Props.C02
open Muscle Muscle.Wire Muscle.Gen

/-- Fewer than 12 bytes can never parse: the three header words are read before anything else. -/
theorem decode_short_is_error (mx : Nat) (b : Bytes) (h : b.length < 12) : decode mx b = none := by
  unfold decode
  cases hd : decMsg mx (b.length + 2) 1 b with
  | none => rfl
  | some v =>
    obtain ⟨m, r⟩ := v
    have := (c2_posAt mx _).msg _ _ _ _ hd
    omega

/-- Non-vacuity: an 11-byte prefix of a valid header is such a buffer. -/
example : decode 256 [0x30, 0x30, 0x4D, 0x50, 0, 0, 0, 0, 0, 0, 0] = none := decode_short_is_error _ _ (by decide)

/-! ## the guards the cost theorems rest on -/

/-- Every size check the theorems below depend on is present in the source, in front of what it protects
    (the constants are regenerated from `message/Message.cpp` on every run). -/
theorem guards_present :
    entryCountGuard = true ∧ strCountGuard = true ∧ rawLenGuard = true ∧ subMsgLenGuard = true ∧ nestGuard = true ∧
    (∃ c, entryPresizeCap = some c ∧ c ≤ 36) := by
  refine ⟨by decide, by decide, by decide, by decide, by decide, ?_⟩
  have h : (match entryPresizeCap with | some c => decide (c ≤ 36) | none => false) = true := by decide
  cases hc : entryPresizeCap with
  | none => simp only [hc] at h; cases h
  | some c => simp only [hc, decide_eq_true_eq] at h; exact ⟨c, rfl, h⟩

/-- Whatever entry count a header declares, the field table is presized for at most 36 entries (the regenerated cap of
    `_entries.EnsureSize(muscleMin(numEntries, cap), true)`, or the default capacity 7 when that minimum is 0). -/
theorem presize_bounded (n : Nat) : presize entryPresizeCap n ≤ 36 := by
  have h : (match entryPresizeCap with | some c => decide (c ≤ 36) | none => false) = true := by decide
  cases hc : entryPresizeCap with
  | none => simp only [hc] at h; cases h
  | some c =>
    simp only [hc, decide_eq_true_eq] at h
    exact c2_presize_some c h n

/-! ## the instrumented twin IS the parser -/

/-- Erasing the tally of the instrumented `Message::Unflatten` gives the parser model, for every fuel, level and input. -/
theorem erase_tally (cap : Option Nat) (mx fuel lvl : Nat) (b : Bytes) : (decMsgT cap mx fuel lvl b).1 = decMsg mx fuel lvl b :=
  (c2_eraseAt cap mx fuel).msg lvl b

/-- …and so for the other members of the mutual block and for the item readers. -/
theorem erase_tally_block (cap : Option Nat) (mx fuel lvl : Nat) :
    (∀ k b acc c, (decFieldsT cap mx fuel lvl k b acc c).1 = decFields mx fuel lvl k b acc) ∧
    (∀ tc p, (decPayloadT cap mx fuel lvl tc p).1 = decPayload mx fuel lvl tc p) ∧
    (∀ b, (decMsgItemsT cap mx fuel lvl b).1 = decMsgItems mx fuel lvl b) ∧
    (∀ k b, (decStrItemsT k b).1 = decStrItems k b) ∧
    (∀ k b, (decRawItemsT k b).1 = decRawItems k b) ∧
    (∀ tc sz p, (decFixedT tc sz p).1 = decFixed tc sz p) :=
  ⟨(c2_eraseAt cap mx fuel).fields lvl, (c2_eraseAt cap mx fuel).payload lvl, (c2_eraseAt cap mx fuel).items lvl,
   c2_erase_str, c2_erase_raw, c2_erase_fixed⟩

/-- `Message::UnflattenFromBytes`: the instrumented entry point returns exactly what `decode` returns. -/
theorem erase_tally_decode (cap : Option Nat) (mx : Nat) (b : Bytes) : (decodeT cap mx b).1 = decode mx b :=
  c2_erase_decode cap mx b

/-! ## the read position stays inside the buffer and never moves backwards -/

/-- Every reader that succeeds returns an unread rest that is a suffix-sized part of what it was given: at least the
    bytes it must have consumed are gone (4 per word, 4 per string/raw item, 12 per entry, 12 per Message), and never
    more bytes come back than went in.  The last clause is the read-limiter rule of the entry loop: the unread rest of
    a limited view is given back in front of the bytes behind the view, and together they are no more than before. -/
theorem position_monotone (mx fuel lvl : Nat) :
    (∀ b n r, rd32 b = some (n, r) → r.length + 4 = b.length) ∧
    (∀ n b x r, takeN n b = some (x, r) → r.length + n = b.length ∧ x.length = n) ∧
    (∀ k b xs r, decStrItems k b = some (xs, r) → r.length + 4 * k ≤ b.length) ∧
    (∀ k b xs r, decRawItems k b = some (xs, r) → r.length + 4 * k ≤ b.length) ∧
    (∀ tc sz p f r, decFixed tc sz p = some (f, r) → r.length ≤ p.length) ∧
    (∀ tc p f r, decPayload mx fuel lvl tc p = some (f, r) → r.length ≤ p.length) ∧
    (∀ k b acc fs r, decFields mx fuel lvl k b acc = some (fs, r) → r.length + 12 * k ≤ b.length) ∧
    (∀ b m r, decMsg mx fuel lvl b = some (m, r) → r.length + 12 ≤ b.length) ∧
    (∀ tc el (b : Bytes) f rest, decPayload mx fuel lvl tc (b.take el) = some (f, rest) →
        (rest ++ b.drop el).length ≤ b.length) := by
  refine ⟨?_, ?_, ?_, ?_, ?_, ?_, ?_, ?_, ?_⟩
  · intro b n r h; have := rd32_length h; omega
  · intro n b x r h; have := c2_takeN_len h; omega
  · exact c2_decStrItems_pos
  · exact c2_decRawItems_pos
  · exact c2_decFixed_pos
  · exact (c2_posAt mx fuel).payload lvl
  · intro k b acc fs r; exact (c2_posAt mx fuel).fields lvl k b acc fs r
  · exact (c2_posAt mx fuel).msg lvl
  · intro tc el b f rest h
    have := (c2_posAt mx fuel).payload lvl _ _ _ _ h
    simp only [List.length_append, List.length_take, List.length_drop] at this ⊢
    omega

/-- Non-vacuity: a header-only Message followed by one more byte parses and leaves that byte (13 = 1 + 12). -/
example : ∃ m, decMsg 256 2 1 [0x30, 0x30, 0x4D, 0x50, 0, 0, 0, 0, 0, 0, 0, 0, 7] = some (m, [7]) :=
  ⟨.mk 0 [], by
  simp [decodeT, decMsgT, decMsg, decFieldsT, decFields, decPayloadT, rd32, rdN, takeN, leVal, le32, leN, cstr, lookupField, wireItemSize,
    nestGuard, entryCountGuard, oldestProtocolVersion, protocolVersion, Tally.add_def,
    tcMessage, tcBool, tcDouble, tcFloat, tcInt64, tcInt32, tcInt16, tcInt8, tcPoint, tcRect, tcPointer, tcTag]⟩

/-! ## termination: the fuel never decides the outcome -/

/-- Any two fuels above the input length give the same result: the chain of recursive calls is bounded by the number of
    input bytes, so "out of fuel" is never the reason for an error. -/
theorem fuel_irrelevant (mx f1 f2 lvl : Nat) (b : Bytes) (h1 : b.length < f1) (h2 : b.length < f2) :
    decMsg mx f1 lvl b = decMsg mx f2 lvl b :=
  (c2_fuelAt mx f1).msg f2 lvl b h1 h2

/-- …the same for the entry loop, the payload reader and the sub-Message item loop, each with the length of its own
    input as the sufficient bound. -/
theorem fuel_irrelevant_block (mx f1 f2 lvl : Nat) :
    (∀ k b acc, b.length < f1 → b.length < f2 → decFields mx f1 lvl k b acc = decFields mx f2 lvl k b acc) ∧
    (∀ tc p, p.length < f1 → p.length < f2 → decPayload mx f1 lvl tc p = decPayload mx f2 lvl tc p) ∧
    (∀ b, b.length < f1 → b.length < f2 → decMsgItems mx f1 lvl b = decMsgItems mx f2 lvl b) :=
  ⟨fun k b acc => (c2_fuelAt mx f1).fields f2 lvl k b acc, fun tc p => (c2_fuelAt mx f1).payload f2 lvl tc p,
   fun b => (c2_fuelAt mx f1).items f2 lvl b⟩

/-- `decode` supplies `length + 2`; any other fuel above the length yields the same answer. -/
theorem decode_fuel_irrelevant (mx f : Nat) (b : Bytes) (h : b.length < f) :
    decode mx b = (match decMsg mx f 1 b with | some (m, _) => some m | none => none) := by
  unfold decode
  rw [fuel_irrelevant mx (b.length + 2) f 1 b (by omega) h]
  rfl

/-- Non-vacuity: the hypotheses are satisfiable for every input (`f1 = length + 1`, `f2 = length + 2`). -/
example (b : Bytes) : b.length < b.length + 1 ∧ b.length < b.length + 2 := by omega

/-! ## nesting -/

/-- `Message::Unflatten` entered with nest count `lvl` never reaches a nest count above `max lvl (mx + 1)`, whatever the
    bytes say: with `lvl = 1`, at most `mx + 1` nested frames (the last of which only fails). -/
theorem depth_bounded (cap : Option Nat) (mx fuel lvl : Nat) (b : Bytes) : (decMsgT cap mx fuel lvl b).2.depth ≤ max lvl (mx + 1) := by
  have h := (c2_linAt cap mx (max lvl (mx + 1)) (by omega) fuel).msg lvl b (by omega)
  generalize decMsgT cap mx fuel lvl b = r at h ⊢
  obtain ⟨r1, r2⟩ := r
  cases r1 with
  | none => simp only [LinR, LinF] at h ⊢; omega
  | some x => simp only [LinR, LinS] at h ⊢; omega

theorem depth_bounded_decode (cap : Option Nat) (mx : Nat) (b : Bytes) : (decodeT cap mx b).2.depth ≤ mx + 1 := by
  have := depth_bounded cap mx (b.length + 2) 1 b
  simp only [decodeT]; omega

/-- A parse that entered nesting level `mx + 1` has failed: an accepted Message never made the parser go deeper than
    the limit.  (For every byte string — in particular for the encoding of any Message nested deeper than `mx`.) -/
theorem too_deep_is_error (cap : Option Nat) (mx : Nat) (b : Bytes) (h : mx < (decodeT cap mx b).2.depth) : decode mx b = none := by
  rw [← erase_tally_decode cap]
  have hl := (c2_linAt cap mx (mx + 1) (by omega) (b.length + 2)).msg 1 b (by omega)
  simp only [decodeT] at h ⊢
  generalize decMsgT cap mx (b.length + 2) 1 b = r at hl h ⊢
  obtain ⟨r1, r2⟩ := r
  cases r1 with
  | none => rfl
  | some x => simp only [LinR, LinS] at hl h; omega

/-- Non-vacuity: with the limit at 1, a Message holding one sub-Message makes the parser enter level 2 — and fail. -/
example : 1 < (decodeT none 1 ([0x30, 0x30, 0x4D, 0x50, 0, 0, 0, 0, 1, 0, 0, 0] ++ le32 2 ++ [0x61, 0] ++ le32 tcMessage ++
    le32 16 ++ le32 12 ++ [0x30, 0x30, 0x4D, 0x50, 0, 0, 0, 0, 0, 0, 0, 0])).2.depth := by
  simp [decodeT, decMsgT, decMsg, decFieldsT, decFields, decPayloadT, rd32, rdN, takeN, leVal, le32, leN, cstr, lookupField, wireItemSize,
    nestGuard, entryCountGuard, oldestProtocolVersion, protocolVersion, Tally.add_def,
    tcMessage, tcBool, tcDouble, tcFloat, tcInt64, tcInt32, tcInt16, tcInt8, tcPoint, tcRect, tcPointer, tcTag]

/-- The encoder side of the same fact: ANY Message `m` wrapped in `k` Messages (`nestMsg k m`: each wrapper holds the
    next as the single item of its Message field "a") is refused as soon as `k` reaches the nesting limit — its innermost
    frame would be entered with nest count `k + 1 > mx` — whatever follows the encoding.  (Sizes below 2^32, as for every
    flattenable Message; for `k < mx` and a well-formed `m` nested no deeper than `mx − k`, C01's `decode_encode` accepts it.) -/
theorem too_deep_is_error_nest (mx k : Nat) (m : Msg) (rest : Bytes) (hk : mx ≤ k)
    (hsize : (encode (nestMsg k m)).length < 4294967296) :
    decode mx (encode (nestMsg k m) ++ rest) = none := by
  unfold decode
  rw [show encode (nestMsg k m) = encMsg (nestMsg k m) from rfl,
    c2_nest_refused mx m k _ 1 rest (by omega) hsize]

/-- Non-vacuity: with the limit at 256, the empty Message wrapped 256 times is such an input (12 + 256·30 bytes). -/
example : (256 : Nat) ≤ 256 ∧ ∀ k, (encode (nestMsg k (.mk 0 []))).length = 12 + 30 * k := by
  refine ⟨Nat.le_refl _, ?_⟩
  intro k
  induction k with
  | zero => simp [nestMsg, encode, encMsg, encFields, countFlat]
  | succ k ih =>
    simp only [encode] at ih ⊢
    rw [c2_encMsg_nest_succ]
    simp [ih]; omega

/-! ## cost -/

/-- What one call of `Message::Unflatten` (entered with nest count `lvl`, on a view of `b.length` bytes) reserves,
    copies and iterates — on successful AND failed parses, for every nesting limit, fuel, level and byte string, with
    numeral constants that do not depend on the nesting limit:

    * field-table slots requested (first allocation of each frame's table + every doubling): `table ≤ 3 · length`;
    * every other reservation (array slots, pooled objects, buffer bytes): `reserve ≤ 2 · length`;
    * bytes copied out of the input: `copied ≤ length`;
    * loop iterations and recursive calls: `steps ≤ length + 1`;
    * no nested reader is ever given a budget beyond the bytes present: `window ≤ length`.

    Constants: A = 3 (table) + 2 (reserve) = 5, A0 = 0, B = 1, C = 1, C0 = 1. -/
theorem cost_linear (mx fuel lvl : Nat) (b : Bytes) :
    (decMsgT entryPresizeCap mx fuel lvl b).2.table ≤ 3 * b.length ∧
    (decMsgT entryPresizeCap mx fuel lvl b).2.reserve ≤ 2 * b.length ∧
    (decMsgT entryPresizeCap mx fuel lvl b).2.copied ≤ b.length ∧
    (decMsgT entryPresizeCap mx fuel lvl b).2.steps ≤ b.length + 1 ∧
    (decMsgT entryPresizeCap mx fuel lvl b).2.window ≤ b.length := by
  have ht := (c2_tabAt entryPresizeCap presize_bounded mx fuel).msg lvl b
  have hl := (c2_linAt entryPresizeCap mx (max lvl (mx + 1)) (by omega) fuel).msg lvl b (by omega)
  have hp := (c2_posAt mx fuel).msg lvl b
  rw [← erase_tally entryPresizeCap] at hp
  generalize decMsgT entryPresizeCap mx fuel lvl b = r at ht hl hp ⊢
  obtain ⟨r1, r2⟩ := r
  cases r1 with
  | none => simp only [TabR, LinR, LinF] at ht hl ⊢; omega
  | some x =>
    have := hp x.1 x.2 rfl
    simp only [TabR, LinR, LinS] at ht hl ⊢; omega

/-- The same for the entry point `Message::UnflattenFromBytes`: all storage units reserved together are at most 5 per
    input byte, whatever the nesting limit. -/
theorem cost_linear_decode (mx : Nat) (b : Bytes) :
    (decodeT entryPresizeCap mx b).2.table ≤ 3 * b.length ∧
    (decodeT entryPresizeCap mx b).2.reserve ≤ 2 * b.length ∧
    (decodeT entryPresizeCap mx b).2.copied ≤ b.length ∧
    (decodeT entryPresizeCap mx b).2.steps ≤ b.length + 1 ∧
    (decodeT entryPresizeCap mx b).2.window ≤ b.length ∧
    (decodeT entryPresizeCap mx b).2.table + (decodeT entryPresizeCap mx b).2.reserve ≤ 5 * b.length := by
  have h := cost_linear mx (b.length + 2) 1 b
  simp only [decodeT]
  omega

/-- The table bound for ANY cap up to 36 (the model function with the cap as an explicit parameter): what the proof
    needs from the source is only that the presize is bounded, not the particular number. -/
theorem table_linear_of_cap (c : Nat) (hc : c ≤ 36) (mx fuel lvl : Nat) (b : Bytes) :
    (decMsgT (some c) mx fuel lvl b).2.table ≤ 3 * b.length := by
  have ht := (c2_tabAt (some c) (c2_presize_some c hc) mx fuel).msg lvl b
  have hp := (c2_posAt mx fuel).msg lvl b
  rw [← erase_tally (some c)] at hp
  generalize decMsgT (some c) mx fuel lvl b = r at ht hp ⊢
  obtain ⟨r1, r2⟩ := r
  cases r1 with
  | none => simp only [TabR] at ht ⊢; omega
  | some x => simp only [TabR] at ht ⊢; omega

/-- Non-vacuity: the cap in the source is such a number. -/
example : ∃ c, entryPresizeCap = some c ∧ c ≤ 36 := by unfold entryPresizeCap; exact ⟨_, rfl, by decide⟩

/-- The linear components hold for every presize cap, `none` included (they do not involve the field table). -/
theorem cost_linear_any_cap (cap : Option Nat) (mx fuel lvl : Nat) (b : Bytes) :
    (decMsgT cap mx fuel lvl b).2.reserve ≤ 2 * b.length ∧
    (decMsgT cap mx fuel lvl b).2.copied ≤ b.length ∧
    (decMsgT cap mx fuel lvl b).2.steps ≤ b.length + 1 ∧
    (decMsgT cap mx fuel lvl b).2.window ≤ b.length := by
  have hl := (c2_linAt cap mx (max lvl (mx + 1)) (by omega) fuel).msg lvl b (by omega)
  have hp := (c2_posAt mx fuel).msg lvl b
  rw [← erase_tally cap] at hp
  generalize decMsgT cap mx fuel lvl b = r at hl hp ⊢
  obtain ⟨r1, r2⟩ := r
  cases r1 with
  | none => simp only [LinR, LinF] at hl ⊢; omega
  | some x =>
    have := hp x.1 x.2 rfl
    simp only [LinR, LinS] at hl ⊢; omega

/-- On an ACCEPTED input the non-table reservations are even covered one-for-one by consumed bytes. -/
theorem cost_accepted (cap : Option Nat) (mx fuel lvl : Nat) (b : Bytes) (m : Msg) (rest : Bytes)
    (h : (decMsgT cap mx fuel lvl b).1 = some (m, rest)) :
    (decMsgT cap mx fuel lvl b).2.reserve + rest.length ≤ b.length ∧
    (decMsgT cap mx fuel lvl b).2.copied + rest.length ≤ b.length ∧
    (decMsgT cap mx fuel lvl b).2.steps + rest.length ≤ b.length ∧
    (decMsgT cap mx fuel lvl b).2.depth ≤ mx := by
  by_cases hlvl : lvl ≤ mx + 1
  · have hl := (c2_linAt cap mx (mx + 1) (by omega) fuel).msg lvl b hlvl
    rw [h] at hl
    simp only [LinR, LinS] at hl; omega
  · -- entered above the limit: the call fails at once
    exfalso
    cases fuel with
    | zero => simp [decMsgT] at h
    | succ fuel =>
      rw [decMsgT] at h
      simp only [nestGuard, Bool.true_and, decide_eq_true_eq] at h
      rw [if_pos (by omega)] at h
      cases h

/-- Non-vacuity of `cost_accepted`: a header-only Message is accepted. -/
example : ∃ m rest, (decMsgT none 256 2 1 [0x30, 0x30, 0x4D, 0x50, 0, 0, 0, 0, 0, 0, 0, 0, 7]).1 = some (m, rest) :=
  ⟨.mk 0 [], [7], by
  simp [decodeT, decMsgT, decMsg, decFieldsT, decFields, decPayloadT, rd32, rdN, takeN, leVal, le32, leN, cstr, lookupField, wireItemSize,
    nestGuard, entryCountGuard, oldestProtocolVersion, protocolVersion, Tally.add_def,
    tcMessage, tcBool, tcDouble, tcFloat, tcInt64, tcInt32, tcInt16, tcInt8, tcPoint, tcRect, tcPointer, tcTag]⟩

/-- Why the cap matters — the UNCAPPED model (`cap = none`: the table presized for the bare declared count, the code
    before fix fdd2b0b): every nesting level may claim a twelfth of the SAME bytes.  With the limit at 2, this 78-byte
    input (a Message declaring 5 entries whose first field is a sub-Message declaring 3 entries, which stores one empty
    field and then meets zero bytes) requests 5 + 3 = 8 table slots, more than one twelfth of its length; nested `d`
    deep the same construction requests about `d·N/12`, so for the uncapped model no bound `table ≤ A·N` with a
    numeral `A` independent of `mx` exists (measured on the real parser before the fix: depth 250, N = 107 482 →
    137 797 064 bytes requested). -/
theorem uncapped_table_exceeds_view_twelfth :
    ∃ b : Bytes, ¬ (12 * (decodeT none 2 b).2.table ≤ b.length) :=
  ⟨[0x30, 0x30, 0x4D, 0x50, 0, 0, 0, 0, 5, 0, 0, 0] ++ le32 2 ++ [0x61, 0] ++ le32 tcMessage ++ le32 52 ++ le32 48 ++
    ([0x30, 0x30, 0x4D, 0x50, 0, 0, 0, 0, 3, 0, 0, 0] ++ le32 2 ++ [0x62, 0] ++ le32 tcMessage ++ le32 0 ++
     [0, 0, 0, 0, 0, 0, 0, 0, 0, 0, 0, 0, 0, 0, 0, 0, 0, 0, 0, 0, 0, 0]), by
  simp [decodeT, decMsgT, decMsg, decFieldsT, decFields, decPayloadT, decMsgItemsT, presize, putCharge, upsertField, rd32, rdN, takeN, leVal, le32, leN, cstr,
    lookupField, wireItemSize, nestGuard, entryCountGuard, oldestProtocolVersion, protocolVersion, Tally.add_def, htDefaultCapacity,
    tcMessage, tcBool, tcDouble, tcFloat, tcInt64, tcInt32, tcInt16, tcInt8, tcPoint, tcRect, tcPointer, tcTag]⟩

/-! ## declared counts and lengths are harmless -/

/-- A header declaring `n` entries with fewer than `12·n` bytes behind it: the parse fails and NOTHING was reserved or
    copied — whatever `n` is. -/
theorem declared_entry_count_harmless (cap : Option Nat) (mx fuel lvl ver what n : Nat) (rest : Bytes)
    (hv : ver < 4294967296) (hw : what < 4294967296) (hn : n < 4294967296) (h : rest.length < 12 * n) :
    (decMsgT cap mx fuel lvl (le32 ver ++ (le32 what ++ (le32 n ++ rest)))).1 = none ∧
    (decMsgT cap mx fuel lvl (le32 ver ++ (le32 what ++ (le32 n ++ rest)))).2.table = 0 ∧
    (decMsgT cap mx fuel lvl (le32 ver ++ (le32 what ++ (le32 n ++ rest)))).2.reserve = 0 ∧
    (decMsgT cap mx fuel lvl (le32 ver ++ (le32 what ++ (le32 n ++ rest)))).2.copied = 0 ∧
    (decMsgT cap mx fuel lvl (le32 ver ++ (le32 what ++ (le32 n ++ rest)))).2.steps ≤ 1 := by
  cases fuel with
  | zero => simp [decMsgT]
  | succ fuel =>
    rw [decMsgT]
    simp only [nestGuard, entryCountGuard, Bool.true_and, decide_eq_true_eq]
    by_cases hl : mx < lvl
    · rw [if_pos hl]; simp
    · rw [if_neg hl]
      simp only [rd32_le32 _ _ hv, rd32_le32 _ _ hw, rd32_le32 _ _ hn]
      by_cases hver : ver < oldestProtocolVersion ∨ protocolVersion < ver
      · rw [if_pos hver]; simp
      · rw [if_neg hver]
        have : rest.length / 12 < n := by omega
        rw [if_pos this]; simp

/-- Non-vacuity: a header declaring 4 000 000 000 entries in front of 5 bytes. -/
example : (5 : Nat) < 12 * 4000000000 ∧ (4000000000 : Nat) < 4294967296 := by decide

/-- A string field declaring `cnt` items with fewer than `4·cnt` bytes behind the count: the field fails and nothing
    was reserved or copied — whatever `cnt` is. -/
theorem declared_string_count_harmless (cap : Option Nat) (mx fuel lvl cnt : Nat) (q : Bytes)
    (hc : cnt < 4294967296) (h : q.length < 4 * cnt) :
    (decPayloadT cap mx fuel lvl tcString (le32 cnt ++ q)).1 = none ∧
    (decPayloadT cap mx fuel lvl tcString (le32 cnt ++ q)).2.table = 0 ∧
    (decPayloadT cap mx fuel lvl tcString (le32 cnt ++ q)).2.reserve = 0 ∧
    (decPayloadT cap mx fuel lvl tcString (le32 cnt ++ q)).2.copied = 0 ∧
    (decPayloadT cap mx fuel lvl tcString (le32 cnt ++ q)).2.steps ≤ 1 := by
  unfold decPayloadT
  have e0 : ¬ (wireItemSize tcString ≠ 0) := by decide
  have e1 : ¬ (tcString = tcPointer ∨ tcString = tcTag) := by decide
  have e2 : ¬ (tcString = tcMessage) := by decide
  rw [if_neg e0, if_neg e1, if_neg e2]
  simp only [rd32_le32 _ _ hc, if_true, strCountGuard, Bool.true_and, decide_eq_true_eq]
  by_cases h5 : cnt ≠ 1 ∧ q.length / 4 < cnt
  · rw [if_pos h5]; simp
  · rw [if_neg h5]
    have h1 : cnt = 1 := by omega
    subst h1
    have : rd32 q = none := c2_rd32_short (by omega)
    simp [decStrItemsT, this, Tally.add_def]

/-- Non-vacuity: 20 000 000 strings declared in front of 6 bytes (the input of the fixed defect: 350 MB reserved). -/
example : (6 : Nat) < 4 * 20000000 ∧ (20000000 : Nat) < 4294967296 := by decide

/-- A ByteBuffer item declaring `len` bytes with fewer than `len` bytes behind the length word: the loop fails at that
    item and no buffer of the declared size was obtained or filled. -/
theorem declared_raw_length_harmless (k len : Nat) (q : Bytes) (hl : len < 4294967296) (h : q.length < len) :
    (decRawItemsT (k + 1) (le32 len ++ q)).1 = none ∧
    (decRawItemsT (k + 1) (le32 len ++ q)).2.reserve = 0 ∧
    (decRawItemsT (k + 1) (le32 len ++ q)).2.copied = 0 ∧
    (decRawItemsT (k + 1) (le32 len ++ q)).2.steps = 1 := by
  simp only [decRawItemsT, rd32_le32 _ _ hl, rawLenGuard, Bool.true_and, decide_eq_true_eq]
  rw [if_pos h]; simp

/-- A sub-Message item declaring `len` bytes with fewer than `len` bytes behind the length word: the loop fails at that
    item; no Message was obtained and no reader of the declared size was made. -/
theorem declared_submsg_length_harmless (cap : Option Nat) (mx fuel lvl len : Nat) (q : Bytes) (hl : len < 4294967296) (h : q.length < len) :
    (decMsgItemsT cap mx (fuel + 1) lvl (le32 len ++ q)).1 = none ∧
    (decMsgItemsT cap mx (fuel + 1) lvl (le32 len ++ q)).2.reserve = 0 ∧
    (decMsgItemsT cap mx (fuel + 1) lvl (le32 len ++ q)).2.window = 0 ∧
    (decMsgItemsT cap mx (fuel + 1) lvl (le32 len ++ q)).2.steps = 1 := by
  obtain ⟨a, t, hat⟩ : ∃ a t, le32 len ++ q = a :: t := by simp [le32, leN]
  rw [hat, decMsgItemsT, ← hat]
  simp only [rd32_le32 _ _ hl, subMsgLenGuard, Bool.true_and, decide_eq_true_eq]
  rw [if_pos h]; simp

/-- Non-vacuity of the last two: 4 000 000 000 bytes declared in front of 3. -/
example : (3 : Nat) < 4000000000 ∧ (4000000000 : Nat) < 4294967296 := by decide

/-! ## the accepted object is no bigger than the input -/

/-- Whatever a successful `Message::Unflatten` returns re-flattens into no more bytes than it consumed
    (`String::Unflatten` stops at the first NUL and bool bytes are normalised — both only shrink or keep; a repeated
    field name REPLACES the earlier entry; a length word is 4 bytes whatever it says). -/
theorem reader_result_size (mx fuel lvl : Nat) (b : Bytes) (m : Msg) (rest : Bytes)
    (h : decMsg mx fuel lvl b = some (m, rest)) : (encMsg m).length + rest.length ≤ b.length :=
  (c2_sizeAt mx fuel).msg lvl b m rest h

/-- The accepted object is no bigger than the input: K = 1, K0 = 0. -/
theorem decode_result_size (mx : Nat) (b : Bytes) (m : Msg) (h : decode mx b = some m) :
    (encode m).length ≤ b.length := by
  unfold decode at h
  cases hd : decMsg mx (b.length + 2) 1 b with
  | none => rw [hd] at h; cases h
  | some v =>
    obtain ⟨m', r⟩ := v
    rw [hd] at h
    cases h
    have := (c2_sizeAt mx _).msg _ _ _ _ hd
    simp only [encode]; omega

/-- Non-vacuity: a header-only Message followed by a stray byte is accepted (and re-flattens into 12 ≤ 13 bytes). -/
example : ∃ m, decode 256 [0x30, 0x30, 0x4D, 0x50, 0, 0, 0, 0, 0, 0, 0, 0, 7] = some m :=
  ⟨.mk 0 [], by
  simp [decode, decMsg, decFields, rd32, rdN, takeN, leVal, oldestProtocolVersion, protocolVersion]⟩

end Muscle.Props.C02
