import MuscleModel.Wire.Decode

/-!
# C02 — Parsing untrusted bytes is memory-safe, terminates, and costs O(input)

Placeholder written with the `parse` harness so that the pipeline runs; the property theorems (no_fault, rd_invariant,
alloc_linear, steps_linear, depth_bounded, …) are stated by the session owner.  The one theorem below is a true
statement about the parser model `decode` (= `Message::UnflattenFromBytes`): a buffer shorter than the 12-byte header
is rejected, whatever the nesting limit.
-/

namespace Muscle.Props.C02
open Muscle Muscle.Wire

/-- Fewer than 12 bytes can never parse: the three header words are read before anything else. -/
theorem decode_short_is_error (mx : Nat) (b : Bytes) (h : b.length < 12) : decode mx b = none := by
  have r4 : ∀ (x r : Bytes) (n : Nat), rd32 x = some (n, r) → x.length = r.length + 4 := fun x r n hx => rd32_length hx
  unfold decode
  have : decMsg mx (b.length + 2) 1 b = none := by
    rw [show b.length + 2 = (b.length + 1) + 1 from rfl]
    unfold decMsg
    split
    · rfl
    · cases h1 : rd32 b with
      | none => rfl
      | some p1 =>
        obtain ⟨v, b1⟩ := p1
        have l1 := r4 _ _ _ h1
        simp only
        split
        · rfl
        · cases h2 : rd32 b1 with
          | none => rfl
          | some p2 =>
            obtain ⟨w, b2⟩ := p2
            have l2 := r4 _ _ _ h2
            simp only
            cases h3 : rd32 b2 with
            | none => rfl
            | some p3 =>
              obtain ⟨n, b3⟩ := p3
              have l3 := r4 _ _ _ h3
              omega
  simp [this]

/-- Non-vacuity: an 11-byte prefix of a valid header is such a buffer. -/
example : decode 256 [0x30, 0x30, 0x4D, 0x50, 0, 0, 0, 0, 0, 0, 0] = none := decode_short_is_error _ _ (by decide)

end Muscle.Props.C02
