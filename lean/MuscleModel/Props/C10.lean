import MuscleModel.Conc.ProofsRCInv

/-!
# C10 — Reference-counted and pooled objects are released exactly once, never early

Statements only (proofs call lemmas of `MuscleModel/Conc/Proofs*.lean`).  Every theorem quantifies over **all** thread
programs (any number of threads, any finite sequences of new-heap / obtain-from-pool / copy / `SetRef` / `Reset` /
swap / hand-off / payload write / const-cast round trip / setting, clearing and following an object's own `next`
reference (linked lists, with the cascading release of a chain) / non-counting `Ref`s made, promoted, demoted and
neutralized), **all** pool parameters (`N` = objects per slab ≥ 1,
`maxPool`), any numbers `L`, `G` of private and global slots, and **every** schedule: `Reachable … c` = "`c` is
reachable from the initial configuration by some sequence of enabled events", where one event is one atomic step of
one thread (one `AtomicCounter` operation, one critical section of the pool's `_mutex`, one plain local action).
The model is sequentially consistent; `std::atomic` and `std::recursive_mutex` are in the trusted base.
-/

namespace Muscle.Props.C10
open Muscle.Conc Muscle.Conc.Pool Muscle.Conc.RC

/-- reachable from the initial configuration of `progs` (thread `i` runs `progs[i]`) under some schedule -/
def Reachable (N maxPool L G : Nat) (progs : List (List Op)) (c : Cfg) : Prop := machine.Reach (Cfg.init N maxPool L G progs) c

/-- every result of running a schedule (SKIP rule) and then the TAIL rule — what `mdriver rc` prints — is reachable -/
theorem driver_runs_are_reachable (N maxPool L G : Nat) (progs : List (List Op)) (evs : List Ev) (n fuel : Nat) :
    Reachable N maxPool L G progs (machine.runTail n fuel (machine.runSched (Cfg.init N maxPool L G progs) evs).1).1 :=
  machine.reach_runTail n fuel (machine.reach_runSched Machine.Reach.init evs)

/-- **The count is the number of references.**  In every reachable configuration the reference count of every object
equals the number of reference-counting `Ref`s that point to it: private slots of all threads + global slots +
references whose decrement is still pending + `next` members of other objects (`refs`; by `links_are_between_live_objects`
the holders of those `next` members are exactly alive objects).  Non-counting `Ref`s do not count. -/
theorem count_is_refs {N maxPool L G progs c} (hN : 0 < N) (h : Reachable N maxPool L G progs c) (o : Oid) :
    (c.obj o).count = refs c o :=
  (reach_inv hN h).cnt o

/-- **Never early.**  While any reference to an object exists — in a slot of any thread, in a global slot, or as a
pending decrement — the object is alive (neither destroyed nor reset/returned to its pool). -/
theorem never_early {N maxPool L G progs c} (hN : 0 < N) (h : Reachable N maxPool L G progs c) (o : Oid)
    (hheld : 0 < refs c o) : (c.obj o).alive = true :=
  (reach_inv hN h).alive o hheld

/-- `never_early`, spelled out for a reference-counting `Ref` slot of a thread -/
theorem never_early_slot {N maxPool L G progs c} (hN : 0 < N) (h : Reachable N maxPool L G progs c) (t : Tid) (th : Th) (a : Nat)
    (o : Oid) (ht : c.ths[t]? = some th) (hs : slotOf th a = some (o, true)) : (c.obj o).alive = true ∧ 0 < (c.obj o).count :=
  slot_alive (reach_inv hN h) ht hs

/-- `never_early` for the reference an object holds itself: every `next` member belongs to an alive object and
references an alive object (so "count = slots + globals + pending decrements + `next` members of ALIVE objects"), and
an object holds at most one. -/
theorem links_are_between_live_objects {N maxPool L G progs c} (hN : 0 < N) (h : Reachable N maxPool L G progs c) :
    (∀ x n, (x, n) ∈ c.links → (c.obj x).alive = true ∧ (c.obj n).alive = true ∧ 0 < (c.obj n).count) ∧
    (c.links.map (·.1)).Nodup := by
  have hi := reach_inv hN h
  refine ⟨fun x n hm => ?_, hi.linksND⟩
  have hp : 0 < refs c n := by have := cntL_pos hm; have := cntL_le_refs c n; omega
  exact ⟨hi.linkAlive x n hm, hi.alive n hp, by rw [hi.cnt n]; exact hp⟩

/-- a released object references nothing any more (its `next` member was given up when it was reset / destroyed) -/
theorem released_holds_nothing {N maxPool L G progs c} (hN : 0 < N) (h : Reachable N maxPool L G progs c) (x : Oid)
    (hd : (c.obj x).alive = false) : nextOf c.links x = none := by
  cases hn : nextOf c.links x with
  | none => rfl
  | some n => have := (reach_inv hN h).linkAlive x n (nextOf_mem hn); rw [hd] at this; cases this

/-- **Released exactly once.**  For every object, releases (destructions / returns to the pool) never outnumber
hand-outs, an object that is alive has exactly one release outstanding, a heap object is released at most once ever,
and once it has been released (not alive) nobody holds a reference to it and its count is 0. -/
theorem released_once {N maxPool L G progs c} (hN : 0 < N) (h : Reachable N maxPool L G progs c) (o : Oid) :
    (c.obj o).acq = (c.obj o).rel + (if (c.obj o).alive then 1 else 0) ∧
    (∀ k, o = .heap k → (c.obj o).rel ≤ 1) ∧
    ((c.obj o).alive = false → refs c o = 0 ∧ (c.obj o).count = 0) := by
  have hi := reach_inv hN h
  refine ⟨by have := hi.acq o; simpa [b2n] using this, ?_, ?_⟩
  · intro k hk; subst hk
    have h1 := hi.acq (.heap k); have h2 := hi.heapAcq k; omega
  · intro hd
    have hc := count_zero_of_dead hi hd
    exact ⟨by rw [← hi.cnt o]; exact hc, hc⟩

/-- **Pool bookkeeping is consistent.**  Every listed slab has `N` nodes; its free list (the `_nextIndex` chain from
`_firstFreeNodeIndex`) is acyclic (a duplicate-free list) and consists of exactly the nodes that are not handed out;
free-list length + `_numNodesInUse` = `N`; `_numNodesInUse` is the number of handed-out nodes; slab identities are
distinct; `_curPoolSize` is the number of free nodes of the listed slabs. -/
theorem pool_inv {N maxPool L G progs c} (hN : 0 < N) (h : Reachable N maxPool L G progs c) :
    (∀ s ∈ c.pool.slabs, s.nodes.length = c.pool.N ∧ s.inUse = outCount s.nodes ∧
        ∃ fl : List Nat, Chain s.nodes s.first fl ∧ fl.Nodup ∧ (∀ i, i ∈ fl ↔ ∃ nd, s.nodes[i]? = some nd ∧ nd.out = false) ∧
          fl.length + s.inUse = c.pool.N) ∧
    (c.pool.slabs.map (·.id)).Nodup ∧ c.pool.cur = freeCount c.pool.N c.pool.slabs := by
  have hp := (reach_inv hN h).pool
  exact ⟨fun s hs => ⟨(hp.slabs s hs).len, (hp.slabs s hs).cnt, (hp.slabs s hs).fl⟩, hp.ids, hp.cur⟩

/-- the ghost bit of the pool agrees with the objects: a pool node is alive or awaits its `ReleaseObjectAux` (exactly one
of the two, never twice) iff it is marked handed-out in a listed slab -/
theorem pool_matches_objects {N maxPool L G progs c} (hN : 0 < N) (h : Reachable N maxPool L G progs c) (s i : Nat) :
    b2n (c.obj (.node s i)).alive + pendRel c (.node s i) = b2n (outBit c.pool s i) :=
  (reach_inv hN h).out (.node s i)

/-- **One owner at a time.**  `ObtainObjectAux` never returns a node that is in use: the node it is about to hand out is
free in its slab, not alive, referenced by nobody, not awaiting release — and an object that has just been handed out
(the raw pointer of thread `t`) is alive, has count 0, and is nobody else's raw pointer. -/
theorem one_owner {N maxPool L G progs c} (hN : 0 < N) (h : Reachable N maxPool L G progs c) :
    (let g := (obtain c.pool).2
     outBit c.pool g.sid g.idx = false ∧ (c.obj (.node g.sid g.idx)).alive = false ∧ refs c (.node g.sid g.idx) = 0 ∧
       pendRel c (.node g.sid g.idx) = 0) ∧
    (∀ (t : Tid) (th : Th) (o : Oid), c.ths[t]? = some th → th.raw = some o → (c.obj o).alive = true ∧ refs c o = 0 ∧
       ∀ (u : Tid) (tu : Th), c.ths[u]? = some tu → tu.raw = some o → u = t) := by
  have hi := reach_inv hN h
  constructor
  · have hb := (obtain_spec hi.pool).2.1
    have ⟨hd, hp⟩ := dead_of_outBit_false hi hb
    exact ⟨hb, hd, by rw [← hi.cnt]; exact count_zero_of_dead hi hd, hp⟩
  · intro t th o ht hr
    have ⟨ha, hc⟩ := hi.raw t th o ht hr
    exact ⟨ha, by rw [← hi.cnt]; exact hc, fun u tu hu hru => hi.rawU u t tu th o hu ht hru hr⟩

/-- **Fresh state.**  A pool node that is not handed out is in the default state (payload 0, no manager, count 0) — in
particular the node `ObtainObjectAux` hands out next is indistinguishable from a freshly constructed object. -/
theorem fresh_state {N maxPool L G progs c} (hN : 0 < N) (h : Reachable N maxPool L G progs c) :
    (∀ s i, (c.obj (.node s i)).alive = false → (c.obj (.node s i)).val = 0 ∧ (c.obj (.node s i)).mgr = false ∧ (c.obj (.node s i)).count = 0) ∧
    (let g := (obtain c.pool).2
     (c.obj (.node g.sid g.idx)).val = 0 ∧ (c.obj (.node g.sid g.idx)).mgr = false ∧ (c.obj (.node g.sid g.idx)).count = 0) := by
  have hi := reach_inv hN h
  have h1 : ∀ s i, (c.obj (.node s i)).alive = false → (c.obj (.node s i)).val = 0 ∧ (c.obj (.node s i)).mgr = false ∧ (c.obj (.node s i)).count = 0 :=
    fun s i hd => ⟨(hi.fresh s i hd).1, (hi.fresh s i hd).2, count_zero_of_dead hi hd⟩
  exact ⟨h1, h1 _ _ (dead_of_outBit_false hi (obtain_spec hi.pool).2.1).1⟩

/-- **Slab deletion is safe.**  A slab that a thread is about to `delete` (outside the lock) has no node in use, is not
on the slab list (and never will be again), and none of its objects is alive or referenced by anybody. -/
theorem slab_delete_safe {N maxPool L G progs c} (hN : 0 < N) (h : Reachable N maxPool L G progs c) (t : Tid) (th : Th) (s : Slab)
    (ht : c.ths[t]? = some th) (hs : Act.delSlab s ∈ th.todo) :
    s.inUse = 0 ∧ (∀ x ∈ c.pool.slabs, x.id ≠ s.id) ∧ s.id < c.pool.nextSlab ∧
    ∀ i, (c.obj (.node s.id i)).alive = false ∧ refs c (.node s.id i) = 0 := by
  have hi := reach_inv hN h
  have ⟨h1, h2, h3⟩ := hi.del t th s ht hs
  refine ⟨h1, h3, h2, ?_⟩
  intro i
  have hb : outBit c.pool s.id i = false := by rw [outBit_eq]; exact outBitL_none h3 i
  have hd := (dead_of_outBit_false hi hb).1
  exact ⟨hd, by rw [← hi.cnt]; exact count_zero_of_dead hi hd⟩

/-- heap objects never enter the pool: they carry no manager and no release into the pool is ever pending for them -/
theorem heap_never_pooled {N maxPool L G progs c} (hN : 0 < N) (h : Reachable N maxPool L G progs c) (k : Nat) :
    (c.obj (.heap k)).mgr = false ∧ pendRel c (.heap k) = 0 := by
  have hi := reach_inv hN h
  have := hi.out (.heap k)
  exact ⟨hi.heapMgr k, by simpa [aliveN, outBitO] using this⟩

/-- **Assigning a `Ref` from a reference held inside the object it points to** (`a = a->next`, /repo commit 3dba531).
At the step that increments the successor's count, the successor `n` is alive (the old head `o`, still referenced by
slot `a`, holds it); after the step `n` is alive with one more reference, slot `a` counts `n`, and the release of the
old head is queued *behind* the increment.  So the object formerly in `a->next` is alive after `a := a->next` iff it was
before — and by `never_early_slot` it stays alive as long as slot `a` holds it. -/
theorem assign_from_owned_ref_safe {N maxPool L G progs c} (hN : 0 < N) (h : Reachable N maxPool L G progs c) (t : Tid) (th : Th)
    (a : Nat) (o n : Oid) (more : List Act) (ht : c.ths[t]? = some th) (htodo : th.todo = .incPop a :: more)
    (hsa : slotOf th a = some (o, true)) (hn : nextOf c.links o = some n) :
    (c.obj n).alive = true ∧
    ∃ c', machine.step c (.run t) = some (c', []) ∧ (c'.obj n).alive = true ∧ (c'.obj n).count = (c.obj n).count + 1 ∧
      c'.ths[t]? = some { th with slots := th.slots.set a (some (n, true)), todo := .dec o :: more } := by
  have hi := reach_inv hN h
  have hal := (links_are_between_live_objects hN h).1 o n (nextOf_mem hn)
  have htl : t < c.ths.length := by rcases List.getElem?_eq_some_iff.mp ht with ⟨hl, _⟩; exact hl
  refine ⟨hal.2.1, { c with obj := bump c n, ths := c.ths.set t { th with slots := th.slots.set a (some (n, true)), todo := .dec o :: more } },
    by simp [machine, step, ht, htodo, doAct, hsa, hn], ?_, ?_, ?_⟩
  · simp [bump, hal.2.1]
  · simp [bump]
  · simp [htl]

/-! ## Non-vacuity: the situations the theorems talk about are reachable -/

def run (N maxPool : Nat) (progs : List (List Op)) (evs : List Nat) : Cfg :=
  (machine.runSched (Cfg.init N maxPool 3 2 progs) (evs.map Ev.run)).1

theorem run_reach (N maxPool : Nat) (progs : List (List Op)) (evs : List Nat) : Reachable N maxPool 3 2 progs (run N maxPool progs evs) :=
  machine.reach_runSched Machine.Reach.init _

/-- two threads share one pooled object (count 2, alive), handed over through a global slot -/
example : ∃ c, Reachable 2 0 3 2 [[.newPool 0, .copy 1 0, .xchg 1 0], [.xchg 0 0]] c ∧
    (c.obj (.node 0 1)).count = 2 ∧ (c.obj (.node 0 1)).alive = true ∧ refs c (.node 0 1) = 2 :=
  ⟨run 2 0 [[.newPool 0, .copy 1 0, .xchg 1 0], [.xchg 0 0]] [0, 0, 0, 0, 0, 0, 1], run_reach _ _ _ _, by decide, by decide, by decide⟩

/-- an object is released (once) after its last reference went away, and then handed out again in the default state -/
example : ∃ c, Reachable 2 0 3 2 [[.newPool 0, .write 0, .reset 0, .newPool 1]] c ∧
    (c.obj (.node 0 1)).rel = 1 ∧ (c.obj (.node 0 1)).acq = 2 ∧ (c.obj (.node 0 1)).alive = true ∧ (c.obj (.node 0 1)).val = 0 :=
  ⟨run 2 0 [[.newPool 0, .write 0, .reset 0, .newPool 1]] [0, 0, 0, 0, 0, 0, 0, 0, 0, 0], run_reach _ _ _ _, by decide, by decide, by decide, by decide⟩

/-- a slab deletion is pending (outside the lock) in a reachable configuration -/
example : ∃ c, Reachable 1 0 3 2 [[.newPool 0, .newPool 1, .reset 0, .reset 1]] c ∧
    (c.ths[0]?.map fun th => th.todo.any fun a => match a with | .delSlab _ => true | _ => false) = some true :=
  ⟨run 1 0 [[.newPool 0, .newPool 1, .reset 0, .reset 1]] [0, 0, 0, 0, 0, 0, 0, 0, 0, 0, 0, 0, 0], run_reach _ _ _ _, by decide⟩

/-- a heap object is destroyed exactly once -/
example : ∃ c, Reachable 1 0 3 2 [[.newHeap 0, .ccast 1 0, .reset 0, .reset 1]] c ∧
    (c.obj (.heap 0)).rel = 1 ∧ (c.obj (.heap 0)).alive = false :=
  ⟨run 1 0 [[.newHeap 0, .ccast 1 0, .reset 0, .reset 1]] [0, 0, 0, 0, 0, 0, 0, 0, 0, 0, 0, 0, 0, 0], run_reach _ _ _ _, by decide, by decide⟩

/-- a linked list head -> second whose only other reference to `second` is `head->next`; after the pop `a = a->next`
(the order of /repo commit 3dba531) the head is destroyed and `second` is alive with count 1, held by the slot -/
def popProg : List (List Op) := [[.newHeap 0, .newHeap 1, .link 0 1, .reset 1, .pop 0]]

example : ∃ c, Reachable 1 0 3 2 popProg c ∧ (c.obj (.heap 0)).alive = false ∧ (c.obj (.heap 1)).alive = true ∧
    (c.obj (.heap 1)).count = 1 ∧ (c.ths[0]?.map fun th => slotOf th 0) = some (some (.heap 1, true)) :=
  ⟨run 1 0 popProg [0, 0, 0, 0, 0, 0, 0, 0, 0, 0, 0, 0], run_reach _ _ _ _, by decide, by decide, by decide, by decide⟩

/-- a cascading release: dropping the last reference to the head of a two-element pooled chain releases both -/
example : ∃ c, Reachable 2 0 3 2 [[.newPool 0, .newPool 1, .link 0 1, .reset 1, .reset 0]] c ∧
    (c.obj (.node 0 1)).rel = 1 ∧ (c.obj (.node 0 0)).rel = 1 ∧ c.links = [] :=
  ⟨run 2 0 [[.newPool 0, .newPool 1, .link 0 1, .reset 1, .reset 0]] [0, 0, 0, 0, 0, 0, 0, 0, 0, 0, 0, 0, 0, 0, 0, 0, 0, 0, 0, 0], run_reach _ _ _ _,
   by decide, by decide, by decide⟩

/-- a non-counting `Ref` does not count, and promoting it does: count 1 → (alias) 1 → (promote) 2 -/
example : ∃ c, Reachable 2 0 3 2 [[.newPool 0, .weak 1 0, .promote 1]] c ∧ (c.obj (.node 0 1)).count = 2 ∧
    (c.ths[0]?.map fun th => slotOf th 1) = some (some (.node 0 1, true)) :=
  ⟨run 2 0 [[.newPool 0, .weak 1 0, .promote 1]] [0, 0, 0, 0, 0, 0], run_reach _ _ _ _, by decide, by decide⟩

/-- **Why the order matters (the defect repaired by /repo commit 3dba531).**  With `SetRef()`'s former order — release
the old item, store the pointer, then reference the new item — the same pop destroys `second` together with the head
(the head's `next` member was the only other reference) and then increments the count of the destroyed object: the
thread's slot is a reference-counting `Ref` to an object that is not alive.  `never_early_slot` is false for
`machineOld`; this configuration is reachable there. -/
theorem old_order_counterexample :
    ∃ c, machineOld.Reach (Cfg.init 1 0 3 2 popProg) c ∧
      (c.ths[0]?.map fun th => slotOf th 0) = some (some (.heap 1, true)) ∧ (c.obj (.heap 1)).alive = false ∧ (c.obj (.heap 1)).rel = 1 :=
  ⟨(machineOld.runSched (Cfg.init 1 0 3 2 popProg) ((List.replicate 12 0).map Ev.run)).1,
   machineOld.reach_runSched Machine.Reach.init _, by decide, by decide, by decide⟩

end Muscle.Props.C10
